"""C15 -- diagnostics name the file and line of the offending construct.

oracle  (the heart) planters for every local error kind of the statement, planted at every insertion
        position of every file of generated valid multi-file programs, after several shapes of preceding
        text; the real compiler's FIRST returned error must carry the planted file and the planted line.
tie     the pieces of the Coq development that are models of code are compared with the code on the same
        inputs: find_conflict_markers (Diag/Conflict.v) against the harness on generated sources, the
        file-id numbering (Diag/FileIds.v) against `tree`'s module list, and the token line of
        Lex/Logos.v (C17's extracted lexer) against the line the parser reports for a stray token."""
import collections
import json
import os
import re

import diag_gen
import vlib

GEN = ["GenTokens", "GenDiag"]
TRUSTED = [
    "Coq 8.16.1 kernel (coqc); vm_compute only for the table obligation and examples; no axioms",
    "Lex/Logos.v + Lex/LexerProofs.v (C17): lex_token_spec gives every token's line; the lexer model itself is tied to the real tokenizer by C17's correspondence",
    "Diag/Conflict.v as the model of find_conflict_markers and of Rust's str::lines (split at \\n, one trailing \\r stripped per line, no empty last line): modelled, not verified; validated against the real function on generated sources",
    "Diag/FileIds.v as the model of the work-list in sylt_parser::tree (file_id = number of files visited so far) and of Compiler::extract_namespaces: validated against `tree`'s module list on generated import graphs (cycles, diamonds, missing files)",
    "Diag/SyntaxErr.v as the model of Context::peek/span/skip/push_skip_newlines, of the syntax_error!/raise_syntax_error!/expect! macros and of outer_statement's error (tokens ahead + spans.last())",
    "translator tools/gens/gen_diag.py (the macro bodies, Context::peek, Span::zero, find_conflict_markers, extract_namespaces, the error!/resolution_error!/err_type_error! macros: normalised text compared with the reviewed text in Diag/DocDiag.v)",
    "the planters and the base-program generator in tools/diag_gen.py; harness `compile` (prints kind|file|line of every returned error in order), `tree`",
    "extraction: ExtrOcamlBasic + ExtrOcamlString only; ocaml/diag_driver.ml",
]
ASSUMPTIONS = [
    "per-kind theorems `the first error carries the span of the planted construct` for resolver / type-checker kinds are STATED (Definition ..._statement : Prop) and covered by the oracle only",
    "message text, columns and helper notes are not compared; only file and span.line_start of the first returned error",
    "for a duplicate global either definition is accepted as `the offending construct`; for a missing `end` any line from the function's last line to the line where the input ends is accepted (the parser cannot know where the `end` was meant to be), line 0 is not; for a bracket left open any later line of the same file is accepted (newlines are skipped inside brackets), line 0 is not",
    "only known_findings entries with status `open` suppress a classifier: the three classes fixed in /repo (953bea1, b18ca25, 6e4bbe6) are VIOLATIONs again if they recur",
]
EXPLANATION = ("Theorems: the line a token carries is 1 + the number of newlines before it (all inputs); the conflict-marker error carries the "
               "line that starts with <<<<<<<; file ids assigned by tree() are mapped back to the same file by namespace_id_to_file for "
               "every import graph; a syntax error raised through raise_syntax_error!/expect! carries the span of the current token "
               "(Span::zero = line 0 at end of input). Oracle: every local error kind planted at every position of multi-file programs.")

_state = {}

KINDS = list(diag_gen.PLANTERS)


def gen_cases(ctx):
    """list of planted cases (dict from diag_gen.plant + std flag)"""
    r = vlib.rng(ctx.seed, "c15")
    nprog = 5 if ctx.tier == "quick" else 40
    shapes_per = 2 if ctx.tier == "quick" else 4
    cases = []
    bases = []
    uid = 0
    # corpus first
    cp = os.path.join(vlib.VERIF, "corpus", "c15", "cases.json")
    if os.path.exists(cp):
        for w in json.load(open(cp, encoding="utf-8")):
            c = dict(w["planted"])
            c.update(files=w["files"], std=w.get("std", False), prog=-1, ctx="corpus", needs_std=w.get("std", False))
            cases.append(c)
    for pi in range(nprog):
        files, positions = diag_gen.base_program(r, 2 + pi % 3)
        bases.append(files)
        for pos in positions:
            for kind in KINDS:
                shapes = ["plain"] + r.sample(diag_gen.SHAPES[1:], shapes_per)
                for shape in shapes:
                    uid += 1
                    c = diag_gen.plant(r, files, pos, kind, shape, uid)
                    if c is None:
                        break
                    c["std"] = c["needs_std"] or r.random() < 0.08
                    c["prog"] = pi
                    cases.append(c)
    return bases, cases


def parse_errs(line):
    """harness line -> ('OK'|'ERR'|other, [(kind, file, line)])"""
    if line.startswith("OK"):
        return "OK", []
    if not line.startswith("ERR"):
        return line.split(" ")[0], []
    out = []
    for e in line.split(" ")[1:]:
        f = e.split("|")
        if len(f) >= 3:
            out.append((f[0], f[1], int(f[2])))
    return "ERR", out


def classify(c, status, errs):
    """None when the property holds for this planted case, else (classifier, description)"""
    if c["kind"] == "control":
        return None if status == "OK" else ("c15:control-rejected", "a valid program (shape %s only) was rejected: %s" % (c["shape"], errs[:1]))
    if status == "OK":
        return ("c15:accepted", "the planted %s was accepted" % c["kind"])
    if status != "ERR" or not errs:
        return ("c15:" + status.lower(), "the compiler did not return an error list: %s" % status)
    kind, file, line = errs[0]
    fam = c["kind"].split(":")[0]
    if file != c["file"]:
        if file.startswith("lib:"):
            return ("c15:attributed-to-std", "%s planted in %s line %d is reported in the standard library (%s:%d)" % (
                c["kind"], c["file"], c["line"], file, line))
        return ("c15:wrong-file:" + fam, "%s planted in %s line %d is reported in %s:%d" % (c["kind"], c["file"], c["line"], file, line))
    if c["eof"]:
        if line == 0:
            return ("c15:line-0:" + c["kind"], "%s (function ending at line %d of %d) is reported at line 0" % (c["kind"], c["line"], c["nlines"]))
        lo = min(c["line"], c["nlines"])
        if line < lo or line > c["nlines"] + 1:
            return ("c15:wrong-line:" + c["kind"], "%s reported at line %d, outside [%d, %d]" % (c["kind"], line, lo, c["nlines"] + 1))
        return None
    if c.get("later_ok") and line >= c["line"]:
        return None
    if line not in c["allowed_lines"]:
        if line == 0:
            return ("c15:line-0:" + c["kind"], "%s planted at line %d is reported at line 0" % (c["kind"], c["line"]))
        return ("c15:wrong-line:" + c["kind"], "%s planted at line %d is reported at line %d" % (c["kind"], c["line"], line))
    return None


def run_oracle(ctx):
    if "oracle" in _state:
        return _state["oracle"]
    bases, cases = gen_cases(ctx)
    base_lines = [diag_gen.case_line({p: diag_gen.render(l, "plain") for p, l in f.items()}, std) for f in bases for std in (False, True)]
    base_res = vlib.harness("compile", base_lines, timeout_s=30)
    bad_bases = [i // 2 for i, x in enumerate(base_res) if not x.startswith("OK")]
    lines = [diag_gen.case_line(c["files"], c["std"]) for c in cases]
    res = vlib.harness("compile", lines, timeout_s=30)
    viols = []
    for c, l in zip(cases, res):
        st, errs = parse_errs(l)
        v = classify(c, st, errs)
        c["first"] = errs[0] if errs else None
        c["nerrs"] = len(errs)
        if v:
            viols.append((v[0], v[1], c))
    _state["oracle"] = (bases, cases, res, viols, bad_bases)
    return _state["oracle"]


def minimal(viol_cases):
    """the smallest witness of a list of violating cases (by source size)"""
    return min(viol_cases, key=lambda c: (len(c["files"]), sum(len(s) for s in c["files"].values())))


def known_classifiers():
    out = {}
    for k in vlib.known_findings("C15"):
        if k.get("status") == "open":
            for cl in (k.get("classifiers") or [k.get("classifier")]):
                if cl:
                    out[cl] = k
    return out


def is_known(cl, known):
    return any(cl == k or (k.endswith("*") and cl.startswith(k[:-1])) for k in known)


# ------------------------------------------------------------------------------------------------
# tie: the Coq models of code against the code

def build(ctx):
    ok, exe, out = vlib.build_ocaml("diag", "ExtractDiag.v", "diag_driver.ml", "diagmodel")
    _state["exe"] = exe
    if not ok:
        return ok, out
    ok2, lexexe, out2 = vlib.build_ocaml("lex", "ExtractLex.v", "lex_driver.ml", "lexmodel")
    _state["lexexe"] = lexexe if ok2 else None
    return ok2, out + out2


def conflict_sources(ctx):
    r = vlib.rng(ctx.seed, "c15-conflict")
    parts = ["<<<<<<<", "<<<<<<< HEAD", " <<<<<<<", "<<<<<<", "=======", ">>>>>>> x", "a :: 1", "", "\r", "x <<<<<<< y", "// <<<<<<<",
             "\"str", "end\"", diag_gen.NONASCII, "<<<<<<<<<"]
    n = 400 if ctx.tier == "quick" else 6000
    out = []
    for _ in range(n):
        k = r.randint(0, 7)
        seps = [r.choice(["\n", "\n", "\r\n", "\n\n", "\r", "\r\r\n"]) for _ in range(k + 1)]
        s = "".join(r.choice(parts) + sep for sep in seps)
        if r.random() < 0.3 and s.endswith("\n"):
            s = s[:-1]
        out.append(s)
    out += ["", "\n", "\r\n", "<<<<<<<", "<<<<<<<\r", "\n<<<<<<<", "a\r<<<<<<<\n", "a\r\n<<<<<<<\r\n<<<<<<<"]
    return out


def import_graphs(ctx):
    """file maps exercising the work-list numbering: chains, cycles, diamonds, missing files, self imports"""
    r = vlib.rng(ctx.seed, "c15-graphs")
    n = 150 if ctx.tier == "quick" else 3000
    out = []
    names = ["a", "b", "c", "d", "e"]
    for _ in range(n):
        k = r.randint(1, 5)
        ns = names[:k]
        files = {}
        for m in ["main"] + ns:
            uses = [x for x in ns if r.random() < 0.45]
            if r.random() < 0.15:
                uses.append(m if m != "main" else r.choice(ns))     # self import / duplicate import
            if r.random() < 0.03:
                uses.append("missing_" + m)
            r.shuffle(uses)
            body = "".join("use %s\n" % u for u in uses) + "v_%s :: 1\n" % m
            if m == "main":
                body += "start :: fn do end\n"
            files["/%s.sy" % m] = body
        for m in ns:
            if r.random() < 0.03:
                del files["/%s.sy" % m]
        out.append(files)
    return out


def uses_of(src, libs):
    out = []
    for l in src.split("\n"):
        m = re.match(r"(?:use|from)\s+([A-Za-z_0-9/]+)", l)
        if m:
            n = m.group(1)
            out.append("lib:" + n if n in libs else n)
    return out


def std_entries():
    """the bundled library as model entries: lib:<name>=<uses in source order>"""
    d = os.path.join(vlib.REPO, "std")
    libs = sorted(f[:-3] for f in os.listdir(d) if f.endswith(".sy"))
    ents = []
    for n in libs:
        u = uses_of(open(os.path.join(d, n + ".sy"), encoding="utf-8").read(), libs)
        ents.append("lib:%s=%s" % (n, ",".join(u) if u else "."))
    return ents, libs


def graph_case(files, std):
    """model input: std flag, main, then for every file its imports in source order"""
    sents, libs = std_entries()
    ents = []
    for p, src in sorted(files.items()):
        uses = uses_of(src, libs)
        ents.append("%s=%s" % (p[1:-3], ",".join(uses) if uses else "."))
    return "graph\t%d\tmain\t" % (1 if std else 0) + "\t".join(ents + sents)


def tie(ctx):
    mism = []
    dist = collections.Counter()
    evals = 0
    exe = _state["exe"]
    # 1. conflict markers
    srcs = conflict_sources(ctx)
    real = vlib.harness("compile", [diag_gen.case_line({"/main.sy": s}, False) for s in srcs], timeout_s=20)
    mod = vlib.model(exe, [], ["conflict\t" + vlib.hexs(s) for s in srcs])
    nontrivial = set()
    for s, a, b in zip(srcs, real, mod):
        evals += 1
        st, errs = parse_errs(a)
        got = [l for k, f, l in errs if k == "GitConflict"]
        if got:
            nontrivial.add(s)
        if any(k != "GitConflict" for k, f, l in errs) and got:
            got = None       # cannot happen: tree() stops at conflict markers for that file
        want = [int(x) for x in b.split(" ")[1:]] if b.startswith("C") else None
        dist["conflict:%s" % ("markers" if got else "none")] += 1
        if got is None or want is None or (got != want and (got or want)):
            if len(mism) < 10:
                mism.append({"what": "find_conflict_markers", "source": s, "real_lines": got, "model_lines": want, "raw": a[:200]})
    # 2. file ids
    graphs = import_graphs(ctx)
    gstd = [i % 3 == 0 for i in range(len(graphs))]
    real = vlib.harness("tree", [diag_gen.case_line(f, sd) for f, sd in zip(graphs, gstd)], timeout_s=20)
    mod = vlib.model(exe, [], [graph_case(f, sd) for f, sd in zip(graphs, gstd)])
    for f, sd, a, b in zip(graphs, gstd, real, mod):
        evals += 1
        ids = tree_ids(a)
        if ids is None:
            # tree failed (missing file): compare the ids through the errors?  the module list is not returned; skip but count
            dist["graph:tree-error"] += 1
            continue
        dist["graph:%s%d-modules" % ("std+" if sd else "", len(ids) if not sd else len([k for k in ids if not k.startswith("lib:")]))] += 1
        nontrivial.add(json.dumps(f, sort_keys=True))
        want = None
        if b.startswith("G ") and " | " in b:
            left, right = b[2:].split(" | ")
            want = {x.rsplit(":", 1)[0]: int(x.rsplit(":", 1)[1]) for x in left.split(" ")}
            back = all(x.split(":", 1)[0] == x.split(":", 1)[1] if not x.startswith("lib:") else
                       x[:len(x) // 2] == x[len(x) // 2 + 1:] for x in right.split(" "))
            if not back:
                want = None
        if want != ids:
            if len(mism) < 10:
                mism.append({"what": "file ids", "files": f, "std": sd, "real": ids, "model": b[:300]})
    # 3. token line == reported line for a stray token (lexer model line vs parser's error line)
    bases, cases, res, viols, bad_bases = run_oracle(ctx)
    lexexe = _state.get("lexexe")
    stray = [(c, l) for c, l in zip(cases, res) if c["kind"] == "syntax:stray-token"]
    if lexexe:
        toks = vlib.model(lexexe, ["gen"], [vlib.hexs(c["files"][c["file"]]) for c, _ in stray])
        for (c, l), t in zip(stray, toks):
            evals += 1
            st, errs = parse_errs(l)
            # the model's line of the first token on the planted line that is the stray token
            model_line = stray_token_line(t, c)
            dist["stray-token:%s" % c["shape"]] += 1
            if not errs or model_line is None or errs[0][2] != model_line:
                if len(mism) < 10:
                    mism.append({"what": "stray token line", "files": c["files"], "real": errs[:1], "model_line": model_line})
    return {"name": "diag", "ok": not mism, "mismatches": mism, "evaluations": evals, "distinct_nontrivial": len(nontrivial),
            "rule": "find_conflict_markers model vs real on generated sources (marker-like lines, \\n \\r\\n \\r separators, missing final "
                    "newline); file-id work-list model vs the module list of sylt_parser::tree on random import graphs (cycles, "
                    "diamonds, self imports, missing files); lexer-model line of a planted stray token vs the line of the parser's "
                    "error; non-trivial = at least one marker found / tree succeeded",
            "samples": [{"source": srcs[0], "model": mod[0] if mod else ""}], "distribution": dict(dist)}


def tree_ids(line):
    """TREE <hex> -> {module name: file_id}"""
    if not line.startswith("TREE "):
        return None
    txt = vlib.unhex(line[5:]).decode("utf-8", "replace")
    out = {}
    for m in re.finditer(r"\(module (file|lib):(\S+) (\d+)", txt):
        name = m.group(2)
        if m.group(1) == "file":
            name = os.path.basename(name)[:-3]
        else:
            name = "lib:" + name
        out[name] = int(m.group(3))
    return out


def stray_token_line(tokline, c):
    """line_start (as computed by the lexer MODEL) of the first token that begins on the planted physical line"""
    if not tokline.startswith("T"):
        return None
    for tok in tokline.split(" ")[1:]:
        f = tok.split("/")
        if int(f[2]) == c["line"] and f[0] not in ("Newline", "Comment"):
            return int(f[2])
    return None


# ------------------------------------------------------------------------------------------------

def always(ctx):
    bases, cases, res, viols, bad_bases = run_oracle(ctx)
    known = known_classifiers()
    by_cl = collections.defaultdict(list)
    for cl, text, c in viols:
        by_cl[cl].append((text, c))
    report = {}
    unknown = []
    for cl, lst in sorted(by_cl.items()):
        text, c = min(lst, key=lambda x: (len(x[1]["files"]), sum(len(s) for s in x[1]["files"].values())))
        try:
            if c.get("ctx") != "corpus":
                c = shrink_case(shrink_case(c, cl), cl)
        except Exception:
            vlib.log("shrink failed for", cl)
        report[cl] = {"count": len(lst), "known": is_known(cl, known), "example": text,
                      "minimal_files": c["files"], "std": c["std"], "first_error": c["first"],
                      "planted": {"kind": c["kind"], "file": c["file"], "line": c["line"], "allowed_lines": c["allowed_lines"],
                                  "eof": c["eof"], "nlines": c["nlines"], "shape": c["shape"], "later_ok": c.get("later_ok", False)}}
        lst[:] = [(text, c)] + lst
        if not is_known(cl, known):
            unknown.append((cl, text, c))
    _state["unknown"] = unknown
    for cl, text, c in unknown[:3]:
        ctx.brk("property:" + cl, text)
    if bad_bases:
        ctx.brk("generator", "base programs rejected by the compiler: %s" % bad_bases[:5])
    dist = collections.Counter()
    for c in cases:
        dist["kind=" + c["kind"]] += 1
        dist["shape=" + c["shape"]] += 1
        dist["ctx=" + c["ctx"]] += 1
        dist["file=" + ("main" if c["file"] == "/main.sy" else "module")] += 1
        dist["nfiles=%d" % len(c["files"])] += 1
        dist["std=%s" % c["std"]] += 1
    first_kinds = collections.Counter((c["first"][0] if c["first"] else "none") for c in cases)
    return {"oracle": {"planted_cases": len(cases), "violations": len(viols), "unclassified": len(unknown),
                       "by_classifier": report, "distribution": dict(sorted(dist.items())),
                       "first_error_kinds": dict(first_kinds),
                       "positions": len(set((c["prog"], c["file"], c["line"]) for c in cases)),
                       "base_programs": len(bases)}}


def shrink_case(c, classifier):
    """delta-debug the lines of all files (the planted line stays) while the same classifier fires"""
    crlf = "crlf" in c["shape"]
    nl = "\r\n" if crlf else "\n"
    entries = []          # (path, text, tag)
    for p, src in sorted(c["files"].items()):
        sep = nl if p == c["file"] else "\n"
        ls = src.split(sep)
        if ls and ls[-1] == "":
            ls.pop()
        for i, t in enumerate(ls):
            tag = None
            if p == c["file"]:
                if c["eof"] and i == c["line"] - 1:
                    entries.append((p, None, "planted"))      # where the `end` was
                elif not c["eof"] and i == c["line"] - 1:
                    tag = "planted"
                elif not c["eof"] and (i + 1) in (c["allowed_lines"] or []) and not c.get("later_ok"):
                    tag = "other"
            entries.append((p, t, tag))
        if p == c["file"] and c["eof"] and c["line"] - 1 >= len(ls):
            entries.append((p, None, "planted"))
    fixed = [e for e in entries if e[2]]
    free = [e for e in entries if not e[2]]

    def build(keep):
        keep = set(id(e) for e in keep)
        files, planted, allowed = {}, None, []
        for e in entries:
            if e[2] is None and id(e) not in keep:
                continue
            p, t, tag = e
            files.setdefault(p, [])
            if tag == "planted":
                planted = len(files[p]) + 1
                if t is None:
                    continue
            if tag in ("planted", "other"):
                allowed.append(len(files[p]) + 1)
            files[p].append(t)
        if "/main.sy" not in files:
            return None
        c2 = dict(c)
        ctrl = {p: list(ls) for p, ls in files.items()}
        if c["eof"]:
            ctrl[c["file"]].insert(planted - 1, "end")
        else:
            del ctrl[c["file"]][planted - 1]
            if c["kind"] == "assign-to-local-constant":
                del ctrl[c["file"]][planted - 2]
        c2["control"] = {p: "\n".join(ls) + "\n" for p, ls in ctrl.items()}
        c2["files"] = {p: (nl if p == c["file"] else "\n").join(ls) + (nl if p == c["file"] else "\n") for p, ls in files.items()}
        c2["line"] = planted
        c2["nlines"] = len(files.get(c["file"], []))
        if not c["eof"]:
            c2["allowed_lines"] = allowed
        return c2

    def fails(cands):
        built = [build(k) for k in cands]
        lines = [l for b in built if b for l in (diag_gen.case_line(b["files"], b["std"]), diag_gen.case_line(b["control"], b["std"]))]
        res = iter(vlib.harness("compile", lines, timeout_s=30))
        out = []
        for b in built:
            if not b:
                out.append(False)
                continue
            st, errs = parse_errs(next(res))
            ctrl_ok = next(res).startswith("OK")
            v = classify(b, st, errs)
            out.append(ctrl_ok and bool(v) and v[0] == classifier)
        return out

    if not fails([free])[0]:
        return c
    small = vlib.shrink_seq(free, fails)
    b = build(small)
    st, errs = parse_errs(vlib.harness("compile", [diag_gen.case_line(b["files"], b["std"])], timeout_s=30)[0])
    b["first"] = errs[0] if errs else None
    return b


def search(ctx):
    unknown = _state.get("unknown")
    if unknown is None:
        always(ctx)
        unknown = _state.get("unknown") or []
    if not unknown:
        return None
    cl, text, c = min(unknown, key=lambda x: (len(x[2]["files"]), sum(len(s) for s in x[2]["files"].values())))
    try:
        c = shrink_case(c, cl)
    except Exception:
        vlib.log("shrink failed for", cl)
    line = diag_gen.case_line(c["files"], c["std"])
    return {"classifier": cl, "what": text, "files": c["files"], "std": c["std"], "planted": {"kind": c["kind"], "file": c["file"], "line": c["line"],
            "allowed_lines": c["allowed_lines"], "eof": c["eof"], "nlines": c["nlines"], "shape": c["shape"],
            "later_ok": c.get("later_ok", False)},
            "first_error": c["first"], "case_line": line, "failing_inputs_found": len(unknown),
            "replay_cmd": "write case_line to a file and run `%s compile FILE`" % vlib.HARNESS_BIN}


def check_witness(w):
    """re-run one planted case description on the real compiler; returns the classifier or None"""
    c = dict(w["planted"])
    c["files"] = w["files"]
    c["std"] = w.get("std", False)
    l = vlib.harness("compile", [diag_gen.case_line(c["files"], c["std"])], timeout_s=30)[0]
    st, errs = parse_errs(l)
    v = classify(c, st, errs)
    return v, errs


def replay_known(ctx, kf):
    w = kf.get("witness") or {}
    if "planted" not in w:
        return False
    v, errs = check_witness(w)
    if v is None:
        return False
    cls = kf.get("classifiers") or [kf.get("classifier")]
    return is_known(v[0], [x for x in cls if x])


def replay(ctx, rep):
    fi = rep.get("failing_input") or {}
    if "planted" not in fi:
        print("nothing to replay: no failing input in this file")
        return 0
    vlib.build_harness()
    v, errs = check_witness(fi)
    print("planted:", fi["planted"])
    print("errors returned:", errs[:4])
    print("->", v or "property holds")
    return 1 if v else 0
