"""C14 -- call/return sugar and layout never change meaning."""
import glob
import os
import re
import sys

sys.path.insert(0, os.path.dirname(os.path.dirname(os.path.abspath(__file__))))
import sylt_gen as G  # noqa: E402
import vlib  # noqa: E402

GEN = ["GenTokens", "GenPrec", "GenSrcDigest"]
TRUSTED = [
    "Coq 8.16.1 kernel (coqc); vm_compute only for table side conditions and examples; no axioms",
    "translators tools/gens/gen_prec.py and tools/gen_tables.py:gen_tokens",
    "Parse/Parser.v as the model of sylt-parser (hand-written, definitions only): modelled, not verified; validated "
    "on every run by the differential tie against the real parser on statements in every surface form",
    "Lex/Logos.v as the model of the tokenizer (validated by C17)",
    "extraction (ExtrOcamlBasic + ExtrOcamlString), ocaml/parse_driver.ml, harness/src/{main,sexp}.rs",
    "the parser-level theorems stop at the parse tree; that equal trees (modulo Parenthesis nodes, ArrowCall vs Call, "
    "trailing expression vs ret) give equal Lua is checked on the real compiler by the byte-level oracle, not proved here",
]
ASSUMPTIONS = [
    "surface variants are generated only at sites where the sugar denotes the same call: a prime call whose "
    "argument list is ended by the end of the line, an arrow call that is a complete expression and whose receiver "
    "is an operand; the cases outside (e.g. `a -> f(b) + 1`) are reported separately",
    "emitted Lua is compared byte for byte after replacing the line number in `Reached unreachable code on line N`",
]
EXPLANATION = ("Theorems over the parser model: f' a, b and f(a, b) parse to the same tree; a -> f(b) parses to ArrowCall; "
               "loop do == loop true do; newline tokens and comments inside ( ) [ ] call arguments and blob braces do not "
               "change the result; spaces/tabs/CR between tokens and a // comment before a newline do not change the "
               "non-comment token sequence.  Tie: extracted parser model vs real parser on every statement of generated "
               "programs and of /repo/tests in every surface form.  Oracle: real compiler on a program and its surface "
               "variants, Lua bytes equal.")

_model = {}
UNREACH = re.compile(rb"Reached unreachable code on line \d+")


def build(ctx):
    ok, out = vlib.coq_make(["Parse/Entry.vo"])
    if not ok:
        return False, out
    ok, exe, out = vlib.build_ocaml("parse", "ExtractParse.v", "parse_driver.ml", "parsemodel")
    _model["exe"] = exe
    return ok, out


# ------------------------------------------------------------------------------------------------
# inputs

def test_files():
    return sorted(glob.glob(os.path.join(vlib.REPO, "tests", "**", "*.sy"), recursive=True))


def read(f):
    return open(f, encoding="utf-8").read()


def gen_bases(ctx):
    """[(id, kind, payload)]: generated programs (payload = program tree) and test files (payload = path)"""
    r = vlib.rng(ctx.seed, "c14")
    n = 120 if ctx.tier == "quick" else 3000
    bases = [("gen%d" % i, "gen", G.gen_program(r, size=r.randint(1, 4))) for i in range(n)]
    for f in test_files():
        bases.append((os.path.relpath(f, vlib.REPO), "file", f))
    return bases


def variants_of(ctx, base, k):
    bid, kind, payload = base
    if kind == "gen":
        return G.surface_variants(payload, ctx.seed * 100003 + k, n_mixed=2 if ctx.tier == "quick" else 6)
    src = read(payload)
    out = [("original", src)]
    for rnd in range(1 if ctx.tier == "quick" else 4):
        out += G.layout_variants(src, ctx.seed * 100003 + k + 7919 * rnd)
    return out


def compile_case(main, text, flags):
    parts = [flags, main, main + "=" + vlib.hexs(text)]
    d = os.path.dirname(main)
    if d.startswith(vlib.REPO):
        for f in glob.glob(os.path.join(d, "**", "*.sy"), recursive=True):
            if f != main:
                parts.append(f + "=" + vlib.hexs(read(f)))
    return "\t".join(parts)


def outcome(line):
    """('OK', normalised lua bytes) | ('ERR', None) | (other, None)"""
    if line.startswith("OK "):
        return "OK", UNREACH.sub(b"Reached unreachable code on line N", vlib.unhex(line.split(" ")[1]))
    return line.split(" ")[0], None


# ---- known classes of failures (each must be listed, open, in known_findings.jsonl to be tolerated) ----

def cls_prime_continuation(base_text, var_name, var_text):
    """a blank or comment-only line directly before a line that starts with ',' (continuation of an unbracketed
    prime call) -- DESIGN section 7 row 19"""
    lines = var_text.replace("\r", "").split("\n")
    for i in G.prime_continuation_lines(var_text.replace("\r", "")):
        if i > 0 and (lines[i - 1].strip() == "" or lines[i - 1].strip().startswith("//")):
            return True
    return False


KNOWN_CLASSES = {"prime-continuation-blank-line": cls_prime_continuation}

# Hand-written pairs (base, variant): minimal witnesses of surface differences that were (or are) treated differently
# by the real parser.  The three classes fixed by /repo commit 3fe15cc (prime-call continuation, index brackets, type
# brackets) are listed `fixed` in known_findings.jsonl, so a recurrence is a FAILURE; the generators now produce these
# forms too (Style features "brk" and "cont").  "judged": by the text of C14 the pair must compile alike, so a
# disagreement is a failure unless the class is an open known finding.  "unjudged": whether the statement covers the
# pair is a matter of reading; the outcome is only recorded in the evidence.
PROBES = {
    "linebreak-in-index-brackets": ("judged",
        "start :: fn do\n    t := (1, 2)\n    x := t[0]\nend\n",
        "start :: fn do\n    t := (1, 2)\n    x := t[\n        0\n    ]\nend\n"),
    "linebreak-in-type-brackets": ("judged",
        "E :: enum\n    A (int, int)\nend\nstart :: fn do\n    t: (int, int) = (1, 2)\n    l: [int] = [1]\nend\n",
        "E :: enum\n    A (int,\n       int)\nend\nstart :: fn do\n    t: (int,\n        int) = (1, 2)\n"
        "    l: [\n        int\n    ] = [1]\nend\n"),
    "prime-continuation-blank-line": ("judged",
        "f :: fn a, b, c do end\nstart :: fn do\n    f' 1, 2, 3\nend\n",
        "f :: fn a, b, c do end\nstart :: fn do\n    f' 1\n\n    // note\n     , 2,\n\n  // more\n\n   3\nend\n"),
    "linebreak-in-generic-brackets": ("judged",
        "Q :: blob(*T, *U) { v: *T }\nE :: enum(*T) A (*T, int) end\nstart :: fn do\nend\n",
        "Q :: blob(\n*T,\n *U\n) { v: *T }\nE :: enum(\n*T\n) A (\n*T,\n int\n) end\nstart :: fn do\nend\n"),
    "prime-call-linebreak-before-continuation": ("judged",
        "// Reference layout: every bracketed expression is on one line.\nscale :: fn x: int -> int do\n    x * 3\nend\n\nadd :: fn a: int, b: int -> int do\n    a + b\nend\n\nstart :: fn do\n    base := 2\n    offset := 5\n\n    // scale(base + offset)\n    p := (scale' base + offset)\n\n    // scale(add(base, offset))\n    q := (scale' base -> add(offset))\n\n    // [scale(base - offset)]\n    r := [scale' base - offset]\n\n    p <=> 21\n    q <=> 21\n    r <=> [-9]\nend\ng :: fn x: int -> int do\n    x + 1\nend\nQ :: blob { v: int }\nother :: fn do\n    a := 1\n    b := 2\n    if 0 < g' a + b do\n        a = 0\n    end\n    c := g(g' a * b)\n    d := Q { v: g' a - b }\n    e := (a, g' a + b)\nend\n",
        "// Same program as oneline.sy - the only difference is that the bracketed\n// expressions are broken over several lines (and a comment line is added).\nscale :: fn x: int -> int do\n    x * 3\nend\n\nadd :: fn a: int, b: int -> int do\n    a + b\nend\n\nstart :: fn do\n    base := 2\n    offset := 5\n\n    // scale(base + offset)\n    p := (\n        scale' base\n        + offset\n    )\n\n    // scale(add(base, offset))\n    q := (scale' base\n          // then add the offset\n          -> add(offset))\n\n    // [scale(base - offset)]\n    r := [\n        scale' base\n        - offset\n    ]\n\n    p <=> 21\n    q <=> 21\n    r <=> [-9]\nend\ng :: fn x: int -> int do\n    x + 1\nend\nQ :: blob { v: int }\nother :: fn do\n    a := 1\n    b := 2\n    if 0 < g' a\n        // still the argument\n        + b do\n        a = 0\n    end\n    c := g(g' a\n        * b)\n    d := Q { v: g' a\n        - b }\n    e := (a, g' a\n\n        + b)\nend\n"),
    "linebreak-in-constraint-list": ("judged",
        "f : (fn<V: CmpEqu> *V -> void) : external\nstart :: fn do\nend\n",
        "f : (fn<V\n: CmpEqu> *V -> void) : external\nstart :: fn do\nend\n"),
    "arrow-call-as-operand": ("unjudged",
        "f :: fn a: int, b: int -> int do\n    ret a\nend\nstart :: fn do\n    x := f(1, 2) + 1\nend\n",
        "f :: fn a: int, b: int -> int do\n    ret a\nend\nstart :: fn do\n    x := 1 -> f(2) + 1\nend\n"),
    "parenthesised-assignment-target": ("unjudged",
        "start :: fn do\n    x := 1\n    x = 2\nend\n",
        "start :: fn do\n    x := 1\n    (x) = 2\nend\n"),
    "missing-final-newline": ("unjudged", "start :: fn do\nend\n", "start :: fn do\nend"),
    # fixed by /repo 6634c32: the Loop arm of statement() stepped back one token after its body even when the body had
    # been ended by `end` on the same line, so the first `end` was read twice (overflow-checked builds panicked in
    # comments_since_last_statement).  Both layouts must be accepted with the same Lua.
    "loop-body-end-then-end-on-one-line": ("judged",
        "start :: fn do\n    if true do loop do break end\n    end\nend\n",
        "start :: fn do\n    if true do loop do break end end\nend\n"),
    # reported 2026-09-27 (corpus/c14/suggested_block_in_parens.diff): if_expression eats `do` and block() accepts a second
    # one as its optional opener, so inside brackets (newlines skipped) a block statement that comes first in a branch
    # loses its `do`.  To become "judged" when the fix is applied.
    "block-statement-first-in-if-branch-inside-parens": ("judged",
        "x :: if true do\n  do\n    a :: 1\n  end\n  b := 2\n  b\nelse do\n  3\nend\nstart :: fn do end\n",
        "x :: (if true do\n  do\n    a :: 1\n  end\n  b := 2\n  b\nelse do\n  3\nend)\nstart :: fn do end\n"),
    "block-statement-first-after-bare-else-inside-brackets": ("judged",
        "x :: [if false do\n  3\nelse do\n  do\n    a :: 1\n  end\n  b := 2\n  b\nend]\nstart :: fn do end\n",
        "x :: [if false do\n  3\nelse\n  do\n    a :: 1\n  end\n  b := 2\n  b\nend]\nstart :: fn do end\n"),
    "loop-body-statement-then-else-on-one-line": ("judged",
        "start :: fn do\n    x := 0\n    if true do\n        loop x < 3 x += 1\n    else\n        x = 2\n    end\nend\n",
        "start :: fn do\n    x := 0\n    if true do loop x < 3 x += 1 else x = 2 end\nend\n"),
    "parenthesised-callee-index-base-type": ("judged",
        "f :: fn -> int do\n    ret 1\nend\nstart :: fn do\n    t := (1, 2)\n    a: int = t[0]\n    b := f()\n    f()\nend\n",
        "f :: fn -> int do\n    ret 1\nend\nstart :: fn do\n    t := (1, 2)\n    a: (int) = (t)[0]\n    b := (f)()\n    (f())\nend\n"),
    "linebreak-in-if-header": ("judged",
        "start :: fn do\n    if 1 < 2 do\n    end\nend\n", "start :: fn do\n    if 1 <\n 2 do\n    end\nend\n"),
}


def run_probes(compiler=None):
    compiler = compiler or (lambda cases: vlib.harness("compile", cases, timeout_s=20))
    names = sorted(PROBES)
    cases = []
    for n in names:
        _, a, b = PROBES[n]
        cases += [compile_case("/main.sy", a, "nostd"), compile_case("/main.sy", b, "nostd")]
    out = compiler(cases)
    res = {}
    for i, n in enumerate(names):
        a, b = outcome(out[2 * i]), outcome(out[2 * i + 1])
        res[n] = {"kind": PROBES[n][0], "agree": a == b, "base": a[0], "variant": b[0]}
    return res


def open_known(pid="C14"):
    out = {}
    for kf in vlib.known_findings(pid):
        if kf.get("status") == "open" and (kf.get("class") in KNOWN_CLASSES or kf.get("class") in PROBES):
            out[kf["class"]] = kf
    return out


def oracle(ctx, bases, compiler=None):
    """Evaluate the property on the real compiler.  Returns (failures, known_hits, stats)."""
    compiler = compiler or (lambda cases: vlib.harness("compile", cases, timeout_s=20))
    cases = []
    index = []
    for k, base in enumerate(bases):
        bid, kind, payload = base
        main = "/main.sy" if kind == "gen" else payload
        flags = "nostd" if kind == "gen" else "std"
        for vname, text in variants_of(ctx, base, k):
            cases.append(compile_case(main, text, flags))
            index.append((k, vname, text))
    out = compiler(cases)
    failures, known_hits = [], {}
    stats = {"compilations": len(cases), "bases": len(bases), "base_ok": 0, "base_rejected": 0, "variant_kinds": {},
             "generated_base_rejected": 0}
    known = open_known()
    first = {}
    for (k, vname, text), line in zip(index, out):
        if k not in first:
            first[k] = (vname, text, outcome(line), line)
            if first[k][2][0] == "OK":
                stats["base_ok"] += 1
            else:
                stats["base_rejected"] += 1
                if bases[k][1] == "gen":
                    stats["generated_base_rejected"] += 1
            continue
        kind = vname.split(":")[0]
        stats["variant_kinds"][kind] = stats["variant_kinds"].get(kind, 0) + 1
        bname, btext, (bst, blua), bline = first[k]
        st, lua = outcome(line)
        why = None
        if st not in ("OK", "ERR") or bst not in ("OK", "ERR"):
            why = "compiler did not return normally: base %s, variant %s" % (bline[:60], line[:60])
        elif bst != st:
            why = "base is %s but the %s variant is %s (%s)" % (
                "accepted" if bst == "OK" else "rejected", vname, "accepted" if st == "OK" else "rejected",
                (line if st != "OK" else bline)[:160])
        elif st == "OK" and lua != blua:
            why = "emitted Lua differs between the base and the %s variant" % vname
        if why:
            hit = None
            for cname, pred in KNOWN_CLASSES.items():
                if pred(btext, vname, text):
                    hit = cname
                    break
            rec = {"base": bases[k][0], "variant": vname, "what": why, "base_text": btext, "variant_text": text,
                   "flags": "nostd" if bases[k][1] == "gen" else "std", "class": hit,
                   "main": "/main.sy" if bases[k][1] == "gen" else bases[k][2],
                   "program": bases[k][2] if bases[k][1] == "gen" else None}
            if hit and hit in known:
                known_hits.setdefault(hit, []).append(rec)
            else:
                failures.append(rec)
    return failures, known_hits, stats


# ---- speculative line breaks OUTSIDE brackets ------------------------------------------------------
# A line break outside brackets normally ends the statement.  Wherever the compiler nevertheless reads the next
# line as a continuation of the SAME statement (none today; any future "this line continues the previous one"
# rule), the broken expression is one expression, and putting it in (redundant) parentheses -- where the line
# break is insignificant by the bracket rule -- must not change the Lua.

_SPEC_LINE = re.compile(r"^(\s+)((?:\w+(?:: \w+)? (?::=|::|=|\+=|-=|\*=) )|ret )?([^\n]+)$")
_STMT_HEADS = ("def", "sexpr", "assign", "ret", "loop", "break", "continue", "block", "if", "case", "unreachable", "use")


def _depth0_spaces(expr):
    out, depth = [], 0
    for i, c in enumerate(expr):
        if c in "([{":
            depth += 1
        elif c in ")]}":
            depth -= 1
        elif c == " " and depth == 0 and 0 < i < len(expr) - 1:
            out.append(i)
    return out


def speculative_pairs(text, r, k):
    """up to k triples (what, V, P): V = text with one line break inserted at bracket depth 0 inside a one-line
    expression, P = V with that (now two-line) expression in parentheses"""
    lines = text.split("\n")
    cands = []
    for i, line in enumerate(lines):
        m = _SPEC_LINE.match(line)
        if not m or any(x in line for x in ("'", '"', "//", " do", " fn", "\t", "\r", "<=>", "<!>")):
            continue
        ind, head, expr = m.group(1), m.group(2) or "", m.group(3)
        if expr.split(" ")[0] in ("if", "loop", "do", "end", "else", "elif", "case", "break", "continue", "use", "from"):
            continue
        for pos in _depth0_spaces(expr):
            cands.append((i, ind, head, expr, pos))
    r.shuffle(cands)
    # positions directly before `->` first: that is where a continuation rule is most likely to appear
    cands.sort(key=lambda c: not c[3][c[4] + 1:].startswith("->"))
    out = []
    for i, ind, head, expr, pos in cands[:k]:
        broken = expr[:pos] + "\n" + ind + "    " + expr[pos + 1:]
        v = "\n".join(lines[:i] + [ind + head + broken] + lines[i + 1:])
        pp = "\n".join(lines[:i] + [ind + head + "(" + broken + ")"] + lines[i + 1:])
        out.append(("line %d, break before %r" % (i + 1, expr[pos + 1:pos + 4]), v, pp))
    return out


def _stmt_count(tree_line):
    if not tree_line.startswith("TREE"):
        return None
    txt = vlib.unhex(tree_line.split(" ")[1]).decode()
    return sum(len(re.findall(r"\(%s@" % h, txt)) for h in _STMT_HEADS)


def speculative(ctx, bases):
    """failures of the speculative-break class on the real compiler (generated bases only)"""
    r = vlib.rng(ctx.seed, "c14-spec")
    trip = []
    for k, (bid, kind, payload) in enumerate(bases):
        if kind != "gen":
            continue
        for style in (G.Style(), G.Style(ctx.seed * 31 + k, arrow=True)):
            text = G.render_program(payload, style)
            for what, v, pp in speculative_pairs(text, r, 3):
                trip.append((bid, what, text, v, pp))
    if not trip:
        return [], {"pairs": 0}
    cases = []
    for bid, what, text, v, pp in trip:
        cases += [compile_case("/main.sy", text, "nostd"), compile_case("/main.sy", v, "nostd"), compile_case("/main.sy", pp, "nostd")]
    lua = vlib.harness("compile", cases, timeout_s=20)
    trees = vlib.harness("tree", [noise_gen_case(t) for tr in trip for t in (tr[2], tr[3])], timeout_s=20)
    fails = []
    stats = {"pairs": len(trip), "broken_form_accepted": 0, "accepted_as_one_statement": 0}
    for j, (bid, what, text, v, pp) in enumerate(trip):
        ob, ov, op = (outcome(x) for x in lua[3 * j:3 * j + 3])
        if ob[0] != "OK" or ov[0] != "OK":
            continue
        stats["broken_form_accepted"] += 1
        nb, nv = _stmt_count(trees[2 * j]), _stmt_count(trees[2 * j + 1])
        if nb is None or nb != nv:
            continue                      # the line break split the statement in two: the parentheses would not be redundant
        stats["accepted_as_one_statement"] += 1
        if op != ov:
            fails.append({"base": bid, "variant": "spec-break", "class": None, "program": None, "flags": "nostd", "main": "/main.sy",
                          "what": "a line break outside brackets is read as a continuation (%s), and redundant parentheses around "
                                  "the continued expression change the result (%s)" % (what, "rejected" if op[0] != "OK" else "different Lua"),
                          "base_text": v, "variant_text": pp})
    return fails, stats


def arrow_chains(ctx):
    """pipelines of 2..7 stages: `v -> f1(a) -> f2(b) -> ...` means `...f2(f1(v, a), b)...`; written with arrows, with
    arrows and redundant parentheses around every prefix, and as plain nested calls the same Lua"""
    r = vlib.rng(ctx.seed, "c14-chains")
    fails, n = [], 0
    cases, meta = [], []
    for stages in range(2, 8):
        for rep in range(2 if ctx.tier == "quick" else 10):
            fs = ["g%d" % i for i in range(stages)]
            r.shuffle(fs)
            args = [[str(r.randint(1, 9)) for _ in range(r.randint(0, 2))] for _ in fs]
            defs = "".join("g%d :: fn a: int%s -> int do a * %d + %d end\n" % (i, "".join(", p%d: int" % j for j in range(len(args[fs.index("g%d" % i)]))), i + 2, i)
                           for i in range(stages))
            plain = "7"
            chain = "7"
            paren = "7"
            for f, a in zip(fs, args):
                plain = "%s(%s)" % (f, ", ".join([plain] + a))
                chain = "%s -> %s(%s)" % (chain, f, ", ".join(a))
                paren = "(%s -> %s(%s))" % (paren, f, ", ".join(a))
            for form, e in (("plain", plain), ("chain", chain), ("paren", paren), ("stmt", None)):
                if form == "stmt":
                    body = "    x := 0\n    " + chain + "\n"        # the pipeline as an expression statement
                    ref = "    x := 0\n    " + plain + "\n"
                    cases += [compile_case("/main.sy", defs + "start :: fn do\n" + ref + "end\n", "nostd"),
                              compile_case("/main.sy", defs + "start :: fn do\n" + body + "end\n", "nostd")]
                    meta.append((stages, "stmt", ref, body, defs))
                else:
                    cases.append(compile_case("/main.sy", defs + "start :: fn do\n    x := " + e + "\n    x <=> 1\nend\n", "nostd"))
            meta.append((stages, "expr", plain, (chain, paren), defs))
    out = vlib.harness("compile", cases, timeout_s=20)
    # layout of `out`: per (stages, rep): plain, chain, paren, stmt-ref, stmt-chain
    for k in range(0, len(out), 5):
        o = [outcome(x) for x in out[k:k + 5]]
        n += 1
        txt = [vlib.unhex(c.split("=", 1)[1].split("\t")[0]).decode() for c in cases[k:k + 5]]
        for a, b, what in ((0, 1, "arrow pipeline vs nested calls"), (0, 2, "parenthesised arrow pipeline vs nested calls"),
                           (3, 4, "arrow pipeline as a statement vs nested calls")):
            if o[a][0] == "OK" and o[a] != o[b]:
                fails.append({"base": "chain", "variant": "arrow-chain", "class": None, "program": None, "flags": "nostd", "main": "/main.sy",
                              "what": "%s: %s" % (what, "rejected" if o[b][0] != "OK" else "different Lua"),
                              "base_text": txt[a], "variant_text": txt[b]})
    return fails, {"pipelines": n, "differences": len(fails)}


def noise_gen_case(text):
    return "\t".join(["nostd", "/main.sy", "/main.sy=" + vlib.hexs(text)])


# ------------------------------------------------------------------------------------------------
# tie: parser model vs real parser on every statement in every surface form

def statement_sources(text):
    """(mode, source) for every line start of the text: the statement parser run from there"""
    lines = text.split("\n")
    out = []
    for i, l in enumerate(lines):
        if not l.strip():
            continue
        src = "\n".join(lines[i:i + 40])
        out.append(("stmt", src))
        if not l[0].isspace():
            out.append(("outer", src))
    return out


def norm(line):
    """whole line: `OK consumed/total tree` or `ERR consumed/total line:col:col ...` (floats numerically)"""
    return G.norm_floats(line)


def corpus_sources():
    out = []
    for f in sorted(glob.glob(os.path.join(vlib.VERIF, "corpus", "c14", "*.txt"))):
        for l in open(f, encoding="utf-8"):
            l = l.rstrip("\n")
            if l and not l.startswith("#"):
                mode, src = l.split(" ", 1)
                out.append((mode, src.encode().decode("unicode_escape")))
    return out


def tie(ctx):
    bases = gen_bases(ctx)
    ctx.c14_bases = bases
    per_mode = {"stmt": set(), "outer": set(), "expr": set(), "type": set()}
    dist = {"generated_programs": 0, "test_files": 0, "variant_texts": 0}
    for mode, src in corpus_sources():
        per_mode[mode].add(src)
    lim = 40 if ctx.tier == "quick" else 400
    nfiles = 0
    for k, base in enumerate(bases):
        if base[1] == "gen":
            if dist["generated_programs"] >= lim:
                continue
            dist["generated_programs"] += 1
        else:
            nfiles += 1
            if ctx.tier == "quick" and nfiles % 3 != ctx.seed % 3:
                continue
            dist["test_files"] += 1
        for vname, text in variants_of(ctx, base, k):
            dist["variant_texts"] += 1
            for mode, src in statement_sources(text):
                per_mode[mode].add(src)
    # type annotations and expressions occurring in the texts are covered through stmt/outer; add direct type cases
    for t in ["int", "(int)", "(int, int)", "[int]", "fn int, int -> int", "fn -> void", "pu int -> (int, [int])",
              "A", "a.B", "A(int, *)", "*", "*T", "fn<a: Num, b: A a b + B b> a, b -> a", "(int,\n int)", "[\nint]",
              "fn // c\n int -> int", "( int ) // c"]:
        per_mode["type"].add(t)
    mism = []
    nontrivial = set()
    total = 0
    accepts = rejects = 0
    for mode, srcs in per_mode.items():
        srcs = sorted(srcs)
        hx = [vlib.hexs(s) for s in srcs]
        real = vlib.harness(mode, hx)
        mod = vlib.model(_model["exe"], [mode], hx)
        total += len(srcs)
        dist["cases_" + mode] = len(srcs)
        for s, a, b in zip(srcs, real, mod):
            if a.startswith("OK"):
                accepts += 1
            else:
                rejects += 1
            if norm(a) != norm(b):
                if len(mism) < 10:
                    mism.append({"mode": mode, "source": s, "real": a[:400], "model": b[:400]})
            if a.startswith("OK") and a.count("(") >= 4:
                nontrivial.add((mode, s))
    dist["real_accepts"] = accepts
    dist["real_rejects"] = rejects
    return {"name": "stmt", "ok": not mism, "mismatches": mism, "evaluations": total,
            "distinct_nontrivial": len(nontrivial),
            "rule": "the statement / outer-statement parser started at every non-blank line of every surface variant "
                    "(canonical, prime, arrow, implicit ret, loop do, redundant parentheses, comments, blank lines, "
                    "indentation, tabs, CRLF, line breaks inside call/list/tuple/blob/index/type/enum-payload/"
                    "type-variable brackets, prime-call continuation lines with blank and comment-only lines "
                    "before and after the comma, mixed) of generated well-typed programs and "
                    "of the layout variants of /repo/tests/**/*.sy; real sylt_parser::statement vs the extracted model, "
                    "whole output line; non-trivial = accepted with at least four nodes; distinct by (mode, source)",
            "samples": [{"mode": m, "source": s[:200]} for (m, s) in sorted(nontrivial)[:3]], "distribution": dist}


def always(ctx):
    """the byte-level oracle on the real compiler (no model involved)"""
    bases = getattr(ctx, "c14_bases", None) or gen_bases(ctx)
    failures, known_hits, stats = oracle(ctx, bases)
    sp_fail, sp_stats = speculative(ctx, bases)
    ch_fail, ch_stats = arrow_chains(ctx)
    failures = failures + sp_fail + ch_fail
    stats["speculative_breaks"] = sp_stats
    stats["arrow_chains"] = ch_stats
    ctx.c14_oracle = (failures, known_hits)
    if failures:
        f = failures[0]
        ctx.brk("oracle:surface-variants", "%d failing variants; first: %s / %s: %s"
                % (len(failures), f["base"], f["variant"], f["what"]))
    if stats["generated_base_rejected"] * 5 > max(1, sum(1 for b in bases if b[1] == "gen")):
        ctx.brk("generator", "more than 20%% of the generated base programs are rejected (%d)"
                % stats["generated_base_rejected"])
    stats["oracle_failures"] = len(failures)
    stats["known_class_hits"] = {k: len(v) for k, v in known_hits.items()}
    probes = run_probes()
    known = open_known()
    for n, p in probes.items():
        if p["kind"] == "judged" and not p["agree"]:
            if n in known:
                p["status"] = "open known finding"
            else:
                p["status"] = "FAILURE"
                failures.append({"base": "probe:" + n, "variant": n, "what": "base %s, variant %s" % (p["base"], p["variant"]),
                                 "base_text": PROBES[n][1], "variant_text": PROBES[n][2], "flags": "nostd", "class": n})
                ctx.brk("oracle:probe:" + n, "base %s, variant %s" % (p["base"], p["variant"]))
        elif p["kind"] == "judged":
            p["status"] = "holds" + (" (listed as an open known finding: no longer reproduces)" if n in known else "")
        else:
            p["status"] = "recorded only"
    return {"oracle": stats, "probes": probes}


# ------------------------------------------------------------------------------------------------
# search: shrink an oracle failure

def _disagree(main, flags, a, b, compiler):
    out = compiler([compile_case(main, a, flags), compile_case(main, b, flags)])
    return outcome(out[0]) != outcome(out[1])


def _smaller_programs(prog):
    """programs with one top-level item, or one statement of one function body (also inside if/loop/block
    bodies), removed"""
    out = []

    def bodies(body):
        """smaller versions of a statement list"""
        res = []
        for j, s in enumerate(body):
            if s[0] != "ret":
                res.append(body[:j] + body[j + 1:])
            if s[0] == "if":
                for bi, (c, b) in enumerate(s[1]):
                    for nb in bodies(b):
                        if nb:
                            res.append(body[:j] + [("if", s[1][:bi] + [(c, nb)] + s[1][bi + 1:], s[2])] + body[j + 1:])
                    res.append(body[:j] + b + body[j + 1:])
                if s[2]:
                    res.append(body[:j] + [("if", s[1], None)] + body[j + 1:])
            elif s[0] == "loop":
                for nb in bodies(s[2]):
                    if nb and nb[-1][0] == "break":
                        res.append(body[:j] + [("loop", s[1], nb)] + body[j + 1:])
            elif s[0] == "block":
                res.append(body[:j] + s[1] + body[j + 1:])
        return res
    for i in range(len(prog)):
        if prog[i][1] != "start":
            out.append(prog[:i] + prog[i + 1:])
    for i, d in enumerate(prog):
        if d[0] == "fn":
            for nb in bodies(d[4]):
                out.append(prog[:i] + [(d[0], d[1], d[2], d[3], nb)] + prog[i + 1:])
    return out


def shrink_generated(ctx, rec, compiler):
    """shrink a failing generated program: drop items/statements while the same single surface feature (tried
    with a few style seeds) still makes the canonical and the variant rendering disagree"""
    feature = rec["variant"].split(":")[0]
    feats = [feature] if feature in G.STYLE_FEATURES else \
        [f for f in rec["variant"].split(":", 1)[1].split("+") if f in G.STYLE_FEATURES]
    prog = rec["program"]

    def fails(p):
        base = G.render_program(p)
        for seed in range(8):
            var = G.render_program(p, G.Style(seed, **{f: True for f in feats}))
            if _disagree("/main.sy", "nostd", base, var, compiler):
                return base, var
        return None
    cur = fails(prog)
    if cur is None:
        return rec
    for _ in range(60):
        for cand in _smaller_programs(prog):
            got = fails(cand)
            if got:
                prog, cur = cand, got
                break
        else:
            break
    rec = dict(rec)
    rec["base_text"], rec["variant_text"] = cur
    rec["program"] = None
    return rec


def search(ctx, compiler=None):
    comp = compiler or (lambda cases: vlib.harness("compile", cases, timeout_s=20))
    got = getattr(ctx, "c14_oracle", None)
    if got is None or compiler is not None:
        failures, _, _ = oracle(ctx, gen_bases(ctx), compiler)
    else:
        failures = got[0]
    if not failures:
        return None
    def nfeat(f):
        v = f["variant"]
        return len(v.split(":", 1)[1].split("+")) if ":" in v else 1
    failures.sort(key=lambda f: (f.get("program") is None, nfeat(f), len(f["variant_text"])))
    f = failures[0]
    if f.get("program") is not None:
        f = shrink_generated(ctx, f, comp)
    return {"base": f["base"], "variant": f["variant"], "what": f["what"], "flags": f["flags"],
            "main": f.get("main", "/main.sy"), "base_text": f["base_text"], "variant_text": f["variant_text"],
            "failing_inputs_found": len(failures), "replay_cmd": "python3 tools/check.py C14 --replay <this file>"}


def replay_known(ctx, kf):
    """does the recorded witness still fail on the real compiler?"""
    w = kf.get("witness") or {}
    if "base_text" not in w:
        return False
    flags = w.get("flags", "nostd")
    out = vlib.harness("compile", [compile_case("/main.sy", w["base_text"], flags),
                                   compile_case("/main.sy", w["variant_text"], flags)])
    a, b = outcome(out[0]), outcome(out[1])
    return a != b


def replay(ctx, rep):
    fi = rep.get("failing_input") or {}
    if not fi:
        print("nothing to replay: no failing input in this file")
        return 0
    vlib.build_harness()
    main = fi.get("main", "/main.sy")
    out = vlib.harness("compile", [compile_case(main, fi["base_text"], fi.get("flags", "nostd")),
                                   compile_case(main, fi["variant_text"], fi.get("flags", "nostd"))])
    a, b = outcome(out[0]), outcome(out[1])
    print("base   :", out[0][:100])
    print("variant:", out[1][:100])
    bad = a != b
    print("replay:", "property violated" if bad else "property holds")
    return 1 if bad else 0


# ------------------------------------------------------------------------------------------------
# self test: fake compilers that break one sugar must be caught

def selftest():
    class Ctx:
        tier = "quick"
        seed = 1
    r = vlib.rng(1, "c14-self")
    bases = [("gen%d" % i, "gen", G.gen_program(r, size=3)) for i in range(60)]

    def real(cases):
        return vlib.harness("compile", cases, timeout_s=20)

    def mutant(pattern, repl):
        """a 'compiler' that rewrites the source before compiling it: simulates a parser whose sugar differs"""
        def run(cases):
            new = []
            for c in cases:
                parts = c.split("\t")
                main = parts[1]
                src = vlib.unhex(parts[2].split("=", 1)[1]).decode()
                src = re.sub(pattern, repl, src)
                new.append("\t".join([parts[0], main, main + "=" + vlib.hexs(src)] + parts[3:]))
            return real(new)
        return run
    f0, _, st = oracle(Ctx, bases, real)
    assert not f0, "oracle fails on the unchanged compiler: %s" % f0[:1]
    print("selftest baseline: %d compilations, %d bases accepted, 0 failures" % (st["compilations"], st["base_ok"]))
    muts = {
        "loop_do_means_loop_false": (r"\bloop do\b", "loop false do"),
        "prime_drops_last_argument": (r"(\w+)' ([^,\n]+), [^\n]*", r"\1' \2"),
        "arrow_appends_instead_of_prepends": (r"\b(\w+) -> (\w+)\(\)", r"\2(\1, \1)"),
        "comment_swallows_next_line": (r"(//[^\n]*)\n[^\n]*\n", r"\1\n\n"),
        "crlf_breaks": (r"\r\n", "\r"),
    }
    for name, (pat, rep) in muts.items():
        f, _, _ = oracle(Ctx, bases, mutant(pat, rep))
        assert f, "mutation %s not detected" % name
        print("selftest %-34s -> caught: %s / %s: %s" % (name, f[0]["base"], f[0]["variant"], f[0]["what"][:70]))
    found = search(Ctx, mutant(r"\bloop do\b", "loop false do"))
    assert found and "loop" in found["variant_text"], "search did not return a failing input"
    print("selftest search+shrink: %d lines base, variant:\n%s" % (found["base_text"].count("\n"), found["variant_text"]))
    print("selftest ok")


if __name__ == "__main__":
    if "--selftest" in sys.argv:
        vlib.build_harness()
        selftest()
