(* C13: literal printing of a well-parenthesised operator tree parses back to the same tree, for any
   operator table that orders the operators as documented ([tab_okb]). *)
From Coq Require Import List NArith Bool Arith Lia.
From Sylt Require Import Syntax.Ast Syntax.Tok Parse.PrecTable Parse.Parser Parse.ParserProofs Parse.OpTree.
Import ListNotations.

(* ------------------------------------------------------------------------------------------- *)
(* context lemmas *)

Definition clean (nlf : bool) (ts : list tok) : Prop :=
  match ts with
  | [] => True
  | t :: _ => t <> TComment /\ (nlf = true -> t <> TK KNewline)
  end.

Lemma strip_clean nlf ts p : clean nlf ts -> strip nlf ts p = (p, ts).
Proof.
  destruct ts as [|t ts]; [reflexivity|]. intros [H1 H2]. cbn [strip].
  destruct t as [s|s|z|s|b| |k|]; try reflexivity.
  - exfalso. apply H1. reflexivity.
  - destruct k; try reflexivity. destruct nlf; [exfalso; apply H2; reflexivity|reflexivity].
Qed.

Lemma adv0 ts p : adv ts 0 p = (p, ts, 0).
Proof. destruct ts; reflexivity. Qed.

Lemma skip1 p t ts o b : t <> TComment -> clean b ts ->
  skip 1 (mkctx p (t :: ts) o b) = mkctx (t :: p) ts o b.
Proof.
  intros Ht Hc. unfold skip. cbn [post pre over nl adv].
  replace (adv ts match t with TComment => 1 | _ => 0 end (t :: p)) with (t :: p, ts, 0).
  - rewrite strip_clean by exact Hc. rewrite Nat.add_0_r. reflexivity.
  - destruct t; try (rewrite adv0; reflexivity). exfalso. apply Ht. reflexivity.
Qed.

Lemma skip0 p ts o b : clean b ts -> skip 0 (mkctx p ts o b) = mkctx p ts o b.
Proof.
  intros Hc. unfold skip. cbn [post pre over nl]. rewrite adv0. rewrite strip_clean by exact Hc.
  rewrite Nat.add_0_r. reflexivity.
Qed.

Lemma follow_clean b t ts : follow_tok b t = true -> clean b (t :: ts).
Proof.
  intros H. split.
  - intros ->. discriminate.
  - intros -> ->. discriminate.
Qed.

Definition follow (b : bool) (ts : list tok) : Prop :=
  match ts with
  | [] => True
  | t :: _ => follow_tok b t = true
  end.

Lemma follow_is_clean b ts : follow b ts -> clean b ts.
Proof. destruct ts as [|t ts]; [intros _; exact I|]. apply follow_clean. Qed.

(* ------------------------------------------------------------------------------------------- *)
(* what [tab_okb] says, as propositions *)

Lemma all_binops_in o : In o all_binops.
Proof. destruct o as [| | | |k| | |]; try destruct k; cbn; tauto. Qed.

Lemma binop_eqb_eq a b : binop_eqb a b = true -> a = b.
Proof.
  destruct a as [| | | |j| | |], b as [| | | |k| | |]; try discriminate; try reflexivity.
  destruct j, k; try discriminate; reflexivity.
Qed.

Record tab_ok (T : ptab) : Prop := {
  ok_lt : forall a b, doc_rank a < doc_rank b ->
          pt_prec T (bt a) < pt_prec T (bt b) /\ pt_next T (pt_prec T (bt a)) <= pt_prec T (bt b);
  ok_eq : forall a b, doc_rank a = doc_rank b -> pt_prec T (bt a) = pt_prec T (bt b);
  ok_next : forall a, pt_prec T (bt a) < pt_next T (pt_prec T (bt a));
  ok_unary : forall a, doc_below_unary a = true -> pt_prec T (bt a) < pt_unary_level T;
  ok_valid : forall a, pt_valid T (bt a) = true;
  ok_bin : forall a, pt_bin T (bt a) = Some a;
  ok_post : forall a, pt_postfix T (bt a) = false;
  ok_entry : forall a, pt_entry T <= pt_prec T (bt a);
  ok_neg : pt_unary T (TK KMinus) = Some Neg;
  ok_not : pt_unary T (TK KNot) = Some Not;
  ok_rparen : pt_valid T (TK KRightParen) = false;
  ok_rbracket : pt_valid T (TK KRightBracket) = false;
  ok_comma : pt_valid T (TK KComma) = false;
  ok_eof : pt_valid T TEOF = false
}.

Lemma tab_okb_sound T : tab_okb T = true -> tab_ok T.
Proof.
  unfold tab_okb. intros H.
  apply andb_prop in H. destruct H as [H _].
  apply andb_prop in H. destruct H as [H Heof].
  apply andb_prop in H. destruct H as [H Hcomma].
  apply andb_prop in H. destruct H as [H Hrb].
  apply andb_prop in H. destruct H as [H Hrp].
  apply andb_prop in H. destruct H as [H Hnot].
  apply andb_prop in H. destruct H as [H Hneg].
  apply andb_prop in H. destruct H as [H H0].
  unfold tab_pairs_ok in H. rewrite forallb_forall in H.
  assert (P1 : forall a b,
    (if doc_rank a <? doc_rank b
     then (pt_prec T (bt a) <? pt_prec T (bt b)) && (pt_next T (pt_prec T (bt a)) <=? pt_prec T (bt b))
     else true) = true /\
    (if doc_rank a =? doc_rank b then pt_prec T (bt a) =? pt_prec T (bt b) else true) = true).
  { intros a b. specialize (H a (all_binops_in a)). rewrite forallb_forall in H.
    specialize (H b (all_binops_in b)). unfold tab_pair_ok in H. apply andb_prop in H. exact H. }
  unfold tab_ops_ok in H0. rewrite forallb_forall in H0.
  assert (P2 : forall a,
    (pt_prec T (bt a) <? pt_next T (pt_prec T (bt a))) = true /\
    (if doc_below_unary a then pt_prec T (bt a) <? pt_unary_level T else true) = true /\
    pt_valid T (bt a) = true /\ opt_binop_eqb (pt_bin T (bt a)) a = true /\
    negb (pt_postfix T (bt a)) = true /\ (pt_entry T <=? pt_prec T (bt a)) = true).
  { intros a. specialize (H0 a (all_binops_in a)). unfold tab_op_ok in H0.
    do 5 (apply andb_prop in H0; let H' := fresh "Q" in destruct H0 as [H0 H']). tauto. }
  constructor.
  - intros a b Hr. destruct (P1 a b) as [Q _]. apply Nat.ltb_lt in Hr. rewrite Hr in Q.
    apply andb_prop in Q. destruct Q as [Q1 Q2]. apply Nat.ltb_lt in Q1. apply Nat.leb_le in Q2. tauto.
  - intros a b Hr. destruct (P1 a b) as [_ Q]. apply Nat.eqb_eq in Hr. rewrite Hr in Q.
    apply Nat.eqb_eq in Q. exact Q.
  - intros a. destruct (P2 a) as [Q _]. apply Nat.ltb_lt in Q. exact Q.
  - intros a Hb. destruct (P2 a) as (_ & Q & _). rewrite Hb in Q. apply Nat.ltb_lt in Q. exact Q.
  - intros a. apply (P2 a).
  - intros a. destruct (P2 a) as (_ & _ & _ & Q & _). unfold opt_binop_eqb in Q.
    destruct (pt_bin T (bt a)) as [x|]; [|discriminate]. apply binop_eqb_eq in Q. congruence.
  - intros a. destruct (P2 a) as (_ & _ & _ & _ & Q & _). apply negb_true_iff in Q. exact Q.
  - intros a. destruct (P2 a) as (_ & _ & _ & _ & _ & Q). apply Nat.leb_le in Q. exact Q.
  - unfold opt_unop_is in Hneg. cbn [doc_untok] in Hneg. destruct (pt_unary T (TK KMinus)) as [[|]|]; congruence.
  - unfold opt_unop_is in Hnot. cbn [doc_untok] in Hnot. destruct (pt_unary T (TK KNot)) as [[|]|]; congruence.
  - apply negb_true_iff. assumption.
  - apply negb_true_iff. assumption.
  - apply negb_true_iff. assumption.
  - apply negb_true_iff. assumption.
Qed.

(* ------------------------------------------------------------------------------------------- *)
(* tokens of the printed form *)

Definition starter (t : tok) : Prop :=
  match t with
  | TInt _ | TIdent _ | TK KMinus | TK KNot | TK KLeftParen => True
  | _ => False
  end.

Lemma pp_head e : exists t ts, pp e = t :: ts /\ starter t.
Proof.
  induction e as [z|r ps|o l IHl r IHr|u x IHx|x IHx].
  - exists (TInt z), []. split; [reflexivity|exact I].
  - exists (TIdent r), (pp_posts ps). split; [reflexivity|exact I].
  - destruct IHl as (t & ts & E & S). exists t, (ts ++ bt o :: pp r). cbn [pp]. rewrite E. split; [reflexivity|exact S].
  - exists (TK (doc_untok u)), (pp x). split; [reflexivity|destruct u; exact I].
  - exists (TK KLeftParen), (pp x ++ [TK KRightParen]). split; [reflexivity|exact I].
Qed.

Lemma starter_clean b t ts : starter t -> clean b (t :: ts).
Proof.
  intros S. split.
  - intros ->. exact S.
  - intros _ ->. exact S.
Qed.

Lemma bt_clean b o ts : clean b (bt o :: ts).
Proof. split; [|intros _]; destruct o as [| | | |k| | |]; try destruct k; discriminate. Qed.

Lemma bt_follow b o : follow_tok b (bt o) = true.
Proof. destruct o as [| | | |k| | |]; try destruct k; reflexivity. Qed.

Lemma bt_not_arrow o : tok_is KArrow (bt o) = false.
Proof. destruct o as [| | | |k| | |]; try destruct k; reflexivity. Qed.

Scheme ox_mind := Induction for ox Sort Prop
  with oposts_mind := Induction for oposts Sort Prop
  with oargs_mind := Induction for oargs Sort Prop.
Combined Scheme ox_mutind from ox_mind, oposts_mind, oargs_mind.

Definition hs (toks : list tok) : Prop := exists t ts, toks = t :: ts /\ starter t.

Lemma hs_pp e rest : hs (pp e ++ rest).
Proof. destruct (pp_head e) as (t & ts & E & S). exists t, (ts ++ rest). rewrite E. split; [reflexivity|exact S]. Qed.

Lemma hs_clean b toks : hs toks -> clean b toks.
Proof. intros (t & ts & -> & S). apply starter_clean. exact S. Qed.

Section RoundTrip.
Variable T : ptab.
Hypothesis OK : tab_ok T.

Let P (o : binop) : nat := pt_prec T (bt o).
Let U : nat := pt_unary_level T.
Let N' (o : binop) : nat := pt_next T (pt_prec T (bt o)).

Notation C := mkctx.

(* ---- one step of the infix loop ---- *)

Lemma loop_stop q lhs c f :
  pt_valid T (token c) = false \/ pt_prec T (token c) < q ->
  go T (S f) (QLoop q lhs c) = Ok (RE lhs c).
Proof.
  intros H. rewrite go_S. cbn [step]. unfold step_loop.
  replace ((q <=? pt_prec T (token c)) && pt_valid T (token c)) with false; [reflexivity|].
  symmetry. destruct H as [H|H].
  - rewrite H. apply andb_false_r.
  - apply Nat.leb_gt in H. rewrite H. reflexivity.
Qed.

Lemma loop_bin q lhs p o ts ov b f rhs c2 :
  q <= P o -> clean b ts ->
  go T f (QPrec (N' o) (C (bt o :: p) ts ov b)) = Ok (RE rhs c2) ->
  go T (S f) (QLoop q lhs (C p (bt o :: ts) ov b)) = go T f (QLoop q (EBin o lhs rhs) c2).
Proof.
  intros Hq Hc Hr. rewrite go_S. cbn [step]. unfold step_loop. cbn [token post].
  apply Nat.leb_le in Hq. unfold P in Hq. rewrite Hq. rewrite (ok_valid T OK). cbn [andb].
  unfold infix. cbn [token post]. rewrite bt_not_arrow, (ok_post T OK), (ok_bin T OK).
  rewrite skip1; [|destruct (bt_clean b o ts) as [X _]; exact X|exact Hc].
  rewrite !run_ptry. unfold call_E. cbn [run]. fold (N' o). rewrite Hr. cbn [get_E run ok ptry].
  apply run_call.
Qed.

(* ---- prefix forms ---- *)

Lemma prec_int q p z ts ov b f : clean b ts ->
  go T (S f) (QPrec q (C p (TInt z :: ts) ov b)) = go T f (QLoop q (EInt z) (C (TInt z :: p) ts ov b)).
Proof.
  intros Hc. rewrite go_S. cbn [step]. unfold step_prec, prefix. cbn [token post]. unfold value.
  cbn [token post]. rewrite skip1; [|discriminate|exact Hc]. cbn [ptry get_E ok]. apply run_call.
Qed.

Lemma prec_un q p u ts ov b f x c2 : clean b ts ->
  go T f (QPrec U (C (TK (doc_untok u) :: p) ts ov b)) = Ok (RE x c2) ->
  go T (S f) (QPrec q (C p (TK (doc_untok u) :: ts) ov b)) = go T f (QLoop q (EUn u x) c2).
Proof.
  intros Hc Hx. rewrite go_S. cbn [step]. unfold step_prec, prefix.
  destruct u; cbn [doc_untok token post] in *.
  - rewrite (ok_neg T OK). unfold unary. cbn [token post]. rewrite skip1; [|discriminate|exact Hc].
    rewrite !run_ptry. unfold call_E. cbn [run]. fold U. rewrite Hx. cbn [get_E run ok ptry].
    rewrite (ok_neg T OK). cbn [run ptry get_E ok]. apply run_call.
  - rewrite (ok_not T OK). unfold unary. cbn [token post]. rewrite skip1; [|discriminate|exact Hc].
    rewrite !run_ptry. unfold call_E. cbn [run]. fold U. rewrite Hx. cbn [get_E run ok ptry].
    rewrite (ok_not T OK). cbn [run ptry get_E ok]. apply run_call.
Qed.

Ltac starter_cases t S :=
  destruct t as [?s|?s|?z|?s|?b| |?k|]; try (exfalso; exact S);
  [ | | match goal with k : kw |- _ => destruct k; try (exfalso; exact S) end ].

Lemma tuple_one p t ts ov f x c3 :
  starter t ->
  go T f (QPrec (pt_entry T) (C p (t :: ts) ov true)) = Ok (RE x c3) ->
  is_k KComma c3 = false ->
  go T (S f) (QTuple false [] (C p (t :: ts) ov true)) = Ok (RTup false [x] c3).
Proof.
  intros S Hx Hk. rewrite go_S. cbn [step]. unfold step_tuple, skip_if, is_k.
  starter_cases t S; cbn [token post tok_is kw_eqb];
    (unfold expression; rewrite !run_ptry; unfold call_E; cbn [run]; rewrite Hx; cbn [get_E run ok ptry];
     unfold is_k in Hk; rewrite Hk; reflexivity).
Qed.

Lemma prec_paren q p t ts ov b f x p3 rest ov3 :
  starter t -> clean b rest ->
  go T f (QTuple false [] (C (TK KLeftParen :: p) (t :: ts) ov true))
    = Ok (RTup false [x] (C p3 (TK KRightParen :: rest) ov3 true)) ->
  go T (S f) (QPrec q (C p (TK KLeftParen :: t :: ts) ov b))
    = go T f (QLoop q (EParen x) (C (TK KRightParen :: p3) rest ov3 b)).
Proof.
  intros S Hc Hx. rewrite go_S. cbn [step]. unfold step_prec, prefix. cbn [token post].
  unfold grouping_or_tuple. rewrite skip1; [|discriminate|apply starter_clean; exact S].
  unfold push_nl, set_nl. cbn [pre post over nl]. rewrite skip0 by (apply starter_clean; exact S).
  replace (is_k KComma (C (TK KLeftParen :: p) (t :: ts) ov true)
           || is_k KRightParen (C (TK KLeftParen :: p) (t :: ts) ov true)) with false.
  2:{ unfold is_k. cbn [token post]. starter_cases t S; reflexivity. }
  rewrite !run_ptry. unfold call_Tup. cbn [run]. rewrite Hx. cbn [get_Tup run ok ptry].
  unfold pop_nl, set_nl. cbn [pre post over nl]. unfold pexpect, expect, is_k. cbn [token post tok_is kw_eqb].
  rewrite skip1; [|discriminate|exact Hc]. cbn [run ptry get_E ok]. apply run_call.
Qed.

(* ---- postfix chains (sub_assignable) ---- *)

Lemma sub_nil a c f : follow (nl c) (post c) -> go T (S f) (QSub a c) = Ok (RA a c).
Proof.
  intros H. rewrite go_S. cbn [step]. unfold step_sub, token.
  destruct (post c) as [|t ts]; [reflexivity|]. cbn [follow] in H.
  destruct t as [s|s|z|s|b0| |k|]; try reflexivity. destruct k; try reflexivity; discriminate.
Qed.

Lemma variant_err a p n ts ov b : is_capitalized n = false -> clean b (TIdent n :: ts) ->
  exists c' es, assignable_variant T (C p (TK KDot :: TIdent n :: ts) ov b) a = Ret (Err c' es).
Proof.
  intros Hn Hc. unfold assignable_variant.
  assert (X : forall e : name, exists c' es,
    (if negb (is_capitalized e) then @praise out (C p (TK KDot :: TIdent n :: ts) ov b)
     else ptry (pexpect KDot (C p (TK KDot :: TIdent n :: ts) ov b))
            (fun c1 => match token c1 with
                       | TIdent v =>
                           let c2 := skip 1 c1 in
                           if negb (is_capitalized v) then praise c2
                           else ptry (ptry (expression T c2) ok (fun _ _ => ok (ENil, c2)))
                                     (fun '(value, c3) => ok (RA (AVariant a v value) c3)) reraise
                       | _ => praise c1
                       end) reraise) = Ret (Err c' es)).
  { intros e. destruct (is_capitalized e); [|eexists; eexists; reflexivity]. cbn [negb].
    unfold pexpect, expect, is_k. cbn [token post tok_is kw_eqb]. rewrite skip1; [|discriminate|exact Hc].
    cbn [ptry token post]. rewrite Hn. eexists. eexists. reflexivity. }
  destruct a; try (eexists; eexists; reflexivity); apply X.
Qed.

Lemma sub_field a p n ts ov b f : is_capitalized n = false -> clean b ts ->
  go T (S f) (QSub a (C p (TK KDot :: TIdent n :: ts) ov b))
  = go T f (QSub (AAccess a n) (C (TIdent n :: TK KDot :: p) ts ov b)).
Proof.
  intros Hn Hc. rewrite go_S. cbn [step]. unfold step_sub. cbn [token post].
  destruct (variant_err a p n ts ov b Hn) as (c' & es & ->); [split; [discriminate|intros _; discriminate]|].
  cbn [ptry]. unfold assignable_dot.
  rewrite skip1; [|discriminate|split; [discriminate|intros _; discriminate]].
  cbn [token post]. rewrite skip1; [|discriminate|exact Hc]. apply run_call.
Qed.

Lemma clean_true b ts : clean true ts -> clean b ts.
Proof. destruct ts as [|t ts]; [trivial|]. intros [A B]. split; [exact A|intros _; apply B; reflexivity]. Qed.

Lemma closer_clean b k ts : k = KRightParen \/ k = KRightBracket \/ k = KComma -> clean b (TK k :: ts).
Proof. intros [->|[->| ->]]; (split; [discriminate|intros _; discriminate]). Qed.

Lemma sub_index a p k ts ov b f : clean b ts ->
  go T (S (S (S f))) (QSub a (C p (TK KLeftBracket :: TInt k :: TK KRightBracket :: ts) ov b))
  = go T (S (S f)) (QSub (AIndex a (EInt k)) (C (TK KRightBracket :: TInt k :: TK KLeftBracket :: p) ts ov b)).
Proof.
  intros Hc. rewrite go_S. cbn [step]. unfold step_sub. cbn [token post]. unfold assignable_index.
  rewrite skip1; [|discriminate|split; [discriminate|intros _; discriminate]].
  unfold push_nl, set_nl. cbn [pre post over nl].
  rewrite skip0 by (split; [discriminate|intros _; discriminate]).
  unfold expression. rewrite !run_ptry. unfold call_E. cbn [run].
  rewrite prec_int by (apply closer_clean; tauto).
  rewrite loop_stop by (left; cbn [token post]; apply (ok_rbracket T OK)).
  cbn [get_E run ok ptry]. unfold pop_nl, set_nl. cbn [pre post over nl].
  unfold pexpect, expect, is_k. cbn [token post tok_is kw_eqb].
  rewrite skip1; [|discriminate|exact Hc]. cbn [ptry]. apply run_call.
Qed.

(* ---- call arguments ---- *)

Lemma args_done acc p ts ov b f :
  go T (S f) (QArgs false acc (C p (TK KRightParen :: ts) ov b)) = Ok (REs acc (C p (TK KRightParen :: ts) ov b)).
Proof. reflexivity. Qed.

Lemma skip_nls_id c : is_k KNewline c = false -> skip_nls c = c.
Proof. intros H. unfold skip_nls, local_fuel. cbn [skip_while_nl]. rewrite H. reflexivity. Qed.

Lemma after_arg_rparen p rest ov b :
  after_arg (C p (TK KRightParen :: rest) ov b) = C p (TK KRightParen :: rest) ov b.
Proof. reflexivity. Qed.

Lemma starter_not_nl t p ts ov b : starter t -> is_k KNewline (C p (t :: ts) ov b) = false.
Proof. intros S. unfold is_k. cbn [token post]. starter_cases t S; reflexivity. Qed.

Lemma after_arg_comma p t2 rest ov b : starter t2 ->
  after_arg (C p (TK KComma :: t2 :: rest) ov b) = C (TK KComma :: p) (t2 :: rest) ov b.
Proof.
  intros S2. unfold after_arg. cbn [token post tok_is kw_eqb orb].
  rewrite (skip_nls_id (C p (TK KComma :: t2 :: rest) ov b)) by reflexivity.
  rewrite skip1; [|discriminate|apply starter_clean; exact S2].
  apply skip_nls_id. apply starter_not_nl. exact S2.
Qed.

Lemma args_last acc p t ts ov b f e p1 rest ov1 b1 : starter t ->
  go T f (QPrec (pt_entry T) (C p (t :: ts) ov b)) = Ok (RE e (C p1 (TK KRightParen :: rest) ov1 b1)) ->
  go T (S f) (QArgs false acc (C p (t :: ts) ov b))
  = go T f (QArgs false (acc ++ [e]) (C p1 (TK KRightParen :: rest) ov1 b1)).
Proof.
  intros S He. rewrite go_S. cbn [step]. unfold step_args.
  starter_cases t S; cbn [token post];
    (unfold expression; rewrite !run_ptry; unfold call_E; cbn [run]; rewrite He; cbn [get_E run ok ptry];
     rewrite after_arg_rparen; apply run_call).
Qed.

Lemma args_comma acc p t ts ov b f e p1 t2 rest ov1 b1 : starter t -> starter t2 ->
  go T f (QPrec (pt_entry T) (C p (t :: ts) ov b)) = Ok (RE e (C p1 (TK KComma :: t2 :: rest) ov1 b1)) ->
  go T (S f) (QArgs false acc (C p (t :: ts) ov b))
  = go T f (QArgs false (acc ++ [e]) (C (TK KComma :: p1) (t2 :: rest) ov1 b1)).
Proof.
  intros S S2 He. rewrite go_S. cbn [step]. unfold step_args.
  starter_cases t S; cbn [token post];
    (unfold expression; rewrite !run_ptry; unfold call_E; cbn [run]; rewrite He; cbn [get_E run ok ptry];
     rewrite after_arg_comma by exact S2; apply run_call).
Qed.

Lemma sub_call a p ts ov b f args p3 rest ov3 : clean true ts -> clean b rest ->
  go T f (QArgs false [] (C (TK KLeftParen :: p) ts ov true)) = Ok (REs args (C p3 (TK KRightParen :: rest) ov3 true)) ->
  go T (S f) (QSub a (C p (TK KLeftParen :: ts) ov b))
  = go T f (QSub (ACall a args) (C (TK KRightParen :: p3) rest ov3 b)).
Proof.
  intros Hc Hr Ha. rewrite go_S. cbn [step]. unfold step_sub. cbn [token post]. unfold assignable_call.
  cbv zeta. change (is_k KPrime (C p (TK KLeftParen :: ts) ov b)) with false. cbv iota.
  rewrite skip1; [|discriminate|apply clean_true; exact Hc].
  unfold push_nl, set_nl. cbn [pre post over nl]. rewrite skip0 by exact Hc.
  rewrite !run_ptry. unfold call_Es. cbn [run]. rewrite Ha. cbn [get_Es run ok ptry].
  unfold pop_nl, set_nl. cbn [pre post over nl]. unfold pexpect, expect, is_k. cbn [token post tok_is kw_eqb].
  rewrite skip1; [|discriminate|exact Hr]. cbn [run ptry]. apply run_call.
Qed.

(* ---- the blob probe in `prefix` fails on a lower-case chain ---- *)

Lemma follow_not_dot b ts p ov : follow b ts -> is_k KDot (C p ts ov b) = false.
Proof.
  unfold is_k. cbn [token post]. destruct ts as [|t ts]; [reflexivity|]. cbn [follow].
  destruct t as [s|s|z|s|b0| |k|]; try reflexivity. destruct k; try reflexivity; discriminate.
Qed.

Lemma posts_clean b ps rest : follow b rest -> clean b (pp_posts ps ++ rest).
Proof.
  intros F. destruct ps; cbn [pp_posts app]; try (split; [discriminate|intros _; discriminate]).
  apply follow_is_clean. exact F.
Qed.

Definition is_err {A : Type} (r : res A) : Prop := match r with Err _ _ => True | _ => False end.

Lemma ta_inner_err ps : forall f p n acc ov b rest,
  lower_posts ps = true -> is_capitalized n = false -> follow b rest -> S (length (pp_posts ps)) <= f ->
  is_err (type_assignable_inner f (C p (TIdent n :: pp_posts ps ++ rest) ov b) acc).
Proof.
  induction ps as [|n' ps' IH|k ps' _|args ps' _]; intros f p n acc ov b rest L Hn F Hf;
    (destruct f as [|f]; [inversion Hf|]); cbn [type_assignable_inner token post]; rewrite Hn.
  - cbn [pp_posts app]. rewrite skip1; [|discriminate|apply follow_is_clean; exact F].
    unfold expect. rewrite follow_not_dot by exact F. exact I.
  - cbn [pp_posts app lower_posts] in *. apply andb_prop in L. destruct L as [L1 L2]. apply negb_true_iff in L1.
    rewrite skip1; [|discriminate|split; [discriminate|intros _; discriminate]].
    unfold expect, is_k. cbn [token post tok_is kw_eqb bind].
    rewrite skip1; [|discriminate|split; [discriminate|intros _; discriminate]].
    apply IH; [exact L2|exact L1|exact F|]. cbn [length] in Hf. lia.
  - cbn [pp_posts app]. rewrite skip1; [|discriminate|split; [discriminate|intros _; discriminate]]. exact I.
  - cbn [pp_posts app]. rewrite skip1; [|discriminate|split; [discriminate|intros _; discriminate]]. exact I.
Qed.

Lemma ta_err ps p r ov b rest :
  lower_posts ps = true -> is_capitalized r = false -> follow b rest ->
  is_err (type_assignable (C p (TIdent r :: pp_posts ps ++ rest) ov b)).
Proof.
  intros L Hr F. unfold type_assignable. cbn [token post]. rewrite Hr.
  destruct ps as [|n' ps'|k ps'|args ps']; cbn [pp_posts app].
  - rewrite skip1; [|discriminate|apply follow_is_clean; exact F].
    unfold expect. rewrite follow_not_dot by exact F. exact I.
  - cbn [lower_posts] in L. apply andb_prop in L. destruct L as [L1 L2]. apply negb_true_iff in L1.
    rewrite skip1; [|discriminate|split; [discriminate|intros _; discriminate]].
    unfold expect, is_k. cbn [token post tok_is kw_eqb bind].
    rewrite skip1; [|discriminate|split; [discriminate|intros _; discriminate]].
    apply ta_inner_err; [exact L2|exact L1|exact F|].
    unfold local_fuel. cbn [post length]. rewrite app_length. lia.
  - rewrite skip1; [|discriminate|split; [discriminate|intros _; discriminate]]. exact I.
  - rewrite skip1; [|discriminate|split; [discriminate|intros _; discriminate]]. exact I.
Qed.

Lemma prec_ident q p r ps rest ov b f a c1 :
  is_capitalized r = false -> lower_posts ps = true -> follow b rest ->
  go T f (QSub (ARead r) (C (TIdent r :: p) (pp_posts ps ++ rest) ov b)) = Ok (RA a c1) ->
  go T (S f) (QPrec q (C p (TIdent r :: pp_posts ps ++ rest) ov b)) = go T f (QLoop q (EGet a) c1).
Proof.
  intros Hr L F Ha. rewrite go_S. cbn [step]. unfold step_prec, prefix. cbn [token post].
  pose proof (ta_err ps p r ov b rest L Hr F) as E.
  destruct (type_assignable (C p (TIdent r :: pp_posts ps ++ rest) ov b)); try contradiction.
  cbv iota. unfold assignable_p. cbn [token post].
  rewrite skip1; [|discriminate|apply posts_clean; exact F].
  rewrite !run_ptry. unfold call_A. cbn [run]. rewrite Ha. cbn [get_A get_E run ok ptry]. apply run_call.
Qed.

(* ------------------------------------------------------------------------------------------- *)
(* literal printing parses back: the precedence conditions, relative to the table T *)

Definition accepts (q : nat) (e : ox) : Prop :=
  match e with
  | OBin o _ _ => q <= P o
  | _ => True
  end.

(* every loop still open at the right edge of e stops on a token of level k *)
Fixpoint rstop (e : ox) (k : nat) : Prop :=
  match e with
  | OBin o _ r => k < N' o /\ rstop r k
  | OUn _ x => k < U /\ rstop x k
  | _ => True
  end.

Definition hstop (e : ox) (ts : list tok) : Prop :=
  match ts with
  | [] => True
  | t :: _ => pt_valid T t = false \/ rstop e (pt_prec T t)
  end.

Fixpoint wf (e : ox) : Prop :=
  match e with
  | OInt _ => True
  | OGet _ ps => wfp ps
  | OBin o l r => accepts (P o) l /\ rstop l (P o) /\ accepts (N' o) r /\ wf l /\ wf r
  | OUn _ x => accepts U x /\ wf x
  | OParen x => wf x
  end
with wfp (ps : oposts) : Prop :=
  match ps with
  | PNil => True
  | PField _ ps' => wfp ps'
  | PIndex _ ps' => wfp ps'
  | PCall args ps' => wfa args /\ wfp ps'
  end
with wfa (l : oargs) : Prop :=
  match l with
  | ANil => True
  | ACons e rest => wf e /\ wfa rest
  end.

Definition stop_at (q : nat) (ts : list tok) : Prop :=
  match ts with
  | [] => True
  | t :: _ => pt_valid T t = false \/ pt_prec T t < q
  end.

Lemma stop_token q p ts ov b : stop_at q ts ->
  pt_valid T (token (C p ts ov b)) = false \/ pt_prec T (token (C p ts ov b)) < q.
Proof. cbn [token post]. destruct ts as [|t ts]; [intros _; left; apply (ok_eof T OK)|trivial]. Qed.

Definition Pe (e : ox) : Prop :=
  lower_ok e = true -> wf e ->
  forall q p rest ov b fl res,
    accepts q e -> hstop e rest -> follow b rest ->
    go T fl (QLoop q (emb e) (C (rev (pp e) ++ p) rest ov b)) = Ok res ->
    exists f, go T f (QPrec q (C p (pp e ++ rest) ov b)) = Ok res.

Definition Pp (ps : oposts) : Prop :=
  lower_posts ps = true -> wfp ps ->
  forall a p rest ov b, follow b rest ->
    exists f0, forall f, f0 <= f ->
      go T f (QSub a (C p (pp_posts ps ++ rest) ov b))
      = Ok (RA (emb_posts a ps) (C (rev (pp_posts ps) ++ p) rest ov b)).

Definition Pa (args : oargs) : Prop :=
  lower_args args = true -> wfa args ->
  forall acc p rest ov b,
    exists f0, forall f, f0 <= f ->
      go T f (QArgs false acc (C p (pp_args args ++ TK KRightParen :: rest) ov b))
      = Ok (REs (acc ++ emb_args args) (C (rev (pp_args args) ++ p) (TK KRightParen :: rest) ov b)).

(* direct form of Pe *)
Lemma direct e : Pe e -> lower_ok e = true -> wf e ->
  forall q p rest ov b, accepts q e -> hstop e rest -> follow b rest -> stop_at q rest ->
    exists f0, forall f, f0 <= f ->
      go T f (QPrec q (C p (pp e ++ rest) ov b)) = Ok (RE (emb e) (C (rev (pp e) ++ p) rest ov b)).
Proof.
  intros HP L W q p rest ov b A Hs F St.
  destruct (HP L W q p rest ov b 1 (RE (emb e) (C (rev (pp e) ++ p) rest ov b)) A Hs F) as [f0 Hf].
  - apply loop_stop. apply stop_token. exact St.
  - exists f0. intros f Hle. eapply go_ok_le; eauto.
Qed.

Lemma accepts_le q q' e : q <= q' -> accepts q' e -> accepts q e.
Proof. destruct e; cbn [accepts]; trivial. intros. lia. Qed.

Ltac cn := cbn [pp pp_posts pp_args rev app emb emb_posts emb_args]; rewrite ?rev_app_distr; cbn [rev app];
           rewrite <- ?app_assoc; cbn [app].
Ltac cnh H := cbn [pp pp_posts pp_args rev app emb emb_posts emb_args] in H; rewrite ?rev_app_distr in H;
              cbn [rev app] in H; rewrite <- ?app_assoc in H; cbn [app] in H.

Lemma entry_accepts e : accepts (pt_entry T) e.
Proof. destruct e; cbn [accepts]; trivial. apply (ok_entry T OK). Qed.

Lemma valid_stop_at q t ts : pt_valid T t = false -> stop_at q (t :: ts).
Proof. intros H. left. exact H. Qed.

Lemma valid_hstop e t ts : pt_valid T t = false -> hstop e (t :: ts).
Proof. intros H. left. exact H. Qed.

Lemma case_int z : Pe (OInt z).
Proof.
  intros _ _ q p rest ov b fl res _ _ F H. exists (S fl). cn. cnh H.
  rewrite prec_int by (apply follow_is_clean; exact F). exact H.
Qed.

Lemma case_get r ps : Pp ps -> Pe (OGet r ps).
Proof.
  intros IH L W q p rest ov b fl res _ _ F H.
  cbn [lower_ok] in L. apply andb_prop in L. destruct L as [L1 L2]. apply negb_true_iff in L1.
  destruct (IH L2 W (ARead r) (TIdent r :: p) rest ov b F) as [f0 H0].
  exists (S (Nat.max f0 fl)). cn. cnh H.
  rewrite (prec_ident q p r ps rest ov b (Nat.max f0 fl) _ _ L1 L2 F (H0 _ (Nat.le_max_l _ _))).
  eapply go_ok_le; [apply Nat.le_max_r|]. exact H.
Qed.

Lemma case_bin o l r : Pe l -> Pe r -> Pe (OBin o l r).
Proof.
  intros IHl IHr L W q p rest ov b fl res A Hs F H.
  cbn [lower_ok] in L. apply andb_prop in L. destruct L as [Ll Lr].
  cbn [wf] in W. destruct W as (Al & Rl & Ar & Wl & Wr). cbn [accepts] in A.
  assert (Hsr : hstop r rest /\ stop_at (N' o) rest).
  { destruct rest as [|t rest']; [split; exact I|]. cbn [hstop rstop] in Hs. destruct Hs as [Hv|[Hn Hr]].
    - split; left; exact Hv.
    - split; right; assumption. }
  destruct Hsr as [Hsr Sr].
  destruct (direct r IHr Lr Wr (N' o) (bt o :: rev (pp l) ++ p) rest ov b Ar Hsr F Sr) as [f3 H3].
  cn. apply (IHl Ll Wl q p (bt o :: pp r ++ rest) ov b (S (Nat.max f3 fl)) res).
  - eapply accepts_le; [|exact Al]. exact A.
  - right. exact Rl.
  - apply bt_follow.
  - rewrite (loop_bin q (emb l) (rev (pp l) ++ p) o (pp r ++ rest) ov b (Nat.max f3 fl) _ _ A
               (hs_clean b _ (hs_pp r rest)) (H3 _ (Nat.le_max_l _ _))).
    eapply go_ok_le; [apply Nat.le_max_r|]. cnh H. exact H.
Qed.

Lemma case_un u x : Pe x -> Pe (OUn u x).
Proof.
  intros IHx L W q p rest ov b fl res _ Hs F H.
  cbn [lower_ok] in L. cbn [wf] in W. destruct W as (Ax & Wx).
  assert (Hsx : hstop x rest /\ stop_at U rest).
  { destruct rest as [|t rest']; [split; exact I|]. cbn [hstop rstop] in Hs. destruct Hs as [Hv|[Hn Hr]].
    - split; left; exact Hv.
    - split; right; assumption. }
  destruct Hsx as [Hsx Sx].
  destruct (direct x IHx L Wx U (TK (doc_untok u) :: p) rest ov b Ax Hsx F Sx) as [f3 H3].
  exists (S (Nat.max f3 fl)). cn.
  rewrite (prec_un q p u (pp x ++ rest) ov b (Nat.max f3 fl) _ _ (hs_clean b _ (hs_pp x rest))
             (H3 _ (Nat.le_max_l _ _))).
  eapply go_ok_le; [apply Nat.le_max_r|]. cnh H. exact H.
Qed.

Lemma case_paren x : Pe x -> Pe (OParen x).
Proof.
  intros IHx L W q p rest ov b fl res _ _ F H.
  cbn [lower_ok] in L. cbn [wf] in W.
  destruct (direct x IHx L W (pt_entry T) (TK KLeftParen :: p) (TK KRightParen :: rest) ov true
              (entry_accepts x) (valid_hstop x _ _ (ok_rparen T OK)) eq_refl
              (valid_stop_at _ _ _ (ok_rparen T OK))) as [f1 H1].
  destruct (hs_pp x (TK KRightParen :: rest)) as (t & ts & E & St).
  exists (S (S (Nat.max f1 fl))). cn. rewrite E.
  rewrite (prec_paren q p t ts ov b (S (Nat.max f1 fl)) (emb x) (rev (pp x) ++ TK KLeftParen :: p) rest ov St
             (follow_is_clean b rest F)).
  - eapply go_ok_le; [|cnh H; exact H]. lia.
  - apply tuple_one; [exact St| |reflexivity]. rewrite <- E. apply H1. apply Nat.le_max_l.
Qed.

Lemma case_pnil : Pp PNil.
Proof.
  intros _ _ a p rest ov b F. exists 1. intros f Hf. destruct f as [|f]; [lia|].
  cn. apply sub_nil. exact F.
Qed.

Lemma case_pfield n ps : Pp ps -> Pp (PField n ps).
Proof.
  intros IH L W a p rest ov b F.
  cbn [lower_posts] in L. apply andb_prop in L. destruct L as [L1 L2]. apply negb_true_iff in L1.
  cbn [wfp] in W.
  destruct (IH L2 W (AAccess a n) (TIdent n :: TK KDot :: p) rest ov b F) as [f0 H0].
  exists (S f0). intros f Hf. destruct f as [|f]; [lia|]. cn.
  rewrite sub_field; [|exact L1|apply posts_clean; exact F]. apply H0. lia.
Qed.

Lemma case_pindex k ps : Pp ps -> Pp (PIndex k ps).
Proof.
  intros IH L W a p rest ov b F. cbn [lower_posts] in L. cbn [wfp] in W.
  destruct (IH L W (AIndex a (EInt k)) (TK KRightBracket :: TInt k :: TK KLeftBracket :: p) rest ov b F)
    as [f0 H0].
  exists (S (S (S f0))). intros f Hf. destruct f as [|[|[|f]]]; try lia. cn.
  rewrite sub_index by (apply posts_clean; exact F). apply H0. lia.
Qed.

Lemma args_clean args rest : clean true (pp_args args ++ TK KRightParen :: rest).
Proof.
  destruct args as [|e r]; [split; [discriminate|intros _; discriminate]|].
  cbn [pp_args]. destruct r; [|rewrite <- app_assoc]; apply hs_clean; apply hs_pp.
Qed.

Lemma case_pcall args ps : Pa args -> Pp ps -> Pp (PCall args ps).
Proof.
  intros IHa IHp L W a p rest ov b F.
  cbn [lower_posts] in L. apply andb_prop in L. destruct L as [L1 L2]. cbn [wfp] in W. destruct W as [W1 W2].
  destruct (IHa L1 W1 [] (TK KLeftParen :: p) (pp_posts ps ++ rest) ov true) as [f1 H1].
  destruct (IHp L2 W2 (ACall a (emb_args args)) (TK KRightParen :: rev (pp_args args) ++ TK KLeftParen :: p)
              rest ov b F) as [f2 H2].
  exists (S (Nat.max f1 f2)). intros f Hf. destruct f as [|f]; [lia|]. cn.
  rewrite (sub_call a p (pp_args args ++ TK KRightParen :: pp_posts ps ++ rest) ov b f (emb_args args)
             (rev (pp_args args) ++ TK KLeftParen :: p) (pp_posts ps ++ rest) ov).
  - apply H2. lia.
  - apply args_clean.
  - apply posts_clean. exact F.
  - rewrite H1 by lia. reflexivity.
Qed.

Lemma case_anil : Pa ANil.
Proof.
  intros _ _ acc p rest ov b. exists 1. intros f Hf. destruct f as [|f]; [lia|]. cn.
  rewrite app_nil_r. apply args_done.
Qed.

Lemma hs_args e r rest : hs (pp_args (ACons e r) ++ rest).
Proof. cbn [pp_args]. destruct r; [|rewrite <- app_assoc]; apply hs_pp. Qed.

Lemma case_acons e r : Pe e -> Pa r -> Pa (ACons e r).
Proof.
  intros IHe IHr L W acc p rest ov b.
  cbn [lower_args] in L. apply andb_prop in L. destruct L as [L1 L2]. cbn [wfa] in W. destruct W as [W1 W2].
  destruct r as [|e2 r2].
  - (* last argument *)
    destruct (direct e IHe L1 W1 (pt_entry T) p (TK KRightParen :: rest) ov b
                (entry_accepts e) (valid_hstop e _ _ (ok_rparen T OK)) eq_refl
                (valid_stop_at _ _ _ (ok_rparen T OK))) as [f1 H1].
    destruct (hs_pp e (TK KRightParen :: rest)) as (t & ts & E & St).
    exists (S (S f1)). intros f Hf. destruct f as [|[|f]]; try lia. cn.
    revert H1. rewrite E. intros H1.
    rewrite (args_last acc p t ts ov b (S f) (emb e) _ _ _ _ St (H1 (S f) ltac:(lia))).
    rewrite args_done. reflexivity.
  - (* another argument follows *)
    destruct (direct e IHe L1 W1 (pt_entry T) p (TK KComma :: pp_args (ACons e2 r2) ++ TK KRightParen :: rest) ov b
                (entry_accepts e) (valid_hstop e _ _ (ok_comma T OK)) eq_refl
                (valid_stop_at _ _ _ (ok_comma T OK))) as [f1 H1].
    destruct (IHr L2 W2 (acc ++ [emb e]) (TK KComma :: rev (pp e) ++ p) rest ov b) as [f2 H2].
    destruct (hs_pp e (TK KComma :: pp_args (ACons e2 r2) ++ TK KRightParen :: rest)) as (t & ts & E & St).
    destruct (hs_args e2 r2 (TK KRightParen :: rest)) as (t2 & ts2 & E2 & St2).
    exists (S (Nat.max f1 f2)). intros f Hf. destruct f as [|f]; [lia|].
    change (pp_args (ACons e (ACons e2 r2))) with (pp e ++ TK KComma :: pp_args (ACons e2 r2)).
    change (emb_args (ACons e (ACons e2 r2))) with (emb e :: emb_args (ACons e2 r2)).
    rewrite ?rev_app_distr. cbn [rev]. rewrite <- ?app_assoc. cbn [app].
    revert H1 H2. rewrite E, E2. intros H1 H2.
    rewrite (args_comma acc p t ts ov b f (emb e) _ t2 ts2 _ _ St St2 (H1 f ltac:(lia))).
    rewrite H2 by lia. rewrite <- app_assoc. reflexivity.
Qed.

Theorem roundtrip_all : (forall e, Pe e) /\ (forall ps, Pp ps) /\ (forall args, Pa args).
Proof.
  apply ox_mutind.
  - exact case_int.
  - intros r ps IH. apply case_get. exact IH.
  - intros o l IHl r IHr. apply case_bin; assumption.
  - intros u x IH. apply case_un. exact IH.
  - intros x IH. apply case_paren. exact IH.
  - exact case_pnil.
  - intros n ps IH. apply case_pfield. exact IH.
  - intros k ps IH. apply case_pindex. exact IH.
  - intros args IHa ps IHp. apply case_pcall; assumption.
  - exact case_anil.
  - intros e IHe r IHr. apply case_acons; assumption.
Qed.

End RoundTrip.

(* ------------------------------------------------------------------------------------------- *)
(* from the documented ranks ([dwf]) to the table-relative conditions ([wf]) *)

Section Bridge.
Variable T : ptab.
Hypothesis OK : tab_ok T.

Let P (o : binop) : nat := pt_prec T (bt o).
Let U : nat := pt_unary_level T.
Let N' (o : binop) : nat := pt_next T (pt_prec T (bt o)).

Lemma prec_le a b : doc_rank a <= doc_rank b -> P a <= P b.
Proof.
  intros H. destruct (Nat.eq_dec (doc_rank a) (doc_rank b)) as [E|NE].
  - unfold P. rewrite (ok_eq T OK a b E). lia.
  - destruct (ok_lt T OK a b ltac:(lia)) as [X _]. unfold P. lia.
Qed.

(* right spine, in documented ranks *)
Fixpoint rsp (t : ox) (ro : nat) : Prop :=
  match t with
  | OBin o2 _ r2 => ro <= doc_rank o2 /\ rsp r2 ro
  | OUn _ x => ro <= 5 /\ rsp x ro
  | _ => True
  end.

Definition headcond (t : ox) (ro : nat) : Prop :=
  match t with
  | OBin o2 _ _ => ro <= doc_rank o2
  | OUn _ _ => ro <= 5
  | _ => True
  end.

Lemma rsp_rstop t o : rsp t (doc_rank o) -> rstop T t (P o).
Proof.
  induction t as [z|r ps|o2 l2 _ r2 IH|u x IH|x _]; cbn [rsp rstop]; trivial.
  - intros [H1 H2]. split; [|apply IH; exact H2].
    pose proof (prec_le o o2 H1). pose proof (ok_next T OK o2). unfold P in *. lia.
  - intros [H1 H2]. split; [|apply IH; exact H2].
    apply (ok_unary T OK). unfold doc_below_unary. apply Nat.leb_le. exact H1.
Qed.

Lemma below_unary_rank o : is_product o = false -> doc_rank o <= 5.
Proof. unfold is_product, doc_below_unary. intros H. apply negb_false_iff in H. apply Nat.leb_le. exact H. Qed.

Lemma dwf_rsp t : dwf t = true -> forall ro, headcond t ro -> rsp t ro.
Proof.
  induction t as [z|r ps|o2 l2 _ r2 IH|u x IH|x _]; cbn [rsp]; trivial; intros D ro Hc; cbn [headcond] in Hc.
  - cbn [dwf] in D. apply andb_prop in D. destruct D as [D Dr]. apply andb_prop in D. destruct D as [D Dl].
    apply andb_prop in D. destruct D as [Nl Nr]. apply negb_true_iff in Nr.
    split; [exact Hc|]. apply IH; [exact Dr|].
    destruct r2 as [z|r0 ps0|o3 l3 r3|u3 x3|x3]; cbn [headcond]; trivial.
    + cbn [need_r] in Nr. apply Nat.leb_gt in Nr. lia.
    + cbn [need_r] in Nr. apply below_unary_rank in Nr. lia.
  - cbn [dwf] in D. apply andb_prop in D. destruct D as [Nu Dx]. apply negb_true_iff in Nu.
    split; [exact Hc|]. apply IH; [exact Dx|].
    destruct x as [z|r0 ps0|o3 l3 r3|u3 x3|x3]; cbn [headcond]; trivial. discriminate.
Qed.

Lemma dwf_wf_all :
  (forall e, dwf e = true -> wf T e) /\ (forall ps, dwf_posts ps = true -> wfp T ps)
  /\ (forall args, dwf_args args = true -> wfa T args).
Proof.
  apply ox_mutind; cbn [dwf dwf_posts dwf_args wf wfp wfa]; trivial.
  - intros o l IHl r IHr D.
    apply andb_prop in D. destruct D as [D Dr]. apply andb_prop in D. destruct D as [D Dl].
    apply andb_prop in D. destruct D as [Nl Nr]. apply negb_true_iff in Nl. apply negb_true_iff in Nr.
    repeat split; [| | |apply IHl; exact Dl|apply IHr; exact Dr].
    + destruct l as [z|r0 ps0|o2 l2 r2|u2 x2|x2]; cbn [accepts]; trivial.
      cbn [need_l] in Nl. apply Nat.ltb_ge in Nl. apply prec_le. exact Nl.
    + apply rsp_rstop. apply dwf_rsp; [exact Dl|].
      destruct l as [z|r0 ps0|o2 l2 r2|u2 x2|x2]; cbn [headcond]; trivial.
      * cbn [need_l] in Nl. apply Nat.ltb_ge in Nl. exact Nl.
      * cbn [need_l] in Nl. apply below_unary_rank. exact Nl.
    + destruct r as [z|r0 ps0|o2 l2 r2|u2 x2|x2]; cbn [accepts]; trivial.
      cbn [need_r] in Nr. apply Nat.leb_gt in Nr. destruct (ok_lt T OK o o2 Nr) as [_ X]. exact X.
  - intros u x IH D. apply andb_prop in D. destruct D as [Nu Dx]. apply negb_true_iff in Nu.
    split; [|apply IH; exact Dx].
    destruct x as [z|r0 ps0|o2 l2 r2|u2 x2|x2]; cbn [accepts]; trivial. discriminate.
  - intros args IHa ps IHp D. apply andb_prop in D. destruct D as [Da Dp]. split; [apply IHa|apply IHp]; assumption.
  - intros e IHe r IHr D. apply andb_prop in D. destruct D as [De Dr]. split; [apply IHe|apply IHr]; assumption.
Qed.

End Bridge.

(* ------------------------------------------------------------------------------------------- *)
(* the two printers produce trees whose literal printing parses back *)

Lemma dwf_wrap b x : dwf (wrap b x) = dwf x.
Proof. destruct b; reflexivity. Qed.

Lemma need_l_wrap o x : need_l o (wrap (need_l o x) x) = false.
Proof. destruct (need_l o x) eqn:E; [reflexivity|exact E]. Qed.
Lemma need_r_wrap o x : need_r o (wrap (need_r o x) x) = false.
Proof. destruct (need_r o x) eqn:E; [reflexivity|exact E]. Qed.
Lemma need_u_wrap x : need_u (wrap (need_u x) x) = false.
Proof. destruct (need_u x) eqn:E; [reflexivity|exact E]. Qed.

Lemma need_l_full o x : need_l o (wrap (is_op x) x) = false.
Proof. destruct x; reflexivity. Qed.
Lemma need_r_full o x : need_r o (wrap (is_op x) x) = false.
Proof. destruct x; reflexivity. Qed.
Lemma need_u_full x : need_u (wrap (is_op x) x) = false.
Proof. destruct x; reflexivity. Qed.

Lemma dwf_minp_all :
  (forall e, dwf (minp e) = true) /\ (forall ps, dwf_posts (minp_posts ps) = true)
  /\ (forall args, dwf_args (minp_args args) = true).
Proof.
  apply ox_mutind; cbn [minp minp_posts minp_args dwf dwf_posts dwf_args]; trivial.
  - intros o l IHl r IHr. rewrite need_l_wrap, need_r_wrap, !dwf_wrap, IHl, IHr. reflexivity.
  - intros u x IH. rewrite need_u_wrap, dwf_wrap, IH. reflexivity.
  - intros args IHa ps IHp. rewrite IHa, IHp. reflexivity.
  - intros e IHe r IHr. rewrite IHe, IHr. reflexivity.
Qed.

Lemma dwf_fullp_all :
  (forall e, dwf (fullp e) = true) /\ (forall ps, dwf_posts (fullp_posts ps) = true)
  /\ (forall args, dwf_args (fullp_args args) = true).
Proof.
  apply ox_mutind; cbn [fullp fullp_posts fullp_args dwf dwf_posts dwf_args]; trivial.
  - intros o l IHl r IHr. rewrite need_l_full, need_r_full, !dwf_wrap, IHl, IHr. reflexivity.
  - intros u x IH. rewrite need_u_full, dwf_wrap, IH. reflexivity.
  - intros args IHa ps IHp. rewrite IHa, IHp. reflexivity.
  - intros e IHe r IHr. rewrite IHe, IHr. reflexivity.
Qed.

Lemma lower_wrap b x : lower_ok (wrap b x) = lower_ok x.
Proof. destruct b; reflexivity. Qed.

Lemma lower_minp_all :
  (forall e, lower_ok (minp e) = lower_ok e) /\ (forall ps, lower_posts (minp_posts ps) = lower_posts ps)
  /\ (forall args, lower_args (minp_args args) = lower_args args).
Proof.
  apply ox_mutind; cbn [minp minp_posts minp_args lower_ok lower_posts lower_args]; trivial.
  - intros r ps IH. rewrite IH. reflexivity.
  - intros o l IHl r IHr. rewrite !lower_wrap, IHl, IHr. reflexivity.
  - intros u x IH. rewrite lower_wrap. exact IH.
  - intros n ps IH. rewrite IH. reflexivity.
  - intros args IHa ps IHp. rewrite IHa, IHp. reflexivity.
  - intros e IHe r IHr. rewrite IHe, IHr. reflexivity.
Qed.

Lemma lower_fullp_all :
  (forall e, lower_ok (fullp e) = lower_ok e) /\ (forall ps, lower_posts (fullp_posts ps) = lower_posts ps)
  /\ (forall args, lower_args (fullp_args args) = lower_args args).
Proof.
  apply ox_mutind; cbn [fullp fullp_posts fullp_args lower_ok lower_posts lower_args]; trivial.
  - intros r ps IH. rewrite IH. reflexivity.
  - intros o l IHl r IHr. rewrite !lower_wrap, IHl, IHr. reflexivity.
  - intros u x IH. rewrite lower_wrap. exact IH.
  - intros n ps IH. rewrite IH. reflexivity.
  - intros args IHa ps IHp. rewrite IHa, IHp. reflexivity.
  - intros e IHe r IHr. rewrite IHe, IHr. reflexivity.
Qed.

Lemma unparen_wrap b x : unparen (wrap b x) = unparen x.
Proof. destruct b; reflexivity. Qed.

Lemma unparen_minp_all :
  (forall e, unparen (minp e) = unparen e) /\ (forall ps, unparen_posts (minp_posts ps) = unparen_posts ps)
  /\ (forall args, unparen_args (minp_args args) = unparen_args args).
Proof.
  apply ox_mutind; cbn [minp minp_posts minp_args unparen unparen_posts unparen_args]; trivial;
    intros; rewrite ?unparen_wrap; congruence.
Qed.

Lemma unparen_fullp_all :
  (forall e, unparen (fullp e) = unparen e) /\ (forall ps, unparen_posts (fullp_posts ps) = unparen_posts ps)
  /\ (forall args, unparen_args (fullp_args args) = unparen_args args).
Proof.
  apply ox_mutind; cbn [fullp fullp_posts fullp_args unparen unparen_posts unparen_args]; trivial;
    intros; rewrite ?unparen_wrap; congruence.
Qed.

(* [strip_e] (all Parenthesis nodes removed from the public tree) commutes with the embedding *)
Fixpoint strip_list (l : list expr) : list expr :=
  match l with [] => [] | x :: l' => strip_e x :: strip_list l' end.

Lemma strip_emb_all :
  (forall e, strip_e (emb e) = emb (unparen e))
  /\ (forall ps a, strip_a (emb_posts a ps) = emb_posts (strip_a a) (unparen_posts ps))
  /\ (forall args, strip_list (emb_args args) = emb_args (unparen_args args)).
Proof.
  apply ox_mutind; cbn [emb emb_posts emb_args unparen unparen_posts unparen_args strip_list]; trivial.
  - intros r ps IH. cbn [strip_e]. rewrite IH. reflexivity.
  - intros o l IHl r IHr. cbn [strip_e]. rewrite IHl, IHr. reflexivity.
  - intros u x IH. cbn [strip_e]. rewrite IH. reflexivity.
  - intros n ps IH a. rewrite IH. reflexivity.
  - intros k ps IH a. rewrite IH. reflexivity.
  - intros args IHa ps IHp a. rewrite IHp. cbn [strip_a]. fold strip_list. rewrite IHa. reflexivity.
  - intros e IHe r IHr. rewrite IHe, IHr. reflexivity.
Qed.

(* ------------------------------------------------------------------------------------------- *)
(* the theorems *)

(* What may follow the expression text: nothing, or a token that (a) is not a comment and, when newlines
   are being skipped, not a newline (the parser would step over it), (b) does not continue a postfix
   chain or open a blob instantiation ( ' ( [ . { ), and (c) is not a valid infix token of the table. *)
Definition follow_rest (T : ptab) (b : bool) (rest : list tok) : Prop :=
  match rest with
  | [] => True
  | t :: _ => follow_tok b t = true /\ pt_valid T t = false
  end.

Theorem roundtrip_literal T : tab_ok T ->
  forall e, lower_ok e = true -> dwf e = true ->
  forall p rest ov b, follow_rest T b rest ->
  exists f0, forall f, f0 <= f ->
    go T f (QPrec (pt_entry T) (mkctx p (pp e ++ rest) ov b))
    = Ok (RE (emb e) (mkctx (rev (pp e) ++ p) rest ov b)).
Proof.
  intros OK e L D p rest ov b F.
  destruct (roundtrip_all T OK) as [HP _].
  destruct (dwf_wf_all T OK) as [HW _].
  apply (direct T OK e (HP e) L (HW e D)).
  - apply entry_accepts. exact OK.
  - destruct rest as [|t r]; [exact I|]. left. apply F.
  - destruct rest as [|t r]; [exact I|]. apply F.
  - destruct rest as [|t r]; [exact I|]. left. apply F.
Qed.

Theorem parse_literal T : tab_ok T ->
  forall e, lower_ok e = true -> dwf e = true ->
  forall rest, follow_rest T false rest ->
  exists f0, forall f, f0 <= f -> exists c,
    parse_expression T f (pp e ++ rest) = Ok (emb e, c)
    /\ post c = rest /\ consumed c = length (pp e) /\ nl c = false.
Proof.
  intros OK e L D rest F.
  destruct (roundtrip_literal T OK e L D [] rest 0 false F) as [f0 H].
  exists f0. intros f Hf. exists (mkctx (rev (pp e) ++ []) rest 0 false).
  unfold parse_expression, init. rewrite (H f Hf). cbn [as_E post nl consumed pre over].
  split; [reflexivity|]. split; [reflexivity|]. split; [|reflexivity].
  unfold consumed. cbn [pre over]. rewrite app_nil_r, rev_length. lia.
Qed.

Theorem roundtrip_min T : tab_ok T ->
  forall e, lower_ok e = true ->
  forall rest, follow_rest T false rest ->
  exists f0, forall f, f0 <= f -> exists c,
    parse_expression T f (print_min e ++ rest) = Ok (emb (minp e), c)
    /\ post c = rest /\ consumed c = length (print_min e).
Proof.
  intros OK e L rest F.
  destruct lower_minp_all as [LM _]. destruct dwf_minp_all as [DM _].
  destruct (parse_literal T OK (minp e) ltac:(rewrite LM; exact L) (DM e) rest F) as [f0 H].
  exists f0. intros f Hf. destruct (H f Hf) as (c & A & B & Cc & _). exists c. auto.
Qed.

Theorem roundtrip_full T : tab_ok T ->
  forall e, lower_ok e = true ->
  forall rest, follow_rest T false rest ->
  exists f0, forall f, f0 <= f -> exists c,
    parse_expression T f (print_full e ++ rest) = Ok (emb (fullp e), c)
    /\ post c = rest /\ consumed c = length (print_full e).
Proof.
  intros OK e L rest F.
  destruct lower_fullp_all as [LM _]. destruct dwf_fullp_all as [DM _].
  destruct (parse_literal T OK (fullp e) ltac:(rewrite LM; exact L) (DM e) rest F) as [f0 H].
  exists f0. intros f Hf. destruct (H f Hf) as (c & A & B & Cc & _). exists c. auto.
Qed.

Lemma strip_minp e : strip_e (emb (minp e)) = strip_e (emb e).
Proof.
  destruct strip_emb_all as [S _]. destruct unparen_minp_all as [Um _]. rewrite !S, Um. reflexivity.
Qed.

Lemma strip_fullp e : strip_e (emb (fullp e)) = strip_e (emb e).
Proof.
  destruct strip_emb_all as [S _]. destruct unparen_fullp_all as [Um _]. rewrite !S, Um. reflexivity.
Qed.

(* minimal and full parenthesisation parse to the same tree up to Parenthesis nodes *)
Theorem same_tree T : tab_ok T ->
  forall e, lower_ok e = true ->
  forall rest, follow_rest T false rest ->
  exists f0, forall f, f0 <= f -> exists t1 c1 t2 c2,
    parse_expression T f (print_min e ++ rest) = Ok (t1, c1)
    /\ parse_expression T f (print_full e ++ rest) = Ok (t2, c2)
    /\ strip_e t1 = strip_e (emb e) /\ strip_e t2 = strip_e (emb e)
    /\ post c1 = rest /\ post c2 = rest.
Proof.
  intros OK e L rest F.
  destruct (roundtrip_min T OK e L rest F) as [f1 H1].
  destruct (roundtrip_full T OK e L rest F) as [f2 H2].
  exists (Nat.max f1 f2). intros f Hf.
  destruct (H1 f ltac:(lia)) as (c1 & A1 & B1 & _).
  destruct (H2 f ltac:(lia)) as (c2 & A2 & B2 & _).
  exists (emb (minp e)), c1, (emb (fullp e)), c2.
  repeat split; auto using strip_minp, strip_fullp.
Qed.
