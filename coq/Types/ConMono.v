(* C03: a successful unification (fn unify / fn sub_unify) and the constraint checks never DROP a constraint: every
   constraint recorded on a class before is recorded on the class afterwards (`cmono`, closed under bind like ext / pres:
   CM).  With TcInv.unify_same_rep: after `unify a b` the one class of a and b has the constraints of both.
   The one function that overwrites a constraint set, set_cons, is only applied to the node a copy has just created
   (framed: nothing below the old `next` is touched). *)
From Coq Require Import String List NArith ZArith PArith Bool Lia FMapPositive.
From Sylt Require Import Syntax.Resolved Types.TyGraph Types.Tc Types.TcInv Types.Reject Types.Mismatch Types.Complete1.
Import ListNotations.
Local Open Scope positive_scope.
Local Open Scope tc_scope.

Definition cmono (s s' : st) : Prop := forall i c, has_con s i c -> has_con s' i c.
Lemma cmono_refl s : cmono s s. Proof. intros i c H; exact H. Qed.
Lemma cmono_trans s1 s2 s3 : cmono s1 s2 -> cmono s2 s3 -> cmono s1 s3.
Proof. intros A B i c H. auto. Qed.

Definition CM {A} (m : M A) : Prop := forall s a s', wf s -> m s = Ok (a, s') -> cmono s s'.

Lemma CM_bind {A B} (m : M A) (k : A -> M B) : pres m -> CM m -> (forall a, CM (k a)) -> CM (bind m k).
Proof.
  intros P Cm Ck s b s' W H. apply bind_inv in H as (a & s1 & H1 & H2). destruct (P _ _ _ W H1) as [W1 _].
  eapply cmono_trans; [exact (Cm _ _ _ W H1)|exact (Ck a _ _ _ W1 H2)].
Qed.
Lemma CM_ro {A} (m : M A) : readonly m -> CM m.
Proof. intros R s a s' _ H. rewrite (R _ _ _ H). apply cmono_refl. Qed.
Lemma CM_ret {A} (a : A) : CM (ret a). Proof. intros s x s' _ H. injection H as _ <-. apply cmono_refl. Qed.
Lemma CM_fail {A} k sp : CM (@fail A k sp). Proof. intros s x s' _ H. discriminate. Qed.
Lemma CM_oof {A} : CM (@out_of_fuel A). Proof. intros s x s' _ H. discriminate. Qed.

Lemma CM_iterM {A} (f : A -> M unit) l : (forall x, pres (f x)) -> (forall x, CM (f x)) -> CM (iterM f l).
Proof.
  intros P C. induction l as [|x l IH]; cbn [iterM]; [apply CM_ret|]. apply CM_bind; [apply P|apply C|intros _; exact IH].
Qed.
Lemma CM_iter2 (f : tyid -> tyid -> M unit) : (forall x y, pres (f x y)) -> (forall x y, CM (f x y)) -> forall xs ys, CM (iter2 f xs ys).
Proof.
  intros P C. induction xs as [|x xs IH]; intros [|y ys]; cbn [iter2]; try apply CM_ret.
  apply CM_bind; [apply P|apply C|intros _; apply IH].
Qed.
Lemma CM_mapM {A B} (f : A -> M B) l : (forall x, pres (f x)) -> (forall x, CM (f x)) -> CM (mapM f l).
Proof.
  intros P C. induction l as [|x l IH]; cbn [mapM]; [apply CM_ret|].
  apply CM_bind; [apply P|apply C|intros y]. apply CM_bind; [now apply pres_mapM|exact IH|intros; apply CM_ret].
Qed.

(* lookups below next are kept -> constraints kept *)
Lemma cmono_frame s s' : wf s -> frame s s' -> cmono s s'.
Proof.
  intros W [_ F] i c (r & n & Hr & Hn & Hc). destruct W as [W1 W2].
  unfold rep in Hr. destruct (lk s i) as [x|] eqn:Li; [|discriminate]. injection Hr as <-.
  exists (nrep x), n. split; [unfold rep; rewrite (F i (W1 _ _ Li)), Li; reflexivity|]. split; [|exact Hc].
  rewrite (F _ (W1 _ _ Hn)). exact Hn.
Qed.

Lemma CM_push t : CM (push_type t).
Proof. intros s a s' W H. destruct (framed_push t s a s' W H) as [_ F]. now apply cmono_frame. Qed.

Lemma CM_add_constraint a c : CM (add_constraint a c).
Proof. intros s u s' W H. destruct (add_constraint_spec _ _ _ _ _ W H) as (_ & _ & _ & _ & _ & X). exact X. Qed.

Lemma CM_set_type a t : CM (set_type a t).
Proof.
  intros s u s' W H. unfold set_type in H.
  apply bind_inv in H as (r & s1 & H1 & H). apply find_inv in H1 as [-> Ra].
  apply bind_inv in H as (n & s2 & H2 & H). apply get_node_inv in H2 as [-> Ln].
  rewrite put_node_eq in H. injection H as _ <-.
  intros i c (q & m & Hq & Hm & Hc).
  assert (Rp : rep (put_st r (mkNode t (nrep n) (nsize n) (ncons n)) s) i = Some q)
    by (rewrite (rep_put_root s r n (mkNode t (nrep n) (nsize n) (ncons n)) i Ln eq_refl); exact Hq).
  destruct (Pos.eq_dec q r) as [->|Nq].
  - rewrite Ln in Hm. injection Hm as <-. eexists r, _. split; [exact Rp|]. split; [apply lk_put_same|exact Hc].
  - exists q, m. split; [exact Rp|]. split; [rewrite lk_put_other by exact Nq; exact Hm|exact Hc].
Qed.

(* union: every class keeps its constraints; wf is kept whatever the shapes *)
Lemma union_cmono a b s u s' : wf s -> union a b s = Ok (u, s') -> wf s' /\ cmono s s'.
Proof.
  intros W H. unfold union in H.
  apply bind_inv in H as (ra & s1 & H1 & H). apply find_inv in H1 as [-> Ra].
  apply bind_inv in H as (rb & s2 & H2 & H). apply find_inv in H2 as [-> Rb].
  destruct (Pos.eqb_spec ra rb) as [->|Ne]; [injection H as _ <-; split; [exact W|apply cmono_refl]|].
  apply bind_inv in H as (na & s3 & H3 & H). apply get_node_inv in H3 as [-> La].
  apply bind_inv in H as (nb & s4 & H4 & H). apply get_node_inv in H4 as [-> Lb].
  destruct (root_of _ _ _ W Ra) as (na' & La' & Ea). rewrite La in La'. injection La' as <-.
  destruct (root_of _ _ _ W Rb) as (nb' & Lb' & Eb). rewrite Lb in Lb'. injection Lb' as <-.
  assert (G : forall big small nbig nsmall, lk s big = Some nbig -> nrep nbig = big -> lk s small = Some nsmall ->
               nrep nsmall = small -> big <> small ->
               wf (union_st big small nbig nsmall s) /\ cmono s (union_st big small nbig nsmall s)).
  { intros big small nbig nsmall Hb Eb' Hs Es Nbs. pose proof W as [W1 W2].
    set (sU := union_st big small nbig nsmall s).
    assert (R : forall i, rep sU i = option_map (fun q => if Pos.eqb q small then big else q) (rep s i))
      by (intros; now apply rep_union).
    assert (Lbig : lk sU big = Some (mkNode (nty nbig) big (nsize nbig + nsize nsmall)%N
                                           (fold_left (fun acc c => cinsert c acc) (ncons nsmall) (ncons nbig))))
      by (unfold sU; rewrite lk_union, Pos.eqb_refl; reflexivity).
    assert (Hroot : forall q x, lk s q = Some x -> nrep x = q -> q <> small -> q <> big -> lk sU q = Some x).
    { intros q x Hq Eq N1 N2. unfold sU. rewrite lk_union.
      destruct (Pos.eqb_spec q big); [contradiction|]. rewrite Hq. cbn [option_map]. unfold moved.
      rewrite Eq. destruct (Pos.eqb_spec q small); [contradiction|reflexivity]. }
    split; [split|].
    - intros i x Hi. unfold sU in *. rewrite lk_union in Hi. cbn [union_st next].
      destruct (Pos.eqb_spec i big) as [->|Ni]; [eapply W1; eassumption|].
      destruct (lk s i) as [y|] eqn:Ey; [|discriminate]. eapply W1; eassumption.
    - intros i x Hi.
      assert (Rx : rep sU i = Some (nrep x)) by (unfold rep; rewrite Hi; reflexivity).
      rewrite R in Rx. unfold rep in Rx. destruct (lk s i) as [y|] eqn:Ey; [|discriminate].
      cbn [option_map] in Rx. injection Rx as Rx.
      destruct (Pos.eqb_spec (nrep y) small) as [Eq|Nq].
      + rewrite <- Rx. eexists. split; [exact Lbig|reflexivity].
      + destruct (W2 _ _ Ey) as (q & Hq & Eqq).
        destruct (Pos.eq_dec (nrep y) big) as [Eb2|Nb2].
        * rewrite <- Rx, Eb2. eexists. split; [exact Lbig|reflexivity].
        * rewrite <- Rx. exists q. split; [|assumption]. apply Hroot; assumption.
    - intros i c (q & m & Hq & Hm & Hc).
      destruct (root_of _ _ _ W Hq) as (m' & Hm' & Em). rewrite Hm in Hm'. injection Hm' as <-.
      destruct (Pos.eqb_spec q small) as [->|Nq].
      + rewrite Hs in Hm. injection Hm as <-. eexists big, _. split; [rewrite R, Hq; cbn [option_map]; rewrite Pos.eqb_refl; reflexivity|].
        split; [exact Lbig|]. cbn [ncons]. now apply fold_cinsert_new.
      + assert (Rq : rep sU i = Some q) by (rewrite R, Hq; cbn [option_map]; destruct (Pos.eqb_spec q small); [contradiction|reflexivity]).
        destruct (Pos.eq_dec q big) as [->|Nb].
        * rewrite Hb in Hm. injection Hm as <-. eexists big, _. split; [exact Rq|]. split; [exact Lbig|]. cbn [ncons]. now apply fold_cinsert_acc.
        * exists q, m. split; [exact Rq|]. split; [now apply Hroot|exact Hc]. }
  destruct (N.ltb (nsize na) (nsize nb)).
  - injection H as _ H. change (union_st rb ra nb na s = s') in H. subst s'. apply G; auto.
  - injection H as _ H. change (union_st ra rb na nb s = s') in H. subst s'. apply G; auto.
Qed.

Lemma ro_find_node a : readonly (find_node a).
Proof. intros s n s' H. apply find_node_inv in H as [-> _]. reflexivity. Qed.
Lemma CM_panic {A} p : CM (@panic A p). Proof. intros s x s' _ H. discriminate. Qed.

Record gcm (R : grec) : Prop := mkGC {
  cm_unify : forall sp a b seen s r s', wf s -> seen_ok seen s -> g_unify R sp a b seen s = Ok (r, s') -> cmono s s';
  cm_check : forall sp a, CM (g_check R sp a);
  cm_arith : forall k sp a b, CM (g_arith R k sp a b);
  cm_div : forall sp a b, CM (g_div R sp a b);
  cm_divres : forall sp a b, CM (g_divres R sp a b);
  cm_neg : forall sp a, CM (g_neg R sp a)
}.

Section Step.
  Variable R : grec.
  Hypothesis P : gpres R.
  Hypothesis C : gcm R.

  Lemma CM_unify sp a b : CM (unify R sp a b).
  Proof.
    intros s r s' W H. unfold unify in H. apply bind_inv in H as (x & s1 & H1 & H). injection H as _ <-.
    destruct x as [r0 sn]. exact (cm_unify R C sp a b [] s (r0, sn) s1 W (seen_ok_nil s) H1).
  Qed.

  Ltac cstep :=
    match goal with
    | |- CM (ret _) => apply CM_ret
    | |- CM (fail _ _) => apply CM_fail
    | |- CM (panic _) => apply CM_panic
    | |- CM out_of_fuel => apply CM_oof
    | |- CM (bind _ _) => apply CM_bind; [pauto R P| |intros ?]
    | |- CM (find _) => apply CM_ro, ro_find
    | |- CM (find_type _) => apply CM_ro, ro_find_type
    | |- CM (find_node _) => apply CM_ro, ro_find_node
    | |- CM (push_type _) => apply CM_push
    | |- CM (add_constraint _ _) => apply CM_add_constraint
    | |- CM (iterM _ _) => apply CM_iterM; [intros ?; pauto R P|intros ?]
    | |- CM (iter2 _ _ _) => apply CM_iter2; [intros ? ?; pauto R P|intros ? ?]
    | |- CM (mapM _ _) => apply CM_mapM; [intros ?; pauto R P|intros ?]
    | |- CM (g_check R _ _) => apply (cm_check R C)
    | |- CM (g_arith R _ _ _ _) => apply (cm_arith R C)
    | |- CM (g_div R _ _ _) => apply (cm_div R C)
    | |- CM (g_divres R _ _ _) => apply (cm_divres R C)
    | |- CM (g_neg R _ _) => apply (cm_neg R C)
    | |- CM (unify R _ _ _) => apply CM_unify
    | |- CM (check_not_inside R _ _ _) => apply CM_ro, (ro_check_not_inside R P)
    | |- CM (match ?x with _ => _ end) => destruct x
    end.
  Ltac cauto := repeat cstep.

  Lemma CM_arith_body k sp a b : CM (arith_body R k sp a b).
  Proof. unfold arith_body. cauto. Qed.
  Lemma CM_div_body sp a b : CM (div_body R sp a b).
  Proof. unfold div_body. cauto. Qed.
  Lemma CM_divres_body sp a b : CM (divres_body R sp a b).
  Proof. unfold divres_body. cauto. Qed.
  Lemma CM_neg_body sp a : CM (neg_body R sp a).
  Proof. unfold neg_body. cauto. Qed.
  Lemma CM_constant_index sp a i r : CM (constant_index R sp a i r).
  Proof. unfold constant_index. cauto. Qed.
  Lemma CM_check_one sp a c : CM (check_one R sp a c).
  Proof. unfold check_one. destruct c; try apply CM_constant_index; cauto. Qed.
  Lemma CM_check_body sp a : CM (check_body R sp a).
  Proof.
    unfold check_body. apply CM_bind; [pauto R P|apply CM_ro, ro_find_node|intros n].
    apply CM_iterM; [intros c; now apply pres_check_one|intros c; apply CM_check_one].
  Qed.

  Lemma unify2_cm sp : forall xs ys seen s seen' s',
    wf s -> seen_ok seen s -> unify2 R sp xs ys seen s = Ok (seen', s') -> cmono s s'.
  Proof.
    induction xs as [|x xs IH]; intros [|y ys] seen s seen' s' W S H; cbn [unify2] in H;
      try (injection H as _ <-; apply cmono_refl).
    apply bind_inv in H as (r & s1 & H1 & H).
    destruct (gp_unify R P _ _ _ _ _ _ _ W S H1) as (W1 & _ & S1 & _).
    eapply cmono_trans; [exact (cm_unify R C _ _ _ _ _ _ _ W S H1)|exact (IH _ _ _ _ _ W1 S1 H)].
  Qed.

  Lemma unify_fields_cm sp missing a_fields : forall b_fields seen s seen' s',
    wf s -> seen_ok seen s -> unify_fields R sp missing a_fields b_fields seen s = Ok (seen', s') -> cmono s s'.
  Proof.
    induction b_fields as [|[k [bsp b_ty]] rest IH]; intros seen s seen' s' W S H; cbn [unify_fields] in H.
    - injection H as _ <-. apply cmono_refl.
    - destruct (flookup k a_fields) as [[asp a_ty]|]; [|discriminate].
      apply bind_inv in H as (r & s1 & H1 & H).
      destruct (gp_unify R P _ _ _ _ _ _ _ W S H1) as (W1 & _ & S1 & _).
      eapply cmono_trans; [exact (cm_unify R C _ _ _ _ _ _ _ W S H1)|exact (IH _ _ _ _ W1 S1 H)].
  Qed.

  Lemma set_type_wf_cm a t s u s' : wf s -> set_type a t s = Ok (u, s') -> wf s' /\ cmono s s'.
  Proof.
    intros W H. split; [|exact (CM_set_type a t s u s' W H)]. unfold set_type in H.
    apply bind_inv in H as (r & s1 & H1 & H). apply find_inv in H1 as [-> Ra].
    apply bind_inv in H as (n & s2 & H2 & H). apply get_node_inv in H2 as [-> Ln].
    rewrite put_node_eq in H. injection H as _ <-. exact (wf_put_root s r n (mkNode t (nrep n) (nsize n) (ncons n)) W Ln eq_refl).
  Qed.

  Lemma CM_unify_body sp a b seen s r s' :
    wf s -> seen_ok seen s -> unify_body R sp a b seen s = Ok (r, s') -> cmono s s'.
  Proof.
    intros W S H. unfold unify_body in H.
    apply bind_inv in H as (ra & s1 & H1 & H). apply find_inv in H1 as [-> H1].
    apply bind_inv in H as (rb & s2 & H2 & H). apply find_inv in H2 as [-> H2].
    destruct (Pos.eqb ra rb || seen_mem ra rb seen); [injection H as _ <-; apply cmono_refl|].
    apply bind_inv in H as (ta & s3 & Ha & H). apply find_type_inv in Ha as [-> Ha].
    apply bind_inv in H as (tb & s4 & Hb & H). apply find_type_inv in Hb as [-> Hb].
    apply bind_inv in H as (seen' & s2 & Hm & H).
    set (seen1 := (rb, ra) :: (ra, rb) :: seen) in *.
    assert (Mid : wf s2 /\ cmono s s2).
    { assert (SI : inner ta = true -> inner tb = true -> seen_ok seen1 s).
      { intros Ia Ib x y [E|[E|Hin]]; [injection E as <- <-|injection E as <- <-|exact (S _ _ Hin)];
          right; right; eauto 6. }
      assert (UB : forall X, (check_not_inside R sp rb ra ;;; set_type rb X ;;; ret seen1) s = Ok (seen', s2) -> wf s2 /\ cmono s s2).
      { intros X Hx. apply bind_inv in Hx as (u1 & s5 & Hc & Hx). rewrite (ro_check_not_inside R P _ _ _ _ _ _ Hc) in *.
        apply bind_inv in Hx as (u2 & s6 & Hs & Hx). injection Hx as _ <-. exact (set_type_wf_cm _ _ _ _ _ W Hs). }
      assert (UA : forall X, (check_not_inside R sp ra rb ;;; set_type ra X ;;; ret seen1) s = Ok (seen', s2) -> wf s2 /\ cmono s s2).
      { intros X Hx. apply bind_inv in Hx as (u1 & s5 & Hc & Hx). rewrite (ro_check_not_inside R P _ _ _ _ _ _ Hc) in *.
        apply bind_inv in Hx as (u2 & s6 & Hs & Hx). injection Hx as _ <-. exact (set_type_wf_cm _ _ _ _ _ W Hs). }
      assert (RT : ret seen1 s = Ok (seen', s2) -> wf s2 /\ cmono s s2)
        by (intros Hx; injection Hx as _ <-; split; [exact W|apply cmono_refl]).
      assert (U2 : forall xs ys, inner ta = true -> inner tb = true -> unify2 R sp xs ys seen1 s = Ok (seen', s2) -> wf s2 /\ cmono s s2).
      { intros xs ys Ia Ib Hx. destruct (unify2_spec R P _ _ _ _ _ _ _ W (SI Ia Ib) Hx) as (W2 & _).
        split; [exact W2|exact (unify2_cm _ _ _ _ _ _ _ W (SI Ia Ib) Hx)]. }
      assert (UF : forall mk af bf, inner ta = true -> inner tb = true -> unify_fields R sp mk af bf seen1 s = Ok (seen', s2) -> wf s2 /\ cmono s s2).
      { intros mk af bf Ia Ib Hx. destruct (unify_fields_spec R P _ _ _ _ _ _ _ _ W (SI Ia Ib) Hx) as (W2 & _).
        split; [exact W2|exact (unify_fields_cm _ _ _ _ _ _ _ _ W (SI Ia Ib) Hx)]. }
      assert (UL : forall x y, inner ta = true -> inner tb = true ->
                   (r0 <- g_unify R sp x y seen1 ;; ret (snd r0)) s = Ok (seen', s2) -> wf s2 /\ cmono s s2).
      { intros x y Ia Ib Hx. apply bind_inv in Hx as (r0 & s5 & Hu & Hx). injection Hx as _ <-.
        destruct (gp_unify R P _ _ _ _ _ _ _ W (SI Ia Ib) Hu) as (W2 & _).
        split; [exact W2|exact (cm_unify R C _ _ _ _ _ _ _ W (SI Ia Ib) Hu)]. }
      assert (UN : forall xs ys x y, inner ta = true -> inner tb = true ->
                   (sn1 <- unify2 R sp xs ys seen1 ;; r0 <- g_unify R sp x y sn1 ;; ret (snd r0)) s = Ok (seen', s2) -> wf s2 /\ cmono s s2).
      { intros xs ys x y Ia Ib Hx. apply bind_inv in Hx as (sn1 & s5 & Hu2 & Hx).
        destruct (unify2_spec R P _ _ _ _ _ _ _ W (SI Ia Ib) Hu2) as (W5 & _ & S5 & _).
        apply bind_inv in Hx as (r0 & s6 & Hu & Hx). injection Hx as _ <-.
        destruct (gp_unify R P _ _ _ _ _ _ _ W5 S5 Hu) as (W2 & _).
        split; [exact W2|]. eapply cmono_trans; [exact (unify2_cm _ _ _ _ _ _ _ W (SI Ia Ib) Hu2)|exact (cm_unify R C _ _ _ _ _ _ _ W5 S5 Hu)]. }
      clear SI.
      destruct ta; destruct tb; try discriminate Hm; try (exact (UB _ Hm)); try (exact (UA _ Hm)); try (exact (RT Hm));
        repeat (match type of Hm with (if ?c then _ else _) _ = _ => destruct c end; try discriminate Hm);
        first [exact (U2 _ _ eq_refl eq_refl Hm)|exact (UF _ _ _ eq_refl eq_refl Hm)|exact (UL _ _ eq_refl eq_refl Hm)
              |exact (UN _ _ _ _ eq_refl eq_refl Hm)]. }
    destruct Mid as [W2 M2].
    apply bind_inv in H as (u3 & s3 & Hu & H). destruct (union_cmono _ _ _ _ _ W2 Hu) as [W3 M3].
    apply bind_inv in H as (u4 & s4 & Hc & H). injection H as _ <-.
    eapply cmono_trans; [exact M2|]. eapply cmono_trans; [exact M3|exact (cm_check R C _ _ _ _ _ W3 Hc)].
  Qed.

  Lemma gcm_step : gcm (gstep R).
  Proof.
    constructor; cbn [gstep g_unify g_check g_arith g_div g_divres g_neg]; intros.
    - eapply CM_unify_body; eassumption.
    - apply CM_check_body.
    - apply CM_arith_body.
    - apply CM_div_body.
    - apply CM_divres_body.
    - apply CM_neg_body.
  Qed.
End Step.

Theorem gcm_gfix : forall g, gcm (gfix g).
Proof.
  induction g as [|g IH]; cbn [gfix].
  - constructor; intros; try apply CM_oof. discriminate.
  - apply gcm_step; [apply gfix_pres|exact IH].
Qed.

(* ================================================================== *)
(* a successful unification never drops a constraint: every constraint recorded on a class before is recorded on the class
   afterwards -- in particular those of the classes of a and of b, which are one class then *)
Theorem unify_keeps_constraints g sp a b s r s' :
  wf s -> unify (gfix g) sp a b s = Ok (r, s') -> forall i c, has_con s i c -> has_con s' i c.
Proof. intros W H. exact (CM_unify (gfix g) (gcm_gfix g) sp a b s r s' W H). Qed.

Theorem sub_unify_keeps_constraints g sp a b seen s r s' :
  wf s -> seen_ok seen s -> g_unify (gfix g) sp a b seen s = Ok (r, s') -> forall i c, has_con s i c -> has_con s' i c.
Proof. intros W S H. exact (cm_unify (gfix g) (gcm_gfix g) sp a b seen s r s' W S H). Qed.

Theorem unify_merges_constraints g sp a b s r s' c :
  wf s -> unify (gfix g) sp a b s = Ok (r, s') -> has_con s a c \/ has_con s b c -> has_con s' a c /\ has_con s' b c.
Proof.
  intros W H Hc. pose proof (unify_keeps_constraints g sp a b s r s' W H) as K.
  destruct (unify_same_rep _ _ _ _ _ _ _ W H) as (_ & _ & (q & Ra & Rb) & _).
  assert (X : forall x y, rep s' x = Some q -> rep s' y = Some q -> has_con s' x c -> has_con s' y c).
  { intros x y Hx Hy (q' & n & Hq & Hn & Hi). rewrite Hx in Hq. injection Hq as <-. exists q, n. auto. }
  destruct Hc as [Hc|Hc]; apply K in Hc; split; eauto.
Qed.

(* the checks never drop a constraint either *)
Theorem check_keeps_constraints g sp a s u s' :
  wf s -> g_check (gfix g) sp a s = Ok (u, s') -> forall i c, has_con s i c -> has_con s' i c.
Proof. intros W H. exact (cm_check (gfix g) (gcm_gfix g) sp a s u s' W H). Qed.
