(* C02 with tuples: blocks as in SoundE1 whose expressions may also build tuples of base-typed components
   `(e1, .., en)`, index them with a constant `t[i]`, compare them with == != < >, choose between them with
   if-expressions, and keep them in local variables.
   The class of a tuple value has a tuple type whose component classes have the components' base types; that this
   survives every extension of the type graph is TcInv.kid_keep (the components of a class stay put).
   The fragment is delimited by a shape analysis (base / n-tuple) that does not look at the types: operands of the
   arithmetic and boolean operators are base-shaped, the operands of a comparison and the branches of an if have the
   same shape, an index is applied to a tuple shape and is in range.  Acceptance by the checker then gives the types. *)
From Coq Require Import String List NArith ZArith PArith Bool Lia FMapPositive.
From Sylt Require Import Syntax.Resolved Types.TyGraph Types.Tc Types.Ctx Types.TcInv Types.Reject Types.Mismatch
     Types.ShapesDecl Types.SoundE0 Types.SoundE1.
Import ListNotations.
Local Open Scope tc_scope.

(* ------------------------------------------------------------------ syntax *)

Inductive e2 :=
| I2 (z : Z) | F2 (r : string) | S2 (s : string) | B2 (b : bool)
| Bin2 (op : binop) (a b : e2)
| Un2 (op : uniop) (a : e2)
| If2 (c a b : e2)
| R2 (x : N)
| T2 (es : list e2)                   (* (e1, .., en) *)
| Ix2 (e : e2) (i : nat).             (* e[i] *)

Inductive s2 :=
| D2 (x : N) (kind : varkind) (e : e2)
| A2 (x : N) (e : e2)
| X2 (e : e2).

Fixpoint to_expr2 (sp : span) (e : e2) : expr :=
  match e with
  | I2 z => EInt z sp | F2 r => EFloat r sp | S2 s => EStr s sp | B2 b => EBool b sp
  | Bin2 op a b => EBinOp op (to_expr2 sp a) (to_expr2 sp b) sp
  | Un2 op a => EUniOp op (to_expr2 sp a) sp
  | If2 c a b =>
    EIf [IfBranch (Some (to_expr2 sp c)) [SStatementExpression (to_expr2 sp a) sp] sp;
         IfBranch None [SStatementExpression (to_expr2 sp b) sp] sp] sp
  | R2 x => ERead x sp
  | T2 es => ECollection CTuple ((fix go l := match l with [] => [] | x :: r => to_expr2 sp x :: go r end) es) sp
  | Ix2 e i => EIndex (to_expr2 sp e) (EInt (Z.of_nat i) sp) sp
  end.

Lemma to_expr2_go sp es :
  (fix go l := match l with [] => [] | x :: r => to_expr2 sp x :: go r end) es = map (to_expr2 sp) es.
Proof. induction es as [|x l IH]; [reflexivity|]. cbn [map]. now rewrite IH. Qed.

Definition to_stmt2 (sp : span) (st : s2) : stmt :=
  match st with
  | D2 x k e => SDefinition "" x k (TImplied sp) (to_expr2 sp e) sp
  | A2 x e => SAssignment Nop (ERead x sp) (to_expr2 sp e) sp
  | X2 e => SStatementExpression (to_expr2 sp e) sp
  end.

Definition to_block2 (sp : span) (ss : list s2) (e : e2) : list stmt :=
  map (to_stmt2 sp) ss ++ [SStatementExpression (to_expr2 sp e) sp].

(* ------------------------------------------------------------------ shapes: what delimits the fragment *)

Inductive shape := SB | ST (n : nat).
Definition shape_eqb (a b : shape) : bool :=
  match a, b with SB, SB => true | ST n, ST m => Nat.eqb n m | _, _ => false end.

Definition senv := list (N * shape).
Fixpoint shlookup (E : senv) (x : N) : option shape :=
  match E with [] => None | (y, t) :: r => if N.eqb x y then Some t else shlookup r x end.

Definition cmp_like (op : binop) : bool :=
  match op with Equals | NotEquals | AssertEq | Greater | Less => true | _ => false end.

Fixpoint shp (E : senv) (e : e2) : option shape :=
  match e with
  | I2 _ | F2 _ | S2 _ | B2 _ => Some SB
  | Bin2 op a b =>
    match op with
    | Nop | Div => None
    | _ =>
      match shp E a, shp E b with
      | Some SB, Some SB => Some SB
      | Some (ST n), Some (ST m) => if cmp_like op && Nat.eqb n m then Some SB else None
      | _, _ => None
      end
    end
  | Un2 _ a => match shp E a with Some SB => Some SB | _ => None end
  | If2 c a b =>
    match shp E c, shp E a, shp E b with
    | Some SB, Some sa, Some sb => if shape_eqb sa sb then Some sa else None
    | _, _, _ => None
    end
  | R2 x => shlookup E x
  | T2 es =>
    if (fix all l := match l with [] => true | x :: r => match shp E x with Some SB => all r | _ => false end end) es
    then Some (ST (length es)) else None
  | Ix2 e i => match shp E e with Some (ST n) => if Nat.ltb i n then Some SB else None | _ => None end
  end.

Definition shp_stmt (E : senv) (st : s2) : option senv :=
  match st with
  | D2 x _ e => match shp E e with Some sh => Some ((x, sh) :: E) | None => None end
  | A2 x e => match shp E e, shlookup E x with Some sa, Some sx => if shape_eqb sa sx then Some E else None | _, _ => None end
  | X2 e => match shp E e with Some _ => Some E | None => None end
  end.

Fixpoint frag2 (E : senv) (ss : list s2) (e : e2) : bool :=
  match ss with
  | [] => match shp E e with Some _ => true | None => false end
  | st :: r => match shp_stmt E st with Some E' => frag2 E' r e | None => false end
  end.

(* ------------------------------------------------------------------ types *)

Inductive ty2 := Base (t : bty) | Tup (ts : list bty).
Definition shape_of (t : ty2) : shape := match t with Base _ => SB | Tup ts => ST (length ts) end.

Fixpoint btys_eqb (a b : list bty) : bool :=
  match a, b with
  | [], [] => true
  | x :: a', y :: b' => bty_eqb x y && btys_eqb a' b'
  | _, _ => false
  end.
Definition ty2_eqb (a b : ty2) : bool :=
  match a, b with Base x, Base y => bty_eqb x y | Tup x, Tup y => btys_eqb x y | _, _ => false end.

Lemma btys_eqb_eq a : forall b, btys_eqb a b = true -> a = b.
Proof.
  induction a as [|x a IH]; intros [|y b] H; cbn in H; try discriminate; [reflexivity|].
  apply andb_true_iff in H as [H1 H2]. apply bty_eqb_eq in H1. apply IH in H2. congruence.
Qed.
Lemma btys_eqb_refl a : btys_eqb a a = true.
Proof. induction a as [|x a IH]; [reflexivity|]. cbn. rewrite IH. destruct x; reflexivity. Qed.
Lemma ty2_eqb_eq a b : ty2_eqb a b = true -> a = b.
Proof. destruct a, b; cbn; intros H; try discriminate; [apply bty_eqb_eq in H|apply btys_eqb_eq in H]; congruence. Qed.
Lemma ty2_eqb_refl a : ty2_eqb a a = true.
Proof. destruct a; cbn; [destruct t; reflexivity|apply btys_eqb_refl]. Qed.

Definition tenv2 := list (N * ty2).
Fixpoint tlookup2 (E : tenv2) (x : N) : option ty2 :=
  match E with [] => None | (y, t) :: r => if N.eqb x y then Some t else tlookup2 r x end.

(* ordering / equality of two tuples: component by component *)
Fixpoint cmp_all (op : binop) (a b : list bty) : bool :=
  match a, b with
  | [], [] => true
  | x :: a', y :: b' => (match bin_ty op x y with Some TB => true | _ => false end) && cmp_all op a' b'
  | _, _ => false
  end.

Definition bin_ty2 (op : binop) (a b : ty2) : option ty2 :=
  match a, b with
  | Base x, Base y => option_map Base (bin_ty op x y)
  | Tup x, Tup y => if cmp_like op && cmp_all op x y then Some (Base TB) else None
  | _, _ => None
  end.

Fixpoint ty2of (E : tenv2) (e : e2) : option ty2 :=
  match e with
  | I2 _ => Some (Base TI) | F2 _ => Some (Base TF) | S2 _ => Some (Base TS) | B2 _ => Some (Base TB)
  | Bin2 op a b => match ty2of E a, ty2of E b with Some ta, Some tb => bin_ty2 op ta tb | _, _ => None end
  | Un2 op a => match ty2of E a with Some (Base ta) => option_map Base (un_ty op ta) | _ => None end
  | If2 c a b =>
    match ty2of E c, ty2of E a, ty2of E b with
    | Some (Base TB), Some ta, Some tb => if ty2_eqb ta tb then Some ta else None
    | _, _, _ => None
    end
  | R2 x => tlookup2 E x
  | T2 es =>
    option_map Tup
      ((fix go l := match l with
                    | [] => Some []
                    | x :: r => match ty2of E x, go r with Some (Base t), Some ts => Some (t :: ts) | _, _ => None end
                    end) es)
  | Ix2 e i => match ty2of E e with Some (Tup ts) => option_map Base (nth_error ts i) | _ => None end
  end.

Definition ty_stmt2 (E : tenv2) (st : s2) : option tenv2 :=
  match st with
  | D2 x _ e => match ty2of E e with Some t => Some ((x, t) :: E) | None => None end
  | A2 x e => match ty2of E e, tlookup2 E x with Some t, Some tx => if ty2_eqb t tx then Some E else None | _, _ => None end
  | X2 e => match ty2of E e with Some _ => Some E | None => None end
  end.

Fixpoint ty_stmts2 (E : tenv2) (ss : list s2) : option tenv2 :=
  match ss with [] => Some E | st :: r => match ty_stmt2 E st with Some E' => ty_stmts2 E' r | None => None end end.

Definition ty_block2 (E : tenv2) (ss : list s2) (e : e2) : option ty2 :=
  match ty_stmts2 E ss with Some E' => ty2of E' e | None => None end.

(* ------------------------------------------------------------------ the tagged evaluator *)

Inductive value2 := V0 (v : value) | VT (vs : list value).
Definition tag2 (v : value2) : ty2 := match v with V0 x => Base (tag x) | VT vs => Tup (map tag vs) end.

Section Eval2.
  Variable farith : binop -> string -> string -> string.
  Variable fneg : string -> string.
  Variable fcmp : binop -> string -> string -> bool.
  Variable of_int : Z -> string.
  Variable scmp : binop -> string -> string -> bool.

  Definition store2 := list (N * value2).
  Fixpoint slookup2 (r : store2) (x : N) : option value2 :=
    match r with [] => None | (y, v) :: q => if N.eqb x y then Some v else slookup2 q x end.

  (* all component comparisons are evaluated (stuck on a tag error in any of them); the result is their lexicographic
     combination for < >, the conjunction for ==, its negation for != *)
  Fixpoint cmp_vals (op : binop) (a b : list value) : option (list bool) :=
    match a, b with
    | [], [] => Some []
    | x :: a', y :: b' =>
      match eval_bin farith fcmp of_int scmp op x y, cmp_vals op a' b' with
      | Some (VBool c), Some cs => Some (c :: cs)
      | _, _ => None
      end
    | _, _ => None
    end.

  Definition eval_bin2 (op : binop) (x y : value2) : option value2 :=
    match x, y with
    | V0 a, V0 b => option_map V0 (eval_bin farith fcmp of_int scmp op a b)
    | VT a, VT b =>
      if cmp_like op then
        match cmp_vals op a b with
        | Some cs => Some (V0 (VBool (match op with
                                      | NotEquals => negb (forallb (fun c => negb c) cs)
                                      | Equals | AssertEq => forallb (fun c => c) cs
                                      | _ => existsb (fun c => c) cs
                                      end)))
        | None => None
        end
      else None
    | _, _ => None
    end.

  Fixpoint eval2 (r : store2) (e : e2) : option value2 :=
    match e with
    | I2 z => Some (V0 (VInt z)) | F2 x => Some (V0 (VFloat x)) | S2 s => Some (V0 (VStr s)) | B2 b => Some (V0 (VBool b))
    | Bin2 op a b => match eval2 r a, eval2 r b with Some x, Some y => eval_bin2 op x y | _, _ => None end
    | Un2 op a => match eval2 r a with Some (V0 x) => option_map V0 (eval_un fneg op x) | _ => None end
    | If2 c a b =>
      match eval2 r c, eval2 r a, eval2 r b with
      | Some (V0 (VBool true)), Some x, Some _ => Some x
      | Some (V0 (VBool false)), Some _, Some y => Some y
      | _, _, _ => None
      end
    | R2 x => slookup2 r x
    | T2 es =>
      option_map VT
        ((fix go l := match l with
                      | [] => Some []
                      | x :: q => match eval2 r x, go q with Some (V0 v), Some vs => Some (v :: vs) | _, _ => None end
                      end) es)
    | Ix2 e i => match eval2 r e with Some (VT vs) => option_map V0 (nth_error vs i) | _ => None end
    end.

  Definition exec2 (r : store2) (st : s2) : option store2 :=
    match st with
    | D2 x _ e | A2 x e => match eval2 r e with Some v => Some ((x, v) :: r) | None => None end
    | X2 e => match eval2 r e with Some _ => Some r | None => None end
    end.

  Fixpoint run2 (r : store2) (ss : list s2) (e : e2) : option value2 :=
    match ss with
    | [] => eval2 r e
    | st :: q => match exec2 r st with Some r' => run2 r' q e | None => None end
    end.

  Definition store_ok2 (E : tenv2) (r : store2) : Prop :=
    forall x t, tlookup2 E x = Some t -> exists v, slookup2 r x = Some v /\ tag2 v = t.

  Lemma cmp_vals_typed op : forall a b, cmp_all op (map tag a) (map tag b) = true -> exists cs, cmp_vals op a b = Some cs.
  Proof.
    induction a as [|x a IH]; intros [|y b] H; cbn [map cmp_all] in H; try discriminate; [cbn; eauto|].
    apply andb_true_iff in H as [H1 H2]. destruct (IH _ H2) as [cs Hcs]. cbn [cmp_vals]. rewrite Hcs.
    destruct (bin_ty op (tag x) (tag y)) as [[]|] eqn:Bt; try discriminate.
    assert (T : ty0 (Bin0 op (match x with VInt z => I0 z | VFloat r => F0 r | VStr s => S0 s | VBool b0 => B0 b0 end)
                             (match y with VInt z => I0 z | VFloat r => F0 r | VStr s => S0 s | VBool b0 => B0 b0 end)) = Some TB).
    { cbn [ty0]. destruct x, y; exact Bt. }
    destruct (simply_typed_sound farith fneg fcmp of_int scmp _ _ T) as (v & Hv & Tv).
    cbn [eval] in Hv. assert (Hv' : eval_bin farith fcmp of_int scmp op x y = Some v) by (destruct x, y; exact Hv).
    rewrite Hv'. destruct v; try discriminate. eauto.
  Qed.

  Lemma typed_eval2 E r : store_ok2 E r -> forall e t, ty2of E e = Some t -> exists v, eval2 r e = Some v /\ tag2 v = t.
  Proof.
    intros SO.
    fix IH 1. intros e t H. destruct e as [z|x|s|b|op a b|op a|c a b|x|es|e i]; cbn [ty2of eval2] in *.
    - injection H as <-. eauto.
    - injection H as <-. eauto.
    - injection H as <-. eauto.
    - injection H as <-. eauto.
    - destruct (ty2of E a) as [ta|] eqn:Ea; [|discriminate]. destruct (ty2of E b) as [tb|] eqn:Eb; [|discriminate].
      destruct (IH _ _ Ea) as (x & -> & Tx). destruct (IH _ _ Eb) as (y & -> & Ty).
      destruct x as [x|xs], y as [y|ys]; cbn [tag2] in Tx, Ty; subst ta tb; cbn [bin_ty2 eval_bin2] in *; try discriminate.
      + destruct (bin_ty op (tag x) (tag y)) as [t0|] eqn:Bt; [|discriminate]. injection H as <-.
        assert (T : ty0 (Bin0 op (match x with VInt z => I0 z | VFloat r0 => F0 r0 | VStr s => S0 s | VBool b0 => B0 b0 end)
                                 (match y with VInt z => I0 z | VFloat r0 => F0 r0 | VStr s => S0 s | VBool b0 => B0 b0 end)) = Some t0).
        { cbn [ty0]. destruct x, y; exact Bt. }
        destruct (simply_typed_sound farith fneg fcmp of_int scmp _ _ T) as (v & Hv & Tv).
        cbn [eval] in Hv. assert (Hv' : eval_bin farith fcmp of_int scmp op x y = Some v) by (destruct x, y; exact Hv).
        rewrite Hv'. cbn. eexists. split; [reflexivity|]. cbn. congruence.
      + destruct (cmp_like op) eqn:Cl; cbn [andb] in H; [|discriminate].
        destruct (cmp_all op (map tag xs) (map tag ys)) eqn:Ca; [|discriminate]. injection H as <-.
        destruct (cmp_vals_typed _ _ _ Ca) as [cs ->]. eexists. split; [reflexivity|reflexivity].
    - destruct (ty2of E a) as [[ta|]|] eqn:Ea; try discriminate. destruct (IH _ _ Ea) as (x & -> & Tx).
      destruct x as [x|xs]; cbn [tag2] in Tx; [|discriminate]. injection Tx as Tx. subst ta.
      destruct (un_ty op (tag x)) as [t0|] eqn:Ut; [|discriminate]. injection H as <-.
      destruct op, x; cbn in Ut; try discriminate; injection Ut as <-; cbn; eauto.
    - destruct (ty2of E c) as [[[]|]|] eqn:Ec; try discriminate.
      destruct (ty2of E a) as [ta|] eqn:Ea; [|discriminate]. destruct (ty2of E b) as [tb|] eqn:Eb; [|discriminate].
      destruct (ty2_eqb ta tb) eqn:Eq; [|discriminate]. injection H as <-. apply ty2_eqb_eq in Eq. subst tb.
      destruct (IH _ _ Ec) as (vc & -> & Tc). destruct (IH _ _ Ea) as (x & -> & Tx). destruct (IH _ _ Eb) as (y & -> & Ty).
      destruct vc as [vc|]; cbn [tag2] in Tc; [|discriminate]. injection Tc as Tc. destruct vc; try discriminate.
      destruct b0; eauto.
    - exact (SO _ _ H).
    - match type of H with option_map Tup ?g = _ => destruct g as [ts|] eqn:Eg end; [|discriminate]. injection H as <-.
      assert (X : exists vs, (fix go l := match l with
                                         | [] => Some []
                                         | x :: q => match eval2 r x, go q with Some (V0 v), Some vs => Some (v :: vs) | _, _ => None end
                                         end) es = Some vs /\ map tag vs = ts).
      { revert ts Eg. induction es as [|x es IHes]; intros ts Eg.
        - injection Eg as <-. exists []. auto.
        - destruct (ty2of E x) as [[tx|]|] eqn:Ex; try discriminate.
          match type of Eg with match ?g with _ => _ end = _ => destruct g as [ts'|] eqn:Eg' end; [|discriminate].
          injection Eg as <-. destruct (IH _ _ Ex) as (vx & -> & Tvx). destruct vx as [vx|]; cbn [tag2] in Tvx; [|discriminate].
          injection Tvx as Tvx. destruct (IHes _ eq_refl) as (vs & -> & Tvs). exists (vx :: vs). cbn [map]. split; congruence. }
      destruct X as (vs & -> & Tvs). eexists. split; [reflexivity|]. cbn. congruence.
    - destruct (ty2of E e) as [[|ts]|] eqn:Ee; try discriminate. destruct (IH _ _ Ee) as (v & -> & Tv).
      destruct v as [|vs]; cbn [tag2] in Tv; [discriminate|]. injection Tv as Tv. subst ts.
      rewrite nth_error_map in H. destruct (nth_error vs i) as [vi|]; [|discriminate]. injection H as <-. cbn. eauto.
  Qed.

  Lemma typed_exec2 E r st E' : store_ok2 E r -> ty_stmt2 E st = Some E' -> exists r', exec2 r st = Some r' /\ store_ok2 E' r'.
  Proof.
    intros SO H. destruct st as [x k e|x e|e]; cbn [ty_stmt2 exec2] in *.
    - destruct (ty2of E e) as [t|] eqn:Et; [|discriminate]. injection H as <-.
      destruct (typed_eval2 _ _ SO _ _ Et) as (v & -> & Tv). eexists. split; [reflexivity|].
      intros y ty L. cbn [tlookup2 slookup2] in *. destruct (N.eqb y x); [injection L as <-; eauto|exact (SO _ _ L)].
    - destruct (ty2of E e) as [t|] eqn:Et; [|discriminate]. destruct (tlookup2 E x) as [tx|] eqn:Ex; [|discriminate].
      destruct (ty2_eqb t tx) eqn:Eq; [|discriminate]. injection H as <-. apply ty2_eqb_eq in Eq. subst tx.
      destruct (typed_eval2 _ _ SO _ _ Et) as (v & -> & Tv). eexists. split; [reflexivity|].
      intros y ty L. cbn [slookup2]. destruct (N.eqb_spec y x) as [->|N]; [|exact (SO _ _ L)].
      rewrite Ex in L. injection L as <-. eauto.
    - destruct (ty2of E e) as [t|] eqn:Et; [|discriminate]. injection H as <-.
      destruct (typed_eval2 _ _ SO _ _ Et) as (v & -> & Tv). eauto.
  Qed.

  Theorem typed_run2 : forall ss E r e t,
    store_ok2 E r -> ty_block2 E ss e = Some t -> exists v, run2 r ss e = Some v /\ tag2 v = t.
  Proof.
    unfold ty_block2. induction ss as [|st ss IH]; intros E r e t SO H; cbn [ty_stmts2 run2] in *.
    - eapply typed_eval2; eassumption.
    - destruct (ty_stmt2 E st) as [E'|] eqn:Es; [|discriminate].
      destruct (typed_exec2 _ _ _ _ SO Es) as (r' & -> & SO'). eapply IH; eassumption.
  Qed.
End Eval2.
