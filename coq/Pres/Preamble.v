(* What the fragment of the C01 preservation theorem needs from preamble.lua, PROVED about the preamble text
   as the compiler ships it (Gen/GenPreamble.v `preamble_src`, regenerated from /repo on every run):

   1. running the preamble's statements in the initial Lua 5.3 state ends normally, with no local
      variables, in a state `st_pre`                                     (a closed computation: vm_compute);
   2. in `st_pre` the globals __ADD, type, assert, print are bound as `genv` says, the closure of __ADD is
      the function written in preamble.lua, the globals table has no metatable, and no global is
      named like an IR variable (V<n>)                                   (closed computations);
   3. `preamble_spec`-style lemmas by SYMBOLIC evaluation of LuaCore on the closure bodies, for every
      state that satisfies `linv`: __ADD on two integers returns their sum. *)
From Coq Require Import String Ascii List NArith ZArith QArith Bool Lia.
From Sylt Require Import Lua.LuaAst Lua.LuaMap Lua.LuaNum Lua.LuaCore Lua.LuaParse Lua.LuaProofs.
From Sylt Require Import Gen.GenPreamble Back.IR Back.Emit Pres.Tie Pres.LuaFuel Pres.LuaEv Pres.Names.
Import ListNotations.
Local Open Scope string_scope.

(* ---------------------------------------------------------------- 1. running the preamble *)

Definition pre_fuel : nat := 3000.
Definition pre_result : res (env * signal) := exec_block pre_fuel PLeaf [] pre_block (init_state Lua53).
Definition st_pre : state :=
  match pre_result with ROk _ s => s | RErr _ s => s | RFuel s => s | RUnsup _ s => s end.

Lemma pre_runs : exec_block pre_fuel PLeaf [] pre_block (init_state Lua53) = ROk (PLeaf, SigNormal) st_pre.
Proof. vm_compute. reflexivity. Qed.

Definition nolabelb (b : block) : bool := forallb (fun s => negb (is_label s)) b.
Lemma nolabelb_ok b : nolabelb b = true -> nolabel b.
Proof.
  unfold nolabelb, nolabel. rewrite forallb_forall, Forall_forall. intros H s Hs.
  specialize (H s Hs). destruct (is_label s); [discriminate | reflexivity].
Qed.
Lemma pre_nolabel : nolabel pre_block.
Proof. apply nolabelb_ok. vm_compute. reflexivity. Qed.

(* a block that ran normally, followed by more statements *)
Lemma exec_block_app_run : forall b1 n E st E1 st1,
  nolabel b1 ->
  exec_block n E [] b1 st = ROk (E1, SigNormal) st1 ->
  forall b2 r, ExecBlock E1 [] b2 st1 r -> ExecBlock E [] (b1 ++ b2)%list st r.
Proof.
  induction b1 as [|s b1 IH]; intros n E st E1 st1 Hl Hrun b2 r H2.
  - destruct n; [discriminate|]. cbn [exec_block] in Hrun. inversion Hrun; subst. exact H2.
  - inversion Hl as [|? ? Hs Hl']; subst.
    destruct n; [discriminate|]. rewrite exec_block_cons_unfold in Hrun by assumption.
    destruct (exec n E s st) as [[E' sg] st'| | |] eqn:Es; cbn [LuaCore.bind] in Hrun; try discriminate.
    cbn [snd fst] in Hrun.
    assert (Hsg : sg = SigNormal).
    { destruct sg; try reflexivity; try (inversion Hrun; fail).
      cbn [seen_find] in Hrun.
      assert (Hscan : forall (b : block) e, nolabel b -> scan_label l e b [] = None).
      { induction b as [|x b IHb]; intros e Hb; [reflexivity|]. inversion Hb; subst.
        destruct x; try discriminate; cbn [scan_label]; auto. }
      rewrite Hscan in Hrun by assumption. inversion Hrun. }
    subst sg.
    cbn [app]. apply Ev_S.
    eapply Ev_ext; [intros k; apply exec_block_cons_unfold; assumption|].
    eapply (Ev_bind (fun k => exec k E s st)).
    + exists n. intros k Hk. rewrite <- Es. apply exec_fuel_mono; [assumption | rewrite Es; exact I].
    + cbn [snd fst]. eapply IH; eassumption.
Qed.

(* ---------------------------------------------------------------- 2. the globals the fragment uses *)

Definition fun_id (st : state) (x : string) : positive :=
  match raw_get (get_table st globals_id) (VStr x) with VFun id => id | _ => 1%positive end.

Definition add_id : positive := fun_id st_pre "__ADD".

(* __ADD as written in preamble.lua *)
Definition add_closure : closure :=
  mkClosure PLeaf ["a"; "b"]
    [SIf (EBin OAnd (EBin OEq (ECall (EVar "type") [EVar "a"]) (EStr "string"))
                    (EBin OEq (ECall (EVar "type") [EVar "b"]) (EStr "string")))
         [SReturn [EBin OConcat (EVar "a") (EVar "b")]] [];
     SReturn [EBin OAdd (EVar "a") (EVar "b")]].

(* the part of the globals table the fragment relies on *)
Record genv (G : table) : Prop := mkGenv {
  g_add : raw_get G (VStr "__ADD") = VFun add_id;
  g_type : raw_get G (VStr "type") = VBuiltin BType;
  g_assert : raw_get G (VStr "assert") = VBuiltin BAssert;
  g_print : raw_get G (VStr "print") = VBuiltin BPrint;
  g_nometa : t_meta G = None
}.

Record cenv (C : ptree closure) : Prop := mkCenv {
  c_add : pget add_id C = Some add_closure
}.

(* the invariant on Lua states during the run of a fragment program *)
Record linv (st : state) : Prop := mkLinv {
  li_dialect : s_dialect st = Lua53;
  li_genv : genv (get_table st globals_id);
  li_cenv : cenv (s_clos st);
  li_nclo : (add_id < s_nclo st)%positive
}.

Lemma pre_genv : genv (get_table st_pre globals_id).
Proof. constructor; vm_compute; reflexivity. Qed.
Lemma pre_cenv : cenv (s_clos st_pre).
Proof. constructor; vm_compute; reflexivity. Qed.
Lemma pre_linv : linv st_pre.
Proof. constructor; [vm_compute; reflexivity | apply pre_genv | apply pre_cenv | vm_compute; reflexivity]. Qed.

(* no global of the preamble is named V... *)
Lemma pre_no_V : forall s, raw_get (get_table st_pre globals_id) (VStr (String "V"%char s)) = VNil.
Proof. intros s. vm_compute. reflexivity. Qed.

Lemma pre_no_fmt_var : forall v, raw_get (get_table st_pre globals_id) (VStr (fmt_var v)) = VNil.
Proof. intros v. destruct (fmt_var_head v) as [s ->]. apply pre_no_V. Qed.

(* the invariant only looks at the tables, the closures and the dialect *)
Lemma linv_frame st st' :
  linv st -> s_tabs st' = s_tabs st -> s_dialect st' = s_dialect st ->
  (forall id c, pget id (s_clos st) = Some c -> pget id (s_clos st') = Some c) ->
  (s_nclo st <= s_nclo st')%positive ->
  linv st'.
Proof.
  intros [Hd Hg [Hc] Hn] Ht Hdd Hcl Hnn. constructor.
  - congruence.
  - unfold get_table in *. rewrite Ht. exact Hg.
  - constructor. apply Hcl. exact Hc.
  - lia.
Qed.

(* ---------------------------------------------------------------- 3. symbolic evaluation *)

Lemma Binop_arith op fx x fy y st :
  match op with OAdd | OSub | OMul | ODiv | OIDiv | OMod | OPow => True | _ => False end ->
  Ev (fun k => binop_apply k op (VNum fx x) (VNum fy y) st) (arith_num op fx x fy y st).
Proof.
  intros Hop. exists 1%nat. intros [|k] Hk; [lia|]. destruct op; try contradiction; reflexivity.
Qed.

Definition not_table (v : value) : Prop := match v with VTable _ => False | _ => True end.

Lemma Equals_prim a b st : not_table a \/ not_table b ->
  Ev (fun k => equals k a b st) (ROk (raw_eqb a b) st).
Proof.
  intros H. exists 1%nat. intros [|k] Hk; [lia|]. cbn [equals].
  destruct (raw_eqb a b) eqn:E; [reflexivity|].
  destruct a, b; try reflexivity; destruct H as [H|H]; contradiction.
Qed.

Lemma Binop_eq_prim a b st : not_table a \/ not_table b ->
  Ev (fun k => binop_apply k OEq a b st) (ROk (VBool (raw_eqb a b)) st).
Proof.
  intros H. apply Ev_S. cbn [binop_apply].
  apply (Ev_bind (fun k => equals k a b st) (fun k r st1 => ROk (VBool r) st1) (raw_eqb a b) st);
    [apply Equals_prim; exact H | apply Ev_const].
Qed.

Lemma Binop_ne_prim a b st : not_table a \/ not_table b ->
  Ev (fun k => binop_apply k ONe a b st) (ROk (VBool (negb (raw_eqb a b))) st).
Proof.
  intros H. apply Ev_S. cbn [binop_apply].
  apply (Ev_bind (fun k => equals k a b st) (fun k r st1 => ROk (VBool (negb r)) st1) (raw_eqb a b) st);
    [apply Equals_prim; exact H | apply Ev_const].
Qed.

Lemma glob_frame st st' x v : s_tabs st' = s_tabs st -> glob st x v -> glob st' x v.
Proof. unfold glob, get_table. intros -> H. exact H. Qed.

(* type(v) == "string" for a value that is not a string *)
Lemma Eval_type_is_string E x c st :
  linv st -> sget x E = Some c -> sget "type" E = None ->
  (forall s, get_cell st c <> VStr s) ->
  Eval E (EBin OEq (ECall (EVar "type") [EVar x]) (EStr "string")) st (ROk (VBool false) st).
Proof.
  intros Hinv Hx Ht Hns.
  eapply Eval_bin; [reflexivity | | apply Eval_str | ].
  - apply (Eval_call E (EVar "type") [EVar x] st [VStr (type_name (get_cell st c))] st).
    eapply EvalCall_intro.
    + apply Eval_global; [exact Ht | apply (g_type _ (li_genv _ Hinv)) | reflexivity].
    + apply EvalList_one. apply EvalMulti_single; [reflexivity|]. apply Eval_local. exact Hx.
    + apply (Call_pure_builtin BType). exact I.
  - cbn [first].
    replace (VBool false) with (VBool (raw_eqb (VStr (type_name (get_cell st c))) (VStr "string"))).
    + apply Binop_eq_prim. left. exact I.
    + f_equal. destruct (get_cell st c) eqn:Ev; try reflexivity. exfalso. eapply Hns. reflexivity.
Qed.

Definition add_env (st : state) : env := sset "b" (Pos.succ (s_ncell st)) (sset "a" (s_ncell st) PLeaf).
Definition add_state (va vb : value) (st : state) : state :=
  snd (alloc_cell (snd (alloc_cell st va)) vb).

Lemma add_bind va vb st :
  bind_locals PLeaf ["a"; "b"] [va; vb] st = (add_env st, add_state va vb st).
Proof. reflexivity. Qed.

Lemma get_cell_add_a va vb st : get_cell (add_state va vb st) (s_ncell st) = va.
Proof.
  unfold add_state, alloc_cell, get_cell. cbn [snd s_cells s_ncell].
  rewrite pget_pset_other by lia. rewrite pget_pset_same. reflexivity.
Qed.
Lemma get_cell_add_b va vb st : get_cell (add_state va vb st) (Pos.succ (s_ncell st)) = vb.
Proof.
  unfold add_state, alloc_cell, get_cell. cbn [snd s_cells s_ncell].
  rewrite pget_pset_same. reflexivity.
Qed.

Lemma linv_add_state va vb st : linv st -> linv (add_state va vb st).
Proof. intros H. eapply linv_frame; [exact H | reflexivity | reflexivity | auto | cbn; lia]. Qed.

(* __ADD(x, y) on two numbers is Lua's x + y *)
Theorem add_spec_num fx x fy y st :
  linv st ->
  Call (VFun add_id) [VNum fx x; VNum fy y] st
       (ROk [mknum st (fx || fy) (q_add x y)] (add_state (VNum fx x) (VNum fy y) st)).
Proof.
  intros Hinv.
  set (va := VNum fx x). set (vb := VNum fy y).
  pose proof (linv_add_state va vb st Hinv) as Hinv1.
  set (st1 := add_state va vb st) in *. set (E1 := add_env st).
  assert (Ha : sget "a" E1 = Some (s_ncell st)) by reflexivity.
  assert (Hb : sget "b" E1 = Some (Pos.succ (s_ncell st))) by reflexivity.
  assert (Ht : sget "type" E1 = None) by reflexivity.
  eapply (Call_closure add_id add_closure); [apply (c_add _ (li_cenv _ Hinv)) | apply add_bind | ].
  cbn [c_body add_closure]. fold E1 st1.
  apply ExecBlock_of_ExecS; [ | repeat constructor | intros []].
  eapply XS_cons.
  - (* the if: both type tests are false *)
    eapply (Exec_if E1 _ _ _ st1 (VBool false) st1 E1 SigNormal st1).
    + eapply Eval_and.
      * apply (Eval_type_is_string E1 "a" (s_ncell st) st1 Hinv1 Ha Ht).
        intros s. unfold st1. rewrite get_cell_add_a. discriminate.
      * reflexivity.
    + cbn [truthy]. exists 1%nat. intros [|k] Hk; [lia|]. reflexivity.
  - apply XS_stop; [|intros []].
    apply Exec_return. apply EvalList_one. apply EvalMulti_single; [reflexivity|].
    eapply Eval_bin; [reflexivity | apply Eval_local; exact Ha | apply Eval_local; exact Hb | ].
    unfold st1. rewrite get_cell_add_a, get_cell_add_b. unfold va, vb.
    change (mknum st (fx || fy) (q_add x y)) with (mknum (add_state (VNum fx x) (VNum fy y) st) (fx || fy) (q_add x y)).
    apply (Binop_arith OAdd fx x fy y (add_state (VNum fx x) (VNum fy y) st)). exact I.
Qed.
