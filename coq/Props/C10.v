(* C10 -- function activations and closures do not interfere.
   Static half: the lowered IR is lexically scoped (C10_lower_scoped); Lua side: a `local` is fresh per
   execution (C10_local_fresh); source side: the reference semantics Sem/SyltSem.v -- the one the emitted
   Lua is proved to agree with, for the fragment, by C01_fragment_preservation -- has the discipline for
   all programs and all fuel (the C10_sem_* theorems below).  Pinned statements only. *)
From Coq Require Import String List NArith ZArith Bool.
From Sylt Require Import Syntax.Resolved Back.IR Back.Emit Back.Scope Back.RScope Back.ScopeProofs.
From Sylt Require Lua.LuaAst Lua.LuaMap Lua.LuaCore Lua.LuaProofs.
Import ListNotations.

(* For every resolved program (any fuel) that is lexically scoped at the level of the resolved AST
   (RScope.rs_resolved: every variable is read or assigned only where a definition, parameter, case
   binding or global of the enclosing blocks makes it visible, in initialisation order) the flat IR
   produced by the lowering satisfies the scoping discipline of Back/Scope.v: every variable -- user
   variable or compiler temporary -- that an instruction reads or assigns was introduced before, in an
   enclosing block of the emitted Lua, by an instruction the generator turns into a `local`, a
   parameter or a top-level external; assignment targets are real locals, never inlinable
   temporaries; blocks are balanced.  Hence no temporary is a Lua global: each activation (and each
   loop iteration) gets its own. *)
Theorem C10_lower_scoped : forall (fuel : nat) (r : resolved) (code : list ir),
  rs_resolved fuel r = true -> lower fuel r = Ok code -> ir_scoped code = true.
Proof. exact lower_scoped. Qed.

(* The dynamic half rests on the Lua semantics: in the interpreter model every successful execution of a
   `local x1..xk = es` statement binds each xi to a cell that was NOT allocated before the statement
   (and the store only grows), so every activation of a function and every iteration of a loop gets
   its own variables and temporaries, and closures created afterwards capture those cells. *)
Theorem C10_local_fresh : forall n e xs es st e' sg st',
  LuaCore.exec n e (LuaAst.SLocal xs es) st = LuaCore.ROk (e', sg) st' ->
  sg = LuaCore.SigNormal /\ LuaProofs.st_le st st' /\
  forall x, In x xs -> exists c, LuaMap.sget x e' = Some c /\ ~ LuaProofs.allocated st c /\ LuaProofs.allocated st' c.
Proof. exact LuaProofs.local_fresh. Qed.

(* Non-vacuity of the checker: a chunk whose if-expression result is assigned without having been
   introduced is rejected, the same chunk with the introduction is accepted. *)
Example C10_checker_rejects_global_temp :
  ir_scoped [IBool 5 true; IIf 5; IInt 6 10%Z; IAssign 7 6; IEnd]%N = false.
Proof. vm_compute. reflexivity. Qed.
Example C10_checker_accepts_local_temp :
  ir_scoped [IDefine 7; IBool 5 true; IIf 5; IInt 6 10%Z; IAssign 7 6; IEnd]%N = true.
Proof. vm_compute. reflexivity. Qed.

(* Non-vacuity of the theorem: a recursive function holding an if-expression across the recursive
   call satisfies the hypothesis and lowers successfully. *)
Definition sp0 := mkSpan 0 1 1 1 1.
Definition ex_prog : resolved :=
  mkResolved
    [mkVar 0 "f" sp0 true Const; mkVar 1 "start" sp0 true Const; mkVar 2 "n" sp0 false Const]
    [SDefinition "f" 0 Const (TImplied sp0)
       (EFunction "lambda" [("n"%string, 2%N, sp0, TImplied sp0)] (TImplied sp0)
          [SStatementExpression
             (EBinOp Add
                (EIf [IfBranch (Some (EBinOp Greater (ERead 2 sp0) (EInt 1 sp0) sp0))
                               [SStatementExpression (EInt 10 sp0) sp0] sp0;
                      IfBranch None [SStatementExpression (EInt 20 sp0) sp0] sp0] sp0)
                (ECall (ERead 0 sp0) [EBinOp Sub (ERead 2 sp0) (EInt 1 sp0) sp0] sp0) sp0) sp0]
          false sp0) sp0;
     SDefinition "start" 1 Const (TImplied sp0)
       (EFunction "lambda" [] (TImplied sp0)
          [SStatementExpression (ECall (ERead 0 sp0) [EInt 3 sp0] sp0) sp0] false sp0) sp0].
Example C10_example_hypotheses :
  rs_resolved 20 ex_prog = true /\ (exists code, lower 20 ex_prog = Ok code).
Proof. split; [vm_compute; reflexivity|eexists; vm_compute; reflexivity]. Qed.

Print Assumptions C10_lower_scoped.
Print Assumptions C10_local_fresh.

(* ==== the dynamic half on the SOURCE: Sem/SyltSem.v has the C10 discipline (proofs: Sem/SemFresh.v) ====
   For every program, environment, store and fuel; whatever the result is (a value, a stop -- out of
   fuel included -- or a break/continue/ret in flight).  C01_fragment_preservation (Props/C01.v) shows the
   emitted Lua run in the LuaCore interpreter to produce the trace of this semantics for the programs of
   the fragment Pres.Frag.frag, which transfers the discipline to the emitted Lua there. *)
From Sylt Require Sem.Values Sem.SyltSem Sem.SemFresh.

(* the order on stores *)
Theorem C10_sem_st_le_spec : forall st st',
  SemFresh.st_le st st' <->
  length (SyltSem.cells st) <= length (SyltSem.cells st') /\
  length (SyltSem.blobs st) <= length (SyltSem.blobs st') /\
  (exists l, SyltSem.clos st' = SyltSem.clos st ++ l) /\
  (exists l, SyltSem.trace st' = l ++ SyltSem.trace st).
Proof. exact SemFresh.st_le_iff. Qed.

(* 1. nothing is ever freed or re-used: cells and blobs are only added, the closures that exist
   (parameters, body, captured environment) are never changed, printed lines are never retracted *)
Theorem C10_sem_store_grows : forall fuel,
  (forall e x st r st', SyltSem.eval fuel e x st = (r, st') -> SemFresh.st_le st st') /\
  (forall e b st r st', SyltSem.block_value fuel e b st = (r, st') -> SemFresh.st_le st st') /\
  (forall e ss st r st', SyltSem.exec_block fuel e ss st = (r, st') -> SemFresh.st_le st st') /\
  (forall e s st r st', SyltSem.exec fuel e s st = (r, st') -> SemFresh.st_le st st') /\
  (forall fv args st r st', SyltSem.apply fuel fv args st = (r, st') -> SemFresh.st_le st st') /\
  (forall e ss st r st', SyltSem.run_outer fuel e ss st = (r, st') -> SemFresh.st_le st st').
Proof. exact SemFresh.store_grows. Qed.

Theorem C10_sem_closure_kept : forall st st' k cl,
  SemFresh.st_le st st' -> nth_error (SyltSem.clos st) k = Some cl -> nth_error (SyltSem.clos st') k = Some cl.
Proof. exact SemFresh.st_le_clos_nth. Qed.

(* 2a. every execution of a definition (constant or mutable, of a function or of any other value) that
   completes binds the variable to the cell number `length (cells st)`: a cell that did not exist before
   the statement; the initialiser runs with the variable already bound to it; the cell holds its value *)
Theorem C10_sem_definition_fresh : forall fuel e name var kind t value sp st e' st',
  SyltSem.exec fuel e (SDefinition name var kind t value sp) st = (SyltSem.RVal e', st') ->
  let c := length (SyltSem.cells st) in
  e' = (var, c) :: e /\ SyltSem.lookup e' var = Some c /\
  c < length (SyltSem.cells st') /\ SemFresh.st_le st st' /\
  exists v st1,
    SyltSem.eval (pred fuel) e' value (SemFresh.alloc_args [SyltSem.SV Values.VLuaNil] st) = (SyltSem.RVal v, st1) /\
    nth_error (SyltSem.cells st') c = Some v.
Proof. exact SemFresh.definition_fresh. Qed.

(* two executions of one definition -- two activations of the function around it, two iterations of
   the loop around it: any environments, any fuel, any later store -- give two different cells *)
Theorem C10_sem_definitions_distinct : forall f1 f2 e1 e2 name var kind t value sp st1 st1' st2 st2' e1' e2',
  SyltSem.exec f1 e1 (SDefinition name var kind t value sp) st1 = (SyltSem.RVal e1', st1') ->
  SemFresh.st_le st1' st2 ->
  SyltSem.exec f2 e2 (SDefinition name var kind t value sp) st2 = (SyltSem.RVal e2', st2') ->
  exists c1 c2, SyltSem.lookup e1' var = Some c1 /\ SyltSem.lookup e2' var = Some c2 /\ c1 < c2.
Proof. exact SemFresh.definitions_distinct. Qed.

(* 2b. a call passes VALUES to `apply`, which has no access to the caller's environment ... *)
Theorem C10_sem_call : forall f e fn args sp st,
  SyltSem.eval (S f) e (ECall fn args sp) st =
  SyltSem.bind (SyltSem.eval f e fn) (fun fv =>
    SyltSem.bind (SyltSem.mapM (SyltSem.eval f e) args) (fun avs => SyltSem.apply f fv avs)) st.
Proof. exact SemFresh.eval_call. Qed.

(* ... and an application of a closure runs the body in  parameters ++ captured environment  where the
   parameters are bound to the cells length (cells st), length (cells st) + 1, ... allocated by this
   application and holding copies of the arguments *)
Theorem C10_sem_apply_closure : forall f k args st,
  SyltSem.apply (S f) (SyltSem.SClos k) args st =
  match nth_error (SyltSem.clos st) k with
  | None => (SyltSem.RStop (SyltSem.OStuck "dangling closure"), st)
  | Some cl =>
      if Nat.eqb (length (SyltSem.cl_params cl)) (length args) then
        SemFresh.catch_return
          (SyltSem.block_value f
             (combine (SyltSem.cl_params cl) (seq (length (SyltSem.cells st)) (length args)) ++ SyltSem.cl_env cl)
             (SyltSem.cl_body cl) (SemFresh.alloc_args args st))
      else (SyltSem.RStop (SyltSem.OStuck "call with the wrong number of arguments"), st)
  end.
Proof. exact SemFresh.apply_closure_cases. Qed.

Theorem C10_sem_activation_fresh : forall f k cl args st,
  nth_error (SyltSem.clos st) k = Some cl -> length (SyltSem.cl_params cl) = length args ->
  exists cs st1,
    SyltSem.apply (S f) (SyltSem.SClos k) args st
      = SemFresh.catch_return
          (SyltSem.block_value f (combine (SyltSem.cl_params cl) cs ++ SyltSem.cl_env cl) (SyltSem.cl_body cl) st1) /\
    length cs = length (SyltSem.cl_params cl) /\ NoDup cs /\
    (forall c, In c cs -> length (SyltSem.cells st) <= c < length (SyltSem.cells st1)) /\
    (forall i c, nth_error cs i = Some c -> nth_error (SyltSem.cells st1) c = nth_error args i) /\
    (forall c, c < length (SyltSem.cells st) -> nth_error (SyltSem.cells st1) c = nth_error (SyltSem.cells st) c) /\
    SyltSem.blobs st1 = SyltSem.blobs st /\ SyltSem.clos st1 = SyltSem.clos st /\ SyltSem.trace st1 = SyltSem.trace st.
Proof. exact SemFresh.activation_fresh. Qed.

(* 3. every evaluation of a function literal yields a NEW closure (number length (clos st): no closure
   had it before) whose captured environment is the environment of THIS evaluation: variable -> cell,
   i.e. by reference; it changes nothing else, and the closure stays what it is forever after *)
Theorem C10_sem_function_literal : forall fuel e name params rt body pure sp st v st',
  SyltSem.eval fuel e (EFunction name params rt body pure sp) st = (SyltSem.RVal v, st') ->
  let k := length (SyltSem.clos st) in
  let cl := SyltSem.mkClos (map (fun p => snd (fst (fst p))) params) body e in
  v = SyltSem.SClos k /\ nth_error (SyltSem.clos st) k = None /\ nth_error (SyltSem.clos st') k = Some cl /\
  SyltSem.cl_env cl = e /\
  SyltSem.clos st' = SyltSem.clos st ++ [cl] /\ SyltSem.cells st' = SyltSem.cells st /\
  SyltSem.blobs st' = SyltSem.blobs st /\ SyltSem.trace st' = SyltSem.trace st.
Proof. exact SemFresh.function_literal_new_closure. Qed.

Theorem C10_sem_closure_persists : forall fuel e name params rt body pure sp st k st' st'',
  SyltSem.eval fuel e (EFunction name params rt body pure sp) st = (SyltSem.RVal (SyltSem.SClos k), st') ->
  SemFresh.st_le st' st'' ->
  nth_error (SyltSem.clos st'') k = Some (SyltSem.mkClos (map (fun p => snd (fst (fst p))) params) body e).
Proof. exact SemFresh.closure_persists. Qed.

Theorem C10_sem_function_literals_distinct : forall f1 f2 e1 e2 x1 x2 st1 st1' st2 st2' k1 k2
    n1 p1 r1 b1 u1 s1 n2 p2 r2 b2 u2 s2,
  x1 = EFunction n1 p1 r1 b1 u1 s1 -> x2 = EFunction n2 p2 r2 b2 u2 s2 ->
  SyltSem.eval f1 e1 x1 st1 = (SyltSem.RVal (SyltSem.SClos k1), st1') -> SemFresh.st_le st1' st2 ->
  SyltSem.eval f2 e2 x2 st2 = (SyltSem.RVal (SyltSem.SClos k2), st2') -> k1 < k2.
Proof. exact SemFresh.function_literals_distinct. Qed.

(* 4. environments are lexical: a statement returns the environment it was given, unless it is a
   definition (one more binding, to a fresh cell); a block returns its environment extended with cells
   allocated during the block.  Expressions -- calls included -- return no environment at all. *)
Theorem C10_sem_exec_env : forall fuel e s st e' st',
  SyltSem.exec fuel e s st = (SyltSem.RVal e', st') ->
  e' = e \/
  exists name var kind t value sp,
    s = SDefinition name var kind t value sp /\ e' = (var, length (SyltSem.cells st)) :: e /\
    length (SyltSem.cells st) < length (SyltSem.cells st').
Proof. exact SemFresh.exec_env. Qed.

Theorem C10_sem_block_env : forall fuel e ss st e' st',
  SyltSem.exec_block fuel e ss st = (SyltSem.RVal e', st') ->
  exists d, e' = d ++ e /\
    forall x c, In (x, c) d -> length (SyltSem.cells st) <= c < length (SyltSem.cells st').
Proof. exact SemFresh.exec_block_env_ext. Qed.

(* 5. frame.  SemFresh.rcell st e vs c: the cell c is not allocated in st, or is reachable in st from the
   environment e or the root values vs through captured environments, cell contents and blob fields
   (rblob: the same for blobs).  A cell or blob that is not reachable from the environment of an
   execution holds afterwards what it held before: an activation can only write what its closure
   captured or what it was handed. *)
Theorem C10_sem_unreachable_is_allocated : forall st e vs c,
  ~ SemFresh.rcell st e vs c -> c < length (SyltSem.cells st).
Proof. exact SemFresh.unreachable_allocated. Qed.

Theorem C10_sem_eval_frame : forall fuel e x st r st',
  SyltSem.eval fuel e x st = (r, st') ->
  (forall c, ~ SemFresh.rcell st e [] c -> nth_error (SyltSem.cells st') c = nth_error (SyltSem.cells st) c) /\
  (forall l, ~ SemFresh.rblob st e [] l -> nth_error (SyltSem.blobs st') l = nth_error (SyltSem.blobs st) l).
Proof. exact SemFresh.eval_frame. Qed.

Theorem C10_sem_exec_frame : forall fuel e s st r st',
  SyltSem.exec fuel e s st = (r, st') ->
  (forall c, ~ SemFresh.rcell st e [] c -> nth_error (SyltSem.cells st') c = nth_error (SyltSem.cells st) c) /\
  (forall l, ~ SemFresh.rblob st e [] l -> nth_error (SyltSem.blobs st') l = nth_error (SyltSem.blobs st) l).
Proof. exact SemFresh.exec_frame. Qed.

Theorem C10_sem_exec_block_frame : forall fuel e ss st r st',
  SyltSem.exec_block fuel e ss st = (r, st') ->
  (forall c, ~ SemFresh.rcell st e [] c -> nth_error (SyltSem.cells st') c = nth_error (SyltSem.cells st) c) /\
  (forall l, ~ SemFresh.rblob st e [] l -> nth_error (SyltSem.blobs st') l = nth_error (SyltSem.blobs st) l).
Proof. exact SemFresh.exec_block_frame. Qed.

Theorem C10_sem_apply_frame : forall fuel fv args st r st',
  SyltSem.apply fuel fv args st = (r, st') ->
  (forall c, ~ SemFresh.rcell st [] (fv :: args) c -> nth_error (SyltSem.cells st') c = nth_error (SyltSem.cells st) c) /\
  (forall l, ~ SemFresh.rblob st [] (fv :: args) l -> nth_error (SyltSem.blobs st') l = nth_error (SyltSem.blobs st) l).
Proof. exact SemFresh.apply_frame. Qed.

(* the general form: any set R of cells/blobs/closures closed under reachability in the store and
   containing what is not allocated yet (SemFresh.frame) stays closed, nothing outside it changes, and
   the result is inside it *)
Theorem C10_sem_frame_gen : forall R fuel e x st r st',
  SemFresh.frame R st -> SemFresh.env_in R e -> SyltSem.eval fuel e x st = (r, st') ->
  SemFresh.frame R st' /\ SemFresh.same_out R st st' /\ SemFresh.rok R (SemFresh.vok R) r.
Proof. exact SemFresh.eval_frame_gen. Qed.

(* Non-vacuity: a recursive function holding a local across the recursive call, and a counter factory.
     print :: external
     f := fn n -> { x := n + n; if n > 0 { f(n - 1) }; print(x) }
     mk := fn -> { c := 0; fn -> { c += 1; c } }
     start := fn -> { f(2); a := mk(); b := mk(); print(a()); print(a()); print(b()) }
   The three activations of f get the cells 4..9 (n, x three times; every x still holds its own value
   after the inner activations ended: 0 2 4 is printed innermost first); the two evaluations of the inner
   literal give the closures 3 and 4 capturing the DIFFERENT cells 11 and 13 for c, by reference (a()
   twice prints 1 then 2 and leaves 2 in cell 11; b() prints 1 and leaves 1 in cell 13). *)
Definition ti0 := TImplied sp0.
Definition call0 (f : N) (args : list expr) := ECall (ERead f sp0) args sp0.
Definition se0 (x : expr) := SStatementExpression x sp0.
Definition ex_sem_prog : resolved :=
  mkResolved
    [mkVar 8 "print" sp0 true Const; mkVar 0 "f" sp0 true Const; mkVar 3 "mk" sp0 true Const;
     mkVar 5 "start" sp0 true Const]
    [SExternalDefinition "print" 8 Const ti0 sp0;
     SDefinition "f" 0 Const ti0
       (EFunction "lambda" [("n"%string, 1%N, sp0, ti0)] ti0
          [SDefinition "x" 2 Const ti0 (EBinOp Add (ERead 1 sp0) (ERead 1 sp0) sp0) sp0;
           se0 (EIf [IfBranch (Some (EBinOp Greater (ERead 1 sp0) (EInt 0 sp0) sp0))
                       [se0 (call0 0 [EBinOp Sub (ERead 1 sp0) (EInt 1 sp0) sp0])] sp0] sp0);
           se0 (call0 8 [ERead 2 sp0])] false sp0) sp0;
     SDefinition "mk" 3 Const ti0
       (EFunction "lambda" [] ti0
          [SDefinition "c" 4 Mutable ti0 (EInt 0 sp0) sp0;
           se0 (EFunction "lambda" [] ti0
                  [SAssignment Add (ERead 4 sp0) (EInt 1 sp0) sp0; se0 (ERead 4 sp0)] false sp0)] false sp0) sp0;
     SDefinition "start" 5 Const ti0
       (EFunction "lambda" [] ti0
          [se0 (call0 0 [EInt 2 sp0]);
           SDefinition "a" 6 Const ti0 (call0 3 []) sp0;
           SDefinition "b" 7 Const ti0 (call0 3 []) sp0;
           se0 (call0 8 [ECall (ERead 6 sp0) [] sp0]);
           se0 (call0 8 [ECall (ERead 6 sp0) [] sp0]);
           se0 (call0 8 [ECall (ERead 7 sp0) [] sp0])] false sp0) sp0].

Example C10_example_sem_run :
  SyltSem.run 40 ex_sem_prog = SyltSem.mkRun ["0"; "2"; "4"; "1"; "2"; "1"]%string SyltSem.ODone.
Proof. vm_compute. reflexivity. Qed.

Example C10_example_sem_store :
  let st := snd (SemFresh.run_state 40 ex_sem_prog) in
  SyltSem.cells st =
    [SyltSem.SExt "print"; SyltSem.SClos 0; SyltSem.SClos 1; SyltSem.SClos 2;
     SyltSem.SV (Values.VInt 2); SyltSem.SV (Values.VInt 4);      (* f(2): n, x *)
     SyltSem.SV (Values.VInt 1); SyltSem.SV (Values.VInt 2);      (* f(1): n, x *)
     SyltSem.SV (Values.VInt 0); SyltSem.SV (Values.VInt 0);      (* f(0): n, x *)
     SyltSem.SClos 3; SyltSem.SV (Values.VInt 2);                 (* a, its c *)
     SyltSem.SClos 4; SyltSem.SV (Values.VInt 1)] /\              (* b, its c *)
  map (fun cl => SyltSem.lookup (SyltSem.cl_env cl) 4) (SyltSem.clos st) = [None; None; None; Some 11; Some 13].
Proof. vm_compute. split; reflexivity. Qed.

(* the hypotheses of C10_sem_definitions_distinct are satisfiable: the definition `c := 0` run twice *)
Example C10_example_sem_definition : exists st1' st2 st2' e1' e2',
  let d := SDefinition "c" 4 Mutable ti0 (EInt 0 sp0) sp0 in
  SyltSem.exec 3 [] d (SyltSem.mkState [] [] [] []) = (SyltSem.RVal e1', st1') /\
  SemFresh.st_le st1' st2 /\
  SyltSem.exec 3 [] d st2 = (SyltSem.RVal e2', st2') /\
  SyltSem.lookup e1' 4 = Some 0 /\ SyltSem.lookup e2' 4 = Some 1.
Proof.
  do 5 eexists. cbv zeta. split; [vm_compute; reflexivity|]. split; [apply SemFresh.st_le_refl|].
  split; vm_compute; [reflexivity|split; reflexivity].
Qed.

Print Assumptions C10_sem_st_le_spec.
Print Assumptions C10_sem_store_grows.
Print Assumptions C10_sem_closure_kept.
Print Assumptions C10_sem_definition_fresh.
Print Assumptions C10_sem_definitions_distinct.
Print Assumptions C10_sem_call.
Print Assumptions C10_sem_apply_closure.
Print Assumptions C10_sem_activation_fresh.
Print Assumptions C10_sem_function_literal.
Print Assumptions C10_sem_closure_persists.
Print Assumptions C10_sem_function_literals_distinct.
Print Assumptions C10_sem_exec_env.
Print Assumptions C10_sem_block_env.
Print Assumptions C10_sem_unreachable_is_allocated.
Print Assumptions C10_sem_eval_frame.
Print Assumptions C10_sem_exec_frame.
Print Assumptions C10_sem_exec_block_frame.
Print Assumptions C10_sem_apply_frame.
Print Assumptions C10_sem_frame_gen.

(* ---- source tie: the hand-written model behind these theorems mirrors the files below; the digests of their
   functions regenerated from /repo on this run equal the reviewed ones (coq/Doc/DocSrcDigest.v).  Any edit of
   such a function breaks this obligation: the differential tie and the oracle then decide (tools/check.py). *)
From Sylt Require Doc.SrcDigest Doc.DocSrcDigest Gen.GenSrcDigest.
Theorem C10_model_sources_reviewed :
  Sylt.Doc.SrcDigest.sources_reviewed ["sylt-compiler/src/intermediate.rs"%string; "sylt-compiler/src/lua.rs"%string]
    Sylt.Doc.DocSrcDigest.doc_src_digests Sylt.Gen.GenSrcDigest.src_digests = true.
Proof. vm_compute. reflexivity. Qed.
Print Assumptions C10_model_sources_reviewed.
