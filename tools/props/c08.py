"""C08 -- type annotations are optional and never change the generated code."""
import collections

import typed_gen as tg
import vlib
from props import c03 as base

GEN = ["GenSrcDigest"]
TRUSTED = base.TRUSTED
ASSUMPTIONS = base.ASSUMPTIONS + [
    "annotation sites: variable definitions, parameters of non-function type, return types; the annotations the generator "
    "writes are correct by construction (the fully annotated and the base program are both accepted)",
]
EXPLANATION = ("Theorems over the model boundary: the compile model hands the statements it was given, unchanged, to the "
               "lowering, whatever the type checker did (C08_checker_does_not_rewrite); acceptance monotonicity under erasure "
               "is stated (C08_accept_ground_statement) and checked by the oracle.  Oracle on the real compiler: for well-typed "
               "generated programs, every subset of <= 6 annotation sites (random subsets beyond) rendered annotated / erased: "
               "all variants accepted, emitted Lua byte-identical.  Correspondence: the extracted model agrees with the real "
               "checker on the variants.")

_m = base._m
build = base.build


def variants(ctx, t, bi):
    r = vlib.rng(ctx.seed, "c08-%d" % bi)
    return tg.erasure_variants(t, r, max_exhaustive=6, nrandom=16 if ctx.tier == "quick" else 64)


def classify(flipped, sites):
    return None


# hand-written bases: function-typed LOCAL definitions whose value is not a function literal (a call that returns a
# function, with a function literal or an outer variable of the same name among its arguments), locals annotated with
# function types inside closures and loops
_PRE = "print: fn *X -> void : external\n"
HAND = [
    _PRE + "twice :: fn g: fn int -> int -> fn int -> int do\n    ret fn x: int -> int do\n        ret g(g(x))\n    end\nend\n"
    "step :: fn x: int -> int do\n    ret x + 1\nend\nstart :: fn do\n    step«A1|var;n»: fn int -> int :«|» ::«/A1» twice(step)\n    print(step(1))\nend\n",
    _PRE + "twice :: fn g: fn int -> int -> fn int -> int do\n    ret fn x: int -> int do\n        ret g(g(x))\n    end\nend\n"
    "start :: fn do\n    inc2«A1|var;n»: fn int -> int :«|» ::«/A1» twice(fn y«A2|param;g»: int«|»«/A2» ->«A3|ret;g» int«|»«/A3» do\n        ret y + 1\n    end)\n    print(inc2(1))\nend\n",
    _PRE + "mk :: fn k: int -> fn -> int do\n    ret fn -> int do\n        ret k\n    end\nend\n"
    "start :: fn do\n    h := mk(1)\n    i := 0\n    loop i < 2 do\n        i += 1\n        h«A1|var;n»: fn -> int =«|» :=«/A1» mk(h() + i)\n        print(h())\n    end\n    print(h())\nend\n",
    _PRE + "apply :: fn f: fn int -> int, v: int -> int do\n    ret f(v)\nend\nid :: fn f: fn int -> int -> fn int -> int do\n    ret f\nend\n"
    "g :: fn x: int -> int do\n    ret x * 2\nend\nstart :: fn do\n    w :: fn -> int do\n        g«A1|var;n»: fn int -> int :«|» ::«/A1» id(g)\n        ret apply(g, 4)\n    end\n    print(w())\n    print(g(1))\nend\n",
]


def sweep(ctx):
    bs = base.bases(ctx, base.nbases(ctx), salt="c08base") + [(t, None) for t in HAND]
    lines, meta = [], []
    nsites = collections.Counter()
    kinds = collections.Counter()
    for bi, (t, g) in enumerate(bs):
        sites = dict(tg.annotation_sites(t))
        nsites[min(len(sites), 12)] += 1
        for i, info in sites.items():
            kinds[info.split(";")[0] + (" ground" if ";g" in info else " non-ground")] += 1
        for sub in variants(ctx, t, bi):
            lines.append(tg.case_line(tg.render(t, erase=sub)))
            meta.append((bi, tuple(sub)))
    res = vlib.harness("compile", lines)
    by_base = collections.defaultdict(list)
    for (bi, sub), l in zip(meta, res):
        by_base[bi].append((sub, l))
    viol = []
    stats = collections.Counter()
    for bi, vs in by_base.items():
        t = bs[bi][0]
        sites = dict(tg.annotation_sites(t))
        ref = [l for sub, l in vs if sub == ()]
        ref = ref[0] if ref else vs[0][1]
        if not ref.startswith("OK"):
            oks = [(sub, l) for sub, l in vs if l.startswith("OK")]
            if not oks:
                stats["every variant rejected (generator bug)"] += 1
                continue
            # the base program (correct annotations) is rejected although another annotation variant is accepted
            v = tg.real_verdict(ref)
            sub0, ref = oks[0]
            viol.append((None, "acceptance-differs", (), tg.render(t), tg.render(t, erase=sub0),
                         "the base program is rejected (%s line %s) although the variant with sites %s flipped is accepted"
                         % (v[1] if len(v) > 1 else v[0], v[3] if len(v) > 3 else "?", list(sub0))))
        for sub, l in vs:
            stats["variants"] += 1
            if l.startswith("OK"):
                if l != ref:
                    viol.append((None, "bytes-differ", sub, tg.render(t, erase=sub), tg.render(t), "emitted Lua differs from the base program's"))
                else:
                    stats["accepted, identical bytes"] += 1
            else:
                v = tg.real_verdict(l)
                what = "rejected (%s line %s) although the base program is accepted" % (v[1] if len(v) > 1 else v[0], v[3] if len(v) > 3 else "?")
                src = tg.render(t, erase=sub)
                viol.append((classify_variant(src, v), "acceptance-differs", sub, src, tg.render(t), what))
    dist = {"bases": len(bs), "sites_per_program_histogram": dict(nsites), "site_kinds": dict(kinds), "stats": dict(stats)}
    return viol, dist


def classify_variant(src, v):
    """known class: a call of a function-typed field of a parameter whose annotation was erased
    (`p.update()` with p un-annotated: "Unknown types cannot be called")"""
    import re
    if len(v) > 3 and v[1] == "Type:Violating":
        lines = src.split("\n")
        if 0 < v[3] <= len(lines):
            m = re.search(r"\b(p\d+)\.(f\d+)\(", lines[v[3] - 1])
            if m:
                pname = m.group(1)
                # the parameter is declared without annotation in this variant
                if re.search(r"\b%s\b(?!:)\s*(,|->|do)" % pname, src):
                    return "C08-call-through-unknown-field"
    return None


def tie(ctx):
    bs = base.bases(ctx, base.nbases(ctx), salt="c08base")
    cases = base.corpus_cases("C08")
    r = vlib.rng(ctx.seed, "c08-tie")
    for bi, (t, g) in enumerate(bs):
        vs = variants(ctx, t, bi)
        for sub in r.sample(vs, min(6, len(vs))):
            cases.append(("variant:%d:%s" % (bi, ",".join(map(str, sub))), tg.case_line(tg.render(t, erase=sub))))
    recs = base.tie_run(cases)
    return base.summarize_tie("typecheck", recs,
                              "corpus + annotated/erased variants of generated well-typed programs; compared: accept/reject and "
                              "kind, file, line of the first error; distinct by label")


def always(ctx):
    viol, dist = sweep(ctx)
    ctx.c08_viol = viol
    known = base.known_ids("C08")
    byclass = collections.Counter(str(v[0]) for v in viol)
    unknown = [v for v in viol if v[0] is None or v[0] not in known]
    for v in unknown[:3]:
        ctx.brk("oracle:C08", "%s with sites %s flipped: %s\n%s" % (v[1], list(v[2]), v[5], v[3]))
    return {"oracle_distribution": dist, "oracle_violations_by_class": dict(byclass), "oracle_unclassified_violations": len(unknown)}


def search(ctx):
    viol = getattr(ctx, "c08_viol", None)
    if viol is None:
        viol, _ = sweep(ctx)
    known = base.known_ids("C08")
    unknown = [v for v in viol if v[0] is None or v[0] not in known]
    if not unknown:
        return None
    unknown.sort(key=lambda v: (len(v[2]), len(v[3])))
    cls, kind, sub, src, ref, what = unknown[0]
    return {"source": src, "base_source": ref, "flipped_sites": list(sub), "kind": kind, "class": cls, "what": what,
            "failing_inputs_found": len(unknown)}


def replay_known(ctx, kf):
    w = kf.get("witness") or {}
    if "annotated" in w and "erased" in w:
        res = vlib.harness("compile", [tg.case_line(w["annotated"]), tg.case_line(w["erased"])])
        return res[0].startswith("OK") != res[1].startswith("OK") or res[0] != res[1]
    return True


def replay(ctx, rep):
    fi = rep.get("failing_input") or {}
    if not fi:
        print("nothing to replay: no failing input in this file")
        return 0
    vlib.build_harness()
    res = vlib.harness("compile", [tg.case_line(fi["source"]), tg.case_line(fi["base_source"])])
    bad = res[0] != res[1]
    print("replay:", fi.get("what"), "->", res[0][:40], res[1][:40], "VIOLATION" if bad else "property holds")
    return 1 if bad else 0
