(* The parser half of "all surface variants compile to the same code": each pair of surface variants of C14
   parses to trees with the same sugar normal form (Syntax/SugarNF.v). *)
From Coq Require Import List NArith Bool Arith Lia.
From Sylt Require Import Syntax.Ast Syntax.Tok Syntax.SugarNF Parse.PrecTable Parse.Parser Parse.ParserProofs
  Parse.OpTree Parse.ExprRoundTrip Parse.Sugar Parse.ParserTotal Parse.PreSim Parse.StmtRoundTrip.
From Sylt Require Parse.SimGen.
Import ListNotations.

(* trees that differ only in Parenthesis nodes have the same normal form *)
Lemma snf_of_strip t1 t2 : strip_e t1 = strip_e t2 -> snf_e t1 = snf_e t2.
Proof. unfold snf_e. intros ->. reflexivity. Qed.

(* `a -> f(b, ..)` and `f(a, b, ..)` *)
Lemma snf_arrow l fn args : snf_e (arrow_tree l fn args) = snf_e (call_tree fn (ACons l args)).
Proof. reflexivity. Qed.

(* the implicit return value *)
Lemma nf_list_eq l :
  (fix go (l : list stmt) := match l with
                             | [] => []
                             | s :: l' => if is_empty_s s then go l' else nf_s s :: go l'
                             end) l = nf_stmts l.
Proof. induction l as [|s l IH]; [reflexivity|]. cbn [nf_stmts]. rewrite IH. reflexivity. Qed.

Lemma nf_stmts_app a b : nf_stmts (a ++ b) = nf_stmts a ++ nf_stmts b.
Proof.
  induction a as [|s a IH]; [reflexivity|]. cbn [app nf_stmts]. destruct (is_empty_s s); [exact IH|].
  cbn [app]. rewrite IH. reflexivity.
Qed.

Lemma tail_ret_cons s l : l <> [] -> tail_ret (s :: l) = s :: tail_ret l.
Proof. intros H. destruct l as [|x l]; [congruence|]. destruct s; reflexivity. Qed.

Lemma tail_ret_expr X w : tail_ret (X ++ [SExpr w]) = X ++ [SRet (Some w)].
Proof.
  induction X as [|s X IH]; [reflexivity|]. cbn [app].
  rewrite tail_ret_cons by (destruct X; discriminate). rewrite IH. reflexivity.
Qed.

Lemma tail_ret_ret X w : tail_ret (X ++ [SRet (Some w)]) = X ++ [SRet (Some w)].
Proof.
  induction X as [|s X IH]; [reflexivity|]. cbn [app].
  rewrite tail_ret_cons by (destruct X; discriminate). rewrite IH. reflexivity.
Qed.

Lemma strip_list_eq l :
  (fix go (l : list stmt) := match l with [] => [] | s :: l' => strip_s s :: go l' end) l = map strip_s l.
Proof. induction l as [|s l IH]; [reflexivity|]. cbn [map]. rewrite IH. reflexivity. Qed.

(* a function whose body ends in the expression statement `e` and one whose body ends in `ret e` *)
Theorem snf_implicit_ret ps r b v pu :
  snf_e (EFn ps r (b ++ [SExpr v]) pu) = snf_e (EFn ps r (b ++ [SRet (Some v)]) pu).
Proof.
  unfold snf_e. cbn [strip_e nf_e].
  rewrite (strip_list_eq (b ++ [SExpr v])), (strip_list_eq (b ++ [SRet (Some v)])).
  rewrite (nf_list_eq (map strip_s (b ++ [SExpr v]))), (nf_list_eq (map strip_s (b ++ [SRet (Some v)]))).
  rewrite !map_app, !nf_stmts_app.
  cbn [map strip_s nf_stmts is_empty_s nf_s]. rewrite tail_ret_expr, tail_ret_ret. reflexivity.
Qed.

(* files whose statements agree up to EmptyStatements (C14_comments_anywhere) have the same normal form *)
Lemma snf_program_noempty ss : snf_program ss = map snf_s (SimGen.noempty ss).
Proof.
  unfold snf_program, SimGen.noempty. induction ss as [|s ss IH]; [reflexivity|].
  cbn [map nf_stmts filter]. destruct s; cbn [strip_s is_empty_s SimGen.is_empty_stmt negb map]; rewrite IH; try reflexivity.
  destruct value; reflexivity.
Qed.

Theorem snf_program_of_noempty ss ss' : SimGen.noempty ss = SimGen.noempty ss' -> snf_program ss = snf_program ss'.
Proof. intros H. rewrite !snf_program_noempty, H. reflexivity. Qed.

Section NF.
Variable T : ptab.
Hypothesis OK : tab_ok T.

(* redundant parentheses *)
Theorem nf_paren e1 e2 : unparen e1 = unparen e2 ->
  lower_ok e1 = true -> dwf e1 = true -> lower_ok e2 = true -> dwf e2 = true ->
  forall rest, follow_rest T false rest ->
  exists f0, forall f, f0 <= f -> exists t1 c1 t2 c2,
    parse_expression T f (pp e1 ++ rest) = Ok (t1, c1) /\ parse_expression T f (pp e2 ++ rest) = Ok (t2, c2)
    /\ snf_e t1 = snf_e t2 /\ post c1 = rest /\ post c2 = rest.
Proof.
  intros U L1 D1 L2 D2 rest F.
  destruct (paren_insignificant T OK e1 e2 U L1 D1 L2 D2 rest F) as [f0 H]. exists f0. intros f Hf.
  destruct (H f Hf) as (t1 & c1 & t2 & c2 & A & B & S0 & P1 & P2). exists t1, c1, t2, c2.
  repeat split; try assumption. apply snf_of_strip. exact S0.
Qed.

(* prime call and parenthesised call *)
Theorem nf_prime fn args : is_capitalized fn = false -> lower_args args = true -> dwf_args args = true ->
  forall rest, prime_end T false rest ->
  exists f0, forall f, f0 <= f -> exists t1 c1 t2 c2,
    parse_expression T f (prime_tokens fn args ++ rest) = Ok (t1, c1)
    /\ parse_expression T f (paren_tokens fn args ++ rest) = Ok (t2, c2)
    /\ snf_e t1 = snf_e t2 /\ post c1 = rest /\ post c2 = rest.
Proof.
  intros Hfn L D rest PE. destruct (prime_call T OK fn args Hfn L D rest PE) as [f0 H]. exists f0. intros f Hf.
  destruct (H f Hf) as (c1 & c2 & A & B & P1 & P2). exists (call_tree fn args), c1, (call_tree fn args), c2. auto.
Qed.

(* arrow call and the call with the receiver as first argument *)
Theorem nf_arrow l fn args : arrow_ok T ->
  atomic l = true -> lower_ok l = true -> dwf l = true ->
  is_capitalized fn = false -> lower_args args = true -> dwf_args args = true ->
  forall rest, follow_rest T false rest ->
  exists f0, forall f, f0 <= f -> exists t1 c1 t2 c2,
    parse_expression T f (pp l ++ TK KArrow :: paren_tokens fn args ++ rest) = Ok (t1, c1)
    /\ parse_expression T f (paren_tokens fn (ACons l args) ++ rest) = Ok (t2, c2)
    /\ snf_e t1 = snf_e t2 /\ post c1 = rest /\ post c2 = rest.
Proof.
  intros AO At Ll Dl Hfn La Da rest F.
  destruct (arrow_call_parses T OK l fn args AO At Ll Dl Hfn La Da rest F) as [f1 H1].
  assert (L2 : lower_args (ACons l args) = true) by (cbn [lower_args]; rewrite Ll, La; reflexivity).
  assert (D2 : dwf_args (ACons l args) = true) by (cbn [dwf_args]; rewrite Dl, Da; reflexivity).
  destruct (paren_call_parses T OK fn (ACons l args) Hfn L2 D2 rest F) as [f2 H2].
  exists (Nat.max f1 f2). intros f Hf.
  destruct (H1 f ltac:(lia)) as (c1 & A1 & P1). destruct (H2 f ltac:(lia)) as (c2 & A2 & P2 & _).
  exists (arrow_tree l fn args), c1, (call_tree fn (ACons l args)), c2.
  split; [exact A1|split; [exact A2|split; [apply snf_arrow|split; assumption]]].
Qed.

(* `ret e` as a statement: the statement the implicit return normalises to *)
Theorem nf_ret_statement e : pt_valid T (TK KNewline) = false -> lower_ok e = true -> dwf e = true ->
  forall p rest ov b, exists f0, forall f, f0 <= f -> exists c,
    go T (S f) (QStmt (mkctx p (TK KRet :: pp e ++ TK KNewline :: rest) ov b)) = Ok (RS (SRet (Some (emb e))) c).
Proof.
  intros Hnl L D p rest ov b. destruct (ret_roundtrip T OK Hnl e L D p rest ov b) as [f0 H].
  exists f0. intros f Hf. eexists. rewrite (H f Hf). reflexivity.
Qed.

(* the implicit return value, parser half: `e` as the last statement and `ret e` carry the same tree *)
Theorem nf_tail_statement e : pt_valid T (TK KNewline) = false -> pt_valid T (TK KDo) = false ->
  lower_ok e = true -> dwf e = true ->
  forall p p' rest rest' ov ov' b b', exists f0, forall f, f0 <= f -> exists c c',
    go T (S f) (QStmt (mkctx p (pp e ++ TK KNewline :: rest) ov b)) = Ok (RS (SExpr (emb e)) c)
    /\ go T (S f) (QStmt (mkctx p' (TK KRet :: pp e ++ TK KNewline :: rest') ov' b')) = Ok (RS (SRet (Some (emb e))) c')
    /\ tail_ret [nf_s (strip_s (SExpr (emb e)))] = tail_ret [nf_s (strip_s (SRet (Some (emb e))))].
Proof.
  intros Hnl Hdo L D p p' rest rest' ov ov' b b'.
  destruct (expr_stmt_roundtrip T OK Hnl e L D p rest ov b) as [f1 H1].
  destruct (ret_roundtrip T OK Hnl e L D p' rest' ov' b') as [f2 H2].
  exists (Nat.max f1 f2). intros f Hf. eexists. eexists.
  rewrite (H1 f ltac:(lia)), (H2 f ltac:(lia)). repeat split.
Qed.

End NF.
