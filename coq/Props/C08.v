(* C08 -- placeholder *)
From Sylt Require Import Types.Tc.
