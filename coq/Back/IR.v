(* The flat IR of sylt-compiler/src/intermediate.rs and the lowering of resolved statements to it,
   mirroring the Rust code construct by construct (same order of fresh-variable allocation, same
   instruction order).  Definitions only. *)
From Coq Require Import String List NArith ZArith Bool.
From Sylt Require Import Syntax.Resolved.
Import ListNotations.
Local Open Scope N_scope.

Inductive ir :=
| INil (t : N)
| IInt (t : N) (z : Z)
| IFloat (t : N) (repr : string)
| IStr (t : N) (s : string)
| IBool (t : N) (b : bool)
| IAdd (t a b : N) | ISub (t a b : N) | IMul (t a b : N) | IDiv (t a b : N)
| INeg (t a : N)
| INot (t a : N)
| IExternal (t : N) (name : string)
| ICall (t f : N) (args : list N)
| IEquals (t a b : N) | INotEquals (t a b : N) | IGreater (t a b : N) | IGreaterEqual (t a b : N)
| ILess (t a b : N) | ILessEqual (t a b : N)
| IAssert (v : N)
| IList (t : N) (xs : list N)
| ITuple (t : N) (xs : list N)
| IBlob (t : N) (fields : list (string * N))
| IVariant (t : N) (name : string) (v : N)
| IFunction (f : N) (params : list N)
| IIndex (t a i : N)
| IAssignIndex (t i a : N)
| IAccess (t a : N) (field : string)
| IAssignAccess (t : N) (field : string) (c : N)
| ILabel (l : N)
| IGoto (l : N)
| ICopy (t a : N)
| IDefine (t : N)
| IAssign (t a : N)
| IReturn (t : N)
| IIf (a : N)
| IHalt (msg : string)
| ILoop | IBreak | IElse | IEnd.

(* outcome of the lowering: the code panics at a few `unreachable!()`/`unwrap()` sites *)
Inductive outcome (A : Type) :=
| Ok (a : A)
| Panic (site : string)
| OutOfFuel.
Arguments Ok {A}. Arguments Panic {A}. Arguments OutOfFuel {A}.

(* state = the counter of IRCodeGen *)
Definition M (A : Type) := N -> outcome (A * N).
Definition ret {A} (a : A) : M A := fun c => Ok (a, c).
Definition bind {A B} (m : M A) (k : A -> M B) : M B :=
  fun c => match m c with
           | Ok (a, c') => k a c'
           | Panic s => Panic s
           | OutOfFuel => OutOfFuel
           end.
Notation "x <- m ;; k" := (bind m (fun x => k)) (at level 61, m at next level, right associativity).
Definition fresh : M N := fun c => Ok (c, c + 1).
Definition panic {A} (s : string) : M A := fun _ => Panic s.
Definition out_of_fuel {A} : M A := fun _ => OutOfFuel.

Fixpoint mapM {A B} (f : A -> M B) (l : list A) : M (list B) :=
  match l with
  | [] => ret []
  | x :: xs => y <- f x ;; ys <- mapM f xs ;; ret (y :: ys)
  end.

(* decimal rendering *)
Fixpoint digits_fuel (fuel : nat) (n : N) (acc : string) : string :=
  match fuel with
  | O => acc
  | S f =>
      let d := String (Ascii.ascii_of_N (48 + n mod 10)) acc in
      if n / 10 =? 0 then d else digits_fuel f (n / 10) d
  end.
Definition N_to_string (n : N) : string := digits_fuel (S (N.to_nat (N.log2 n))) n EmptyString.
Definition Z_to_string (z : Z) : string :=
  match z with
  | Z0 => "0"%string
  | Zpos p => N_to_string (Npos p)
  | Zneg p => ("-" ++ N_to_string (Npos p))%string
  end.

Definition binop_ir (op : binop) (c a b : N) : option ir :=
  match op with
  | Add => Some (IAdd c a b) | Sub => Some (ISub c a b) | Mul => Some (IMul c a b) | Div => Some (IDiv c a b)
  | Equals => Some (IEquals c a b) | NotEquals => Some (INotEquals c a b)
  | Greater => Some (IGreater c a b) | GreaterEqual => Some (IGreaterEqual c a b)
  | Less => Some (ILess c a b) | LessEqual => Some (ILessEqual c a b)
  | _ => None
  end.

Definition is_function (e : expr) : bool := match e with EFunction _ _ _ _ _ _ => true | _ => false end.

(* open-recursion helpers, parameterised by the lowering of one statement / one expression *)
Definition lower_list (stm : stmt -> N -> M (list ir)) (ss : list stmt) (ctx : N) : M (list ir) :=
  cs <- mapM (fun s => stm s ctx) ss ;; ret (concat cs).

(* the body of a function: the last statement, if it is an expression, is the returned value *)
Definition lower_fbody (stm : stmt -> N -> M (list ir)) (exp : expr -> N -> M (list ir * N))
           (body : list stmt) (ctx : N) : M (list ir) :=
  match rev body with
  | [] => ret []
  | last :: init_rev =>
      b <- lower_list stm (rev init_rev) ctx ;;
      l <- match last with
           | SStatementExpression value _ => r <- exp value ctx ;; ret (fst r ++ [IReturn (snd r)])
           | s => stm s ctx
           end ;;
      ret (b ++ l)
  end.

(* expression_block: the last statement, if it is an expression, is assigned to `out` *)
Definition lower_eblock (stm : stmt -> N -> M (list ir)) (exp : expr -> N -> M (list ir * N))
           (out : N) (block : list stmt) (ctx : N) : M (list ir) :=
  match rev block with
  | SStatementExpression value _ :: rest_rev =>
      ops <- lower_list stm (rev rest_rev) ctx ;;
      r <- exp value ctx ;;
      ret (ops ++ fst r ++ [IAssign out (snd r)])
  | _ => lower_list stm block ctx
  end.

(* one branch of an if-expression (the `End`s are emitted after all branches) *)
Definition lower_if_branch (stm : stmt -> N -> M (list ir)) (exp : expr -> N -> M (list ir * N))
           (out : N) (ctx : N) (br : ifbranch) : M (list ir) :=
  match br with
  | IfBranch (Some cond) body _ =>
      rc <- exp cond ctx ;;
      blk <- lower_eblock stm exp out body ctx ;;
      ret (fst rc ++ [IIf (snd rc)] ++ blk ++ [IElse])
  | IfBranch None body _ =>
      v <- fresh ;;
      blk <- lower_eblock stm exp out body ctx ;;
      ret ([IBool v true; IIf v] ++ blk)
  end.

(* one arm of a case-expression *)
Definition lower_case_branch (stm : stmt -> N -> M (list ir)) (exp : expr -> N -> M (list ir * N))
           (out tag value : N) (ctx : N) (br : casebranch) : M (list ir) :=
  match br with
  | CaseBranch pattern _ variable body _ =>
      blk <- lower_eblock stm exp out body ctx ;;
      exp_str <- fresh ;; cmp <- fresh ;;
      ret ((match variable with Some v => [IDefine v; IAssign v value] | None => [] end)
           ++ [IStr exp_str pattern; IEquals cmp exp_str tag; IIf cmp]
           ++ blk ++ [IElse])
  end.

Section Lower.
(* ctx = closest_loop label *)

Fixpoint expression (fuel : nat) (e : expr) (ctx : N) {struct fuel} : M (list ir * N) :=
  match fuel with
  | O => out_of_fuel
  | S f =>
    let expr' := expression f in
    let stmts' := lower_list (statement f) in
    let eblock := lower_eblock (statement f) (expression f) in
    let fbody := lower_fbody (statement f) (expression f) in
    match e with
    | ERead v _ => dest <- fresh ;; ret ([ICopy dest v], dest)
    | EVariant _ variant value _ =>
        r <- expr' value ctx ;; out <- fresh ;;
        ret (fst r ++ [IVariant out variant (snd r)], out)
    | ECall fn args _ =>
        rf <- expr' fn ctx ;;
        rs <- mapM (fun a => expr' a ctx) args ;;
        v <- fresh ;;
        ret (fst rf ++ concat (map fst rs) ++ [ICall v (snd rf) (map snd rs)], v)
    | EBlobAccess value field _ =>
        r <- expr' value ctx ;; b <- fresh ;;
        ret (fst r ++ [IAccess b (snd r) field], b)
    | EIndex value index _ =>
        ra <- expr' value ctx ;; rb <- expr' index ctx ;; c <- fresh ;;
        ret (fst ra ++ fst rb ++ [IIndex c (snd ra) (snd rb)], c)
    | EBinOp AssertEq a b _ =>
        ra <- expr' a ctx ;; rb <- expr' b ctx ;; c <- fresh ;;
        ret (fst ra ++ fst rb ++ [IEquals c (snd ra) (snd rb); IAssert c], c)
    | EBinOp And a b _ =>
        ra <- expr' a ctx ;; rb <- expr' b ctx ;; c <- fresh ;; fl <- fresh ;;
        ret (fst ra ++ [IDefine c; IBool fl false; IAssign c fl; IIf (snd ra)] ++ fst rb ++ [IAssign c (snd rb); IEnd], c)
    | EBinOp Or a b _ =>
        ra <- expr' a ctx ;; rb <- expr' b ctx ;; neg_a <- fresh ;; c <- fresh ;; tr <- fresh ;;
        ret (fst ra ++ [IDefine c; IBool tr true; IAssign c tr; INot neg_a (snd ra); IIf neg_a] ++ fst rb ++ [IAssign c (snd rb); IEnd], c)
    | EBinOp op a b _ =>
        ra <- expr' a ctx ;; rb <- expr' b ctx ;; c <- fresh ;;
        match binop_ir op c (snd ra) (snd rb) with
        | Some i => ret (fst ra ++ fst rb ++ [i], c)
        | None => panic "intermediate.rs:expression:BinOp unreachable"
        end
    | EUniOp Not a _ => ra <- expr' a ctx ;; b <- fresh ;; ret (fst ra ++ [INot b (snd ra)], b)
    | EUniOp Neg a _ => ra <- expr' a ctx ;; b <- fresh ;; ret (fst ra ++ [INeg b (snd ra)], b)
    | EIf branches _ =>
        out <- fresh ;;
        code <- mapM (lower_if_branch (statement f) (expression f) out ctx) branches ;;
        ret ([IDefine out] ++ concat code ++ map (fun _ => IEnd) branches, out)
    | ECase to_match branches fall_through _ =>
        rc <- expr' to_match ctx ;;
        tag <- fresh ;; value <- fresh ;; out <- fresh ;;
        bcode <- mapM (lower_case_branch (statement f) (expression f) out tag value ctx) branches ;;
        ft <- eblock out (match fall_through with Some b => b | None => [] end) ctx ;;
        tag_index <- fresh ;; value_index <- fresh ;;
        ret (fst rc ++ [IDefine out; IInt tag_index 1; IIndex tag (snd rc) tag_index;
                        IInt value_index 2; IIndex value (snd rc) value_index]
             ++ concat bcode ++ ft ++ map (fun _ => IEnd) branches, out)
    | EBlob _ fields self_var _ =>
        rs <- mapM (fun fe => r <- expr' (snd fe) ctx ;; ret (fst fe, r)) fields ;;
        v <- fresh ;;
        ret ([IDefine self_var] ++ concat (map (fun x => fst (snd x)) rs)
             ++ [IBlob v (map (fun x => (fst x, snd (snd x))) rs); IAssign self_var v], v)
    | ECollection CList values _ =>
        rs <- mapM (fun a => expr' a ctx) values ;; v <- fresh ;;
        ret (concat (map fst rs) ++ [IList v (map snd rs)], v)
    | ECollection CTuple values _ =>
        rs <- mapM (fun a => expr' a ctx) values ;; v <- fresh ;;
        ret (concat (map fst rs) ++ [ITuple v (map snd rs)], v)
    | EFunction _ params _ body _ _ =>
        fv <- fresh ;;
        let ps := map (fun p => snd (fst (fst p))) params in
        bc <- fbody body ctx ;;
        ret (IFunction fv ps :: bc ++ [IEnd], fv)
    | EFloat r _ => v <- fresh ;; ret ([IFloat v r], v)
    | EStr s _ => v <- fresh ;; ret ([IStr v s], v)
    | EBool b _ => v <- fresh ;; ret ([IBool v b], v)
    | EInt z _ => v <- fresh ;; ret ([IInt v z], v)
    | ENil _ => v <- fresh ;; ret ([INil v], v)
    end
  end

with statement (fuel : nat) (s : stmt) (ctx : N) {struct fuel} : M (list ir) :=
  match fuel with
  | O => out_of_fuel
  | S f =>
    let expr' := expression f in
    let stmts' := lower_list (statement f) in
    match s with
    | SAssignment op target value _ =>
        res <- fresh ;;
        pcp <- match target with
               | ERead v _ => ret ([], v, [IAssign v res])
               | EIndex value index _ =>
                   ra <- expr' value ctx ;; rb <- expr' index ctx ;; c <- fresh ;;
                   ret (fst ra ++ fst rb ++ [IIndex c (snd ra) (snd rb)], c,
                        [IAssignIndex (snd ra) (snd rb) res])
               | EBlobAccess value field _ =>
                   ra <- expr' value ctx ;; b <- fresh ;;
                   ret (fst ra ++ [IAccess b (snd ra) field], b, [IAssignAccess (snd ra) field res])
               | _ => panic "intermediate.rs:statement:Assignment target unreachable"
               end ;;
        let '(pre_code, current, post_code) := pcp in
        rv <- expr' value ctx ;;
        opi <- match op with
               | Nop => ret (ICopy res (snd rv))
               | Add => ret (IAdd res current (snd rv))
               | Sub => ret (ISub res current (snd rv))
               | Mul => ret (IMul res current (snd rv))
               | Div => ret (IDiv res current (snd rv))
               | _ => panic "intermediate.rs:statement:Assignment op unreachable"
               end ;;
        ret (pre_code ++ fst rv ++ [opi] ++ post_code)
    | SDefinition _ var _ _ value _ => definition f var value ctx
    | SBlock statements _ => stmts' statements ctx
    | SLoop condition body _ =>
        rc <- expr' condition ctx ;;
        l <- fresh ;;
        b <- stmts' body l ;;
        ret ([ILoop; ILabel l] ++ fst rc ++ [IIf (snd rc); IElse; IBreak; IEnd] ++ b ++ [IEnd])
    | SBreak _ => ret [IBreak]
    | SContinue _ => ret [IGoto ctx]
    | SRet (Some value) _ => r <- expr' value ctx ;; ret (fst r ++ [IReturn (snd r)])
    | SRet None _ => a <- fresh ;; ret [INil a; IReturn a]
    | SUnreachable sp =>
        ret [IHalt ("Reached unreachable code on line " ++ N_to_string (sp_line0 sp))%string]
    | SStatementExpression value _ => r <- expr' value ctx ;; ret (fst r)
    | SBlob _ _ _ _ _ _ | SEnum _ _ _ _ _ | SExternalDefinition _ _ _ _ _ =>
        panic "intermediate.rs:statement:type declaration unreachable"
    end
  end

with definition (fuel : nat) (var : N) (value : expr) (ctx : N) {struct fuel} : M (list ir) :=
  match fuel with
  | O => out_of_fuel
  | S f =>
    match value with
    | EFunction _ params _ body _ _ =>
        (* the Rust code lowers the function expression and then replaces the name in its first
           instruction (IFunction) by the defined variable: the temporary stays allocated, unused *)
        _ <- fresh ;;
        let ps := map (fun p => snd (fst (fst p))) params in
        bc <- lower_fbody (statement f) (expression f) body ctx ;;
        ret (IFunction var ps :: bc ++ [IEnd])
    | _ =>
        r <- expression f value ctx ;;
        ret ([IDefine var] ++ fst r ++ [IAssign var (snd r)])
    end
  end.

End Lower.

(* IRCodeGen::compile for one outer statement *)
Definition compile_stmt (fuel : nat) (s : stmt) : M (list ir) :=
  match s with
  | SExternalDefinition name var _ _ _ => ret [IExternal var name]
  | SDefinition _ var _ _ value _ => definition fuel var value 0
  | _ => ret []
  end.

Definition find_start (vars : list var) : option N :=
  match find (fun v => String.eqb (v_name v) "start" && v_global v) vars with
  | Some v => Some (v_id v)
  | None => None
  end.

(* intermediate::compile: counter starts at |variables| + 1 *)
Definition lower (fuel : nat) (r : resolved) : outcome (list ir) :=
  let c0 := N.of_nat (length (r_vars r)) + 1 in
  match (cs <- mapM (compile_stmt fuel) (r_stmts r) ;;
         match find_start (r_vars r) with
         | None => panic "intermediate.rs:compile: no start (unwrap)"
         | Some start => tmp <- fresh ;; ret (concat cs ++ [ICall tmp start []])
         end) c0 with
  | Ok (code, _) => Ok code
  | Panic s => Panic s
  | OutOfFuel => OutOfFuel
  end.
