(* Model of the dependency extraction of sylt-compiler/src/dependency.rs:
   statement_dependencies / dependencies / ty_dependency.  A `BTreeSet<usize>` is a strictly
   increasing list of N.  Definitions only.

   `tgt` says whether the `S::Assignment` arm also takes the dependencies of the assignment TARGET.
   On the pinned tree it does not (dependency.rs:8, `S::Assignment { value, .. } => dependencies(value)`);
   the flag is regenerated from the source on every run (Gen/GenResolve.v: gen_assign_target_deps). *)
From Coq Require Import String List NArith ZArith Bool.
From Sylt Require Import Syntax.Resolved.
Import ListNotations.

Definition nset := list N.

(* BTreeSet::insert *)
Fixpoint ins (x : N) (l : nset) : nset :=
  match l with
  | [] => [x]
  | y :: l' =>
      match N.compare x y with
      | Lt => x :: y :: l'
      | Eq => y :: l'
      | Gt => y :: ins x l'
      end
  end.

Definition union (a b : nset) : nset := fold_right ins b a.

(* union of f over a list *)
Definition unions {A} (f : A -> nset) : list A -> nset :=
  fix go (l : list A) : nset :=
  match l with [] => [] | x :: xs => union (f x) (go xs) end.

(* BTreeSet::remove *)
Definition remove (x : N) (l : nset) : nset := filter (fun y => negb (N.eqb x y)) l.

(* fn ty_dependency *)
Fixpoint ty_dependency (t : ty) : nset :=
  match t with
  | TUser r args _ => ins r (unions ty_dependency args)
  | TTuple ts _ => unions ty_dependency ts
  | TList t' _ => ty_dependency t'
  | TFn _ params ret _ _ => union (unions ty_dependency params) (ty_dependency ret)
  | TImplied _ | TResolved _ _ | TGeneric _ _ => []
  end.

Definition is_function_expr (e : expr) : bool :=
  match e with EFunction _ _ _ _ _ _ => true | _ => false end.

(* fn dependencies / fn statement_dependencies *)
Fixpoint dependencies (tgt : bool) (e : expr) : nset :=
  match e with
  | ERead v _ => [v]
  | EVariant t _ value _ => ins t (dependencies tgt value)
  | ECall f args _ => union (dependencies tgt f) (unions (dependencies tgt) args)
  | EBlobAccess value _ _ => dependencies tgt value
  | EIndex value index _ => union (dependencies tgt value) (dependencies tgt index)
  | EBinOp _ a b _ => union (dependencies tgt a) (dependencies tgt b)
  | EUniOp _ a _ => dependencies tgt a
  | EIf branches _ =>
      unions (fun b => match b with
                       | IfBranch cond body _ =>
                           union (match cond with Some c => dependencies tgt c | None => [] end)
                                 (unions (statement_dependencies tgt) body)
                       end) branches
  | ECase to_match branches fall_through _ =>
      union (dependencies tgt to_match)
        (union (match fall_through with Some b => unions (statement_dependencies tgt) b | None => [] end)
               (unions (fun b => match b with
                                 | CaseBranch _ _ _ body _ => unions (statement_dependencies tgt) body
                                 end) branches))
  | EFunction _ _ _ body _ _ => unions (statement_dependencies tgt) body
  | EBlob blob fields _ _ => ins blob (unions (fun f => dependencies tgt (snd f)) fields)
  | ECollection _ values _ => unions (dependencies tgt) values
  | EFloat _ _ | EInt _ _ | EStr _ _ | EBool _ _ | ENil _ => []
  end

with statement_dependencies (tgt : bool) (s : stmt) : nset :=
  match s with
  | SAssignment _ target value _ =>
      if tgt then union (dependencies tgt target) (dependencies tgt value) else dependencies tgt value
  | SBlock ss _ => unions (statement_dependencies tgt) ss
  | SLoop cond body _ => union (dependencies tgt cond) (unions (statement_dependencies tgt) body)
  | SDefinition _ v _ t value _ =>
      let deps := union (dependencies tgt value) (ty_dependency t) in
      if is_function_expr value then remove v deps else deps
  | SRet (Some value) _ | SStatementExpression value _ => dependencies tgt value
  | SRet None _ => []
  | SBlob _ _ _ _ _ _ | SEnum _ _ _ _ _ | SExternalDefinition _ _ _ _ _ | SBreak _ | SContinue _
  | SUnreachable _ => []
  end.

(* ---------------------------------------------------------------------------------------------- *)
(* The specification side of `deps_complete`: every variable that a statement reads, calls or
   ASSIGNS, at any depth (closure bodies included).  Type references are not listed: types are moved
   in front of all values by the types-first sort of compiler.rs. *)
Fixpoint uses_e (e : expr) : list N :=
  match e with
  | ERead v _ => [v]
  | EVariant _ _ value _ => uses_e value
  | ECall f args _ => uses_e f ++ flat_map uses_e args
  | EBlobAccess value _ _ => uses_e value
  | EIndex value index _ => uses_e value ++ uses_e index
  | EBinOp _ a b _ => uses_e a ++ uses_e b
  | EUniOp _ a _ => uses_e a
  | EIf branches _ =>
      flat_map (fun b => match b with
                         | IfBranch cond body _ =>
                             (match cond with Some c => uses_e c | None => [] end) ++ flat_map uses_s body
                         end) branches
  | ECase to_match branches fall_through _ =>
      uses_e to_match
      ++ (match fall_through with Some b => flat_map uses_s b | None => [] end)
      ++ flat_map (fun b => match b with CaseBranch _ _ _ body _ => flat_map uses_s body end) branches
  | EFunction _ _ _ body _ _ => flat_map uses_s body
  | EBlob _ fields _ _ => flat_map (fun f => uses_e (snd f)) fields
  | ECollection _ values _ => flat_map uses_e values
  | EFloat _ _ | EInt _ _ | EStr _ _ | EBool _ _ | ENil _ => []
  end
with uses_s (s : stmt) : list N :=
  match s with
  | SAssignment _ target value _ => uses_e target ++ uses_e value      (* the target is a use *)
  | SBlock ss _ => flat_map uses_s ss
  | SLoop cond body _ => uses_e cond ++ flat_map uses_s body
  | SDefinition _ _ _ _ value _ => uses_e value
  | SRet (Some value) _ | SStatementExpression value _ => uses_e value
  | SRet None _ => []
  | SBlob _ _ _ _ _ _ | SEnum _ _ _ _ _ | SExternalDefinition _ _ _ _ _ | SBreak _ | SContinue _
  | SUnreachable _ => []
  end.

(* the variable a top-level statement defines *)
Definition defined_var (s : stmt) : option N :=
  match s with
  | SExternalDefinition _ v _ _ _ | SDefinition _ v _ _ _ _ | SBlob _ v _ _ _ _ | SEnum _ v _ _ _ => Some v
  | _ => None
  end.

Definition is_function_def (s : stmt) : bool :=
  match s with SDefinition _ _ _ _ value _ => is_function_expr value | _ => false end.

(* ---------------------------------------------------------------------------------------------- *)
(* the variables that function definitions (at any depth) define: a function definition does not depend
   on itself (`deps.remove(var)`), which is what allows a function to call itself *)
Fixpoint fdefs_e (e : expr) : list N :=
  match e with
  | ERead _ _ => []
  | EVariant _ _ value _ => fdefs_e value
  | ECall f args _ => fdefs_e f ++ flat_map fdefs_e args
  | EBlobAccess value _ _ => fdefs_e value
  | EIndex value index _ => fdefs_e value ++ fdefs_e index
  | EBinOp _ a b _ => fdefs_e a ++ fdefs_e b
  | EUniOp _ a _ => fdefs_e a
  | EIf branches _ =>
      flat_map (fun b => match b with
                         | IfBranch cond body _ =>
                             (match cond with Some c => fdefs_e c | None => [] end) ++ flat_map fdefs_s body
                         end) branches
  | ECase to_match branches fall_through _ =>
      fdefs_e to_match
      ++ (match fall_through with Some b => flat_map fdefs_s b | None => [] end)
      ++ flat_map (fun b => match b with CaseBranch _ _ _ body _ => flat_map fdefs_s body end) branches
  | EFunction _ _ _ body _ _ => flat_map fdefs_s body
  | EBlob _ fields _ _ => flat_map (fun f => fdefs_e (snd f)) fields
  | ECollection _ values _ => flat_map fdefs_e values
  | EFloat _ _ | EInt _ _ | EStr _ _ | EBool _ _ | ENil _ => []
  end
with fdefs_s (s : stmt) : list N :=
  match s with
  | SAssignment _ target value _ => fdefs_e target ++ fdefs_e value
  | SBlock ss _ => flat_map fdefs_s ss
  | SLoop cond body _ => fdefs_e cond ++ flat_map fdefs_s body
  | SDefinition _ v _ _ value _ => (if is_function_expr value then [v] else []) ++ fdefs_e value
  | SRet (Some value) _ | SStatementExpression value _ => fdefs_e value
  | SRet None _ => []
  | SBlob _ _ _ _ _ _ | SEnum _ _ _ _ _ | SExternalDefinition _ _ _ _ _ | SBreak _ | SContinue _
  | SUnreachable _ => []
  end.

(* size, for proofs by induction *)
Definition sum_with {A} (f : A -> nat) : list A -> nat :=
  fix go (l : list A) : nat := match l with [] => 0 | x :: xs => f x + go xs end.

Fixpoint size_e (e : expr) : nat :=
  S (match e with
     | ERead _ _ => 0
     | EVariant _ _ value _ => size_e value
     | ECall f args _ => size_e f + sum_with size_e args
     | EBlobAccess value _ _ => size_e value
     | EIndex value index _ => size_e value + size_e index
     | EBinOp _ a b _ => size_e a + size_e b
     | EUniOp _ a _ => size_e a
     | EIf branches _ =>
         sum_with (fun b => match b with
                            | IfBranch cond body _ =>
                                (match cond with Some c => size_e c | None => 0 end) + sum_with size_s body
                            end) branches
     | ECase to_match branches fall_through _ =>
         size_e to_match
         + (match fall_through with Some b => sum_with size_s b | None => 0 end)
         + sum_with (fun b => match b with CaseBranch _ _ _ body _ => sum_with size_s body end) branches
     | EFunction _ _ _ body _ _ => sum_with size_s body
     | EBlob _ fields _ _ => sum_with (fun f => size_e (snd f)) fields
     | ECollection _ values _ => sum_with size_e values
     | EFloat _ _ | EInt _ _ | EStr _ _ | EBool _ _ | ENil _ => 0
     end)
with size_s (s : stmt) : nat :=
  S (match s with
     | SAssignment _ target value _ => size_e target + size_e value
     | SBlock ss _ => sum_with size_s ss
     | SLoop cond body _ => size_e cond + sum_with size_s body
     | SDefinition _ _ _ _ value _ => size_e value
     | SRet (Some value) _ | SStatementExpression value _ => size_e value
     | SRet None _ => 0
     | SBlob _ _ _ _ _ _ | SEnum _ _ _ _ _ | SExternalDefinition _ _ _ _ _ | SBreak _ | SContinue _
     | SUnreachable _ => 0
     end).
