(* C03: a definite type mismatch is rejected wherever it is placed.
   Part 1 (this file, `placement_gen`): propagation.  If the checker rejects the filler in the TypeCtx it
   has at the hole (in every well-formed state, with every fuel), then it rejects the whole plugged term:
   every Ok path of the traversal visits every child, `bind` propagates non-Ok, and everything the checker
   does before it reaches the hole keeps the type graph well formed (TcInv).
   Part 2 (`Mismatch.v`): local rejection of each mismatch kind in an arbitrary well-formed state. *)
From Coq Require Import String List NArith ZArith PArith Bool Lia FMapPositive.
From Sylt Require Import Syntax.Resolved Types.TyGraph Types.Tc Types.Ctx Types.TcInv.
Import ListNotations.
Local Open Scope tc_scope.

Definition notok {A} (o : outcome A) : Prop := forall a, o <> Ok a.

Lemma notok_err {A} e more : notok (@Err A e more).
Proof. intros a; discriminate. Qed.
Lemma notok_panic {A} p : notok (@Panic A p).
Proof. intros a; discriminate. Qed.
Lemma notok_oof {A} : notok (@OutOfFuel A).
Proof. intros a; discriminate. Qed.
Lemma notok_fail {A} k sp s : notok (@fail A k sp s).
Proof. intros a; discriminate. Qed.
Lemma notok_fuel {A} s : notok (@out_of_fuel A s).
Proof. intros a; discriminate. Qed.
Lemma notok_panicm {A} p s : notok (@panic A p s).
Proof. intros a; discriminate. Qed.
Lemma notok_fail_many {A} e more s : notok (@fail_many A e more s).
Proof. intros a; discriminate. Qed.
#[export] Hint Resolve notok_err notok_panic notok_oof notok_fail notok_fuel notok_panicm notok_fail_many : notok.

Lemma bind_notok_l {A B} (m : M A) (k : A -> M B) s : notok (m s) -> notok (bind m k s).
Proof.
  unfold notok, bind. intros H a. destruct (m s) as [[x s']| | |]; try discriminate.
  exfalso; eapply H; reflexivity.
Qed.

Lemma bind_notok_r {A B} (m : M A) (k : A -> M B) s : (forall a s', notok (k a s')) -> notok (bind m k s).
Proof.
  unfold notok, bind. intros H a. destruct (m s) as [[x s']| | |]; try discriminate. apply H.
Qed.

Lemma iterM_notok {A} (f : A -> M unit) pre x post :
  (forall s, notok (f x s)) -> forall s, notok (iterM f (pre ++ x :: post) s).
Proof.
  intros H. induction pre as [|p pre IH]; intros s; cbn [app iterM].
  - apply bind_notok_l, H.
  - apply bind_notok_r. intros a s'. apply IH.
Qed.

Lemma mapM_notok {A B} (f : A -> M B) pre x post :
  (forall s, notok (f x s)) -> forall s, notok (mapM f (pre ++ x :: post) s).
Proof.
  intros H. induction pre as [|p pre IH]; intros s; cbn [app mapM].
  - apply bind_notok_l, H.
  - apply bind_notok_r. intros a s'. apply bind_notok_l, IH.
Qed.

Lemma foldM_notok {A B} (f : B -> A -> M B) pre x post :
  (forall b s, notok (f b x s)) -> forall b s, notok (foldM f (pre ++ x :: post) b s).
Proof.
  intros H. induction pre as [|p pre IH]; intros b s; cbn [app foldM].
  - apply bind_notok_l, H.
  - apply bind_notok_r. intros a s'. apply IH.
Qed.

(* the same with an invariant threaded through: J is any property of states that every `pres` action keeps
   (well-formedness, possibly together with facts that extension preserves, e.g. "variable b is declared as
   a blob with fields K") *)
Definition pres_closed (J : st -> Prop) : Prop :=
  forall A (m : M A) s a s', pres m -> J s -> m s = Ok (a, s') -> J s'.

Lemma wf_pres_closed : pres_closed wf.
Proof. intros A m s a s' P W H. eapply P; eassumption. Qed.

Lemma inv_pres_closed (Inv : st -> Prop) :
  (forall s s', wf s -> ext s s' -> Inv s -> Inv s') -> pres_closed (fun s => wf s /\ Inv s).
Proof.
  intros HI A m s a s' P [W I] H. destruct (P _ _ _ W H) as [W' E']. split; [assumption|]. exact (HI s s' W E' I).
Qed.

Lemma bind_notok_rj (J : st -> Prop) (HJ : pres_closed J) {A B} (m : M A) (k : A -> M B) s :
  pres m -> J s -> (forall a s', J s' -> notok (k a s')) -> notok (bind m k s).
Proof.
  unfold notok, bind. intros P W H a. destruct (m s) as [[x s']| | |] eqn:E; try discriminate.
  apply H. eapply HJ; eassumption.
Qed.

Lemma iterM_notok_j (J : st -> Prop) (HJ : pres_closed J) {A} (f : A -> M unit) pre x post :
  (forall y, pres (f y)) -> (forall s, J s -> notok (f x s)) -> forall s, J s -> notok (iterM f (pre ++ x :: post) s).
Proof.
  intros P H. induction pre as [|p pre IH]; intros s W; cbn [app iterM].
  - apply bind_notok_l, H, W.
  - apply (bind_notok_rj J HJ); [apply P|assumption|]. intros a s' W'. now apply IH.
Qed.

Lemma mapM_notok_j (J : st -> Prop) (HJ : pres_closed J) {A B} (f : A -> M B) pre x post :
  (forall y, pres (f y)) -> (forall s, J s -> notok (f x s)) -> forall s, J s -> notok (mapM f (pre ++ x :: post) s).
Proof.
  intros P H. induction pre as [|p pre IH]; intros s W; cbn [app mapM].
  - apply bind_notok_l, H, W.
  - apply (bind_notok_rj J HJ); [apply P|assumption|]. intros a s' W'. apply bind_notok_l. now apply IH.
Qed.

Lemma foldM_notok_j (J : st -> Prop) (HJ : pres_closed J) {A B} (f : B -> A -> M B) pre x post :
  (forall b y, pres (f b y)) -> (forall b s, J s -> notok (f b x s)) ->
  forall b s, J s -> notok (foldM f (pre ++ x :: post) b s).
Proof.
  intros P H. induction pre as [|p pre IH]; intros b s W; cbn [app foldM].
  - apply bind_notok_l, H, W.
  - apply (bind_notok_rj J HJ); [apply P|assumption|]. intros a s' W'. now apply IH.
Qed.

Lemma bind_notok_rw {A B} (m : M A) (k : A -> M B) s :
  pres m -> wf s -> (forall a s', wf s' -> notok (k a s')) -> notok (bind m k s).
Proof.
  unfold notok, bind. intros P W H a. destruct (m s) as [[x s']| | |] eqn:E; try discriminate.
  apply H. eapply P; eassumption.
Qed.

Lemma iterM_notok_w {A} (f : A -> M unit) pre x post :
  (forall y, pres (f y)) -> (forall s, wf s -> notok (f x s)) -> forall s, wf s -> notok (iterM f (pre ++ x :: post) s).
Proof.
  intros P H. induction pre as [|p pre IH]; intros s W; cbn [app iterM].
  - apply bind_notok_l, H, W.
  - apply bind_notok_rw; [apply P|assumption|]. intros a s' W'. now apply IH.
Qed.

Lemma mapM_notok_w {A B} (f : A -> M B) pre x post :
  (forall y, pres (f y)) -> (forall s, wf s -> notok (f x s)) -> forall s, wf s -> notok (mapM f (pre ++ x :: post) s).
Proof.
  intros P H. induction pre as [|p pre IH]; intros s W; cbn [app mapM].
  - apply bind_notok_l, H, W.
  - apply bind_notok_rw; [apply P|assumption|]. intros a s' W'. apply bind_notok_l. now apply IH.
Qed.

Lemma foldM_notok_w {A B} (f : B -> A -> M B) pre x post :
  (forall b y, pres (f b y)) -> (forall b s, wf s -> notok (f b x s)) ->
  forall b s, wf s -> notok (foldM f (pre ++ x :: post) b s).
Proof.
  intros P H. induction pre as [|p pre IH]; intros b s W; cbn [app foldM].
  - apply bind_notok_l, H, W.
  - apply bind_notok_rw; [apply P|assumption|]. intros a s' W'. now apply IH.
Qed.

Section Propagation.
  Variable kinds : PositiveMap.t varkind.
  Variable G : grec.
  Hypothesis PG : gpres G.
  Variable J : st -> Prop.
  Hypothesis HJ : pres_closed J.
  Variable he : expr.
  Variable hs : stmt.

  Notation afix := (afix kinds G).
  Notation plug_e := (plug_e he hs).
  Notation plug_s := (plug_s he hs).

  (* the filler is rejected in the given TypeCtx, in every state satisfying the invariant, with every fuel *)
  Definition rej_e_j (ctx : tctx) : Prop := forall f s, J s -> notok (r_expr (afix f) he ctx s).
  Definition rej_s_j (ctx : tctx) : Prop := forall f s, J s -> notok (r_stmt (afix f) hs ctx s).

  Notation at_e := (at_e rej_e_j rej_s_j).
  Notation at_s := (at_s rej_e_j rej_s_j).

  (* since f1d69d9 a last expression statement of a block is checked as the value of the block only *)
  Lemma block_notok R sp pre x post ctx : apres R ->
    (forall s, J s -> notok (r_stmt R x ctx s)) ->
    (forall e sp', x = SStatementExpression e sp' -> forall s, J s -> notok (r_expr R e ctx s)) ->
    forall s, J s -> notok (expression_block G R sp (pre ++ x :: post) ctx s).
  Proof.
    intros PR H He s W. unfold expression_block.
    destruct (block_split_cases (pre ++ x :: post)) as [(ss & e & sp' & El & Hs)|Hs]; rewrite Hs; cbn [fst snd].
    - (* the block ends with an expression statement: it is x, or x is before it *)
      destruct post as [|p post] using rev_ind.
      + change (pre ++ [x]) with (pre ++ [x]) in El. apply app_inj_tail in El. destruct El as [-> ->].
        apply (bind_notok_rj J HJ); [|assumption|].
        * apply pres_foldM. intros; prs.
        * intros r s1 W1. apply bind_notok_l. now apply (He e sp').
      + clear IHpost. rewrite app_comm_cons, app_assoc in El. apply app_inj_tail in El. destruct El as [<- _].
        apply bind_notok_l. apply (foldM_notok_j J HJ); [intros; prs| |assumption].
        intros b s' W'. apply bind_notok_l, H, W'.
    - apply bind_notok_l.
      apply (foldM_notok_j J HJ); [intros; prs| |assumption]. intros b s' W'. apply bind_notok_l, H, W'.
  Qed.

  Lemma call_args_notok R ctx x post (PR : apres R) (H : forall s, J s -> notok (r_expr R x ctx s)) :
    forall pre params r s, J s -> length (pre ++ x :: post) = length params ->
      notok (call_args G R ctx (pre ++ x :: post) params r s).
  Proof.
    induction pre as [|p pre IH]; intros params r s W Hl; destruct params as [|q params];
      cbn [app length] in Hl; try discriminate; cbn [app call_args].
    - apply bind_notok_l, H, W.
    - apply (bind_notok_rj J HJ); [prs|assumption|]. intros [? ?] ? W1.
      do 4 (apply (bind_notok_rj J HJ); [prs|assumption|]; intros ? ? ?).
      apply IH; [assumption|]. now injection Hl.
  Qed.

  Ltac skip := apply (bind_notok_rj J HJ); [prs|assumption|]; intros ? ? ?.
  Ltac skip_pair := apply (bind_notok_rj J HJ); [prs|assumption|]; intros [? ?] ? ?.
  Ltac here := apply bind_notok_l.

  Lemma notok_bind_total {A B} (m : M A) (k : A -> M B) s :
    (forall a s', exists b, k a s' = Ok b) -> notok (bind m k s) -> notok (m s).
  Proof.
    intros T H [a s'] E. destruct (T a s') as [b Eb]. apply (H b). unfold bind. rewrite E. exact Eb.
  Qed.

  (* a hole statement that is an expression statement: its expression is rejected too *)
  Lemma stmt_hole_expr f :
    (forall C ctx s, J s -> at_e C ctx -> notok (r_expr (afix f) (plug_e C) ctx s)) ->
    forall C ctx e sp', at_s C ctx -> plug_s C = SStatementExpression e sp' ->
      forall s, J s -> notok (r_expr (afix f) e ctx s).
  Proof.
    intros IHe C ctx e sp' Hat E s W. destruct C; cbn [Ctx.plug_s] in E; try discriminate.
    - cbn [Ctx.at_s] in Hat. specialize (Hat (S f) s W). rewrite E in Hat.
      cbn [Tc.afix astep r_stmt] in Hat. unfold stmt_body in Hat.
      eapply notok_bind_total; [|exact Hat]. intros [r v] s'. eexists. reflexivity.
    - injection E as <- _. cbn [Ctx.at_s] in Hat. now apply IHe.
  Qed.

  Lemma placement_j : forall f,
    (forall C ctx s, J s -> at_e C ctx -> notok (r_expr (afix f) (plug_e C) ctx s)) /\
    (forall C ctx s, J s -> at_s C ctx -> notok (r_stmt (afix f) (plug_s C) ctx s)).
  Proof.
    induction f as [|f [IHe IHs]]; split; intros C ctx s W Hat.
    - apply notok_fuel.
    - apply notok_fuel.
    - (* expressions *)
      pose proof (afix_pres kinds G PG f) as PA.
      destruct C; cbn [Ctx.at_e] in Hat.
      + now apply Hat.
      + (* XVariant *)
        cbn [Ctx.plug_e Tc.afix astep r_expr]. unfold expr_body. here. here. now apply IHe.
      + (* XCallF *)
        cbn [Ctx.plug_e Tc.afix astep r_expr]. unfold expr_body. here. here. now apply IHe.
      + (* XCallA *)
        cbn [Ctx.plug_e Tc.afix astep r_expr]. unfold expr_body. here. skip_pair. skip.
        destruct a; auto with notok.
        destruct (negb (Nat.eqb (length (pre ++ plug_e C :: post)) (length params))) eqn:El; auto with notok.
        destruct (inside_pure ctx && negb (is_pure_p p)); auto with notok.
        here. apply call_args_notok; [assumption| |assumption|].
        * intros s1 W1. now apply IHe.
        * apply Bool.negb_false_iff, PeanoNat.Nat.eqb_eq in El. exact El.
      + (* XAccess *)
        cbn [Ctx.plug_e Tc.afix astep r_expr]. unfold expr_body. here. here. now apply IHe.
      + (* XIndexV *)
        cbn [Ctx.plug_e Tc.afix astep r_expr]. unfold expr_body. here. here. now apply IHe.
      + (* XIndexI *)
        cbn [Ctx.plug_e Tc.afix astep r_expr]. unfold expr_body. here. skip_pair. here. now apply IHe.
      + (* XBinL *)
        cbn [Ctx.plug_e Tc.afix astep r_expr]. unfold expr_body. here.
        destruct op; auto with notok; unfold bin_op_ret, bin_op; repeat here; now apply IHe.
      + (* XBinR *)
        cbn [Ctx.plug_e Tc.afix astep r_expr]. unfold expr_body. here.
        destruct op; auto with notok; unfold bin_op_ret, bin_op;
          try (here; skip_pair; here; now apply IHe);
          try (skip_pair; here; now apply IHe).
      + (* XUni *)
        cbn [Ctx.plug_e Tc.afix astep r_expr]. unfold expr_body. here.
        destruct op; here; now apply IHe.
      + (* XIfC *)
        cbn [Ctx.plug_e Tc.afix astep r_expr]. unfold expr_body. here. here.
        apply (mapM_notok_j J HJ); [intros; prs| |assumption]. intros s1 W1. unfold if_branch. here. here. now apply IHe.
      + (* XIfB *)
        cbn [Ctx.plug_e Tc.afix astep r_expr]. unfold expr_body. here. here.
        apply (mapM_notok_j J HJ); [intros; prs| |assumption]. intros s1 W1. unfold if_branch.
        apply (bind_notok_rj J HJ); [prs|assumption|]; intros ? ? ?. here.
        apply block_notok; [assumption| | |assumption]; [intros s2 W2; now apply IHs|intros e0 sp0 E0; eapply (stmt_hole_expr f IHe); eassumption].
      + (* XCaseM *)
        cbn [Ctx.plug_e Tc.afix astep r_expr]. unfold expr_body. here. here. now apply IHe.
      + (* XCaseB *)
        cbn [Ctx.plug_e Tc.afix astep r_expr]. unfold expr_body. here. skip_pair. skip. skip. here.
        apply (foldM_notok_j J HJ); [intros; prs| |assumption]. intros [[? ?] ?] s1 W1. unfold case_branch.
        do 3 (apply (bind_notok_rj J HJ); [prs|assumption|]; intros ? ? ?). here.
        apply block_notok; [assumption| | |assumption]; [intros s2 W2; now apply IHs|intros e0 sp0 E0; eapply (stmt_hole_expr f IHe); eassumption].
      + (* XCaseF *)
        cbn [Ctx.plug_e Tc.afix astep r_expr]. unfold expr_body. here. skip_pair. skip. skip.
        apply (bind_notok_rj J HJ); [prs|assumption|]; intros [[? ?] ?] ? ?. here. here.
        apply block_notok; [assumption| | |assumption]; [intros s2 W2; now apply IHs|intros e0 sp0 E0; eapply (stmt_hole_expr f IHe); eassumption].
      + (* XFun *)
        cbn [Ctx.plug_e Tc.afix astep r_expr]. unfold expr_body. here. skip_pair. here.
        apply block_notok; [assumption| | |assumption]; [intros s2 W2; now apply IHs|intros e0 sp0 E0; eapply (stmt_hole_expr f IHe); eassumption].
      + (* XBlob *)
        cbn [Ctx.plug_e Tc.afix astep r_expr]. unfold expr_body. here. skip. skip. skip.
        destruct a1; auto with notok.
        skip.
        match goal with |- context [match ?l ++ ?r with _ => _ end] => destruct (l ++ r) end; auto with notok.
        skip. skip. skip. here.
        apply (foldM_notok_j J HJ); [intros; prs| |assumption]. intros b0 s1 W1. cbn [snd]. here. now apply IHe.
      + (* XColl *)
        cbn [Ctx.plug_e Tc.afix astep r_expr]. unfold expr_body. here.
        destruct k.
        * here. apply (foldM_notok_j J HJ); [intros; prs| |assumption]. intros b0 s1 W1. here. now apply IHe.
        * skip. here. apply (foldM_notok_j J HJ); [intros; prs| |assumption]. intros b0 s1 W1. here. now apply IHe.
    - (* statements *)
      pose proof (afix_pres kinds G PG f) as PA.
      destruct C; cbn [Ctx.at_s] in Hat.
      + now apply Hat.
      + (* YAssignT *)
        cbn [Ctx.plug_s Tc.afix astep r_stmt]. unfold stmt_body. skip.
        destruct (inside_pure ctx); auto with notok.
        skip_pair. here. now apply IHe.
      + (* YAssignV *)
        cbn [Ctx.plug_s Tc.afix astep r_stmt]. unfold stmt_body. skip.
        destruct (inside_pure ctx); auto with notok.
        here. now apply IHe.
      + (* YDef *)
        cbn [Ctx.plug_s Tc.afix astep r_stmt]. unfold stmt_body, definition.
        destruct (inside_pure ctx && negb (immutable kind)); auto with notok.
        skip. skip. skip. skip. skip. here. now apply IHe.
      + (* YLoopC *)
        cbn [Ctx.plug_s Tc.afix astep r_stmt]. unfold stmt_body. here. now apply IHe.
      + (* YLoopB *)
        cbn [Ctx.plug_s Tc.afix astep r_stmt]. unfold stmt_body. skip_pair. skip. skip. here.
        apply block_notok; [assumption| | |assumption]; [intros s2 W2; now apply IHs|intros e0 sp0 E0; eapply (stmt_hole_expr f IHe); eassumption].
      + (* YRet *)
        cbn [Ctx.plug_s Tc.afix astep r_stmt]. unfold stmt_body. here. now apply IHe.
      + (* YBlock *)
        cbn [Ctx.plug_s Tc.afix astep r_stmt]. unfold stmt_body. here.
        apply block_notok; [assumption| | |assumption]; [intros s2 W2; now apply IHs|intros e0 sp0 E0; eapply (stmt_hole_expr f IHe); eassumption].
      + (* YExpr *)
        cbn [Ctx.plug_s Tc.afix astep r_stmt]. unfold stmt_body. here. now apply IHe.
  Qed.

  Theorem placement_expr_j f C ctx s : J s -> at_e C ctx -> notok (r_expr (afix f) (plug_e C) ctx s).
  Proof. apply (proj1 (placement_j f)). Qed.

  Theorem placement_stmt_j f C ctx s : J s -> at_s C ctx -> notok (r_stmt (afix f) (plug_s C) ctx s).
  Proof. apply (proj2 (placement_j f)). Qed.

  (* ---- whole programs *)

  (* a statement filler placed directly at the top level goes through `definition` exactly as an
     inner definition does; anything else panics at the top level (`Illegal outer statement`) *)
  Definition rej_top_j : Prop := forall f s, J s -> notok (outer_statement kinds G (afix f) hs ctx_new s).

  Lemma outer_def_notok_j f name var kind t C sp s :
    J s -> at_e C ctx_new ->
    notok (outer_statement kinds G (afix f) (SDefinition name var kind t (plug_e C) sp) ctx_new s).
  Proof.
    intros W Hat. pose proof (afix_pres kinds G PG f) as PA.
    unfold outer_statement. here. unfold definition.
    destruct (inside_pure ctx_new && negb (immutable kind)); auto with notok.
    do 5 skip. here. now apply placement_expr_j.
  Qed.

  Lemma solve_notok_j f P start s :
    J s -> at_p rej_e_j rej_s_j rej_top_j P ->
    notok (solve kinds G (afix f) (plug_p he hs P) start s).
  Proof.
    intros W Hat. pose proof (afix_pres kinds G PG f) as PA.
    unfold solve. apply (bind_notok_rj J HJ); [apply pres_iterM; intros; now apply pres_outer_statement|assumption|].
    clear s W. intros _ s W. here. destruct P; cbn [plug_p at_p] in *.
    - apply (iterM_notok_j J HJ); [intros; now apply pres_outer_statement| |assumption].
      intros s1 W1. cbv beta. now apply outer_def_notok_j.
    - apply (iterM_notok_j J HJ); [intros; now apply pres_outer_statement| |assumption].
      intros s1 W1. cbv beta. now apply Hat.
  Qed.
End Propagation.

(* the instances for plain well-formedness *)
Definition rej_e kinds G he := rej_e_j kinds G wf he.
Definition rej_s kinds G hs := rej_s_j kinds G wf hs.
Definition rej_top kinds G hs := rej_top_j kinds G wf hs.

Definition placement_gen kinds G (PG : gpres G) := placement_j kinds G PG wf wf_pres_closed.
Definition placement_expr kinds G (PG : gpres G) := placement_expr_j kinds G PG wf wf_pres_closed.
Definition placement_stmt kinds G (PG : gpres G) := placement_stmt_j kinds G PG wf wf_pres_closed.
Definition solve_notok kinds G (PG : gpres G) := solve_notok_j kinds G PG wf wf_pres_closed.


(* contexts whose hole is a statement hole need no hypothesis about the expression filler *)
Lemma at_shole (Pe Ps : tctx -> Prop) :
  (forall c, Ps c) ->
  (forall C ctx, is_shole_e C = true -> at_e Pe Ps C ctx) /\ (forall C ctx, is_shole_s C = true -> at_s Pe Ps C ctx).
Proof.
  intros Hs.
  assert (X : forall n, (forall C ctx, ectx_size C <= n -> is_shole_e C = true -> at_e Pe Ps C ctx) /\
                        (forall C ctx, sctx_size C <= n -> is_shole_s C = true -> at_s Pe Ps C ctx)).
  { induction n as [|n [IHe IHs]]; split; intros C ctx Hn Hh.
    - destruct C; cbn in Hn; lia.
    - destruct C; cbn in Hn; lia.
    - destruct C; cbn [Ctx.at_e is_shole_e] in *; cbn [ectx_size] in Hn; try discriminate;
        try (apply IHe; [lia|exact Hh]); try (apply IHs; [lia|exact Hh]).
    - destruct C; cbn [Ctx.at_s is_shole_s] in *; cbn [sctx_size] in Hn; try apply Hs;
        try (apply IHe; [lia|exact Hh]); try (apply IHs; [lia|exact Hh]). }
  split; intros C ctx; [apply (proj1 (X (ectx_size C)))|apply (proj2 (X (sctx_size C)))]; lia.
Qed.

(* the verdict of typecheck *)
Lemma typecheck_notok fuel vars stmts :
  (forall s, wf s -> notok (solve (kinds_of vars 1 (PositiveMap.empty varkind)) (gfix fuel)
                          (afix (kinds_of vars 1 (PositiveMap.empty varkind)) (gfix fuel) fuel)
                          stmts (find_start vars) s)) ->
  typecheck fuel (mkResolved vars stmts) <> Ok tt.
Proof.
  intros H. unfold typecheck. cbn [r_vars r_stmts].
  match goal with |- match ?m ?s with _ => _ end <> _ => assert (N : notok (m s)) end.
  { apply bind_notok_rw; [apply pres_init_vars|apply wf_empty|]. intros ? ? W. now apply H. }
  match goal with |- match ?o with _ => _ end <> _ => destruct o as [[? ?]| | |] end; try discriminate.
  exfalso. eapply N. reflexivity.
Qed.

(* nothing is produced unless the type checker returned Ok (compiler.rs: `typechecker::solve(..)?`
   comes before `lua::generate`) *)
Theorem no_output_on_error {L} (lower : resolved -> L) fuel r :
  (forall lua, compile_after_order lower fuel r = COk lua -> typecheck fuel r = Ok tt /\ lua = lower r) /\
  (forall e more, compile_after_order lower fuel r = CErr e more -> typecheck fuel r = Err e more) /\
  (typecheck fuel r <> Ok tt -> forall lua, compile_after_order lower fuel r <> COk lua).
Proof.
  unfold compile_after_order. destruct (typecheck fuel r) as [[]| | |]; repeat split; intros; try discriminate;
    try congruence.
Qed.

(* since 3c0758d solve goes through the type declarations once before everything else: that pass keeps the state
   well-formed, so a program is rejected when its main pass is rejected from every well-formed state *)
Lemma typecheck_notok_main fuel vars stmts :
  (forall s, wf s ->
     notok (iterM (fun st => outer_statement (kinds_of vars 1 (PositiveMap.empty varkind)) (gfix fuel)
                               (afix (kinds_of vars 1 (PositiveMap.empty varkind)) (gfix fuel) fuel) st ctx_new) stmts s)) ->
  typecheck fuel (mkResolved vars stmts) <> Ok tt.
Proof.
  intros H. apply typecheck_notok. intros s W. unfold solve.
  apply bind_notok_rw; [|exact W|].
  - apply pres_iterM. intros. apply pres_outer_statement; [apply gfix_pres|apply afix_pres, gfix_pres].
  - intros _ s1 W1. apply bind_notok_l. now apply H.
Qed.
