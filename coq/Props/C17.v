(* C17 -- Tokenizer: tokens tile the source and carry exact positions.
   Only pinned statements, `exact`, and Print Assumptions. *)
From Coq Require Import String List NArith Bool.
From Sylt Require Import Lex.Regex Lex.Logos Lex.RegexProofs Lex.LexerProofs Lex.DocTokens Gen.GenTokens.
Import ListNotations.

(* Obligation 1 (table tie): the token table regenerated from token.rs on this run is the documented
   token set (same kinds, same languages up to association, same priorities, same callbacks). *)
Theorem C17_tokens_doc : table_equiv gen_table (doc_table nd) = true.
Proof. vm_compute. reflexivity. Qed.

(* Obligation 2 (side condition of the tiling theorem on the regenerated table):
   whatever is skipped between tokens consists of spaces, tabs and carriage returns only. *)
Theorem C17_skip_ok : skip_ok gen_table = true.
Proof. vm_compute. reflexivity. Qed.

(* Tiling: for every input, the tokens appear in source order, are non-empty, do not overlap, and
   only spaces, tabs and carriage returns lie before, between and after them. *)
Theorem C17_tiles : forall s : list N, tiles s 0 (lex gen_table s).
Proof. intros s. exact (lex_tiles gen_table s C17_skip_ok). Qed.

(* The raw token texts (including the skipped whitespace runs) concatenate to the input. *)
Theorem C17_raw_tiles : forall s : list N,
  concat (map r_text (raw_lex (length s) gen_table s)) = s.
Proof. intros s. exact (raw_lex_tiles gen_table s). Qed.

(* Longest match + positions, per token: for every input s and every token tk of its token stream
   with code-point range [a, b):
   - a < b <= |s|;
   - line_start = 1 + #newlines before a; col_start = 1 + #chars between the last newline before a and a;
     line_end / col_end likewise for the last character b-1 of the token (col_end is one past it);
   - s[a..b) is the longest prefix of s[a..] in the language of any pattern, the token's kind is the
     highest-priority pattern matching that prefix (or Error if its callback rejects the text), or
     no pattern matches any prefix of s[a..] and the token is Error. *)
Theorem C17_token_spec : forall (s : list N) (tk : ptoken),
  In tk (lex gen_table s) ->
  let a := N.to_nat (t_cp0 tk) in
  let b := N.to_nat (t_cp1 tk) in
  let before := firstn a s in
  let rem := skipn a s in
  a < b <= length s /\
  t_span tk = mkSpan (line_of before) (line_of (firstn (b - 1) s))
                     (col_of before) (1 + col_of (firstn (b - 1) s)) /\
  ((exists p, longest_match gen_table rem (b - a) p /\ p_cb p <> CbSkip /\
              ((t_kind tk = p_kind p /\ run_callback (p_cb p) (firstn (b - a) rem) = Some (t_pl tk)) \/
               (t_kind tk = error_kind /\ run_callback (p_cb p) (firstn (b - a) rem) = None)))
   \/ (no_match gen_table rem /\ t_kind tk = error_kind)).
Proof. intros s tk. exact (lex_token_spec gen_table s tk). Qed.

(* The matcher used by the model decides the declarative regular-expression semantics. *)
Theorem C17_match_sound : forall r s, re_match r s = true <-> matches r s.
Proof. exact re_match_correct. Qed.

(* Non-vacuity: a concrete input with a multi-byte character, a string literal that spans two lines
   and a token after it. *)
Example C17_example :
  map (fun tk => (t_kind tk, line_start (t_span tk), col_start (t_span tk), line_end (t_span tk), col_end (t_span tk)))
      (lex gen_table [246; 32; 34; 97; 10; 98; 34; 32; 122; 10; 49]%N)
  = [("Error"%string, 1, 1, 1, 2); ("String"%string, 1, 3, 2, 3); ("Identifier"%string, 2, 4, 2, 5);
     ("Newline"%string, 2, 5, 2, 6); ("Int"%string, 3, 1, 3, 2)]%N.
Proof. vm_compute. reflexivity. Qed.

Print Assumptions C17_tokens_doc.
Print Assumptions C17_skip_ok.
Print Assumptions C17_tiles.
Print Assumptions C17_raw_tiles.
Print Assumptions C17_token_spec.
Print Assumptions C17_match_sound.
