(* Reader for the `treef` dump of the harness (sylt_parser::tree as S-expressions with full spans,
   see harness/src/sexp.rs) into the extracted types of coq/Resolve/PAst.v.
   Textually included after `open <ExtractedModule>` and after rast_reader.ml (module Rast_reader:
   sx_parse, number/string conversions). *)
open Rast_reader

exception Unsupported of string

(* "name@f:l0:l1:c0:c1" -> (name, span);  "kind@..." likewise *)
let split_at (a : string) : string * span =
  match String.rindex_opt a '@' with
  | None -> failwith ("no span on atom " ^ a)
  | Some k ->
      let nm = String.sub a 0 k in
      let rest = String.sub a (k + 1) (String.length a - k - 1) in
      (match String.split_on_char ':' rest with
       | [f; l0; l1; c0; c1] ->
           (nm, { sp_file = rr_n_of_dec f; sp_line0 = rr_n_of_dec l0; sp_line1 = rr_n_of_dec l1;
                  sp_col0 = rr_n_of_dec c0; sp_col1 = rr_n_of_dec c1 })
       | _ -> failwith ("bad span on atom " ^ a))

let pr_ident = function
  | A a -> let (nm, sp) = split_at a in { i_name = rr_chars nm; i_span = sp }
  | _ -> failwith "expected identifier"

let pr_opt_ident = function A "_" -> None | x -> Some (pr_ident x)

let pr_hexstr = function A a -> rr_chars (rr_unhex a) | _ -> failwith "expected hex string"

let pr_file = function
  | A a when String.length a >= 5 && String.sub a 0 5 = "file:" -> File (rr_chars (String.sub a 5 (String.length a - 5)))
  | A a when String.length a >= 4 && String.sub a 0 4 = "lib:" -> Lib (rr_chars (String.sub a 4 (String.length a - 4)))
  | _ -> failwith "expected file:/lib:"

let rec pr_ta = function
  | L [A h; i] when fst (split_at h) = "tread" -> TARead (pr_ident i, snd (split_at h))
  | L [A h; t; i] when fst (split_at h) = "taccess" -> TAAccess (pr_ta t, pr_ident i, snd (split_at h))
  | _ -> failwith "type assignable"

let pr_base = function
  | "void" -> BVoid | "nil" -> BNil | "int" -> BInt | "float" -> BFloat | "bool" -> BBool | "str" -> BStr
  | "unknown" -> BUnknown
  | s -> raise (Unsupported ("resolved type " ^ s))

let pr_bare_name = function A a -> rr_chars a | _ -> failwith "expected name"

let rec pr_ty = function
  | L [A h; inner] when fst (split_at h) = "ty" ->
      let sp = snd (split_at h) in
      (match inner with
       | A "implied" -> PTImplied sp
       | L [A "res"; A b] -> PTResolved (pr_base b, sp)
       | L (A "user" :: ta :: args) -> PTUser (pr_ta ta, List.map pr_ty args, sp)
       | L [A "fnty"; A pure; L cons; L params; ret] ->
           let con = function
             | L (A "cons" :: v :: cs) ->
                 (pr_bare_name v,
                  List.map (function L (n :: args) -> { tc_name = pr_bare_name n; tc_args = List.map pr_bare_name args }
                                   | _ -> failwith "constraint") cs)
             | _ -> failwith "cons" in
           PTFn (List.map con cons, List.map pr_ty params, pr_ty ret, pure = "pure", sp)
       | L (A "tuplety" :: ts) -> PTTuple (List.map pr_ty ts, sp)
       | L [A "listty"; t] -> PTList (pr_ty t, sp)
       | L [A "generic"; n] -> PTGeneric (pr_bare_name n, sp)
       | L [A "group"; t] -> PTGrouping (pr_ty t, sp)
       | _ -> failwith "type kind")
  | _ -> failwith "type"

let head = function L (A h :: rest) -> (h, rest) | _ -> failwith "expected node"

let rec pr_ass x =
  let (h, rest) = head x in
  let (k, sp) = split_at h in
  match k, rest with
  | "read", [i] -> ARead (pr_ident i, sp)
  | "variant", [a; v; e] -> AVariant (pr_ass a, pr_ident v, pr_expr e, sp)
  | "call", f :: args -> ACall (pr_ass f, List.map pr_expr args, sp)
  | "arrow", e :: f :: args -> AArrowCall (pr_expr e, pr_ass f, List.map pr_expr args, sp)
  | "access", [a; i] -> AAccess (pr_ass a, pr_ident i, sp)
  | "index", [a; e] -> AIndex (pr_ass a, pr_expr e, sp)
  | "aexpr", [e] -> AExpression (pr_expr e, sp)
  | _ -> failwith ("assignable " ^ k)

and pr_expr x =
  let (h, rest) = head x in
  let (k, sp) = split_at h in
  match k, rest with
  | "get", [a] -> PGet (pr_ass a, sp)
  | "add", [a; b] -> PAdd (pr_expr a, pr_expr b, sp)
  | "sub", [a; b] -> PSub (pr_expr a, pr_expr b, sp)
  | "mul", [a; b] -> PMul (pr_expr a, pr_expr b, sp)
  | "div", [a; b] -> PDiv (pr_expr a, pr_expr b, sp)
  | "neg", [a] -> PNeg (pr_expr a, sp)
  | "cmp", [A op; a; b] ->
      let ck = (match op with
        | "eq" -> CKEquals | "ne" -> CKNotEquals | "gt" -> CKGreater | "ge" -> CKGreaterEqual
        | "lt" -> CKLess | "le" -> CKLessEqual | _ -> failwith "cmp") in
      PComparison (pr_expr a, ck, pr_expr b, sp)
  | "assert", [a; b] -> PAssertEq (pr_expr a, pr_expr b, sp)
  | "and", [a; b] -> PAnd (pr_expr a, pr_expr b, sp)
  | "or", [a; b] -> POr (pr_expr a, pr_expr b, sp)
  | "not", [a] -> PNot (pr_expr a, sp)
  | "paren", [a] -> PParenthesis (pr_expr a, sp)
  | "if", brs ->
      PIf (List.map (function
        | L (A bh :: c :: body) when fst (split_at bh) = "br" ->
            PIfBranch ((match c with A "_" -> None | c -> Some (pr_expr c)), List.map pr_stmt body, snd (split_at bh))
        | _ -> failwith "if branch") brs, sp)
  | "case", m :: rest ->
      let rec arms acc = function
        | [A "_"] -> (List.rev acc, None)
        | [L (A "else" :: body)] -> (List.rev acc, Some (List.map pr_stmt body))
        | L (A "arm" :: p :: v :: body) :: tl ->
            arms (PCaseBranch (pr_ident p, pr_opt_ident v, List.map pr_stmt body) :: acc) tl
        | _ -> failwith "case arms" in
      let (brs, ft) = arms [] rest in
      PCase (pr_expr m, brs, ft, sp)
  | "fn", A pure :: nm :: L params :: ret :: body ->
      PFunction (pr_hexstr nm,
                 List.map (function L [A "p"; i; t] -> (pr_ident i, pr_ty t) | _ -> failwith "param") params,
                 pr_ty ret, List.map pr_stmt body, pure = "pure", sp)
  | "blob", ta :: fields ->
      PBlob (pr_ta ta, List.map (function L [A "f"; n; e] -> (pr_bare_name n, pr_expr e) | _ -> failwith "blob field") fields, sp)
  | "tuple", es -> PTuple (List.map pr_expr es, sp)
  | "list", es -> PList (List.map pr_expr es, sp)
  | "float", [A f] -> PFloat (rr_chars f, sp)
  | "int", [A i] -> PInt (rr_z_of_dec i, sp)
  | "str", [s] -> PStr (pr_hexstr s, sp)
  | "bool", [A b] -> PBool (b = "true", sp)
  | "nil", [] -> PNil sp
  | _ -> failwith ("expression " ^ k)

and pr_stmt x =
  let (h, rest) = head x in
  let (k, sp) = split_at h in
  let kind = function A "const" -> Const | A "mut" -> Mutable | _ -> failwith "var kind" in
  match k, rest with
  | "use", [p; L [A "implicit"; i]; f] -> PUse (pr_ident p, Implicit (pr_ident i), pr_file f, sp)
  | "use", [p; L [A "alias"; i]; f] -> PUse (pr_ident p, Alias (pr_ident i), pr_file f, sp)
  | "fromuse", p :: rest ->
      let rec imps acc = function
        | [f] -> (List.rev acc, pr_file f)
        | L [A "imp"; i; a] :: tl -> imps ((pr_ident i, pr_opt_ident a) :: acc) tl
        | _ -> failwith "fromuse" in
      let (is, f) = imps [] rest in
      PFromUse (pr_ident p, is, f, sp)
  | "blobdef", n :: A ext :: L vars :: fields ->
      PBlobDef (pr_ident n, List.map pr_ident vars,
                List.map (function L [A "field"; i; t] -> (pr_ident i, pr_ty t) | _ -> failwith "field") fields,
                ext = "ext", sp)
  | "enumdef", n :: L vars :: variants ->
      PEnumDef (pr_ident n, List.map pr_ident vars,
                List.map (function L [A "variant"; i; t] -> (pr_ident i, pr_ty t) | _ -> failwith "variant") variants, sp)
  | "assign", [A op; t; v] ->
      let o = (match op with "nop" -> OpNop | "add" -> OpAdd | "sub" -> OpSub | "mul" -> OpMul | "div" -> OpDiv
                           | _ -> failwith "op") in
      PAssignment (o, pr_ass t, pr_expr v, sp)
  | "def", [i; kd; t; v] -> PDefinition (pr_ident i, kind kd, pr_ty t, pr_expr v, sp)
  | "extdef", [i; kd; t] -> PExternalDefinition (pr_ident i, kind kd, pr_ty t, sp)
  | "loop", [c; b] -> PLoop (pr_expr c, pr_stmt b, sp)
  | "break", [] -> PBreak sp
  | "continue", [] -> PContinue sp
  | "ret", [A "_"] -> PRet (None, sp)
  | "ret", [v] -> PRet (Some (pr_expr v), sp)
  | "block", ss -> PBlock (List.map pr_stmt ss, sp)
  | "sexpr", [v] -> PStatementExpression (pr_expr v, sp)
  | "unreachable", [] -> PUnreachable sp
  | "empty", [] -> PEmptyStatement sp
  | _ -> failwith ("statement " ^ k)

let pr_module = function
  | L (A "module" :: f :: A id :: stmts) ->
      { m_file = pr_file f; m_file_id = rr_n_of_dec id; m_stmts = List.map pr_stmt stmts }
  | _ -> failwith "module"

(* the whole dump: a sequence of (module ...) forms *)
let read_past (s : string) : pmodule list =
  match sx_parse ("(" ^ s ^ ")") with
  | L ms -> List.map pr_module ms
  | _ -> failwith "tree dump"
