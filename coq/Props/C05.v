(* C05 -- Blob, enum, tuple, loop and entry-point shape rules are enforced.
   Only pinned statements, `exact`, Examples by vm_compute, and Print Assumptions. *)
From Coq Require Import String List NArith ZArith PArith Bool FMapPositive.
From Sylt Require Import Syntax.Resolved Types.TyGraph Types.Tc Types.Ctx Types.TcInv Types.Reject Types.Mismatch Types.Shapes Types.ShapesDecl.
Import ListNotations.
Local Open Scope string_scope.

(* loop_ctx: the checker's inside_loop flag at a position is true iff the position is inside the body of a
   loop of the same function (nested function bodies start outside any loop; so does the condition of a
   loop, even of a nested one). *)
Theorem C05_loop_ctx :
  (forall C ctx, inside_loop (ctx_at_e C ctx) = in_own_loop_e C (inside_loop ctx)) /\
  (forall C ctx, inside_loop (ctx_at_s C ctx) = in_own_loop_s C (inside_loop ctx)).
Proof. exact Shapes.loop_ctx. Qed.

(* `break` / `continue` that is not inside a loop of the same function is rejected wherever it stands
   (any nesting of branches, blocks, case arms and enclosing functions and their loops) *)
Theorem C05_break_outside_loop_rejected : forall kinds G (PG : gpres G) (he : expr) (st : stmt) sp,
  st = SBreak sp \/ st = SContinue sp ->
  forall f,
    (forall C ctx s, wf s -> is_shole_e C = true -> in_own_loop_e C (inside_loop ctx) = false ->
                     notok (r_expr (afix kinds G f) (plug_e he st C) ctx s)) /\
    (forall C ctx s, wf s -> is_shole_s C = true -> in_own_loop_s C (inside_loop ctx) = false ->
                     notok (r_stmt (afix kinds G f) (plug_s he st C) ctx s)).
Proof. exact Shapes.break_outside_loop_rejected. Qed.

(* and it is accepted inside one: the rule is exact *)
Theorem C05_break_accepted : forall kinds G sp f ctx s (st : stmt),
  st = SBreak sp \/ st = SContinue sp ->
  inside_loop ctx = true -> r_stmt (afix kinds G (S f)) st ctx s = Ok (None, s).
Proof. exact Shapes.break_accepted. Qed.

(* start_required: without a global `start` the type checker rejects ... *)
Theorem C05_start_required : forall fuel vars stmts,
  find_start vars = None -> typecheck fuel (mkResolved vars stmts) <> Ok tt.
Proof. exact Shapes.start_required. Qed.

(* ... and so it does when the class of `start` has a head that is not a function of no arguments (since /repo 3c0758d
   solve goes through the type declarations once before all the statements: the hypothesis is about the pass over all
   the statements, from whatever well-formed state the first pass left) *)
Theorem C05_start_wrong_type : forall kinds g R stmts v s,
  wf s -> apres R ->
  (forall s0 u s', wf s0 -> iterM (fun st => outer_statement kinds (gfix g) R st ctx_new) stmts s0 = Ok (u, s') ->
                forall t, var_ty kinds (v_id v) s' = Ok (t, s') ->
                exists h, head s' t = Some h /\ is_unknown h = false /\ same_shape h (HFn [] 1%positive PUndefined) = false) ->
  notok (solve kinds (gfix g) R stmts (Some v) s).
Proof. exact Shapes.start_wrong_type. Qed.

(* decl_stable: whatever the checker does, a class whose head is a blob / enum keeps the set of its
   field / variant names *)
Theorem C05_decl_stable : forall {A} (m : M A) s a s' i,
  pres m -> wf s -> m s = Ok (a, s') ->
  (forall name sp f args, head s i = Some (HBlob name sp f args) ->
     exists name' sp' f' args', head s' i = Some (HBlob name' sp' f' args') /\ same_keys f f') /\
  (forall name sp f args, head s i = Some (HEnum name sp f args) ->
     exists name' sp' f' args', head s' i = Some (HEnum name' sp' f' args') /\ same_keys f f').
Proof. intros A. exact (@TcInv.decl_stable A). Qed.

(* ---- blob / enum / tuple rules.  The program's statements are in the order the compiler hands them to the
   checker (declarations first): `pre ++ declaration :: mid ++ (a definition whose value contains the violation
   at any position C) :: post`, for all pre, mid, post, C, every fuel and variable table. *)

(* after `Name :: blob { ... }` the class of Name is a blob with exactly the declared field names, whatever the
   declared field types and type parameters are; likewise for enums and externblobs *)
Theorem C05_blob_established : forall kinds g R (PR : apres R) name var sp tvars fields external ctx s u s',
  wf s -> outer_statement kinds (gfix g) R (SBlob name var sp tvars fields external) ctx s = Ok (u, s') ->
  if external then decl_extern var s' else decl_blob var (map fst fields) s'.
Proof. exact ShapesDecl.blob_established. Qed.

Theorem C05_enum_established : forall kinds g R (PR : apres R) name var sp tvars variants ctx s u s',
  wf s -> outer_statement kinds (gfix g) R (SEnum name var sp tvars variants) ctx s = Ok (u, s') ->
  decl_enum var (map fst variants) s'.
Proof. exact ShapesDecl.enum_established. Qed.

(* instantiating a blob with a missing or an unknown field *)
Theorem C05_blob_instance_shape_rejected : forall name v sp tvars bfields fields self isp,
  bad_fields (map fst bfields) (map fst fields) ->
  forall pre mid post dname dvar dkind dty (C : ectx) dsp sp0 fuel vars,
    typecheck fuel (mkResolved vars
      (pre ++ SBlob name v sp tvars bfields false :: mid ++
       SDefinition dname dvar dkind dty (plug_e (EBlob v fields self isp) (SStatementExpression (EBlob v fields self isp) sp0) C) dsp :: post))
    <> Ok tt.
Proof. exact ShapesDecl.blob_instance_shape_rejected. Qed.

(* instantiating an externblob *)
Theorem C05_extern_instance_rejected : forall name v sp tvars bfields fields self isp,
  forall pre mid post dname dvar dkind dty (C : ectx) dsp sp0 fuel vars,
    typecheck fuel (mkResolved vars
      (pre ++ SBlob name v sp tvars bfields true :: mid ++
       SDefinition dname dvar dkind dty (plug_e (EBlob v fields self isp) (SStatementExpression (EBlob v fields self isp) sp0) C) dsp :: post))
    <> Ok tt.
Proof. exact ShapesDecl.extern_instance_rejected. Qed.

(* constructing an enum variant that does not exist *)
Theorem C05_unknown_variant_rejected : forall name ev sp tvars variants variant value vsp,
  ~ In variant (map fst variants) ->
  forall pre mid post dname dvar dkind dty (C : ectx) dsp sp0 fuel vars,
    typecheck fuel (mkResolved vars
      (pre ++ SEnum name ev sp tvars variants :: mid ++
       SDefinition dname dvar dkind dty (plug_e (EVariant ev variant value vsp) (SStatementExpression (EVariant ev variant value vsp) sp0) C) dsp :: post))
    <> Ok tt.
Proof. exact ShapesDecl.unknown_variant_rejected. Qed.

(* accessing a field the blob does not have *)
Theorem C05_absent_field_access_rejected : forall name v sp tvars bfields fields self isp field asp,
  ~ In field (map fst bfields) ->
  forall pre mid post dname dvar dkind dty (C : ectx) dsp sp0 fuel vars,
    let e := EBlobAccess (EBlob v fields self isp) field asp in
    typecheck fuel (mkResolved vars
      (pre ++ SBlob name v sp tvars bfields false :: mid ++
       SDefinition dname dvar dkind dty (plug_e e (SStatementExpression e sp0) C) dsp :: post))
    <> Ok tt.
Proof. exact ShapesDecl.absent_field_access_rejected. Qed.

(* more generally: on any expression whose value the checker knows to be that blob *)
Theorem C05_absent_field_rejected : forall kinds g K value field sp f ctx s,
  wf s ->
  (forall f' ctx' s0 r s1, ext s s0 -> wf s0 -> r_expr (afix kinds (gfix g) f') value ctx' s0 = Ok (r, s1) -> blob_head K s1 (snd r)) ->
  ~ In field K ->
  notok (r_expr (afix kinds (gfix g) f) (EBlobAccess value field sp) ctx s).
Proof. exact ShapesDecl.absent_field_rejected. Qed.

(* matching a variant that does not exist *)
Theorem C05_case_unknown_variant_rejected :
  forall name ev sp tvars variants var0 value vsp pre0 pat psp bvar body bsp post0 fall csp,
  ~ In pat (map fst variants) ->
  forall pre mid post dname dvar dkind dty (C : ectx) dsp sp0 fuel vars,
    let e := ECase (EVariant ev var0 value vsp) (pre0 ++ CaseBranch pat psp bvar body bsp :: post0) fall csp in
    typecheck fuel (mkResolved vars
      (pre ++ SEnum name ev sp tvars variants :: mid ++
       SDefinition dname dvar dkind dty (plug_e e (SStatementExpression e sp0) C) dsp :: post))
    <> Ok tt.
Proof. exact ShapesDecl.case_unknown_variant_rejected. Qed.

(* the instance a round-5 seed broke (it checked the pattern only of arms that BIND a value): an arm that binds nothing
   (`Nope -> .. end`), in a case that has an `else`, naming a variant the enum does not have -- rejected like any other *)
Theorem C05_case_unknown_variant_no_binding_else :
  forall name ev sp tvars variants var0 value vsp pre0 pat psp body bsp post0 ft csp,
  ~ In pat (map fst variants) ->
  forall pre mid post dname dvar dkind dty (C : ectx) dsp sp0 fuel vars,
    let e := ECase (EVariant ev var0 value vsp) (pre0 ++ CaseBranch pat psp None body bsp :: post0) (Some ft) csp in
    typecheck fuel (mkResolved vars
      (pre ++ SEnum name ev sp tvars variants :: mid ++
       SDefinition dname dvar dkind dty (plug_e e (SStatementExpression e sp0) C) dsp :: post))
    <> Ok tt.
Proof.
  intros name ev sp tvars variants var0 value vsp pre0 pat psp body bsp post0 ft csp.
  exact (ShapesDecl.case_unknown_variant_rejected name ev sp tvars variants var0 value vsp pre0 pat psp None body bsp post0 (Some ft) csp).
Qed.

(* a `case` without `else` that does not list every variant of the enum (arms naming variants that do not
   exist are covered by the theorem above: together, the arm set must be exactly the variant set) *)
Theorem C05_case_not_total_rejected : forall name ev sp tvars variants var0 value vsp branches csp k0,
  In k0 (map fst variants) -> ~ In k0 (map branch_pattern branches) ->
  forall pre mid post dname dvar dkind dty (C : ectx) dsp sp0 fuel vars,
    let e := ECase (EVariant ev var0 value vsp) branches None csp in
    typecheck fuel (mkResolved vars
      (pre ++ SEnum name ev sp tvars variants :: mid ++
       SDefinition dname dvar dkind dty (plug_e e (SStatementExpression e sp0) C) dsp :: post))
    <> Ok tt.
Proof. exact ShapesDecl.case_not_total_rejected_prog. Qed.

(* indexing a tuple outside its length; comparing tuples of different lengths *)
Theorem C05_tuple_index_out_of_range_rejected : forall values sp1 i sp2 sp,
  (i < 0 \/ Z.of_nat (length values) <= i)%Z ->
  forall (P : pctx) sp0 fuel vars,
    (match P with PTop _ _ => False | _ => True end) ->
    let e := EIndex (ECollection CTuple values sp1) (EInt i sp2) sp in
    typecheck fuel (mkResolved vars (plug_p e (SStatementExpression e sp0) P)) <> Ok tt.
Proof. exact ShapesDecl.tuple_index_out_of_range_rejected. Qed.

Theorem C05_tuple_length_mismatch_rejected : forall op xs ys spx spy sp,
  op = Equals \/ op = NotEquals \/ op = AssertEq -> length xs <> length ys ->
  forall (P : pctx) sp0 fuel vars,
    (match P with PTop _ _ => False | _ => True end) ->
    let e := EBinOp op (ECollection CTuple xs spx) (ECollection CTuple ys spy) sp in
    typecheck fuel (mkResolved vars (plug_p e (SStatementExpression e sp0) P)) <> Ok tt.
Proof. exact ShapesDecl.tuple_length_mismatch_rejected. Qed.

(* every instantiation copies the shape of what it instantiates, and touches nothing that existed *)
Theorem C05_copy_shape : forall g a s r s',
  wf s -> copy (gfix g) a s = Ok (r, s') ->
  wf s' /\ frame s s' /\ exists h h', head s a = Some h /\ head s' r = Some h' /\ copy_like h h'.
Proof. exact TcInv.copy_shape. Qed.

(* ---- non-vacuity *)
Definition sp0 : span := mkSpan 0 1 1 1 2.
Definition spl (l : N) : span := mkSpan 0 l l 1 2.
Definition prog (body : list stmt) : resolved :=
  mkResolved [mkVar 0 "start" sp0 true Const; mkVar 1 "f" (spl 3) false Const]
             [SDefinition "start" 0 Const (TImplied sp0)
                          (EFunction "lambda" [] (TResolved BVoid sp0) body false sp0) sp0].

(* start :: fn do loop true do break end end  -- accepted *)
Example C05_example_break_in_loop :
  typecheck 40 (prog [SLoop (EBool true (spl 2)) [SBreak (spl 3)] (spl 2)]) = Ok tt.
Proof. vm_compute. reflexivity. Qed.

(* start :: fn do loop true do f :: fn do break end end end  -- the closure's body is not in a loop *)
Example C05_example_break_in_closure :
  typecheck 40 (prog [SLoop (EBool true (spl 2))
                        [SDefinition "f" 1 Const (TImplied (spl 3))
                           (EFunction "lambda" [] (TResolved BVoid (spl 3)) [SBreak (spl 4)] false (spl 3)) (spl 3)] (spl 2)])
  = Err (mkErr KExotic (spl 4)) [].
Proof. vm_compute. reflexivity. Qed.

Example C05_example_no_start :
  typecheck 40 (mkResolved [mkVar 0 "x" sp0 true Const] [SDefinition "x" 0 Const (TImplied sp0) (EInt 1 sp0) sp0])
  = Err (mkErr KExotic (span_zero 0)) [].
Proof. vm_compute. reflexivity. Qed.

Example C05_example_start_not_fn :
  typecheck 40 (mkResolved [mkVar 0 "start" sp0 true Const] [SDefinition "start" 0 Const (TImplied sp0) (EInt 1 sp0) sp0])
  = Err (mkErr KMismatch sp0) [].
Proof. vm_compute. reflexivity. Qed.

(* E :: enum P int, Q end ; start :: fn do case E.P 1 do Nope -> end else end end -- no binding, with else: UnknownVariant;
   with the arm `P -> end` instead: accepted *)
Definition case_prog (pat : string) : resolved :=
  mkResolved [mkVar 0 "E" sp0 true Const; mkVar 1 "start" (spl 5) true Const]
    [SEnum "E" 0 sp0 [] [("P", (spl 2, TResolved BInt (spl 2))); ("Q", (spl 3, TResolved BVoid (spl 3)))];
     SDefinition "start" 1 Const (TImplied (spl 5))
       (EFunction "lambda" [] (TResolved BVoid (spl 5))
          [SStatementExpression
             (ECase (EVariant 0 "P" (EInt 1 (spl 6)) (spl 6)) [CaseBranch pat (spl 7) None [] (spl 7)] (Some []) (spl 6)) (spl 6)]
          false (spl 5)) (spl 5)].
Example C05_example_case_no_binding_else :
  typecheck 60 (case_prog "Nope") = Err (mkErr KUnknownVariant (spl 6)) [] /\ typecheck 60 (case_prog "P") = Ok tt.
Proof. split; vm_compute; reflexivity. Qed.

(* B :: blob { a: int, b: str } ; start :: fn do B { a: 1 } end  -- missing field *)
Definition blob_prog (fields : list (string * expr)) : resolved :=
  mkResolved [mkVar 0 "B" sp0 true Const; mkVar 1 "start" (spl 5) true Const; mkVar 2 "self" (spl 6) false Const]
    [SBlob "B" 0 sp0 [] [("a", (spl 2, TResolved BInt (spl 2))); ("b", (spl 3, TResolved BStr (spl 3)))] false;
     SDefinition "start" 1 Const (TImplied (spl 5))
       (EFunction "lambda" [] (TResolved BVoid (spl 5))
          [SStatementExpression (EBlob 0 fields 2 (spl 6)) (spl 6)] false (spl 5)) (spl 5)].

Example C05_example_blob_ok :
  typecheck 60 (blob_prog [("a", EInt 1 (spl 6)); ("b", EStr "x" (spl 6))]) = Ok tt.
Proof. vm_compute. reflexivity. Qed.

Example C05_example_blob_missing :
  typecheck 60 (blob_prog [("a", EInt 1 (spl 6))]) = Err (mkErr KMissingField (spl 6)) [].
Proof. vm_compute. reflexivity. Qed.

Example C05_example_bad_fields : bad_fields ["a"; "b"] ["a"].
Proof. left. exists "b". split; [cbn; auto|cbn; intros [H|[]]; discriminate]. Qed.

Print Assumptions C05_loop_ctx.
Print Assumptions C05_break_outside_loop_rejected.
Print Assumptions C05_break_accepted.
Print Assumptions C05_start_required.
Print Assumptions C05_start_wrong_type.
Print Assumptions C05_decl_stable.
Print Assumptions C05_blob_established.
Print Assumptions C05_enum_established.
Print Assumptions C05_blob_instance_shape_rejected.
Print Assumptions C05_extern_instance_rejected.
Print Assumptions C05_unknown_variant_rejected.
Print Assumptions C05_tuple_index_out_of_range_rejected.
Print Assumptions C05_tuple_length_mismatch_rejected.
Print Assumptions C05_copy_shape.
Print Assumptions C05_absent_field_access_rejected.
Print Assumptions C05_absent_field_rejected.
Print Assumptions C05_case_unknown_variant_rejected.
Print Assumptions C05_case_unknown_variant_no_binding_else.
Print Assumptions C05_case_not_total_rejected.

(* ---- source tie: the hand-written model behind these theorems mirrors the files below; the digests of their
   functions regenerated from /repo on this run equal the reviewed ones (coq/Doc/DocSrcDigest.v).  Any edit of
   such a function breaks this obligation: the differential tie and the oracle then decide (tools/check.py). *)
From Sylt Require Doc.SrcDigest Doc.DocSrcDigest Gen.GenSrcDigest.
Theorem C05_model_sources_reviewed :
  Sylt.Doc.SrcDigest.sources_reviewed ["sylt-compiler/src/typechecker.rs"%string; "sylt-compiler/src/ty.rs"%string]
    Sylt.Doc.DocSrcDigest.doc_src_digests Sylt.Gen.GenSrcDigest.src_digests = true.
Proof. vm_compute. reflexivity. Qed.
Print Assumptions C05_model_sources_reviewed.
