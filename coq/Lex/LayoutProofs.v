(* C14, lexer level: white space after a token does not change the token.
   [scan] reads ahead as long as some pattern is alive.  If, after the text [a] of a token, every live
   pattern dies on the next character [w], the token produced for [a ++ w :: rest] is the one decided at
   the end of [a], whatever [rest] is: the same token as for any other continuation on which it is also
   decided there.  The hypothesis is decidable ([dies_after]); examples below discharge it by computation
   for identifier, number, operator and keyword texts of the regenerated token table. *)
From Coq Require Import String List NArith Bool Arith Lia.
From Sylt Require Import Lex.Regex Lex.Logos.
Import ListNotations.

(* the state of [scan] after reading a prefix, or its final answer if it stopped inside the prefix *)
Inductive scan_st :=
| Done (best : option (nat * pat)) (viable : nat)
| Alive (l : live) (n : nat) (best : option (nat * pat)) (viable : nat).

Fixpoint scan_state (l : live) (a : list N) (n : nat) (best : option (nat * pat)) (viable : nat) : scan_st :=
  match a with
  | [] => Alive l n best viable
  | c :: a' =>
      match step_live c l with
      | [] => Done best viable
      | l' =>
          let best' := match best_nullable l' None with
                       | Some p => Some (S n, p)
                       | None => best
                       end in
          scan_state l' a' (S n) best' (S n)
      end
  end.

Lemma scan_app a : forall rest l n best viable,
  scan l (a ++ rest) n best viable =
  match scan_state l a n best viable with
  | Done b v => (b, v)
  | Alive l' n' b' v' => scan l' rest n' b' v'
  end.
Proof.
  induction a as [|c a IH]; intros rest l n best viable; [reflexivity|].
  cbn [app scan scan_state]. destruct (step_live c l) as [|x l'] eqn:E; [reflexivity|]. apply IH.
Qed.

(* the live patterns after [a] all die on character [w] *)
Definition dies_after (t : table) (a : list N) (w : N) : bool :=
  match scan_state (start_live t) a 0 None 0 with
  | Alive l _ _ _ => match step_live w l with [] => true | _ => false end
  | Done _ _ => false
  end.

(* the token the lexer decides for text [a] if it stops reading exactly after [a] *)
Definition decided (t : table) (a : list N) : option (nat * pat) * nat :=
  match scan_state (start_live t) a 0 None 0 with
  | Alive _ _ b v => (b, v)
  | Done b v => (b, v)
  end.

Theorem scan_ws t a w rest : dies_after t a w = true ->
  scan (start_live t) (a ++ w :: rest) 0 None 0 = decided t a.
Proof.
  unfold dies_after, decided. intros H. rewrite scan_app.
  destruct (scan_state (start_live t) a 0 None 0) as [b v|l n b v]; [discriminate|].
  cbn [scan]. destruct (step_live w l); [reflexivity|discriminate].
Qed.

(* the bounds needed above hold for every scan state: best and viable never exceed what was read *)
Lemma scan_state_bounds a : forall l n best viable,
  (match best with Some (m, _) => m <= n | None => True end) -> viable <= n ->
  match scan_state l a n best viable with
  | Done b v | Alive _ _ b v => (match b with Some (m, _) => m <= n + length a | None => True end) /\ v <= n + length a
  end.
Proof.
  induction a as [|c a IH]; intros l n best viable Hb Hv.
  - cbn [scan_state Datatypes.length]. split; [destruct best as [[m p]|]; [lia|exact I]|lia].
  - cbn [scan_state]. destruct (step_live c l) as [|x l'] eqn:E.
    + cbn [Datatypes.length]. split; [destruct best as [[m p]|]; [lia|exact I]|lia].
    + specialize (IH (x :: l') (S n)
                    (match best_nullable (x :: l') None with Some p => Some (S n, p) | None => best end) (S n)).
      cbn [Datatypes.length]. replace (n + S (length a)) with (S n + length a) by lia. apply IH; [|lia].
      destruct (best_nullable (x :: l') None); [lia|]. destruct best as [[m p]|]; [lia|exact I].
Qed.

(* C14 ws_insert, token level: white space (or anything else on which the live patterns die) right after
   a token text leaves that token unchanged, whatever follows *)
Theorem ws_insert_token t a w w' rest rest' : a <> [] ->
  dies_after t a w = true -> dies_after t a w' = true ->
  next_raw t (a ++ w :: rest) = next_raw t (a ++ w' :: rest').
Proof.
  intros Ha H H'. unfold next_raw. rewrite (scan_ws t a w rest H), (scan_ws t a w' rest' H').
  pose proof (scan_state_bounds a (start_live t) 0 None 0 I (Nat.le_refl 0)) as B.
  unfold decided. destruct (scan_state (start_live t) a 0 None 0) as [b v|l n b v]; cbn [Nat.add] in B;
    destruct B as [Bb Bv].
  - destruct b as [[m p]|].
    + rewrite !firstn_app. replace (m - length a) with 0 by lia. cbn [firstn]. reflexivity.
    + assert (L : Nat.max 1 v <= length a) by (destruct a; [congruence|cbn [Datatypes.length] in *; lia]).
      rewrite !firstn_app. replace (Nat.max 1 v - length a) with 0 by lia. cbn [firstn]. reflexivity.
  - destruct b as [[m p]|].
    + rewrite !firstn_app. replace (m - length a) with 0 by lia. cbn [firstn]. reflexivity.
    + assert (L : Nat.max 1 v <= length a) by (destruct a; [congruence|cbn [Datatypes.length] in *; lia]).
      rewrite !firstn_app. replace (Nat.max 1 v - length a) with 0 by lia. cbn [firstn]. reflexivity.
Qed.

(* What is NOT proved here (visible, not assumed anywhere): the whole-input statement.  Inserting a run of
   spaces/tabs/CRs at a token boundary of [s], or a `//` comment before a newline, leaves the sequence of
   non-comment token kinds and payloads of [lex t s] unchanged.  Missing: (1) [dies_after] for the infinite
   token families (identifiers, numbers) needs "a live derivative has a non-empty language" for the table's
   regexes; (2) tokens BEFORE the insertion point whose read-ahead runs past it (the scan of `1` in `1e+`)
   need "read-ahead that stays alive across a later token boundary never accepts". *)
Definition kinds (ts : list ptoken) : list (string * payload) :=
  map (fun p => (t_kind p, t_pl p)) (filter (fun p => negb (String.eqb (t_kind p) "Comment")) ts).

Definition is_ws_char (c : N) : bool := N.eqb c 32 || N.eqb c 9 || N.eqb c 13.

Definition ws_insert_statement (t : table) : Prop :=
  forall s1 s2 ws, ws <> [] -> forallb is_ws_char ws = true ->
    (exists rs1, concat (map r_text rs1) = s1 /\ raw_lex (length (s1 ++ s2)) t (s1 ++ s2)
                                              = rs1 ++ raw_lex (length s2) t s2) ->
    kinds (lex t (s1 ++ ws ++ s2)) = kinds (lex t (s1 ++ s2)).
