-- expect-wf: ok
-- expect: 2
local i = 0
while true do
  ::L12::
  i = i + 1
  if (i < 3) then
  else
    break
  end
  local V1 = i
  if (V1 == 1) then
    goto L12
  end
  print(V1)
end
