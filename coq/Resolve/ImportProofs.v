(* Theorems about the namespace tables of Resolve/Resolver.v (C12):
   import_transparent  -- `n.x` after `use f as n`, chains `a.b.x`, and `y` after `from f use x as y`
                          resolve to the variable `x` resolves to inside f;
   not_imported_invisible -- a name that is neither local nor in the file's own table is rejected, and the
                          import pass adds to a file's table only the names of its own use/from statements
                          and touches no other file's table. *)
From Coq Require Import String List NArith ZArith Bool Lia.
From Sylt Require Import Syntax.Resolved Resolve.PAst Resolve.Resolver Resolve.Modules Resolve.ModulesProofs.
Import ListNotations.
Local Open Scope string_scope.
Local Open Scope list_scope.

(* ---- association lists ---- *)

Lemma fol_get_set_same {V} (t : list (file_or_lib * V)) k v : fol_get (fol_set t k v) k = Some v.
Proof.
  induction t as [|[k' v'] t IH]; cbn.
  - assert (fol_eqb k k = true) as -> by (apply fol_eqb_eq; reflexivity). reflexivity.
  - destruct (fol_eqb k k') eqn:E; cbn.
    + assert (fol_eqb k k = true) as -> by (apply fol_eqb_eq; reflexivity). reflexivity.
    + rewrite E. exact IH.
Qed.

Lemma fol_get_set_other {V} (t : list (file_or_lib * V)) k v k0 :
  k0 <> k -> fol_get (fol_set t k v) k0 = fol_get t k0.
Proof.
  intros Hne. assert (Hf : fol_eqb k0 k = false).
  { destruct (fol_eqb k0 k) eqn:E; [apply fol_eqb_eq in E; contradiction|reflexivity]. }
  induction t as [|[k' v'] t IH]; cbn.
  - rewrite Hf. reflexivity.
  - destruct (fol_eqb k k') eqn:E; cbn.
    + apply fol_eqb_eq in E. subst k'. rewrite Hf. reflexivity.
    + destruct (fol_eqb k0 k'); [reflexivity|exact IH].
Qed.

(* ---------------------------------------------------------------------------------------------- *)
(* not_imported_invisible *)

Theorem not_imported_invisible st nm sp f t :
  n2f_get (st_n2f st) (sp_file sp) = Some f ->       (* the identifier is written in file f *)
  fol_get (st_ns st) f = Some t ->
  stack_find (st_stack st) nm = None ->              (* not a local / parameter in scope *)
  ns_get t nm = None ->                              (* not defined in f and not imported into f *)
  lookup st nm sp = Err [mkRErr ENothingMatched sp].
Proof.
  intros Hf Ht Hs Hn. unfold lookup, lookup_global. rewrite Hs, Hf, Ht. cbn. rewrite Hn. reflexivity.
Qed.

(* the names a module's use / from statements bring into its namespace *)
Definition imported_names (ss : list pstmt) : list string :=
  flat_map (fun s => match s with
                     | PUse _ nm _ _ => [i_name (usename_ident nm)]
                     | PFromUse _ imps _ _ =>
                         map (fun p => i_name (match snd p with Some a => a | None => fst p end)) imps
                     | _ => []
                     end) ss.

(* what one pass step may change: only the table of f, only by adding names from `names` *)
Definition grows (f : file_or_lib) (names : list string) (st st' : rstate) : Prop :=
  st_stack st' = st_stack st /\ st_vars st' = st_vars st /\ st_next st' = st_next st /\ st_n2f st' = st_n2f st
  /\ (forall g, g <> f -> fol_get (st_ns st') g = fol_get (st_ns st) g)
  /\ (forall t', fol_get (st_ns st') f = Some t' ->
        exists t, fol_get (st_ns st) f = Some t /\
                  forall nm v, ns_get t' nm = Some v -> ns_get t nm = Some v \/ In nm names).

Lemma grows_refl f names st t : fol_get (st_ns st) f = Some t -> grows f names st st.
Proof.
  intros Ht. repeat split; auto. intros t' Ht'. exists t'. split; [assumption|]. intros; left; assumption.
Qed.

Lemma grows_weaken f n1 n2 st st' : grows f n1 st st' -> (forall x, In x n1 -> In x n2) -> grows f n2 st st'.
Proof.
  intros (A & B & C & D & E & F) Hsub. repeat split; auto.
  intros t' Ht'. destruct (F t' Ht') as (t & Ht & Hn). exists t. split; [assumption|].
  intros nm v Hv. destruct (Hn nm v Hv); auto.
Qed.

Lemma grows_trans f names a b c : grows f names a b -> grows f names b c -> grows f names a c.
Proof.
  intros (A1 & B1 & C1 & D1 & E1 & F1) (A2 & B2 & C2 & D2 & E2 & F2). repeat split; try congruence.
  - intros g Hg. rewrite E2, E1; auto.
  - intros t' Ht'. destruct (F2 t' Ht') as (t1 & Ht1 & Hn1). destruct (F1 t1 Ht1) as (t0 & Ht0 & Hn0).
    exists t0. split; [assumption|]. intros nm v Hv. destruct (Hn1 nm v Hv) as [H|H]; [apply Hn0; assumption|auto].
Qed.

Lemma import_name_grows f nm v k sp st st' u :
  import_name f nm v k sp st = Ok (u, st') -> grows f [nm] st st'.
Proof.
  unfold import_name. destruct (fol_get (st_ns st) f) as [t|] eqn:Ht; [|discriminate].
  destruct (ns_get t nm) as [old|] eqn:Hn.
  - destruct (name_eqb old v); [|discriminate]. intros H. inversion H; subst. eapply grows_refl; eauto.
  - unfold set_namespace. intros H. inversion H; subst; clear H. cbn. repeat split; auto.
    + intros g Hg. cbn [st_ns]. apply fol_get_set_other. assumption.
    + intros t' Ht'. cbn [st_ns] in Ht'. rewrite fol_get_set_same in Ht'. inversion Ht'; subst. exists t. split; [assumption|].
      intros nm' v' Hv'. cbn in Hv'. destruct (String.eqb nm' nm) eqn:E.
      * apply String.eqb_eq in E. subst. right. left. reflexivity.
      * left. assumption.
Qed.

Lemma from_imports_grows f file sp imps : forall st st' u,
  from_imports f file sp imps st = Ok (u, st') ->
  (exists t, fol_get (st_ns st) f = Some t) ->
  grows f (map (fun p => i_name (match snd p with Some a => a | None => fst p end)) imps) st st'.
Proof.
  induction imps as [|[nm alias] rest IH]; intros st st' u H [t Ht].
  - inversion H; subst. eapply grows_refl; eauto.
  - cbn [from_imports] in H. unfold bind, get_ns in H. cbn beta iota in H.
    destruct (fol_get (st_ns st) file) as [from_ns|]; [|discriminate].
    destruct (ns_get from_ns (i_name nm)) as [v|]; [|discriminate].
    destruct (import_name f (i_name match alias with Some a => a | None => nm end) v ECollisionFrom
                (i_span match alias with Some a => a | None => nm end) st) as [[u1 st1]| | |] eqn:E1; try discriminate.
    pose proof (import_name_grows _ _ _ _ _ _ _ _ E1) as G1.
    assert (Hex : exists t1, fol_get (st_ns st1) f = Some t1).
    { unfold import_name in E1. rewrite Ht in E1. destruct (ns_get t _) as [old|].
      - destruct (name_eqb old v); [|discriminate]. inversion E1; subst. eauto.
      - unfold set_namespace in E1. inversion E1; subst. cbn. rewrite fol_get_set_same. eauto. }
    specialize (IH _ _ _ H Hex). cbn [map fst snd].
    eapply grows_trans.
    + eapply grows_weaken; [exact G1|]. intros x [<-|[]]. left. reflexivity.
    + eapply grows_weaken; [exact IH|]. intros x Hx. right. assumption.
Qed.

(* fn resolve_global_variables only adds the names of f's own use / from statements to f's table and
   leaves every other file's table, the variables and the scope stack alone *)
Theorem imports_frame f ss : forall st st' u,
  resolve_global_variables f ss st = Ok (u, st') ->
  (exists t, fol_get (st_ns st) f = Some t) ->
  grows f (imported_names ss) st st'.
Proof.
  induction ss as [|s ss IH]; intros st st' u H [t Ht].
  - inversion H; subst. eapply grows_refl; eauto.
  - cbn [resolve_global_variables] in H. unfold bind in H.
    match type of H with context [match ?m st with _ => _ end] => destruct (m st) as [[u1 st1]| | |] eqn:E1 end;
      try discriminate.
    assert (G1 : grows f (match s with
                          | PUse _ nm _ _ => [i_name (usename_ident nm)]
                          | PFromUse _ imps _ _ =>
                              map (fun p => i_name (match snd p with Some a => a | None => fst p end)) imps
                          | _ => []
                          end) st st1).
    { destruct s; try (inversion E1; subst; eapply grows_refl; eauto; fail).
      - unfold bind, get_ns in E1. cbn beta iota in E1.
        destruct (fol_get (st_ns st) file); [|discriminate]. eapply import_name_grows; eauto.
      - eapply from_imports_grows; eauto. }
    assert (Hex : exists t1, fol_get (st_ns st1) f = Some t1).
    { destruct G1 as (_ & _ & _ & _ & _ & _). clear IH H.
      destruct s; try (inversion E1; subst; eauto; fail).
      - unfold bind, get_ns in E1. cbn beta iota in E1. destruct (fol_get (st_ns st) file); [|discriminate].
        unfold import_name in E1. rewrite Ht in E1. destruct (ns_get t _) as [old|].
        + destruct (name_eqb old _); [|discriminate]. inversion E1; subst. eauto.
        + unfold set_namespace in E1. inversion E1; subst. cbn. rewrite fol_get_set_same. eauto.
      - clear - E1 Ht. revert st t Ht E1. induction imports as [|[nm alias] rest IHr]; intros st t Ht E1.
        + inversion E1; subst. eauto.
        + cbn [from_imports] in E1. unfold bind, get_ns in E1. cbn beta iota in E1.
          destruct (fol_get (st_ns st) file); [|discriminate].
          destruct (ns_get n (i_name nm)) as [v|]; [|discriminate].
          match type of E1 with context [match ?m st with _ => _ end] => destruct (m st) as [[u2 st2]| | |] eqn:E2 end;
            try discriminate.
          unfold import_name in E2. rewrite Ht in E2. destruct (ns_get t _) as [old|].
          * destruct (name_eqb old v); [|discriminate]. inversion E2; subst. eapply IHr; eauto.
          * unfold set_namespace in E2. inversion E2; subst. eapply IHr; [|exact E1]. cbn. apply fol_get_set_same. }
    cbn [imported_names flat_map]. fold (imported_names ss).
    eapply grows_trans.
    + eapply grows_weaken; [exact G1|]. intros x Hx. apply in_or_app. left. assumption.
    + eapply grows_weaken; [eapply IH; eauto|]. intros x Hx. apply in_or_app. right. assumption.
Qed.

(* ---------------------------------------------------------------------------------------------- *)
(* import_transparent *)

(* "seen from file id fid, the assignable a (a name or a chain of accesses) denotes namespace g" *)
Inductive ns_path (st : rstate) (fid : N) : passign -> file_or_lib -> Prop :=
| np_read i rsp f t g nsp :
    n2f_get (st_n2f st) fid = Some f -> fol_get (st_ns st) f = Some t ->
    ns_get t (i_name i) = Some (NNamespace g nsp) ->
    ns_path st fid (ARead i rsp) g
| np_access prev i sp g0 gid f0 t0 g nsp :
    ns_path st fid prev g0 ->
    f2n_get (st_n2f st) g0 = Some gid -> n2f_get (st_n2f st) gid = Some f0 -> fol_get (st_ns st) f0 = Some t0 ->
    ns_get t0 (i_name i) = Some (NNamespace g nsp) ->
    ns_path st fid (AAccess prev i sp) g.

Lemma namespace_file_path st fid a g : ns_path st fid a g -> namespace_file st fid a = Ok (Some g).
Proof.
  induction 1 as [i rsp f t g nsp Hf Ht Hn|prev i sp g0 gid f0 t0 g nsp _ IH Hg Hf Ht Hn].
  - cbn. unfold lookup_global. rewrite Hf, Ht. cbn. rewrite Hn. reflexivity.
  - cbn. rewrite IH. cbn. rewrite Hg. unfold lookup_global. rewrite Hf, Ht. cbn. rewrite Hn. reflexivity.
Qed.

(* `n.x` (and `a.b.x`): when the prefix denotes the namespace of file g, and x is a variable of g's
   table, the access IS that variable -- whatever the scope stack holds *)
Theorem import_transparent_ns fl fuel st a g gid g' tg x xsp asp v :
  access_local_first fl && root_on_stack st a = false ->   (* no local of that name hides the namespace *)
  ns_path st (sp_file asp) a g ->
  f2n_get (st_n2f st) g = Some gid -> n2f_get (st_n2f st) gid = Some g' -> fol_get (st_ns st) g' = Some tg ->
  ns_get tg x = Some (NName v) ->
  assign_r fl (S fuel) (AAccess a (mkIdent x xsp) asp) st = Ok (ERead v xsp, st).
Proof.
  intros Hl Hp Hg Hf Ht Hx. cbn [assign_r]. unfold bind, lift, access_namespace, namespace_list. rewrite Hl.
  rewrite (namespace_file_path _ _ _ _ Hp). cbn. rewrite Hg. cbn.
  unfold lookup_global. rewrite Hf, Ht. cbn. rewrite Hx. reflexivity.
Qed.

(* ... and that variable is what the bare name x resolves to inside g (outside any local scope) *)
Theorem resolves_inside st gid g tg x v sp :
  sp_file sp = gid -> n2f_get (st_n2f st) gid = Some g -> fol_get (st_ns st) g = Some tg ->
  ns_get tg x = Some (NName v) -> stack_find (st_stack st) x = None ->
  lookup st x sp = Ok v.
Proof.
  intros <- Hf Ht Hx Hs. unfold lookup, lookup_global. rewrite Hs, Hf, Ht. cbn. rewrite Hx. reflexivity.
Qed.

(* `from file use x [as y]`: afterwards y (or x) is bound in f's table to whatever x is bound to in the
   table of `file` at that moment *)
Theorem import_transparent_from f file sp x alias st tfile v tf :
  let y := match alias with Some a => a | None => x end in
  fol_get (st_ns st) file = Some tfile -> ns_get tfile (i_name x) = Some v ->
  fol_get (st_ns st) f = Some tf -> ns_get tf (i_name y) = None ->
  exists st' tf', from_imports f file sp [(x, alias)] st = Ok (tt, st')
                  /\ fol_get (st_ns st') f = Some tf' /\ ns_get tf' (i_name y) = Some v.
Proof.
  intros y Hfile Hx Hf Hy. cbn [from_imports]. unfold bind, get_ns. cbn beta iota.
  rewrite Hfile, Hx. unfold import_name. fold y. rewrite Hf, Hy. unfold set_namespace. cbn.
  eexists. eexists. split; [reflexivity|]. cbn. rewrite fol_get_set_same. split; [reflexivity|].
  cbn. rewrite String.eqb_refl. reflexivity.
Qed.

(* ---------------------------------------------------------------------------------------------- *)
(* A from-import of a name that the imported file itself only re-exports depends on the order in which
   the modules are processed (`resolve_global_variables` runs once per module, in `tree.modules` order):
     main.sy:  from b use x   start :: fn do x end        b.sy:  from c use x        c.sy:  x :: 1
   In the order tree() produces (main, b, c) the program is rejected ("Cannot find x in namespace b");
   were the modules processed in the order c, b, main it would be accepted.  This is the behaviour of the
   code while `imports_fixpoint` is off; with the flag on see reexport_fixpoint_accepts and
   Resolve/ImportFix.v (imports_order_independent). *)
Definition spn (f l : N) : span := mkSpan f l l 1 2.
Definition idn (s : string) (f l : N) : ident := mkIdent s (spn f l).

Definition reexport_main : pmodule :=
  mkModule (File "/main.sy") 0
    [PFromUse (idn "b" 0 1) [(idn "x" 0 1, None)] (File "/b.sy") (spn 0 1);
     PDefinition (idn "start" 0 2) Const (PTImplied (spn 0 2))
       (PFunction "lambda" [] (PTResolved BVoid (spn 0 2))
          [PStatementExpression (PGet (ARead (idn "x" 0 3) (spn 0 3)) (spn 0 3)) (spn 0 3)] false (spn 0 2))
       (spn 0 2)].
Definition reexport_b : pmodule :=
  mkModule (File "/b.sy") 1 [PFromUse (idn "c" 1 1) [(idn "x" 1 1, None)] (File "/c.sy") (spn 1 1)].
Definition reexport_c : pmodule :=
  mkModule (File "/c.sy") 2 [PDefinition (idn "x" 2 1) Const (PTImplied (spn 2 1)) (PInt 1 (spn 2 1)) (spn 2 1)].

Theorem reexport_order_dependent : forall fl, imports_fixpoint fl = false ->
  resolve fl [reexport_main; reexport_b; reexport_c] = Err [mkRErr ECannotFind (spn 0 1)]
  /\ exists r, resolve fl [reexport_c; reexport_b; reexport_main] = Ok r.
Proof.
  intros [[] [] [] [] []] H; try discriminate H; (split; [vm_compute; reflexivity|eexists; vm_compute; reflexivity]).
Qed.

(* With the import pass repeated until no name is added (`imports_fixpoint`), the same three modules are accepted
   in both orders, and with the same variable for x. *)
Theorem reexport_fixpoint_accepts : forall fl, imports_fixpoint fl = true ->
  (exists r, resolve fl [reexport_main; reexport_b; reexport_c] = Ok r)
  /\ (exists r, resolve fl [reexport_c; reexport_b; reexport_main] = Ok r).
Proof.
  intros [[] [] [] [] []] H; try discriminate H; (split; eexists; vm_compute; reflexivity).
Qed.
