(* Glue used by the extracted driver and by examples: source text -> lexer model -> parser model ->
   the line the harness prints.  Definitions only. *)
From Coq Require Import String List NArith Bool.
From Sylt Require Import Lex.Regex Lex.Logos Syntax.Ast Syntax.Tok Syntax.Sexp Parse.PrecTable Parse.Parser.
Import ListNotations.

Inductive line :=
| LOk (consumed total : nat) (sexp : string)
| LErr (consumed total : nat) (spans : list (N * N * N))      (* line, col_start, col_end of each error *)
| LFuel
| LPanic.

Inductive mode := MExpr | MStmt | MOuter | MType | MModule.

(* Context::span(): the span of the token at the index, of the last token past the end, zero without tokens *)
Definition span_at (pts : list ptoken) (pos : nat) : N * N * N :=
  match nth_error pts pos with
  | Some p => (line_start (t_span p), col_start (t_span p), col_end (t_span p))
  | None =>
      match rev pts with
      | p :: _ => (line_start (t_span p), col_start (t_span p), col_end (t_span p))
      | [] => (0, 0, 0)%N
      end
  end.

Definition finish {A : Type} (pts : list ptoken) (pr : A -> string) (r : res (A * ctx)) : line :=
  match r with
  | Ok (x, c) => LOk (consumed c) (length pts) (pr x)
  | Err c es => LErr (consumed c) (length pts) (map (span_at pts) es)
  | Fuel => LFuel
  | Panic => LPanic
  end.

Definition sexp_module (ss : list stmt) : string :=
  ("(module" ++ concat_map (fun s => " " ++ sexp_s s) ss ++ ")")%string.

Definition drive_toks (T : ptab) (m : mode) (pts : list ptoken) : line :=
  let ts := map classify pts in
  let f := parse_fuel ts in
  match m with
  | MExpr => finish pts sexp_e (parse_expression T f ts)
  | MStmt => finish pts sexp_s (parse_statement T f ts)
  | MOuter => finish pts sexp_s (parse_outer_statement T f ts)
  | MType => finish pts sexp_ty (parse_type_top T f ts)
  | MModule => finish pts sexp_module (parse_program T f ts)
  end.

Definition drive (lt : Logos.table) (T : ptab) (m : mode) (src : list N) : line :=
  drive_toks T m (lex lt src).
