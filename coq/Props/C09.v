(* C09 -- Names resolve lexically; consistent renaming changes nothing.
   Only pinned statements, `exact`, and Print Assumptions.  `gen_rflags` are the five flags regenerated
   from name_resolution.rs on this run: do `fn if_branch`, `fn case_branch` and the else-block of a case
   restore the scope stack; is the root of `x.f` looked up on the scope stack before the namespace table;
   is the import pass repeated until it adds no name (`imports_fixpoint`, see C12).  The specification of
   lexical scoping takes the global tables as the import pass of the code leaves them: `resolve_spec fx`. *)
From Coq Require Import String List NArith ZArith Bool.
From Sylt Require Import Syntax.Resolved Resolve.PAst Resolve.Resolver Resolve.ResolveSpec Resolve.SpecProofs
     Resolve.RefineRefuted Resolve.Wf Resolve.NsShadow Resolve.RefineProofs Resolve.NsShadowProofs Resolve.Alpha Resolve.AlphaProofs Resolve.AlphaExample Gen.GenResolve.
Import ListNotations.
Local Open Scope string_scope.

Definition fl := gen_rflags.

(* spec_lexical: in the specification an identifier refers to the innermost enclosing declaration of
   that name that is visible at that point (innermost scope first, newest declaration first) ... *)
Theorem C09_spec_innermost : forall sc e x,
  env_find (sc :: e) x = match stack_find sc x with Some r => Some r | None => env_find e x end.
Proof. exact env_find_innermost. Qed.

Theorem C09_spec_local : forall e x sp r st, env_find e x = Some r -> lookup_in e x sp st = Ok (r, st).
Proof. exact lookup_in_local. Qed.

(* ... then to the globals of the file it is written in, and is rejected otherwise *)
Theorem C09_spec_global : forall e x sp st,
  env_find e x = None ->
  lookup_in e x sp st =
  match lookup_global st (sp_file sp) x with
  | Ok (Some (NName r)) => Ok (r, st)
  | Ok (Some (NNamespace _ _)) => Err [mkRErr ENamespaceFound sp]
  | Ok None => Err [mkRErr ENothingMatched sp]
  | Err e0 => Err e0
  | Panic s => Panic s
  | OutOfFuel => OutOfFuel
  end.
Proof. exact lookup_in_global. Qed.

(* resolve_refines: `resolve fl ast = resolve_spec ast`.
   REFUTED whenever one of the four flags is off (this run: see C09_flags): there is a program that the
   code accepts and resolves differently from the specification -- a variable is used after the if-branch /
   case arm / case else-block that declares it (the specification rejects), or `b.value` with a parameter b
   named like an imported namespace (the specification makes it a field access).
   Witnesses: Resolve/RefineRefuted.v (w_if, w_case, w_else, w_nsfield). *)
Theorem C09_resolve_refines_refuted :
  all_restore fl = false -> exists ast, is_ok (resolve fl ast) = true /\ resolve fl ast <> resolve_spec (imports_fixpoint fl) ast.
Proof. exact (resolve_refines_refuted fl). Qed.

(* PROVED for the resolver with all four flags on, on every well-formed AST (`wf_ast`: what the parser
   produces -- a loop body is never a definition; top-level statements are definitions, blobs, enums,
   use / from-use or empty statements): the stack discipline of the code computes exactly the scope-list
   specification -- same variable table, same statements, same first error.  It applies to the code as
   soon as the regenerated flags are all on (all_restore fl = true). *)
Theorem C09_resolve_refines :
  all_restore fl = true -> forall ast, wf_ast ast = true -> resolve fl ast = resolve_spec (imports_fixpoint fl) ast.
Proof. exact (resolve_refines_when_restored fl). Qed.

Theorem C09_resolve_refines_restored :
  forall fx ast, wf_ast ast = true -> resolve (mkFlags true true true true fx) ast = resolve_spec fx ast.
Proof. exact resolve_refines. Qed.

(* THE CODE AS IT IS after the scope fixes has the three restore flags on and still consults the
   namespace table first for the root of `x.f` (C09_flags).  Two theorems cover it:

   (1) with the three restore flags on, the code IS the scope-list specification taken with the same
       choice for `x.f` (`resolve_spec_g lf`; lf = false is `resolve_spec_nsfirst`, the specification with
       that one quirk), on every well-formed AST; *)
Theorem C09_resolve_refines_nsfirst :
  restores fl = true ->
  forall ast, wf_ast ast = true -> resolve fl ast = resolve_spec_g (access_local_first fl) (imports_fixpoint fl) ast.
Proof. exact (resolve_refines_restores fl). Qed.

(* (2) the quirk is invisible on every program that satisfies the computable condition `no_ns_shadow`:
       no binder (parameter, local definition, case binding, `self`) has the name of the root x of an
       access chain `x.f...` written in a file in which x is a namespace name after the import passes. *)
Theorem C09_nsfirst_is_lexical :
  forall fx ast, no_ns_shadow fx ast = true -> resolve_spec_nsfirst fx ast = resolve_spec fx ast.
Proof. exact nsfirst_is_lexical. Qed.

(* Hence: names resolve lexically (the documented specification, scope before namespace) on every
   well-formed program without such a shadowing. *)
Theorem C09_resolve_refines_modulo_ns :
  restores fl = true ->
  forall ast, wf_ast ast = true -> no_ns_shadow (imports_fixpoint fl) ast = true ->
  resolve fl ast = resolve_spec (imports_fixpoint fl) ast.
Proof. exact (resolve_refines_modulo_ns fl). Qed.

(* non-vacuity: the hypotheses hold of a two-file program that imports a namespace b, reads `b.value`
   through it and `q.value` through a parameter q (accepted, and equal to the specification); they fail
   -- as they must -- when the parameter is itself called b. *)
Example C09_modulo_ns_example :
  forall fx,
  wf_ast w_nsfield_ok = true /\ no_ns_shadow fx w_nsfield_ok = true /\ is_ok (resolve_spec fx w_nsfield_ok) = true
  /\ no_ns_shadow fx ex_left = true /\ wf_ast w_nsfield = true /\ no_ns_shadow fx w_nsfield = false.
Proof. intros []; vm_compute; repeat split. Qed.

(* non-vacuity: a well-formed program that both accept *)
Example C09_resolve_refines_example :
  wf_ast ex_left = true /\ is_ok (resolve_spec (imports_fixpoint fl) ex_left) = true
  /\ wf_ast w_if = true /\ wf_ast w_case = true /\ wf_ast w_else = true /\ wf_ast w_nsfield = true.
Proof. vm_compute. repeat split. Qed.

(* alpha: for an injective renaming g of global names that fixes "start", two programs related by a
   consistent renaming of their binders (Resolve/Alpha.v: `alpha_ast`, stated for the scoping discipline
   `fl` that the code implements) resolve to the same result up to the names kept for diagnostics:
   both are accepted with equal variable tables and statements after erasing names, or both are
   rejected with the same first error, for every amount of fuel.  `is_ns` / `sure_ns` are any sound
   approximations of "this name is a namespace of that file" (needed because `x.f` looks x up in the
   namespace table before the scope stack). *)
Theorem C09_alpha : forall (g : string -> string) is_ns sure_ns,
  (forall x y, g x = g y -> x = y) -> g "start" = "start" ->
  forall fuel p p',
  alpha_ast fl g is_ns sure_ns p p' ->
  (forall st, passes fl p = Ok (tt, st) -> ns_sound is_ns st /\ sure_sound sure_ns st) ->
  (forall st, passes fl p' = Ok (tt, st) -> ns_sound is_ns st) ->
  res_rel (resolve_fuel fl fuel p) (resolve_fuel fl fuel p').
Proof. exact (alpha_resolve_fuel fl). Qed.

(* Non-vacuity: a global renamed, two distinct locals renamed to one name (the inner shadowing the
   outer): related, both accepted, equal up to names. *)
Theorem C09_alpha_example :
  res_rel (resolve fl ex_left) (resolve fl ex_right)
  /\ is_ok (resolve fl ex_left) = true /\ is_ok (resolve fl ex_right) = true.
Proof. exact (alpha_example fl). Qed.

(* The discipline of the theorem is the code's.  With a leaking if-branch it differs from the documented
   one: the renaming of a branch-local variable, consistent by the lexical rules, changes the result. *)
Theorem C09_alpha_lexical_refuted :
  if_truncates fl = false ->
  alpha_ast (mkFlags true true true true false) (fun s => s) no_ns no_sure (leak_p "y") (leak_p "z")
  /\ ~ res_rel (resolve fl (leak_p "y")) (resolve fl (leak_p "z")).
Proof. exact (alpha_lexical_refuted fl). Qed.

(* which case this run is in *)
Theorem C09_flags : all_restore fl = all_restore gen_rflags.
Proof. reflexivity. Qed.

Print Assumptions C09_spec_innermost.
Print Assumptions C09_spec_local.
Print Assumptions C09_spec_global.
Print Assumptions C09_resolve_refines_refuted.
Print Assumptions C09_resolve_refines.
Print Assumptions C09_resolve_refines_restored.
Print Assumptions C09_resolve_refines_nsfirst.
Print Assumptions C09_nsfirst_is_lexical.
Print Assumptions C09_resolve_refines_modulo_ns.
Print Assumptions C09_alpha.
Print Assumptions C09_alpha_example.
Print Assumptions C09_alpha_lexical_refuted.

(* ---- source tie: the hand-written model behind these theorems mirrors the files below; the digests of their
   functions regenerated from /repo on this run equal the reviewed ones (coq/Doc/DocSrcDigest.v).  Any edit of
   such a function breaks this obligation: the differential tie and the oracle then decide (tools/check.py). *)
From Sylt Require Doc.SrcDigest Doc.DocSrcDigest Gen.GenSrcDigest.
Theorem C09_model_sources_reviewed :
  Sylt.Doc.SrcDigest.sources_reviewed ["sylt-compiler/src/name_resolution.rs"%string]
    Sylt.Doc.DocSrcDigest.doc_src_digests Sylt.Gen.GenSrcDigest.src_digests = true.
Proof. vm_compute. reflexivity. Qed.
Print Assumptions C09_model_sources_reviewed.
