(* Extraction for the C01 preservation tie: the AST emitter twin, the fragment predicate and the Lua
   parser model.  Directives: only those of ExtrOcamlBasic and ExtrOcamlString. *)
From Coq Require Import Extraction ExtrOcamlBasic ExtrOcamlString.
From Sylt Require Import Syntax.Resolved Lua.LuaAst Lua.LuaParse Pres.EmitAst Pres.Frag Pres.Tie.
Extraction Language OCaml.
Extraction "presmodel.ml" Tie.tie_ast Tie.pre_block Frag.frag LuaParse.parse_lua.
