(* resolve_refines for the resolver with all four flags on: on well-formed ASTs (what the parser
   produces: a loop body is never a definition, a top-level statement is a definition / blob / enum /
   use / from-use / empty statement) the stack discipline of Resolve/Resolver.v computes exactly the
   scope-list specification of Resolve/ResolveSpec.v.

   Invariant: the resolver's state is the specification's state with the scope stack set to the
   flattened environment (`with_env sts e`). *)
From Coq Require Import String List NArith ZArith Bool Lia Arith.
From Sylt Require Import Syntax.Resolved Resolve.PAst Resolve.Resolver Resolve.ResolveSpec Resolve.Wf.
Import ListNotations.
Local Open Scope string_scope.
Local Open Scope list_scope.

(* the three restore flags on; lf = is the root of `x.f` looked up in the scope first *)
Definition fxg (lf rx : bool) : rflags := mkFlags true true true lf rx.

Section LF.
Variable lf : bool.
Variable rx : bool.
Notation fx := (fxg lf rx).
Notation expr_s := (expr_s lf).
Notation assign_s := (assign_s lf).
Notation stmt_s := (stmt_s lf).

(* ---- the state correspondence ---- *)

Definition on_env {A} (e : env) (r : res (A * rstate)) : res (A * rstate) :=
  match r with
  | Ok (a, s) => Ok (a, with_env s e)
  | Err x => Err x | Panic s => Panic s | OutOfFuel => OutOfFuel
  end.

Definition on_env_s {A} (r : res ((A * env) * rstate)) : res (A * rstate) :=
  match r with
  | Ok ((a, e'), s) => Ok (a, with_env s e')
  | Err x => Err x | Panic s => Panic s | OutOfFuel => OutOfFuel
  end.

(* m (the code) refines ms (the specification) from environment e to environment e' *)
Definition refines {A} (e e' : env) (m ms : M A) : Prop :=
  forall sts, m (with_env sts e) = on_env e' (ms sts).

Lemma with_env_idem st e e' : with_env (with_env st e) e' = with_env st e'.
Proof. reflexivity. Qed.

Lemma refines_ret {A} e (a : A) : refines e e (ret a) (ret a).
Proof. intros sts. reflexivity. Qed.

Lemma refines_bind {A B} e e1 e2 (m ms : M A) (k ks : A -> M B) :
  refines e e1 m ms -> (forall a, refines e1 e2 (k a) (ks a)) -> refines e e2 (bind m k) (bind ms ks).
Proof.
  intros Hm Hk sts. unfold bind. rewrite (Hm sts). destruct (ms sts) as [[a s1]| | |]; cbn; try reflexivity.
  apply Hk.
Qed.

Lemma refines_fail {A} e e' k sp : refines e e' (@fail A k sp) (fail k sp).
Proof. intros sts. reflexivity. Qed.

(* read-only computations *)
Lemma refines_lift {A} e (f fs : rstate -> res A) :
  (forall sts, f (with_env sts e) = fs sts) -> refines e e (lift f) (lift fs).
Proof. intros H sts. unfold lift. rewrite H. destruct (fs sts); reflexivity. Qed.

Lemma refines_new_var e i k : refines e e (new_var i k) (new_var i k).
Proof. intros sts. reflexivity. Qed.

Lemma env_flat_add e n r : env_flat (env_add e n r) = (n, r) :: env_flat e.
Proof. destruct e; reflexivity. Qed.

Lemma push_name_env e n r sts : push_name n r (with_env sts e) = Ok (tt, with_env sts (env_add e n r)).
Proof. unfold push_name, bind, get_stack, set_stack, with_env. cbn. rewrite env_flat_add. reflexivity. Qed.

Lemma stack_len_env e sts : stack_len (with_env sts e) = Ok (length (env_flat e), with_env sts e).
Proof. reflexivity. Qed.

Lemma truncate_env e1 e sts len :
  truncate_to len (env_flat e1) = env_flat e -> truncate len (with_env sts e1) = Ok (tt, with_env sts e).
Proof.
  intros H. unfold truncate, bind, get_stack, set_stack, with_env. cbn [st_stack st_ns st_vars st_next st_n2f].
  rewrite H. reflexivity.
Qed.

Lemma truncate_to_app {X} (sc l : list X) : skipn (length (sc ++ l) - length l) (sc ++ l) = l.
Proof.
  rewrite app_length. replace (length sc + length l - length l) with (length sc) by lia.
  induction sc; cbn; auto.
Qed.

Lemma lookup_global_env st e fid x : lookup_global (with_env st e) fid x = lookup_global st fid x.
Proof. reflexivity. Qed.

Lemma namespace_file_env st e fid a : namespace_file (with_env st e) fid a = namespace_file st fid a.
Proof. induction a; cbn; try reflexivity. rewrite IHa. reflexivity. Qed.

Lemma namespace_list_env st e fid a : namespace_list (with_env st e) fid a = namespace_list st fid a.
Proof. unfold namespace_list. rewrite namespace_file_env. reflexivity. Qed.

(* ---- the specification's statement sequences, with the final environment made visible ---- *)

Fixpoint seq_env (rs : env -> pstmt -> M (option stmt * env)) (e : env) (ss : list pstmt) : M (list stmt * env) :=
  match ss with
  | [] => ret ([], e)
  | s :: ss' =>
      r <- rs e s ;;
      rest <- seq_env rs (snd r) ss' ;;
      ret (match fst r with Some s' => s' :: fst rest | None => fst rest end, snd rest)
  end.

Definition drop_env {A} (r : res ((A * env) * rstate)) : res (A * rstate) :=
  match r with
  | Ok ((a, _), s) => Ok (a, s)
  | Err x => Err x | Panic s => Panic s | OutOfFuel => OutOfFuel
  end.

Lemma seq_with_env rs e ss sts : seq_with rs e ss sts = drop_env (seq_env rs e ss sts).
Proof.
  revert e sts. induction ss as [|s ss IH]; intros e sts; [reflexivity|].
  cbn [seq_with seq_env]. unfold bind. destruct (rs e s sts) as [[[o e1] s1]| | |]; cbn; try reflexivity.
  rewrite IH. destruct (seq_env rs e1 ss s1) as [[[l e2] s2]| | |]; reflexivity.
Qed.

Lemma bind_ok {A B} (m : M A) (k : A -> M B) st b s' :
  bind m k st = Ok (b, s') -> exists a s1, m st = Ok (a, s1) /\ k a s1 = Ok (b, s').
Proof. unfold bind. destruct (m st) as [[a s1]| | |]; try discriminate. eauto. Qed.

(* a statement either leaves the environment alone or declares one name in the innermost scope *)
Definition env_step (e e' : env) : Prop := e' = e \/ exists n r, e' = env_add e n r.

Ltac peel H :=
  repeat (let a := fresh "a" in let s1 := fresh "s" in let E := fresh "E" in
          apply bind_ok in H; destruct H as (a & s1 & E & H)).

Lemma stmt_s_env f e s sts o e' s' :
  e <> [] -> stmt_s f e s sts = Ok ((o, e'), s') -> env_step e e'.
Proof.
  intros He H. destruct f as [|f]; [discriminate|]. destruct e as [|sc e0]; [contradiction|].
  destruct s; cbn [stmt_s] in H;
    try (peel H; inversion H; subst; left; reflexivity; fail).
  - (* PDefinition *)
    destruct (is_function value).
    + peel H. inversion H; subst. right. eexists. eexists. reflexivity.
    + peel H. inversion H; subst. right. eexists. eexists. reflexivity.
Qed.

Lemma env_step_flat e e' : env_step e e' -> env_flat e <> [] -> env_flat e' <> [].
Proof.
  intros [->|(n & r & ->)] H; [assumption|]. rewrite env_flat_add. discriminate.
Qed.

Lemma env_step_shape sc e0 e' : env_step (sc :: e0) e' -> exists sc', e' = (sc' ++ sc) :: e0.
Proof.
  intros [->|(n & r & ->)]; [exists []; reflexivity|]. exists [(n, r)]. reflexivity.
Qed.

Lemma seq_env_shape f sc e0 ss : forall sts l e1 s1,
  seq_env (stmt_s f) (sc :: e0) ss sts = Ok ((l, e1), s1) -> exists sc', e1 = (sc' ++ sc) :: e0.
Proof.
  revert sc. induction ss as [|s ss IH]; intros sc sts l e1 s1 H.
  - inversion H; subst. exists []. reflexivity.
  - cbn [seq_env] in H. peel H. destruct a as [o e2]. cbn [fst snd] in *.
    assert (Hs : env_step (sc :: e0) e2) by (eapply stmt_s_env; [discriminate|exact E]).
    destruct (env_step_shape _ _ _ Hs) as [sc2 ->]. destruct a0 as [l2 e3]. cbn [fst snd] in *.
    inversion H; subst. destruct (IH _ _ _ _ _ E0) as [sc3 ->]. exists (sc3 ++ sc2). rewrite app_assoc. reflexivity.
Qed.

Lemma flat_cons sc e : env_flat (sc :: e) = sc ++ env_flat e.
Proof. reflexivity. Qed.

(* after a body that ran in scope `sc0 :: e`, truncating to the length of what was there before it
   (sc0 and e) restores exactly that *)
Lemma truncate_after f sc0 e ss sts l e1 s1 :
  seq_env (stmt_s f) (sc0 :: e) ss sts = Ok ((l, e1), s1) ->
  truncate_to (length (env_flat (sc0 :: e))) (env_flat e1) = env_flat (sc0 :: e).
Proof.
  intros H. destruct (seq_env_shape _ _ _ _ _ _ _ _ H) as [sc' ->].
  rewrite !flat_cons, <- app_assoc. unfold truncate_to. apply truncate_to_app.
Qed.

Lemma truncate_after' f sc0 e ss sts l e1 s1 :
  seq_env (stmt_s f) (sc0 :: e) ss sts = Ok ((l, e1), s1) ->
  truncate_to (length (env_flat e)) (env_flat e1) = env_flat e.
Proof.
  intros H. destruct (seq_env_shape _ _ _ _ _ _ _ _ H) as [sc' ->].
  rewrite flat_cons. unfold truncate_to. apply truncate_to_app.
Qed.

Lemma bind_eq {A B} (m : M A) (k : A -> M B) st :
  bind m k st = match m st with
                | Ok (a, st') => k a st'
                | Err e => Err e | Panic s => Panic s | OutOfFuel => OutOfFuel
                end.
Proof. reflexivity. Qed.

Lemma bind_stack_len {B} (K : nat -> M B) e sts :
  bind stack_len K (with_env sts e) = K (length (env_flat e)) (with_env sts e).
Proof. reflexivity. Qed.

(* ---------------------------------------------------------------------------------------------- *)
(* one fuel level *)

Definition Ce (f : nat) : Prop :=
  forall e x, wf_e x = true -> env_flat e <> [] -> refines e e (expr_r fx f x) (expr_s f e x).
Definition Ca (f : nat) : Prop :=
  forall e a, wf_a a = true -> env_flat e <> [] -> refines e e (assign_r fx f a) (assign_s f e a).
Definition Cs (f : nat) : Prop :=
  forall e s, wf_s s = true -> env_flat e <> [] ->
  forall sts, stmt_r fx f s (with_env sts e) = on_env_s (stmt_s f e s sts).

Section Step.
Variable f : nat.
Hypothesis IHe : Ce f.
Hypothesis IHa : Ca f.
Hypothesis IHs : Cs f.

Lemma ref_mapM {X Y} (p : X -> bool) (g gs : X -> M Y) e :
  (forall x, p x = true -> refines e e (g x) (gs x)) ->
  forall l, all_with p l = true -> refines e e (mapM g l) (mapM gs l).
Proof.
  intros H. induction l as [|x l IH]; intros Hl; cbn [mapM]; [apply refines_ret|].
  cbn in Hl. apply andb_true_iff in Hl as [Hx Hl].
  eapply refines_bind; [apply H; exact Hx|]. intros y.
  eapply refines_bind; [apply IH; exact Hl|]. intros ys. apply refines_ret.
Qed.

Lemma ref_args e l : all_with wf_e l = true -> env_flat e <> [] ->
  refines e e (mapM (expr_r fx f) l) (mapM (expr_s f e) l).
Proof. intros Hl He. apply (ref_mapM wf_e); [|exact Hl]. intros x Hx. apply IHe; assumption. Qed.

Lemma ref_optM e o : (match o with Some c => wf_e c | None => true end) = true -> env_flat e <> [] ->
  refines e e (optM (expr_r fx f) o) (optM (expr_s f e) o).
Proof.
  intros Ho He. destruct o as [c|]; cbn [optM]; [|apply refines_ret].
  eapply refines_bind; [apply IHe; assumption|]. intros y. apply refines_ret.
Qed.

(* statement lists: the code's stack follows the specification's environment *)
Lemma ref_block ss : forall e0, all_with wf_s ss = true -> env_flat e0 <> [] ->
  forall sts, block_with (stmt_r fx f) ss (with_env sts e0) = on_env_s (seq_env (stmt_s f) e0 ss sts).
Proof.
  induction ss as [|s ss IH]; intros e0 Hw He sts; [reflexivity|].
  cbn in Hw. apply andb_true_iff in Hw as [Hs Hss].
  cbn [block_with seq_env]. rewrite !bind_eq. rewrite (IHs e0 s Hs He sts).
  destruct (stmt_s f e0 s sts) as [[[o e1] s1]| | |] eqn:E; cbn [on_env_s]; try reflexivity.
  assert (He1 : env_flat e1 <> []).
  { eapply env_step_flat; [|exact He]. eapply stmt_s_env; [|exact E]. intros ->. apply He. reflexivity. }
  cbn [fst snd]. rewrite !bind_eq. rewrite (IH e1 Hss He1 s1).
  destruct (seq_env (stmt_s f) e1 ss s1) as [[[l e2] s2]| | |]; reflexivity.
Qed.

(* a body run in scope `sc0 :: e`, after which the code truncates back to e *)
Lemma ref_scoped {B} sc0 e e2 ss (K Ks : list stmt -> M B) :
  all_with wf_s ss = true -> env_flat (sc0 :: e) <> [] ->
  (forall l, refines e e2 (K l) (Ks l)) ->
  refines (sc0 :: e) e2
    (body' <- block_with (stmt_r fx f) ss ;; _ <- truncate (length (env_flat e)) ;; K body')
    (body' <- seq_with (stmt_s f) (sc0 :: e) ss ;; Ks body').
Proof.
  intros Hw He HK sts. rewrite !bind_eq. rewrite (ref_block ss _ Hw He sts), seq_with_env.
  destruct (seq_env (stmt_s f) (sc0 :: e) ss sts) as [[[l e1] s1]| | |] eqn:E; cbn [on_env_s drop_env on_env]; try reflexivity.
  rewrite bind_eq. rewrite (truncate_env e1 e s1 _ (truncate_after' _ _ _ _ _ _ _ _ E)). apply HK.
Qed.

Lemma ref_binop e op a b sp : wf_e a = true -> wf_e b = true -> env_flat e <> [] ->
  refines e e (binop_with (expr_r fx f) op a b sp) (binop_with (expr_s f e) op a b sp).
Proof.
  intros Ha Hb He. unfold binop_with. eapply refines_bind; [apply IHe; assumption|]. intros x.
  eapply refines_bind; [apply IHe; assumption|]. intros y. apply refines_ret.
Qed.

Lemma ref_uniop e op a sp : wf_e a = true -> env_flat e <> [] ->
  refines e e (uniop_with (expr_r fx f) op a sp) (uniop_with (expr_s f e) op a sp).
Proof.
  intros Ha He. unfold uniop_with. eapply refines_bind; [apply IHe; assumption|]. intros x. apply refines_ret.
Qed.

Lemma ref_ty e t : refines e e (lift (fun st => ty_r st t)) (ty_in e t).
Proof. apply refines_lift. reflexivity. Qed.

(* parameters *)
Lemma ref_params ps : forall e0 sts,
  mapM param_r ps (with_env sts e0) = on_env_s (params_spec e0 ps sts).
Proof.
  induction ps as [|[n t] ps IH]; intros e0 sts; [reflexivity|].
  cbn [mapM params_spec param_r]. rewrite !bind_eq. unfold push_var. rewrite !bind_eq.
  unfold new_var, new_var_g. cbv beta zeta iota. rewrite !bind_eq.
  set (st1 := mkSt (st_ns sts) (st_stack sts) (mkVar (st_next sts) (i_name n) (i_span n) false Const :: st_vars sts)
                   (N.succ (st_next sts)) (st_n2f sts)).
  change (mkSt (st_ns (with_env sts e0)) (st_stack (with_env sts e0))
               (mkVar (st_next (with_env sts e0)) (i_name n) (i_span n) false Const :: st_vars (with_env sts e0))
               (N.succ (st_next (with_env sts e0))) (st_n2f (with_env sts e0)))
    with (with_env st1 e0).
  rewrite push_name_env. cbv beta iota. unfold ret at 1. cbv beta iota. rewrite !bind_eq.
  unfold lift at 1. unfold ty_in, lift. cbn [st_next with_env]. fold (with_env st1 (env_add e0 (i_name n) (st_next sts))).
  destruct (ty_r (with_env st1 (env_add e0 (i_name n) (st_next sts))) t) as [t'| | |]; cbn [on_env_s]; try reflexivity.
  unfold ret at 1. cbv beta iota. rewrite !bind_eq. rewrite (IH (env_add e0 (i_name n) (st_next sts)) st1).
  destruct (params_spec (env_add e0 (i_name n) (st_next sts)) ps st1) as [[[l e1] s1]| | |]; reflexivity.
Qed.

Lemma params_spec_shape ps : forall sc e sts l e1 s1,
  params_spec (sc :: e) ps sts = Ok ((l, e1), s1) -> exists sc', e1 = (sc' ++ sc) :: e.
Proof.
  induction ps as [|[n t] ps IH]; intros sc e sts l e1 s1 H.
  - inversion H; subst. exists []. reflexivity.
  - cbn [params_spec] in H. peel H. inversion H; subst. cbn [snd] in *.
    destruct a1 as [l2 e2]. cbn [snd] in *.
    change (env_add (sc :: e) (i_name n) a) with (((i_name n, a) :: sc) :: e) in E1.
    destruct (IH _ _ _ _ _ _ E1) as [sc' ->]. exists (sc' ++ [(i_name n, a)]). rewrite <- app_assoc. reflexivity.
Qed.

Lemma push_name_scope e n r sts : push_name n r (with_env sts e) = Ok (tt, with_env sts ([(n, r)] :: e)).
Proof. reflexivity. Qed.

Lemma truncate_to_same (l : list (string * N)) : truncate_to (length l) l = l.
Proof. unfold truncate_to. rewrite Nat.sub_diag. reflexivity. Qed.

Lemma truncate_to_cons (x : string * N) (l : list (string * N)) : truncate_to (length l) (x :: l) = l.
Proof. unfold truncate_to. cbn [length]. replace (S (length l) - length l) with 1 by lia. reflexivity. Qed.

Lemma flat_nonempty_cons sc e : env_flat e <> [] -> env_flat (sc :: e) <> [].
Proof. intros H E. rewrite flat_cons in E. apply app_eq_nil in E as [_ E]. contradiction. Qed.

(* `len <- stack_len ;; body' <- block ;; truncate len ;; K body'` against `scope_with` *)
Lemma ref_new_scope {B} e ss (K Ks : list stmt -> M B) :
  all_with wf_s ss = true -> env_flat e <> [] ->
  (forall l, refines e e (K l) (Ks l)) ->
  refines e e
    (len <- stack_len ;; body' <- block_with (stmt_r fx f) ss ;; _ <- truncate len ;; K body')
    (body' <- scope_with (stmt_s f) e ss ;; Ks body').
Proof.
  intros Hw He HK sts. rewrite bind_stack_len. unfold scope_with.
  change (with_env sts e) with (with_env sts ([] :: e)) at 1.
  apply (ref_scoped [] e e ss K Ks Hw (flat_nonempty_cons [] e He) HK).
Qed.

Lemma ref_ifb e b :
  (match b with PIfBranch c body _ =>
     (match c with Some c => wf_e c | None => true end) && all_with wf_s body end) = true ->
  env_flat e <> [] ->
  refines e e (if_branch_with fx (expr_r fx f) (stmt_r fx f) b)
    (match b with
     | PIfBranch cond body bsp =>
         c <- optM (expr_s f e) cond ;;
         body' <- scope_with (stmt_s f) e body ;;
         ret (IfBranch c body' bsp)
     end).
Proof.
  destruct b as [cond body sp]. intros Hw He. apply andb_true_iff in Hw as [Hc Hb]. cbn [if_branch_with].
  eapply refines_bind; [apply ref_optM; assumption|]. intros c.
  cbn [truncate_if if_truncates fxg].
  apply (ref_new_scope e body (fun l => ret (IfBranch c l sp)) (fun l => ret (IfBranch c l sp)) Hb He).
  intros l. apply refines_ret.
Qed.

Lemma ref_cb e b :
  (match b with PCaseBranch _ _ body => all_with wf_s body end) = true -> env_flat e <> [] ->
  refines e e (case_branch_with fx (stmt_r fx f) b)
    (match b with
     | PCaseBranch pat v body =>
         v' <- optM (fun i => new_var i Const) v ;;
         let sc := match v, v' with Some i, Some r => [(i_name i, r)] | _, _ => [] end in
         body' <- seq_with (stmt_s f) (sc :: e) body ;;
         ret (CaseBranch (i_name pat) (i_span pat) v' body' (i_span pat))
     end).
Proof.
  destruct b as [pat v body]. intros Hb He. cbn [case_branch_with truncate_if case_truncates fxg].
  destruct v as [i|]; cbn [optM].
  - intros sts. rewrite bind_stack_len. rewrite !bind_eq. unfold push_var. rewrite !bind_eq.
    unfold new_var, new_var_g. cbv beta zeta iota. rewrite !bind_eq.
    set (st1 := mkSt (st_ns sts) (st_stack sts) (mkVar (st_next sts) (i_name i) (i_span i) false Const :: st_vars sts)
                     (N.succ (st_next sts)) (st_n2f sts)).
    change (mkSt (st_ns (with_env sts e)) (st_stack (with_env sts e))
                 (mkVar (st_next (with_env sts e)) (i_name i) (i_span i) false Const :: st_vars (with_env sts e))
                 (N.succ (st_next (with_env sts e))) (st_n2f (with_env sts e)))
      with (with_env st1 e).
    rewrite push_name_scope. cbv beta iota. unfold ret at 1 2 3. cbv beta iota. cbn [st_next with_env].
    apply (ref_scoped [(i_name i, st_next sts)] e e body
             (fun l => ret (CaseBranch (i_name pat) (i_span pat) (Some (st_next sts)) l (i_span pat)))
             (fun l => ret (CaseBranch (i_name pat) (i_span pat) (Some (st_next sts)) l (i_span pat)))
             Hb (flat_nonempty_cons _ e He)).
    intros l. apply refines_ret.
  - intros sts. rewrite bind_stack_len. rewrite !bind_eq. unfold ret at 1 3. cbv beta iota.
    change (with_env sts e) with (with_env sts ([] :: e)) at 1.
    apply (ref_scoped [] e e body
             (fun l => ret (CaseBranch (i_name pat) (i_span pat) None l (i_span pat)))
             (fun l => ret (CaseBranch (i_name pat) (i_span pat) None l (i_span pat)))
             Hb (flat_nonempty_cons [] e He)).
    intros l. apply refines_ret.
Qed.

Lemma ref_fld e sv p :
  wf_e (snd p) = true -> env_flat e <> [] ->
  refines e e (blob_field_with (expr_r fx f) sv p)
    (let '(n, v) := p in
     v' <- expr_s f (if is_function v then [("self", sv)] :: e else e) v ;; ret (n, v')).
Proof.
  destruct p as [n v]. cbn [snd]. intros Hw He sts. cbn [blob_field_with]. rewrite bind_stack_len.
  destruct (is_function v).
  - rewrite !bind_eq. rewrite push_name_scope. cbv beta iota. rewrite !bind_eq.
    rewrite (IHe ([("self", sv)] :: e) v Hw (flat_nonempty_cons _ e He) sts).
    destruct (expr_s f ([("self", sv)] :: e) v sts) as [[y s1]| | |]; cbn [on_env]; try reflexivity.
    rewrite bind_eq. erewrite (truncate_env ([("self", sv)] :: e) e);
      [reflexivity|apply (truncate_to_cons ("self", sv) (env_flat e))].
  - rewrite !bind_eq. unfold ret at 1. cbv beta iota. rewrite !bind_eq.
    rewrite (IHe e v Hw He sts).
    destruct (expr_s f e v sts) as [[y s1]| | |]; cbn [on_env]; try reflexivity.
    rewrite bind_eq. erewrite (truncate_env e e); [reflexivity|apply truncate_to_same].
Qed.

Ltac split_wf H :=
  repeat match type of H with
         | (_ && _) = true => let H1 := fresh "Hw" in apply andb_true_iff in H as [H H1]
         end.

Lemma rstep_e : Ce (S f).
Proof.
  intros e x Hw He. destruct x; cbn [expr_r expr_s]; cbn [wf_e] in Hw.
  - apply IHa; assumption.
  - split_wf Hw. apply ref_binop; assumption.
  - split_wf Hw. apply ref_binop; assumption.
  - split_wf Hw. apply ref_binop; assumption.
  - split_wf Hw. apply ref_binop; assumption.
  - apply ref_uniop; assumption.
  - split_wf Hw. apply ref_binop; assumption.
  - split_wf Hw. apply ref_binop; assumption.
  - split_wf Hw. apply ref_binop; assumption.
  - split_wf Hw. apply ref_binop; assumption.
  - apply ref_uniop; assumption.
  - apply IHe; assumption.
  - (* PIf *)
    eapply refines_bind; [|intros y; apply refines_ret].
    eapply (ref_mapM (fun b => match b with PIfBranch c body _ =>
                       (match c with Some c => wf_e c | None => true end) && all_with wf_s body end));
      [|exact Hw]. intros b Hb. apply ref_ifb; assumption.
  - (* PCase *)
    split_wf Hw.
    eapply refines_bind; [apply IHe; assumption|]. intros tm'.
    eapply refines_bind.
    { eapply (ref_mapM (fun b => match b with PCaseBranch _ _ body => all_with wf_s body end)); [|exact Hw1].
      intros b Hb. apply ref_cb; assumption. }
    intros brs'.
    eapply refines_bind; [|intros y; apply refines_ret].
    destruct fall_through as [ft|]; cbn [optM]; [|apply refines_ret].
    cbn [truncate_if else_truncates fxg].
    eapply refines_bind with (e1 := e); [|intros y; apply refines_ret].
    (* `len <- stack_len ;; b' <- block ;; _ <- truncate len ;; ret b'` *)
    intros sts.
    pose proof (ref_new_scope e ft (fun l => ret l) (fun l => ret l) Hw0 He (fun l => refines_ret e l) sts) as H.
    rewrite H. clear H. unfold scope_with. rewrite !bind_eq.
    destruct (seq_with (stmt_s f) ([] :: e) ft sts) as [[l s1]| | |]; reflexivity.
  - (* PFunction *)
    intros sts. rewrite bind_stack_len. change (with_env sts e) with (with_env sts ([] :: e)) at 1.
    rewrite !bind_eq. rewrite ref_params.
    destruct (params_spec ([] :: e) params sts) as [[[ps e1] s1]| | |] eqn:E; cbn [on_env_s on_env]; try reflexivity.
    destruct (params_spec_shape _ _ _ _ _ _ _ E) as [sc' ->]. cbn [fst snd].
    revert s1 E. intros s1 _.
    assert (Hne : env_flat ((sc' ++ []) :: e) <> []) by (apply flat_nonempty_cons; assumption).
    revert s1.
    change (refines ((sc' ++ []) :: e) e
              (rt' <- lift (fun st => ty_r st ret) ;;
               body' <- block_with (stmt_r fx f) body ;;
               _ <- truncate (length (env_flat e)) ;;
               Resolver.ret (EFunction name ps rt' body' pure sp))
              (rt' <- ty_in ((sc' ++ []) :: e) ret ;;
               body' <- seq_with (stmt_s f) ((sc' ++ []) :: e) body ;;
               Resolver.ret (EFunction name ps rt' body' pure sp))).
    eapply refines_bind; [apply ref_ty|]. intros rt'.
    apply (ref_scoped (sc' ++ []) e e body (fun l => Resolver.ret (EFunction name ps rt' l pure sp))
             (fun l => Resolver.ret (EFunction name ps rt' l pure sp)) Hw Hne).
    intros l. apply refines_ret.
  - (* PBlob *)
    eapply refines_bind; [apply refines_lift; reflexivity|]. intros b.
    eapply refines_bind; [apply refines_new_var|]. intros sv.
    eapply refines_bind; [|intros y; apply refines_ret].
    eapply (ref_mapM (fun p => wf_e (snd p))); [|exact Hw]. intros p Hp. apply ref_fld; assumption.
  - eapply refines_bind; [apply ref_args; assumption|]. intros y. apply refines_ret.
  - eapply refines_bind; [apply ref_args; assumption|]. intros y. apply refines_ret.
  - apply refines_ret.
  - apply refines_ret.
  - apply refines_ret.
  - apply refines_ret.
  - apply refines_ret.
Qed.

Lemma rstep_a : Ca (S f).
Proof.
  intros e a Hw He. destruct a; cbn [assign_r assign_s]; cbn [wf_a] in Hw.
  - (* ARead *)
    eapply refines_bind; [apply refines_lift; reflexivity|]. intros v. apply refines_ret.
  - (* AVariant *)
    split_wf Hw. eapply refines_bind; [apply IHa; assumption|]. intros x.
    destruct x; try apply refines_fail.
    eapply refines_bind; [apply IHe; assumption|]. intros y. apply refines_ret.
  - (* ACall *)
    split_wf Hw. eapply refines_bind; [apply IHa; assumption|]. intros x.
    eapply refines_bind; [apply ref_args; assumption|]. intros y. apply refines_ret.
  - (* AArrowCall *)
    split_wf Hw. eapply refines_bind; [apply IHe; assumption|]. intros z.
    eapply refines_bind; [apply IHa; assumption|]. intros x.
    eapply refines_bind; [apply ref_args; assumption|]. intros y. apply refines_ret.
  - (* AAccess *)
    eapply refines_bind.
    { apply refines_lift. intros sts. unfold access_namespace. cbn [access_local_first fxg andb].
      rewrite namespace_list_env. reflexivity. }
    intros ns. destruct ns as [ns|].
    + eapply refines_bind; [apply refines_lift; reflexivity|]. intros o.
      destruct o as [[v|f0 s0]|]; [apply refines_ret|apply refines_fail|apply refines_fail].
    + eapply refines_bind; [apply IHa; assumption|]. intros v. apply refines_ret.
  - (* AIndex *)
    split_wf Hw. eapply refines_bind; [apply IHa; assumption|]. intros x.
    eapply refines_bind; [apply IHe; assumption|]. intros y. apply refines_ret.
  - (* AExpression *) apply IHe; assumption.
Qed.

(* statements: the specification also returns the environment for what follows *)
Definition refines_st (e : env) (m : M (option stmt)) (ms : M (option stmt * env)) : Prop :=
  forall sts, m (with_env sts e) = on_env_s (ms sts).

Lemma rst_bind {A} e e1 (m ms : M A) k ks :
  refines e e1 m ms -> (forall a, refines_st e1 (k a) (ks a)) -> refines_st e (bind m k) (bind ms ks).
Proof.
  intros Hm Hk sts. rewrite !bind_eq. rewrite (Hm sts). destruct (ms sts) as [[a s1]| | |]; cbn; try reflexivity.
  apply Hk.
Qed.

Lemma rst_ret e o : refines_st e (ret o) (ret (o, e)).
Proof. intros sts. reflexivity. Qed.

Lemma match_nonempty {X Y} (l : list X) (A B : Y) : l <> [] -> match l with [] => A | _ :: _ => B end = B.
Proof. destruct l; [contradiction|reflexivity]. Qed.

(* a statement that is not a definition returns the environment it was given *)
Lemma stmt_s_same e s sts o e' s' :
  is_definition s = false -> stmt_s f e s sts = Ok ((o, e'), s') -> e' = e.
Proof.
  intros Hd H. destruct f as [|f0]; [discriminate|].
  destruct s; try discriminate Hd; cbn [stmt_s] in H; peel H; inversion H; subst; reflexivity.
Qed.

Lemma rstep_s : forall e s, wf_s s = true -> env_flat e <> [] -> refines_st e (stmt_r fx (S f) s) (stmt_s (S f) e s).
Proof.
  intros e s Hw He. destruct s; cbn [stmt_r stmt_s]; cbn [wf_s] in Hw; try apply rst_ret.
  - (* PBlobDef *)
    eapply rst_bind; [apply refines_lift; reflexivity|]. intros v.
    eapply rst_bind; [apply refines_lift; reflexivity|]. intros fs. apply rst_ret.
  - (* PEnumDef *)
    eapply rst_bind; [apply refines_lift; reflexivity|]. intros v.
    eapply rst_bind; [apply refines_lift; reflexivity|]. intros fs. apply rst_ret.
  - (* PAssignment *)
    split_wf Hw. eapply rst_bind; [apply IHe; assumption|]. intros y.
    eapply rst_bind; [apply IHa; assumption|]. intros x. apply rst_ret.
  - (* PDefinition (local: the environment is not empty) *)
    destruct e as [|sc e0]; [exfalso; apply He; reflexivity|].
    intros sts. rewrite bind_eq. unfold get_stack at 1. cbv beta iota.
    cbn [st_stack with_env]. rewrite (match_nonempty _ _ _ He).
    destruct (is_function value) eqn:Efn.
    + (* function: declared before its body *)
      rewrite !bind_eq. unfold push_var. rewrite !bind_eq. unfold new_var, new_var_g. cbv beta zeta iota.
      rewrite !bind_eq.
      set (st1 := mkSt (st_ns sts) (st_stack sts) (mkVar (st_next sts) (i_name i) (i_span i) false kind :: st_vars sts)
                       (N.succ (st_next sts)) (st_n2f sts)).
      change (mkSt (st_ns (with_env sts (sc :: e0))) (st_stack (with_env sts (sc :: e0)))
                   (mkVar (st_next (with_env sts (sc :: e0))) (i_name i) (i_span i) false kind :: st_vars (with_env sts (sc :: e0)))
                   (N.succ (st_next (with_env sts (sc :: e0)))) (st_n2f (with_env sts (sc :: e0))))
        with (with_env st1 (sc :: e0)).
      rewrite push_name_env. cbv beta iota. unfold ret at 1. cbv beta iota. cbn [st_next with_env].
      fold (with_env st1 (env_add (sc :: e0) (i_name i) (st_next sts))).
      rewrite !bind_eq.
      assert (Hne : env_flat (env_add (sc :: e0) (i_name i) (st_next sts)) <> []) by (rewrite env_flat_add; discriminate).
      rewrite (IHe _ value Hw Hne st1).
      destruct (expr_s f (env_add (sc :: e0) (i_name i) (st_next sts)) value st1) as [[y s1]| | |]; cbn [on_env on_env_s]; try reflexivity.
      unfold ret at 1. cbv beta iota. rewrite !bind_eq. unfold lift at 1. unfold ty_in, lift.
      destruct (ty_r (with_env s1 (env_add (sc :: e0) (i_name i) (st_next sts))) t) as [t'| | |]; reflexivity.
    + (* value: declared after *)
      rewrite !bind_eq. rewrite (IHe _ value Hw He sts).
      destruct (expr_s f (sc :: e0) value sts) as [[y s1]| | |]; cbn [on_env on_env_s]; try reflexivity.
      unfold push_var. rewrite !bind_eq. unfold new_var, new_var_g. cbv beta zeta iota. rewrite !bind_eq.
      set (st2 := mkSt (st_ns s1) (st_stack s1) (mkVar (st_next s1) (i_name i) (i_span i) false kind :: st_vars s1)
                       (N.succ (st_next s1)) (st_n2f s1)).
      change (mkSt (st_ns (with_env s1 (sc :: e0))) (st_stack (with_env s1 (sc :: e0)))
                   (mkVar (st_next (with_env s1 (sc :: e0))) (i_name i) (i_span i) false kind :: st_vars (with_env s1 (sc :: e0)))
                   (N.succ (st_next (with_env s1 (sc :: e0)))) (st_n2f (with_env s1 (sc :: e0))))
        with (with_env st2 (sc :: e0)).
      rewrite push_name_env. cbv beta iota. unfold ret at 1 2. cbv beta iota. cbn [st_next with_env].
      fold (with_env st2 (env_add (sc :: e0) (i_name i) (st_next s1))).
      rewrite !bind_eq. unfold lift at 1. unfold ty_in, lift.
      destruct (ty_r (with_env st2 (env_add (sc :: e0) (i_name i) (st_next s1))) t) as [t'| | |]; reflexivity.
  - (* PExternalDefinition *)
    eapply rst_bind; [apply refines_lift; reflexivity|]. intros v.
    eapply rst_bind; [apply ref_ty|]. intros t'. apply rst_ret.
  - (* PLoop *)
    split_wf Hw. apply negb_true_iff in Hw1.
    eapply rst_bind; [apply IHe; assumption|]. intros c.
    intros sts. rewrite !bind_eq.
    change (with_env sts e) with (with_env sts ([] :: e)) at 1.
    rewrite (IHs ([] :: e) s Hw0 (flat_nonempty_cons [] e He) sts).
    destruct (stmt_s f ([] :: e) s sts) as [[[o e1] s1]| | |] eqn:E; cbn [on_env_s]; try reflexivity.
    rewrite (stmt_s_same _ _ _ _ _ _ Hw1 E). reflexivity.
  - (* PRet *)
    eapply rst_bind; [apply ref_optM; [destruct value; assumption|assumption]|]. intros v. apply rst_ret.
  - (* PBlock *)
    cbn [truncate_if]. intros sts.
    pose proof (ref_new_scope e statements (fun l => ret (Some (SBlock l sp))) (fun l => ret (Some (SBlock l sp)))
                  Hw He (fun l => refines_ret e _) sts) as H.
    rewrite H. clear H. unfold scope_with. rewrite !bind_eq.
    destruct (seq_with (stmt_s f) ([] :: e) statements sts) as [[l s1]| | |]; reflexivity.
  - (* PStatementExpression *)
    eapply rst_bind; [apply IHe; assumption|]. intros v. apply rst_ret.
Qed.

End Step.

Lemma refine_all : forall f, Ce f /\ Ca f /\ Cs f.
Proof.
  induction f as [|f (IHe & IHa & IHs)].
  - repeat split; intros e x _ _ sts; reflexivity.
  - split; [apply rstep_e; assumption|]. split; [apply rstep_a; assumption|].
    intros e s Hw He. apply (rstep_s f IHe IHa IHs e s Hw He).
Qed.

(* ---------------------------------------------------------------------------------------------- *)
(* the top level *)

Lemma set_stack_env s e : set_stack [] (with_env s e) = Ok (tt, with_env s []).
Proof. reflexivity. Qed.

Lemma top_stmt fuel s : wf_top s = true ->
  forall sts, stmt_r fx fuel s (with_env sts []) =
              match stmt_s fuel [] s sts with
              | Ok ((o, _), s') => Ok (o, with_env s' [])
              | Err x => Err x | Panic x => Panic x | OutOfFuel => OutOfFuel
              end
              /\ (forall o e' s', stmt_s fuel [] s sts = Ok ((o, e'), s') -> e' = []).
Proof.
  intros Hw sts. destruct fuel as [|f]; [split; [reflexivity|discriminate]|].
  destruct (refine_all f) as (IHe & IHa & IHs).
  destruct s; try discriminate Hw; cbn [stmt_r stmt_s].
  - split; [reflexivity|]. intros o e' s' H. inversion H. reflexivity.
  - split; [reflexivity|]. intros o e' s' H. inversion H. reflexivity.
  - (* PBlobDef *)
    split.
    + rewrite !bind_eq. unfold lift at 1. unfold lookup_in at 1. unfold lift at 1.
      destruct (lookup (with_env sts []) (i_name name) sp) as [v| | |]; try reflexivity.
      rewrite !bind_eq. unfold fields_m, fields_in, lift.
      destruct (rbind (fields_r (with_env sts []) fields) _) as [fs| | |]; reflexivity.
    + intros o e' s' H. peel H. inversion H. reflexivity.
  - (* PEnumDef *)
    split.
    + rewrite !bind_eq. unfold lift at 1. unfold lookup_in at 1. unfold lift at 1.
      destruct (lookup (with_env sts []) (i_name name) sp) as [v| | |]; try reflexivity.
      rewrite !bind_eq. unfold fields_m, fields_in, lift.
      destruct (rbind (fields_r (with_env sts []) variants) _) as [fs| | |]; reflexivity.
    + intros o e' s' H. peel H. inversion H. reflexivity.
  - (* PDefinition: a global *)
    cbn [wf_top wf_s] in Hw. split.
    + rewrite bind_eq. unfold get_stack at 1. cbv beta iota. cbn [st_stack with_env env_flat concat].
      rewrite !bind_eq. unfold push_var. rewrite !bind_eq. unfold new_var, new_var_g. cbv beta zeta iota.
      rewrite !bind_eq. cbn [i_name i_span].
      set (st1 := mkSt (st_ns sts) (st_stack sts)
                       (mkVar (st_next sts) (stack_begin_name (i_name i)) (i_span i) false kind :: st_vars sts)
                       (N.succ (st_next sts)) (st_n2f sts)).
      change (mkSt (st_ns (with_env sts [])) (st_stack (with_env sts []))
                   (mkVar (st_next (with_env sts [])) (stack_begin_name (i_name i)) (i_span i) false kind
                    :: st_vars (with_env sts []))
                   (N.succ (st_next (with_env sts []))) (st_n2f (with_env sts [])))
        with (with_env st1 []).
      rewrite push_name_scope. cbv beta iota. unfold ret at 1. cbv beta iota. cbn [st_next with_env].
      fold (with_env st1 [[(stack_begin_name (i_name i), st_next sts)]]).
      rewrite !bind_eq.
      assert (Hne : env_flat [[(stack_begin_name (i_name i), st_next sts)]] <> []) by discriminate.
      pose proof (IHe _ value Hw Hne st1) as Hx. unfold scope in *. rewrite Hx. clear Hx.
      destruct (expr_s f [[(stack_begin_name (i_name i), st_next sts)]] value st1) as [[y s1]| | |];
        cbn [on_env]; try reflexivity.
      rewrite !bind_eq. rewrite set_stack_env. cbv beta iota.
      unfold lookup_in, ty_in, lift. rewrite ?bind_eq. cbv beta iota.
      unfold scope in *.
      match goal with |- context [lookup ?s (i_name i) sp] => destruct (lookup s (i_name i) sp) as [v| | |] end;
        try reflexivity.
      unfold ret at 1. repeat (progress (cbv beta iota; rewrite ?bind_eq)). unfold scope in *.
      match goal with |- context [ty_r ?s t] => destruct (ty_r s t) as [t'| | |] end; reflexivity.
    + intros o e' s' H. peel H. inversion H. reflexivity.
  - (* PExternalDefinition *)
    split.
    + rewrite !bind_eq. unfold lookup_in, ty_in, lift. unfold scope in *.
      match goal with |- context [lookup ?s (i_name i) sp] => destruct (lookup s (i_name i) sp) as [v| | |] end;
        try reflexivity.
      repeat (progress (cbv beta iota; rewrite ?bind_eq)). unfold scope in *.
      match goal with |- context [ty_r ?s t] => destruct (ty_r s t) as [t'| | |] end; reflexivity.
    + intros o e' s' H. peel H. inversion H. reflexivity.
  - split; [reflexivity|]. intros o e' s' H. inversion H. reflexivity.
Qed.

Lemma top_block fuel ss : all_with wf_top ss = true ->
  forall sts, block_with (stmt_r fx fuel) ss (with_env sts []) = on_env [] (seq_with (stmt_s fuel) [] ss sts).
Proof.
  induction ss as [|s ss IH]; intros Hw sts; [reflexivity|].
  cbn in Hw. apply andb_true_iff in Hw as [Hs Hss].
  cbn [block_with seq_with]. rewrite !bind_eq. destruct (top_stmt fuel s Hs sts) as [E Henv]. rewrite E.
  destruct (stmt_s fuel [] s sts) as [[[o e1] s1]| | |] eqn:Es; try reflexivity.
  rewrite (Henv _ _ _ eq_refl). cbn [fst snd]. rewrite !bind_eq. rewrite (IH Hss s1).
  destruct (seq_with (stmt_s fuel) [] ss s1) as [[l s2]| | |]; reflexivity.
Qed.

(* the namespace passes never touch the scope stack *)
Definition keeps_stack {A} (m : M A) : Prop := forall st a st', m st = Ok (a, st') -> st_stack st' = st_stack st.

Lemma keeps_bind {A B} (m : M A) (k : A -> M B) :
  keeps_stack m -> (forall a, keeps_stack (k a)) -> keeps_stack (bind m k).
Proof.
  intros Hm Hk st b st' H. apply bind_ok in H as (a & s1 & E1 & E2).
  rewrite (Hk a _ _ _ E2). eapply Hm; eauto.
Qed.

Lemma keeps_ret {A} (a : A) : keeps_stack (ret a).
Proof. intros st b st' H. inversion H. reflexivity. Qed.

Lemma keeps_fail {A} k sp : keeps_stack (@fail A k sp).
Proof. intros st b st' H. discriminate. Qed.

Lemma keeps_for_each {X} (g : X -> M unit) l : (forall x, keeps_stack (g x)) -> keeps_stack (for_each g l).
Proof.
  intros Hg. induction l as [|x l IH]; cbn [for_each]; [apply keeps_ret|].
  apply keeps_bind; [apply Hg|]. intros _. exact IH.
Qed.

Lemma keeps_import_name f nm v k sp : keeps_stack (import_name f nm v k sp).
Proof.
  intros st u st' H. unfold import_name in H. destruct (fol_get (st_ns st) f); [|discriminate].
  destruct (ns_get n nm) as [old|].
  - destruct (name_eqb old v); [|discriminate]. inversion H. reflexivity.
  - unfold set_namespace in H. inversion H. reflexivity.
Qed.

Lemma keeps_add_definitions ss : forall t, keeps_stack (add_definitions ss t).
Proof.
  induction ss as [|s ss IH]; intros t; cbn [add_definitions]; [apply keeps_ret|].
  destruct (defined_ident s) as [[i k]|]; [|apply IH].
  apply keeps_bind; [intros st a st' H; inversion H; reflexivity|]. intros v.
  destruct (ns_get t (i_name i)); [apply keeps_fail|apply IH].
Qed.

Lemma keeps_from_imports f file sp imps : keeps_stack (from_imports f file sp imps).
Proof.
  induction imps as [|[nm al] rest IH]; cbn [from_imports]; [apply keeps_ret|].
  apply keeps_bind; [intros st a st' H; inversion H; reflexivity|]. intros from_ns.
  destruct from_ns as [from_ns|]; [|apply keeps_fail].
  destruct (ns_get from_ns (i_name nm)); [|apply keeps_fail].
  apply keeps_bind; [apply keeps_import_name|]. intros _. exact IH.
Qed.

Lemma keeps_rgv f ss : keeps_stack (resolve_global_variables f ss).
Proof.
  induction ss as [|s ss IH]; cbn [resolve_global_variables]; [apply keeps_ret|].
  apply keeps_bind; [|intros _; exact IH].
  destruct s; try apply keeps_ret.
  - apply keeps_bind; [intros st a st' H; inversion H; reflexivity|]. intros target.
    destruct target; [apply keeps_import_name|apply keeps_fail].
  - apply keeps_from_imports.
Qed.

Lemma keeps_try m : keeps_stack m -> keeps_stack (try_ m).
Proof.
  intros Hm st a st' H. unfold try_ in H. destruct (m st) as [[u s]| | |] eqn:E; try discriminate.
  - inversion H; subst. eapply Hm; eauto.
  - inversion H. reflexivity.
Qed.

Lemma keeps_quiet_round ast : keeps_stack (quiet_round ast).
Proof.
  apply keeps_for_each. intros m. apply keeps_for_each. intros s. destruct s; try apply keeps_ret.
  - apply keeps_try. apply keeps_rgv.
  - apply keeps_for_each. intros it. apply keeps_try. apply keeps_from_imports.
Qed.

Lemma keeps_import_rounds n ast : keeps_stack (import_rounds n ast).
Proof.
  induction n as [|n IH]; intros st a st' H; cbn [import_rounds] in H; [discriminate|].
  destruct (quiet_round ast st) as [[u s]| | |] eqn:E; try discriminate.
  apply keeps_quiet_round in E.
  destruct (Nat.eqb (names_count s) (names_count st)).
  - inversion H; subst. exact E.
  - apply IH in H. congruence.
Qed.

Lemma keeps_import_pass b ast : keeps_stack (import_pass b ast).
Proof.
  unfold import_pass. apply keeps_bind.
  - destruct b; [apply keeps_import_rounds|apply keeps_ret].
  - intros _. apply keeps_for_each. intros m. apply keeps_rgv.
Qed.

Lemma keeps_insert m : keeps_stack (insert_namespace_and_add_definitions m).
Proof.
  unfold insert_namespace_and_add_definitions. apply keeps_bind; [apply keeps_add_definitions|].
  intros t st a st' H. unfold set_namespace in H. inversion H. reflexivity.
Qed.

Lemma with_env_nil st : st_stack st = [] -> st = with_env st [].
Proof. destruct st; cbn; intros ->; reflexivity. Qed.

(* resolve_refines, for the resolver with all four flags on *)
Theorem resolve_refines_g ast : wf_ast ast = true -> resolve fx ast = resolve_spec_g lf rx ast.
Proof.
  intros Hw. unfold resolve, resolve_spec_g, resolve_fuel, resolve_spec_fuel, resolve_m, resolve_spec_m.
  rewrite !bind_eq.
  destruct (for_each insert_namespace_and_add_definitions ast (init_state ast)) as [[[] s1]| | |] eqn:E1; try reflexivity.
  rewrite !bind_eq.
  cbn [imports_fixpoint fxg].
  destruct (import_pass rx ast s1) as [[[] s2]| | |] eqn:E2;
    try reflexivity.
  assert (Hst : st_stack s2 = []).
  { rewrite (keeps_import_pass rx ast _ _ _ E2).
    rewrite (keeps_for_each _ ast keeps_insert _ _ _ E1). reflexivity. }
  assert (Hws : all_with wf_top (flat_map m_stmts ast) = true).
  { clear - Hw. induction ast as [|m ast IH]; [reflexivity|]. cbn in Hw. apply andb_true_iff in Hw as [Hm Ha].
    cbn [flat_map]. specialize (IH Ha). clear Ha. induction (m_stmts m) as [|s l IHl]; [exact IH|].
    cbn in Hm. apply andb_true_iff in Hm as [Hs Hl]. cbn. rewrite Hs. cbn. apply IHl. exact Hl. }
  rewrite !bind_eq. rewrite (with_env_nil s2 Hst) at 1. rewrite (top_block _ _ Hws s2).
  destruct (seq_with (stmt_s (fuel_of ast)) [] (flat_map m_stmts ast) s2) as [[out s3]| | |]; cbn [on_env]; try reflexivity.
  rewrite !bind_eq. unfold lift. rewrite lookup_global_env.
  destruct (lookup_global s3 0 "start") as [[nm|]| | |]; reflexivity.
Qed.

End LF.

(* resolve_refines, for the resolver with all four flags on *)
Theorem resolve_refines rx ast : wf_ast ast = true -> resolve (fxg true rx) ast = resolve_spec rx ast.
Proof. exact (resolve_refines_g true rx ast). Qed.

(* with the three restore flags on and the namespace table consulted first for `x.f` (the code as it is
   after the scope fixes), the code is the specification WITH that quirk *)
Theorem resolve_refines_nsfirst rx ast : wf_ast ast = true -> resolve (fxg false rx) ast = resolve_spec_nsfirst rx ast.
Proof. exact (resolve_refines_g false rx ast). Qed.

Definition restores (fl : rflags) : bool := if_truncates fl && case_truncates fl && else_truncates fl.

(* for whatever flags the code has: once the three restore flags are on, the code is the specification
   with the same choice for `x.f` *)
Theorem resolve_refines_restores fl :
  restores fl = true ->
  forall ast, wf_ast ast = true -> resolve fl ast = resolve_spec_g (access_local_first fl) (imports_fixpoint fl) ast.
Proof.
  destruct fl as [[] [] [] lf rx]; cbn; intros H; try discriminate H. exact (resolve_refines_g lf rx).
Qed.

(* for whatever flags the code has: once all four are on, the code is the specification *)
Theorem resolve_refines_when_restored fl :
  if_truncates fl && case_truncates fl && else_truncates fl && access_local_first fl = true ->
  forall ast, wf_ast ast = true -> resolve fl ast = resolve_spec (imports_fixpoint fl) ast.
Proof.
  destruct fl as [[] [] [] [] rx]; cbn; intros H; try discriminate H. exact (resolve_refines rx).
Qed.
