(* Closures without a name: a lambda expression  fn p1, ..., pn do ... end  evaluates to a new closure on both sides
   (SyltSem: new_clos; Lua: `local function V<t>(ps) <body> end` for a temporary t).  The closure joins the closures of
   the world; nothing names it, the value is handed on. *)
From Coq Require Import String Ascii List NArith ZArith QArith Bool Lia.
From Sylt Require Import Syntax.Resolved.
From Sylt Require Sem.Values Sem.Runtime Sem.SyltSem.
From Sylt Require Import Back.IR Back.Emit Back.ScopeProofs.
From Sylt Require Import Pres.EmitAst Pres.EmitRel Pres.Names Pres.LuaFuel Pres.LuaEv Pres.Preamble.
From Sylt Require Import Pres.Frag.
From Sylt Require Import Pres.SimDefs Pres.SimOps Pres.SimVals.
From Sylt Require Import Pres.SimExpr Pres.LowerShape Pres.SimSteps.
From Sylt Require Import Lua.LuaAst Lua.LuaMap Lua.LuaNum Lua.LuaProofs Lua.LuaCore.
Import ListNotations.
Local Open Scope N_scope.

Definition s_newclos (st : sstate) (cl : SyltSem.closure) : sstate :=
  SyltSem.mkState (SyltSem.cells st) (SyltSem.blobs st) (SyltSem.clos st ++ [cl]) (SyltSem.trace st).

Lemma nth_error_app_old' {A} (l : list A) x c y : nth_error l c = Some y -> nth_error (l ++ [x]) c = Some y.
Proof. intros H. rewrite nth_error_app1; [exact H | apply nth_error_Some; congruence]. Qed.
Lemma nth_error_app_new' {A} (l : list A) x : nth_error (l ++ [x]) (length l) = Some x.
Proof. rewrite nth_error_app2 by lia. rewrite Nat.sub_diag. reflexivity. Qed.

(* the block a balanced code segment emits is a function of the table it starts with *)
Lemma Emits_block_fun' u l code b l' : Emits u l code b l' -> b = estack u l [] [] code.
Proof.
  intros H. rewrite <- (app_nil_r code). rewrite (estack_Emits _ _ _ _ _ H).
  cbn [estack close_all]. symmetry. apply rev'_rev_append_nil.
Qed.

Section DefLam.
Variable pv : N.
Variable sv : N.
Variable bound : N.
Variable u : counts.

(* the Lua state after `local function V<fv>(ps) b end` *)
Definition lua_def_state (stL : state) (E1 : env) (ps : list N) (b : block) : state :=
  set_cell (snd (alloc_closure (snd (alloc_cell stL VNil)) (mkClosure E1 (map fmt_var ps) b))) (s_ncell stL) (VFun (s_nclo stL)).

Lemma lua_def_old stL E1 ps b p : (p < s_ncell stL)%positive -> get_cell (lua_def_state stL E1 ps b) p = get_cell stL p.
Proof.
  intros Hp. unfold lua_def_state. rewrite get_cell_set_other by lia.
  change (get_cell (snd (alloc_cell stL VNil)) p = get_cell stL p). apply get_cell_alloc_old. exact Hp.
Qed.

Lemma linv_lua_def stL E1 ps b : linv stL -> linv (lua_def_state stL E1 ps b).
Proof.
  intros Hli. apply linv_set_cell. destruct Hli as [Hd Hg [Hc] Hn]. constructor.
  - exact Hd.
  - exact Hg.
  - constructor. unfold alloc_closure, alloc_cell. cbn [snd s_clos s_nclo]. rewrite pget_pset_other; [exact Hc | lia].
  - unfold alloc_closure, alloc_cell. cbn [snd s_nclo]. lia.
Qed.


(* `local function V<t>(ps) <body> end` for a temporary t: a new closure *)
Lemma rel_define_lambda fl W sc e st E stL t ps ks rk body g k bc ctx c c2 l :
  rel pv sv bound u fl W sc e st E stL ->
  params_ok pv sv bound fl sc ps = true -> length ks = length ps ->
  fbody_check (frag_stmts pv sv bound (snd (bind_scope ps ks sc fl)) k (fst (bind_scope ps ks sc fl)))
              (fun fl1 sc1 x => frag_fexpr pv sv bound fl1 k sc1 x) (fun fl1 sc1 x => frag_expr pv sv bound fl1 k sc1 x) k body rk = true ->
  lower_fbody (statement g) (expression g) body ctx c = Ok (bc, c2) ->
  ucovers u bc -> bound <= t -> t < c -> lut_ok bound l c c2 -> E_free E c c2 ->
  let E1 := sset (fmt_var t) (s_ncell stL) E in
  let d := mkFdyn t ps ks rk body sc fl g k bc ctx c c2 l
                  0%nat (length (SyltSem.clos st)) e (s_ncell stL) (s_nclo stL) E1 in
  rel pv sv bound u fl (world_addD W d) sc e (s_newclos st (SyltSem.mkClos ps body e))
      E1 (lua_def_state stL E1 ps (fbody u d)).
Proof.
  intros (Hfs & W1 & Hs1 & Hrel0) Hpok Hlks Hfb Hlow Hub Hbt Htc Hlut HEf E1 d.
  pose proof Hrel0 as [Hb Hfbd Hp Hpb HpE HpG Hwf Ht Hli HW].
  pose proof HW as [H1 H2 H3 H4 H5 H6 H7 Hff H8 H9 H10 Hall Hlock H11 H13 H14 Hfi].
  set (stL2 := lua_def_state stL E1 ps (fbody u d)).
  assert (Hold : forall p, (p < s_ncell stL)%positive -> get_cell stL2 p = get_cell stL p)
    by (intros p Hp'; apply lua_def_old; exact Hp').
  assert (Hnc2 : s_ncell stL2 = Pos.succ (s_ncell stL)) by reflexivity.
  assert (Hwf1 : wfenv E1 stL2).
  { pose proof (wfenv_local E stL t VNil Hwf) as [HV Hin Ha]. constructor; [exact HV | exact Hin |].
    intros x p H. specialize (Ha x p H). cbn in *. exact Ha. }
  assert (Hfb2 : forall v, In v sc \/ In v (fnames fl) -> v < bound).
  { intros v [Hv|Hv]; [destruct (Hb v Hv) | destruct (Hfbd v Hv)]; assumption. }
  assert (Hsc2 : forall v, In v sc -> exists c0 p, SyltSem.lookup e v = Some c0 /\ sget (fmt_var v) E1 = Some p /\ w_R W1 c0 p true).
  { intros v Hv. destruct (H11 v Hv) as (c0 & p & A & B & C). exists c0, p.
    split; [exact A | split; [unfold E1; rewrite sget_sset_var by (pose proof (Hfb2 v (or_introl Hv)); lia); exact B | exact C]]. }
  assert (Hfs1 : fscope fl W e E1).
  { intros f K Hin HK. destruct (Hfs f K Hin HK) as (c0 & p & A & B & C). exists c0, p.
    split; [exact A | split; [|exact C]]. unfold E1. rewrite sget_sset_var; [exact B|].
    assert (f < bound) by (apply Hfb2; right; unfold fnames; apply in_map_iff; eexists; split; [|exact Hin]; reflexivity). lia. }
  assert (Hfl2 : forall f K, In (f, K) fl -> K <> KP ->
            exists c0 p, SyltSem.lookup e f = Some c0 /\ sget (fmt_var f) E1 = Some p /\ w_F W1 c0 p K).
  { intros f K Hin HK. destruct (Hfs1 f K Hin HK) as (c0 & p & A & B & C). exists c0, p.
    destruct Hs1 as (_ & HF & _). auto. }
  assert (Htm2 : forall t0 p, bound <= t0 -> sget (fmt_var t0) E1 = Some p -> not_user W1 p).
  { intros t0 p Hbt0 Hq. unfold E1 in Hq. destruct (N.eq_dec t0 t) as [->|Hne].
    - rewrite sget_sset_same in Hq. inversion Hq; subst p. split.
      + intros c0 b Hr. destruct (H1 c0 _ b Hr) as (_ & _ & _ & Hlt). lia.
      + intros c0 K0 Hf. destruct (H6 c0 _ K0 Hf) as (d0 & _ & _ & Hlt & _). lia.
    - rewrite sget_sset_var in Hq by exact Hne. exact (H14 t0 p Hbt0 Hq). }
  assert (Hstatic : fstatic pv sv bound u d).
  { constructor; cbn [d fd_var fd_params fd_pk fd_rk fd_body fd_sc fd_fl fd_g fd_k fd_code fd_c fd_c' fd_lut fd_ef fd_Ef].
    - exact Hlow.
    - exact Hfb.
    - exact Hlks.
    - exact Hpok.
    - exact Hb.
    - exact Hfbd.
    - exact H13.
    - exact Hub.
    - lia.
    - exact Hlut.
    - intros t0 Ht0. unfold E1. rewrite sget_sset_var by lia. apply HEf. exact Ht0.
    - unfold E1. rewrite sget_sset_var by lia. exact HpE.
    - apply (wf_V _ _ Hwf1).
    - apply (wf_inj _ _ Hwf1). }
  split.
  { exact Hfs1. }
  exists (world_addD W1 d). split.
  { destruct Hs1 as (A & B & C & D & F). unfold wsub, world_addD. cbn.
    split; [exact A|]. split; [exact B|]. split; [intros d0 [Hd0|Hd0]; [left; apply C; exact Hd0 | right; exact Hd0]|]. split; assumption. }
  constructor.
  - exact Hb.
  - exact Hfbd.
  - exact Hp.
  - exact Hpb.
  - unfold E1. rewrite sget_sset_var by lia. exact HpE.
  - eapply glob_frame; [|exact HpG]. reflexivity.
  - exact Hwf1.
  - exact Ht.
  - apply linv_lua_def. exact Hli.
  - constructor; cbn [world_addD w_R w_F w_D w_P w_pc s_newclos SyltSem.cells SyltSem.clos].
    + intros c0 p b Hr. destruct (H1 c0 p b Hr) as (y & A & B & C). exists y.
      split; [exact A|]. split; [rewrite Hold by exact C; exact B | rewrite Hnc2; lia].
    + exact H2.
    + exact H3.
    + exact H4.
    + exact H5.
    + intros c0 p K0 Hf. destruct (H6 c0 p K0 Hf) as (d0 & A & B & C & D & Dk). exists d0.
      split; [exact A|]. split; [rewrite Hold by exact C; exact B|]. split; [rewrite Hnc2; lia | split; [left; exact D | exact Dk]].
    + exact H7.
    + exact Hff.
    + intros p lv Hq. destruct (H8 p lv Hq) as [A B]. split; [rewrite Hold by exact B; exact A | rewrite Hnc2; lia].
    + exact H9.
    + intros d0 [Hd0| ->].
      * destruct (H10 d0 Hd0) as (A & B & C & D & F & G & G' & Hsc & Hfl & Htm).
        split; [exact A|]. split; [rewrite nth_error_app1 by exact G; exact B|].
        split.
        { unfold stL2, lua_def_state, set_cell, alloc_closure, alloc_cell. cbn [snd s_clos s_nclo].
          rewrite pget_pset_other; [exact C|]. intros Heq. rewrite F, Hlock in Heq. apply fid_of_inj in Heq. lia. }
        split; [intros x p Hx; specialize (D x p Hx); rewrite Hnc2; lia|].
        split; [exact F|]. split; [rewrite app_length; lia|]. split; [exact G'|].
        split; [exact Hsc|]. split; [exact Hfl | exact Htm].
      * split; [exact Hstatic|]. cbn [d fd_ci fd_params fd_body fd_ef fd_fid fd_Ef fd_sc fd_fl].
        split; [apply nth_error_app_new'|].
        split; [unfold stL2, lua_def_state, set_cell, alloc_closure, alloc_cell; cbn [snd s_clos s_nclo]; apply pget_pset_same|].
        split; [apply (wf_alloc _ _ Hwf1)|].
        split; [exact Hlock|]. split; [rewrite app_length; cbn [length]; lia|].
        split; [exact Hp|].
        split; [exact Hsc2|]. split; [exact Hfl2 | exact Htm2].
    + intros ci Hci. rewrite app_length in Hci. cbn [length] in Hci.
      destruct (Nat.eq_dec ci (length (SyltSem.clos st))) as [->|Hne].
      * exists d. split; [right; reflexivity | reflexivity].
      * destruct (Hall ci ltac:(lia)) as (d0 & A & B). exists d0. split; [left; exact A | exact B].
    + unfold stL2, lua_def_state, set_cell, alloc_closure, alloc_cell. cbn [snd s_nclo].
      rewrite app_length. cbn [length]. rewrite Nat.add_1_r, fid_of_succ, Hlock. reflexivity.
    + exact Hsc2.
    + exact H13.
    + exact Htm2.
    + exact Hfi.
Qed.

End DefLam.
