(* C14 nl_in_brackets at statement level (the corrected statement of LayoutSim.v: enough fuel on both sides).
   The simulation of LayoutSim.v is extended from expressions to types, declarations, statements and blocks.
   New ingredients:
   - a relational reading of programs ([prel2]) whose calls may be to any request, whose error continuations
     know that a failed statement reports at least one error, and which is read semantically with [Fuel] as a
     wildcard ([resrelF]): after the first error inside a block the two runs are no longer in step (they resume
     at different newlines), all that matters is that both end in an error, which ParserTotal.v provides
     ("doomed" block requests: a non-empty error list never answers Ok);
   - [rel] now records that, while newlines count, both cursors have the same last real token behind them
     ([r_last]), which is what the `loop` arm's Context::prev looks at (/repo 6634c32: it steps back only onto
     a newline, and the statement's own expect!(Newline) then returns to where the body ended). *)
From Coq Require Import List NArith Bool Arith Lia.
From Sylt Require Import Syntax.Ast Syntax.Tok Parse.PrecTable Parse.Parser Parse.ParserProofs Parse.Layout
  Parse.LayoutSim Parse.ParserTotal.
From Sylt Require Parse.SimGen.
Import ListNotations.

(* ------------------------------------------------------------------------------------------- *)
(* requests and results *)

Definition unpos (l : list (name * ty * nat)) : list (name * ty) := map fst l.

(* [b], [s]: the bracket state in which the RESULT is handed back (for the requests that close a bracket
   themselves, the state after it) *)
Definition qrel_new (b : bool) (s : list bool) (q q' : req) : Prop :=
  match q, q' with
  | QType c, QType c' => rel b s c c'
  | QSepTypes o c, QSepTypes o' c' => o = b /\ o' = b /\ rel true (b :: s) c c'
  | QTyTuple i acc c, QTyTuple i' acc' c' => i = i' /\ acc = acc' /\ rel b s c c'
  | QStmts acc errs c, QStmts acc' errs' c' =>
      (acc = acc' /\ errs = [] /\ errs' = [] /\ b = false /\ rel false s c c') \/ (errs <> [] /\ errs' <> [])
  | QStmt c, QStmt c' => b = false /\ rel false s c c'
  | QEnumItems acc c, QEnumItems acc' c' => unpos acc = unpos acc' /\ b = false /\ rel false s c c'
  | QBlobFields acc c, QBlobFields acc' c' => acc = acc' /\ rel b s c c'
  | _, _ => False
  end.

Definition qrel2 (b : bool) (s : list bool) (q q' : req) : Prop := qrel b s q q' \/ qrel_new b s q q'.

Definition orel_new (b : bool) (s : list bool) (o o' : out) : Prop :=
  match o, o' with
  | RT t c, RT t' c' => t = t' /\ rel b s c c'
  | RTs ts c, RTs ts' c' => ts = ts' /\ rel b s c c'
  | RTyTup i ts c, RTyTup i' ts' c' => i = i' /\ ts = ts' /\ rel b s c c'
  | RSs ss c, RSs ss' c' => ss = ss' /\ rel b s c c'
  | RS st c, RS st' c' => st = st' /\ rel b s c c'
  | RNTs l c, RNTs l' c' => l = l' /\ rel b s c c'
  | REnum l c, REnum l' c' => unpos l = unpos l' /\ rel b s c c'
  | _, _ => False
  end.

Definition is_old (q : req) : bool :=
  match q with
  | QPrec _ _ | QLoop _ _ _ | QSub _ _ | QArgs _ _ _ | QTuple _ _ _ | QList _ _ | QFields _ _ => true
  | _ => false
  end.

Definition orelq (b : bool) (s : list bool) (q : req) (o o' : out) : Prop :=
  if is_old q then orel b s o o' else orel_new b s o o'.

(* a failed statement reports at least one error (ParserTotal) *)
Definition UErr (q : req) (es : list nat) : Prop :=
  match q with QStmt _ => es <> [] | _ => True end.

(* a successful statement has consumed a non-comment token (ParserTotal) *)
Definition UOk (q : req) (o : out) : Prop :=
  match q, o with QStmt c, RS _ c' => ltm c c' | _, _ => True end.

Inductive prel2 {A : Type} (RA : A -> A -> Prop) : prog A -> prog A -> Prop :=
| p2_ret r r' : resrel RA r r' -> prel2 RA (Ret r) (Ret r')
| p2_call b s q q' k k' e e' :
    qrel2 b s q q' ->
    (forall o o', orelq b s q o o' -> UOk q o -> UOk q' o' -> prel2 RA (k o) (k' o')) ->
    (forall c es c' es', UErr q es -> UErr q' es' -> prel2 RA (e c es) (e' c' es')) ->
    prel2 RA (Call q k e) (Call q' k' e').

Lemma qrel_old b s q q' : qrel b s q q' -> is_old q = true.
Proof. destruct q, q'; cbn [qrel]; try contradiction; reflexivity. Qed.

(* everything proved in LayoutSim.v carries over *)
Lemma prel_embed {A : Type} (RA : A -> A -> Prop) m m' : prel RA m m' -> prel2 RA m m'.
Proof.
  intros H. induction H as [r r' Hr|b s q q' k k' e e' Hq Hk IHk He IHe].
  - constructor. exact Hr.
  - apply (p2_call RA b s); [left; exact Hq| |].
    + intros o o' Ho _ _. apply IHk. unfold orelq in Ho. rewrite (qrel_old b s q q' Hq) in Ho. exact Ho.
    + intros c es c' es' _ _. apply IHe.
Qed.

(* outcomes, with "out of fuel" as a wildcard *)
Definition resrelF {A : Type} (RA : A -> A -> Prop) (r r' : res A) : Prop :=
  r = Fuel \/ r' = Fuel \/ resrel RA r r'.

Lemma run_relF {A : Type} (RA : A -> A -> Prop) (rec rec' : req -> res out) :
  (forall b s q q', qrel2 b s q q' -> resrelF (orelq b s q) (rec q) (rec' q')) ->
  (forall q c es, rec q = Err c es -> UErr q es) -> (forall q c es, rec' q = Err c es -> UErr q es) ->
  (forall q o, rec q = Ok o -> UOk q o) -> (forall q o, rec' q = Ok o -> UOk q o) ->
  forall m m', prel2 RA m m' -> resrelF RA (run rec m) (run rec' m').
Proof.
  intros HR HE HE' HO HO' m m' H. induction H as [r r' Hr|b s q q' k k' e e' Hq Hk IHk He IHe].
  - right. right. exact Hr.
  - cbn [run]. specialize (HR b s q q' Hq).
    pose proof (HE q) as U. pose proof (HE' q') as U'. pose proof (HO q) as V. pose proof (HO' q') as V'.
    destruct (rec q) as [o|c es| |]; [| |left; reflexivity|].
    + destruct (rec' q') as [o'|c' es'| |]; [| |right; left; reflexivity|].
      * apply IHk; [destruct HR as [X|[X|X]]; try discriminate; exact X|apply V; reflexivity|apply V'; reflexivity].
      * destruct HR as [X|[X|X]]; try discriminate. contradiction.
      * destruct HR as [X|[X|X]]; try discriminate. contradiction.
    + destruct (rec' q') as [o'|c' es'| |]; [| |right; left; reflexivity|].
      * destruct HR as [X|[X|X]]; try discriminate. contradiction.
      * apply IHe; [eapply U; reflexivity|eapply U'; reflexivity].
      * destruct HR as [X|[X|X]]; try discriminate. contradiction.
    + destruct (rec' q') as [o'|c' es'| |]; [| |right; left; reflexivity|].
      * destruct HR as [X|[X|X]]; try discriminate. contradiction.
      * destruct HR as [X|[X|X]]; try discriminate. contradiction.
      * right. right. exact I.
Qed.

Lemma ptry2_rel {A B : Type} (RA : A -> A -> Prop) (RB : B -> B -> Prop) m m' (k k' : A -> prog B)
  (e e' : ctx -> list nat -> prog B) :
  prel2 RA m m' -> (forall a a', RA a a' -> prel2 RB (k a) (k' a')) ->
  (forall c es c' es', prel2 RB (e c es) (e' c' es')) ->
  prel2 RB (ptry m k e) (ptry m' k' e').
Proof.
  intros H Hk He. induction H as [r r' Hr|b s q q' k0 k0' e0 e0' Hq Hk0 IHk He0 IHe].
  - destruct r as [a|c es| |], r' as [a'|c' es'| |]; try contradiction; cbn [ptry].
    + apply Hk. exact Hr.
    + apply He.
    + constructor. exact I.
    + constructor. exact I.
  - cbn [ptry]. apply (p2_call RB b s); [exact Hq| |].
    + intros o o' Ho V V'. apply IHk; assumption.
    + intros c es c' es' U U'. apply IHe; assumption.
Qed.

Lemma p2_ok {A : Type} (RA : A -> A -> Prop) a a' : RA a a' -> prel2 RA (ok a) (ok a').
Proof. intros H. constructor. exact H. Qed.
Lemma p2_raise {A : Type} (RA : A -> A -> Prop) c c' : prel2 RA (praise c) (praise c').
Proof. constructor. exact I. Qed.
Lemma p2_reraise {A : Type} (RA : A -> A -> Prop) c es c' es' : prel2 RA (reraise c es) (reraise c' es').
Proof. constructor. exact I. Qed.
Lemma p2_panic {A : Type} (RA : A -> A -> Prop) : prel2 RA panic panic.
Proof. constructor. exact I. Qed.
Ltac rr2 := first [apply p2_raise | apply p2_panic | (intros; apply p2_reraise)].

Lemma bind2_rel {A B : Type} (RA : A -> A -> Prop) (RB : B -> B -> Prop) m m' (k k' : A -> prog B) :
  prel2 RA m m' -> (forall a a', RA a a' -> prel2 RB (k a) (k' a')) ->
  prel2 RB (ptry m k reraise) (ptry m' k' reraise).
Proof. intros H Hk. apply (ptry2_rel RA); [exact H|exact Hk|rr2]. Qed.

Lemma prel2_weaken {A : Type} (RA RB : A -> A -> Prop) m m' :
  (forall a a', RA a a' -> RB a a') -> prel2 RA m m' -> prel2 RB m m'.
Proof.
  intros W H. induction H as [r r' Hr|b s q q' k k' e e' Hq Hk IHk He IHe].
  - constructor. destruct r, r'; try contradiction; try exact Hr; try exact I. apply W. exact Hr.
  - apply (p2_call RB b s); assumption.
Qed.

(* a result paired with the context after it *)
Definition XR {A : Type} (b : bool) (s : list bool) (x x' : A * ctx) : Prop :=
  fst x = fst x' /\ rel b s (snd x) (snd x').

Section Sim2.
Variable T : ptab.
Hypothesis sane : bracket_sane T.

Lemma call2_rel b s q q' : qrel2 b s q q' -> prel2 (orelq b s q) (call q) (call q').
Proof. intros H. unfold call. apply (p2_call _ b s); [exact H| |rr2]. intros o o' Ho _ _. apply p2_ok. exact Ho. Qed.

Lemma call_new_rel b s q q' : qrel_new b s q q' -> prel2 (orel_new b s) (call q) (call q').
Proof.
  intros H. assert (N : is_old q = false) by (destruct q, q'; cbn [qrel_new] in H; try contradiction; reflexivity).
  pose proof (call2_rel b s q q' (or_intror H)) as X. unfold orelq in X. rewrite N in X. exact X.
Qed.

Lemma expression2_rel b s c c' : rel b s c c' -> prel2 (XR b s) (expression T c) (expression T c').
Proof. intros R. apply prel_embed. apply expression_rel. exact R. Qed.

Lemma pexpect2_plain b s c c' k : rel b s c c' -> opener (TK k) = false -> closer (TK k) = false ->
  prel2 (rel b s) (pexpect k c) (pexpect k c').
Proof. intros R O Cl. apply prel_embed. apply (pexpect_rel_plain b s c c' k R O Cl). Qed.

Lemma pexpect2_leave b b0 s c c' k : rel b (b0 :: s) c c' -> closer (TK k) = true ->
  prel2 (rel b0 s) (pexpect k (pop_nl b0 c)) (pexpect k (pop_nl b0 c')).
Proof. intros R Cl. apply prel_embed. apply (pexpect_leave b b0 s c c' k R Cl). Qed.

Ltac new_getter := 
  let o := fresh "o" in let o' := fresh "o'" in let Ho := fresh "Ho" in
  intros o o' Ho _ _; unfold orelq in Ho; cbn [is_old] in Ho;
  destruct o, o'; cbn [orel_new] in Ho; try contradiction;
  cbn [get_T get_Ts get_TyTup get_Ss get_S get_NTs get_Enum]; try apply p2_panic; apply p2_ok;
  first [exact Ho | (destruct Ho as (-> & -> & Ho); split; [reflexivity|exact Ho])].

Lemma parse_type2_rel b s c c' : rel b s c c' -> prel2 (XR b s) (parse_type c) (parse_type c').
Proof.
  intros R. unfold parse_type, call_T. apply (p2_call _ b s); [right; exact R| |rr2]. new_getter.
Qed.

Lemma skip_plain_tk b s c c' t : rel b s c c' -> token c = t -> opener t = false -> closer t = false ->
  rel b s (skip 1 c) (skip 1 c').
Proof. intros R Tk O Cl. apply rel_skip_plain; [exact R| |]; rewrite Tk; assumption. Qed.

Lemma frag_contra b s c c' : rel b s c c' -> frag_tok (token c) = false -> False.
Proof. intros R H. rewrite (rel_frag_tok b s c c' R) in H. discriminate. Qed.

Lemma paren_types_rel b s c c' : rel b s c c' -> prel2 (XR b s) (paren_types c) (paren_types c').
Proof.
  intros R. unfold paren_types. rewrite <- (rel_is_k b s c c' KLeftParen R).
  destruct (is_k KLeftParen c) eqn:Ek; [|apply p2_ok; split; [reflexivity|exact R]].
  destruct (expect_enter b s c c' KLeftParen R eq_refl Ek) as (R2 & O1 & O2).
  destruct (push_nl true (skip 1 c)) as [c2 old]. destruct (push_nl true (skip 1 c')) as [c2' old'].
  cbn [fst snd] in R2, O1, O2. subst old old'.
  unfold call_Ts. apply (p2_call _ b s); [right; cbn [qrel_new]; auto| |rr2]. new_getter.
Qed.

Lemma step_type_rel b s c c' : rel b s c c' -> prel2 (orel_new b s) (step_type c) (step_type c').
Proof.
  intros R. unfold step_type. pose proof (rel_token b s c c' R) as Tk'. rewrite <- Tk'.
  destruct (token c) as [n| | | | | |k|] eqn:Tk; try rr2.
  - pose proof (ta_rel b s c c' R) as TA.
    destruct (type_assignable c) as [[a c1]|ce es| |], (type_assignable c') as [[a' c1']|ce' es'| |];
      try contradiction; cbn [ptry]; try (constructor; exact I).
    destruct TA as [Ha R1]. cbn [fst snd] in Ha, R1. subst a'.
    apply (bind2_rel (XR b s)); [apply paren_types_rel; exact R1|].
    intros [args c2] [args' c2'] [Hx R2]. cbn [fst snd] in Hx, R2. subst args'.
    apply p2_ok. split; [reflexivity|exact R2].
  - assert (R1 : opener (TK k) = false -> closer (TK k) = false -> rel b s (skip 1 c) (skip 1 c'))
      by (intros O Cl; exact (skip_plain_tk b s c c' (TK k) R Tk O Cl)).
    destruct k; try rr2; try (apply p2_ok; split; [reflexivity|apply R1; reflexivity]).
    + (* star *)
      specialize (R1 eq_refl eq_refl). cbv zeta. rewrite <- (rel_token b s _ _ R1).
      destruct (token (skip 1 c)) eqn:Tk1; try (apply p2_ok; split; [reflexivity|exact R1]).
      apply p2_ok. split; [reflexivity|]. apply (skip_plain_tk b s _ _ _ R1 Tk1); reflexivity.
    + (* ( *)
      destruct (rel_enter b s c c' R) as (R2 & O1 & O2); [rewrite Tk; reflexivity|].
      destruct (push_nl true (skip 1 c)) as [c2 old]. destruct (push_nl true (skip 1 c')) as [c2' old'].
      cbn [fst snd] in R2, O1, O2. subst old old'. cbv zeta.
      rewrite <- !(rel_is_k true (b :: s) c2 c2' _ R2).
      apply (bind2_rel (XR true (b :: s))).
      * unfold call_TyTup. apply (p2_call _ true (b :: s)); [right; cbn [qrel_new]; auto| |rr2]. new_getter.
      * intros [[i ts] c3] [[i' ts'] c3'] [Hx Rc]. cbn [fst snd] in Hx, Rc. inversion Hx; subst i' ts'.
        apply (bind2_rel (rel b s)); [apply (pexpect2_leave true); [exact Rc|reflexivity]|].
        intros c5 c5' R5. destruct i.
        -- apply p2_ok. split; [reflexivity|exact R5].
        -- destruct ts; [apply p2_panic|]. apply p2_ok. split; [reflexivity|exact R5].
    + (* [ *)
      destruct (rel_enter b s c c' R) as (R2 & O1 & O2); [rewrite Tk; reflexivity|].
      destruct (push_nl true (skip 1 c)) as [c2 old]. destruct (push_nl true (skip 1 c')) as [c2' old'].
      cbn [fst snd] in R2, O1, O2. subst old old'.
      apply (bind2_rel (XR true (b :: s))); [apply parse_type2_rel; exact R2|].
      intros [t0 c3] [t0' c3'] [Hx Rc]. cbn [fst snd] in Hx, Rc. subst t0'.
      apply (bind2_rel (rel b s)); [apply (pexpect2_leave true); [exact Rc|reflexivity]|].
      intros c5 c5' R5. apply p2_ok. split; [reflexivity|exact R5].
    + (* fn *) exfalso. apply (frag_contra b s c c' R). rewrite Tk. reflexivity.
    + (* pu *) exfalso. apply (frag_contra b s c c' R). rewrite Tk. reflexivity.
Qed.

Lemma step_sep_types_rel b s c c' : rel true (b :: s) c c' ->
  prel2 (orel_new b s) (step_sep_types b c) (step_sep_types b c').
Proof.
  intros R. unfold step_sep_types. rewrite <- (rel_is_k _ _ c c' KRightParen R).
  destruct (is_k KRightParen c) eqn:Ek.
  { apply p2_ok. split; [reflexivity|]. apply (rel_leave true); [exact R|]. rewrite (is_k_token _ _ Ek). reflexivity. }
  apply (bind2_rel (XR true (b :: s))); [apply parse_type2_rel; exact R|].
  intros [t0 c1] [t0' c1'] [Hx R1]. cbn [fst snd] in Hx, R1. subst t0'.
  rewrite <- (rel_is_k _ _ c1 c1' KRightParen R1).
  destruct (is_k KRightParen c1) eqn:Ek1.
  { apply p2_ok. split; [reflexivity|]. apply (rel_leave true); [exact R1|]. rewrite (is_k_token _ _ Ek1). reflexivity. }
  apply (bind2_rel (rel true (b :: s))); [apply pexpect2_plain; [exact R1|reflexivity|reflexivity]|].
  intros c2 c2' R2.
  apply (bind2_rel (XR b s)).
  - unfold call_Ts. apply (p2_call _ b s); [right; cbn [qrel_new]; auto| |rr2]. new_getter.
  - intros [ts c3] [ts' c3'] [Hx R3]. cbn [fst snd] in Hx, R3. subst ts'.
    apply p2_ok. split; [reflexivity|exact R3].
Qed.

Lemma step_ty_tuple_rel b s i acc c c' : rel b s c c' ->
  prel2 (orel_new b s) (step_ty_tuple i acc c) (step_ty_tuple i acc c').
Proof.
  intros R0. unfold step_ty_tuple. cbv zeta.
  assert (R : rel b s (skip_if KComma c) (skip_if KComma c')) by (apply rel_skip_if; [exact R0|reflexivity|reflexivity]).
  rewrite <- (rel_token b s _ _ R).
  assert (D : prel2 (orel_new b s)
     (ptry (parse_type (skip_if KComma c))
        (fun '(t, c1) => call (QTyTuple (i || is_k KComma c1) (acc ++ [t]) c1)) reraise)
     (ptry (parse_type (skip_if KComma c'))
        (fun '(t, c1) => call (QTyTuple (i || is_k KComma c1) (acc ++ [t]) c1)) reraise)).
  { apply (bind2_rel (XR b s)); [apply parse_type2_rel; exact R|].
    intros [t0 c1] [t0' c1'] [Hx R1]. cbn [fst snd] in Hx, R1. subst t0'.
    rewrite <- (rel_is_k b s c1 c1' KComma R1). apply call_new_rel. cbn [qrel_new]. auto. }
  destruct (token (skip_if KComma c)) as [| | | | | |k|]; try exact D.
  - destruct k; try exact D. apply p2_ok. cbn [orel_new]. auto.
  - apply p2_ok. cbn [orel_new]. auto.
Qed.

(* ---- token-only loops (their local fuels differ on the two sides: both suffice) ---- *)

Lemma tk_len c t : token c = t -> t <> TEOF -> t <> TComment -> length (post (skip 1 c)) < length (post c).
Proof.
  intros Tk E0 E1. apply skip1_len_tok.
  - unfold token in Tk. destruct (post c); [congruence|discriminate].
  - rewrite Tk. exact E1.
Qed.

Lemma path_loop_rel b s : forall f f' c c' acc, rel b s c c' ->
  length (post c) < f -> length (post c') < f' ->
  fst (path_loop f c acc) = fst (path_loop f' c' acc) /\ rel b s (snd (path_loop f c acc)) (snd (path_loop f' c' acc)).
Proof.
  induction f as [|f IH]; intros f' c c' acc R L L'; [lia|]. destruct f' as [|f']; [lia|].
  cbn [path_loop]. pose proof (rel_token b s c c' R) as Tk'. rewrite <- Tk'.
  destruct (token c) as [n| | | | | | |] eqn:Tk; try (split; [reflexivity|exact R]).
  cbv zeta.
  assert (R1 : rel b s (skip 1 c) (skip 1 c')) by (apply (skip_plain_tk b s c c' _ R Tk); reflexivity).
  pose proof (tk_len c _ Tk ltac:(discriminate) ltac:(discriminate)) as L1.
  pose proof (tk_len c' _ (eq_sym Tk') ltac:(discriminate) ltac:(discriminate)) as L1'.
  rewrite <- (rel_is_k b s _ _ KSlash R1).
  destruct (is_k KSlash (skip 1 c)) eqn:Es.
  - apply IH.
    + apply (skip_plain_tk b s _ _ _ R1 (is_k_token _ _ Es)); reflexivity.
    + pose proof (skip_len_le 1 (skip 1 c)). lia.
    + pose proof (skip_len_le 1 (skip 1 c')). lia.
  - apply IH; [exact R1|lia|lia].
Qed.

Lemma path_rel b s c c' : rel b s c c' -> resrel0 (XR b s) (path c) (path c').
Proof.
  intros R. unfold path. pose proof (rel_token b s c c' R) as Tk'. rewrite <- Tk'.
  destruct (token c) as [n| | | | | |k|] eqn:Tk; try exact I.
  - apply path_loop_rel; [exact R|unfold local_fuel; lia|unfold local_fuel; lia].
  - destruct k; try exact I.
    apply path_loop_rel; [apply (skip_plain_tk b s c c' _ R Tk); reflexivity| |]; unfold local_fuel.
    + pose proof (skip_len_le 1 c). lia.
    + pose proof (skip_len_le 1 c'). lia.
Qed.

Lemma use_path_rel b s c c' : rel b s c c' -> resrel0 (XR b s) (use_path c) (use_path c').
Proof.
  intros R. unfold use_path. pose proof (path_rel b s c c' R) as H.
  destruct (path c) as [[p c1]|ce es| |], (path c') as [[p' c1']|ce' es'| |]; try contradiction; cbn [bind]; try exact I.
  destruct H as [Hp R1]. cbn [fst snd] in Hp, R1. subst p'. split; [reflexivity|exact R1].
Qed.

Lemma from_imports_rel b s : forall f f' c c' acc, rel b s c c' ->
  length (post c) < f -> length (post c') < f' ->
  resrel0 (XR b s) (from_imports f c acc) (from_imports f' c' acc).
Proof.
  induction f as [|f IH]; intros f' c c' acc R L L'; [lia|]. destruct f' as [|f']; [lia|].
  cbn [from_imports]. pose proof (rel_token b s c c' R) as Tk'. rewrite <- Tk'.
  destruct (token c) as [n| | | | | |k|] eqn:Tk; try exact I.
  - cbv zeta.
    assert (R1 : rel b s (skip 1 c) (skip 1 c')) by (apply (skip_plain_tk b s c c' _ R Tk); reflexivity).
    pose proof (tk_len c _ Tk ltac:(discriminate) ltac:(discriminate)) as L1.
    pose proof (tk_len c' _ (eq_sym Tk') ltac:(discriminate) ltac:(discriminate)) as L1'.
    rewrite <- (rel_is_k b s _ _ KAs R1).
    (* the optional alias *)
    assert (A : resrel0 (fun x x' : option name * ctx => fst x = fst x' /\ rel b s (snd x) (snd x')
                                                       /\ length (post (snd x)) < length (post c)
                                                       /\ length (post (snd x')) < length (post c'))
       (if is_k KAs (skip 1 c)
        then match token (skip 1 (skip 1 c)) with
             | TIdent a => Ok (Some a, skip 1 (skip 1 (skip 1 c)))
             | _ => raise (skip 1 (skip 1 c))
             end
        else Ok (None, skip 1 c))
       (if is_k KAs (skip 1 c)
        then match token (skip 1 (skip 1 c')) with
             | TIdent a => Ok (Some a, skip 1 (skip 1 (skip 1 c')))
             | _ => raise (skip 1 (skip 1 c'))
             end
        else Ok (None, skip 1 c'))).
    { destruct (is_k KAs (skip 1 c)) eqn:Ea; [|cbn [resrel0 fst snd]; auto].
      assert (R2 : rel b s (skip 1 (skip 1 c)) (skip 1 (skip 1 c')))
        by (apply (skip_plain_tk b s _ _ _ R1 (is_k_token _ _ Ea)); reflexivity).
      rewrite <- (rel_token b s _ _ R2).
      destruct (token (skip 1 (skip 1 c))) eqn:Tk2; try exact I.
      cbn [resrel0 fst snd]. split; [reflexivity|split; [apply (skip_plain_tk b s _ _ _ R2 Tk2); reflexivity|]].
      pose proof (skip_len_le 1 (skip 1 c)). pose proof (skip_len_le 1 (skip 1 (skip 1 c))).
      pose proof (skip_len_le 1 (skip 1 c')). pose proof (skip_len_le 1 (skip 1 (skip 1 c'))). lia. }
    match goal with
    | A : resrel0 _ ?m ?m' |- resrel0 _ (bind ?m _) (bind ?m' _) =>
        destruct m as [[al c2]|ce es| |], m' as [[al' c2']|ce' es'| |]; try contradiction; cbn [bind]; try exact I
    end.
    destruct A as (Ha & R2 & L2 & L2'). cbn [fst snd] in Ha, R2, L2, L2'. subst al'.
    rewrite <- (rel_token b s _ _ R2).
    destruct (token c2) as [| | | | | |k2|] eqn:Tk2; try exact I.
    assert (R3 : rel b s (skip_if KComma c2) (skip_if KComma c2'))
      by (apply rel_skip_if; [exact R2|reflexivity|reflexivity]).
    assert (L3 : length (post (skip_if KComma c2)) <= length (post c2))
      by (unfold skip_if; destruct (is_k KComma c2); [apply skip_len_le|lia]).
    assert (L3' : length (post (skip_if KComma c2')) <= length (post c2'))
      by (unfold skip_if; destruct (is_k KComma c2'); [apply skip_len_le|lia]).
    destruct k2; try exact I; (apply IH; [exact R3|lia|lia]).
  - destruct k; try exact I; (split; [reflexivity|exact R]).
Qed.

Lemma sep_vars_rel b s : forall f f' c c', rel true (b :: s) c c' ->
  length (post c) < f -> length (post c') < f' ->
  resrel0 (XR b s) (sep_vars f b c) (sep_vars f' b c').
Proof.
  induction f as [|f IH]; intros f' c c' R L L'; [lia|]. destruct f' as [|f']; [lia|].
  cbn [sep_vars]. rewrite <- (rel_is_k _ _ c c' KRightParen R).
  destruct (is_k KRightParen c) eqn:Ek.
  { split; [reflexivity|]. apply (rel_leave true); [exact R|]. rewrite (is_k_token _ _ Ek). reflexivity. }
  unfold expect at 1 3. rewrite <- (rel_is_k _ _ c c' KStar R).
  destruct (is_k KStar c) eqn:Es; [|exact I]. cbn [bind].
  assert (R1 : rel true (b :: s) (skip 1 c) (skip 1 c'))
    by (apply (skip_plain_tk _ _ _ _ _ R (is_k_token _ _ Es)); reflexivity).
  pose proof (tk_len c _ (is_k_token _ _ Es) ltac:(discriminate) ltac:(discriminate)) as L1.
  pose proof (tk_len c' _ (is_k_token _ _ (eq_trans (eq_sym (rel_is_k _ _ c c' KStar R)) Es))
                ltac:(discriminate) ltac:(discriminate)) as L1'.
  rewrite <- (rel_token _ _ _ _ R1).
  destruct (token (skip 1 c)) as [v| | | | | | |] eqn:Tk1; try exact I.
  assert (R2 : rel true (b :: s) (skip 1 (skip 1 c)) (skip 1 (skip 1 c')))
    by (apply (skip_plain_tk _ _ _ _ _ R1 Tk1); reflexivity).
  pose proof (skip_len_le 1 (skip 1 c)). pose proof (skip_len_le 1 (skip 1 c')).
  rewrite <- (rel_is_k _ _ _ _ KRightParen R2).
  destruct (is_k KRightParen (skip 1 (skip 1 c))) eqn:Ek2.
  { split; [reflexivity|]. apply (rel_leave true); [exact R2|]. rewrite (is_k_token _ _ Ek2). reflexivity. }
  unfold expect. rewrite <- (rel_is_k _ _ _ _ KComma R2).
  destruct (is_k KComma (skip 1 (skip 1 c))) eqn:Ec; [|exact I]. cbn [bind].
  assert (R3 : rel true (b :: s) (skip 1 (skip 1 (skip 1 c))) (skip 1 (skip 1 (skip 1 c'))))
    by (apply (skip_plain_tk _ _ _ _ _ R2 (is_k_token _ _ Ec)); reflexivity).
  pose proof (skip_len_le 1 (skip 1 (skip 1 c))). pose proof (skip_len_le 1 (skip 1 (skip 1 c'))).
  pose proof (IH f' _ _ R3 ltac:(lia) ltac:(lia)) as X.
  destruct (sep_vars f b (skip 1 (skip 1 (skip 1 c)))) as [[vs c4]|ce es| |],
           (sep_vars f' b (skip 1 (skip 1 (skip 1 c')))) as [[vs' c4']|ce' es'| |];
    try contradiction; cbn [bind]; try exact I.
  destruct X as [Hv R4]. cbn [fst snd] in Hv, R4. subst vs'. split; [reflexivity|exact R4].
Qed.

Lemma paren_vars_rel b s c c' : rel b s c c' -> resrel0 (XR b s) (paren_vars c) (paren_vars c').
Proof.
  intros R. unfold paren_vars. rewrite <- (rel_is_k b s c c' KLeftParen R).
  destruct (is_k KLeftParen c) eqn:Ek; [|split; [reflexivity|exact R]].
  destruct (expect_enter b s c c' KLeftParen R eq_refl Ek) as (R2 & O1 & O2).
  destruct (push_nl true (skip 1 c)) as [c2 old] eqn:E2. destruct (push_nl true (skip 1 c')) as [c2' old'] eqn:E2'.
  cbn [fst snd] in R2, O1, O2. subst old old'.
  apply sep_vars_rel; [exact R2| |]; unfold local_fuel.
  - assert (X : c2 = fst (push_nl true (skip 1 c))) by (rewrite E2; reflexivity).
    subst c2. unfold push_nl. cbn [fst].
    pose proof (skip_len_le 0 (set_nl true (skip 1 c))). pose proof (skip_len_le 1 c).
    cbn [set_nl post] in *. lia.
  - assert (X : c2' = fst (push_nl true (skip 1 c'))) by (rewrite E2'; reflexivity).
    subst c2'. unfold push_nl. cbn [fst].
    pose proof (skip_len_le 0 (set_nl true (skip 1 c'))). pose proof (skip_len_le 1 c').
    cbn [set_nl post] in *. lia.
Qed.

(* ---- skip(2), skip(3) while newlines count ---- *)

Lemma adv_strip_false : forall ts n p,
  adv (snd (strip false ts p)) (S n) (fst (strip false ts p)) = adv ts (S n) p.
Proof.
  induction ts as [|t ts IH]; intros n p; [reflexivity|]. cbn [strip].
  destruct t as [| | | | | |k|]; try reflexivity; [cbn [adv]; apply IH|]. destruct k; reflexivity.
Qed.

Lemma adv_split : forall ts n p,
  adv ts (S (S n)) p =
  match adv ts 1 p with
  | (p1, q1, 0) => adv q1 (S n) p1
  | (p1, q1, S l) => (p1, q1, S n + S l)
  end.
Proof.
  induction ts as [|t ts IH]; intros n p.
  - cbn [adv]. rewrite Nat.add_comm. reflexivity.
  - cbn [adv]. destruct t; try (destruct ts; reflexivity). apply IH.
Qed.

Lemma skip_succ c n : nl c = false -> skip (S (S n)) c = skip (S n) (skip 1 c).
Proof.
  intros N. unfold skip at 1 3. rewrite N. rewrite adv_split.
  destruct (adv (post c) 1 (pre c)) as [[p1 q1] l1] eqn:A.
  destruct l1 as [|l].
  - pose proof (adv_strip_false q1 n p1) as S0.
    destruct (strip false q1 p1) as [p2 q2]. cbn [fst snd] in S0. unfold skip. cbn [pre post over nl].
    rewrite S0. destruct (adv q1 (S n) p1) as [[p3 q3] l3]. rewrite Nat.add_0_r. reflexivity.
  - (* ran past the end: nothing is left *)
    assert (Q : q1 = []).
    { clear -A. revert A. generalize (pre c). induction (post c) as [|t ts IH]; intros p A.
      - cbn [adv] in A. inversion A. reflexivity.
      - cbn [adv] in A. destruct t; try (destruct ts; cbn [adv] in A; discriminate A). eapply IH. exact A. }
    subst q1. cbn [strip]. unfold skip. cbn [pre post over nl adv strip].
    f_equal. lia.
Qed.

Lemma skip2_eq c : nl c = false -> skip 2 c = skip 1 (skip 1 c).
Proof. apply skip_succ. Qed.

Lemma skip_nl n c : nl (skip n c) = nl c.
Proof.
  unfold skip. destruct (adv (post c) n (pre c)) as [[p1 q1] l1]. destruct (strip (nl c) q1 p1). reflexivity.
Qed.

Lemma skip3_eq c : nl c = false -> skip 3 c = skip 1 (skip 1 (skip 1 c)).
Proof.
  intros N. rewrite (skip_succ c 1 N). rewrite (skip_succ (skip 1 c) 0); [reflexivity|]. rewrite skip_nl. exact N.
Qed.

(* ---- blob fields, enum variants ---- *)

Lemma step_blob_fields_rel b s acc c c' : rel b s c c' ->
  prel2 (orel_new b s) (step_blob_fields acc c) (step_blob_fields acc c').
Proof.
  intros R. unfold step_blob_fields. pose proof (rel_token b s c c' R) as Tk'. rewrite <- Tk'.
  destruct (token c) as [f| | | | | |k|] eqn:Tk; try rr2.
  - destruct (name_eqb f self_name); [rr2|]. destruct (has_key f acc); [rr2|].
    assert (R1 : rel b s (skip 1 c) (skip 1 c')) by (apply (skip_plain_tk b s c c' _ R Tk); reflexivity).
    apply (bind2_rel (rel b s)); [apply pexpect2_plain; [exact R1|reflexivity|reflexivity]|].
    intros c1 c1' R2.
    apply (bind2_rel (XR b s)); [apply parse_type2_rel; exact R2|].
    intros [t0 c2] [t0' c2'] [Hx R3]. cbn [fst snd] in Hx, R3. subst t0'.
    rewrite <- !(rel_is_k b s c2 c2' _ R3).
    destruct (is_k KComma c2 || is_k KRightBrace c2); [|rr2].
    apply call_new_rel. cbn [qrel_new]. split; [reflexivity|]. apply rel_skip_if; [exact R3|reflexivity|reflexivity].
  - destruct k; try rr2;
      first [apply p2_ok; cbn [orel_new]; auto
            |apply call_new_rel; cbn [qrel_new]; split; [reflexivity|]; apply (skip_plain_tk b s c c' _ R Tk); reflexivity].
Qed.

Definition EIR (s : list bool) (x x' : name * ty * nat * ctx) : Prop :=
  fst (fst x) = fst (fst x') /\ rel false s (snd x) (snd x').

Lemma enum_item_rel s c c' : rel false s c c' -> prel2 (EIR s) (enum_item c) (enum_item c').
Proof.
  intros R0. unfold enum_item. cbv zeta.
  assert (R : rel false s (skip_nls c) (skip_nls c')) by (apply rel_skip_nls; exact R0).
  rewrite <- (rel_token _ _ _ _ R).
  destruct (token (skip_nls c)) as [v| | | | | | |] eqn:Tk; try rr2.
  assert (R1 : rel false s (skip 1 (skip_nls c)) (skip 1 (skip_nls c')))
    by (apply (skip_plain_tk _ _ _ _ _ R Tk); reflexivity).
  destruct (negb (is_capitalized v)); [rr2|].
  apply (bind2_rel (XR false s)).
  - rewrite <- !(rel_is_k _ _ _ _ _ R1).
    destruct (is_k KEnd (skip 1 (skip_nls c)) || is_k KComma (skip 1 (skip_nls c)) || is_k KNewline (skip 1 (skip_nls c)));
      [apply p2_ok; split; [reflexivity|exact R1]|].
    apply (bind2_rel (XR false s)).
    + apply parse_type2_rel. apply rel_skip_if; [exact R1|reflexivity|reflexivity].
    + intros [t0 c2] [t0' c2'] [Hx R2]. cbn [fst snd] in Hx, R2. subst t0'.
      rewrite <- !(rel_is_k _ _ _ _ _ R2).
      destruct (is_k KComma c2 || is_k KEnd c2 || is_k KNewline c2); [|rr2].
      apply p2_ok. split; [reflexivity|exact R2].
  - intros [t0 c2] [t0' c2'] [Hx R2]. cbn [fst snd] in Hx, R2. subst t0'.
    apply p2_ok. unfold EIR. cbn [fst snd]. split; [reflexivity|].
    apply rel_skip_if; [exact R2|reflexivity|reflexivity].
Qed.

Lemma unpos_app l x : unpos (l ++ [x]) = unpos l ++ [fst x].
Proof. unfold unpos. rewrite map_app. reflexivity. Qed.

Lemma step_enum_items_rel s acc acc' c c' : unpos acc = unpos acc' -> rel false s c c' ->
  prel2 (orel_new false s) (step_enum_items acc c) (step_enum_items acc' c').
Proof.
  intros HA R. unfold step_enum_items. cbv zeta.
  assert (Rn : rel false s (skip_nls c) (skip_nls c')) by (apply rel_skip_nls; exact R).
  rewrite <- (rel_is_k _ _ _ _ KEnd Rn).
  destruct (is_k KEnd (skip_nls c)) eqn:Ee.
  { apply p2_ok. cbn [orel_new]. split; [exact HA|].
    apply (skip_plain_tk _ _ _ _ _ Rn (is_k_token _ _ Ee)); reflexivity. }
  apply (bind2_rel (EIR s)); [apply enum_item_rel; exact R|].
  intros [[[v t0] pos] c1] [[[v' t0'] pos'] c1'] [HE R1]. cbn [fst snd] in HE, R1. injection HE as -> ->.
  assert (Rn1 : rel false s (skip_nls c1) (skip_nls c1')) by (apply rel_skip_nls; exact R1).
  rewrite <- (rel_is_k _ _ _ _ KEnd Rn1).
  assert (HA' : unpos (acc ++ [(v', t0', pos)]) = unpos (acc' ++ [(v', t0', pos')]))
    by (rewrite !unpos_app, HA; reflexivity).
  destruct (is_k KEnd (skip_nls c1)) eqn:Ee1.
  - apply p2_ok. cbn [orel_new]. split; [exact HA'|].
    apply (skip_plain_tk _ _ _ _ _ Rn1 (is_k_token _ _ Ee1)); reflexivity.
  - apply call_new_rel. cbn [qrel_new]. split; [exact HA'|split; [reflexivity|]].
    apply rel_skip_if; [exact Rn1|reflexivity|reflexivity].
Qed.

(* ---- the block loop: in step until the first error, doomed afterwards ---- *)

Lemma statement2_rel s c c' : rel false s c c' ->
  prel2 (XR false s) (statement c) (statement c').
Proof.
  intros R. unfold statement, call_S. apply (p2_call _ false s); [right; cbn [qrel_new]; auto| |rr2]. new_getter.
Qed.

Lemma app_nonnil {A : Type} (l es : list A) : es <> [] -> l ++ es <> [].
Proof. intros H X. apply app_eq_nil in X. apply H. apply X. Qed.

Lemma step_stmts_rel s acc c c' : rel false s c c' ->
  prel2 (orel_new false s) (step_stmts acc [] c) (step_stmts acc [] c').
Proof.
  intros R. unfold step_stmts. pose proof (rel_token _ _ c c' R) as Tk'. rewrite <- Tk'.
  assert (Stop : prel2 (orel_new false s) (ok (RSs acc (skip_if KEnd c))) (ok (RSs acc (skip_if KEnd c')))).
  { apply p2_ok. cbn [orel_new]. split; [reflexivity|]. apply rel_skip_if; [exact R|reflexivity|reflexivity]. }
  assert (D : prel2 (orel_new false s)
     (ptry (statement c) (fun '(st, c1) => call (QStmts (acc ++ [st]) [] c1))
        (fun c' es => call (QStmts acc ([] ++ es) (skip_if KNewline (skip_until KNewline (pop_nl false c'))))))
     (ptry (statement c') (fun '(st, c1) => call (QStmts (acc ++ [st]) [] c1))
        (fun c' es => call (QStmts acc ([] ++ es) (skip_if KNewline (skip_until KNewline (pop_nl false c'))))))).
  { unfold statement, call_S. cbn [ptry]. apply (p2_call _ false s); [right; cbn [qrel_new]; auto| |].
    - intros o o' Ho _ _. unfold orelq in Ho. cbn [is_old] in Ho.
      destruct o, o'; cbn [orel_new] in Ho; try contradiction; cbn [get_S ptry panic]; try (constructor; exact I).
      destruct Ho as [-> R1]. cbn [ok ptry]. apply call_new_rel. cbn [qrel_new]. left. auto 6.
    - intros cx es cx' es' U U'. cbn [UErr] in U, U'. cbn [reraise ptry].
      apply call_new_rel. cbn [qrel_new]. right. cbn [app]. split; assumption. }
  destruct (token c) as [| | | | | |k|]; try exact D.
  - destruct k; first [exact D|exact Stop].
  - exact Stop.
Qed.

(* ---- statement forms (all at the statement level: newlines count) ---- *)

Lemma resrel0_ret {A : Type} (RA : A -> A -> Prop) (r r' : res A) : resrel0 RA r r' -> prel2 RA (Ret r) (Ret r').
Proof. intros H. constructor. exact H. Qed.

Lemma block2_rel s c c' : rel false s c c' -> prel2 (XR false s) (block c) (block c').
Proof.
  intros R. unfold block, call_Ss. apply (p2_call _ false s); [right; cbn [qrel_new]; left| |rr2].
  - split; [reflexivity|split; [reflexivity|split; [reflexivity|split; [reflexivity|]]]]. apply rel_skip_if; [exact R|reflexivity|reflexivity].
  - new_getter.
Qed.

Lemma assignable_p2_rel b s c c' : rel b s c c' -> prel2 (XR b s) (assignable_p c) (assignable_p c').
Proof.
  intros R. unfold assignable_p. rewrite <- (rel_token b s c c' R).
  destruct (token c) as [n| | | | | | |] eqn:Tk; try rr2.
  apply prel_embed. apply (call_A_rel b s). split; [reflexivity|]. apply (skip_plain_tk b s c c' _ R Tk); reflexivity.
Qed.

Lemma assign_op_plain t op : assign_op t = Some op -> opener t = false /\ closer t = false.
Proof. destruct t as [| | | | | |k|]; try discriminate. destruct k; try discriminate; intros _; split; reflexivity. Qed.

Lemma stmt_expr_rel s c c' : rel false s c c' -> prel2 (XR false s) (stmt_expr T c) (stmt_expr T c').
Proof.
  intros R. unfold stmt_expr. apply (bind2_rel (XR false s)); [apply expression2_rel; exact R|].
  intros [v c1] [v' c1'] [Hx R1]. cbn [fst snd] in Hx, R1. subst v'. apply p2_ok. split; [reflexivity|exact R1].
Qed.

Lemma expression_after2_rel b s l c c' : rel b s c c' ->
  prel2 (XR b s) (expression_after T c l) (expression_after T c' l).
Proof.
  intros R. unfold expression_after. apply prel_embed. apply (call_E_rel b s). split; [reflexivity|split; [reflexivity|exact R]].
Qed.

Lemma stmt_assign_or_expr_rel s c c' : rel false s c c' ->
  prel2 (XR false s) (stmt_assign_or_expr T c) (stmt_assign_or_expr T c').
Proof.
  intros R. unfold stmt_assign_or_expr. pose proof (ta_rel false s c c' R) as Ta.
  apply (ptry2_rel (XR false s)); [apply assignable_p2_rel; exact R| |].
  - intros [a c1] [a' c1'] [Hx R1]. cbn [fst snd] in Hx, R1. subst a'. rewrite <- (rel_token _ _ _ _ R1).
    destruct (assign_op (token c1)) as [op|] eqn:Ao.
    + destruct (assign_op_plain _ _ Ao) as [O Cl].
      apply (bind2_rel (XR false s)); [apply expression2_rel; apply rel_skip_plain; assumption|].
      intros [v c2] [v' c2'] [Hx R2]. cbn [fst snd] in Hx, R2. subst v'. apply p2_ok. split; [reflexivity|exact R2].
    + assert (G : prel2 (XR false s) (let* '(v, c2) := expression_after T c1 (EGet a) in ok (SExpr v, c2))
                                     (let* '(v, c2) := expression_after T c1' (EGet a) in ok (SExpr v, c2))).
      { apply (bind2_rel (XR false s)); [apply expression_after2_rel; exact R1|].
        intros [v c2] [v' c2'] [Hx R2]. cbn [fst snd] in Hx, R2. subst v'. apply p2_ok. split; [reflexivity|exact R2]. }
      destruct (type_assignable c) as [[x cb]|ce es| |], (type_assignable c') as [[x' cb']|ce' es'| |]; try contradiction.
      * destruct Ta as [_ Rb]. cbn [snd] in Rb. rewrite <- (rel_is_k _ _ _ _ KLeftBrace Rb).
        destruct (is_k KLeftBrace cb); [apply stmt_expr_rel; exact R|exact G].
      * exact G.
      * constructor. exact I.
      * constructor. exact I.
  - intros cx es cx' es'. rewrite <- (rel_token _ _ _ _ R).
    destruct (token c); try (apply stmt_expr_rel; exact R).
    destruct (type_assignable c) as [[x cb]|ce es0| |], (type_assignable c') as [[x' cb']|ce' es0'| |]; try contradiction.
    + destruct Ta as [_ Rb]. cbn [snd] in Rb. rewrite <- (rel_is_k _ _ _ _ KLeftBrace Rb).
      destruct (is_k KLeftBrace cb); [apply stmt_expr_rel; exact R|apply p2_reraise].
    + apply p2_reraise.
    + constructor. exact I.
    + constructor. exact I.
Qed.

Lemma stmt_def_implied_rel s nm c c' : rel false s c c' -> token c = TIdent nm ->
  prel2 (XR false s) (stmt_def_implied T nm c) (stmt_def_implied T nm c').
Proof.
  intros R Tk. unfold stmt_def_implied. destruct (name_eqb nm self_name); [rr2|]. cbv zeta.
  assert (R1 : rel false s (skip 1 c) (skip 1 c')) by (apply (skip_plain_tk _ _ _ _ _ R Tk); reflexivity).
  rewrite <- (rel_token _ _ _ _ R1), <- (rel_is_k _ _ _ _ KColonColon R1).
  assert (D : forall k, token (skip 1 c) = TK k -> opener (TK k) = false -> closer (TK k) = false ->
     prel2 (XR false s)
       (if is_k KExternal (skip 1 (skip 1 c)) then praise (skip 1 (skip 1 c))
        else let* '(v, c3) := expression T (skip 1 (skip 1 c)) in
             ok (SDef nm (if is_k KColonColon (skip 1 c) then VConst else VMutable) TyImplied v, c3))
       (if is_k KExternal (skip 1 (skip 1 c')) then praise (skip 1 (skip 1 c'))
        else let* '(v, c3) := expression T (skip 1 (skip 1 c')) in
             ok (SDef nm (if is_k KColonColon (skip 1 c) then VConst else VMutable) TyImplied v, c3))).
  { intros k Tk1 O Cl.
    assert (R2 : rel false s (skip 1 (skip 1 c)) (skip 1 (skip 1 c'))) by (apply (skip_plain_tk _ _ _ _ _ R1 Tk1); assumption).
    rewrite <- (rel_is_k _ _ _ _ KExternal R2).
    destruct (is_k KExternal (skip 1 (skip 1 c))); [rr2|].
    apply (bind2_rel (XR false s)); [apply expression2_rel; exact R2|].
    intros [v c3] [v' c3'] [Hx R3]. cbn [fst snd] in Hx, R3. subst v'. apply p2_ok. split; [reflexivity|exact R3]. }
  destruct (token (skip 1 c)) as [| | | | | |k|] eqn:Tk1; try rr2.
  destruct k; try rr2; (apply (D _ eq_refl); reflexivity).
Qed.

Lemma stmt_def_typed_rel s nm c c' : rel false s c c' -> token c = TIdent nm -> token (skip 1 c) = TK KColon ->
  prel2 (XR false s) (stmt_def_typed T nm c) (stmt_def_typed T nm c').
Proof.
  intros R Tk Tk1. unfold stmt_def_typed. destruct (name_eqb nm self_name); [rr2|]. cbv zeta.
  assert (N : nl c = false) by (apply (r_nl _ _ _ _ R)). assert (N' : nl c' = false) by (apply (r_nl' _ _ _ _ R)).
  rewrite (skip2_eq c N), (skip2_eq c' N').
  assert (R1 : rel false s (skip 1 c) (skip 1 c')) by (apply (skip_plain_tk _ _ _ _ _ R Tk); reflexivity).
  assert (R2 : rel false s (skip 1 (skip 1 c)) (skip 1 (skip 1 c'))) by (apply (skip_plain_tk _ _ _ _ _ R1 Tk1); reflexivity).
  apply (bind2_rel (XR false s)); [apply parse_type2_rel; exact R2|].
  intros [t0 c2] [t0' c2'] [Hx R3]. cbn [fst snd] in Hx, R3. subst t0'.
  rewrite <- !(rel_is_k _ _ _ _ _ R3).
  assert (D : forall k (kind : varkind), token c2 = TK k -> opener (TK k) = false -> closer (TK k) = false ->
     prel2 (XR false s)
       (if is_k KExternal (skip 1 c2) then ok (SExtDef nm kind t0, skip 1 (skip 1 c2))
        else let* '(v, c4) := expression T (skip 1 c2) in ok (SDef nm kind t0 v, c4))
       (if is_k KExternal (skip 1 c2') then ok (SExtDef nm kind t0, skip 1 (skip 1 c2'))
        else let* '(v, c4) := expression T (skip 1 c2') in ok (SDef nm kind t0 v, c4))).
  { intros k kind Tk2 O Cl.
    assert (R4 : rel false s (skip 1 c2) (skip 1 c2')) by (apply (skip_plain_tk _ _ _ _ _ R3 Tk2); assumption).
    rewrite <- (rel_is_k _ _ _ _ KExternal R4).
    destruct (is_k KExternal (skip 1 c2)) eqn:Ee.
    - apply p2_ok. split; [reflexivity|]. apply (skip_plain_tk _ _ _ _ _ R4 (is_k_token _ _ Ee)); reflexivity.
    - apply (bind2_rel (XR false s)); [apply expression2_rel; exact R4|].
      intros [v c4] [v' c4'] [Hx R5]. cbn [fst snd] in Hx, R5. subst v'. apply p2_ok. split; [reflexivity|exact R5]. }
  destruct (is_k KColon c2) eqn:E1.
  - cbn [ok ptry]. apply (D _ VConst (is_k_token _ _ E1)); reflexivity.
  - destruct (is_k KEqual c2) eqn:E2; [|cbn [praise raise ptry]; rr2].
    cbn [ok ptry]. apply (D _ VMutable (is_k_token _ _ E2)); reflexivity.
Qed.

Lemma first_dup_unpos : forall l l' seen, unpos l = unpos l' ->
  match first_dup seen l, first_dup seen l' with
  | Some _, Some _ => True
  | None, None => True
  | _, _ => False
  end.
Proof.
  induction l as [|[[v t0] pos] l IH]; intros [|[[v' t0'] pos'] l'] seen HU; try discriminate HU; [exact I|].
  cbn [unpos map fst] in HU. injection HU as -> -> HU. cbn [first_dup].
  destruct (existsb (name_eqb v') seen); [exact I|]. apply IH. exact HU.
Qed.

Lemma unpos_map l : map (fun x : name * ty * nat => (fst (fst x), snd (fst x))) l = unpos l.
Proof. unfold unpos. apply map_ext. intros [[a b] n]. reflexivity. Qed.

Lemma stmt_enum_rel s nm c c' : rel false s c c' ->
  token c = TIdent nm -> token (skip 1 c) = TK KColonColon -> token (skip 1 (skip 1 c)) = TK KEnum ->
  prel2 (XR false s) (stmt_enum nm c) (stmt_enum nm c').
Proof.
  intros R Tk Tk1 Tk2. unfold stmt_enum. destruct (negb (is_capitalized nm)); [rr2|]. cbv zeta.
  assert (N : nl c = false) by (apply (r_nl _ _ _ _ R)). assert (N' : nl c' = false) by (apply (r_nl' _ _ _ _ R)).
  rewrite (skip3_eq c N), (skip3_eq c' N').
  assert (R1 : rel false s (skip 1 c) (skip 1 c')) by (apply (skip_plain_tk _ _ _ _ _ R Tk); reflexivity).
  assert (R2 : rel false s (skip 1 (skip 1 c)) (skip 1 (skip 1 c'))) by (apply (skip_plain_tk _ _ _ _ _ R1 Tk1); reflexivity).
  assert (R3 : rel false s (skip 1 (skip 1 (skip 1 c))) (skip 1 (skip 1 (skip 1 c'))))
    by (apply (skip_plain_tk _ _ _ _ _ R2 Tk2); reflexivity).
  destruct (rel_push_same false s _ _ R3) as (R4 & O1 & O2).
  destruct (push_nl false (skip 1 (skip 1 (skip 1 c)))) as [c2 old]. destruct (push_nl false (skip 1 (skip 1 (skip 1 c')))) as [c2' old'].
  cbn [fst snd] in R4, O1, O2. subst old old'.
  apply (bind2_rel (XR false s)); [apply resrel0_ret; apply paren_vars_rel; exact R4|].
  intros [vars c3] [vars' c3'] [Hx R5]. cbn [fst snd] in Hx, R5. subst vars'.
  apply (bind2_rel (fun x x' : list (name * ty * nat) * ctx => unpos (fst x) = unpos (fst x') /\ rel false s (snd x) (snd x'))).
  - unfold call_Enum. apply (p2_call _ false s); [right; cbn [qrel_new]; auto| |rr2].
    intros o o' Ho _ _. unfold orelq in Ho. cbn [is_old] in Ho.
    destruct o, o'; cbn [orel_new] in Ho; try contradiction; cbn [get_Enum]; try apply p2_panic. apply p2_ok. exact Ho.
  - intros [items c4] [items' c4'] [HU R6]. cbn [fst snd] in HU, R6.
    pose proof (first_dup_unpos items items' [] HU) as FD.
    destruct (first_dup [] items), (first_dup [] items'); try contradiction.
    + constructor. exact I.
    + apply p2_ok. split; cbn [fst snd]; [rewrite !unpos_map, HU; reflexivity|]. apply rel_pop_same. exact R6.
Qed.

Lemma stmt_blob_rel s nm c c' : rel false s c c' ->
  token c = TIdent nm -> token (skip 1 c) = TK KColonColon ->
  (token (skip 1 (skip 1 c)) = TK KBlob \/ token (skip 1 (skip 1 c)) = TK KExternBlob) ->
  prel2 (XR false s) (stmt_blob nm c) (stmt_blob nm c').
Proof.
  intros R Tk Tk1 Tk2. unfold stmt_blob. destruct (negb (is_capitalized nm)); [rr2|]. cbv zeta.
  assert (N : nl c = false) by (apply (r_nl _ _ _ _ R)). assert (N' : nl c' = false) by (apply (r_nl' _ _ _ _ R)).
  rewrite (skip2_eq c N), (skip2_eq c' N').
  assert (R1 : rel false s (skip 1 c) (skip 1 c')) by (apply (skip_plain_tk _ _ _ _ _ R Tk); reflexivity).
  assert (R2 : rel false s (skip 1 (skip 1 c)) (skip 1 (skip 1 c'))) by (apply (skip_plain_tk _ _ _ _ _ R1 Tk1); reflexivity).
  assert (R3 : rel false s (skip 1 (skip 1 (skip 1 c))) (skip 1 (skip 1 (skip 1 c'))))
    by (destruct Tk2 as [X|X]; apply (skip_plain_tk _ _ _ _ _ R2 X); reflexivity).
  rewrite <- (rel_is_k _ _ _ _ KExternBlob R2).
  apply (bind2_rel (XR false s)); [apply resrel0_ret; apply paren_vars_rel; exact R3|].
  intros [vars c2] [vars' c2'] [Hx R4]. cbn [fst snd] in Hx, R4. subst vars'.
  unfold pexpect at 1 3. unfold expect. rewrite <- (rel_is_k _ _ c2 c2' KLeftBrace R4).
  destruct (is_k KLeftBrace c2) eqn:Ek; cbn [ptry raise]; [|constructor; exact I].
  destruct (expect_enter false s c2 c2' KLeftBrace R4 eq_refl Ek) as (R5 & O1 & O2).
  destruct (push_nl true (skip 1 c2)) as [c4 old]. destruct (push_nl true (skip 1 c2')) as [c4' old'].
  cbn [fst snd] in R5, O1, O2. subst old old'.
  apply (bind2_rel (XR true (false :: s))).
  - unfold call_NTs. apply (p2_call _ true (false :: s)); [right; cbn [qrel_new]; auto| |rr2]. new_getter.
  - intros [fields c5] [fields' c5'] [Hf R6]. cbn [fst snd] in Hf, R6. subst fields'.
    apply (bind2_rel (rel false s)); [apply (pexpect2_leave true); [exact R6|reflexivity]|].
    intros c7 c7' R7. apply p2_ok. split; [reflexivity|exact R7].
Qed.

Lemma stmt_use_rel s c c' : rel false s c c' -> token c = TK KUse ->
  prel2 (XR false s) (stmt_use c) (stmt_use c').
Proof.
  intros R Tk. unfold stmt_use.
  assert (Tk' : token c' = TK KUse) by (rewrite <- (rel_token _ _ _ _ R); exact Tk).
  assert (R1 : rel false s (skip 1 c) (skip 1 c')) by (apply (skip_plain_tk _ _ _ _ _ R Tk); reflexivity).
  pose proof (use_path_rel false s _ _ R1) as UR.
  pose proof (use_path_good (skip 1 c)) as G. pose proof (use_path_good (skip 1 c')) as G'.
  destruct (use_path (skip 1 c)) as [[[p file] c1]|ce es| |], (use_path (skip 1 c')) as [[[p' file'] c1']|ce' es'| |];
    try contradiction; cbn [ptry]; try (constructor; exact I).
  destruct UR as [UE R2]. cbn [fst snd] in UE, R2. injection UE as -> ->.
  cbn [good snd] in G, G'. apply ltl_ltm in G. apply ltl_ltm in G'.
  unfold look2. cbv iota beta.
  rewrite (use_prev_twice p' c c1 ltac:(rewrite Tk; reflexivity) G),
          (use_prev_twice p' c' c1' ltac:(rewrite Tk'; reflexivity) G').
  assert (C0 : prel2 (XR false s)
     (if name_eqb p' [slash] then praise c1 else ok (SUse p' (NImplicit (last_component (trim_slashes p') [])) file', c1))
     (if name_eqb p' [slash] then praise c1' else ok (SUse p' (NImplicit (last_component (trim_slashes p') [])) file', c1')))
    by (destruct (name_eqb p' [slash]); [rr2|apply p2_ok; split; [reflexivity|exact R2]]).
  rewrite <- (rel_token _ _ _ _ R2).
  destruct (token c1) as [| | | | | |k|] eqn:Tk1; try exact C0.
  destruct k; try exact C0.
  assert (R3 : rel false s (skip 1 c1) (skip 1 c1')) by (apply (skip_plain_tk _ _ _ _ _ R2 Tk1); reflexivity).
  rewrite <- (rel_token _ _ _ _ R3).
  destruct (token (skip 1 c1)) as [al| | | | | | |] eqn:Tk2; try rr2.
  apply p2_ok. split; [reflexivity|]. cbn [snd].
  rewrite (skip2_eq c1 (r_nl _ _ _ _ R2)), (skip2_eq c1' (r_nl' _ _ _ _ R2)).
  apply (skip_plain_tk _ _ _ _ _ R3 Tk2); reflexivity.
Qed.

Lemma local_fuel_ok c : length (post c) < local_fuel c.
Proof. unfold local_fuel. lia. Qed.

Lemma stmt_from_rel s c c' : rel false s c c' -> token c = TK KFrom ->
  prel2 (XR false s) (stmt_from c) (stmt_from c').
Proof.
  intros R Tk. unfold stmt_from.
  assert (R1 : rel false s (skip 1 c) (skip 1 c')) by (apply (skip_plain_tk _ _ _ _ _ R Tk); reflexivity).
  apply (bind2_rel (XR false s)); [apply resrel0_ret; apply use_path_rel; exact R1|].
  intros [[p file] c1] [[p' file'] c1'] [Hx R2]. cbn [fst snd] in Hx, R2. injection Hx as -> ->.
  apply (bind2_rel (rel false s)); [apply pexpect2_plain; [exact R2|reflexivity|reflexivity]|].
  intros c2 c2' R3. cbv zeta. rewrite <- (rel_is_k _ _ _ _ KLeftParen R3).
  destruct (is_k KLeftParen c2) eqn:Ep.
  - destruct (expect_enter false s c2 c2' KLeftParen R3 eq_refl Ep) as (R4 & O1 & O2).
    destruct (push_nl true (skip 1 c2)) as [c3 old]. destruct (push_nl true (skip 1 c2')) as [c3' old'].
    cbn [fst snd] in R4, O1, O2. subst old old'.
    apply (bind2_rel (XR true (false :: s)));
      [apply resrel0_ret; apply from_imports_rel; [exact R4|apply local_fuel_ok|apply local_fuel_ok]|].
    intros [imports c4] [imports' c4'] [Hi R5]. cbn [fst snd] in Hi, R5. subst imports'.
    destruct imports; [rr2|].
    apply (bind2_rel (rel false s)); [apply (pexpect2_leave true); [exact R5|reflexivity]|].
    intros c6 c6' R6. apply p2_ok. split; [reflexivity|exact R6].
  - destruct (rel_push_same false s _ _ R3) as (R4 & O1 & O2).
    destruct (push_nl false c2) as [c3 old]. destruct (push_nl false c2') as [c3' old'].
    cbn [fst snd] in R4, O1, O2. subst old old'.
    apply (bind2_rel (XR false s));
      [apply resrel0_ret; apply from_imports_rel; [exact R4|apply local_fuel_ok|apply local_fuel_ok]|].
    intros [imports c4] [imports' c4'] [Hi R5]. cbn [fst snd] in Hi, R5. subst imports'.
    destruct imports; [rr2|].
    apply (bind2_rel (rel false s)); [apply p2_ok; apply rel_pop_same; exact R5|].
    intros c6 c6' R6. apply p2_ok. split; [reflexivity|exact R6].
Qed.

(* ---- Context::prev on related contexts ---- *)

Lemma find_rev_comments : forall cs t p, forallb is_comment cs = true -> not_comment t = true ->
  find not_comment (rev cs ++ t :: p) = Some t.
Proof.
  intros cs t p Hc Ht. rewrite <- (rev_involutive cs) in Hc. revert Hc. generalize (rev cs). clear cs.
  induction l as [|x l IH]; intros Hc; [cbn [app find]; rewrite Ht; reflexivity|].
  cbn [rev] in Hc. rewrite forallb_app in Hc. apply andb_prop in Hc. destruct Hc as [H1 H2].
  cbn [forallb] in H2. apply andb_prop in H2. destruct H2 as [H2 _].
  cbn [app find]. destruct x; try discriminate H2. cbn [not_comment]. apply IH. exact H1.
Qed.

Lemma settled_head_ok c : Layout.settled c -> head_ok c.
Proof.
  unfold Layout.settled, head_ok. destruct (post c) as [|t ts]; [trivial|]. intros H. split.
  - intros ->. discriminate H.
  - intros N ->. rewrite N in H. discriminate H.
Qed.

Lemma prev_lastreal c t : over c = 0 -> lastreal c = Some t -> head_ok c ->
  exists cp, prev c = Some cp /\ token cp = t /\ skip 1 cp = c.
Proof.
  intros Ho Hl Hh.
  assert (Hne : pre c <> []) by (unfold lastreal in Hl; destruct (pre c); [discriminate|discriminate]).
  destruct (prev c) as [cp|] eqn:Hp.
  - exists cp. split; [reflexivity|]. split; [|exact (prev_then_skip c cp Hh Hne Ho Hp)].
    unfold prev in Hp. rewrite Ho in Hp. unfold lastreal in Hl.
    destruct (pre c) as [|t0 pr0]; [congruence|].
    destruct (unwind pr0 (t0 :: post c)) as [[p1 p2]|] eqn:U; [|discriminate]. inversion Hp; subst cp.
    destruct (unwind_shape pr0 t0 [] (post c) p1 p2 eq_refl U) as (t' & cs' & H1 & H2 & H3 & H4).
    cbn [rev app] in H4. rewrite <- H4, (find_rev_comments cs' t' p1 H1 H2) in Hl. inversion Hl; subst t'.
    subst p2. reflexivity.
  - exfalso. destruct (prev_some_of_pre c Ho) as [cp E]; [|congruence].
    unfold lastreal in Hl. clear -Hl. induction (pre c) as [|x l IH]; [discriminate|].
    cbn [find existsb] in *. destruct (not_comment x); [reflexivity|]. apply IH. exact Hl.
Qed.

Lemma prev_no_real c : over c = 0 -> lastreal c = None -> pre c <> [] -> prev c = None.
Proof.
  intros Ho Hl Hne. destruct (prev c) as [cp|] eqn:Hp; [|reflexivity]. exfalso.
  unfold prev in Hp. rewrite Ho in Hp. unfold lastreal in Hl.
  destruct (pre c) as [|t0 pr0]; [congruence|].
  destruct (unwind pr0 (t0 :: post c)) as [[p1 p2]|] eqn:U; [|discriminate].
  destruct (unwind_shape pr0 t0 [] (post c) p1 p2 eq_refl U) as (t' & cs' & H1 & H2 & H3 & H4).
  cbn [rev app] in H4. rewrite <- H4, (find_rev_comments cs' t' p1 H1 H2) in Hl. discriminate.
Qed.

Lemma prev_at_start c : over c = 0 -> pre c = [] -> head_ok c -> prev c = Some c.
Proof.
  intros Ho Hp Hh. unfold prev. rewrite Ho, Hp. unfold head_ok in Hh.
  destruct c as [pr po ov b]. cbn [pre post over nl] in *. subst.
  destruct po as [|t ts]; [reflexivity|]. destruct Hh as [H _]. destruct t; try reflexivity. congruence.
Qed.

(* both step back to the same token; when it is the newline, going over it again is related *)
Lemma prev_cases s c c' : rel false s c c' -> (exists t, lastreal c = Some t) ->
  exists cp cp', prev c = Some cp /\ prev c' = Some cp' /\ token cp = token cp'
                 /\ (token cp = TK KNewline -> rel false s (skip 1 cp) (skip 1 cp')).
Proof.
  intros R [t El]. pose proof R as [N N' Ov S S' He F F' RL]. specialize (RL eq_refl).
  destruct (over c) as [|o] eqn:Eo.
  - symmetry in Ov. rewrite El in RL. symmetry in RL.
    destruct (prev_lastreal c t Eo El (settled_head_ok c S)) as (cp & E1 & T1 & K1).
    destruct (prev_lastreal c' t Ov RL (settled_head_ok c' S')) as (cp' & E1' & T1' & K1').
    exists cp, cp'. split; [exact E1|split; [exact E1'|split; [congruence|]]].
    intros _. rewrite K1, K1'. exact R.
  - unfold prev. rewrite <- Ov, Eo. eexists. eexists. split; [reflexivity|split; [reflexivity|]].
    split; [apply (rel_token _ _ _ _ R)|]. intros Tk.
    assert (R0 : rel false s (mkctx (pre c) (post c) o (nl c)) (mkctx (pre c') (post c') o (nl c'))).
    { constructor; cbn [pre post over nl]; try assumption; try reflexivity. intros _. exact RL. }
    apply (skip_plain_tk _ _ _ _ _ R0 Tk); reflexivity.
Qed.

Lemma ltm_lastreal c c3 : ltm c c3 -> exists t, lastreal c3 = Some t.
Proof.
  intros (_ & l & Hl & Hm). unfold lastreal. rewrite Hl. unfold mark in Hm. clear Hl.
  induction l as [|x l IH]; [discriminate|]. cbn [app find existsb] in *.
  destruct (not_comment x); [eexists; reflexivity|]. apply IH. exact Hm.
Qed.

(* ---- the statement ---- *)

(* what a statement form hands to the common tail: related contexts, or (the loop arm, stepped back) contexts
   both on the newline whose other side is related *)
Definition LR (s : list bool) (x x' : stmt * ctx) : Prop :=
  fst x = fst x' /\
  (rel false s (snd x) (snd x') \/
   (token (snd x) = TK KNewline /\ token (snd x') = TK KNewline /\ rel false s (skip 1 (snd x)) (skip 1 (snd x')))).

Lemma XR_LR s x x' : XR false s x x' -> LR s x x'.
Proof. intros [H R]. split; [exact H|left; exact R]. Qed.

Lemma loop_arm_rel s c c' : rel false s c c' -> token c = TK KLoop ->
  prel2 (LR s)
    (let c1 := skip 1 c in
     let* '(cond, c2) := (if is_k KDo c1 then ok (EBool true, c1) else expression T c1) in
     let* '(body, c3) := statement c2 in
     match prev c3 with
     | Some cp => ok (SLoop cond body, if is_k KNewline cp then cp else c3)
     | None => panic
     end)
    (let c1 := skip 1 c' in
     let* '(cond, c2) := (if is_k KDo c1 then ok (EBool true, c1) else expression T c1) in
     let* '(body, c3) := statement c2 in
     match prev c3 with
     | Some cp => ok (SLoop cond body, if is_k KNewline cp then cp else c3)
     | None => panic
     end).
Proof.
  intros R Tk. cbv zeta.
  assert (R1 : rel false s (skip 1 c) (skip 1 c')) by (apply (skip_plain_tk _ _ _ _ _ R Tk); reflexivity).
  apply (bind2_rel (XR false s)).
  { rewrite <- (rel_is_k _ _ _ _ KDo R1). destruct (is_k KDo (skip 1 c));
      [apply p2_ok; split; [reflexivity|exact R1]|apply expression2_rel; exact R1]. }
  intros [cond c2] [cond' c2'] [Hx R2]. cbn [fst snd] in Hx, R2. subst cond'.
  unfold statement, call_S. cbn [ptry]. apply (p2_call _ false s); [right; cbn [qrel_new]; auto| |].
  - intros o o' Ho V V'. unfold orelq in Ho. cbn [is_old] in Ho.
    destruct o, o'; cbn [orel_new] in Ho; try contradiction; cbn [get_S ptry panic]; try (constructor; exact I).
    destruct Ho as [-> R3]. cbn [UOk] in V. cbn [ok ptry].
    destruct (prev_cases s c0 c1 R3 (ltm_lastreal _ _ V)) as (cq & cq' & -> & -> & Tq & Hq).
    unfold is_k at 1 2. rewrite <- Tq. fold (is_k KNewline cq).
    destruct (is_k KNewline cq) eqn:En.
    + pose proof (is_k_token _ _ En) as Tn. apply p2_ok. split; [reflexivity|]. right. cbn [snd].
      split; [exact Tn|split; [rewrite <- Tq; exact Tn|apply Hq; exact Tn]].
    + apply p2_ok. split; [reflexivity|]. left. exact R3.
  - intros cx es cx' es' _ _. cbn [reraise ptry]. constructor. exact I.
Qed.

Lemma step_stmt_rel s c0 c0' : rel false s c0 c0' ->
  prel2 (orel_new false s) (step_stmt T c0) (step_stmt T c0').
Proof.
  intros R0. unfold step_stmt.
  destruct (rel_push_same false s _ _ R0) as (R & O1 & O2).
  destruct (push_nl false c0) as [cp old]. destruct (push_nl false c0') as [cp' old'].
  cbn [fst snd] in R, O1, O2. subst old old'.
  apply (bind2_rel (LR s)).
  - unfold look3. cbv iota beta. rewrite <- (rel_token _ _ _ _ R).
    assert (W : forall (m m' : prog (stmt * ctx)), prel2 (XR false s) m m' -> prel2 (LR s) m m')
      by (intros m m'; apply prel2_weaken; apply XR_LR).
    assert (HD : prel2 (LR s) (stmt_assign_or_expr T cp) (stmt_assign_or_expr T cp'))
      by (apply W; apply stmt_assign_or_expr_rel; exact R).
    destruct (token cp) as [nm| | | | | |k|] eqn:Tk; try exact HD.
    + assert (R1 : rel false s (skip 1 cp) (skip 1 cp')) by (apply (skip_plain_tk _ _ _ _ _ R Tk); reflexivity).
      rewrite <- (rel_token _ _ _ _ R1).
      destruct (token (skip 1 cp)) as [| | | | | |k2|] eqn:Tk1; try exact HD.
      destruct k2; first [exact HD|apply W; apply stmt_def_typed_rel; assumption|idtac].
      * (* :: *)
        assert (R2 : rel false s (skip 1 (skip 1 cp)) (skip 1 (skip 1 cp')))
          by (apply (skip_plain_tk _ _ _ _ _ R1 Tk1); reflexivity).
        rewrite <- (rel_token _ _ _ _ R2).
        destruct (token (skip 1 (skip 1 cp))) as [| | | | | |k3|] eqn:Tk2;
          try (apply W; apply stmt_def_implied_rel; assumption).
        destruct k3; first [apply W; apply stmt_def_implied_rel; assumption
                           |apply W; apply stmt_enum_rel; assumption
                           |apply W; apply stmt_blob_rel; auto].
      * (* := *)
        destruct (token (skip 1 (skip 1 cp))), (token (skip 1 (skip 1 cp')));
          apply W; apply stmt_def_implied_rel; assumption.
    + assert (R1 : opener (TK k) = false -> closer (TK k) = false -> rel false s (skip 1 cp) (skip 1 cp'))
        by (intros O Cl; exact (skip_plain_tk _ _ _ _ _ R Tk O Cl)).
      destruct k;
        first [exact HD
              |rr2
              |apply p2_ok; split; [reflexivity|left; first [exact R|apply R1; reflexivity]]
              |apply W; apply stmt_use_rel; assumption
              |apply W; apply stmt_from_rel; assumption
              |apply (loop_arm_rel s cp cp' R Tk)
              |(apply W; apply (bind2_rel (XR false s)); [apply block2_rel; exact R|];
                intros [ss c1] [ss' c1'] [Hx Rb]; cbn [fst snd] in Hx, Rb; subst ss';
                apply p2_ok; split; [reflexivity|exact Rb])
              |(apply W; cbv zeta; apply (ptry2_rel (XR false s));
                [apply expression2_rel; apply R1; reflexivity
                |intros [v c2] [v' c2'] [Hx Rb]; cbn [fst snd] in Hx, Rb; subst v';
                 apply p2_ok; split; [reflexivity|exact Rb]
                |intros; apply p2_ok; split; [reflexivity|apply R1; reflexivity]])].
  - intros [st c1] [st' c1'] [Hs HR]. cbn [fst snd] in Hs, HR. subst st'.
    destruct HR as [R1|(T1 & T1' & R1)].
    + apply (bind2_rel (rel false s)).
      * rewrite <- !(rel_is_k _ _ _ _ _ R1).
        destruct (is_k KEnd c1 || is_k KElse c1 || is_k KElif c1); [apply p2_ok; exact R1|].
        apply pexpect2_plain; [exact R1|reflexivity|reflexivity].
      * intros c2 c2' R2. apply p2_ok. cbn [orel_new]. split; [reflexivity|apply rel_pop_same; exact R2].
    + unfold pexpect, expect, is_k. rewrite T1, T1'. cbn [tok_is kw_eqb orb ok ptry].
      apply p2_ok. cbn [orel_new]. split; [reflexivity|apply rel_pop_same; exact R1].
Qed.

(* ---- all requests ---- *)

Definition doomed (q q' : req) : Prop :=
  match q, q' with
  | QStmts _ errs _, QStmts _ errs' _ => errs <> [] /\ errs' <> []
  | _, _ => False
  end.

Theorem step_rel2 b s q q' : qrel2 b s q q' -> doomed q q' \/ prel2 (orelq b s q) (step T q) (step T q').
Proof.
  intros [H|H].
  - right. pose proof (qrel_old b s q q' H) as O. unfold orelq. rewrite O. apply prel_embed.
    apply step_rel; assumption.
  - destruct q, q'; cbn [qrel_new] in H; try contradiction; unfold orelq; cbn [is_old step].
    + right. apply step_type_rel. exact H.
    + right. destruct H as (-> & -> & R). apply step_sep_types_rel. exact R.
    + right. destruct H as (-> & -> & R). apply step_ty_tuple_rel. exact R.
    + destruct H as [(-> & -> & -> & -> & R)|D]; [right; apply step_stmts_rel; exact R|left; exact D].
    + right. destruct H as [-> R]. apply step_stmt_rel. exact R.
    + right. destruct H as (HA & -> & R). apply step_enum_items_rel; assumption.
    + right. destruct H as [-> R]. apply step_blob_fields_rel. exact R.
Qed.

Hypothesis TOK : total_ok T.

Lemma go_big f q : exists F, f <= F /\ mu q < F.
Proof. exists (Nat.max f (S (mu q))). split; lia. Qed.

Lemma go_uok f q o : go T f q = Ok o -> UOk q o.
Proof.
  intros H. destruct q; try exact I. destruct o; try exact I. cbn [UOk].
  destruct (go_big f (QStmt c)) as (F & Hf & Hm).
  pose proof (go_ok_le T f F _ _ Hf H) as HF. pose proof (go_good T TOK F (QStmt c) I Hm) as G.
  rewrite HF in G. exact G.
Qed.

Lemma go_uerr f q c es : go T f q = Err c es -> UErr q es.
Proof.
  intros H. destruct q; try exact I. cbn [UErr].
  destruct (go_big f (QStmt c0)) as (F & Hf & Hm).
  pose proof (go_err_le T f F _ _ _ Hf H) as HF. pose proof (go_good T TOK F (QStmt c0) I Hm) as G.
  rewrite HF in G. apply G.
Qed.

(* a block request that has already recorded an error never answers Ok (and never panics) *)
Lemma go_doomed f acc errs c : errs <> [] ->
  go T f (QStmts acc errs c) = Fuel \/ exists ce es, go T f (QStmts acc errs c) = Err ce es.
Proof.
  intros He. destruct (go_big f (QStmts acc errs c)) as (F & Hf & Hm).
  pose proof (go_good T TOK F (QStmts acc errs c) I Hm) as G.
  destruct (go T f (QStmts acc errs c)) as [o|ce es| |] eqn:H.
  - exfalso. rewrite (go_ok_le T f F _ _ Hf H) in G. cbn [good] in G.
    destruct o; cbn [Post] in G; try contradiction. destruct G as [X _]. exact (He X).
  - right. eexists. eexists. reflexivity.
  - left. reflexivity.
  - exfalso. rewrite (go_mono_le T f F _ Hf) in G; rewrite H in *; [exact G|discriminate].
Qed.

Theorem go_relF f : forall b s q q', qrel2 b s q q' -> resrelF (orelq b s q) (go T f q) (go T f q').
Proof.
  induction f as [|f IH]; intros b s q q' H; [left; reflexivity|].
  destruct (step_rel2 b s q q' H) as [D|P].
  - destruct q, q'; cbn [doomed] in D; try contradiction. destruct D as [D D'].
    destruct (go_doomed (S f) acc errs c D) as [->|(ce & es & ->)]; [left; reflexivity|].
    destruct (go_doomed (S f) acc0 errs0 c0 D') as [->|(ce' & es' & ->)]; [right; left; reflexivity|].
    right. right. exact I.
  - rewrite !go_S. apply (run_relF (orelq b s q)); [exact IH| | | | |exact P].
    + intros q0 c0 es. apply go_uerr.
    + intros q0 c0 es. apply go_uerr.
    + intros q0 o. apply go_uok.
    + intros q0 o. apply go_uok.
Qed.

End Sim2.

(* ------------------------------------------------------------------------------------------- *)
(* C14 nl_in_brackets at statement level: with enough fuel on both sides, two statements that differ only by
   comments and by line breaks inside brackets are both accepted, with the same tree, or both rejected *)
Theorem nl_in_brackets_statement_settled T : bracket_sane T -> total_ok T ->
  nl_in_brackets_statement_settled_statement T.
Proof.
  intros sane TOK ts ts' f He F F' Hd Hd' Hf Hf'.
  pose proof (init_rel ts ts' He F F' Hd Hd') as R.
  pose proof (go_relF T sane TOK f false [] (QStmt (init ts)) (QStmt (init ts'))
                (or_intror (conj eq_refl R))) as G.
  pose proof (parse_statement_total T TOK ts f Hf) as S1. pose proof (parse_statement_total T TOK ts' f Hf') as S2.
  unfold parse_statement in *.
  destruct (go T f (QStmt (init ts))) as [o|ce es| |], (go T f (QStmt (init ts'))) as [o'|ce' es'| |];
    cbn [as_S ParserTotal.settled] in *; try contradiction;
    destruct G as [X|[X|X]]; try discriminate X; unfold orelq in X; cbn [is_old resrel] in X; try contradiction.
  - destruct o, o'; cbn [orel_new] in X; try contradiction. destruct X as [-> _]. reflexivity.
  - exact I.
Qed.

(* ------------------------------------------------------------------------------------------- *)
(* whole files (module level), same fragment: same top-level statements up to EmptyStatements, or both rejected *)

Section Module.
Variable T : ptab.
Hypothesis sane : bracket_sane T.
Hypothesis TOK : total_ok T.

Definition mrelF (r r' : res out) : Prop := r = Fuel \/ r' = Fuel \/ SimGen.mrel r r'.

Lemma go_doomed_module f acc errs last c : errs <> [] ->
  go T f (QModule acc errs last c) = Fuel \/ exists ce es, go T f (QModule acc errs last c) = Err ce es.
Proof.
  intros He. destruct (go_big f (QModule acc errs last c)) as (F & Hf & Hm).
  pose proof (go_good T TOK F (QModule acc errs last c) I Hm) as G.
  destruct (go T f (QModule acc errs last c)) as [o|ce es| |] eqn:H.
  - exfalso. rewrite (go_ok_le T f F _ _ Hf H) in G. cbn [good] in G.
    destruct o; cbn [Post] in G; try contradiction. destruct G as [X _]. exact (He X).
  - right. eexists. eexists. reflexivity.
  - left. reflexivity.
  - exfalso. rewrite (go_mono_le T f F _ Hf) in G; rewrite H in *; [exact G|discriminate].
Qed.

Lemma mrelF_doomed f acc acc' errs errs' last last' c c' : errs <> [] -> errs' <> [] ->
  mrelF (go T f (QModule acc errs last c)) (go T f (QModule acc' errs' last' c')).
Proof.
  intros D D'. destruct (go_doomed_module f acc errs last c D) as [->|(ce & es & ->)]; [left; reflexivity|].
  destruct (go_doomed_module f acc' errs' last' c' D') as [->|(ce' & es' & ->)]; [right; left; reflexivity|].
  right. right. exact I.
Qed.

Theorem module_relF : forall f acc acc' last last' c c',
  SimGen.noempty acc = SimGen.noempty acc' -> rel false [] c c' ->
  mrelF (go T f (QModule acc [] last c)) (go T f (QModule acc' [] last' c')).
Proof.
  induction f as [|f IH]; intros acc acc' last last' c c' HA R; [left; reflexivity|].
  rewrite !go_S. cbn [step]. unfold step_module. rewrite <- (rel_token _ _ _ _ R).
  assert (D : mrelF
    (run (go T f) (ptry (outer_statement c) (fun '(s, c1) => call (QModule (acc ++ [s]) [] (consumed c1) c1))
                     (fun c' es => call (QModule acc ([] ++ es) last (skip_until KNewline c')))))
    (run (go T f) (ptry (outer_statement c') (fun '(s, c1) => call (QModule (acc' ++ [s]) [] (consumed c1) c1))
                     (fun c' es => call (QModule acc' ([] ++ es) last' (skip_until KNewline c')))))).
  { rewrite !run_ptry, !SimGen.run_outer.
    pose proof (go_relF T sane TOK f false [] (QStmt c) (QStmt c') (or_intror (conj eq_refl R))) as G.
    pose proof (go_uerr T TOK f (QStmt c)) as U. pose proof (go_uerr T TOK f (QStmt c')) as U'.
    destruct (go T f (QStmt c)) as [o|ce es| |]; [| |left; reflexivity|].
    - destruct (go T f (QStmt c')) as [o'|ce' es'| |]; [| |right; left; reflexivity|];
        destruct G as [X|[X|X]]; try discriminate X; unfold orelq in X; cbn [is_old resrel] in X; try contradiction.
      destruct o as [| | | | | | | | | | | | |st c1| |], o' as [| | | | | | | | | | | | |st' c1'| |];
        cbn [orel_new] in X; try contradiction; try (right; right; exact I). destruct X as [E1 R1]. subst st'.
      destruct (is_outer st).
      + rewrite !run_call. apply IH; [rewrite !SimGen.noempty_app, HA; reflexivity|exact R1].
      + rewrite !run_call. apply mrelF_doomed; discriminate.
    - destruct (go T f (QStmt c')) as [o'|ce' es'| |]; [| |right; left; reflexivity|];
        destruct G as [X|[X|X]]; try discriminate X; unfold orelq in X; cbn [is_old resrel] in X; try contradiction.
      rewrite !run_call. cbn [app]. apply mrelF_doomed; [exact (U ce es eq_refl)|exact (U' ce' es' eq_refl)].
    - destruct (go T f (QStmt c')) as [o'|ce' es'| |]; [| |right; left; reflexivity|];
        destruct G as [X|[X|X]]; try discriminate X; unfold orelq in X; cbn [is_old resrel] in X; try contradiction.
      right. right. exact I. }
  destruct (token c) as [| | | | | |k|] eqn:Tk; try exact D.
  - destruct k; try exact D. rewrite !run_call. apply IH; [exact HA|].
    apply (skip_plain_tk false [] c c' _ R Tk); reflexivity.
  - right. right. cbn [run ok SimGen.mrel].
    destruct (comment_in _ c), (comment_in _ c'); rewrite ?SimGen.noempty_app;
      cbn [SimGen.noempty filter SimGen.is_empty_stmt negb]; rewrite ?app_nil_r; exact HA.
Qed.

End Module.

(* C14 nl_in_brackets for whole files of the fragment: with enough fuel on both sides, two files that differ only
   by comments and by line breaks inside brackets are both accepted, with the same top-level statements up to
   EmptyStatements, or both rejected *)
Theorem nl_in_brackets_program T : bracket_sane T -> total_ok T ->
  forall ts ts' f, insignificant_diff ts ts' -> frag ts -> frag ts' ->
  (match ts with TComment :: _ => False | _ => True end) ->
  (match ts' with TComment :: _ => False | _ => True end) ->
  parse_fuel ts <= f -> parse_fuel ts' <= f ->
  match parse_program T f ts, parse_program T f ts' with
  | Ok (ss, _), Ok (ss', _) => SimGen.noempty ss = SimGen.noempty ss'
  | Err _ _, Err _ _ => True
  | _, _ => False
  end.
Proof.
  intros sane TOK ts ts' f He F F' Hd Hd' Hf Hf'.
  pose proof (init_rel ts ts' He F F' Hd Hd') as R.
  pose proof (module_relF T sane TOK f [] [] 0 0 (init ts) (init ts') eq_refl R) as G.
  pose proof (parse_program_total T TOK ts f Hf) as S1. pose proof (parse_program_total T TOK ts' f Hf') as S2.
  unfold parse_program in *.
  destruct (go T f (QModule [] [] 0 (init ts))) as [o|ce es| |], (go T f (QModule [] [] 0 (init ts'))) as [o'|ce' es'| |];
    cbn [as_Ss ParserTotal.settled] in *; try contradiction;
    destruct G as [X|[X|X]]; try discriminate X; unfold SimGen.mrel in X; try contradiction; try exact I;
    try (destruct o; contradiction).
  destruct o, o'; try contradiction. exact X.
Qed.
