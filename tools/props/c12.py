"""C12 -- modules: imports resolve as documented and files are isolated."""
import collections
import json
import os
import re

import resolve_gen as rg
import vlib
from props import c09

GEN = ["GenResolve", "GenSrcDigest"]
TRUSTED = [
    "Coq 8.16.1 kernel (coqc); vm_compute only for non-vacuity examples; no axioms",
    "translator tools/gens/gen_resolve.py (std library names and the use-paths inside std/*.sy)",
    "Resolve/Modules.v as the model of sylt_parser::tree's work list and of use_path (paths as text; PathBuf "
    "join/parent reduced to string operations on identifier/slash paths): validated on every run against the real "
    "tree() (module list, order, file ids, the file of every use statement, implicit namespace names)",
    "Resolve/Resolver.v as the model of the namespace passes (shared with C09; tied to the real resolver's output)",
    "extraction: ExtrOcamlBasic + ExtrOcamlString only; ocaml/resolve_driver.ml; harness `tree`/`compile`",
    "oracle: tools/resolve_gen.py (partitions, import styles), tools/lua_run.py (extracted LuaCore interpreter "
    "as the definition of running the emitted Lua)",
]
ASSUMPTIONS = [
    "use-paths consist of identifiers separated by single slashes (what the parser's `path` accepts), file names in "
    "the file map are normalised (no `.`/`..`/double slashes)",
    "programs for the trace oracle are compiled with --no-std and declare `print` external in every module",
]
EXPLANATION = ("Model of module discovery (work list, visited set, file ids) and of use_path, tied to the real "
               "tree(); theorems visit_once / use_path_spec / import_transparent / not_imported_invisible over the models; "
               "oracle: single-file vs partitioned multi-file variants (every import style, aliases, sub-folders, rooted "
               "paths, exports.sy, chains, cycles) must agree on accept/reject and on the Lua trace.")

_model = c09._model
build = c09.build


# ------------------------------------------------------------------------------------------------
# tie: module discovery and use_path

MOD_RX = re.compile(r"\(module (file:\S+|lib:\S+) (\d+)")
USE_RX = re.compile(r"\((?:use)@\S+ (\S*?)@\S+ \((implicit|alias) (\S+?)@\S+\) (file:[^)\s]+|lib:[^)\s]+)\)")
FROM_RX = re.compile(r"\(fromuse@\S+ (\S*?)@\S+ (?:\(imp [^)]*\) )*(file:[^)\s]+|lib:[^)\s]+)\)")


def abstract_case(main, std, abstract):
    parts = [main, "std" if std else "nostd"]
    for q in sorted(abstract):
        kind, uses = abstract[q]
        parts.append("%s=%s:%s" % (q, kind, ",".join(uses)))
    return "\t".join(parts)


def tie(ctx):
    exe = _model["exe"]
    n = 400 if ctx.tier == "quick" else 8000
    projs = []
    for i in range(n):
        r = vlib.rng(ctx.seed, "c12-proj-%d" % i)
        projs.append(rg.module_project(r))
    # layouts of generated programs and the repo's import tests take part too (only the `usepath` part)
    real = vlib.harness("tree", [rg.case(f, m, s) for f, m, s, _ in projs])
    mod = vlib.model(exe, ["modules"], [abstract_case(m, s, a) for _, m, s, a in projs])
    mism = []
    dist = collections.Counter()
    # the hypothesis of C12_tree_prefix (respell_okb) on every generated project, written with bare paths, for the four
    # spellings of the project directory
    bare = []
    for _, m, s, a in projs:
        pre = m[:-len("main.sy")]
        bare.append(abstract_case("main.sy", s, {q[len(pre):]: v for q, v in a.items()}))
    for (files, main, std, abstract), rs in zip(projs, vlib.model(exe, ["respell"], bare)):
        dist["C12_tree_prefix: respell_okb for /p/ , bare, ./ , proj/ = " + rs.split(" ")[-1]] += 1
        if rs != "RESPELL tttt":
            mism.append({"case": "respell_okb is false on a generated project", "files": files, "got": rs})
    nontrivial = set()
    use_cases = []
    use_want = []
    for (files, main, std, abstract), a, b in zip(projs, real, mod):
        dist["main file spelled " + {"/p/": "absolute (/p/main.sy)", "": "bare (main.sy)", "./": "./main.sy",
                                     "proj/": "relative dir (proj/main.sy)"}[main[:-len("main.sy")]]] += 1
        if a.startswith("TREE "):
            text = vlib.unhex(a[5:]).decode("utf-8")
            mods = MOD_RX.findall(text)
            want = "MODULES" + "".join(" %s#%s" % m for m in mods)
            dist["ok:%d-modules" % min(len(mods), 12)] += 1
            # every use statement: file and implicit name
            for chunk in text.split("(module ")[1:]:
                cur = chunk.split(" ", 1)[0]
                for m in USE_RX.finditer(chunk):
                    use_cases.append("%s\t%s\t%s" % (rg.rust_parent(main), cur, m.group(1)))
                    use_want.append("USE %s %s" % (m.group(4), m.group(3) if m.group(2) == "implicit" else None))
                for m in FROM_RX.finditer(chunk):
                    use_cases.append("%s\t%s\t%s" % (rg.rust_parent(main), cur, m.group(1)))
                    use_want.append("USE %s %s" % (m.group(2), None))
        elif a.startswith("ERR"):
            failed = []
            for e in a.split(" ")[1:]:
                f = e.split("|")
                name = f[1]
                name = name if name.startswith("lib:") else "file:" + name
                if name not in failed:
                    failed.append(name)
            want = "ERRORS" + "".join(" " + f for f in failed)
            dist["err:" + "+".join(sorted({e.split("|")[0] for e in a.split(" ")[1:]}))] += 1
        else:
            want = a
            dist["other"] += 1
        if want != b:
            if len(mism) < 10:
                mism.append({"case": "modules", "files": files, "std": std, "real": want, "model": b})
        else:
            nontrivial.add(b)
    got = vlib.model(exe, ["usepath"], use_cases)
    bad_use = 0
    forms = collections.Counter()
    for c, w, g in zip(use_cases, use_want, got):
        path = c.split("\t")[2]
        forms[("rooted " if path.startswith("/") else "relative ") + ("folder" if path.endswith("/") else "file")
              + (" (lib)" if w.split(" ")[1].startswith("lib:") else "")] += 1
        wf, wn = w.split(" ")[1], w.split(" ")[2]
        gf = g.split(" ")
        if len(gf) < 3 or gf[1] != wf or (wn != "None" and gf[2] != wn):
            bad_use += 1
            if len(mism) < 10:
                mism.append({"case": "use_path", "input": c, "real": w, "model": g})
    dist["use statements compared"] = len(use_cases)
    for k, v in forms.items():
        dist["use form: " + k] = v
    # the resolver part of the tie (shared with C09) on multi-file inputs
    cases = c09.corpus_cases("c12") + [("repo:" + rel, c) for rel, c in rg.repo_cases(std=True)
                                        if rel.startswith(("import", "dependencies"))]
    cases += [x for x in c09.gen_programs(ctx, 60 if ctx.tier == "quick" else 1500, "c12-tie")
              if x[0] in ("gen-multifile", "gen-import-errors")]
    m2, stats, n2, nt2, _ = c09.compare_resolver(cases, exe)
    for k, v in stats.items():
        dist["resolver " + k] = v
    mism += m2
    return {"name": "modules", "ok": not mism, "mismatches": mism[:10], "evaluations": len(projs) + len(use_cases) + n2,
            "distinct_nontrivial": len(nontrivial) + nt2,
            "rule": "generated projects of 2-7 files in nested folders with every use-path form, std names, cycles, "
                    "diamonds, missing files, syntax errors, conflict markers: real tree() module list + file ids (or "
                    "the failing files) == Modules.tree on the abstract file map; file and implicit name of every use "
                    "statement == Modules.use_path; plus the resolver tie on multi-file programs",
            "samples": [{"project": projs[0][3], "modules": mod[0]}], "distribution": dict(dist)}


# ------------------------------------------------------------------------------------------------
# oracle: single file vs multi-file layouts

def open_classes():
    return {kf.get("class") for kf in vlib.known_findings("C12") if kf.get("status") == "open" and kf.get("class")}


LUA = {"available": None, "why": ""}


def run_traces(lines):
    """compile every case with the real compiler and run the accepted ones in the LuaCore interpreter
    (tools/lua_run.py).  When the interpreter cannot be built, only accept/reject is compared (the
    evidence says so)."""
    res = vlib.harness("compile", lines)
    luas = [vlib.unhex(r[3:]) for r in res if r.startswith("OK ")]
    runs = None
    if luas and LUA["available"] is not False:
        try:
            import lua_run
            runs = iter(lua_run.run_lua(luas, fuel=200000))
            LUA["available"] = True
        except Exception as e:      # the interpreter is another component: do not fail the check on it
            LUA["available"] = False
            LUA["why"] = str(e)[-300:]
            vlib.log("lua_run unavailable, comparing accept/reject only:", LUA["why"][-200:])
    if runs is None:
        runs = iter([{"final": "not-run", "msg": "", "trace": []} for _ in luas])
    out = []
    for r in res:
        if r.startswith("OK "):
            x = next(runs)
            out.append(("OK", x["final"], x["msg"], tuple(x["trace"])))
        else:
            out.append(("ERR",) + tuple(r.split(" ")[1].split("|")[:1]))
    return out


def base_programs(ctx, n, salt, **kw):
    out = []
    for i in range(n):
        r = vlib.rng(ctx.seed, "%s-%d" % (salt, i))
        g = rg.Gen(r, size=r.randint(1, 3), **kw)
        p = g.program()
        out.append((p, rg.naming_distinct(p), r))
    return out


def oracle_items(ctx, n, salt):
    items = []
    for p, nd, r in base_programs(ctx, n, salt, global_assign=False):
        single = rg.single(rg.EXT_PRINT + rg.Render(nd).program(p), False)
        for _ in range(3):
            lay = rg.Layout(p, r, nd, prelude=rg.EXT_PRINT)
            # the project directory in every spelling: absolute, bare file names, ./, a relative directory
            prefix = r.choice(SPELLINGS)
            files, main = rg.respell_files(lay.files(), "/main.sy", prefix)
            items.append({"kind": "layout", "single": single, "files": files, "main": main, "p": p, "nd": nd,
                          "styles": sorted(set(lay.style.values())), "nmods": len(lay.paths), "spelling": prefix})
        # not imported -> not visible: refer to another module's global without importing it
        lay = rg.Layout(p, r, nd, nmods=2, styles=["use", "use_as"], prelude=rg.EXT_PRINT)
        files = lay.files()
        # (only main is certainly loaded: a module nobody imports is never parsed)
        victims = [(q, h, x) for q in ["/main.sy"] for h in lay.refs[q] for x in lay.refs[q][h]
                   if not isinstance(x, str)]
        if victims:
            q, h, x = r.choice(victims)
            # drop the qualification of one reference: the bare name is not a global of module q
            bare = nd[x]
            qual = lay.prefix(q, x)
            if qual != bare and qual in files[q]:
                f2 = dict(files)
                f2[q] = files[q].replace(qual, bare, 1)
                items.append({"kind": "unimported", "files": f2, "p": p, "nd": nd})
    items += chain_items(ctx, n // 3 + 1, salt)
    items += shared_state_items(ctx, n // 2 + 4, salt)
    items += foreign_ns_items(ctx)
    return items


SPELLINGS = ["/", "", "./", "proj/", "/abs/dir/"]


def shared_state_items(ctx, n, salt):
    """one module with mutable state reached through TWO import routes -- once relatively, once through a
    `/`-rooted path, also as a folder (exports.sy) and from a sub-folder -- under every spelling of the main
    path: the module must be loaded once (the counter counts every bump)"""
    items = []
    for i in range(n):
        r = vlib.rng(ctx.seed, "%s-shared-%d" % (salt, i))
        folder = r.random() < 0.4
        cname = r.choice(["counter", "state"])
        cfile = "/%s/exports.sy" % cname if folder else "/%s.sy" % cname
        rel = cname + "/" if folder else cname              # written in a file of the root directory
        rooted = "/" + rel
        wdir = r.choice(["/lib/", "/lib/deep/", "/"])
        counter = rg.EXT_PRINT + "count := 0\n\nbump :: fn do\n    count += 1\nend\n"
        # the worker imports the counter through the rooted path (or, when it lives in the root itself,
        # relatively while main uses the rooted path)
        main_imp, worker_imp = (rel, rooted) if wdir != "/" or r.random() < 0.5 else (rooted, rel)
        worker = rg.EXT_PRINT + "use %s\n\nwork :: fn do\n    %s.bump()\nend\n" % (worker_imp, cname)
        k = r.randint(1, 3)
        main = (rg.EXT_PRINT + "use %s\nuse %sworker\n\nstart :: fn do\n" % (main_imp, wdir[1:])
                + "    worker.work()\n" * k + "    %s.bump()\n    print(%s.count)\nend\n" % (cname, cname))
        files = {"/main.sy": main, cfile: counter, wdir + "worker.sy": worker}
        single = rg.single(rg.EXT_PRINT + "count := 0\n\nbump :: fn do\n    count += 1\nend\n\n"
                           "work :: fn do\n    bump()\nend\n\nstart :: fn do\n" + "    work()\n" * k
                           + "    bump()\n    print(count)\nend\n", False)
        for prefix in SPELLINGS:
            f2, m2 = rg.respell_files(files, "/main.sy", prefix)
            items.append({"kind": "shared-state", "single": single, "files": f2, "main": m2, "spelling": prefix})
    return items


def chain_items(ctx, n, salt):
    """re-exports through from-imports and use-chains, cycles and diamonds: every module order must give
    the same answer"""
    items = []
    for i in range(n):
        r = vlib.rng(ctx.seed, "%s-chain-%d" % (salt, i))
        k = r.randint(2, 4)
        mods = ["m%d" % j for j in range(k)]
        val = r.randint(1, 99)
        # m_{k-1} defines x; every other module re-exports it from the next one; main imports from m0
        files = {"/%s.sy" % mods[-1]: rg.EXT_PRINT + "x :: %d\n" % val}
        for j in range(k - 1):
            files["/%s.sy" % mods[j]] = rg.EXT_PRINT + "from %s use x\n" % mods[j + 1]
        main_imports = ["from %s use x" % mods[0]]
        if r.random() < 0.5:
            # importing the later modules in main as well changes the order in which tree() visits them
            extra = ["use %s" % m for m in r.sample(mods[1:], r.randint(1, k - 1))]
            main_imports = main_imports + extra if r.random() < 0.5 else extra + main_imports
        files["/main.sy"] = rg.EXT_PRINT + "\n".join(main_imports) + "\nstart :: fn do\n    print(x)\nend\n"
        single = rg.single(rg.EXT_PRINT + "x :: %d\nstart :: fn do\n    print(x)\nend\n" % val, False)
        items.append({"kind": "reexport", "single": single, "files": files})
        # the same re-exported name reached through a namespace: `use m0` ... `m0.x`
        f2 = dict(files)
        f2["/main.sy"] = rg.EXT_PRINT + "use %s\nstart :: fn do\n    print(%s.x)\nend\n" % (mods[0], mods[0])
        items.append({"kind": "reexport-ns", "single": single, "files": f2})
    items += reexport_orders(ctx, max(6, n // 4), salt)
    return items


def reexport_orders(ctx, n, salt):
    """rg.reexport_projects: a re-export project in EVERY order in which tree() can be made to visit the modules;
    accepted shapes are compared with the single-file program, the two rejected shapes must be rejected"""
    items = []
    for i in range(n):
        r = vlib.rng(ctx.seed, "%s-reorder-%d" % (salt, i))
        for shape, files, single_src in rg.reexport_projects(r, i):
            if single_src is None:
                items.append({"kind": "reexport-reject", "files": files, "shape": shape})
            else:
                items.append({"kind": "reexport", "single": rg.single(single_src, False), "files": files, "shape": shape})
    return items


CFG_SRC = ("limit :: 10\n\nget :: fn -> int do\n    ret limit\nend\n\nT :: blob { limit: int }\n")
# worker modules that import NOTHING and mention the namespace name `config`: must be rejected
NS_REJECT = [
    ("value", "peek :: fn -> int do\n    ret config.limit\nend\n"),
    ("call", "peek :: fn -> int do\n    ret config.get()\nend\n"),
    ("global-init", "copy :: config.limit\n\npeek :: fn -> int do\n    ret copy\nend\n"),
    ("type", "peek :: fn -> int do\n    t :: config.T { limit: 4 }\n    ret t.limit\nend\n"),
    ("param-type", "first :: fn t: config.T -> int do\n    ret t.limit\nend\n\npeek :: fn -> int do\n    ret 1\nend\n"),
    ("closure", "peek :: fn -> int do\n    f :: fn -> int do\n        ret config.limit\n    end\n    ret f()\nend\n"),
]
# worker modules that import nothing and have a LOCAL called `config` (a blob with a field `limit`): `config.limit`
# is a field access, whatever namespaces other files have imported
NS_LOCAL = [
    ("param", "run :: fn config: Config -> int do\n    ret config.limit\nend\n\n"
              "peek :: fn -> int do\n    ret run(Config { limit: 3 })\nend\n"),
    ("local", "peek :: fn -> int do\n    config := Config { limit: 3 }\n    ret config.limit\nend\n"),
    ("closure-param", "peek :: fn -> int do\n    f :: fn config: Config -> int do\n        ret config.limit\n    end\n"
                      "    ret f(Config { limit: 3 })\nend\n"),
    ("block-local", "peek :: fn -> int do\n    out := 0\n    do\n        config :: Config { limit: 3 }\n"
                    "        out = config.limit\n    end\n    ret out\nend\n"),
    ("branch-local", "peek :: fn -> int do\n    out := 0\n    if out == 0 do\n        config :: Config { limit: 3 }\n"
                     "        out = config.limit + config.limit\n    end\n    ret out\nend\n"),
    ("assign-field", "peek :: fn -> int do\n    config := Config { limit: 3 }\n    config.limit = 4\n    ret config.limit\nend\n"),
    ("global", "config :: Config { limit: 3 }\n\npeek :: fn -> int do\n    ret config.limit\nend\n"),
]


def foreign_ns_items(ctx):
    """a NAMESPACE name that only ANOTHER file imports: (kind unimported-ns) a module that imports nothing and
    writes `config.x` must be rejected; (kind foreign-ns-local) a module that imports nothing and has a parameter /
    local / global called `config` reads its field -- the project behaves like the single-file program.  The
    importing file is main (its `use` written before or after the `use` of the worker) or a sibling module
    discovered before or after the worker; the import is `use config`, an alias `use settings as config`, or a
    folder `use config/`.  All combinations, always."""
    items = []
    for imp_kind in ("file", "alias", "folder"):
        path, use = {"file": ("/config.sy", "use config"), "alias": ("/settings.sy", "use settings as config"),
                     "folder": ("/config/exports.sy", "use config/")}[imp_kind]
        for importer in ("main", "sibling"):
            for first in (True, False):
                base = {path: rg.EXT_PRINT + CFG_SRC}
                if importer == "main":
                    uses = [use, "use worker"] if first else ["use worker", use]
                    shown = "config.limit"
                else:
                    uses = ["use sibling", "use worker"] if first else ["use worker", "use sibling"]
                    base["/sibling.sy"] = rg.EXT_PRINT + use + "\n\nsib :: fn -> int do\n    ret config.limit + 1\nend\n"
                    shown = "sibling.sib()"
                main = (rg.EXT_PRINT + "\n".join(uses) + "\n\nstart :: fn do\n    print(%s)\n    print(worker.peek())\nend\n" % shown)
                where = "%s/%s/%s" % (imp_kind, importer, "before" if first else "after")
                for shape, src in NS_REJECT:
                    files = dict(base)
                    files["/main.sy"] = main
                    files["/worker.sy"] = rg.EXT_PRINT + src
                    items.append({"kind": "unimported-ns", "files": files, "shape": shape, "where": where})
                for shape, src in NS_LOCAL:
                    files = dict(base)
                    files["/main.sy"] = main
                    files["/worker.sy"] = rg.EXT_PRINT + "Config :: blob { limit: int }\n\n" + src
                    single = (rg.EXT_PRINT + "cfg_limit :: 10\n\nConfig :: blob { limit: int }\n\n" + src
                              + "\nstart :: fn do\n    print(%s)\n    print(peek())\nend\n"
                              % ("cfg_limit" if importer == "main" else "cfg_limit + 1"))
                    items.append({"kind": "foreign-ns-local", "single": rg.single(single, False), "files": files,
                                  "shape": shape, "where": where})
    return items


def judge(it, res):
    if it["kind"] in ("layout", "reexport", "reexport-ns", "shared-state", "foreign-ns-local"):
        a, b = res
        if a == b:
            return None
        if a[0] != b[0]:
            return "single file %s but multi-file layout %s" % (a[:2], b[:2])
        return "same acceptance but different run: single %s, multi-file %s" % (str(a[1:])[:150], str(b[1:])[:150])
    if it["kind"] == "unimported":
        (a,) = res
        return None if a[0] == "ERR" else "a global of another module is visible without an import"
    if it["kind"] == "unimported-ns":
        (a,) = res
        return None if a[0] == "ERR" else ("a module that imports nothing uses the namespace name `config` (%s, imported only by "
                                           "another file: %s) and is accepted" % (it["shape"], it["where"]))
    if it["kind"] == "reexport-reject":
        (a,) = res
        return None if a[0] == "ERR" else "a re-export project with a %s is accepted" % (
            "missing name" if it["shape"] == "missing" else "collision of two definitions under one name")
    return None


def classify(it, v):
    # the recorded finding is specific: the single-file program is accepted and RUNS, the layout with a from-import
    # of a re-exported name is REJECTED at compile time (name resolution: "Cannot find .. in namespace ..").  Any
    # other disagreement in these families (different run, different error class, rejected single file) is new.
    # (reexport-ns projects contain the same from-imports of re-exported names further down the chain)
    if it["kind"] in ("reexport", "reexport-ns") and v and v.startswith("single file ('OK'") \
            and "multi-file layout ('ERR', 'Compile')" in v:
        return "from-import-of-reexport-depends-on-module-order"
    return None


def lines_of(it):
    if it["kind"] in ("layout", "reexport", "reexport-ns", "shared-state", "foreign-ns-local"):
        return [it["single"], rg.case(it["files"], it.get("main", "/main.sy"), False)]
    return [rg.case(it["files"], it.get("main", "/main.sy"), False)]


def run_oracle(ctx, items):
    lines = []
    spans = []
    for it in items:
        ls = lines_of(it)
        spans.append((len(lines), len(ls)))
        lines += ls
    res = run_traces(lines)
    return [judge(it, res[a:a + n]) for it, (a, n) in zip(items, spans)]


def always(ctx):
    n = 60 if ctx.tier == "quick" else 1500
    items = oracle_items(ctx, n, "c12-oracle")
    verdicts = run_oracle(ctx, items)
    opened = open_classes()
    dist = collections.Counter()
    styles = collections.Counter()
    un = []
    for it, v in zip(items, verdicts):
        key = it["kind"] + ":" + ("holds" if v is None else "VIOLATED")
        if it["kind"] == "layout":
            for s in it["styles"]:
                styles[s] += 1
            styles["modules=%d" % it["nmods"]] += 1
        if "spelling" in it:
            styles["main path under %r" % it["spelling"]] += 1
        if v is not None:
            c = classify(it, v)
            key += ":" + (c or "unexplained")
            if c is None or c not in opened:
                un.append((it, v, c))
        dist[key] += 1
    ctx.c12_unexplained = un
    if un:
        it, v, c = un[0]
        ctx.brk("oracle:" + (c or "unexplained"),
                "%d of %d oracle evaluations violate C12 and are not covered by an open known finding; first: %s (class %s)"
                % (len(un), len(items), v, c))
    return {"reexport_case": c09.flags_case().get("imports"), "oracle_evaluations": len(items), "oracle_distribution": dict(dist), "oracle_import_styles": dict(styles),
            "oracle_traces_compared": bool(LUA["available"]), "oracle_lua_unavailable_reason": LUA["why"],
            "oracle_rule": "real compiler (--no-std, external print) + LuaCore run: a generated program in one file vs the "
                           "same globals partitioned over 2-4 files/folders with a random import style per module pair "
                           "(use, use-as, from, from-as, chain a.b.x; relative and rooted paths, exports.sy) -> same "
                           "accept/reject and same trace; an unqualified reference to a global that was not imported -> "
                           "rejected; re-export chains through from-imports -> same as single file, also in every order in which tree() "
                           "can visit the modules (chain, aliases along the chain, diamond, cycle through main) while a name "
                           "missing at the end of the chain and two definitions under one name are rejected in every order; every layout with the main file given as an "
                           "absolute path, a bare name (main.sy), ./main.sy or proj/main.sy (the file map keyed accordingly); a module "
                           "with mutable state reached once relatively and once through a `/`-rooted path (file or exports.sy, "
                           "from sub-folders) must be loaded once; a namespace name that only ANOTHER file imports (main or a "
                           "sibling, discovered before or after; plain, alias, folder): a module that imports nothing and "
                           "writes `config.x` (value, call, global initialiser, type, parameter type, closure) is rejected, and "
                           "a parameter / local / closure parameter / block or branch local / global called `config` keeps its "
                           "field access (same trace as the single-file program)"}


def describe(it, v):
    d = {"what": v, "class": classify(it, v) or "unexplained", "kind": it["kind"], "files": it["files"],
         "cases": lines_of(it)}
    if "single" in it:
        d["single_file"] = vlib.unhex(it["single"].split("\t")[2].split("=", 1)[1]).decode("utf-8")
    return d


def search(ctx):
    un = getattr(ctx, "c12_unexplained", None)
    if un is None:
        always(ctx)
        un = ctx.c12_unexplained
    if not un:
        items = oracle_items(ctx, 300 if ctx.tier == "quick" else 4000, "c12-search")
        verdicts = run_oracle(ctx, items)
        opened = open_classes()
        un = [(it, v, classify(it, v)) for it, v in zip(items, verdicts)
              if v is not None and (classify(it, v) is None or classify(it, v) not in opened)]
        if not un:
            return None
    un.sort(key=lambda x: (x[2] is not None, sum(len(s) for s in x[0]["files"].values())))
    it, v, c = un[0]
    d = describe(it, v)
    d["failing_inputs_found"] = len(un)
    return d


def replay_known(ctx, kf):
    w = kf.get("witness") or {}
    if "files" in w and "single" in w:
        res = run_traces([rg.single(w["single"], False), rg.case(w["files"], "/main.sy", False)])
        return res[0] != res[1]
    if "files" in w:
        res = vlib.harness("compile", [rg.case(w["files"], "/main.sy", w.get("std", False))])
        return not res[0].startswith("OK")
    return True


def replay(ctx, rep):
    fi = rep.get("failing_input") or {}
    if not fi:
        print("nothing to replay: no failing input in this file")
        return 0
    vlib.build_harness()
    res = run_traces(fi["cases"])
    for r in res:
        print(str(r)[:300])
    kind = fi.get("kind", "layout")
    v = judge({"kind": kind}, res)
    print("replay ->", v or "property holds")
    return 1 if v else 0
