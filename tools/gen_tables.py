#!/usr/bin/env python3
"""Translators: re-read /repo's sources and regenerate coq/Gen/*.v.

Every generator returns (filename, text).  A generator that cannot parse its source raises
Untranslatable; the file is then written with a marker definition `untranslatable := true` and the
obligations that depend on it count as broken.  Files are only rewritten when their content changes
so that unchanged tables keep their compiled .vo."""
import glob
import json
import os
import re
import sys

REPO = os.environ.get("VERIF_REPO", "/repo")
HERE = os.path.dirname(os.path.abspath(__file__))
VERIF = os.path.dirname(HERE)
GEN = os.path.join(VERIF, "coq", "Gen")


class Untranslatable(Exception):
    pass


# --------------------------------------------------------------------------------------------
# Unicode Nd (what `\d` means for logos-derive 0.12 / regex-syntax 0.6.25)

def unicode_nd():
    fallback = os.path.join(HERE, "unicode_nd.json")
    pats = glob.glob(os.path.expanduser(
        "~/.cargo/registry/src/*/regex-syntax-0.6.25/src/unicode_tables/general_category.rs"))
    if pats:
        src = open(pats[0], encoding="utf-8").read()
        m = re.search(r"pub const DECIMAL_NUMBER: &'static \[\(char, char\)\] = &\[(.*?)\];", src, re.S)
        if m:
            out = []
            for a, b in re.findall(r"\('(.+?)', '(.+?)'\)", m.group(1)):
                def cv(x):
                    if x.startswith("\\u{"):
                        return int(x[3:-1], 16)
                    return ord(x)
                out.append((cv(a), cv(b)))
            return out
    return [tuple(x) for x in json.load(open(fallback))]


# --------------------------------------------------------------------------------------------
# regex subset -> rx term

class RxParser:
    def __init__(self, s, nd):
        self.s = s
        self.i = 0
        self.nd = nd

    def peek(self):
        return self.s[self.i] if self.i < len(self.s) else None

    def parse(self):
        r = self.alt()
        if self.i != len(self.s):
            raise Untranslatable("regex: trailing input at %d in %r" % (self.i, self.s))
        return r

    def alt(self):
        parts = [self.concat()]
        while self.peek() == "|":
            self.i += 1
            parts.append(self.concat())
        r = parts[-1]
        for p in reversed(parts[:-1]):
            r = ("alt", p, r)
        return r

    def concat(self):
        items = []
        while self.peek() is not None and self.peek() not in "|)":
            items.append(self.repeat())
        # merge literal runs
        merged = []
        for it in items:
            if it[0] == "lit" and merged and merged[-1][0] == "lit":
                merged[-1] = ("lit", merged[-1][1] + it[1])
            else:
                merged.append(it)
        if not merged:
            return ("lit", [])
        r = merged[-1]
        for p in reversed(merged[:-1]):
            r = ("cat", p, r)
        return r

    def repeat(self):
        a = self.atom()
        while self.peek() is not None and self.peek() in "*+?":
            c = self.peek()
            self.i += 1
            a = ({"*": "star", "+": "plus", "?": "opt"}[c], a)
        return a

    def escape(self):
        # after a backslash
        c = self.peek()
        self.i += 1
        if c == "d":
            return ("set", False, list(self.nd))
        if c == "n":
            return ("lit", [10])
        if c == "t":
            return ("lit", [9])
        if c == "r":
            return ("lit", [13])
        if c in ".+*?()[]{}|\\/^$-\"'":
            return ("lit", [ord(c)])
        raise Untranslatable("regex: unsupported escape \\%s" % c)

    def atom(self):
        c = self.peek()
        if c == "(":
            self.i += 1
            r = self.alt()
            if self.peek() != ")":
                raise Untranslatable("regex: missing )")
            self.i += 1
            return r
        if c == "[":
            return self.cls()
        if c == "\\":
            self.i += 1
            return self.escape()
        if c in ".^${}":
            raise Untranslatable("regex: unsupported metachar %s" % c)
        self.i += 1
        return ("lit", [ord(c)])

    def cls(self):
        assert self.peek() == "["
        self.i += 1
        neg = False
        if self.peek() == "^":
            neg = True
            self.i += 1
        ranges = []
        first = True
        while True:
            c = self.peek()
            if c is None:
                raise Untranslatable("regex: unterminated class")
            if c == "]" and not first:
                self.i += 1
                break
            first = False
            if c == "\\":
                self.i += 1
                e = self.escape()
                if e[0] == "set":
                    ranges.extend(e[2])
                    continue
                lo = e[1][0]
            else:
                self.i += 1
                lo = ord(c)
            if self.peek() == "-" and self.i + 1 < len(self.s) and self.s[self.i + 1] != "]":
                self.i += 1
                c2 = self.peek()
                if c2 == "\\":
                    self.i += 1
                    hi = self.escape()[1][0]
                else:
                    self.i += 1
                    hi = ord(c2)
                ranges.append((lo, hi))
            else:
                ranges.append((lo, lo))
        ranges.sort()
        return ("set", neg, ranges)


ND_CACHE = None


def rx_to_coq(r):
    global ND_CACHE
    k = r[0]
    if k == "set" and ND_CACHE is not None and list(r[2]) == ND_CACHE:
        return "(XSet %s nd)" % ("true" if r[1] else "false")
    if k == "lit":
        return "(XLit [%s])" % "; ".join(str(x) for x in r[1])
    if k == "set":
        return "(XSet %s [%s])" % ("true" if r[1] else "false",
                                    "; ".join("(%d, %d)" % (a, b) for a, b in r[2]))
    if k == "cat":
        return "(XCat %s %s)" % (rx_to_coq(r[1]), rx_to_coq(r[2]))
    if k == "alt":
        return "(XAlt %s %s)" % (rx_to_coq(r[1]), rx_to_coq(r[2]))
    return "(%s %s)" % ({"star": "XStar", "plus": "XPlus", "opt": "XOpt"}[k], rx_to_coq(r[1]))


def rust_string_literal(s):
    """s starts at a string literal: "...", r"...", r#"..."#.  Returns (value, rest, raw?)"""
    m = re.match(r'r(#*)"', s)
    if m:
        hashes = m.group(1)
        end = s.index('"' + hashes, m.end())
        return s[m.end():end], s[end + 1 + len(hashes):], True
    if s.startswith('"'):
        i = 1
        out = []
        while s[i] != '"':
            if s[i] == "\\":
                i += 1
                out.append({"n": "\n", "t": "\t", "r": "\r", "\\": "\\", '"': '"', "'": "'", "0": "\0"}[s[i]])
            else:
                out.append(s[i])
            i += 1
        return "".join(out), s[i + 1:], False
    raise Untranslatable("expected string literal at %r" % s[:20])


CALLBACKS = [
    (r"^\|lex\|lex\.slice\(\)\.to_string\(\)$", "CbSlice"),
    (r"^\|lex\|\{letmuts=lex\.slice\(\)\.to_string\(\);s\.remove\(0\);s\.pop\(\);s\}$", "CbStrip"),
    (r"^\|lex\|lex\.slice\(\)\[2\.\.\]\.trim\(\)\.to_string\(\)$", "CbComment"),
    (r"^logos::skip$", "CbSkip"),
]


def split_top_commas(s):
    parts, depth, cur, i = [], 0, [], 0
    instr = False
    while i < len(s):
        c = s[i]
        if instr:
            cur.append(c)
            if c == "\\":
                cur.append(s[i + 1])
                i += 1
            elif c == '"':
                instr = False
        else:
            if c == '"':
                instr = True
                cur.append(c)
            elif c in "([{":
                depth += 1
                cur.append(c)
            elif c in ")]}":
                depth -= 1
                cur.append(c)
            elif c == "," and depth == 0:
                parts.append("".join(cur))
                cur = []
            else:
                cur.append(c)
        i += 1
    if cur:
        parts.append("".join(cur))
    return parts


def gen_tokens():
    path = os.path.join(REPO, "sylt-tokenizer/src/token.rs")
    src = open(path, encoding="utf-8").read()
    global ND_CACHE
    nd = unicode_nd()
    ND_CACHE = sorted(nd)
    m = re.search(r"pub enum Token \{(.*)\n\}", src, re.S)
    if not m:
        raise Untranslatable("token.rs: enum Token not found")
    body = m.group(1)
    # strip // comments outside attributes (line comments at line start)
    lines = [l for l in body.split("\n") if not l.strip().startswith("//")]
    body = "\n".join(lines)
    pos = 0
    entries = []
    pending = []
    tok_re = re.compile(r"\s*(#\[|[A-Za-z_][A-Za-z0-9_]*)")
    while True:
        m = tok_re.match(body, pos)
        if not m:
            break
        if m.group(1) == "#[":
            # find the matching ]
            i = m.end()
            depth = 1
            instr = None
            while depth:
                c = body[i]
                if instr:
                    if instr == '"' and c == "\\":
                        i += 1
                    elif body.startswith(instr_end, i):
                        i += len(instr_end) - 1
                        instr = None
                else:
                    mm = re.match(r'r(#*)"', body[i:])
                    if mm:
                        instr = "raw"
                        instr_end = '"' + mm.group(1)
                        i += mm.end() - 1
                    elif c == '"':
                        instr = '"'
                        instr_end = '"'
                    elif c == "[":
                        depth += 1
                    elif c == "]":
                        depth -= 1
                i += 1
            pending.append(body[m.end():i - 1])
            pos = i
        else:
            name = m.group(1)
            i = m.end()
            payload = None
            if i < len(body) and body[i] == "(":
                j = body.index(")", i)
                payload = body[i + 1:j].strip()
                i = j + 1
            mm = re.match(r"\s*,", body[i:])
            if mm:
                i += mm.end()
            entries.append((name, payload, pending))
            pending = []
            pos = i
    pats = []
    for name, payload, attrs in entries:
        for a in attrs:
            a = a.strip()
            if a == "error":
                continue
            mm = re.match(r"(token|regex)\((.*)\)$", a, re.S)
            if not mm:
                raise Untranslatable("token.rs: unknown attribute %r on %s" % (a, name))
            kind, inner = mm.group(1), mm.group(2).strip()
            lit, rest, raw = rust_string_literal(inner)
            args = [x.strip() for x in split_top_commas(rest.lstrip().lstrip(","))] if rest.strip() else []
            args = [x for x in args if x]
            prio = None
            cb = "CbUnit"
            for arg in args:
                pm = re.match(r"priority\s*=\s*(\d+)$", arg)
                if pm:
                    prio = int(pm.group(1))
                    continue
                norm = re.sub(r"\s+", "", arg)
                if re.match(r"^\|lex\|lex\.slice\(\)\.parse\(\)$", norm):
                    cb = {"f64": "CbFloat", "i64": "CbInt", "bool": "CbBool"}.get(payload)
                    if cb is None:
                        raise Untranslatable("token.rs: parse() callback with payload %r" % payload)
                    continue
                for rx, nm in CALLBACKS:
                    if re.match(rx, norm):
                        cb = nm
                        break
                else:
                    raise Untranslatable("token.rs: unknown callback %r on %s" % (arg, name))
            if kind == "token":
                rxt = ("lit", [ord(c) for c in lit])
            else:
                rxt = RxParser(lit, nd).parse()
            pats.append((name, rxt, prio, cb))
    if not pats:
        raise Untranslatable("token.rs: no patterns")
    out = ["(* GENERATED by tools/gen_tables.py from sylt-tokenizer/src/token.rs -- do not edit *)",
           "From Coq Require Import String List NArith.",
           "From Sylt Require Import Lex.Regex Lex.Logos.",
           "Import ListNotations.",
           "Local Open Scope N_scope.",
           "Local Open Scope string_scope.",
           "",
           "(* Unicode general category Nd, the meaning of \\d (regex-syntax 0.6.25) *)",
           "Definition nd : list (N * N) := [%s]." % "; ".join("(%d, %d)" % x for x in ND_CACHE),
           "",
           "Definition gen_table : Logos.table := ["]
    rows = []
    for name, rxt, prio, cb in pats:
        t = rx_to_coq(rxt)
        p = "%d" % prio if prio is not None else "(rx_prio %s)" % t
        rows.append('  mkPat "%s" %s %s %s' % (name, t, p, cb))
    out.append(";\n".join(rows))
    out.append("].")
    out.append("")
    return "GenTokens.v", "\n".join(out)


GENERATORS = {"GenTokens": gen_tokens}

# pluggable generators: tools/gens/<name>.py defining NAME (e.g. "GenPrec") and generate() -> (filename, text);
# they may raise gen_tables.Untranslatable
def _load_plugins():
    import importlib
    gdir = os.path.join(HERE, "gens")
    if not os.path.isdir(gdir):
        return
    sys.path.insert(0, HERE)
    for f in sorted(os.listdir(gdir)):
        if f.endswith(".py") and not f.startswith("_"):
            m = importlib.import_module("gens." + f[:-3])
            GENERATORS[m.NAME] = m.generate


_PLUGINS_LOADED = False


def load_plugins():
    global _PLUGINS_LOADED
    if _PLUGINS_LOADED:
        return
    _PLUGINS_LOADED = True
    # plug-ins do `import gen_tables`; when this file runs as a script make that the same module
    if __name__ == "__main__":
        sys.modules.setdefault("gen_tables", sys.modules["__main__"])
    _load_plugins()


def write_if_changed(path, text):
    if os.path.exists(path) and open(path, encoding="utf-8").read() == text:
        return False
    with open(path, "w", encoding="utf-8") as f:
        f.write(text)
    return True


def main(which=None):
    load_plugins()
    os.makedirs(GEN, exist_ok=True)
    status = {}
    for name, fn in GENERATORS.items():
        if which and name not in which:
            continue
        try:
            fname, text = fn()
            status[name] = "ok"
        except Untranslatable as e:
            fname = name + ".v"
            text = ("(* GENERATED: UNTRANSLATABLE: %s *)\nDefinition untranslatable_%s : bool := true.\n"
                    % (str(e).replace("*)", "* )"), name))
            status[name] = "untranslatable: %s" % e
        except Exception as e:  # a translator crash is also "untranslatable"
            fname = name + ".v"
            text = ("(* GENERATED: UNTRANSLATABLE (translator crashed): %s *)\nDefinition untranslatable_%s : bool := true.\n"
                    % (repr(e).replace("*)", "* )"), name))
            status[name] = "untranslatable: crash %r" % e
        write_if_changed(os.path.join(GEN, fname), text)
    json.dump(status, open(os.path.join(VERIF, "build", "gen_status.json"), "w"), indent=1)
    return status


if __name__ == "__main__":
    st = main(sys.argv[1:] or None)
    for k, v in st.items():
        print(k, v)
