(* Extraction of LuaCore (parser, interpreter, loadability check).
   Directives: only those of ExtrOcamlBasic and ExtrOcamlString; nat/N/Z/Q/positive stay inductive. *)
From Coq Require Import Extraction ExtrOcamlBasic ExtrOcamlString.
From Sylt Require Import Lua.LuaAst Lua.LuaLex Lua.LuaParse Lua.LuaCore Lua.LuaWf.
Extraction Language OCaml.
Extraction "luamodel.ml" LuaCore.run LuaWf.lua_wf.
