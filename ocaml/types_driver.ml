(* Driver for the extracted type-checker model (coq/Types/Tc.v).
   Case line:  the resolved S-expression produced by tools/resolved_io.py from the real compiler's own
               `vars` + `ordered` dumps (phases hook).
   Output:     OK
             | ERR <kind>|<file_id>|<line> [<kind>|<file_id>|<line> ...]     (all returned errors, first first)
             | PANIC <site> | FUEL | READFAIL <msg>
   argv.(1) = "id"   : declaration fields / variants are visited in sorted order
            = "set"  : additionally every rotation and the reversal of that order; prints
                       SET <outcome>;<outcome>;...  (distinct outcomes, first error only), where
                       outcome is OK or kind|file|line or PANIC:site or FUEL *)
open Typesmodel

let rec nat_of_int n = if n = 0 then O else S (nat_of_int (n - 1))
let rec int_of_pos = function XH -> 1 | XO p -> 2 * int_of_pos p | XI p -> 2 * int_of_pos p + 1
let int_of_n = function N0 -> 0 | Npos p -> int_of_pos p

let kind_name = function
  | KExotic -> "Exotic" | KToDo -> "ToDo" | KViolating -> "Violating" | KBinOp -> "BinOp" | KUniOp -> "UniOp"
  | KMismatch -> "Mismatch" | KMismatchAssign -> "MismatchAssign" | KAssignability -> "Assignability"
  | KExcessiveForce -> "ExcessiveForce" | KNamespaceNotExpression -> "NamespaceNotExpression"
  | KWrongArity -> "WrongArity" | KUnknownField -> "UnknownField" | KMissingField -> "MissingField"
  | KExternBlobInstance -> "ExternBlobInstance" | KTupleIndexOutOfRange -> "TupleIndexOutOfRange"
  | KTupleLengthMismatch -> "TupleLengthMismatch" | KUnresolvedName -> "UnresolvedName"
  | KWrongConstraintArity -> "WrongConstraintArity" | KUnknownConstraint -> "UnknownConstraint"
  | KUnknownConstraintArgument -> "UnknownConstraintArgument" | KUnknownVariant -> "UnknownVariant"
  | KMissingVariants -> "MissingVariants" | KExtraVariants -> "ExtraVariants" | KExpectVoid -> "ExpectVoid"
  | KImpurity -> "Impurity"

let site_name = function
  | PInnerDecl -> "InnerDecl" | POuterStmt -> "OuterStmt" | PIndexNotInt -> "IndexNotInt" | PBinOpNop -> "BinOpNop"
  | PIfNoBranch -> "IfNoBranch" | PVarIndex -> "VarIndex" | PTypeIndex -> "TypeIndex" | PFieldIndex -> "FieldIndex"

let err_str (e : err) =
  Printf.sprintf "Type:%s|%d|%d" (kind_name e.e_kind) (int_of_n e.e_span.sp_file) (int_of_n e.e_span.sp_line0)

let rotate k l =
  let n = List.length l in
  if n = 0 then l else
  let k = k mod n in
  let rec split i acc = function
    | x :: xs when i > 0 -> split (i - 1) (x :: acc) xs
    | rest -> (List.rev acc, rest) in
  let (a, b) = split k [] l in b @ a

let () =
  let fuel = nat_of_int 100000 in
  let mode = Sys.argv.(1) in
  let ic = open_in Sys.argv.(2) in
  (try
    while true do
      let line = input_line ic in
      (try
        let r = Rast_reader.read_resolved line in
        if mode = "id" then
          (match typecheck fuel id_orc r with
           | Ok _ -> print_endline "OK"
           | Err (e, more) -> print_endline ("ERR " ^ String.concat " " (List.map err_str (e :: more)))
           | Panic p -> print_endline ("PANIC " ^ site_name p)
           | OutOfFuel -> print_endline "FUEL")
        else begin
          let outs = ref [] in
          let add o = if not (List.mem o !outs) then outs := o :: !outs in
          let run orc =
            add (match typecheck fuel orc r with
                 | Ok _ -> "OK"
                 | Err (e, _) -> err_str e
                 | Panic p -> "PANIC:" ^ site_name p
                 | OutOfFuel -> "FUEL") in
          run id_orc;
          run (fun _ l -> List.rev l);
          for k = 1 to 7 do run (fun _ l -> rotate k l) done;
          print_endline ("SET " ^ String.concat ";" (List.rev !outs))
        end
      with Failure m -> print_endline ("READFAIL " ^ m))
    done
  with End_of_file -> ());
  close_in ic
