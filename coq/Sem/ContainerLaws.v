(* C18: the list / dict / set / Maybe / math helpers of Sem/Runtime.v (the model of preamble.lua and of
   the std functions written in Sylt) REFINE the plain models of Sem/Containers.v: per operation, and
   for every sequence of operations (induction over the history).  Element and key types are abstract
   (any type A with an embedding into run-time values); the side conditions on the embedding are
   discharged for ints and strings, and refuted where they are false (tuples of strings, big ints).
   What is false of the faithful model is refuted with a witness (`..._refuted`). *)
From Coq Require Import String Ascii List NArith ZArith QArith Qround Qreduction Bool Lia Eqdep_dec.
From Sylt Require Import Lua.LuaNum Sem.Values Sem.Runtime Sem.Containers Sem.RuntimeLaws.
Import ListNotations.
Local Close Scope Q_scope.
Local Open Scope nat_scope.

(* how a plain `option` shows up as a library-made Maybe *)
Definition rep_maybe {A} (emb : A -> value) (o : option A) : value :=
  match o with Some a => mk_just (emb a) | None => lib_none end.

(* ------------------------------------------------------------------------------------------------ *)
(* lists                                                                                             *)

Section Lists.
  Variable A : Type.
  Variable emb : A -> value.

  Definition rep_list (l : list A) : value := VList (map emb l).

  Lemma list_push_refines : forall l x, rt_list_push (rep_list l) (emb x) = Ok (rep_list (l_push l x)).
  Proof. intros. unfold rep_list, l_push. simpl. rewrite map_app. reflexivity. Qed.

  Lemma list_prepend_refines : forall l x, rt_list_prepend (rep_list l) (emb x) = Ok (rep_list (l_prepend l x)).
  Proof. reflexivity. Qed.

  Lemma list_get_refines : forall l i, rt_list_get (rep_list l) i = Ok (rep_maybe emb (l_get l i)).
  Proof.
    intros l i. unfold rep_list, l_get, rt_list_get. destruct (0 <=? i)%Z; [|reflexivity].
    rewrite nth_error_map. destruct (nth_error l (Z.to_nat i)); reflexivity.
  Qed.

  Lemma replace_nth_map : forall n x l, replace_nth n (emb x) (map emb l) = map emb (l_set_nat l n x).
  Proof. induction n; intros x [|y l]; simpl; try reflexivity. rewrite IHn. reflexivity. Qed.

  Lemma l_set_nat_beyond : forall l n (x : A), length l <= n -> l_set_nat l n x = l.
  Proof. induction l; intros [|n] x H; simpl in *; try reflexivity; try lia. rewrite IHl; [reflexivity | lia]. Qed.

  (* in range: replaced; out of range (beyond the end, or negative): ignored *)
  Lemma list_set_refines : forall l i x,
    rt_list_set (rep_list l) i (emb x) = Ok (rep_list (l_set l i x)).
  Proof.
    intros l i x. unfold rep_list, rt_list_set, l_set. rewrite map_length.
    destruct (Z.ltb_spec i 0); destruct (Z.leb_spec 0 i); try lia; [reflexivity|].
    destruct (Z.ltb_spec i (Z.of_nat (length l))).
    - rewrite replace_nth_map. reflexivity.
    - rewrite l_set_nat_beyond; [reflexivity | lia].
  Qed.

  Lemma removelast_map : forall l : list A, removelast (map emb l) = map emb (removelast l).
  Proof. induction l as [|x [|y l] IH]; simpl in *; try reflexivity. rewrite IH. reflexivity. Qed.

  Lemma last_map : forall (l : list A) d x, last (map emb (l ++ [x])) d = emb x.
  Proof. induction l as [|y l IH]; intros; simpl; [reflexivity|]. rewrite IH. destruct l; reflexivity. Qed.

  Lemma list_pop_refines : forall l,
    rt_list_pop (rep_list l) = Ok (rep_list (fst (l_pop l)), rep_maybe emb (snd (l_pop l))).
  Proof.
    intros l. unfold l_pop. destruct (rev l) as [|x r] eqn:E.
    - assert (l = []) by (rewrite <- (rev_involutive l), E; reflexivity). subst. reflexivity.
    - assert (L : l = rev r ++ [x]) by (rewrite <- (rev_involutive l), E; reflexivity).
      rewrite L. unfold rep_list, rt_list_pop. simpl fst. simpl snd.
      destruct (map emb (rev r ++ [x])) eqn:M.
      + destruct (rev r); discriminate.
      + rewrite <- M. rewrite removelast_map, removelast_last, last_map. reflexivity.
  Qed.

  Lemma list_len_refines : forall l, rt_len (rep_list l) = Ok (vlen (length l)).
  Proof. intros. unfold rep_list. simpl. rewrite map_length. reflexivity. Qed.

  Lemma list_last_refines : forall l, rt_list_last (rep_list l) = Ok (rep_maybe emb (l_last l)).
  Proof.
    intros l. unfold rt_list_last, rep_list at 1. rewrite map_length.
    change (VList (map emb l)) with (rep_list l). rewrite list_get_refines. f_equal. f_equal.
    unfold l_get, l_last. destruct (rev l) as [|x r] eqn:E.
    - assert (l = []) by (rewrite <- (rev_involutive l), E; reflexivity). subst. reflexivity.
    - assert (L : l = rev r ++ [x]) by (rewrite <- (rev_involutive l), E; reflexivity).
      rewrite L, app_length. simpl. destruct (Z.leb_spec 0 (Z.of_nat (length (rev r) + 1) - 1)); [|lia].
      replace (Z.to_nat (Z.of_nat (length (rev r) + 1) - 1)) with (length (rev r)) by lia.
      rewrite nth_error_app2, Nat.sub_diag; [reflexivity | lia].
  Qed.

  (* map / filter / fold / find take Sylt functions: any value-level function that agrees with the
     plain function on embedded elements *)
  Section WithFunctions.
    Variable B : Type.
    Variable embB : B -> value.
    Variables (pv : value -> bool) (p : A -> bool).
    Hypothesis pv_p : forall a, pv (emb a) = p a.
    Variables (fv : value -> value) (f : A -> B).
    Hypothesis fv_f : forall a, fv (emb a) = embB (f a).
    Variables (gv : value -> value -> value) (g : A -> B -> B).
    Hypothesis gv_g : forall a b, gv (emb a) (embB b) = embB (g a b).

    Lemma list_map_refines : forall l, rt_list_map fv (rep_list l) = Ok (VList (map embB (map f l))).
    Proof.
      intros l. unfold rep_list. simpl. rewrite !map_map. f_equal. f_equal. apply map_ext. exact fv_f.
    Qed.

    Lemma filter_map_emb : forall l, filter pv (map emb l) = map emb (filter p l).
    Proof. induction l; simpl; [reflexivity|]. rewrite pv_p. destruct (p a); simpl; rewrite IHl; reflexivity. Qed.

    Lemma list_filter_refines : forall l, rt_list_filter pv (rep_list l) = Ok (rep_list (filter p l)).
    Proof. intros l. unfold rep_list. simpl. rewrite filter_map_emb. reflexivity. Qed.

    Lemma list_fold_refines : forall l b, rt_list_fold gv (embB b) (rep_list l) = Ok (embB (l_fold g b l)).
    Proof.
      intros l b. unfold rep_list, l_fold. simpl. f_equal. revert b.
      induction l; intros b; simpl; [reflexivity|]. rewrite gv_g. apply IHl.
    Qed.

    Lemma find_map_emb : forall l, find pv (map emb l) = option_map emb (find p l).
    Proof. induction l; simpl; [reflexivity|]. rewrite pv_p. destruct (p a); [reflexivity | exact IHl]. Qed.

    Lemma list_find_refines : forall l, rt_list_find pv (rep_list l) = Ok (rep_maybe emb (find p l)).
    Proof. intros l. unfold rep_list. simpl. rewrite find_map_emb. destruct (find p l); reflexivity. Qed.
  End WithFunctions.

  (* contains compares with ==: the embedding must turn == into the plain equality test *)
  Variable aeqb : A -> A -> bool.
  Hypothesis emb_eq : forall a b, rt_eq (emb a) (emb b) = aeqb a b.

  Lemma list_contains_refines : forall l x, rt_list_contains (rep_list l) (emb x) = Ok (l_contains aeqb l x).
  Proof.
    intros l x. unfold rt_list_contains.
    rewrite (list_find_refines (fun y => rt_eq y (emb x)) (fun y => aeqb y x)) by (intros; apply emb_eq).
    unfold l_contains. simpl. induction l as [|y l IH]; simpl; [reflexivity|].
    destruct (aeqb y x); [reflexivity | exact IH].
  Qed.
End Lists.

(* ---- every sequence of list operations ---- *)

Section ListHistory.
  Variable A : Type.
  Variable emb : A -> value.
  Variable aeqb : A -> A -> bool.
  Hypothesis emb_eq : forall a b, rt_eq (emb a) (emb b) = aeqb a b.

  (* operations of the plain model *)
  Inductive lop :=
  | LPush (x : A) | LPrepend (x : A) | LPop | LGet (i : Z) | LSet (i : Z) (x : A) | LLen
  | LMap (f : A -> A) | LFilter (p : A -> bool) | LFold (g : A -> A -> A) (a0 : A) | LFind (p : A -> bool)
  | LContains (x : A) | LLast.

  (* what an operation lets the program observe *)
  Inductive obs := ONone | OMaybe (o : option A) | OInt (z : Z) | OBool (b : bool) | OVal (a : A).

  Definition l_step (op : lop) (l : list A) : list A * obs :=
    match op with
    | LPush x => (l_push l x, ONone)
    | LPrepend x => (l_prepend l x, ONone)
    | LPop => (fst (l_pop l), OMaybe (snd (l_pop l)))
    | LGet i => (l, OMaybe (l_get l i))
    | LSet i x => (l_set l i x, ONone)
    | LLen => (l, OInt (Z.of_nat (length l)))
    | LMap f => (map f l, ONone)
    | LFilter p => (filter p l, ONone)
    | LFold g a0 => (l, OVal (l_fold g a0 l))
    | LFind p => (l, OMaybe (find p l))
    | LContains x => (l, OBool (l_contains aeqb l x))
    | LLast => (l, OMaybe (l_last l))
    end.

  Fixpoint l_run (ops : list lop) (l : list A) : list A * list obs :=
    match ops with
    | [] => (l, [])
    | op :: ops' => let (l', o) := l_step op l in let (l'', os) := l_run ops' l' in (l'', o :: os)
    end.

  (* the same operations performed through the run-time library; functions are run-time functions *)
  Inductive rlop :=
  | RPush (x : value) | RPrepend (x : value) | RPop | RGet (i : Z) | RSet (i : Z) (x : value) | RLen
  | RMap (f : value -> value) | RFilter (p : value -> bool) | RFold (g : value -> value -> value) (a0 : value)
  | RFind (p : value -> bool) | RContains (x : value) | RLast.

  Definition rt_lstep (op : rlop) (l : value) : res (value * value) :=
    match op with
    | RPush x => rmap (fun l' => (l', VLuaNil)) (rt_list_push l x)
    | RPrepend x => rmap (fun l' => (l', VLuaNil)) (rt_list_prepend l x)
    | RPop => rt_list_pop l
    | RGet i => rmap (fun o => (l, o)) (rt_list_get l i)
    | RSet i x => rmap (fun l' => (l', VLuaNil)) (rt_list_set l i x)
    | RLen => rmap (fun o => (l, o)) (rt_len l)
    | RMap f => rmap (fun l' => (l', VLuaNil)) (rt_list_map f l)
    | RFilter p => rmap (fun l' => (l', VLuaNil)) (rt_list_filter p l)
    | RFold g a0 => rmap (fun o => (l, o)) (rt_list_fold g a0 l)
    | RFind p => rmap (fun o => (l, o)) (rt_list_find p l)
    | RContains x => rmap (fun b => (l, VBool b)) (rt_list_contains l x)
    | RLast => rmap (fun o => (l, o)) (rt_list_last l)
    end.

  Fixpoint rt_lrun (ops : list rlop) (l : value) : res (value * list value) :=
    match ops with
    | [] => Ok (l, [])
    | op :: ops' =>
        rbind (rt_lstep op l) (fun lo => rbind (rt_lrun ops' (fst lo)) (fun r => Ok (fst r, snd lo :: snd r)))
    end.

  (* the run-time operation is the plain one on embedded arguments; Sylt functions agree on embedded elements *)
  Inductive op_rel : lop -> rlop -> Prop :=
  | rel_push : forall x, op_rel (LPush x) (RPush (emb x))
  | rel_prepend : forall x, op_rel (LPrepend x) (RPrepend (emb x))
  | rel_pop : op_rel LPop RPop
  | rel_get : forall i, op_rel (LGet i) (RGet i)
  | rel_set : forall i x, op_rel (LSet i x) (RSet i (emb x))
  | rel_len : op_rel LLen RLen
  | rel_map : forall f fv, (forall a, fv (emb a) = emb (f a)) -> op_rel (LMap f) (RMap fv)
  | rel_filter : forall p pv, (forall a, pv (emb a) = p a) -> op_rel (LFilter p) (RFilter pv)
  | rel_fold : forall g gv a0, (forall a b, gv (emb a) (emb b) = emb (g a b)) -> op_rel (LFold g a0) (RFold gv (emb a0))
  | rel_find : forall p pv, (forall a, pv (emb a) = p a) -> op_rel (LFind p) (RFind pv)
  | rel_contains : forall x, op_rel (LContains x) (RContains (emb x))
  | rel_last : op_rel LLast RLast.

  Definition emb_obs (o : obs) : value :=
    match o with
    | ONone => VLuaNil
    | OMaybe m => rep_maybe emb m
    | OInt z => vint z
    | OBool b => VBool b
    | OVal a => emb a
    end.

  Lemma list_step_refines : forall op rop l, op_rel op rop ->
    rt_lstep rop (rep_list A emb l) = Ok (rep_list A emb (fst (l_step op l)), emb_obs (snd (l_step op l))).
  Proof.
    intros op rop l H. destruct H; cbn [rt_lstep l_step fst snd emb_obs].
    - rewrite list_push_refines. reflexivity.
    - rewrite list_prepend_refines. reflexivity.
    - rewrite list_pop_refines. reflexivity.
    - rewrite list_get_refines. reflexivity.
    - rewrite list_set_refines. reflexivity.
    - rewrite list_len_refines. reflexivity.
    - rewrite (list_map_refines A emb A emb fv f) by assumption. reflexivity.
    - rewrite (list_filter_refines A emb pv p) by assumption. reflexivity.
    - rewrite (list_fold_refines A emb A emb gv g) by assumption. reflexivity.
    - rewrite (list_find_refines A emb pv p) by assumption. reflexivity.
    - rewrite (list_contains_refines A emb aeqb emb_eq). reflexivity.
    - rewrite list_last_refines. reflexivity.
  Qed.

  (* HISTORY FORM: every sequence of operations, by induction over the history *)
  Theorem list_history_refines : forall ops rops l, Forall2 op_rel ops rops ->
    rt_lrun rops (rep_list A emb l) =
    Ok (rep_list A emb (fst (l_run ops l)), map emb_obs (snd (l_run ops l))).
  Proof.
    intros ops rops l H. revert l. induction H as [|op rop ops rops Hop _ IH]; intros l; simpl; [reflexivity|].
    rewrite (list_step_refines op rop l Hop). simpl.
    destruct (l_step op l) as [l' o]. simpl. rewrite IH.
    destruct (l_run ops l') as [l'' os]. reflexivity.
  Qed.
End ListHistory.

(* ---- several live lists: a list made by filter / map from another one shares no state with it ---- *)

Section MultiList.
  Variable A : Type.
  Variable emb : A -> value.
  Variable aeqb : A -> A -> bool.
  Hypothesis emb_eq : forall a b, rt_eq (emb a) (emb b) = aeqb a b.

  (* a register file of lists; register r out of range reads as the empty list and ignores writes *)
  Inductive mop :=
  | MOn (r : nat) (op : lop A)                          (* an operation of the single-list history on register r *)
  | MFilter (dst src : nat) (p : A -> bool)             (* dst = filter(src, p) *)
  | MMap (dst src : nat) (f : A -> A).                  (* dst = map(src, f) *)

  Definition m_step (op : mop) (regs : list (list A)) : list (list A) * obs A :=
    match op with
    | MOn r o => let lo := l_step A aeqb o (nth r regs []) in (l_set_nat regs r (fst lo), snd lo)
    | MFilter dst src p => (l_set_nat regs dst (filter p (nth src regs [])), ONone A)
    | MMap dst src f => (l_set_nat regs dst (map f (nth src regs [])), ONone A)
    end.

  Fixpoint m_run (ops : list mop) (regs : list (list A)) : list (list A) * list (obs A) :=
    match ops with
    | [] => (regs, [])
    | op :: ops' => let (regs', o) := m_step op regs in let (regs'', os) := m_run ops' regs' in (regs'', o :: os)
    end.

  Inductive rmop :=
  | MROn (r : nat) (op : rlop)
  | MRFilter (dst src : nat) (p : value -> bool)
  | MRMap (dst src : nat) (f : value -> value).

  Definition rt_mstep (op : rmop) (regs : list value) : res (list value * value) :=
    match op with
    | MROn r o => rbind (rt_lstep o (nth r regs (VList []))) (fun lo => Ok (replace_nth r (fst lo) regs, snd lo))
    | MRFilter dst src p => rbind (rt_list_filter p (nth src regs (VList []))) (fun l' => Ok (replace_nth dst l' regs, VLuaNil))
    | MRMap dst src f => rbind (rt_list_map f (nth src regs (VList []))) (fun l' => Ok (replace_nth dst l' regs, VLuaNil))
    end.

  Fixpoint rt_mrun (ops : list rmop) (regs : list value) : res (list value * list value) :=
    match ops with
    | [] => Ok (regs, [])
    | op :: ops' =>
        rbind (rt_mstep op regs) (fun ro => rbind (rt_mrun ops' (fst ro)) (fun r => Ok (fst r, snd ro :: snd r)))
    end.

  Inductive mop_rel : mop -> rmop -> Prop :=
  | mrel_on : forall r o ro, op_rel A emb o ro -> mop_rel (MOn r o) (MROn r ro)
  | mrel_filter : forall dst src p pv, (forall a, pv (emb a) = p a) -> mop_rel (MFilter dst src p) (MRFilter dst src pv)
  | mrel_map : forall dst src f fv, (forall a, fv (emb a) = emb (f a)) -> mop_rel (MMap dst src f) (MRMap dst src fv).

  Definition rep_regs (regs : list (list A)) : list value := map (rep_list A emb) regs.

  Lemma nth_rep_regs : forall r regs, nth r (rep_regs regs) (VList []) = rep_list A emb (nth r regs []).
  Proof. intros. unfold rep_regs. change (VList []) with (rep_list A emb []). apply map_nth. Qed.

  Lemma replace_rep_regs : forall r l regs,
    replace_nth r (rep_list A emb l) (rep_regs regs) = rep_regs (l_set_nat regs r l).
  Proof. intros. unfold rep_regs. apply (replace_nth_map (list A) (rep_list A emb)). Qed.

  Lemma multi_step_refines : forall op rop regs, mop_rel op rop ->
    rt_mstep rop (rep_regs regs) = Ok (rep_regs (fst (m_step op regs)), emb_obs A emb (snd (m_step op regs))).
  Proof.
    intros op rop regs H. destruct H; cbn [rt_mstep m_step fst snd]; rewrite nth_rep_regs.
    - rewrite (list_step_refines A emb aeqb emb_eq o ro _ H). cbn [rbind fst snd].
      rewrite replace_rep_regs. reflexivity.
    - rewrite (list_filter_refines A emb pv p) by assumption. cbn [rbind]. rewrite replace_rep_regs. reflexivity.
    - rewrite (list_map_refines A emb A emb fv f) by assumption. cbn [rbind].
      change (VList (map emb (map f (nth src regs [])))) with (rep_list A emb (map f (nth src regs []))).
      rewrite replace_rep_regs. reflexivity.
  Qed.

  (* every history over several live lists *)
  Theorem multi_history_refines : forall ops rops regs, Forall2 mop_rel ops rops ->
    rt_mrun rops (rep_regs regs) =
    Ok (rep_regs (fst (m_run ops regs)), map (emb_obs A emb) (snd (m_run ops regs))).
  Proof.
    intros ops rops regs H. revert regs. induction H as [|op rop ops rops Hop _ IH]; intros regs; [reflexivity|].
    cbn [rt_mrun m_run]. rewrite (multi_step_refines op rop regs Hop). cbn [rbind fst snd].
    destruct (m_step op regs) as [regs' o]. cbn [fst snd]. rewrite IH.
    destruct (m_run ops regs') as [regs'' os]. reflexivity.
  Qed.

  Lemma nth_l_set_nat_other : forall (X : Type) (l : list X) r r' x d, r' <> r -> nth r' (l_set_nat l r x) d = nth r' l d.
  Proof.
    induction l as [|y l IH]; intros [|r] [|r'] x d H; simpl; try reflexivity; try congruence.
    apply IH. congruence.
  Qed.

  (* INDEPENDENCE (frame property of the plain model, hence -- by the refinement above -- of the run-time
     library): an operation on register r, and building register dst by filter / map from src, leave every
     other register as it was.  In particular the result of filter / map is a NEW list: later mutations of
     the source do not show through it and vice versa. *)
  Theorem multi_step_frame : forall op regs r',
    (match op with MOn r _ => r' <> r | MFilter dst _ _ | MMap dst _ _ => r' <> dst end) ->
    nth r' (fst (m_step op regs)) [] = nth r' regs [].
  Proof.
    intros [r o|dst src p|dst src f] regs r' H; cbn [m_step fst]; apply nth_l_set_nat_other; exact H.
  Qed.
End MultiList.

(* ------------------------------------------------------------------------------------------------ *)
(* dicts and sets: Lua tables keyed by __KEY(key)                                                 *)

Section Keyed.
  Variables K V X : Type.
  Variable embK : K -> value.
  Variable keqb : K -> K -> bool.
  Hypothesis keqb_eq : forall k k', keqb k k' = true <-> k = k'.
  (* KEY INJECTIVITY: different keys have different __KEY texts *)
  Hypothesis key_inj : forall k k', rt_key (embK k) = rt_key (embK k') -> k = k'.
  Variable h : K * V -> X.                       (* what is stored under tostring(k) *)

  Definition ts (k : K) : string := rt_key (embK k).
  Definition entry (kv : K * V) : string * X := (ts (fst kv), h kv).

  Lemma ts_eqb : forall k k', String.eqb (ts k) (ts k') = keqb k k'.
  Proof.
    intros k k'. apply bool_eq_iff. rewrite String.eqb_eq, keqb_eq.
    split; [apply key_inj | intros ->; reflexivity].
  Qed.

  Lemma tbl_set_keyed : forall k v m, tbl_set (ts k) (h (k, v)) (map entry m) = map entry (m_insert keqb k v m).
  Proof.
    intros k v. induction m as [|[k' v'] m IH]; simpl; [reflexivity|].
    rewrite ts_eqb. destruct (keqb k k'); simpl; [reflexivity | rewrite IH; reflexivity].
  Qed.

  Lemma tbl_get_keyed : forall k m,
    tbl_get (ts k) (map entry m) = option_map (fun v => h (k, v)) (m_lookup keqb k m).
  Proof.
    intros k. induction m as [|[k' v'] m IH]; simpl; [reflexivity|].
    rewrite ts_eqb. destruct (keqb k k') eqn:E; [|exact IH].
    apply keqb_eq in E. subst. reflexivity.
  Qed.

  Lemma tbl_del_keyed : forall k m, tbl_del (ts k) (map entry m) = map entry (m_remove keqb k m).
  Proof.
    intros k. induction m as [|[k' v'] m IH]; simpl; [reflexivity|].
    rewrite ts_eqb. destruct (keqb k k'); simpl; [exact IH | rewrite IH; reflexivity].
  Qed.

  Lemma tbl_mem_keyed : forall k m, tbl_mem (ts k) (map entry m) = m_mem keqb k m.
  Proof. intros. unfold tbl_mem, m_mem. rewrite tbl_get_keyed. destruct (m_lookup keqb k m); reflexivity. Qed.
End Keyed.

Section Dicts.
  Variables K V : Type.
  Variable embK : K -> value.
  Variable embV : V -> value.
  Variable keqb : K -> K -> bool.
  Hypothesis keqb_eq : forall k k', keqb k k' = true <-> k = k'.
  Hypothesis key_inj : forall k k', rt_key (embK k) = rt_key (embK k') -> k = k'.

  Definition dict_h (kv : K * V) : value * value := (embK (fst kv), embV (snd kv)).
  Definition rep_dict (m : pmap K V) : value := VDict (map (entry K V _ embK dict_h) m).

  Lemma dict_new_refines : rt_dict_new = rep_dict [].
  Proof. reflexivity. Qed.

  Lemma dict_update_refines : forall m k v,
    rt_dict_update (rep_dict m) (embK k) (embV v) = Ok (rep_dict (m_insert keqb k v m)).
  Proof.
    intros. unfold rep_dict, rt_dict_update.
    rewrite <- (tbl_set_keyed K V _ embK keqb keqb_eq key_inj dict_h). reflexivity.
  Qed.

  Lemma dict_get_refines : forall m k,
    rt_dict_get (rep_dict m) (embK k) = Ok (rep_maybe embV (m_lookup keqb k m)).
  Proof.
    intros. unfold rep_dict, rt_dict_get.
    change (rt_key (embK k)) with (ts K embK k).
    rewrite (tbl_get_keyed K V _ embK keqb keqb_eq key_inj dict_h).
    destruct (m_lookup keqb k m); reflexivity.
  Qed.

  Lemma dict_len_refines : forall m, rt_len (rep_dict m) = Ok (vlen (m_size m)).
  Proof. intros. unfold rep_dict, m_size. simpl. rewrite map_length. reflexivity. Qed.

  Lemma dict_contains_key_refines : forall m k,
    rt_dict_contains_key (rep_dict m) (embK k) = Ok (m_mem keqb k m).
  Proof.
    intros. unfold rt_dict_contains_key. rewrite dict_get_refines. unfold m_mem.
    destruct (m_lookup keqb k m); reflexivity.
  Qed.

  Lemma dict_remove_refines : forall m k,
    rt_dict_remove (rep_dict m) (embK k) = Ok (rep_dict (m_remove keqb k m)).
  Proof.
    intros m k. unfold rep_dict, rt_dict_remove. change (rt_key (embK k)) with (ts K embK k).
    rewrite (tbl_del_keyed K V _ embK keqb keqb_eq key_inj dict_h). reflexivity.
  Qed.

  Lemma dict_from_list_refines : forall l,
    rt_dict_from_list (VList (map (fun kv => VTuple [embK (fst kv); embV (snd kv)]) l))
    = Ok (rep_dict (m_from_list keqb l)).
  Proof.
    intros l. unfold rt_dict_from_list, m_from_list. rewrite dict_new_refines. generalize (@nil (K * V)).
    induction l as [|[k v] l IH]; intros m; [reflexivity|].
    cbn [map fold_left fst snd rbind]. rewrite dict_update_refines. apply IH.
  Qed.

  (* ---- every sequence of dict operations ---- *)
  Inductive dop := DUpdate (k : K) (v : V) | DRemove (k : K) | DGet (k : K) | DLen | DContains (k : K).
  Inductive dobs := DONone | DOMaybe (o : option V) | DOInt (z : Z) | DOBool (b : bool).

  Definition d_step (op : dop) (m : pmap K V) : pmap K V * dobs :=
    match op with
    | DUpdate k v => (m_insert keqb k v m, DONone)
    | DRemove k => (m_remove keqb k m, DONone)
    | DGet k => (m, DOMaybe (m_lookup keqb k m))
    | DLen => (m, DOInt (Z.of_nat (m_size m)))
    | DContains k => (m, DOBool (m_mem keqb k m))
    end.

  Fixpoint d_run (ops : list dop) (m : pmap K V) : pmap K V * list dobs :=
    match ops with
    | [] => (m, [])
    | op :: ops' => let (m', o) := d_step op m in let (m'', os) := d_run ops' m' in (m'', o :: os)
    end.

  Definition rt_dstep (op : dop) (d : value) : res (value * value) :=
    match op with
    | DUpdate k v => rmap (fun d' => (d', VLuaNil)) (rt_dict_update d (embK k) (embV v))
    | DRemove k => rmap (fun d' => (d', VLuaNil)) (rt_dict_remove d (embK k))
    | DGet k => rmap (fun o => (d, o)) (rt_dict_get d (embK k))
    | DLen => rmap (fun o => (d, o)) (rt_len d)
    | DContains k => rmap (fun b => (d, VBool b)) (rt_dict_contains_key d (embK k))
    end.

  Fixpoint rt_drun (ops : list dop) (d : value) : res (value * list value) :=
    match ops with
    | [] => Ok (d, [])
    | op :: ops' =>
        rbind (rt_dstep op d) (fun lo => rbind (rt_drun ops' (fst lo)) (fun r => Ok (fst r, snd lo :: snd r)))
    end.

  Definition emb_dobs (o : dobs) : value :=
    match o with
    | DONone => VLuaNil
    | DOMaybe m => rep_maybe embV m
    | DOInt z => vint z
    | DOBool b => VBool b
    end.

  Theorem dict_history_refines : forall ops m,
    rt_drun ops (rep_dict m) = Ok (rep_dict (fst (d_run ops m)), map emb_dobs (snd (d_run ops m))).
  Proof.
    induction ops as [|op ops IH]; intros m; [reflexivity|].
    assert (S : rt_dstep op (rep_dict m) = Ok (rep_dict (fst (d_step op m)), emb_dobs (snd (d_step op m)))).
    { destruct op; cbn [rt_dstep d_step fst snd emb_dobs].
      - rewrite dict_update_refines. reflexivity.
      - rewrite dict_remove_refines. reflexivity.
      - rewrite dict_get_refines. reflexivity.
      - rewrite dict_len_refines. reflexivity.
      - rewrite dict_contains_key_refines. reflexivity. }
    cbn [rt_drun d_run]. rewrite S. cbn [rbind fst snd].
    destruct (d_step op m) as [m' o]. cbn [fst snd]. rewrite (IH m').
    destruct (d_run ops m') as [m'' os]. reflexivity.
  Qed.
End Dicts.

Section Sets.
  Variable K : Type.
  Variable embK : K -> value.
  Variable keqb : K -> K -> bool.
  Hypothesis keqb_eq : forall k k', keqb k k' = true <-> k = k'.
  Hypothesis key_inj : forall k k', rt_key (embK k) = rt_key (embK k') -> k = k'.

  Definition set_h (kv : K * unit) : value := embK (fst kv).
  Definition rep_set (s : pset K) : value := VSet (map (entry K unit _ embK set_h) s).

  Lemma set_new_refines : rt_set_new = rep_set [].
  Proof. reflexivity. Qed.

  Lemma set_add_refines : forall s k, rt_set_add (rep_set s) (embK k) = Ok (rep_set (s_add keqb k s)).
  Proof.
    intros. unfold rep_set, rt_set_add, s_add.
    rewrite <- (tbl_set_keyed K unit _ embK keqb keqb_eq key_inj set_h). reflexivity.
  Qed.

  Lemma set_remove_refines : forall s k, rt_set_remove (rep_set s) (embK k) = Ok (rep_set (s_remove keqb k s)).
  Proof.
    intros. unfold rep_set, rt_set_remove, s_remove. change (rt_key (embK k)) with (ts K embK k).
    rewrite (tbl_del_keyed K unit _ embK keqb keqb_eq key_inj set_h). reflexivity.
  Qed.

  Lemma set_contains_refines : forall s k, rt_set_contains (rep_set s) (embK k) = Ok (s_mem keqb k s).
  Proof.
    intros. unfold rep_set, rt_set_contains, s_mem. change (rt_key (embK k)) with (ts K embK k).
    rewrite (tbl_mem_keyed K unit _ embK keqb keqb_eq key_inj set_h). reflexivity.
  Qed.

  Lemma set_len_refines : forall s, rt_len (rep_set s) = Ok (vlen (s_size s)).
  Proof. intros. unfold rep_set, s_size. simpl. rewrite map_length. reflexivity. Qed.

  Lemma set_from_list_refines : forall l,
    rt_set_from_list (VList (map embK l)) = Ok (rep_set (s_from_list keqb l)).
  Proof.
    intros l. unfold rt_set_from_list, s_from_list. rewrite set_new_refines. generalize (@nil (K * unit)).
    induction l as [|k l IH]; intros s; [reflexivity|].
    cbn [map fold_left fst snd rbind]. rewrite set_add_refines. apply IH.
  Qed.

  Inductive sop := SAdd (k : K) | SRemove (k : K) | SContains (k : K) | SLen.
  Inductive sobs := SONone | SOInt (z : Z) | SOBool (b : bool).

  Definition s_step (op : sop) (s : pset K) : pset K * sobs :=
    match op with
    | SAdd k => (s_add keqb k s, SONone)
    | SRemove k => (s_remove keqb k s, SONone)
    | SContains k => (s, SOBool (s_mem keqb k s))
    | SLen => (s, SOInt (Z.of_nat (s_size s)))
    end.

  Fixpoint s_run (ops : list sop) (s : pset K) : pset K * list sobs :=
    match ops with
    | [] => (s, [])
    | op :: ops' => let (s', o) := s_step op s in let (s'', os) := s_run ops' s' in (s'', o :: os)
    end.

  Definition rt_sstep (op : sop) (s : value) : res (value * value) :=
    match op with
    | SAdd k => rmap (fun s' => (s', VLuaNil)) (rt_set_add s (embK k))
    | SRemove k => rmap (fun s' => (s', VLuaNil)) (rt_set_remove s (embK k))
    | SContains k => rmap (fun b => (s, VBool b)) (rt_set_contains s (embK k))
    | SLen => rmap (fun o => (s, o)) (rt_len s)
    end.

  Fixpoint rt_srun (ops : list sop) (s : value) : res (value * list value) :=
    match ops with
    | [] => Ok (s, [])
    | op :: ops' =>
        rbind (rt_sstep op s) (fun lo => rbind (rt_srun ops' (fst lo)) (fun r => Ok (fst r, snd lo :: snd r)))
    end.

  Definition emb_sobs (o : sobs) : value :=
    match o with SONone => VLuaNil | SOInt z => vint z | SOBool b => VBool b end.

  Theorem set_history_refines : forall ops s,
    rt_srun ops (rep_set s) = Ok (rep_set (fst (s_run ops s)), map emb_sobs (snd (s_run ops s))).
  Proof.
    induction ops as [|op ops IH]; intros s; [reflexivity|].
    assert (S : rt_sstep op (rep_set s) = Ok (rep_set (fst (s_step op s)), emb_sobs (snd (s_step op s)))).
    { destruct op; cbn [rt_sstep s_step fst snd emb_sobs].
      - rewrite set_add_refines. reflexivity.
      - rewrite set_remove_refines. reflexivity.
      - rewrite set_contains_refines. reflexivity.
      - rewrite set_len_refines. reflexivity. }
    cbn [rt_srun s_run]. rewrite S. cbn [rbind fst snd].
    destruct (s_step op s) as [s' o]. cbn [fst snd]. rewrite (IH s').
    destruct (s_run ops s') as [s'' os]. reflexivity.
  Qed.
End Sets.

(* ------------------------------------------------------------------------------------------------ *)
(* decimal numerals are uniquely readable (used for __KEY in Sem/KeyEncoding.v and for printed tuples)  *)

(* value of a decimal digit string, most significant digit first *)
Fixpoint dec_val (s : string) (acc : N) : N :=
  match s with
  | EmptyString => acc
  | String c s' => dec_val s' (10 * acc + (N_of_ascii c - 48))%N
  end.

Lemma dec_val_app : forall s1 s2 a, dec_val (s1 ++ s2) a = dec_val s2 (dec_val s1 a).
Proof. induction s1; intros; simpl; [reflexivity | apply IHs1]. Qed.

Lemma string_app_assoc : forall a b c : string, ((a ++ b) ++ c = a ++ (b ++ c))%string.
Proof. induction a; intros; simpl; [reflexivity | rewrite IHa; reflexivity]. Qed.

Lemma n_to_dec_go_spec : forall fuel n acc, (n < 2 ^ N.of_nat fuel)%N -> (0 < fuel)%nat ->
  exists c ds, n_to_dec_go fuel n acc = (String c ds ++ acc)%string /\ dec_val (String c ds) 0 = n /\
               (48 <= N_of_ascii c)%N.
Proof.
  induction fuel as [|f IH]; intros n acc Hn Hf; [lia|].
  cbn [n_to_dec_go]. pose proof (N.div_eucl_spec n 10) as E.
  assert (R : (snd (N.div_eucl n 10) < 10)%N).
  { change (snd (N.div_eucl n 10)) with (n mod 10)%N. apply N.mod_lt. discriminate. }
  destruct (N.div_eucl n 10) as [q r]. simpl in R.
  assert (D : N_of_ascii (ascii_of_N (48 + r)) = (48 + r)%N) by (apply N_ascii_embedding; lia).
  set (d := ascii_of_N (48 + r)) in *.
  destruct (N.eqb_spec q 0) as [Q|Q].
  - exists d, EmptyString. subst q. split; [reflexivity|]. split; [|rewrite D; lia].
    cbn [dec_val]. rewrite D. lia.
  - assert (Hq : (q < 2 ^ N.of_nat f)%N).
    { rewrite Nat2N.inj_succ, N.pow_succ_r' in Hn. lia. }
    assert (Hf' : (0 < f)%nat).
    { destruct f; [simpl in Hq; lia | lia]. }
    destruct (IH q (String d acc) Hq Hf') as [c [ds [G [Vl C]]]].
    exists c, (ds ++ String d EmptyString)%string. split; [|split; [|exact C]].
    + rewrite G. cbn [append]. f_equal. rewrite string_app_assoc. reflexivity.
    + change (String c (ds ++ String d EmptyString))
        with (String c ds ++ String d EmptyString)%string.
      rewrite dec_val_app, Vl. cbn [dec_val]. rewrite D. lia.
Qed.

Lemma n_to_dec_spec : forall n, exists c ds, n_to_dec n = String c ds /\ dec_val (String c ds) 0 = n /\
                                             (48 <= N_of_ascii c)%N.
Proof.
  intros n. unfold n_to_dec.
  destruct (n_to_dec_go_spec (S (N.to_nat (N.size n))) n EmptyString) as [c [ds [G H]]].
  - rewrite Nat2N.inj_succ, N2Nat.id, N.pow_succ_r'. pose proof (N.size_gt n). lia.
  - lia.
  - exists c, ds. split; [|exact H]. rewrite G. clear.
    change (String c ds ++ EmptyString)%string with (String c (ds ++ EmptyString)). f_equal.
    induction ds; simpl; [reflexivity | rewrite IHds; reflexivity].
Qed.

Lemma z_to_dec_inj : forall z z', z_to_dec z = z_to_dec z' -> z = z'.
Proof.
  intros z z' H.
  assert (P : forall p, exists c ds, n_to_dec (Npos p) = String c ds /\ dec_val (String c ds) 0 = Npos p /\
                                     (48 <= N_of_ascii c)%N) by (intros; apply n_to_dec_spec).
  destruct z as [|p|p], z' as [|p'|p']; simpl in H; try reflexivity.
  - destruct (P p') as [c [ds [E [Vl C]]]]. rewrite E in H. rewrite <- H in Vl. simpl in Vl. discriminate.
  - destruct (P p') as [c [ds [E [Vl C]]]]. rewrite E in H. simpl in H. inversion H.
  - destruct (P p) as [c [ds [E [Vl C]]]]. rewrite E in H. rewrite H in Vl. simpl in Vl. discriminate.
  - destruct (P p) as [c [ds [E [Vl C]]]]. destruct (P p') as [c' [ds' [E' [Vl' C']]]].
    rewrite H in E. rewrite E in E'. rewrite E' in Vl. rewrite Vl in Vl'. inversion Vl'. reflexivity.
  - destruct (P p) as [c [ds [E [Vl C]]]]. rewrite E in H. simpl in H. inversion H. subst c. simpl in C. lia.
  - destruct (P p) as [c [ds [E [Vl C]]]]. rewrite E in H. simpl in H. inversion H.
  - destruct (P p') as [c [ds [E [Vl C]]]]. rewrite E in H. simpl in H. inversion H. subst c. simpl in C. lia.
  - destruct (P p) as [c [ds [E [Vl C]]]]. destruct (P p') as [c' [ds' [E' [Vl' C']]]].
    simpl in H. inversion H as [H']. rewrite H' in E. rewrite E in E'. rewrite E' in Vl. rewrite Vl in Vl'.
    inversion Vl'. reflexivity.
Qed.

(* lists of arbitrary run-time values: contains is membership up to == (structural equality by eq_struct) *)
Theorem list_history_values : forall ops rops l, Forall2 (op_rel value (fun v => v)) ops rops ->
  rt_lrun rops (VList l) =
  Ok (VList (fst (l_run value rt_eq ops l)),
      map (emb_obs value (fun v => v)) (snd (l_run value rt_eq ops l))).
Proof.
  intros ops rops l H.
  pose proof (list_history_refines value (fun v => v) rt_eq (fun a b => eq_refl) ops rops l H) as R.
  unfold rep_list in R. rewrite !map_id in R. exact R.
Qed.

Lemma vint_eq : forall a b, rt_eq (vint a) (vint b) = Z.eqb a b.
Proof. reflexivity. Qed.

Theorem list_history_ints : forall ops rops l, Forall2 (op_rel Z vint) ops rops ->
  rt_lrun rops (rep_list Z vint l) =
  Ok (rep_list Z vint (fst (l_run Z Z.eqb ops l)), map (emb_obs Z vint) (snd (l_run Z Z.eqb ops l))).
Proof. intros. apply (list_history_refines Z vint Z.eqb vint_eq). assumption. Qed.

Theorem list_history_strs : forall ops rops l, Forall2 (op_rel string VStr) ops rops ->
  rt_lrun rops (rep_list string VStr l) =
  Ok (rep_list string VStr (fst (l_run string String.eqb ops l)),
      map (emb_obs string VStr) (snd (l_run string String.eqb ops l))).
Proof. intros. apply (list_history_refines string VStr String.eqb (fun a b => eq_refl)). assumption. Qed.

(* ---- tostring is injective on (nested) tuples of ints ----
   The printed form "(a, (b, c))" is uniquely readable: decimal numerals contain only the characters
   "-0123456789", and what follows a component (", " / "," / ")") starts with another character. *)

Definition dec_char (c : ascii) : bool :=
  let n := N_of_ascii c in (((48 <=? n)%N && (n <=? 57)%N) || (n =? 45)%N).

Lemma looks_like_int_cons : forall c s, looks_like_int (String c s) = dec_char c && looks_like_int s.
Proof. reflexivity. Qed.

(* what may follow a numeral: nothing, or a character that cannot be part of one *)
Definition ok_rest (r : string) : Prop :=
  match r with EmptyString => True | String c _ => dec_char c = false end.

Lemma dec_prefix_unique : forall a a' r r', looks_like_int a = true -> looks_like_int a' = true ->
  ok_rest r -> ok_rest r' -> (a ++ r = a' ++ r')%string -> a = a' /\ r = r'.
Proof.
  induction a as [|c a IH]; intros [|c' a'] r r' Ha Ha' Hr Hr' E; simpl in E.
  - auto.
  - subst r. simpl in Hr. rewrite looks_like_int_cons in Ha'. apply andb_true_iff in Ha'. destruct Ha'. congruence.
  - subst r'. simpl in Hr'. rewrite looks_like_int_cons in Ha. apply andb_true_iff in Ha. destruct Ha. congruence.
  - inversion E; subst c'. rewrite looks_like_int_cons in Ha, Ha'.
    apply andb_true_iff in Ha. apply andb_true_iff in Ha'.
    destruct (IH a' r r') as [-> ->]; tauto.
Qed.

Lemma n_to_dec_go_dec : forall fuel n acc, looks_like_int acc = true -> looks_like_int (n_to_dec_go fuel n acc) = true.
Proof.
  induction fuel as [|f IH]; intros n acc H; [exact H|]. cbn [n_to_dec_go].
  assert (R : (snd (N.div_eucl n 10) < 10)%N).
  { change (snd (N.div_eucl n 10)) with (n mod 10)%N. apply N.mod_lt. discriminate. }
  destruct (N.div_eucl n 10) as [q r]. simpl in R.
  assert (D : looks_like_int (String (ascii_of_N (48 + r)) acc) = true).
  { rewrite looks_like_int_cons, H, andb_true_r. unfold dec_char. rewrite N_ascii_embedding by lia.
    apply orb_true_iff. left. apply andb_true_iff. split; apply N.leb_le; lia. }
  destruct (q =? 0)%N; [exact D | apply IH; exact D].
Qed.

Lemma z_to_dec_dec : forall z, looks_like_int (z_to_dec z) = true.
Proof.
  intros [|p|p]; simpl.
  - reflexivity.
  - apply n_to_dec_go_dec. reflexivity.
  - apply n_to_dec_go_dec. reflexivity.
Qed.

Lemma string_app_nil_r : forall a : string, (a ++ "")%string = a.
Proof. induction a; simpl; [reflexivity | rewrite IHa; reflexivity]. Qed.

Lemma string_app_inv_head : forall a r r' : string, (a ++ r = a ++ r')%string -> r = r'.
Proof. induction a; simpl; intros r r' H; [exact H | inversion H; auto]. Qed.

Lemma tostring_tuple : forall vs,
  rt_tostring (VTuple vs)
  = ("(" ++ join ", " (map rt_tostring vs) ++ (match vs with [_] => "," | _ => "" end) ++ ")")%string.
Proof. reflexivity. Qed.

(* the types: int, and (nested) tuples of them *)
Fixpoint int_tuple_ty (t : ty) : bool :=
  match t with
  | TInt => true
  | TTuple ts => forallb int_tuple_ty ts
  | _ => false
  end.

(* the printed form of a value of type t, followed by anything that cannot continue a numeral, determines the value *)
Definition inj_at (t : ty) : Prop :=
  forall a b r r', vty t a -> vty t b -> ok_rest r -> ok_rest r' ->
  (rt_tostring a ++ r = rt_tostring b ++ r')%string -> a = b /\ r = r'.

Lemma join_inj : forall ts, Forall inj_at ts -> ts <> [] ->
  forall xs ys r r', all2 vty ts xs -> all2 vty ts ys -> ok_rest r -> ok_rest r' ->
  (join ", " (map rt_tostring xs) ++ r = join ", " (map rt_tostring ys) ++ r')%string -> xs = ys /\ r = r'.
Proof.
  induction 1 as [|t ts Ht Hts IH]; intros NE; [congruence|].
  intros [|x xs] [|y ys] r r'; simpl; try tauto.
  intros [Tx Txs] [Ty Tys] Hr Hr' E.
  destruct ts as [|t2 ts'].
  - destruct xs; [|contradiction]. destruct ys; [|contradiction]. simpl in E.
    destruct (Ht x y r r' Tx Ty Hr Hr' E) as [-> ->]. auto.
  - destruct xs as [|x2 xs]; [contradiction|]. destruct ys as [|y2 ys]; [contradiction|].
    cbn [map join] in E. rewrite !string_app_assoc in E. cbn [append] in E.
    match type of E with
    | (_ ++ String "," (String " " ?R1) = _ ++ String "," (String " " ?R2))%string =>
        destruct (Ht x y _ _ Tx Ty (eq_refl : ok_rest (String "," (String " " R1)))
                    (eq_refl : ok_rest (String "," (String " " R2))) E) as [-> E2]
    end.
    inversion E2 as [E3]. change (join ", " (rt_tostring x2 :: map rt_tostring xs))
      with (join ", " (map rt_tostring (x2 :: xs))) in E3.
    change (join ", " (rt_tostring y2 :: map rt_tostring ys)) with (join ", " (map rt_tostring (y2 :: ys))) in E3.
    destruct (IH ltac:(discriminate) (x2 :: xs) (y2 :: ys) r r' Txs Tys Hr Hr' E3) as [-> ->]. auto.
Qed.

Theorem tostring_inj_int_tuple_at : forall t, int_tuple_ty t = true -> inj_at t.
Proof.
  induction t using ty_ind'; simpl; try discriminate; intros Hi a b r r' Ha Hb Hr Hr' E.
  - destruct Ha as [x ->], Hb as [y ->]. cbn [rt_tostring] in E.
    destruct (dec_prefix_unique _ _ _ _ (z_to_dec_dec x) (z_to_dec_dec y) Hr Hr' E) as [E1 ->].
    apply z_to_dec_inj in E1. subst. auto.
  - match goal with H0 : Forall _ ?l |- _ => rename l into tys end.
    destruct a; try contradiction. destruct b; try contradiction. rename vs into xs, vs0 into ys.
    rewrite !tostring_tuple in E. cbn [append] in E. inversion E as [E1]. clear E.
    rewrite !string_app_assoc in E1.
    assert (HI : Forall inj_at tys).
    { rewrite forallb_forall in Hi. rewrite Forall_forall in *. auto. }
    destruct tys as [|t tys].
    + destruct xs; [|contradiction]. destruct ys; [|contradiction]. simpl in E1. inversion E1. auto.
    + assert (L : forall (zs : list value), all2 vty (t :: tys) zs -> forall q,
                 ok_rest ((match zs with [_] => "," | _ => "" end) ++ ")" ++ q)%string).
      { intros [|z [|z2 zs]] _ q; reflexivity. }
      destruct (join_inj (t :: tys) HI ltac:(discriminate) xs ys _ _ Ha Hb (L xs Ha r) (L ys Hb r') E1) as [-> E2].
      apply string_app_inv_head in E2. inversion E2. auto.
Qed.

Theorem tostring_inj_int_tuple : forall t a b, int_tuple_ty t = true -> vty t a -> vty t b ->
  rt_tostring a = rt_tostring b -> a = b.
Proof.
  intros t a b Hi Ha Hb E.
  destruct (tostring_inj_int_tuple_at t Hi a b EmptyString EmptyString Ha Hb I I) as [-> _]; [|reflexivity].
  rewrite !string_app_nil_r. exact E.
Qed.

(* flat tuples of ints of one length, as a statement about lists *)
Lemma map_vint_inj : forall zs zs', map vint zs = map vint zs' -> zs = zs'.
Proof.
  induction zs as [|z zs IH]; intros [|z' zs'] H; simpl in H; try discriminate; [reflexivity|].
  inversion H. f_equal. apply IH. assumption.
Qed.

Lemma vty_int_list : forall zs, all2 vty (repeat TInt (length zs)) (map vint zs).
Proof. induction zs; simpl; [exact I | split; [eexists; reflexivity | exact IHzs]]. Qed.

Lemma int_tuple_ty_repeat : forall n, forallb int_tuple_ty (repeat TInt n) = true.
Proof. induction n; simpl; auto. Qed.

Theorem key_inj_int_tuple : forall zs zs' : list Z, length zs = length zs' ->
  rt_tostring (VTuple (map vint zs)) = rt_tostring (VTuple (map vint zs')) -> zs = zs'.
Proof.
  intros zs zs' L E. apply map_vint_inj.
  assert (X : VTuple (map vint zs) = VTuple (map vint zs')).
  { apply (tostring_inj_int_tuple (TTuple (repeat TInt (length zs)))); try assumption.
    - apply int_tuple_ty_repeat.
    - apply vty_int_list.
    - rewrite L. apply vty_int_list. }
  inversion X. reflexivity.
Qed.

(* ------------------------------------------------------------------------------------------------ *)
(* values made by the library vs the same values written in source                                   *)

(* Since /repo c4844e5 the library builds the absent case as __VARIANT({"None", __NIL}), exactly what
   `Maybe.None` compiles to. *)
Theorem lib_none_is_src_none : lib_none = src_none.
Proof. reflexivity. Qed.

(* a Maybe made by the library has the Maybe type and is == to the same Maybe written in the program *)
Lemma rep_maybe_typed : forall t (o : option value), (forall x, o = Some x -> vty t x) ->
  vty (TMaybe t) (rep_maybe (fun v => v) o) /\
  rt_eq (rep_maybe (fun v => v) o) (match o with Some x => mk_just x | None => src_none end) = true.
Proof.
  intros t [x|] H; simpl.
  - split; [apply H; reflexivity|]. apply (eq_refl_rt t x). apply H. reflexivity.
  - split; reflexivity.
Qed.

Theorem lib_maybe_eq : forall t (l : list value) (i : Z) (r : value), Forall (vty t) l ->
  rt_list_get (VList l) i = Ok r ->
  vty (TMaybe t) r /\ rt_eq r (match l_get l i with Some x => mk_just x | None => src_none end) = true.
Proof.
  intros t l i r Hl Hg. pose proof (list_get_refines value (fun v => v) l i) as R.
  unfold rep_list in R. rewrite map_id in R. rewrite R in Hg. inversion Hg; subst r.
  apply rep_maybe_typed. intros x Hx. unfold l_get in Hx. destruct (0 <=? i)%Z; [|discriminate].
  apply nth_error_In in Hx. rewrite Forall_forall in Hl. auto.
Qed.

(* the same for dict_get, list_find, list_pop, list_last: they all answer with rep_maybe *)
Theorem lib_none_eq :
  rt_list_get (VList []) 0 = Ok lib_none /\ rt_list_pop (VList []) = Ok (VList [], lib_none) /\
  rt_list_find (fun _ => true) (VList []) = Ok lib_none /\ rt_dict_get rt_dict_new (vint 0) = Ok lib_none /\
  rt_eq lib_none src_none = true /\ rt_neq lib_none src_none = false /\ vty (TMaybe TInt) lib_none.
Proof. repeat split; reflexivity. Qed.

(* case analysis (isJust, isNone, orDefault, map go through __INDEX) and printing agree as well *)
Theorem lib_none_case_ok :
  rt_is_just lib_none = rt_is_just src_none /\ rt_is_none lib_none = rt_is_none src_none /\
  (forall d, rt_or_default lib_none d = rt_or_default src_none d) /\
  (forall f, rt_maybe_map f lib_none = rt_maybe_map f src_none) /\
  rt_tostring lib_none = rt_tostring src_none /\
  rt_index lib_none (vint 2) = rt_index src_none (vint 2).
Proof. repeat split. Qed.

(* Maybe helpers against `option` *)
Definition maybe_abs (m : value) : option (option value) :=
  match m with
  | VVariant tag p =>
      if String.eqb tag "Just" then Some (Some (match p with VLuaNil => VNil | _ => p end))
      else if String.eqb tag "None" then Some None else None
  | _ => None
  end.

Theorem maybe_helpers_refine : forall m o, maybe_abs m = Some o ->
  rt_is_just m = Ok (match o with Some _ => true | None => false end) /\
  rt_is_none m = Ok (match o with Some _ => false | None => true end) /\
  (forall d, rt_or_default m d = Ok (match o with Some x => x | None => d end)) /\
  (forall f, (forall x, f x <> VLuaNil) -> exists r, rt_maybe_map f m = Ok r /\ maybe_abs r = Some (option_map f o)).
Proof.
  intros m o H. destruct m; try discriminate. unfold maybe_abs in H.
  unfold rt_is_none, rt_is_just, rt_or_default, rt_maybe_map.
  destruct (String.eqb tag "Just").
  - inversion H; subst. repeat split. intros f Hf. eexists. split; [reflexivity|]. simpl.
    match goal with |- context [f ?a] => specialize (Hf a); destruct (f a) end; try reflexivity. congruence.
  - destruct (String.eqb tag "None"); [|discriminate]. inversion H; subst. repeat split.
    intros f _. eexists. split; reflexivity.
Qed.

(* ------------------------------------------------------------------------------------------------ *)
(* math helpers                                                                                      *)

Local Open Scope Z_scope.

Lemma vint_lt : forall a b, rt_lt (vint a) (vint b) = Ok (a <? b).
Proof. reflexivity. Qed.

Theorem min_int : forall a b, rt_min (vint a) (vint b) = Ok (vint (Z.min a b)).
Proof.
  intros. unfold rt_min. rewrite vint_lt. cbn [rbind]. destruct (Z.ltb_spec a b).
  - rewrite Z.min_l by lia. reflexivity.
  - rewrite Z.min_r by lia. reflexivity.
Qed.

Theorem max_int : forall a b, rt_max (vint a) (vint b) = Ok (vint (Z.max a b)).
Proof.
  intros. unfold rt_max, rt_gt. rewrite vint_lt. cbn [rbind]. destruct (Z.ltb_spec b a).
  - rewrite Z.max_l by lia. reflexivity.
  - rewrite Z.max_r by lia. reflexivity.
Qed.

Theorem abs_int : forall a, rt_abs (vint a) = Ok (vint (Z.abs a)).
Proof.
  intros. unfold rt_abs. change v_zero with (vint 0). rewrite vint_lt. cbn [rbind].
  destruct (Z.ltb_spec a 0).
  - rewrite Z.abs_neq by lia. reflexivity.
  - rewrite Z.abs_eq by lia. reflexivity.
Qed.

Theorem clamp_int : forall x lo hi, rt_clamp (vint x) (vint lo) (vint hi) = Ok (vint (Z.min hi (Z.max x lo))).
Proof. intros. unfold rt_clamp. rewrite max_int. cbn [rbind]. apply min_int. Qed.

(* for a proper interval this is the usual clamp *)
Theorem clamp_int_spec : forall x lo hi, lo <= hi ->
  rt_clamp (vint x) (vint lo) (vint hi) = Ok (vint (z_clamp x lo hi)).
Proof.
  intros. rewrite clamp_int. f_equal. f_equal. unfold z_clamp.
  destruct (Z.ltb_spec x lo); destruct (Z.ltb_spec hi x); lia.
Qed.

Theorem sign_int : forall a, rt_sign (vint a) = Ok (vint (Z.sgn a)).
Proof.
  intros. unfold rt_sign, rt_gt. change v_zero with (vint 0). rewrite !vint_lt. cbn [rbind].
  destruct (Z.ltb_spec 0 a).
  - rewrite Z.sgn_pos by lia. reflexivity.
  - cbn [rbind]. destruct (Z.ltb_spec a 0).
    + rewrite Z.sgn_neg by lia. reflexivity.
    + replace a with 0 by lia. reflexivity.
Qed.

Lemma q_floor_Qfloor : forall q, q_floor q = Qfloor q.
Proof. intros [n d]. reflexivity. Qed.

(* div: floor division, and 0 for a zero divisor -- Coq's Z.div *)
Theorem div_int : forall a b, rt_idiv (vint a) (vint b) = Ok (vint (z_div a b)).
Proof.
  intros a b. unfold rt_idiv, z_div. change v_zero with (vint 0). rewrite vint_eq.
  destruct (Z.eqb_spec b 0) as [->|N].
  - rewrite Zdiv_0_r. reflexivity.
  - unfold rt_div, vint. change (rt_arith OpDiv (VInt a) (VInt b)) with (int_op OpDiv a b).
    cbn [int_op]. destruct (Z.eqb_spec b 0); [contradiction|]. cbn [rbind rt_floor]. f_equal. f_equal.
    unfold q_div. rewrite q_floor_Qfloor, (Qfloor_comp _ _ (Qred_correct _)). symmetry. apply Zdiv_Qdiv.
Qed.

Theorem floor_num : forall q, rt_floor (VFloat q) = Ok (vint (Qfloor q)).
Proof. intros. cbn [rt_floor]. rewrite q_floor_Qfloor. reflexivity. Qed.

Theorem floor_int : forall a, rt_floor (vint a) = Ok (vint a).
Proof. reflexivity. Qed.

(* on rationals (Sylt float) *)
Local Open Scope Q_scope.

Theorem min_num : forall p q, rt_min (VFloat p) (VFloat q) = Ok (VFloat (q_min_spec p q)).
Proof.
  intros. unfold rt_min, q_min_spec. cbn [rt_lt rbind]. destruct (Qlt_le_dec p q) as [L|L].
  - apply q_ltb_Qlt in L. rewrite L. reflexivity.
  - destruct (q_ltb p q) eqn:E; [|reflexivity]. apply q_ltb_Qlt in E. exfalso. exact (Qlt_not_le _ _ E L).
Qed.

Theorem max_num : forall p q, rt_max (VFloat p) (VFloat q) = Ok (VFloat (q_max_spec p q)).
Proof.
  intros. unfold rt_max, rt_gt, q_max_spec. cbn [rt_lt rbind]. destruct (Qlt_le_dec q p) as [L|L].
  - apply q_ltb_Qlt in L. rewrite L. reflexivity.
  - destruct (q_ltb q p) eqn:E; [|reflexivity]. apply q_ltb_Qlt in E. exfalso. exact (Qlt_not_le _ _ E L).
Qed.

Theorem abs_num : forall p, rt_abs (VFloat p) = Ok (VFloat (q_abs_spec p)).
Proof.
  intros. unfold rt_abs, q_abs_spec, v_zero. cbn [rt_lt rbind].
  destruct (Qlt_le_dec p 0) as [L|L].
  - assert (L' : p < 0 # 1) by exact L. apply q_ltb_Qlt in L'. rewrite L'. reflexivity.
  - destruct (q_ltb p (0 # 1)) eqn:E; [|reflexivity]. apply q_ltb_Qlt in E. exfalso. exact (Qlt_not_le _ _ E L).
Qed.

Theorem sign_num : forall p, rt_sign (VFloat p) = Ok (vint (q_sign_spec p)).
Proof.
  intros [n d]. unfold rt_sign, rt_gt, q_sign_spec, v_zero. cbn [rt_lt rbind Qnum].
  assert (P : q_ltb (0 # 1) (n # d) = (0 <? n)%Z).
  { apply bool_eq_iff. rewrite q_ltb_Qlt, Z.ltb_lt. unfold Qlt. simpl. lia. }
  assert (N : q_ltb (n # d) (0 # 1) = (n <? 0)%Z).
  { apply bool_eq_iff. rewrite q_ltb_Qlt, Z.ltb_lt. unfold Qlt. simpl. lia. }
  rewrite P, N. destruct (Z.ltb_spec 0 n).
  - cbn [rbind]. rewrite Z.sgn_pos by lia. reflexivity.
  - cbn [rbind]. destruct (Z.ltb_spec n 0).
    + rewrite Z.sgn_neg by lia. reflexivity.
    + replace n with 0%Z by lia. reflexivity.
Qed.
