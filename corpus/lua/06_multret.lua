-- expect: 1	2	3
-- expect: 1	10
-- expect: 10	1	2	3
-- expect: 1
-- expect:
-- expect: nil	1
-- expect: nil
-- expect:
-- expect: 3
-- expect: 4
-- expect: 2
-- expect: 1
-- expect: 0	1	3	2
-- expect: b	c
-- expect: c
-- expect: 1	2	3
-- expect: 2	3
-- expect: 2	3
-- expect: nil	nil
-- expect: 1	2	3
-- expect: 1
-- expect: 1	1	2	3
-- expect: 1	1	2	3
-- expect: number
-- expect: 3
-- expect: 1	nil
-- expect: 1	2
-- expect: 1x
-- expect: 3	0	0
local unpack = unpack or table.unpack   -- global in Lua 5.1/LuaJIT, table.unpack in Lua 5.3
local function f() return 1, 2, 3 end
local function g() end
local function h() return end
print(f())
print(f(), 10)
print(10, f())
print((f()))
print(g())
print(g(), 1)
print((g()))
print(h())
local t = {f()}
print(#t)
local t2 = {f(), f()}
print(#t2)
local t3 = {f(), 10}
print(#t3)
local t4 = {(f())}
print(#t4)
print(select("#"), select("#", nil), select("#", f()), select("#", f(), nil))
print(select(2, "a", "b", "c"))
print(select(-1, "a", "b", "c"))
print(unpack({1, 2, 3}))
print(unpack({1, 2, 3}, 2))
print(unpack({1, 2, 3}, 2, 3))
print(unpack({}, 1, 2))
local function r1() return f() end
local function r2() return (f()) end
local function r3() return f(), f() end
print(r1())
print(r2())
print(r3())
local function count(a, b, c, d) return a, b, c, d end
print(count(f(), f()))
print(type(f()))
print(math.max(f()))
local function two(a, b) return a, b end
print(two(1))
print(two(1, 2, 3))
print(f() .. "x")
print(({f()})[3], #{g()}, #{g(), g()})
