-- expect-wf: bad no loop to break
while true do
  local function f() break end
  f()
end
