(* The emitted loop shape in LuaCore:   while true do ::L:: <body> end
   where <body> has no label at its top level; `goto L` from inside the body restarts it (continue),
   `break` leaves the loop.  Rules in the "for every sufficiently large fuel" form of Pres/LuaEv.v. *)
From Coq Require Import String Ascii List NArith ZArith QArith Bool Lia.
From Sylt Require Import Lua.LuaAst Lua.LuaMap Lua.LuaNum Lua.LuaCore Pres.LuaFuel Pres.LuaEv.
Import ListNotations.
Local Open Scope string_scope.

Lemma scan_label_seen_nolabel l e b seen : nolabel b -> scan_label l e b seen = None.
Proof.
  revert e seen. induction b as [|x b IH]; intros e seen Hb; [reflexivity|]. inversion Hb; subst.
  destruct x; try discriminate; cbn [scan_label]; auto.
Qed.

Section Loop.
Variable E : env.          (* the environment at the loop *)
Variable L : string.       (* its label *)
Variable BB : block.       (* the body after the label *)
Hypothesis HBB : nolabel BB.

Definition seenL : seen_labels := [(L, (E, BB))].

(* a statement sequence run inside the body: what the enclosing exec_block (with the label seen) does *)
Lemma exec_block_seen : forall E0 b st r,
  ExecS E0 b st r -> nolabel b ->
  match r with
  | ROk (E', SigGoto l) st' =>
      if String.eqb l L
      then forall r2, Ev (fun k => exec_block k E seenL BB st') r2 -> Ev (fun k => exec_block k E0 seenL b st) r2
      else Ev (fun k => exec_block k E0 seenL b st) r
  | _ => Ev (fun k => exec_block k E0 seenL b st) r
  end.
Proof.
  induction 1 as [E0 st | E0 s b st E' st' r' Hs Hb IH | E0 s b st r' Hs Hn]; intros Hl.
  - exists 1%nat. intros [|k] Hk; [lia|]. reflexivity.
  - inversion Hl; subst. specialize (IH H2).
    assert (Hstep : forall r2, Ev (fun k => exec_block k E' seenL b st') r2 -> Ev (fun k => exec_block k E0 seenL (s :: b) st) r2).
    { intros r2 H'. apply Ev_S. eapply Ev_ext; [intros k; apply exec_block_cons_unfold; assumption|].
      eapply (Ev_bind (fun k => exec k E0 s st)); [exact Hs|]. cbn [snd fst]. exact H'. }
    destruct r' as [[E2 sg] st2|v st2|st2|w st2]; try (apply Hstep; exact IH).
    destruct sg; try (apply Hstep; exact IH).
    destruct (String.eqb l L); [|apply Hstep; exact IH].
    intros r2 H2'. apply Hstep. apply IH. exact H2'.
  - inversion Hl; subst.
    destruct r' as [[E2 sg] st2|v st2|st2|w st2].
    + destruct sg.
      * exfalso. apply Hn. exact I.
      * apply Ev_S. eapply Ev_ext; [intros k; apply exec_block_cons_unfold; assumption|].
        eapply (Ev_bind (fun k => exec k E0 s st)); [exact Hs|]. cbn [snd fst]. apply Ev_const.
      * apply Ev_S. eapply Ev_ext; [intros k; apply exec_block_cons_unfold; assumption|].
        eapply (Ev_bind (fun k => exec k E0 s st)); [exact Hs|]. cbn [snd fst]. apply Ev_const.
      * destruct (String.eqb l L) eqn:Heq.
        -- intros r2 H2'. apply Ev_S. eapply Ev_ext; [intros k; apply exec_block_cons_unfold; assumption|].
           eapply (Ev_bind (fun k => exec k E0 s st)); [exact Hs|]. cbn [snd fst seenL seen_find]. rewrite Heq. exact H2'.
        -- apply Ev_S. eapply Ev_ext; [intros k; apply exec_block_cons_unfold; assumption|].
           eapply (Ev_bind (fun k => exec k E0 s st)); [exact Hs|]. cbn [snd fst seenL seen_find]. rewrite Heq.
           rewrite scan_label_seen_nolabel by assumption. apply Ev_const.
    + apply Ev_S. eapply Ev_ext; [intros k; apply exec_block_cons_unfold; assumption|].
      apply (Ev_bind_err (fun k => exec k E0 s st)). exact Hs.
    + destruct Hs as [m Hs]. exists (S m). intros [|k] Hk; [lia|]. rewrite exec_block_cons_unfold by assumption. rewrite Hs by lia. reflexivity.
    + destruct Hs as [m Hs]. exists (S m). intros [|k] Hk; [lia|]. rewrite exec_block_cons_unfold by assumption. rewrite Hs by lia. reflexivity.
Qed.


Definition WBody : block := SLabel L :: BB.
Definition Wh (st : state) (r : res signal) : Prop := Ev (fun k => exec_while k E ETrue WBody st) r.

(* what exec_while does with the result of the body *)
Definition Kont (k : nat) (rb : res (env * signal)) : res signal :=
  match rb with
  | ROk rr st2 =>
      match snd rr with
      | SigNormal => exec_while k E ETrue WBody st2
      | SigBreak => ROk SigNormal st2
      | sg => ROk sg st2
      end
  | RErr v s => RErr v s
  | RFuel s => RFuel s
  | RUnsup w s => RUnsup w s
  end.

Lemma exec_while_S n c b st :
  exec_while (S n) E c b st =
  bind (eval n E c st) (fun vc st1 =>
    if truthy vc then
      bind (exec_block n E [] b st1) (fun r st2 =>
        match snd r with
        | SigNormal => exec_while n E c b st2
        | SigBreak => ROk SigNormal st2
        | sg => ROk sg st2
        end)
    else ROk SigNormal st1).
Proof. reflexivity. Qed.

Lemma exec_while_unfold k st :
  exec_while (S (S k)) E ETrue WBody st = Kont (S k) (exec_block k E seenL BB st).
Proof.
  rewrite exec_while_S.
  change (eval (S k) E ETrue st) with (ROk (VBool true) st : res value).
  cbn [LuaCore.bind truthy].
  change (exec_block (S k) E [] WBody st) with (exec_block k E seenL BB st).
  destruct (exec_block k E seenL BB st) as [[E1 sg] st1| | |]; reflexivity.
Qed.

Definition BlockP (st : state) (r : res signal) : Prop :=
  exists rb, Ev (fun k => exec_block k E seenL BB st) rb /\ Ev (fun k => Kont (S k) rb) r.

Lemma Wh_of_BlockP st r : BlockP st r -> Wh st r.
Proof.
  intros (rb & [m1 H1] & [m2 H2]). exists (S (S (Nat.max m1 m2))). intros k Hk.
  destruct k as [|[|k]]; try lia. rewrite exec_while_unfold. rewrite H1 by lia. apply H2. lia.
Qed.

(* the runs of the loop: one pass of the body after the other *)
Inductive LoopR : state -> res signal -> Prop :=
| LR_normal st E' st' r : ExecS E BB st (ROk (E', SigNormal) st') -> LoopR st' r -> LoopR st r
| LR_continue st E' st' r : ExecS E BB st (ROk (E', SigGoto L) st') -> LoopR st' r -> LoopR st r
| LR_break st E' st' : ExecS E BB st (ROk (E', SigBreak) st') -> LoopR st (ROk SigNormal st')
| LR_return st E' vs st' : ExecS E BB st (ROk (E', SigReturn vs) st') -> LoopR st (ROk (SigReturn vs) st')
| LR_err st v st' : ExecS E BB st (RErr v st') -> LoopR st (RErr v st').

Lemma LoopR_BlockP st r : LoopR st r -> BlockP st r.
Proof.
  induction 1 as [st E' st' r Hx Hl IH | st E' st' r Hx Hl IH | st E' st' Hx | st E' vs st' Hx | st v st' Hx].
  - pose proof (exec_block_seen E BB st _ Hx HBB) as Hb. cbn beta iota in Hb.
    exists (ROk (E', SigNormal) st'). split; [exact Hb|].
    cbn [Kont snd]. destruct (Wh_of_BlockP _ _ IH) as [m Hm]. exists m. intros k Hk. apply Hm. lia.
  - pose proof (exec_block_seen E BB st _ Hx HBB) as Hb. cbn beta iota in Hb. rewrite String.eqb_refl in Hb.
    destruct IH as (rb & Hrb & Hk). exists rb. split; [apply Hb; exact Hrb | exact Hk].
  - pose proof (exec_block_seen E BB st _ Hx HBB) as Hb. cbn beta iota in Hb.
    exists (ROk (E', SigBreak) st'). split; [exact Hb | exists O; intros; reflexivity].
  - pose proof (exec_block_seen E BB st _ Hx HBB) as Hb. cbn beta iota in Hb.
    exists (ROk (E', SigReturn vs) st'). split; [exact Hb | exists O; intros; reflexivity].
  - pose proof (exec_block_seen E BB st _ Hx HBB) as Hb. cbn beta iota in Hb.
    exists (RErr v st'). split; [exact Hb | exists O; intros; reflexivity].
Qed.

Theorem LoopR_sound st r : LoopR st r -> Wh st r.
Proof. intros H. apply Wh_of_BlockP, LoopR_BlockP, H. Qed.

Lemma Exec_while_ok E0 st sg st' :
  E0 = E -> Wh st (ROk sg st') -> Exec E (SWhile ETrue WBody) st (ROk (E, sg) st').
Proof.
  intros _ H. apply Ev_S. cbn [exec].
  apply (Ev_bind (fun k => exec_while k E ETrue WBody st) (fun k sg st1 => ROk (E, sg) st1) sg st'); [exact H | apply Ev_const].
Qed.

Lemma Exec_while_err st v st' :
  Wh st (RErr v st') -> Exec E (SWhile ETrue WBody) st (RErr v st').
Proof. intros H. apply Ev_S. cbn [exec]. apply (Ev_bind_err (fun k => exec_while k E ETrue WBody st)). exact H. Qed.

End Loop.
