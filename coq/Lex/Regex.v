(* Regular expressions over code points with Brzozowski derivatives.  Definitions only. *)
From Coq Require Import List NArith Bool.
Import ListNotations.
Local Open Scope N_scope.

Definition cp := N.

Inductive re :=
| RNone
| REps
| RSet (neg : bool) (rs : list (N * N))
| RCat (a b : re)
| RAlt (a b : re)
| RStar (a : re).

Definition in_ranges (c : N) (rs : list (N * N)) : bool :=
  existsb (fun r => (fst r <=? c) && (c <=? snd r)) rs.

Definition set_mem (neg : bool) (rs : list (N * N)) (c : N) : bool :=
  xorb neg (in_ranges c rs).

Fixpoint nullable (r : re) : bool :=
  match r with
  | RNone => false
  | REps => true
  | RSet _ _ => false
  | RCat a b => nullable a && nullable b
  | RAlt a b => nullable a || nullable b
  | RStar _ => true
  end.

Definition is_none (r : re) : bool := match r with RNone => true | _ => false end.

(* smart constructors: keep RNone/REps normalised so that "dead" is syntactic *)
Definition cat (a b : re) : re :=
  match a, b with
  | RNone, _ => RNone
  | _, RNone => RNone
  | REps, _ => b
  | _, REps => a
  | _, _ => RCat a b
  end.

Definition alt (a b : re) : re :=
  match a, b with
  | RNone, _ => b
  | _, RNone => a
  | _, _ => RAlt a b
  end.

Fixpoint deriv (c : N) (r : re) : re :=
  match r with
  | RNone => RNone
  | REps => RNone
  | RSet neg rs => if set_mem neg rs c then REps else RNone
  | RCat a b =>
      if nullable a then alt (cat (deriv c a) b) (deriv c b) else cat (deriv c a) b
  | RAlt a b => alt (deriv c a) (deriv c b)
  | RStar a => cat (deriv c a) (RStar a)
  end.

Fixpoint derivs (s : list N) (r : re) : re :=
  match s with
  | [] => r
  | c :: s' => derivs s' (deriv c r)
  end.

Definition re_match (r : re) (s : list N) : bool := nullable (derivs s r).

(* Surface syntax, as written in #[token]/#[regex] attributes; carries what Logos needs to compute
   a default priority (logos-derive 0.12, mir.rs: Literal 2 per char, Class 1, Loop/Maybe 0,
   Concat sum, Alternation min). *)
Inductive rx :=
| XLit (s : list N)
| XSet (neg : bool) (rs : list (N * N))
| XCat (a b : rx)
| XAlt (a b : rx)
| XStar (a : rx)
| XPlus (a : rx)
| XOpt (a : rx).

Fixpoint lit_re (s : list N) : re :=
  match s with
  | [] => REps
  | c :: s' => cat (RSet false [(c, c)]) (lit_re s')
  end.

Fixpoint compile (x : rx) : re :=
  match x with
  | XLit s => lit_re s
  | XSet neg rs => RSet neg rs
  | XCat a b => cat (compile a) (compile b)
  | XAlt a b => alt (compile a) (compile b)
  | XStar a => RStar (compile a)
  | XPlus a => cat (compile a) (RStar (compile a))
  | XOpt a => alt REps (compile a)
  end.

Fixpoint rx_prio (x : rx) : N :=
  match x with
  | XLit s => 2 * N.of_nat (length s)
  | XSet _ _ => 1
  | XCat a b => rx_prio a + rx_prio b
  | XAlt a b => N.min (rx_prio a) (rx_prio b)
  | XStar _ => 0
  | XPlus a => rx_prio a
  | XOpt _ => 0
  end.
