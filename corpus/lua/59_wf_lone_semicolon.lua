-- expect-wf: bad unexpected symbol near ';'
local x = 1;
;
