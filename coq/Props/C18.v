(* C18 -- Standard-library containers and helpers meet their contracts.
   Only pinned statements, `exact`, vm_compute for table side conditions / examples / refutation
   witnesses, and Print Assumptions.

   Run-time side: Sem/Runtime.v (model of preamble.lua's list_* dict_* set_* and of the std functions
   written in Sylt; tied to the real text by tools/props/c18.py).  Plain models: Sem/Containers.v
   (`list A`, association-list maps and sets, `option`, Z/Q).  Mutable containers are values with the
   state threaded explicitly.  Element/key types are ANY type with an embedding into run-time values. *)
From Coq Require Import String List ZArith QArith Qround Bool.
From Sylt Require Import Lua.LuaNum Sem.Values Sem.Runtime Sem.Containers Sem.RuntimeLaws Sem.ContainerLaws Sem.KeyEncoding
                         Sem.DocRuntime Gen.GenPreamble.
Import ListNotations.
Local Open Scope string_scope.

(* ---- table tie ---- *)

(* every global of preamble.lua is the reviewed one (name, shape, digest of its text) *)
Theorem C18_preamble_doc : pdoc_eqb doc_preamble GenPreamble.preamble_defs = true.
Proof. vm_compute. reflexivity. Qed.

(* every top-level definition of std/*.sy is the reviewed one (file, name, external/sylt/alias, digest) *)
Theorem C18_std_doc : sdoc_eqb doc_std GenPreamble.std_defs = true.
Proof. vm_compute. reflexivity. Qed.

(* every std function documented as modelled is bound by preamble.lua to a modelled definition, or is
   written in Sylt (then its text is pinned by the digest) *)
Theorem C18_functions_covered : functions_covered = true.
Proof. vm_compute. reflexivity. Qed.

(* every operation the property names is documented as modelled *)
Theorem C18_names_modelled : c18_names_modelled = true.
Proof. vm_compute. reflexivity. Qed.

(* ---- lists: every history ---- *)

Theorem C18_list_history : forall (A : Type) (emb : A -> value) (aeqb : A -> A -> bool),
  (forall a b, rt_eq (emb a) (emb b) = aeqb a b) ->
  forall ops rops l, Forall2 (op_rel A emb) ops rops ->
  rt_lrun rops (rep_list A emb l) =
  Ok (rep_list A emb (fst (l_run A aeqb ops l)), map (emb_obs A emb) (snd (l_run A aeqb ops l))).
Proof. exact list_history_refines. Qed.

(* elements of any kind (all run-time values, `contains` up to ==), ints, strings *)
Theorem C18_list_history_values : forall ops rops l, Forall2 (op_rel value (fun v => v)) ops rops ->
  rt_lrun rops (VList l) =
  Ok (VList (fst (l_run value rt_eq ops l)), map (emb_obs value (fun v => v)) (snd (l_run value rt_eq ops l))).
Proof. exact list_history_values. Qed.

Theorem C18_list_history_ints : forall ops rops l, Forall2 (op_rel Z vint) ops rops ->
  rt_lrun rops (rep_list Z vint l) =
  Ok (rep_list Z vint (fst (l_run Z Z.eqb ops l)), map (emb_obs Z vint) (snd (l_run Z Z.eqb ops l))).
Proof. exact list_history_ints. Qed.

Theorem C18_list_history_strs : forall ops rops l, Forall2 (op_rel string VStr) ops rops ->
  rt_lrun rops (rep_list string VStr l) =
  Ok (rep_list string VStr (fst (l_run string String.eqb ops l)),
      map (emb_obs string VStr) (snd (l_run string String.eqb ops l))).
Proof. exact list_history_strs. Qed.

(* an out-of-range write, negative indices included, is ignored (the guard i >= 0 exists since /repo 7ba9047) *)
Theorem C18_list_set : forall (A : Type) (emb : A -> value) l i x,
  rt_list_set (rep_list A emb l) i (emb x) = Ok (rep_list A emb (l_set l i x)).
Proof. exact list_set_refines. Qed.

(* SEVERAL LIVE LISTS: every history over a register file of lists, where `filter` / `map` build one list from
   another, refines the plain model in which the result is an independent copy ... *)
Theorem C18_multi_history : forall (A : Type) (emb : A -> value) (aeqb : A -> A -> bool),
  (forall a b, rt_eq (emb a) (emb b) = aeqb a b) ->
  forall ops rops regs, Forall2 (mop_rel A emb) ops rops ->
  rt_mrun rops (rep_regs A emb regs) =
  Ok (rep_regs A emb (fst (m_run A aeqb ops regs)), map (emb_obs A emb) (snd (m_run A aeqb ops regs))).
Proof. exact multi_history_refines. Qed.

(* ... and in that model an operation touches only its own register: what filter / map return shares no state
   with the argument (the correspondence checks that the real preamble.lua behaves like this model on
   histories that keep two or three containers alive) *)
Theorem C18_multi_step_frame : forall (A : Type) (aeqb : A -> A -> bool) (op : mop A) regs r',
  (match op with MOn _ r _ => r' <> r | MFilter _ dst _ _ | MMap _ dst _ _ => r' <> dst end) ->
  nth r' (fst (m_step A aeqb op regs)) [] = nth r' regs [].
Proof. exact multi_step_frame. Qed.

(* ---- dicts and sets: every history, under key injectivity (entries are kept under __KEY(key) since /repo aaf31ad) ---- *)

Theorem C18_dict_history : forall (K V : Type) (embK : K -> value) (embV : V -> value) (keqb : K -> K -> bool),
  (forall k k', keqb k k' = true <-> k = k') ->
  (forall k k', rt_key (embK k) = rt_key (embK k') -> k = k') ->
  forall ops m,
  rt_drun K V embK embV ops (rep_dict K V embK embV m) =
  Ok (rep_dict K V embK embV (fst (d_run K V keqb ops m)), map (emb_dobs V embV) (snd (d_run K V keqb ops m))).
Proof. exact dict_history_refines. Qed.

Theorem C18_dict_from_list : forall (K V : Type) (embK : K -> value) (embV : V -> value) (keqb : K -> K -> bool),
  (forall k k', keqb k k' = true <-> k = k') ->
  (forall k k', rt_key (embK k) = rt_key (embK k') -> k = k') ->
  forall l, rt_dict_from_list (VList (map (fun kv => VTuple [embK (fst kv); embV (snd kv)]) l))
            = Ok (rep_dict K V embK embV (m_from_list keqb l)).
Proof. exact dict_from_list_refines. Qed.

Theorem C18_set_history : forall (K : Type) (embK : K -> value) (keqb : K -> K -> bool),
  (forall k k', keqb k k' = true <-> k = k') ->
  (forall k k', rt_key (embK k) = rt_key (embK k') -> k = k') ->
  forall ops s,
  rt_srun K embK ops (rep_set K embK s) =
  Ok (rep_set K embK (fst (s_run K keqb ops s)), map emb_sobs (snd (s_run K keqb ops s))).
Proof. exact set_history_refines. Qed.

Theorem C18_set_from_list : forall (K : Type) (embK : K -> value) (keqb : K -> K -> bool),
  (forall k k', keqb k k' = true <-> k = k') ->
  (forall k k', rt_key (embK k) = rt_key (embK k') -> k = k') ->
  forall l, rt_set_from_list (VList (map embK l)) = Ok (rep_set K embK (s_from_list keqb l)).
Proof. exact set_from_list_refines. Qed.

(* KEY INJECTIVITY.  rt_key is the model of __KEY: strings length-prefixed, ints "%d", floats "%.17g", tuples
   "(" components ")" with self-delimiting components.  Key types without floats (ints, strings, nested tuples
   of them): unconditional. *)
Theorem C18_key_inj_nofloat : forall t a b, key_ty_nofloat t = true -> vty t a -> vty t b ->
  rt_key a = rt_key b -> a = b.
Proof. exact rt_key_inj_nofloat. Qed.

(* ALL admitted key types, floats included.  The float text is string.format("%.17g"); that it separates the
   floats in use (F) and contains no ';' is an EXPLICIT PREMISE: true of IEEE doubles (binary64 round trip),
   not provable for the model's exact rationals -- see C18_key_rational_collision. *)
Theorem C18_key_inj : forall (F : Q -> Prop),
  (forall p q, F p -> F q -> fmt_g17 p = fmt_g17 q -> p = q) ->
  (forall q, F q -> no_semi (fmt_g17 q) = true) ->
  forall t a b, key_ty t = true -> vty t a -> vty t b -> floats_in F a -> floats_in F b ->
  rt_key a = rt_key b -> a = b.
Proof. exact rt_key_inj. Qed.

(* the hypothesis of C18_dict_history / C18_set_history for any embedding into an admitted key type *)
Theorem C18_key_hypothesis : forall (K : Type) (embK : K -> value) (t : ty) (F : Q -> Prop),
  (forall p q, F p -> F q -> fmt_g17 p = fmt_g17 q -> p = q) ->
  (forall q, F q -> no_semi (fmt_g17 q) = true) ->
  key_ty t = true -> (forall k, vty t (embK k) /\ floats_in F (embK k)) -> (forall k k', embK k = embK k' -> k = k') ->
  forall k k', rt_key (embK k) = rt_key (embK k') -> k = k'.
Proof. exact key_hypothesis_from_typing. Qed.

(* the premises are satisfiable, and the pairs that collided under tostring are separated *)
Example C18_key_premises_example :
  let F := fun q : Q => q = (1 # 2)%Q \/ q = (3 # 2)%Q \/ q = (1000000000000001 # 1000000000000000)%Q
                        \/ q = (500000000000001 # 500000000000000)%Q in
  (forall p q, F p -> F q -> fmt_g17 p = fmt_g17 q -> p = q) /\ (forall q, F q -> no_semi (fmt_g17 q) = true).
Proof. exact rt_key_inj_premises. Qed.

Example C18_key_former_collisions :
  rt_key (VTuple [VStr "a, b"; VStr "c"]) <> rt_key (VTuple [VStr "a"; VStr "b, c"]) /\
  rt_key (VFloat (1000000000000001 # 1000000000000000)) <> rt_key (VFloat (500000000000001 # 500000000000000)) /\
  rt_key (VTuple [VStr "a, b"; VStr "c"]) = "(s4:a, bs1:c)" /\ rt_key (VTuple [VInt 1; VTuple [VFloat (2 # 1); VStr "x"]]) = "(i1;(n2;s1:x))".
Proof. exact rt_key_former_collisions. Qed.

(* WHAT STILL COLLIDES, in the model only: two rationals that agree in 17 significant digits (they cannot both
   be IEEE doubles) have one key text and share a dict entry *)
Theorem C18_key_rational_collision : exists p q : Q,
  q_wf p /\ q_wf q /\ ~ Qeq p q /\ rt_key (VFloat p) = rt_key (VFloat q) /\
  exists d, rbind (rt_dict_update rt_dict_new (VFloat p) (vint 1)) (fun d1 => rt_dict_update d1 (VFloat q) (vint 2)) = Ok d /\
            rt_len d = Ok (vint 1).
Proof. exact rt_key_rational_collision. Qed.

(* hence every history on dicts and sets keyed by strings, ints, (int, int) and (str, str) *)
Theorem C18_dict_history_str_keys : forall (V : Type) (embV : V -> value) ops m,
  rt_drun string V VStr embV ops (rep_dict string V VStr embV m) =
  Ok (rep_dict string V VStr embV (fst (d_run string V String.eqb ops m)),
      map (emb_dobs V embV) (snd (d_run string V String.eqb ops m))).
Proof. exact dict_history_str_keys. Qed.

Theorem C18_dict_history_int_keys : forall (V : Type) (embV : V -> value) ops m,
  rt_drun Z V vint embV ops (rep_dict Z V vint embV m) =
  Ok (rep_dict Z V vint embV (fst (d_run Z V Z.eqb ops m)),
      map (emb_dobs V embV) (snd (d_run Z V Z.eqb ops m))).
Proof. exact dict_history_int_keys. Qed.

Theorem C18_dict_history_int_tuple_keys : forall (V : Type) (embV : V -> value) ops m,
  rt_drun (Z * Z) V emb_zz embV ops (rep_dict (Z * Z) V emb_zz embV m) =
  Ok (rep_dict (Z * Z) V emb_zz embV (fst (d_run (Z * Z) V zz_eqb ops m)),
      map (emb_dobs V embV) (snd (d_run (Z * Z) V zz_eqb ops m))).
Proof. exact dict_history_int_tuple_keys. Qed.

Theorem C18_dict_history_str_tuple_keys : forall (V : Type) (embV : V -> value) ops m,
  rt_drun (string * string) V emb_ss embV ops (rep_dict (string * string) V emb_ss embV m) =
  Ok (rep_dict (string * string) V emb_ss embV (fst (d_run (string * string) V ss_eqb ops m)),
      map (emb_dobs V embV) (snd (d_run (string * string) V ss_eqb ops m))).
Proof. exact dict_history_str_tuple_keys. Qed.

(* a nested tuple key type, (int, (int, int)) *)
Theorem C18_dict_history_nested_tuple_keys : forall (V : Type) (embV : V -> value) ops m,
  rt_drun (Z * (Z * Z)) V emb_znn embV ops (rep_dict (Z * (Z * Z)) V emb_znn embV m) =
  Ok (rep_dict (Z * (Z * Z)) V emb_znn embV (fst (d_run (Z * (Z * Z)) V znn_eqb ops m)),
      map (emb_dobs V embV) (snd (d_run (Z * (Z * Z)) V znn_eqb ops m))).
Proof. exact dict_history_nested_tuple_keys. Qed.

Theorem C18_set_history_nested_tuple_keys : forall ops s,
  rt_srun (Z * (Z * Z)) emb_znn ops (rep_set (Z * (Z * Z)) emb_znn s) =
  Ok (rep_set (Z * (Z * Z)) emb_znn (fst (s_run (Z * (Z * Z)) znn_eqb ops s)),
      map emb_sobs (snd (s_run (Z * (Z * Z)) znn_eqb ops s))).
Proof. exact set_history_nested_tuple_keys. Qed.

Theorem C18_set_history_str_keys : forall ops s,
  rt_srun string VStr ops (rep_set string VStr s) =
  Ok (rep_set string VStr (fst (s_run string String.eqb ops s)), map emb_sobs (snd (s_run string String.eqb ops s))).
Proof. exact set_history_str_keys. Qed.

Theorem C18_set_history_int_keys : forall ops s,
  rt_srun Z vint ops (rep_set Z vint s) =
  Ok (rep_set Z vint (fst (s_run Z Z.eqb ops s)), map emb_sobs (snd (s_run Z Z.eqb ops s))).
Proof. exact set_history_int_keys. Qed.

Theorem C18_set_history_int_tuple_keys : forall ops s,
  rt_srun (Z * Z) emb_zz ops (rep_set (Z * Z) emb_zz s) =
  Ok (rep_set (Z * Z) emb_zz (fst (s_run (Z * Z) zz_eqb ops s)), map emb_sobs (snd (s_run (Z * Z) zz_eqb ops s))).
Proof. exact set_history_int_tuple_keys. Qed.

Theorem C18_set_history_str_tuple_keys : forall ops s,
  rt_srun (string * string) emb_ss ops (rep_set (string * string) emb_ss s) =
  Ok (rep_set (string * string) emb_ss (fst (s_run (string * string) ss_eqb ops s)),
      map emb_sobs (snd (s_run (string * string) ss_eqb ops s))).
Proof. exact set_history_str_tuple_keys. Qed.

(* ---- library-made values vs source-written values ---- *)

(* a Maybe made by the library (list.get here; find / pop / last / dict.get answer with the same rep_maybe)
   has the Maybe type and is == to the same Maybe written in the program; in particular the absent
   element IS `Maybe.None` (since /repo c4844e5; before, this statement was refuted) *)
Theorem C18_lib_maybe_eq : forall t (l : list value) (i : Z) (r : value), Forall (vty t) l ->
  rt_list_get (VList l) i = Ok r ->
  vty (TMaybe t) r /\ rt_eq r (match l_get l i with Some x => mk_just x | None => src_none end) = true.
Proof. exact lib_maybe_eq. Qed.

Theorem C18_lib_none_is_src_none : lib_none = src_none.
Proof. exact lib_none_is_src_none. Qed.

Theorem C18_lib_none_eq :
  rt_list_get (VList []) 0 = Ok lib_none /\ rt_list_pop (VList []) = Ok (VList [], lib_none) /\
  rt_list_find (fun _ => true) (VList []) = Ok lib_none /\ rt_dict_get rt_dict_new (vint 0) = Ok lib_none /\
  rt_eq lib_none src_none = true /\ rt_neq lib_none src_none = false /\ vty (TMaybe TInt) lib_none.
Proof. exact lib_none_eq. Qed.

(* case analysis and printing agree as well *)
Theorem C18_lib_none_case_ok :
  rt_is_just lib_none = rt_is_just src_none /\ rt_is_none lib_none = rt_is_none src_none /\
  (forall d, rt_or_default lib_none d = rt_or_default src_none d) /\
  (forall f, rt_maybe_map f lib_none = rt_maybe_map f src_none) /\
  rt_tostring lib_none = rt_tostring src_none /\
  rt_index lib_none (vint 2) = rt_index src_none (vint 2).
Proof. exact lib_none_case_ok. Qed.

Theorem C18_maybe_helpers : forall m o, maybe_abs m = Some o ->
  rt_is_just m = Ok (match o with Some _ => true | None => false end) /\
  rt_is_none m = Ok (match o with Some _ => false | None => true end) /\
  (forall d, rt_or_default m d = Ok (match o with Some x => x | None => d end)) /\
  (forall f, (forall x, f x <> VLuaNil) -> exists r, rt_maybe_map f m = Ok r /\ maybe_abs r = Some (option_map f o)).
Proof. exact maybe_helpers_refine. Qed.

(* ---- math helpers ---- *)

Theorem C18_min_int : forall a b, rt_min (vint a) (vint b) = Ok (vint (Z.min a b)).
Proof. exact min_int. Qed.
Theorem C18_max_int : forall a b, rt_max (vint a) (vint b) = Ok (vint (Z.max a b)).
Proof. exact max_int. Qed.
Theorem C18_abs_int : forall a, rt_abs (vint a) = Ok (vint (Z.abs a)).
Proof. exact abs_int. Qed.
Theorem C18_clamp_int : forall x lo hi, (lo <= hi)%Z ->
  rt_clamp (vint x) (vint lo) (vint hi) = Ok (vint (z_clamp x lo hi)).
Proof. exact clamp_int_spec. Qed.
Theorem C18_sign_int : forall a, rt_sign (vint a) = Ok (vint (Z.sgn a)).
Proof. exact sign_int. Qed.
(* floor division, 0 for a zero divisor *)
Theorem C18_div_int : forall a b, rt_idiv (vint a) (vint b) = Ok (vint (a / b)%Z).
Proof. exact div_int. Qed.
Theorem C18_floor : forall q, rt_floor (VFloat q) = Ok (vint (Qfloor q)).
Proof. exact floor_num. Qed.
Theorem C18_min_num : forall p q, rt_min (VFloat p) (VFloat q) = Ok (VFloat (q_min_spec p q)).
Proof. exact min_num. Qed.
Theorem C18_max_num : forall p q, rt_max (VFloat p) (VFloat q) = Ok (VFloat (q_max_spec p q)).
Proof. exact max_num. Qed.
Theorem C18_abs_num : forall p, rt_abs (VFloat p) = Ok (VFloat (q_abs_spec p)).
Proof. exact abs_num. Qed.
Theorem C18_sign_num : forall p, rt_sign (VFloat p) = Ok (vint (q_sign_spec p)).
Proof. exact sign_num. Qed.

(* Non-vacuity: a history on a list of ints through the run-time library. *)
Example C18_example :
  rt_lrun [RPush (vint 3); RPrepend (vint 1); RGet 5; RPop; RLen; RContains (vint 1)] (VList [vint 2])
  = Ok (VList [vint 1; vint 2],
        [VLuaNil; VLuaNil; src_none; mk_just (vint 3); vint 2; VBool true]).
Proof. vm_compute. reflexivity. Qed.

Print Assumptions C18_preamble_doc.
Print Assumptions C18_std_doc.
Print Assumptions C18_functions_covered.
Print Assumptions C18_names_modelled.
Print Assumptions C18_list_history.
Print Assumptions C18_list_history_values.
Print Assumptions C18_list_history_ints.
Print Assumptions C18_list_history_strs.
Print Assumptions C18_list_set.
Print Assumptions C18_multi_history.
Print Assumptions C18_multi_step_frame.
Print Assumptions C18_dict_history.
Print Assumptions C18_dict_from_list.
Print Assumptions C18_set_history.
Print Assumptions C18_set_from_list.
Print Assumptions C18_key_inj_nofloat.
Print Assumptions C18_key_inj.
Print Assumptions C18_key_hypothesis.
Print Assumptions C18_key_rational_collision.
Print Assumptions C18_dict_history_str_keys.
Print Assumptions C18_dict_history_int_keys.
Print Assumptions C18_dict_history_int_tuple_keys.
Print Assumptions C18_dict_history_str_tuple_keys.
Print Assumptions C18_dict_history_nested_tuple_keys.
Print Assumptions C18_set_history_nested_tuple_keys.
Print Assumptions C18_set_history_str_keys.
Print Assumptions C18_set_history_int_keys.
Print Assumptions C18_set_history_int_tuple_keys.
Print Assumptions C18_set_history_str_tuple_keys.
Print Assumptions C18_lib_maybe_eq.
Print Assumptions C18_lib_none_is_src_none.
Print Assumptions C18_lib_none_eq.
Print Assumptions C18_lib_none_case_ok.
Print Assumptions C18_maybe_helpers.
Print Assumptions C18_min_int.
Print Assumptions C18_max_int.
Print Assumptions C18_abs_int.
Print Assumptions C18_clamp_int.
Print Assumptions C18_sign_int.
Print Assumptions C18_div_int.
Print Assumptions C18_floor.
Print Assumptions C18_min_num.
Print Assumptions C18_max_num.
Print Assumptions C18_abs_num.
Print Assumptions C18_sign_num.
