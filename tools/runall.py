#!/usr/bin/env python3
"""Run every registered quick (or, with --thorough, thorough) check once, sequentially; print one status line per check."""
import json, os, subprocess, sys, time
V = os.path.dirname(os.path.dirname(os.path.abspath(__file__)))
man = json.load(open(os.path.join(V, "MANIFEST.json")))
args = sys.argv[1:]
thorough = "--thorough" in args
only = set(a for a in args if not a.startswith("--"))
bad = 0
for c in man["checks"]:
    pid = c["property_id"]
    if only and pid not in only:
        continue
    t = time.time()
    p = subprocess.run(c["thorough_cmd" if thorough else "quick_cmd"], shell=True, cwd=V, stdout=subprocess.PIPE, stderr=subprocess.STDOUT)
    out = p.stdout.decode("utf-8", "replace")
    viol = [l for l in out.split("\n") if l.startswith("VIOLATION")]
    known = sum(1 for l in out.split("\n") if l.startswith("KNOWN-FINDING"))
    print("%s rc=%d %.0fs known=%d %s" % (pid, p.returncode, time.time() - t, known, viol[0][:150] if viol else ""), flush=True)
    if p.returncode != 0:
        bad += 1
        open(os.path.join(V, "build", "tmp", "runall_%s.log" % pid), "w").write(out)
sys.exit(1 if bad else 0)
