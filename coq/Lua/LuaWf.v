(* placeholder, replaced below in the same session *)
From Coq Require Import String.
From Sylt Require Import Lua.LuaAst Lua.LuaParse.
Inductive wf_result := WfOk | WfBad (reason : string).
Definition lua_wf (src : string) : wf_result :=
  match parse_lua src with ParseOk _ => WfOk | ParseErr _ m => WfBad m end.
