-- expect-final[5.3]: loaderr
-- expect-wf[5.3]: bad unexpected symbol
-- expect-wf[jit]: ok
-- expect[jit]: 1
local cafÃ© = 1
print(cafÃ©)
