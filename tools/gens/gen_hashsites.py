"""GenHashSites: every iteration over a HashMap/HashSet in the five crates, with the enclosing function
and a normalised snippet of the iterating statement.  A new or changed iteration breaks
`C16_sites_covered` (Props/C16.v) so that the determinism oracle is run."""
import os
import re
import gen_tables

NAME = "GenHashSites"
CRATES = ["sylt-tokenizer/src", "sylt-parser/src", "sylt-common/src", "sylt-compiler/src", "sylt/src"]
SKIP_FILES = {"sylt/src/formatter.rs", "sylt/src/test.rs"}   # not part of compilation
ITER = r"\.(?:iter|iter_mut|keys|values|values_mut|into_iter|drain|into_keys|into_values)\s*\("


def strip_comments_and_tests(src):
    # drop #[cfg(test)] mod ... { ... } blocks and comments (keep line structure)
    out = []
    i = 0
    n = len(src)
    while i < n:
        if src.startswith("//", i):
            j = src.find("\n", i)
            j = n if j < 0 else j
            i = j
        elif src.startswith("/*", i):
            j = src.find("*/", i)
            j = n if j < 0 else j + 2
            out.append("\n" * src.count("\n", i, j))
            i = j
        elif src[i] == "'" and re.match(r"'(\\.|[^\\'])'", src[i:i + 4]):
            m = re.match(r"'(\\.|[^\\'])'", src[i:i + 4])      # a char literal such as '"' or '\\n'
            out.append("' '")
            i += m.end()
        elif src[i] == '"':
            j = i + 1
            while j < n and src[j] != '"':
                j += 2 if src[j] == "\\" else 1
            out.append('""' + "\n" * src.count("\n", i, j))
            i = j + 1
        else:
            out.append(src[i])
            i += 1
    s = "".join(out)
    m = re.search(r"#\[cfg\(test\)\]\s*mod\s+\w+\s*\{", s)
    while m:
        depth = 1
        j = m.end()
        while j < len(s) and depth:
            depth += {"{": 1, "}": -1}.get(s[j], 0)
            j += 1
        s = s[:m.start()] + "\n" * s.count("\n", m.start(), j) + s[j:]
        m = re.search(r"#\[cfg\(test\)\]\s*mod\s+\w+\s*\{", s)
    return s


def hash_names(s):
    names = set()
    for m in re.finditer(r"\b(\w+)\s*:\s*&?\s*(?:'\w+\s+)?(?:mut\s+)?(?:std::collections::)?Hash(?:Map|Set)\s*<", s):
        names.add(m.group(1))
    for m in re.finditer(r"\blet\s+(?:mut\s+)?(\w+)\s*(?::[^=;]+)?=\s*Hash(?:Map|Set)::(?:new|with_capacity)", s):
        names.add(m.group(1))
    return names


def enclosing_fn(s, pos):
    best = None
    for m in re.finditer(r"\bfn\s+(\w+)", s[:pos]):
        best = m.group(1)
    return best or "?"


def statement_at(s, pos):
    # from the start of the line to the first `;` or `{`-block end at depth 0 (max 400 chars)
    start = s.rfind("\n", 0, pos) + 1
    depth = 0
    j = pos
    while j < len(s) and j - start < 600:
        c = s[j]
        if c in "([{":
            depth += 1
        elif c in ")]}":
            depth -= 1
            if depth < 0:
                break
        elif c == ";" and depth == 0:
            break
        j += 1
    st = re.sub(r"\s+", " ", s[start:j + 1]).strip()
    # `let mut X: Vec<_> = NAME.iter().collect(); X.sort...;` -- keep the sort with the site
    m = re.match(r"let mut (\w+)\b", st)
    if m and j + 1 < len(s):
        k = j + 1
        depth = 0
        e = k
        while e < len(s) and e - k < 400:
            c = s[e]
            if c in "([{":
                depth += 1
            elif c in ")]}":
                depth -= 1
                if depth < 0:
                    break
            elif c == ";" and depth == 0:
                break
            e += 1
        nxt = re.sub(r"\s+", " ", s[k:e + 1]).strip()
        if nxt.startswith(m.group(1) + ".sort"):
            st = st + " " + nxt
    return st


def all_sources():
    for crate in CRATES:
        d = os.path.join(gen_tables.REPO, crate)
        if not os.path.isdir(d):
            raise gen_tables.Untranslatable("missing crate dir " + crate)
        for root, _, files in sorted(os.walk(d)):
            for f in sorted(files):
                if f.endswith(".rs"):
                    rel = os.path.relpath(os.path.join(root, f), gen_tables.REPO)
                    if rel not in SKIP_FILES:
                        yield rel, strip_comments_and_tests(open(os.path.join(root, f), encoding="utf-8").read())


def _impl_body(s, trait, ty, fn):
    """normalised body of `fn` in `impl [path::]trait for ty`, or "" """
    m = re.search(r"\bimpl\s+(?:[\w:]+::)?%s\s+for\s+%s\s*\{" % (trait, ty), s)
    if not m:
        return ""
    depth = 1
    j = m.end()
    while j < len(s) and depth:
        depth += {"{": 1, "}": -1}.get(s[j], 0)
        j += 1
    block = s[m.end():j - 1]
    m2 = re.search(r"\bfn\s+%s\b[^{]*\{" % fn, block)
    if not m2:
        return "?"
    depth = 1
    k = m2.end()
    while k < len(block) and depth:
        depth += {"{": 1, "}": -1}.get(block[k], 0)
        k += 1
    return re.sub(r"\s+", " ", block[m2.end():k - 1]).strip()


def hand_written_eq_hash():
    rows = []
    for rel, s in all_sources():
        tys = set(re.findall(r"\bimpl\s+(?:[\w:]+::)?(?:PartialEq|Hash|Ord)\s+for\s+(\w+)", s))
        for ty in sorted(tys):
            m = re.search(r"((?:#\[[^\]]*\]\s*)*)pub\s+(?:struct|enum)\s+%s\b" % ty, s)
            derives = ""
            if m:
                derives = ",".join(sorted(x.strip() for d in re.findall(r"derive\(([^)]*)\)", m.group(1)) for x in d.split(",") if x.strip()))
            rows.append((rel, ty, derives, _impl_body(s, "PartialEq", ty, "eq"), _impl_body(s, "Ord", ty, "cmp"),
                         _impl_body(s, "Hash", ty, "hash")))
    return rows


ENV_PATTERNS = [
    ("clock", r"\b(?:Instant|SystemTime|UNIX_EPOCH|Duration)\b|\bstd::time\b|\belapsed\s*\("),
    ("environment", r"\benv::(?:var|vars|var_os|vars_os|current_dir|temp_dir|home_dir|current_exe)\b|\bcurrent_dir\s*\("),
    ("arguments", r"\benv::args(?:_os)?\b|\bArgs::parse_args\w*"),
    ("directory-listing", r"\bread_dir\s*\(|\bWalkDir\b|\bglob\s*\("),
    ("identity", r"\bprocess::id\b|\bthread::current\b|\bavailable_parallelism\b|\bThreadId\b"),
    ("random", r"\bthread_rng\b|\brand::|\bRandomState\b|\bDefaultHasher\b"),
    ("address", r"\bas\s+\*(?:const|mut)\b|\bas_ptr\s*\(|\baddr_of\b"),
    ("process-state", r"\bstatic\s+mut\b|\bthread_local!|\blazy_static!|\bOnceCell\b|\bOnceLock\b|\bAtomic\w+\b"),
]


def macro_sources():
    d = os.path.join(gen_tables.REPO, "sylt-macro", "src")
    for root, _, files in sorted(os.walk(d)):
        for f in sorted(files):
            if f.endswith(".rs"):
                yield (os.path.relpath(os.path.join(root, f), gen_tables.REPO),
                       strip_comments_and_tests(open(os.path.join(root, f), encoding="utf-8").read()))


def environment_sites():
    out = []
    for rel, s in list(all_sources()) + list(macro_sources()):
        found = set()
        for what, pat in ENV_PATTERNS:
            for m in re.finditer(pat, s):
                line_start = s.rfind("\n", 0, m.start()) + 1
                found.add((line_start, what))
        for pos, what in sorted(found):
            out.append((rel, enclosing_fn(s, pos), what, statement_at(s, pos)[:300]))
    return out


def generate():
    sites = []
    # names bound to a hash container anywhere (values flow between files through struct fields)
    global_names = set()
    for rel, s in all_sources():
        global_names |= hash_names(s)
    for crate in CRATES:
        d = os.path.join(gen_tables.REPO, crate)
        if not os.path.isdir(d):
            raise gen_tables.Untranslatable("missing crate dir " + crate)
        for root, _, files in sorted(os.walk(d)):
            for f in sorted(files):
                if not f.endswith(".rs"):
                    continue
                rel = os.path.relpath(os.path.join(root, f), gen_tables.REPO)
                if rel in SKIP_FILES:
                    continue
                s = strip_comments_and_tests(open(os.path.join(root, f), encoding="utf-8").read())
                names = global_names
                if not names:
                    continue
                alt = "|".join(sorted(re.escape(x) for x in names))
                found = []
                # NAME.iter() / self.NAME.iter() / self.NAME[..].keys()
                for m in re.finditer(r"\b(?:self\.)?(%s)\b(?:\s*\[[^\]]*\])?\s*%s" % (alt, ITER), s):
                    found.append((m.start(), m.group(1)))
                # for PAT in [&][mut ][self.]NAME [{]
                for m in re.finditer(r"\bfor\s+[^;{]*?\bin\s+&?\s*(?:mut\s+)?(?:self\.)?(%s)\b\s*\{" % alt, s):
                    found.append((m.start(), m.group(1)))
                for pos, nm in sorted(set(found)):
                    sites.append((rel, enclosing_fn(s, pos), nm, statement_at(s, pos)))
    key_types = hand_written_eq_hash()
    env_sites = environment_sites()
    out = ["(* GENERATED by tools/gens/gen_hashsites.py -- do not edit *)",
           "From Coq Require Import String List.",
           "Import ListNotations.",
           "Local Open Scope string_scope.",
           "",
           "(* (file, enclosing fn, container, normalised iterating statement) *)",
           "Definition sites : list (string * string * string * string) := ["]
    rows = []
    for rel, fn, nm, st in sites:
        st = st.replace('"', "'")
        rows.append('  ("%s", "%s", "%s", "%s")' % (rel, fn, nm, st))
    out.append(";\n".join(rows))
    out.append("].")
    out.append("")
    out.append("(* every type with a hand-written PartialEq / Ord / Hash impl: (file, type, derives, eq body, ord body, hash body);")
    out.append("   a key type whose Eq is coarser than its Hash makes HashMap lookups miss at random *)")
    out.append("Definition key_types : list (string * string * string * string * string * string) := [")
    out.append(";\n".join('  ("%s", "%s", "%s", "%s", "%s", "%s")' % tuple(x.replace('"', "'") for x in kt) for kt in key_types))
    out.append("].")
    out.append("")
    out.append("(* every place where the crates read something that is not a function of the sources: clock, environment")
    out.append("   variables, arguments, current directory, directory listings, process / thread identity, random state,")
    out.append("   addresses: (file, enclosing fn, what, normalised statement) *)")
    out.append("Definition env_sites : list (string * string * string * string) := [")
    out.append(";\n".join('  ("%s", "%s", "%s", "%s")' % tuple(x.replace('"', "'") for x in e) for e in env_sites))
    out.append("].")
    return "GenHashSites.v", "\n".join(out) + "\n"
