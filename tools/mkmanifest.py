#!/usr/bin/env python3
"""Regenerates MANIFEST.json from the declarative list below (single source of truth)."""
import json
import os

VERIF = os.path.dirname(os.path.dirname(os.path.abspath(__file__)))

CHECKS = {
 "C17": dict(
  text="Theorems in Coq over an executable model of the Logos lexer and of string_to_tokens' span arithmetic, for every input: tokens tile the source with only [ \\t\\r] between them, every token is the longest match with the highest priority (or Error), and line/column of both ends are exact. The token table is regenerated from token.rs on every run and proved (vm_compute) equal to the documented token set; the extracted model is run against the real tokenizer.",
  note="Trusted: Coq kernel, the translator for token.rs, the Logos runtime rule as modelled in Lex/Logos.v (validated differentially), extraction (ExtrOcamlBasic/ExtrOcamlString), harness. No axioms.",
  technique="Coq proof over lexer model + regenerated token table + differential tie", design="DESIGN.md §4 C17"),
 "C16": dict(
  text="Every iteration over a HashMap/HashSet in the five crates is regenerated from the source on each run and proved (vm_compute) equal to a hand-reviewed list in which each site carries the class of its consumer; for every order-free class a Coq theorem shows that all visiting orders of the same entries give the same observation (and that the first-error shape does not). The real compiler is compiled repeatedly in one process and in fresh processes on valid and multi-error inputs.",
  note="Trusted: Coq kernel, the name-based site finder, the hand review of site classes (DocHashSites.v), the consumer models; other sources of nondeterminism (environment, addresses) are covered only by the repetitions. No axioms.",
  technique="Coq permutation-invariance proofs per hash-iteration site + regenerated site table + repeated-compilation oracle", design="DESIGN.md §4 C16"),
}

NOT_YET = "not yet claimed in this revision (machinery under construction; see DESIGN.md §4 for the plan)"


def main():
    props = [json.loads(l)["id"] for l in open(os.path.join(VERIF, "properties.jsonl"))]
    man = {
        "version": 1,
        "setup_cmd": "python3 tools/setup.py",
        "hooks": {
            "guard": "sylt_lang_sylt_lang_verif",
            "enable": "RUSTFLAGS=\"--cfg sylt_lang_sylt_lang_verif\" (set by tools/vlib.py for every cargo build). One add-only hook: sylt_compiler::verif::phases (Debug dumps of resolved AST, ordering, IR, usage counts).",
            "baseline_off_cmd": "cd /repo && cargo test --workspace --no-fail-fast --offline",
            "source_commits": ["75dbdb0"],
            "add_only": True,
        },
        "engines": [
            {"name": "coq-model", "path": "coq/", "serves_properties": sorted(CHECKS), "kind_free_text": "Gallina model + theorems (Coq 8.16.1), tables regenerated from /repo by tools/gen_tables.py and tools/gens/*.py"},
            {"name": "correspondence", "path": "harness/ ocaml/ tools/", "serves_properties": sorted(CHECKS), "kind_free_text": "differential run of the extracted model against the real crates; property oracles for the search"},
        ],
        "checks": [],
        "notes": "See DESIGN.md. Every check: python3 tools/check.py <ID> [--tier thorough]. Fix commits in /repo are listed in known_findings.jsonl.",
        "not_applicable": [],
    }
    for pid in props:
        if pid in CHECKS:
            c = CHECKS[pid]
            man["checks"].append({
                "property_id": pid,
                "quick_cmd": "python3 tools/check.py %s --tier quick" % pid,
                "thorough_cmd": "python3 tools/check.py %s --tier thorough" % pid,
                "evidence_file": "evidence/%s.json" % pid,
                "replay_cmd_template": "python3 tools/check.py %s --replay {path}" % pid,
                "engine": "coq-model",
                "level_claimed": {"category": "proof", "text": c["text"], "design_ref": c["design"]},
                "level_note": c["note"],
                "technique": c["technique"],
            })
        else:
            man["not_applicable"].append({"property_id": pid, "reason": NOT_YET})
    json.dump(man, open(os.path.join(VERIF, "MANIFEST.json"), "w"), indent=1)
    print("checks:", [c["property_id"] for c in man["checks"]])


if __name__ == "__main__":
    main()
