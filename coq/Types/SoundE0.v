(* C02, the proved fragment: type soundness for closed expressions over literals, arithmetic, comparisons,
   equality, boolean operators, unary operators and if-expressions (E0, base-typed).
   If the type checker accepts such an expression - in any well-formed state of the type graph, with any
   fuel - then the expression is well typed in the obvious simple type system, the class of its value has
   the corresponding base type as head, and a tagged evaluator (which gets stuck whenever an operation is
   applied to a value of the wrong tag) does not get stuck on it and returns a value of that type.
   The evaluator is parameterised by the interpretation of float arithmetic / comparisons and of string
   comparison (the resolved AST keeps floats as text); the theorem holds for every interpretation. *)
From Coq Require Import String List NArith ZArith PArith Bool Lia FMapPositive.
From Sylt Require Import Syntax.Resolved Types.TyGraph Types.Tc Types.Ctx Types.TcInv Types.Reject Types.Mismatch
     Types.ShapesDecl.
Import ListNotations.
Local Open Scope tc_scope.

(* ------------------------------------------------------------------ the fragment *)

Inductive e0 :=
| I0 (z : Z) | F0 (r : string) | S0 (s : string) | B0 (b : bool)
| Bin0 (op : binop) (a b : e0)
| Un0 (op : uniop) (a : e0)
| If0 (c a b : e0).

(* its image in the resolved AST (all spans equal: they play no role) *)
Fixpoint to_expr (sp : span) (e : e0) : expr :=
  match e with
  | I0 z => EInt z sp | F0 r => EFloat r sp | S0 s => EStr s sp | B0 b => EBool b sp
  | Bin0 op a b => EBinOp op (to_expr sp a) (to_expr sp b) sp
  | Un0 op a => EUniOp op (to_expr sp a) sp
  | If0 c a b =>
    EIf [IfBranch (Some (to_expr sp c)) [SStatementExpression (to_expr sp a) sp] sp;
         IfBranch None [SStatementExpression (to_expr sp b) sp] sp] sp
  end.

(* the proved fragment: no division (the checker gives `/` its own three-way constraint; not covered here) *)
Fixpoint in_fragment (e : e0) : bool :=
  match e with
  | Bin0 op a b => (match op with Nop | Div => false | _ => true end) && in_fragment a && in_fragment b
  | Un0 _ a => in_fragment a
  | If0 c a b => in_fragment c && in_fragment a && in_fragment b
  | _ => true
  end.

(* ------------------------------------------------------------------ simple types and the tagged evaluator *)

Inductive bty := TI | TF | TS | TB.
Definition bty_head (t : bty) : tyh := match t with TI => HInt | TF => HFloat | TS => HStr | TB => HBool end.
Definition bty_eqb (a b : bty) : bool := match a, b with TI, TI | TF, TF | TS, TS | TB, TB => true | _, _ => false end.

Definition bin_ty (op : binop) (a b : bty) : option bty :=
  match op with
  | Add => match a, b with TI, TI => Some TI | TF, TF => Some TF | TS, TS => Some TS | _, _ => None end
  | Sub | Mul => match a, b with TI, TI => Some TI | TF, TF => Some TF | _, _ => None end
  | Greater | Less =>
    match a, b with TI, TI | TF, TF | TI, TF | TF, TI | TS, TS => Some TB | _, _ => None end
  | GreaterEqual | LessEqual => match a, b with TI, TI | TF, TF | TS, TS => Some TB | _, _ => None end
  | Equals | NotEquals | AssertEq => if bty_eqb a b then Some TB else None
  | And | Or => match a, b with TB, TB => Some TB | _, _ => None end
  | Nop | Div => None          (* division is outside the proved fragment *)
  end.

Definition un_ty (op : uniop) (a : bty) : option bty :=
  match op, a with
  | Neg, TI => Some TI | Neg, TF => Some TF | Not, TB => Some TB | _, _ => None
  end.

Fixpoint ty0 (e : e0) : option bty :=
  match e with
  | I0 _ => Some TI | F0 _ => Some TF | S0 _ => Some TS | B0 _ => Some TB
  | Bin0 op a b => match ty0 a, ty0 b with Some ta, Some tb => bin_ty op ta tb | _, _ => None end
  | Un0 op a => match ty0 a with Some ta => un_ty op ta | None => None end
  | If0 c a b =>
    match ty0 c, ty0 a, ty0 b with
    | Some TB, Some ta, Some tb => if bty_eqb ta tb then Some ta else None
    | _, _, _ => None
    end
  end.

Inductive value := VInt (z : Z) | VFloat (r : string) | VStr (s : string) | VBool (b : bool).
Definition tag (v : value) : bty := match v with VInt _ => TI | VFloat _ => TF | VStr _ => TS | VBool _ => TB end.

Section Eval.
  (* interpretation of what the AST keeps abstract *)
  Variable farith : binop -> string -> string -> string.       (* float + - * *)
  Variable fneg : string -> string.
  Variable fcmp : binop -> string -> string -> bool.           (* float comparisons and equality *)
  Variable of_int : Z -> string.                               (* int -> float, for mixed comparisons *)
  Variable scmp : binop -> string -> string -> bool.           (* string comparisons *)

  Definition zcmp (op : binop) (x y : Z) : bool :=
    match op with
    | Greater => Z.gtb x y | Less => Z.ltb x y | GreaterEqual => Z.geb x y | LessEqual => Z.leb x y
    | NotEquals => negb (Z.eqb x y) | _ => Z.eqb x y
    end.

  (* None = stuck: an operation applied to a value of a tag it is not defined on *)
  Definition eval_bin (op : binop) (x y : value) : option value :=
    match op with
    | Add => match x, y with
             | VInt a, VInt b => Some (VInt (a + b)) | VFloat a, VFloat b => Some (VFloat (farith Add a b))
             | VStr a, VStr b => Some (VStr (a ++ b)) | _, _ => None end
    | Sub => match x, y with
             | VInt a, VInt b => Some (VInt (a - b)) | VFloat a, VFloat b => Some (VFloat (farith Sub a b)) | _, _ => None end
    | Mul => match x, y with
             | VInt a, VInt b => Some (VInt (a * b)) | VFloat a, VFloat b => Some (VFloat (farith Mul a b)) | _, _ => None end
    | Greater | Less | GreaterEqual | LessEqual =>
      match x, y with
      | VInt a, VInt b => Some (VBool (zcmp op a b))
      | VFloat a, VFloat b => Some (VBool (fcmp op a b))
      | VInt a, VFloat b => Some (VBool (fcmp op (of_int a) b))
      | VFloat a, VInt b => Some (VBool (fcmp op a (of_int b)))
      | VStr a, VStr b => Some (VBool (scmp op a b))
      | _, _ => None
      end
    | Equals | NotEquals | AssertEq =>
      match x, y with
      | VInt a, VInt b => Some (VBool (zcmp op a b))
      | VFloat a, VFloat b => Some (VBool (fcmp op a b))
      | VStr a, VStr b => Some (VBool (match op with NotEquals => negb (String.eqb a b) | _ => String.eqb a b end))
      | VBool a, VBool b => Some (VBool (Bool.eqb a b))
      | _, _ => None
      end
    | And => match x, y with VBool a, VBool b => Some (VBool (a && b)) | _, _ => None end
    | Or => match x, y with VBool a, VBool b => Some (VBool (a || b)) | _, _ => None end
    | Nop | Div => None
    end.

  Definition eval_un (op : uniop) (x : value) : option value :=
    match op, x with
    | Neg, VInt a => Some (VInt (- a)) | Neg, VFloat a => Some (VFloat (fneg a))
    | Not, VBool b => Some (VBool (negb b))
    | _, _ => None
    end.

  (* strict: both operands of and / or are evaluated (a tag error in the second operand of a short-circuit
     operator counts, as the checker also looks at it) *)
  Fixpoint eval (e : e0) : option value :=
    match e with
    | I0 z => Some (VInt z) | F0 r => Some (VFloat r) | S0 s => Some (VStr s) | B0 b => Some (VBool b)
    | Bin0 op a b => match eval a, eval b with Some x, Some y => eval_bin op x y | _, _ => None end
    | Un0 op a => match eval a with Some x => eval_un op x | None => None end
    | If0 c a b =>
      match eval c, eval a, eval b with
      | Some (VBool true), Some x, Some _ => Some x
      | Some (VBool false), Some _, Some y => Some y
      | _, _, _ => None
      end
    end.

  (* well-typed closed expressions of the fragment do not get stuck, and evaluate to a value of their type *)
  Lemma bty_eqb_eq a b : bty_eqb a b = true -> a = b.
  Proof. destruct a, b; cbn; congruence. Qed.

  Theorem simply_typed_sound e t : ty0 e = Some t -> exists v, eval e = Some v /\ tag v = t.
  Proof.
    revert t. induction e as [z|r|s|b|op a IHa b IHb|op a IHa|c IHc a IHa b IHb]; intros t H; cbn [ty0 eval] in *.
    - injection H as <-. eauto.
    - injection H as <-. eauto.
    - injection H as <-. eauto.
    - injection H as <-. eauto.
    - destruct (ty0 a) as [ta|]; [|discriminate]. destruct (ty0 b) as [tb|]; [|discriminate].
      destruct (IHa _ eq_refl) as (x & -> & Tx). destruct (IHb _ eq_refl) as (y & -> & Ty).
      destruct op, x, y; cbn in Tx, Ty; subst ta tb; cbn in H; try discriminate;
        injection H as <-; cbn; eauto.
    - destruct (ty0 a) as [ta|]; [|discriminate]. destruct (IHa _ eq_refl) as (x & -> & Tx).
      destruct op, x; cbn in Tx; subst ta; cbn in H; try discriminate; injection H as <-; cbn; eauto.
    - destruct (ty0 c) as [[]|]; try discriminate.
      destruct (ty0 a) as [ta|]; [|discriminate]. destruct (ty0 b) as [tb|]; [|discriminate].
      destruct (bty_eqb ta tb) eqn:E; [|discriminate]. injection H as <-. apply bty_eqb_eq in E. subst tb.
      destruct (IHc _ eq_refl) as (vc & -> & Tc). destruct (IHa _ eq_refl) as (x & -> & Tx).
      destruct (IHb _ eq_refl) as (y & -> & Ty). destruct vc; cbn in Tc; try discriminate. destruct b0; eauto.
  Qed.
End Eval.

(* ------------------------------------------------------------------ accepted => simply typed *)

Section Accepted.
  Variable kinds : PositiveMap.t varkind.
  Variable g : nat.
  Notation G := (gfix g).
  Notation afix := (afix kinds G).
  Let PG : gpres G := gfix_pres g.
  Let PA f : apres (afix f) := afix_pres kinds G PG f.

  (* whenever the checker accepts e (in a well-formed state, with any fuel), the optional simple type is
     defined and the class of the value of e has that base type as head *)
  (* an invariant of the type graph that every extension keeps (the types of the variables in scope: SoundE1) *)
  Variable Inv : st -> Prop.
  Hypothesis Inv_ext : forall s s', wf s -> ext s s' -> Inv s -> Inv s'.

  Definition sound_expr (e : expr) (ot : option bty) : Prop :=
    forall f ctx s r s', wf s -> Inv s -> r_expr (afix f) e ctx s = Ok (r, s') ->
      wf s' /\ ext s s' /\ exists t, ot = Some t /\ head s' (snd r) = Some (bty_head t).

  Lemma rigid_bty t : rigid (bty_head t) = true.
  Proof. destruct t; reflexivity. Qed.

  Lemma bty_head_inj a b : bty_head a = bty_head b -> a = b.
  Proof. destruct a, b; cbn; congruence. Qed.

  Lemma shape_bty a b : same_shape (bty_head a) (bty_head b) = bty_eqb a b.
  Proof. destruct a, b; reflexivity. Qed.

  (* the tail of fn expression leaves a value of base type alone *)
  Lemma tail_base (er : option tyid) (ex : tyid) s r s' t :
    head s ex = Some (bty_head t) ->
    (t0 <- find_type ex ;;
     match t0 with
     | HFn _ _ _ => c <- copy G ex ;; ret (er, c)
     | _ => ret (er, ex)
     end) s = Ok (r, s') ->
    r = (er, ex) /\ s' = s.
  Proof.
    intros Hh H. rewrite (bind_ok _ _ _ _ _ (find_type_ok _ _ _ Hh)) in H.
    destruct t; cbn in H; injection H as <- <-; auto.
  Qed.

  Lemma sound_lit e t : lit_type e = Some (bty_head t) -> sound_expr e (Some t).
  Proof.
    intros L f ctx s r s' W HI H.
    destruct (lit_spec kinds G f e _ ctx s r s' L (rigid_bty t) W H) as (W' & E' & Hh). eauto 6.
  Qed.

  Ltac inv H := apply bind_inv_pres in H as (? & ? & ? & ? & ? & H); [|prs|assumption].

  (* what a successful bin_op tells *)
  Lemma bin_op_inv a b oa ob sp ctx con f s er ex s1 :
    sound_expr a oa -> sound_expr b ob -> wf s -> Inv s ->
    bin_op G (afix f) sp ctx a b con s = Ok ((er, ex), s1) ->
    wf s1 /\ ext s s1 /\ exists ta tb y,
      oa = Some ta /\ ob = Some tb /\
      head s1 ex = Some (bty_head ta) /\ head s1 y = Some (bty_head tb) /\
      ((forall g' s', wf s' -> head s' ex = Some (bty_head ta) -> head s' y = Some (bty_head tb) ->
                      notok (check_one (gfix g') sp ex (con y) s')) -> False).
  Proof.
    intros Sa Sb W HI H. unfold bin_op in H.
    apply bind_inv in H as ([ar x] & sa & Ha & H).
    destruct (Sa _ _ _ _ _ W HI Ha) as (Wa & Ea & (ta & -> & Hx)). cbn [snd] in Hx.
    apply bind_inv in H as ([br y] & sb & Hb & H).
    destruct (Sb _ _ _ _ _ Wa (Inv_ext _ _ W Ea HI) Hb) as (Wb & Eb & (tb & -> & Hy)). cbn [snd] in Hy.
    pose proof (head_keep _ _ _ _ Eb Hx (rigid_bty ta)) as Hx2.
    apply bind_inv in H as (u3 & s3 & H3 & H).
    destruct (add_constraint_spec _ _ _ _ _ Wb H3) as (W3 & E3 & Hd3 & _ & C3 & _).
    apply bind_inv in H as (u4 & s4 & H4 & H).
    destruct (add_constraint_spec _ _ _ _ _ W3 H4) as (W4 & E4 & Hd4 & _ & C4 & K4).
    apply bind_inv in H as (u5 & s5 & H5 & H).
    destruct (gp_check G PG _ _ _ _ _ W4 H5) as [W5 E5].
    apply bind_inv in H as (u6 & s6 & H6 & H).
    destruct (gp_check G PG _ _ _ _ _ W5 H6) as [W6 E6].
    apply bind_inv in H as (r' & s7 & H7 & H). injection H as _ <- <-.
    assert (P7 : pres (unify_option G sp ar br)) by prs.
    destruct (P7 _ _ _ W6 H7) as [W7 E7].
    assert (Hx4 : head s4 x = Some (bty_head ta)) by (rewrite Hd4, Hd3; assumption).
    assert (Hy4 : head s4 y = Some (bty_head tb)) by (rewrite Hd4, Hd3; assumption).
    assert (E47 : ext s4 s7) by (eapply ext_trans; [exact E5|]; eapply ext_trans; [exact E6|exact E7]).
    split; [assumption|]. split.
    { eapply ext_trans; [exact Ea|]. eapply ext_trans; [exact Eb|]. eapply ext_trans; [exact E3|].
      eapply ext_trans; [exact E4|exact E47]. }
    exists ta, tb, y. repeat split; try reflexivity.
    - eapply head_keep; [exact E47|exact Hx4|apply rigid_bty].
    - eapply head_keep; [exact E47|exact Hy4|apply rigid_bty].
    - intros Hrej. eapply (check_rejects g sp x (con y) s4 W4 (K4 _ _ C3)); [|exact H5].
      intros g' s' W' E'. apply Hrej; [assumption| |]; (eapply head_keep; [exact E'| |apply rigid_bty]); assumption.
  Qed.

  Definition lift2 (f : bty -> bty -> option bty) (oa ob : option bty) : option bty :=
    match oa, ob with Some a, Some b => f a b | _, _ => None end.

  Lemma expr_inv e ctx f s r s' :
    r_expr (afix (S f)) e ctx s = Ok (r, s') ->
    expr_body kinds G (afix f) e ctx s = Ok (r, s').
  Proof. intros H. exact H. Qed.

  (* + - * *)
  Lemma sound_arith op k a b oa ob sp :
    (op = Add /\ k = AAdd) \/ (op = Sub /\ k = ASub) \/ (op = Mul /\ k = AMul) ->
    sound_expr a oa -> sound_expr b ob ->
    sound_expr (EBinOp op a b sp) (lift2 (bin_ty op) oa ob).
  Proof.
    intros Hop Sa Sb f ctx s r s' W HI H. destruct f as [|f]; [discriminate|]. apply expr_inv in H. unfold expr_body in H.
    apply bind_inv in H as ([er ex] & s1 & H1 & H).
    assert (Hb : bin_op G (afix f) sp ctx a b
                   (match k with AAdd => CAdd | ASub => CSub | AMul => CMul | ACmp => CCmp end) s = Ok ((er, ex), s1)).
    { destruct Hop as [[-> ->]|[[-> ->]|[-> ->]]]; exact H1. }
    destruct (bin_op_inv _ _ _ _ _ _ _ _ _ _ _ _ Sa Sb W HI Hb) as (W1 & E1 & (ta & tb & y & -> & -> & Hx & Hy & Hook)).
    assert (Bk : arith_base_ok k (bty_head ta) (bty_head tb) = true).
    { destruct (arith_base_ok k (bty_head ta) (bty_head tb)) eqn:Bk; [reflexivity|]. exfalso. apply Hook.
      intros g' s0 W0 Hx0 Hy0.
      assert (N : notok (g_arith (gfix g') k sp ex y s0)) by (eapply arith_rejects; eauto using rigid_bty).
      destruct k; exact N. }
    destruct (tail_base _ _ _ _ _ _ Hx H) as [-> ->].
    split; [assumption|]. split; [assumption|]. exists ta. split; [|assumption]. cbn [lift2 snd].
    destruct Hop as [[-> ->]|[[-> ->]|[-> ->]]]; destruct ta, tb; cbn in Bk |- *; congruence.
  Qed.

  (* < > *)
  Lemma sound_cmp op a b oa ob sp :
    op = Greater \/ op = Less ->
    sound_expr a oa -> sound_expr b ob ->
    sound_expr (EBinOp op a b sp) (lift2 (bin_ty op) oa ob).
  Proof.
    intros Hop Sa Sb f ctx s r s' W HI H. destruct f as [|f]; [discriminate|]. apply expr_inv in H. unfold expr_body in H.
    apply bind_inv in H as ([er ex] & s1 & H1 & H).
    assert (Hb : bin_op_ret G (afix f) sp ctx a b CCmp HBool s = Ok ((er, ex), s1)) by (destruct Hop as [-> | ->]; exact H1).
    unfold bin_op_ret in Hb. apply bind_inv in Hb as ([r0 x0] & s2 & Hb & Hp).
    destruct (bin_op_inv _ _ _ _ _ _ _ _ _ _ _ _ Sa Sb W HI Hb) as (W2 & E2 & (ta & tb & y & -> & -> & Hx & Hy & Hook)).
    apply bind_inv in Hp as (t & s3 & Hp & Hr). injection Hr as <- <- <-.
    destruct (push_spec _ _ _ _ W2 Hp) as (W3 & E3 & Ht).
    assert (Bk : arith_base_ok ACmp (bty_head ta) (bty_head tb) = true).
    { destruct (arith_base_ok ACmp (bty_head ta) (bty_head tb)) eqn:Bk; [reflexivity|]. exfalso. apply Hook.
      intros g' s0 W0 Hx0 Hy0. cbn [check_one]. eapply arith_rejects; eauto using rigid_bty. }
    destruct (tail_base _ _ _ _ _ TB Ht H) as [-> ->].
    split; [assumption|]. split; [eapply ext_trans; eassumption|]. exists TB. split; [|assumption]. cbn [lift2].
    destruct Hop as [-> | ->]; destruct ta, tb; cbn in Bk |- *; congruence.
  Qed.

  (* <= >= *)
  Lemma sound_cmpequ op a b oa ob sp :
    op = GreaterEqual \/ op = LessEqual ->
    sound_expr a oa -> sound_expr b ob ->
    sound_expr (EBinOp op a b sp) (lift2 (bin_ty op) oa ob).
  Proof.
    intros Hop Sa Sb f ctx s r s' W HI H. destruct f as [|f]; [discriminate|]. apply expr_inv in H. unfold expr_body in H.
    apply bind_inv in H as ([er ex] & s1 & H1 & H).
    assert (Hb : bin_op_ret G (afix f) sp ctx a b CCmpEqu HBool s = Ok ((er, ex), s1)) by (destruct Hop as [-> | ->]; exact H1).
    unfold bin_op_ret in Hb. apply bind_inv in Hb as ([r0 x0] & s2 & Hb & Hp).
    destruct (bin_op_inv _ _ _ _ _ _ _ _ _ _ _ _ Sa Sb W HI Hb) as (W2 & E2 & (ta & tb & y & -> & -> & Hx & Hy & Hook)).
    apply bind_inv in Hp as (t & s3 & Hp & Hr). injection Hr as <- <- <-.
    destruct (push_spec _ _ _ _ W2 Hp) as (W3 & E3 & Ht).
    assert (Ok' : bin_ty GreaterEqual ta tb = Some TB).
    { destruct (bin_ty GreaterEqual ta tb) as [t0|] eqn:Bt; [destruct ta, tb; cbn in Bt; congruence|]. exfalso. apply Hook.
      intros g' s0 W0 Hx0 Hy0. cbn [check_one].
      destruct (bty_eqb ta tb) eqn:Eq.
      - apply bty_eqb_eq in Eq. subst tb.
        apply bind_cases; [apply pres_unify|assumption|]. intros u s4 H4 W4 E4.
        eapply (arith_rejects g' ACmp sp x0 y s4 (bty_head ta) (bty_head ta)); try assumption; try apply rigid_bty;
          try (eapply head_keep; [exact E4| |apply rigid_bty]; eassumption).
        destruct ta; cbn in Bt |- *; congruence.
      - apply bind_notok_l. eapply unify_rejects; eauto using rigid_known, rigid_bty. rewrite shape_bty. exact Eq. }
    destruct (tail_base _ _ _ _ _ TB Ht H) as [-> ->].
    split; [assumption|]. split; [eapply ext_trans; eassumption|]. exists TB. split; [|assumption]. cbn [lift2].
    destruct Hop as [-> | ->]; exact Ok'.
  Qed.

  (* == != <=> *)
  Lemma sound_equ op a b oa ob sp :
    op = Equals \/ op = NotEquals \/ op = AssertEq ->
    sound_expr a oa -> sound_expr b ob ->
    sound_expr (EBinOp op a b sp) (lift2 (bin_ty op) oa ob).
  Proof.
    intros Hop Sa Sb f ctx s r s' W HI H. destruct f as [|f]; [discriminate|]. apply expr_inv in H. unfold expr_body in H.
    apply bind_inv in H as ([er ex] & s1 & H1 & H).
    assert (Hb : bin_op_ret G (afix f) sp ctx a b CEqu HBool s = Ok ((er, ex), s1)) by (destruct Hop as [-> |[-> | ->]]; exact H1).
    unfold bin_op_ret in Hb. apply bind_inv in Hb as ([r0 x0] & s2 & Hb & Hp).
    destruct (bin_op_inv _ _ _ _ _ _ _ _ _ _ _ _ Sa Sb W HI Hb) as (W2 & E2 & (ta & tb & y & -> & -> & Hx & Hy & Hook)).
    apply bind_inv in Hp as (t & s3 & Hp & Hr). injection Hr as <- <- <-.
    destruct (push_spec _ _ _ _ W2 Hp) as (W3 & E3 & Ht).
    assert (Eq : bty_eqb ta tb = true).
    { destruct (bty_eqb ta tb) eqn:Eq; [reflexivity|]. exfalso. apply Hook.
      intros g' s0 W0 Hx0 Hy0. cbn [check_one]. apply bind_notok_l.
      eapply unify_rejects; eauto using rigid_known, rigid_bty. rewrite shape_bty. exact Eq. }
    destruct (tail_base _ _ _ _ _ TB Ht H) as [-> ->].
    split; [assumption|]. split; [eapply ext_trans; eassumption|]. exists TB. split; [|assumption]. cbn [lift2].
    destruct Hop as [-> |[-> | ->]]; cbn [bin_ty]; rewrite Eq; reflexivity.
  Qed.

  (* and / or *)
  Lemma sound_andor op a b oa ob sp :
    op = And \/ op = Or ->
    sound_expr a oa -> sound_expr b ob ->
    sound_expr (EBinOp op a b sp) (lift2 (bin_ty op) oa ob).
  Proof.
    intros Hop Sa Sb f ctx s r s' W HI H. destruct f as [|f]; [discriminate|]. apply expr_inv in H. unfold expr_body in H.
    apply bind_inv in H as ([er ex] & s1 & H1 & H).
    assert (Hb : (x <- r_expr (afix f) a ctx;;
                  (let '(a_ret, a0) := x in
                   y <- r_expr (afix f) b ctx;;
                   (let '(b_ret, b0) := y in
                    boolean <- push_type HBool;;
                    unify G sp a0 boolean;;; unify G sp b0 boolean;;;
                    r <- unify_option G sp a_ret b_ret;; ret (r, a0)))) s = Ok ((er, ex), s1))
      by (destruct Hop as [-> | ->]; exact H1).
    apply bind_inv in Hb as ([ar x] & sa & Ha & Hb).
    destruct (Sa _ _ _ _ _ W HI Ha) as (Wa & Ea & (ta & -> & Hx)). cbn [snd] in Hx.
    apply bind_inv in Hb as ([br y] & sb & Hbb & Hb).
    destruct (Sb _ _ _ _ _ Wa (Inv_ext _ _ W Ea HI) Hbb) as (Wb & Eb & (tb & -> & Hy)). cbn [snd] in Hy.
    apply bind_inv in Hb as (bo & s3 & Hp & Hb). destruct (push_spec _ _ _ _ Wb Hp) as (W3 & E3 & Hbo).
    apply bind_inv in Hb as (u4 & s4 & H4 & Hb).
    destruct (unify_result_head _ _ _ _ _ _ _ W3 H4) as (W4 & E4 & _ & Heq4).
    assert (Hx3 : head s3 x = Some (bty_head ta)).
    { eapply head_keep; [exact E3| |apply rigid_bty]. eapply head_keep; [exact Eb|exact Hx|apply rigid_bty]. }
    assert (Ta : ta = TB).
    { destruct (bty_eqb ta TB) eqn:Eq; [now apply bty_eqb_eq|]. exfalso.
      eapply (unify_rejects g sp x bo s3); eauto using rigid_known, rigid_bty; [rewrite <- (shape_bty ta TB) in Eq; exact Eq]. }
    subst ta.
    apply bind_inv in Hb as (u5 & s5 & H5 & Hb).
    destruct (unify_result_head _ _ _ _ _ _ _ W4 H5) as (W5 & E5 & _ & Heq5).
    assert (Hy4 : head s4 y = Some (bty_head tb)).
    { eapply head_keep; [exact E4| |apply rigid_bty]. eapply head_keep; [exact E3|exact Hy|apply rigid_bty]. }
    assert (Hbo4 : head s4 bo = Some HBool) by (eapply head_keep; [exact E4|exact Hbo|reflexivity]).
    assert (Tb : tb = TB).
    { destruct (bty_eqb tb TB) eqn:Eq; [now apply bty_eqb_eq|]. exfalso.
      eapply (unify_rejects g sp y bo s4); eauto using rigid_known, rigid_bty; [rewrite <- (shape_bty tb TB) in Eq; exact Eq]. }
    subst tb.
    apply bind_inv in Hb as (r' & s6 & H6 & Hb). injection Hb as _ <- <-.
    assert (P6 : pres (unify_option G sp ar br)) by prs. destruct (P6 _ _ _ W5 H6) as [W6 E6].
    assert (Hx6 : head s6 x = Some HBool).
    { eapply head_keep; [exact E6| |reflexivity]. eapply head_keep; [exact E5| |reflexivity].
      eapply head_keep; [exact E4|exact Hx3|reflexivity]. }
    destruct (tail_base _ _ _ _ _ TB Hx6 H) as [-> ->].
    split; [assumption|]. split.
    { eapply ext_trans; [exact Ea|]. eapply ext_trans; [exact Eb|]. eapply ext_trans; [exact E3|].
      eapply ext_trans; [exact E4|]. eapply ext_trans; [exact E5|exact E6]. }
    exists TB. split; [|assumption]. destruct Hop as [-> | ->]; reflexivity.
  Qed.

  (* not *)
  Lemma sound_not a oa sp :
    sound_expr a oa -> sound_expr (EUniOp Not a sp) (match oa with Some t => un_ty Not t | None => None end).
  Proof.
    intros Sa f ctx s r s' W HI H. destruct f as [|f]; [discriminate|]. apply expr_inv in H. unfold expr_body in H.
    apply bind_inv in H as ([er ex] & s1 & H1 & H). cbv beta iota in H1.
    apply bind_inv in H1 as ([ar x] & sa & Ha & H1).
    destruct (Sa _ _ _ _ _ W HI Ha) as (Wa & Ea & (ta & -> & Hx)). cbn [snd] in Hx.
    apply bind_inv in H1 as (bo & s3 & Hp & H1). destruct (push_spec _ _ _ _ Wa Hp) as (W3 & E3 & Hbo).
    apply bind_inv in H1 as (u & s4 & H4 & H1). injection H1 as <- <- <-.
    destruct (unify_result_head _ _ _ _ _ _ _ W3 H4) as (W4 & E4 & Hru & Heq4).
    assert (Hx3 : head s3 x = Some (bty_head ta)) by (eapply head_keep; [exact E3|exact Hx|apply rigid_bty]).
    assert (Ta : ta = TB).
    { destruct (bty_eqb ta TB) eqn:Eq; [now apply bty_eqb_eq|]. exfalso.
      eapply (unify_rejects g sp x bo s3); eauto using rigid_known, rigid_bty; [rewrite <- (shape_bty ta TB) in Eq; exact Eq]. }
    subst ta.
    assert (Hu : head s4 u = Some HBool).
    { rewrite Hru. eapply head_keep; [exact E4|exact Hx3|reflexivity]. }
    destruct (tail_base _ _ _ _ _ TB Hu H) as [-> ->].
    split; [assumption|]. split; [eapply ext_trans; [exact Ea|]; eapply ext_trans; eassumption|].
    exists TB. split; [reflexivity|assumption].
  Qed.

  (* unary minus *)
  Lemma sound_neg a oa sp :
    sound_expr a oa -> sound_expr (EUniOp Neg a sp) (match oa with Some t => un_ty Neg t | None => None end).
  Proof.
    intros Sa f ctx s r s' W HI H. destruct f as [|f]; [discriminate|]. apply expr_inv in H. unfold expr_body in H.
    apply bind_inv in H as ([er ex] & s1 & H1 & H). cbv beta iota in H1.
    apply bind_inv in H1 as ([ar x] & sa & Ha & H1).
    destruct (Sa _ _ _ _ _ W HI Ha) as (Wa & Ea & (ta & -> & Hx)). cbn [snd] in Hx.
    apply bind_inv in H1 as (u2 & s2 & H2 & H1).
    destruct (add_constraint_spec _ _ _ _ _ Wa H2) as (W2 & E2 & Hd2 & _ & C2 & _).
    apply bind_inv in H1 as (u3 & s3 & H3 & H1). injection H1 as <- <- <-.
    destruct (gp_check G PG _ _ _ _ _ W2 H3) as [W3 E3].
    assert (Hx2 : head s2 x = Some (bty_head ta)) by (rewrite Hd2; assumption).
    assert (Rej : (ta = TS \/ ta = TB) -> False).
    { intros Hta. eapply (check_rejects g sp x CNeg s2 W2 C2); [|exact H3]. intros g' s0 W0 E0. cbn [check_one].
      assert (Hx0 : head s0 x = Some (bty_head ta)) by (eapply head_keep; [exact E0|exact Hx2|apply rigid_bty]).
      eapply neg_rejects; [exact Hx0|apply rigid_bty|]. destruct Hta as [-> | ->]; reflexivity. }
    assert (Ta : un_ty Neg ta = Some ta) by (destruct ta; try reflexivity; exfalso; apply Rej; auto).
    assert (Hx3 : head s3 x = Some (bty_head ta)) by (eapply head_keep; [exact E3|exact Hx2|apply rigid_bty]).
    destruct (tail_base _ _ _ _ _ _ Hx3 H) as [-> ->].
    split; [assumption|]. split; [eapply ext_trans; [exact Ea|]; eapply ext_trans; eassumption|].
    exists ta. split; assumption.
  Qed.

  (* a block that consists of one expression statement: its value is the value of the expression *)
  Lemma block_single a oa sp sp1 f ctx s r ov s' :
    sound_expr a oa -> wf s -> Inv s ->
    expression_block G (afix f) sp [SStatementExpression a sp1] ctx s = Ok ((r, ov), s') ->
    wf s' /\ ext s s' /\ exists ta v, oa = Some ta /\ ov = Some v /\ head s' v = Some (bty_head ta).
  Proof.
    intros Sa W HI H. unfold expression_block in H. cbn [block_split fst snd foldM] in H.
    apply bind_inv in H as (r1 & s1 & H1 & H). injection H1 as <- <-.
    apply bind_inv in H as ([vret v] & s5 & He2 & H).
    destruct (Sa _ _ _ _ _ W HI He2) as (W5 & E5 & (ta & -> & Hv)). cbn [snd] in Hv.
    apply bind_inv in H as (r' & s6 & H6 & H). injection H as _ <- <-.
    assert (P6 : pres (unify_option G sp None vret)) by prs. destruct (P6 _ _ _ W5 H6) as [W6 E6].
    split; [assumption|]. split; [eapply ext_trans; eassumption|].
    exists ta, v. repeat split. eapply head_keep; [exact E6|exact Hv|apply rigid_bty].
  Qed.

  Definition if_ty (oc oa ob : option bty) : option bty :=
    match oc, oa, ob with
    | Some TB, Some ta, Some tb => if bty_eqb ta tb then Some ta else None
    | _, _, _ => None
    end.

  (* if c do a else b end *)
  Lemma sound_if c a b oc oa ob sp :
    sound_expr c oc -> sound_expr a oa -> sound_expr b ob ->
    sound_expr (EIf [IfBranch (Some c) [SStatementExpression a sp] sp; IfBranch None [SStatementExpression b sp] sp] sp)
               (if_ty oc oa ob).
  Proof.
    intros Sc Sa Sb f ctx s r s' W HI H. destruct f as [|f]; [discriminate|]. apply expr_inv in H. unfold expr_body in H.
    apply bind_inv in H as ([er ex] & s1 & H1 & H). cbv beta iota in H1.
    apply bind_inv in H1 as (tys & s2 & Hm & H1). cbn [mapM] in Hm.
    (* first branch *)
    apply bind_inv in Hm as ([r1 v1] & s3 & Hb1 & Hm). unfold if_branch in Hb1.
    apply bind_inv in Hb1 as (cret & s4 & Hc & Hb1).
    apply bind_inv in Hc as ([cr ct] & s5 & Hce & Hc).
    destruct (Sc _ _ _ _ _ W HI Hce) as (W5 & E5 & (tc & -> & Hct)). cbn [snd] in Hct.
    apply bind_inv in Hc as (bo & s6 & Hp & Hc). destruct (push_spec _ _ _ _ W5 Hp) as (W6 & E6 & Hbo).
    apply bind_inv in Hc as (u7 & s7 & H7 & Hc). injection Hc as <- <-.
    destruct (unify_result_head _ _ _ _ _ _ _ W6 H7) as (W7 & E7 & _ & _).
    assert (Tc : tc = TB).
    { destruct (bty_eqb TB tc) eqn:Eq; [symmetry; now apply bty_eqb_eq|]. exfalso.
      eapply (unify_rejects g _ bo ct s6 HBool (bty_head tc) W6 Hbo); eauto using rigid_known, rigid_bty.
      - eapply head_keep; [exact E6|exact Hct|apply rigid_bty].
      - rewrite <- (shape_bty TB tc) in Eq. exact Eq. }
    subst tc.
    apply bind_inv in Hb1 as ([bret bval] & s8 & Hblk & Hb1).
    assert (I7 : Inv s7)
      by (eapply Inv_ext; [exact W| |exact HI]; eapply ext_trans; [exact E5|]; eapply ext_trans; [exact E6|exact E7]).
    destruct (block_single _ _ _ _ _ _ _ _ _ _ Sa W7 I7 Hblk) as (W8 & E8 & (ta & va & -> & -> & Hva)).
    apply bind_inv in Hb1 as (ru & s9 & H9 & Hb1). injection Hb1 as <- <- <-.
    assert (P9 : pres (unify_option G sp cr bret)) by prs. destruct (P9 _ _ _ W8 H9) as [W9 E9].
    (* second branch *)
    apply bind_inv in Hm as (ys & s10 & Hm & Hr). injection Hr as <- <-.
    apply bind_inv in Hm as ([r2 v2] & s11 & Hb2 & Hm). apply bind_inv in Hm as (ys' & s12 & Hn & Hm).
    injection Hn as <- <-. injection Hm as <- <-.
    unfold if_branch in Hb2. rewrite (bind_ok (ret None) _ s9 None s9 eq_refl) in Hb2.
    apply bind_inv in Hb2 as ([bret2 bval2] & s13 & Hblk2 & Hb2).
    assert (I9 : Inv s9) by (eapply Inv_ext; [exact W7| |exact I7]; eapply ext_trans; [exact E8|exact E9]).
    destruct (block_single _ _ _ _ _ _ _ _ _ _ Sb W9 I9 Hblk2) as (W13 & E13 & (tb & vb & -> & -> & Hvb)).
    apply bind_inv in Hb2 as (ru2 & s14 & H14 & Hb2). injection Hb2 as <- <- <-.
    assert (P14 : pres (unify_option G sp None bret2)) by prs. destruct (P14 _ _ _ W13 H14) as [W14 E14].
    (* the joins *)
    cbn [last_branch] in H1.
    apply bind_inv in H1 as (rr & s15 & Hfr & H1).
    assert (Pfr : pres (foldM (fun (acc : option tyid) (b0 : option tyid * option tyid) => unify_option G sp (fst b0) acc)
                              [(ru, Some va); (ru2, Some vb)] None)) by prs.
    destruct (Pfr _ _ _ W14 Hfr) as [W15 E15].
    apply bind_inv in H1 as (value & s16 & Hfv & H1). cbn [foldM fst snd unify_option] in Hfv.
    rewrite (bind_ok (ret (Some va)) _ s15 (Some va) s15 eq_refl) in Hfv.
    apply bind_inv in Hfv as (b'' & s17 & Hu & Hfv). injection Hfv as <- <-.
    apply bind_inv in Hu as (u & s18 & Hu & Hr). injection Hr as <- <-.
    destruct (unify_result_head _ _ _ _ _ _ _ W15 Hu) as (W18 & E18 & Hru & _).
    assert (Hva15 : head s15 va = Some (bty_head ta)).
    { eapply head_keep; [exact E15| |apply rigid_bty]. eapply head_keep; [exact E14| |apply rigid_bty].
      eapply head_keep; [exact E13| |apply rigid_bty]. eapply head_keep; [exact E9|exact Hva|apply rigid_bty]. }
    assert (Hvb15 : head s15 vb = Some (bty_head tb)).
    { eapply head_keep; [exact E15| |apply rigid_bty]. eapply head_keep; [exact E14|exact Hvb|apply rigid_bty]. }
    assert (Eq : bty_eqb ta tb = true).
    { destruct (bty_eqb ta tb) eqn:Eq; [reflexivity|]. exfalso.
      eapply (unify_rejects g sp vb va s15 _ _ W15 Hvb15 Hva15); eauto using rigid_known, rigid_bty.
      rewrite shape_bty. destruct ta, tb; cbn in Eq |- *; congruence. }
    apply bty_eqb_eq in Eq. subst tb.
    apply bind_inv in H1 as (v & s19 & Hv & H1). cbn [value_or_ret] in Hv. injection Hv as <- <-. injection H1 as <- <- <-.
    assert (Hu18 : head s18 u = Some (bty_head ta)).
    { rewrite Hru. eapply head_keep; [exact E18|exact Hvb15|apply rigid_bty]. }
    destruct (tail_base _ _ _ _ _ _ Hu18 H) as [-> ->].
    split; [assumption|]. split.
    { eapply ext_trans; [exact E5|]. eapply ext_trans; [exact E6|]. eapply ext_trans; [exact E7|].
      eapply ext_trans; [exact E8|]. eapply ext_trans; [exact E9|]. eapply ext_trans; [exact E13|].
      eapply ext_trans; [exact E14|]. eapply ext_trans; [exact E15|exact E18]. }
    exists ta. split; [|assumption]. cbn [if_ty]. destruct ta; reflexivity.
  Qed.

  (* ---------------------------------------------------------------- the theorem *)

  Theorem accepted_simply_typed sp : forall e, in_fragment e = true -> sound_expr (to_expr sp e) (ty0 e).
  Proof.
    induction e as [z|r|s|b|op a IHa b IHb|op a IHa|c IHc a IHa b IHb]; cbn [to_expr ty0 in_fragment]; intros Hf;
      repeat match goal with
             | H : _ && _ = true |- _ => apply andb_true_iff in H as [? ?]
             end;
      try specialize (IHa ltac:(assumption)); try specialize (IHb ltac:(assumption)); try specialize (IHc ltac:(assumption)).
    - apply (sound_lit _ TI). reflexivity.
    - apply (sound_lit _ TF). reflexivity.
    - apply (sound_lit _ TS). reflexivity.
    - apply (sound_lit _ TB). reflexivity.
    - change (match ty0 a with Some ta => match ty0 b with Some tb => bin_ty op ta tb | None => None end | None => None end)
        with (lift2 (bin_ty op) (ty0 a) (ty0 b)).
      destruct op.
      + (* Nop: outside the fragment *) discriminate.
      + apply sound_equ; auto.
      + apply sound_equ; auto.
      + apply sound_cmp; auto.
      + apply sound_cmpequ; auto.
      + apply sound_cmp; auto.
      + apply sound_cmpequ; auto.
      + apply sound_equ; auto.
      + apply (sound_arith Add AAdd); auto.
      + apply (sound_arith Sub ASub); auto.
      + apply (sound_arith Mul AMul); auto 6.
      + (* Div: outside the fragment *) discriminate.
      + apply sound_andor; auto.
      + apply sound_andor; auto.
    - destruct op; [apply sound_neg|apply sound_not]; assumption.
    - change (match ty0 c with Some TB => match ty0 a with Some ta => match ty0 b with Some tb => if bty_eqb ta tb then Some ta else None | None => None end | None => None end | _ => None end)
        with (if_ty (ty0 c) (ty0 a) (ty0 b)) || idtac.
      apply sound_if; assumption.
  Qed.
End Accepted.

(* ================================================================== C02_E0 *)

(* If the type checker accepts a closed expression of the fragment (in any well-formed state of the type
   graph, any TypeCtx, any fuel), then the tagged evaluator does not get stuck on it: it returns a value whose
   tag is the base type that heads the class the checker assigned to the expression. *)
Theorem C02_E0 : forall farith fneg fcmp of_int scmp kinds g f ctx sp (e : e0) s r s',
  in_fragment e = true -> wf s ->
  r_expr (afix kinds (gfix g) f) (to_expr sp e) ctx s = Ok (r, s') ->
  exists v t, eval farith fneg fcmp of_int scmp e = Some v /\ tag v = t /\ head s' (snd r) = Some (bty_head t).
Proof.
  intros farith fneg fcmp of_int scmp kinds g f ctx sp e s r s' Hf W H.
  destruct (accepted_simply_typed kinds g (fun _ => True) (fun _ _ _ _ _ => I) sp e Hf f ctx s r s' W I H) as (_ & _ & (t & Ht & Hh)).
  destruct (simply_typed_sound farith fneg fcmp of_int scmp e t Ht) as (v & Hv & Tv).
  exists v, t. auto.
Qed.

(* The full statement of C02, for reference (NOT proved; refuted by the witnesses in Props/C02.v together with
   the run-time replay of the check).  `run_emitted r` stands for running the Lua text the backend emits for r
   (coq/Back, coq/Lua: LuaCore.run on preamble ++ Emit.backend r) and returning the error message, if any;
   a dynamic type error is an "attempt to ..." message of the Lua interpreter. *)
Local Open Scope string_scope.
Definition is_dynamic_type_error (msg : string) : bool := String.prefix "attempt to " msg.

Definition C02_full_statement (run_emitted : resolved -> option string) : Prop :=
  forall fuel r, typecheck fuel r = Ok tt ->
  forall msg, run_emitted r = Some msg -> is_dynamic_type_error msg = false.
