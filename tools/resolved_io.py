"""Conversion of the `phases` hook dumps (Rust Debug text of name_resolution's Var / Statement values,
parsed by rustdebug) into the S-expression text read by ocaml/rast_reader.ml, whose constructors are
those of coq/Syntax/Resolved.v."""
import rustdebug


def hx(s):
    b = s.encode("utf-8")
    return "s:" + (b.hex() if b else "-")


def st(v):
    assert isinstance(v, tuple) and v[0] == "str", v
    return hx(v[1])


def sp(v):
    assert v["_"] == "Span", v
    return "(sp %d %d %d %d %d)" % (v["file_id"], v["line_start"], v["line_end"], v["col_start"], v["col_end"])


def lst(xs):
    return "(l" + "".join(" " + x for x in xs) + ")"


def opt(v, f):
    # Option<T> prints as None / Some(x)
    if v == "None":
        return "none"
    assert v["_"] == "Some"
    return "(some %s)" % f(v["args"][0])


def bl(v):
    return "t" if v == "true" else "f"


BASE = {"void": "BVoid", "nil": "BNil", "int": "BInt", "float": "BFloat", "bool": "BBool", "str": "BStr",
        "unknown": "BUnknown", "*": "BUnknown", "Void": "BVoid", "Nil": "BNil", "Int": "BInt", "Float": "BFloat", "Bool": "BBool",
        "String": "BStr", "Unknown": "BUnknown"}


def ty(v):
    k = v["_"]
    if k == "UserType":
        r, args, s = v["args"]
        return "(TUser %d %s %s)" % (r, lst([ty(a) for a in args]), sp(s))
    if k == "Implied":
        return "(TImplied %s)" % sp(v["args"][0])
    if k == "Resolved":
        b, s = v["args"]
        if not isinstance(b, str) or b not in BASE:
            raise ValueError("unsupported resolved type %r" % (b,))
        return "(TResolved %s %s)" % (BASE[b], sp(s))
    if k == "Generic":
        return "(TGeneric %s %s)" % (st(v["args"][0]), sp(v["args"][1]))
    if k == "Tuple":
        return "(TTuple %s %s)" % (lst([ty(a) for a in v["args"][0]]), sp(v["args"][1]))
    if k == "List":
        return "(TList %s %s)" % (ty(v["args"][0]), sp(v["args"][1]))
    if k == "Fn":
        cons = []
        for key, cs in v["constraints"]["items"]:
            cons.append("(c %s %s)" % (st(key), lst(
                ["(tc %s %s)" % (st(c["name"]["name"]), lst([st(a["name"]) for a in c["args"]])) for c in cs])))
        return "(TFn %s %s %s %s %s)" % (lst(cons), lst([ty(p) for p in v["params"]]), ty(v["ret"]),
                                        bl(v["is_pure"]), sp(v["span"]))
    raise ValueError("type kind " + k)


def expr(v):
    k = v["_"]
    if k == "Read":
        return "(ERead %d %s)" % (v["var"], sp(v["span"]))
    if k == "Variant":
        return "(EVariant %d %s %s %s)" % (v["ty"], st(v["variant"]), expr(v["value"]), sp(v["span"]))
    if k == "Call":
        return "(ECall %s %s %s)" % (expr(v["function"]), lst([expr(a) for a in v["args"]]), sp(v["span"]))
    if k == "BlobAccess":
        return "(EBlobAccess %s %s %s)" % (expr(v["value"]), st(v["field"]), sp(v["span"]))
    if k == "Index":
        return "(EIndex %s %s %s)" % (expr(v["value"]), expr(v["index"]), sp(v["span"]))
    if k == "BinOp":
        return "(EBinOp %s %s %s %s)" % (v["op"], expr(v["a"]), expr(v["b"]), sp(v["span"]))
    if k == "UniOp":
        return "(EUniOp %s %s %s)" % (v["op"], expr(v["a"]), sp(v["span"]))
    if k == "If":
        return "(EIf %s %s)" % (lst(["(IfBranch %s %s %s)" % (opt(b["condition"], expr), stmts(b["body"]), sp(b["span"]))
                                     for b in v["branches"]]), sp(v["span"]))
    if k == "Case":
        brs = []
        for b in v["branches"]:
            brs.append("(CaseBranch %s %s %s %s %s)" % (
                st(b["pattern"]["name"]), sp(b["pattern"]["span"]), opt(b["variable"], lambda x: "%d" % x),
                stmts(b["body"]), sp(b["span"])))
        return "(ECase %s %s %s %s)" % (expr(v["to_match"]), lst(brs), opt(v["fall_through"], stmts), sp(v["span"]))
    if k == "Function":
        ps = ["(p %s %d %s %s)" % (st(p[0]), p[1], sp(p[2]), ty(p[3])) for p in v["params"]]
        return "(EFunction %s %s %s %s %s %s)" % (st(v["name"]), lst(ps), ty(v["ret"]), stmts(v["body"]),
                                                 bl(v["pure"]), sp(v["span"]))
    if k == "Blob":
        fs = ["(f %s %s)" % (st(f[0]), expr(f[1])) for f in v["fields"]]
        return "(EBlob %d %s %d %s)" % (v["blob"], lst(fs), v["self_var"], sp(v["span"]))
    if k == "Collection":
        return "(ECollection %s %s %s)" % ({"Tuple": "CTuple", "List": "CList"}[v["collection"]],
                                          lst([expr(a) for a in v["values"]]), sp(v["span"]))
    if k == "Float":
        f = v["args"][0]
        text = getattr(f, "text", None) or repr(f)
        if isinstance(f, int):
            text = "%d" % f
        return "(EFloat %s %s)" % (hx(text), sp(v["args"][1]))
    if k == "Int":
        return "(EInt %d %s)" % (v["args"][0], sp(v["args"][1]))
    if k == "Str":
        return "(EStr %s %s)" % (st(v["args"][0]), sp(v["args"][1]))
    if k == "Bool":
        return "(EBool %s %s)" % (bl(v["args"][0]), sp(v["args"][1]))
    if k == "Nil":
        return "(ENil %s)" % sp(v["args"][0])
    raise ValueError("expr kind " + k)


def stmts(vs):
    return lst([stmt(s) for s in vs])


def fields(m):
    items = sorted(m["items"], key=lambda kv: kv[0][1].encode("utf-8"))
    return lst(["(fd %s %s %s)" % (st(k), sp(v[0]), ty(v[1])) for k, v in items])


def stmt(v):
    k = v["_"]
    if k == "Assignment":
        return "(SAssignment %s %s %s %s)" % (v["op"], expr(v["target"]), expr(v["value"]), sp(v["span"]))
    if k == "Blob":
        return "(SBlob %s %d %s %s %s %s)" % (st(v["name"]), v["var"], sp(v["span"]),
                                             lst([st(x) for x in v["variables"]]), fields(v["fields"]),
                                             bl(v["external"]))
    if k == "Enum":
        return "(SEnum %s %d %s %s %s)" % (st(v["name"]), v["var"], sp(v["span"]),
                                          lst([st(x) for x in v["variables"]]), fields(v["variants"]))
    if k == "Definition":
        return "(SDefinition %s %d %s %s %s %s)" % (st(v["name"]), v["var"], v["kind"], ty(v["ty"]), expr(v["value"]),
                                                   sp(v["span"]))
    if k == "ExternalDefinition":
        return "(SExternalDefinition %s %d %s %s %s)" % (st(v["name"]), v["var"], v["kind"], ty(v["ty"]), sp(v["span"]))
    if k == "Loop":
        return "(SLoop %s %s %s)" % (expr(v["condition"]), stmts(v["body"]), sp(v["span"]))
    if k == "Break":
        return "(SBreak %s)" % sp(v["args"][0])
    if k == "Continue":
        return "(SContinue %s)" % sp(v["args"][0])
    if k == "Ret":
        return "(SRet %s %s)" % (opt(v["value"], expr), sp(v["span"]))
    if k == "Block":
        return "(SBlock %s %s)" % (stmts(v["statements"]), sp(v["span"]))
    if k == "StatementExpression":
        return "(SStatementExpression %s %s)" % (expr(v["value"]), sp(v["span"]))
    if k == "Unreachable":
        return "(SUnreachable %s)" % sp(v["args"][0])
    raise ValueError("stmt kind " + k)


def var(v):
    return "(var %d %s %s %s %s)" % (v["id"], st(v["name"]), sp(v["definition"]), bl(v["is_global"]), v["kind"])


def resolved_sexp(vars_dump, stmts_dump):
    """vars_dump / stmts_dump: the Debug text of Vec<Var> / Vec<Statement> from the phases hook."""
    vs = rustdebug.parse(vars_dump)
    ss = rustdebug.parse(stmts_dump)
    return "(resolved %s %s)" % (lst([var(v) for v in vs]), stmts(ss))


def parse_phases_line(line):
    """`PH k=hex ... OK|ERR ...` -> dict(name -> text), tail string"""
    import vlib
    out = {}
    parts = line.split(" ")
    tail = []
    for i, f in enumerate(parts[1:], 1):
        if "=" in f and not tail and f.split("=", 1)[0] in ("vars", "resolved", "ordered", "ir", "usage", "cycle"):
            k, v = f.split("=", 1)
            out[k] = vlib.unhex(v).decode("utf-8")
        else:
            tail = parts[i:]
            break
    return out, " ".join(tail)
