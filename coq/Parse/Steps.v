(* C07, how LONG the parser model runs.  The fuel of [go] bounds the DEPTH of the requests (ParserTotal.v:
   6 * tokens + 6 is enough), not their number.  [goc] is [go] with a counter: the number of requests answered
   (every [go (S f)] that is entered), so that the running time of the model can be measured and pinned.
   The loops that only look at tokens (skip_until, type_assignable, ...) are not requests and are not counted; each
   is linear in the tokens ahead.  Definitions and the link to [go]; the measurements are in Props/C07.v. *)
From Coq Require Import List NArith Bool Arith Lia.
From Sylt Require Import Syntax.Ast Syntax.Tok Parse.PrecTable Parse.Parser Parse.ParserProofs.
Import ListNotations.

Fixpoint runc {A : Type} (rec : req -> res out * nat) (m : prog A) : res A * nat :=
  match m with
  | Ret r => (r, 0)
  | Call q k e =>
      let '(r, n) := rec q in
      match r with
      | Ok o => let '(r', n') := runc rec (k o) in (r', n + n')
      | Err c es => let '(r', n') := runc rec (e c es) in (r', n + n')
      | Fuel => (Fuel, n)
      | Panic => (Panic, n)
      end
  end.

Fixpoint goc (T : ptab) (f : nat) (q : req) : res out * nat :=
  match f with
  | 0 => (Fuel, 0)
  | S f' => let '(r, n) := runc (goc T f') (step T q) in (r, S n)
  end.

Lemma runc_fst {A : Type} (rec : req -> res out * nat) (rec0 : req -> res out) (m : prog A) :
  (forall q, fst (rec q) = rec0 q) -> fst (runc rec m) = run rec0 m.
Proof.
  intros H. induction m as [r|q k IHk e IHe]; [reflexivity|]. cbn [runc run]. rewrite <- (H q).
  destruct (rec q) as [r n]. cbn [fst]. destruct r as [o|c es| |]; try reflexivity.
  - specialize (IHk o). destruct (runc rec (k o)). exact IHk.
  - specialize (IHe c es). destruct (runc rec (e c es)). exact IHe.
Qed.

(* the counter does not change the answer *)
Theorem goc_fst T : forall f q, fst (goc T f q) = go T f q.
Proof.
  induction f as [|f IH]; intros q; [reflexivity|]. cbn [goc go].
  pose proof (runc_fst (goc T f) (go T f) (step T q) IH) as X. destruct (runc (goc T f) (step T q)). exact X.
Qed.

(* the number of requests answered while parsing a whole file with the fuel of the totality theorem *)
Definition steps (T : ptab) (ts : list tok) : nat := snd (goc T (parse_fuel ts) (QModule [] [] 0 (init ts))).

(* start :: fn do / f(fn do (d times) / 1 / end) (d times) / end *)
Definition nested_calls (d : nat) : list tok :=
  [TIdent [115; 116]%N; TK KColonColon; TK KFn; TK KDo; TK KNewline]
  ++ concat (repeat [TIdent [102%N]; TK KLeftParen; TK KFn; TK KDo; TK KNewline] d)
  ++ [TInt 1; TK KNewline]
  ++ concat (repeat [TK KEnd; TK KRightParen; TK KNewline] d)
  ++ [TK KEnd; TK KNewline].

(* the same with a syntax error in the innermost body *)
Definition nested_calls_err (d : nat) : list tok :=
  [TIdent [115; 116]%N; TK KColonColon; TK KFn; TK KDo; TK KNewline]
  ++ concat (repeat [TIdent [102%N]; TK KLeftParen; TK KFn; TK KDo; TK KNewline] d)
  ++ [TInt 1; TK KPlus; TK KNewline]
  ++ concat (repeat [TK KEnd; TK KRightParen; TK KNewline] d)
  ++ [TK KEnd; TK KNewline].
