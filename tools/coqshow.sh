#!/bin/bash
# usage: coqshow.sh FILE LINE  -- show the proof state after line LINE of FILE (relative to coq/)
f=$1; n=$2
tmp=$(mktemp /tmp/showXXXX.v)
head -n $n /verif/coq/$f > $tmp
echo "Show." >> $tmp
cd /verif/coq && timeout 120 coqc -Q . Sylt $tmp 2>&1 | grep -v "^File\|^Error: There are pending" | head -${3:-80}
rm -f $tmp ${tmp%.v}.vo ${tmp%.v}.glob ${tmp%.v}.vok ${tmp%.v}.vos
