(* Driver for the extracted driver model (Driver/DriverModel.v `main`).

   One case per line, tab separated, strings hex-encoded ("-" = empty):
     output   N | S<hex>                         (args.output)
     require  N | S<hex>
     no_std   0|1
     verbose  <int>
     help     0|1
     args     comma separated hex list, or "." for no free argument
     compile  O<hex bytes> | E<hex>,<hex>,...   ("E." = empty error list)
     create   ok | fail:<hex os error>
     write    all | fail:<n bytes written before the error>:<hex os error>
     lua      0|1                                 (lua found on PATH)
     child    <hex stdout>:<hex stderr>:<status>  (constant child)
     usage    <hex>
     argv0    <hex>
   Output: status=<n> stdout=<hex> stderr=<hex> file=U|H<hex> child=N|<hex stdin>:<0|1 waited> *)
open Drivermodel

let rec pos_of_int n = if n = 1 then XH else if n land 1 = 1 then XI (pos_of_int (n lsr 1)) else XO (pos_of_int (n lsr 1))
let n_of_int n = if n = 0 then N0 else Npos (pos_of_int n)
let rec int_of_pos = function XH -> 1 | XO p -> 2 * int_of_pos p | XI p -> 2 * int_of_pos p + 1
let int_of_n = function N0 -> 0 | Npos p -> int_of_pos p
let rec nat_of_int n = if n <= 0 then O else S (nat_of_int (n - 1))

let unhex s : char list =
  if s = "-" then [] else
    List.init (String.length s / 2) (fun i -> Char.chr (int_of_string ("0x" ^ String.sub s (2*i) 2)))

let hex (l : char list) : string =
  if l = [] then "-" else begin
    let b = Buffer.create (2 * List.length l) in
    List.iter (fun c -> Buffer.add_string b (Printf.sprintf "%02x" (Char.code c))) l;
    Buffer.contents b end

let opt s = if s = "N" then None else Some (unhex (String.sub s 1 (String.length s - 1)))
let after_colon s = let i = String.index s ':' in String.sub s (i + 1) (String.length s - i - 1)

let () =
  let ic = open_in Sys.argv.(1) in
  (try
    while true do
      let line = input_line ic in
      match String.split_on_char '\t' line with
      | [o; r; ns; v; h; a; c; cr; wr; lua; ch; usage; argv0] ->
        let args = if a = "." then [] else List.map unhex (String.split_on_char ',' a) in
        let f = { f_output = opt o; f_require = opt r; f_no_std = (ns = "1"); f_verbosity = n_of_int (int_of_string v);
                  f_help = (h = "1"); f_args = args } in
        let comp =
          if c.[0] = 'O' then COk (unhex (String.sub c 1 (String.length c - 1)))
          else
            let rest = String.sub c 1 (String.length c - 1) in
            if rest = "." then CErr [] else CErr (List.map unhex (String.split_on_char ',' rest)) in
        let create = if cr = "ok" then CreateOk else CreateFails (unhex (after_colon cr)) in
        let write =
          if wr = "all" then WroteAll
          else (match String.split_on_char ':' wr with
                | ["fail"; n; e] -> WriteFails (nat_of_int (int_of_string n), unhex e)
                | _ -> failwith "bad write") in
        let child = match String.split_on_char ':' ch with
          | [so; se; stt] -> { c_stdout = unhex so; c_stderr = unhex se; c_status = n_of_int (int_of_string stt) }
          | _ -> failwith "bad child" in
        let w = { w_compile = comp; w_create = create; w_write = write; w_lua_found = (lua = "1");
                  w_child = (fun _ -> child); w_usage = unhex usage; w_argv0 = unhex argv0 } in
        let r = main gen_strings f w in
        let file = match r.r_file with Untouched -> "U" | Holds s -> "H" ^ hex s in
        let chd = match r.r_child with
          | None -> "N"
          | Some cr -> hex cr.cr_stdin ^ ":" ^ (if cr.cr_waited then "1" else "0") in
        Printf.printf "status=%d stdout=%s stderr=%s file=%s child=%s\n"
          (int_of_n r.r_status) (hex r.r_stdout) (hex r.r_stderr) file chd
      | _ -> print_endline "BADCASE"
    done
  with End_of_file -> ());
  close_in ic
