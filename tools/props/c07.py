"""C07 -- the compiler is total: no panic, no hang, failures are rendered errors."""
import collections

import noise_gen
import prog_gen
import vlib

GEN = ["GenPanicSites", "GenTokens"]
TRUSTED = [
    "Coq 8.16.1 kernel; vm_compute for C07_sites_covered; no axioms",
    "translator tools/gens/gen_panicsites.py (regex scan for unreachable!/panic!/assert!/unwrap/expect/remove(0) outside #[cfg(test)] and the formatter)",
    "coq/Total/DocPanicSites.v: the hand review of why each site cannot fire on the compile path",
    "the lexer model (C17) for C07_lexer_total / C07_token_bounds",
    "the totality oracle: harness `compile` with catch_unwind, a per-case watchdog thread, a 1 GiB stack, and Display of every returned error",
    "not covered: native stack exhaustion (nesting depth is bounded in the generators, as the property allows), allocation failure, wall-clock beyond the watchdog",
]
ASSUMPTIONS = ["inputs are valid UTF-8 served from an in-memory file map",
               "errors are rendered with Display; reading the offending source line from disk fails softly for in-memory files"]
EXPLANATION = ("Panic-site table regenerated from the source and proved equal to the reviewed one; lexer totality theorems; "
               "mutated/truncated/spliced programs, token soup, multi-error and multi-file projects through the real compile() with "
               "panic capture, watchdog and rendering of every error.")

NASTY = [
    # (type declarations inside functions are produced by noise_gen.plant)
    "start :: fn do\n  x := \"a\nb\" + 1\nend\n",
    "start :: fn do\n  x := 1 +\n",
    "start :: fn do\n  x := (((((((((((1\n",
    "start :: fn do\n  \"unterminated\n",
    "<<<<<<< HEAD\nstart :: fn do end\n",
    "use /\nstart :: fn do end\n",
    "use a/\nstart :: fn do end\n",
    "from / use (x)\nstart :: fn do end\n",
    "start :: fn do\n  x := 99999999999999999999\nend\n",
    "start :: fn do\n  x := 1e999\n  y := .5 + 5.\nend\n",
    "start :: fn do\n  f :: fn<a: A a b + B b b, b: A a a> -> bool do true end\nend\n",
    "start :: fn do\n  case 1 do else end end\nend\n",
    "x :: x\nstart :: fn do end\n",
    "start :: fn do\n  ö := 1\nend\n",
    "start :: fn do\n  a.b.c.d.e = 1\nend\n",
    "start :: fn do\n  f'\n",
    "start :: fn do\n  1 -> 2\nend\n",
    "\n\n\n",
    "",
    "start",
    "start :: fn",
    "start :: fn do\n  ret\nend\n",
    "start :: fn do\n  loop do break continue end\nend\n",
    "E :: enum A, A end\nstart :: fn do end\n",
    "B :: blob { a: int, a: int }\nstart :: fn do end\n",
    "B :: blob { self: int }\nstart :: fn do end\n",
]


def build(ctx):
    return True, ""


def gen_cases(ctx):
    r = vlib.rng(ctx.seed, "c07")
    n = 12000 if ctx.tier == "quick" else 300000
    st = noise_gen.stream(r, n, std_ratio=0.02)
    for s in NASTY:
        st.append(("nasty", {"/main.sy": s}, "nostd,render"))
        st.append(("nasty", {"/main.sy": s}, "std,render"))
    # mutants of generated well-typed programs (deeper into the type checker and the backend)
    for i in range(1500 if ctx.tier == "quick" else 30000):
        src = prog_gen.program(vlib.rng(ctx.seed, "c07-pg-%d" % (i // 4)), 2)
        if i % 4:
            src = noise_gen.mutate(r, src)
        st.append(("typed-mutant", {"/main.sy": src}, "nostd,render"))
    return st


def classify(x):
    k = x.split(" ")[0]
    if k == "OK":
        return None
    if k == "ERR":
        if " EMPTY" in x:
            return "compile returned Err with an empty error list"
        if "RENDERPANIC" in x:
            return "rendering an error panicked"
        return None
    if k == "PANIC":
        return "panic: " + vlib.unhex(x.split(" ")[1]).decode("utf-8", "replace")[:300]
    if k == "TIMEOUT":
        return "no result within the watchdog limit"
    return "abnormal termination: " + x[:100]


def run(ctx, cases, debug=False):
    lines = [noise_gen.case_line(f, flags=fl) for _, f, fl in cases]
    return vlib.harness("compile", lines, timeout_s=30, debug=debug)


def tie(ctx):
    cases = gen_cases(ctx)
    res = run(ctx, cases)
    bad = [(i, classify(x)) for i, x in enumerate(res) if classify(x)]
    if ctx.tier == "thorough":
        ok, out = vlib.build_harness(debug=True)
        if ok:
            sub = cases[: 40000]
            res2 = run(ctx, sub, debug=True)
            bad += [(i, "debug build: " + classify(x)) for i, x in enumerate(res2) if classify(x)]
    dist = collections.Counter(c[0] for c in cases)
    outcome = collections.Counter(x.split(" ")[0] for x in res)
    kinds = collections.Counter()
    for x in res:
        if x.startswith("ERR"):
            for e in x.split(" ")[1:]:
                kinds[e.split("|")[0]] += 1
    ctx.c07_bad = [(cases[i], why) for i, why in bad]
    mism = [{"class": cases[i][0], "files": cases[i][1], "what": why} for i, why in bad[:5]]
    distinct = len(set(noise_gen.case_line(f, flags=fl) for _, f, fl in cases if sum(len(s) for s in f.values()) > 20))
    samples = [{"class": cases[i][0], "files": {k: v[:300] for k, v in cases[i][1].items()}, "result": res[i][:120]}
               for i in (1, len(cases) // 2, len(cases) - 1)]
    return {"name": "totality", "ok": not bad, "mismatches": mism, "evaluations": len(cases), "distinct_nontrivial": distinct,
            "rule": "mutated/truncated/spliced programs from /repo/tests, token soup, multi-error programs, multi-file projects with "
                    "missing/conflicting/cyclic imports, hand-written nasty inputs, mutants of generated well-typed programs; with and "
                    "without std; every returned error is rendered; non-trivial = more than 20 bytes of source; distinct by sources+flags",
            "samples": samples,
            "distribution": {"classes": dict(dist), "outcomes": dict(outcome), "error_kinds": dict(kinds.most_common(25))}}


def failing(ctx, file_sets, flags):
    res = vlib.harness("compile", [noise_gen.case_line(f, flags=flags) for f in file_sets], timeout_s=30)
    return [classify(x) is not None for x in res]


def search(ctx):
    bad = getattr(ctx, "c07_bad", None)
    if not bad:
        return None
    bad.sort(key=lambda b: sum(len(s) for s in b[0][1].values()))
    (cls, files, flags), why = bad[0]
    if len(files) == 1:
        (path, src), = files.items()
        toks = noise_gen.tokens_of(src)
        small = vlib.shrink_seq(toks, lambda cands: failing(ctx, [{path: "".join(c)} for c in cands], flags), max_rounds=80)
        files = {path: "".join(small)}
    line = noise_gen.case_line(files, flags=flags)
    res = vlib.harness("compile", [line], timeout_s=30)[0]
    return {"class": cls, "files": files, "flags": flags, "what": classify(res) or why, "case_line": line,
            "replay_cmd": "write case_line to a file F and run `%s compile F`" % vlib.HARNESS_BIN,
            "failing_inputs_found": len(bad)}


def replay_known(ctx, kf):
    return False


def replay(ctx, rep):
    fi = rep.get("failing_input") or {}
    if not fi:
        print("nothing to replay")
        return 0
    vlib.build_harness()
    res = vlib.harness("compile", [fi["case_line"]], timeout_s=30)[0]
    print(res[:300])
    return 1 if classify(res) else 0
