(* The command-line driver as reviewed BY HAND.  Props/C20.v proves (vm_compute) that what
   tools/gens/gen_driver.py extracts from sylt/src/lib.rs, sylt/src/main.rs and the two Display arms
   of sylt-common/src/error.rs on this run equals the tables below, so an edit to the driver (a new
   option, another order of compile / create / write, `write` becoming `write_all`, another message)
   breaks the obligation `C20_driver_table`; the oracle is then run and this file and
   Driver/DriverModel.v have to be reviewed again.

   How each reviewed fact is used by the model (Driver/DriverModel.v):

   options        `output` -> f_output, `require` -> f_require, `no_std` -> f_no_std, `verbosity` ->
                  f_verbosity (read nowhere), `help` -> f_help, `args` -> f_args.  `dump_tree` (prints the
                  tree before compiling) and `trace_output` (feature "timed", not compiled) are outside
                  the model.  gumdrop derives the short names -d -n -h and the long name --help itself.
   output_arms    the three arms of `match &args.output` = the three constructors of output_mode:
                  None            spawn `lua` (panic through expect when that fails) with stdin and stderr
                                  piped and stdout inherited, compile INTO the child's stdin (`?` returns the
                                  errors; the child is then not waited for), drop stdin, wait, and fail with
                                  LuaError exactly when stderr is not empty (the status is not read);
                  Some("-")       compile into io::stdout();
                  Some(s)         compile into a buffer (`?` returns the errors BEFORE the file is touched),
                                  File::create (expect: a failure is a panic; FILE is truncated from here on),
                                  `write_all` (reviewed again after /repo ddb4597: before, a single `write`
                                  whose short count was success), its error becomes IOError.
   compile_uses   compile_with_reader_to_writer reads args.args (first element = the file), no_std
                  (std is bundled iff not no_std), dump_tree, require: so the compile outcome is a function of
                  (file, no_std, require) and the sources, which is how the tie computes `w_compile`.
   main_skeleton  parse (gumdrop: --help prints the usage and exits 0 there, so the `if args.help` arm is
                  never reached with help set), no free argument -> usage + Err("No file to run"), otherwise
                  errs = run_file(..).err() or empty; empty -> Ok (status 0); else every error is printed with
                  println! in order and main returns Err("<n> errors occured.") (status 1, the message goes
                  to stderr as `Error: "<...>"`).
*)
From Coq Require Import String List.
From Sylt Require Import Driver.DriverModel.
Import ListNotations.
Local Open Scope string_scope.

Definition doc_options : list (string * string * string * string * string * string) := [
  ("dump_tree", "bool", "dump-tree", "", "", "");
  ("output", "Option<PathBuf>", "output", "o", "FILE", "");
  ("trace_output", "Option<PathBuf>", "trace", "", "", "cfg(feature = ""timed"")");
  ("require", "Option<String>", "require", "r", "FILE", "");
  ("no_std", "bool", "no-std", "", "", "");
  ("verbosity", "u32", "", "v", "", "count no_long");
  ("help", "bool", "", "", "", "");
  ("args", "Vec<String>", "", "", "", "free")
].

Definition doc_output_arms : list (string * list string * string) := [
  ("None",
     ["command:lua"; "child-stdin:piped"; "child-stderr:piped"; "spawn"; "expect:Failed to start lua - make sure it's installed correctly"; "unwrap"; "compile-into:&mut stdin:?"; "drop:stdin"; "wait_with_output"; "unwrap"; "if:!output.stderr.is_empty()"; "return-err:LuaError"; "unwrap"],
     "{ use std::process::{Command, Stdio}; let mut child = Command::new(""lua"") .stdin(Stdio::piped()) .stderr(Stdio::piped()) .spawn() .expect(""Failed to start lua - make sure it's installed correctly""); let mut stdin = child.stdin.take().unwrap(); compile_with_reader_to_writer(args, reader, &mut stdin)?; drop(stdin); let output = child.wait_with_output().unwrap(); if !output.stderr.is_empty() { return Err(vec![Error::LuaError( String::from_utf8(output.stderr).unwrap(), )]); } }");
  ("Some(s) if s == &Path::new(""-"")",
     ["compile-into:io::stdout().by_ref():?"],
     "{ use std::io; compile_with_reader_to_writer(args, reader, io::stdout().by_ref())?; }");
  ("Some(s)",
     ["compile-into:buf.by_ref():?"; "create:s"; "expect-format:Failed to create file: {}"; "write_all:&buf"; "map_err:IOError"],
     "{ use std::fs::File; let mut buf = Vec::new(); compile_with_reader_to_writer(args, reader, buf.by_ref())?; File::create(s) .expect(&format!(""Failed to create file: {}"", s.display())) .write_all(&buf) .map_err(|e| vec![Error::IOError(Rc::new(e))])?; }")
].

Definition doc_run_file_rest : string := "{ <match> ; Ok(()) }".

Definition doc_compile_uses : list string := ["args"; "dump_tree"; "no_std"; "require"].
Definition compile_body : string := "{ let file = PathBuf::from(args.args.first().expect(""No file to run"")); let tree = sylt_parser::tree(&file, reader, !args.no_std)?; if args.dump_tree { println!(""{}"", tree); } sylt_compiler::compile(write_file, tree, args.require.as_ref()) }".
Definition doc_compile_body : string := "{ let file = PathBuf::from(args.args.first().expect(""No file to run"")); let tree = sylt_parser::tree(&file, reader, !args.no_std)?; if args.dump_tree { println!(""{}"", tree); } sylt_compiler::compile(write_file, tree, args.require.as_ref()) }".

Definition doc_main_skeleton : list string := [
  "parse_args_default_or_exit";
  "if:args.help";
  "println:{}:Args::usage()";
  "return-ok";
  "if:args.args.len() == 0";
  "println:{}:Args::usage()";
  "return-err-string:No file to run";
  "errs=run_file.err-or-empty";
  "if:errs.is_empty()";
  "ok";
  "else";
  "for:err:errs.iter()";
  "println:{}:err";
  "err-format:{} errors occured.:errs.len()"
].
Definition main_body : string := "{ let args = Args::parse_args_default_or_exit(); if args.help { println!(""{}"", Args::usage()); return Ok(()); } if args.args.len() == 0 { println!(""{}"", Args::usage()); return Err(""No file to run"".into()); } sylt_macro::timed_set_t0!(); let errs = sylt::run_file(&args).err().unwrap_or_else(Vec::new); <cfg-timed-block> if errs.is_empty() { Ok(()) } else { for err in errs.iter() { println!(""{}"", err); } Err(format!(""{} errors occured."", errs.len())) } }".
Definition doc_main_body : string := "{ let args = Args::parse_args_default_or_exit(); if args.help { println!(""{}"", Args::usage()); return Ok(()); } if args.args.len() == 0 { println!(""{}"", Args::usage()); return Err(""No file to run"".into()); } sylt_macro::timed_set_t0!(); let errs = sylt::run_file(&args).err().unwrap_or_else(Vec::new); <cfg-timed-block> if errs.is_empty() { Ok(()) } else { for err in errs.iter() { println!(""{}"", err); } Err(format!(""{} errors occured."", errs.len())) } }".

Definition doc_expect_messages : list (string * string) := [
  ("lib.rs", "No file to run");
  ("lib.rs", "Failed to start lua - make sure it's installed correctly");
  ("lib.rs", "Failed to create file: {}")
].

Definition doc_strings : strings := {| s_no_file := "No file to run"; s_errors_suffix := " errors occured.";
  s_expect_lua := "Failed to start lua - make sure it's installed correctly"; s_expect_create := "Failed to create file: ";
  s_lua_error := "Lua failed to run, 
:stderr:
"; s_io_error := "Unknown IO error: " |}.

(* ---- decidable equality of the regenerated tables with the reviewed ones ---- *)
Fixpoint list_eqb {A} (eqb : A -> A -> bool) (a b : list A) : bool :=
  match a, b with
  | [], [] => true
  | x :: a', y :: b' => eqb x y && list_eqb eqb a' b'
  | _, _ => false
  end.

Definition opt_row_eqb (a b : string * string * string * string * string * string) : bool :=
  let '(a1, a2, a3, a4, a5, a6) := a in
  let '(b1, b2, b3, b4, b5, b6) := b in
  String.eqb a1 b1 && String.eqb a2 b2 && String.eqb a3 b3 && String.eqb a4 b4 && String.eqb a5 b5 && String.eqb a6 b6.

Definition arm_eqb (a b : string * list string * string) : bool :=
  let '(a1, a2, a3) := a in
  let '(b1, b2, b3) := b in
  String.eqb a1 b1 && list_eqb String.eqb a2 b2 && String.eqb a3 b3.

Definition pair_eqb (a b : string * string) : bool := String.eqb (fst a) (fst b) && String.eqb (snd a) (snd b).

Definition strings_eqb (a b : strings) : bool :=
  String.eqb (s_no_file a) (s_no_file b) && String.eqb (s_errors_suffix a) (s_errors_suffix b)
  && String.eqb (s_expect_lua a) (s_expect_lua b) && String.eqb (s_expect_create a) (s_expect_create b)
  && String.eqb (s_lua_error a) (s_lua_error b) && String.eqb (s_io_error a) (s_io_error b).

Definition driver_table_eqb
  (options : list (string * string * string * string * string * string))
  (output_arms : list (string * list string * string))
  (run_file_rest : string) (compile_uses : list string) (compile_body : string)
  (main_skeleton : list string) (main_body : string)
  (expect_messages : list (string * string)) (st : strings) : bool :=
  list_eqb opt_row_eqb options doc_options
  && list_eqb arm_eqb output_arms doc_output_arms
  && String.eqb run_file_rest doc_run_file_rest
  && list_eqb String.eqb compile_uses doc_compile_uses
  && String.eqb compile_body doc_compile_body
  && list_eqb String.eqb main_skeleton doc_main_skeleton
  && String.eqb main_body doc_main_body
  && list_eqb pair_eqb expect_messages doc_expect_messages
  && strings_eqb st doc_strings.
