(* C03 (round-5 seed): `fn union` keeps the constraints of BOTH classes, whichever root survives.
   The root with the smaller size is hung under the other one and its constraints are inserted into the surviving root
   (TyGraph.union); a variant that takes the constraints before the by-size swap loses those of the smaller class. *)
From Coq Require Import String List NArith ZArith PArith Bool Lia FMapPositive.
From Sylt Require Import Syntax.Resolved Types.TyGraph Types.Tc Types.TcInv Types.Reject Types.Mismatch Types.Complete1.
Import ListNotations.
Local Open Scope positive_scope.
Local Open Scope tc_scope.

Lemma has_con_root s a c : has_con s a c <-> exists r n, rep s a = Some r /\ lk s r = Some n /\ In c (ncons n).
Proof. reflexivity. Qed.

(* after `union a b` every constraint of the class of a and every constraint of the class of b is a constraint of the
   (one) class of a and b *)
Theorem union_keeps_constraints a b s u s' c :
  wf s -> union a b s = Ok (u, s') -> has_con s a c \/ has_con s b c -> has_con s' a c /\ has_con s' b c.
Proof.
  intros W H Hc. unfold union in H.
  apply bind_inv in H as (ra & s1 & H1 & H). apply find_inv in H1 as [-> Ra].
  apply bind_inv in H as (rb & s2 & H2 & H). apply find_inv in H2 as [-> Rb].
  destruct (Pos.eqb_spec ra rb) as [->|Ne].
  - injection H as _ <-.
    assert (X : exists n, lk s rb = Some n /\ In c (ncons n)).
    { destruct Hc as [(r & n & Hr & Hn & Hi)|(r & n & Hr & Hn & Hi)]; rewrite ?Ra, ?Rb in Hr; injection Hr as <-; eauto. }
    destruct X as (n & Hn & Hi). split; exists rb, n; auto.
  - apply bind_inv in H as (na & s3 & H3 & H). apply get_node_inv in H3 as [-> La].
    apply bind_inv in H as (nb & s4 & H4 & H). apply get_node_inv in H4 as [-> Lb].
    destruct (root_of _ _ _ W Ra) as (na' & La' & Ea). rewrite La in La'. injection La' as <-.
    destruct (root_of _ _ _ W Rb) as (nb' & Lb' & Eb). rewrite Lb in Lb'. injection Lb' as <-.
    assert (Hin : In c (ncons na) \/ In c (ncons nb)).
    { destruct Hc as [(r & n & Hr & Hn & Hi)|(r & n & Hr & Hn & Hi)].
      - rewrite Ra in Hr. injection Hr as <-. rewrite La in Hn. injection Hn as <-. now left.
      - rewrite Rb in Hr. injection Hr as <-. rewrite Lb in Hn. injection Hn as <-. now right. }
    destruct (N.ltb (nsize na) (nsize nb)).
    + (* rb survives *)
      injection H as _ H. change (union_st rb ra nb na s = s') in H. subst s'.
      assert (Ne' : rb <> ra) by congruence.
      assert (Lr : lk (union_st rb ra nb na s) rb
                   = Some (mkNode (nty nb) rb (nsize nb + nsize na)%N (fold_left (fun acc c => cinsert c acc) (ncons na) (ncons nb))))
        by (rewrite lk_union, Pos.eqb_refl; reflexivity).
      assert (Ic : In c (fold_left (fun acc c => cinsert c acc) (ncons na) (ncons nb)))
        by (destruct Hin; [now apply fold_cinsert_new|now apply fold_cinsert_acc]).
      split; eexists rb, _; (split; [|split; [exact Lr|exact Ic]]);
        rewrite (rep_union rb ra nb na s _ Lb Eb Ne'); rewrite ?Ra, ?Rb; cbn [option_map];
        [rewrite Pos.eqb_refl; reflexivity|destruct (Pos.eqb_spec rb ra); [contradiction|reflexivity]].
    + (* ra survives *)
      injection H as _ H. change (union_st ra rb na nb s = s') in H. subst s'.
      assert (Lr : lk (union_st ra rb na nb s) ra
                   = Some (mkNode (nty na) ra (nsize na + nsize nb)%N (fold_left (fun acc c => cinsert c acc) (ncons nb) (ncons na))))
        by (rewrite lk_union, Pos.eqb_refl; reflexivity).
      assert (Ic : In c (fold_left (fun acc c => cinsert c acc) (ncons nb) (ncons na)))
        by (destruct Hin; [now apply fold_cinsert_acc|now apply fold_cinsert_new]).
      split; eexists ra, _; (split; [|split; [exact Lr|exact Ic]]);
        rewrite (rep_union ra rb na nb s _ La Ea Ne); rewrite ?Ra, ?Rb; cbn [option_map];
        [destruct (Pos.eqb_spec ra rb); [contradiction|reflexivity]|rewrite Pos.eqb_refl; reflexivity].
Qed.

