(* C19: laws of the run-time operators of Sem/Runtime.v (the model of preamble.lua's metamethods under
   Lua 5.1 dispatch), for ALL values of ALL nested composite types, by induction on the type.
   Laws that are false of the faithful model are refuted with a witness (`..._refuted`). *)
From Coq Require Import String Ascii List NArith ZArith QArith Qreduction Bool Lia.
From Sylt Require Import Lua.LuaNum Sem.Values Sem.Runtime Sem.Containers.
Import ListNotations.

(* ------------------------------------------------------------------------------------------------ *)
(* induction on types with the nested lists                                                          *)

Section TyInd.
  Variable P : ty -> Prop.
  Hypothesis HNil : P TNil.
  Hypothesis HBool : P TBool.
  Hypothesis HInt : P TInt.
  Hypothesis HFloat : P TFloat.
  Hypothesis HStr : P TStr.
  Hypothesis HFun : P TFun.
  Hypothesis HTuple : forall ts, Forall P ts -> P (TTuple ts).
  Hypothesis HList : forall t, P t -> P (TList t).
  Hypothesis HBlob : forall fs, Forall (fun nt => P (snd nt)) fs -> P (TBlob fs).
  Hypothesis HEnum : forall vs, Forall (fun nt => P (snd nt)) vs -> P (TEnum vs).

  Fixpoint ty_ind' (t : ty) : P t :=
    match t with
    | TNil => HNil | TBool => HBool | TInt => HInt | TFloat => HFloat | TStr => HStr | TFun => HFun
    | TTuple ts =>
        HTuple ts ((fix go (ts : list ty) : Forall P ts :=
                      match ts with
                      | [] => Forall_nil _
                      | t' :: ts' => Forall_cons _ (ty_ind' t') (go ts')
                      end) ts)
    | TList t' => HList t' (ty_ind' t')
    | TBlob fs =>
        HBlob fs ((fix go (fs : list (string * ty)) : Forall (fun nt => P (snd nt)) fs :=
                     match fs with
                     | [] => Forall_nil _
                     | nt :: fs' => Forall_cons _ (ty_ind' (snd nt)) (go fs')
                     end) fs)
    | TEnum vs =>
        HEnum vs ((fix go (fs : list (string * ty)) : Forall (fun nt => P (snd nt)) fs :=
                     match fs with
                     | [] => Forall_nil _
                     | nt :: fs' => Forall_cons _ (ty_ind' (snd nt)) (go fs')
                     end) vs)
    end.
End TyInd.

(* ------------------------------------------------------------------------------------------------ *)
(* numbers                                                                                           *)

Lemma q_wf_int : forall z, q_wf (z # 1).
Proof.
  intros z. unfold q_wf, Qred.
  generalize (Z.ggcd_gcd z 1) (Z.ggcd_correct_divisors z 1).
  destruct (Z.ggcd z 1) as [g [a b]]. simpl. intros Hg [Ha Hb].
  rewrite Z.gcd_1_r in Hg. subst g. rewrite Z.mul_1_l in Ha, Hb. subst. reflexivity.
Qed.

Lemma q_wf_Qred : forall q, q_wf (Qred q).
Proof. intros q. unfold q_wf. apply Qred_complete. apply Qred_correct. Qed.

Lemma q_eqb_eq : forall p q, q_eqb p q = true <-> p = q.
Proof.
  intros [a b] [c d]. unfold q_eqb. simpl. rewrite andb_true_iff, Z.eqb_eq, Pos.eqb_eq.
  split; [intros [-> ->]; reflexivity | intros H; inversion H; auto].
Qed.

Lemma q_wf_Qeq : forall p q, q_wf p -> q_wf q -> p == q -> p = q.
Proof. intros p q Hp Hq H. rewrite <- Hp, <- Hq. apply Qred_complete. exact H. Qed.

Lemma q_eqb_Qeq : forall p q, q_wf p -> q_wf q -> (q_eqb p q = true <-> p == q).
Proof.
  intros p q Hp Hq. rewrite q_eqb_eq. split; [intros ->; reflexivity | apply q_wf_Qeq; assumption].
Qed.

Lemma q_is_int_den : forall q, q_is_int q = true -> Qden q = 1%positive.
Proof. intros q. unfold q_is_int. apply Pos.eqb_eq. Qed.

Lemma q_ltb_Qlt : forall p q, q_ltb p q = true <-> p < q.
Proof.
  intros p q. unfold q_ltb, Qlt. destruct (q_both_int p q) eqn:E.
  - unfold q_both_int in E. apply andb_true_iff in E. destruct E as [E1 E2].
    rewrite (q_is_int_den _ E1), (q_is_int_den _ E2), !Z.mul_1_r. apply Z.ltb_lt.
  - apply Z.ltb_lt.
Qed.

Lemma q_leb_Qle : forall p q, q_leb p q = true <-> p <= q.
Proof.
  intros p q. unfold q_leb, Qle. destruct (q_both_int p q) eqn:E.
  - unfold q_both_int in E. apply andb_true_iff in E. destruct E as [E1 E2].
    rewrite (q_is_int_den _ E1), (q_is_int_den _ E2), !Z.mul_1_r. apply Z.leb_le.
  - apply Z.leb_le.
Qed.

(* ------------------------------------------------------------------------------------------------ *)
(* strings                                                                                           *)

Lemma N_of_ascii_inj : forall c d, N_of_ascii c = N_of_ascii d -> c = d.
Proof. intros c d H. rewrite <- (ascii_N_embedding c), <- (ascii_N_embedding d), H. reflexivity. Qed.

Lemma str_ltb_lt : forall s t, str_ltb s t = true <-> str_lt s t.
Proof.
  induction s as [|c s IH]; intros [|d t]; simpl.
  - split; [discriminate | intros H; inversion H].
  - split; [intros _; constructor | reflexivity].
  - split; [discriminate | intros H; inversion H].
  - destruct (N.ltb_spec (N_of_ascii c) (N_of_ascii d)) as [H|H].
    + split; [intros _; constructor; exact H | reflexivity].
    + destruct (N.ltb_spec (N_of_ascii d) (N_of_ascii c)) as [H'|H'].
      * split; [discriminate | intros X; inversion X; subst; lia].
      * assert (c = d) by (apply N_of_ascii_inj; lia). subst d. rewrite IH.
        split; [intros X; constructor; exact X | intros X; inversion X; subst; [lia | assumption]].
Qed.

Lemma str_lt_irrefl : forall s, ~ str_lt s s.
Proof. induction s; intros H; inversion H; subst; [lia | auto]. Qed.

Lemma str_lt_trans : forall s t u, str_lt s t -> str_lt t u -> str_lt s u.
Proof.
  intros s t u H. revert u. induction H; intros u H2; inversion H2; subst.
  - constructor.
  - constructor.
  - apply str_lt_head. lia.
  - apply str_lt_head. assumption.
  - apply str_lt_head. assumption.
  - apply str_lt_tail. auto.
Qed.

Lemma str_lt_total : forall s t, str_lt s t \/ s = t \/ str_lt t s.
Proof.
  induction s as [|c s IH]; intros [|d t].
  - auto.
  - left. constructor.
  - right. right. constructor.
  - destruct (N.lt_total (N_of_ascii c) (N_of_ascii d)) as [H|[H|H]].
    + left. constructor. exact H.
    + apply N_of_ascii_inj in H. subst d. destruct (IH t) as [H|[H|H]].
      * left. apply str_lt_tail. exact H.
      * subst. auto.
      * right. right. apply str_lt_tail. exact H.
    + right. right. constructor. exact H.
Qed.

(* ------------------------------------------------------------------------------------------------ *)
(* combinators                                                                                       *)

Lemma allP_Forall : forall {A} (P : A -> Prop) l, allP P l <-> Forall P l.
Proof.
  induction l; simpl; split; intros H; auto.
  - destruct H. constructor; [assumption | apply IHl; assumption].
  - inversion H; subst. split; [assumption | apply IHl; assumption].
Qed.

Lemma tbl_get_In : forall {A} k (x : A) es, tbl_get k es = Some x -> In (k, x) es.
Proof.
  induction es as [|[k' v] es IH]; simpl; [discriminate|].
  destruct (String.eqb_spec k k').
  - intros H. inversion H; subst. auto.
  - auto.
Qed.

Lemma In_tbl_get : forall {A} k (x : A) es, NoDup (map fst es) -> In (k, x) es -> tbl_get k es = Some x.
Proof.
  induction es as [|[k' v] es IH]; simpl; intros ND HI; [contradiction|].
  inversion ND; subst. destruct HI as [HI|HI].
  - inversion HI; subst. rewrite String.eqb_refl. reflexivity.
  - destruct (String.eqb_spec k k').
    + subst. exfalso. apply H1. change k' with (fst (k', x)). apply in_map. exact HI.
    + auto.
Qed.

Lemma tbl_get_None : forall {A} k (es : list (string * A)), tbl_get k es = None <-> ~ In k (map fst es).
Proof.
  induction es as [|[k' v] es IH]; simpl.
  - split; auto.
  - destruct (String.eqb_spec k k').
    + split; [discriminate | intros H; exfalso; apply H; auto].
    + rewrite IH. split; [intros H [E|E]; [congruence | auto] | intros H E; apply H; auto].
Qed.

Lemma tbl_mem_In : forall {A} k (es : list (string * A)), tbl_mem k es = true <-> In k (map fst es).
Proof.
  intros A k es. unfold tbl_mem. destruct (tbl_get k es) eqn:E.
  - split; auto. intros _. apply tbl_get_In in E. change k with (fst (k, a)). apply in_map. exact E.
  - apply tbl_get_None in E. split; [discriminate | contradiction].
Qed.

Lemma tbl_all_spec : forall {A B} (f : A -> B -> bool) fb fa,
  tbl_all f fb fa = true <->
  (forall k x, In (k, x) fa -> exists y, tbl_get k fb = Some y /\ f x y = true).
Proof.
  induction fa as [|[k x] fa IH]; simpl.
  - split; [intros _ ? ? [] | reflexivity].
  - split.
    + destruct (tbl_get k fb) as [y|] eqn:E; [|discriminate].
      destruct (f x y) eqn:F; [|discriminate]. intros H k' x' [HI|HI].
      * inversion HI; subst. eauto.
      * apply IH; assumption.
    + intros H. destruct (H k x (or_introl eq_refl)) as [y [E F]]. rewrite E, F.
      apply IH. intros. apply H. auto.
Qed.

(* ------------------------------------------------------------------------------------------------ *)
(* == decides structural equality                                                                    *)

Definition eq_struct_at (t : ty) : Prop :=
  forall a b, vty t a -> vty t b -> (rt_eq a b = true <-> seq_t t a b).

Lemma eq_struct_tuple : forall ts, Forall eq_struct_at ts ->
  forall xs ys, all2 vty ts xs -> all2 vty ts ys ->
  (zip_all rt_eq xs ys = true <-> all3 seq_t ts xs ys).
Proof.
  induction 1 as [|t ts Ht Hts IH]; intros [|x xs] [|y ys]; simpl; try tauto.
  intros [Hx Hxs] [Hy Hys]. specialize (Ht x y Hx Hy). specialize (IH xs ys Hxs Hys).
  destruct (rt_eq x y).
  - rewrite IH. tauto.
  - split; [discriminate|]. intros [H _]. apply Ht in H. discriminate.
Qed.

Lemma eq_struct_list : forall t, eq_struct_at t ->
  forall xs ys, allP (vty t) xs -> allP (vty t) ys ->
  ((if Nat.eqb (length xs) (length ys) then zip_all rt_eq xs ys else false) = true <-> all2 (seq_t t) xs ys).
Proof.
  intros t Ht. induction xs as [|x xs IH]; intros [|y ys]; simpl.
  - tauto.
  - intros _ _. split; [discriminate | tauto].
  - intros _ _. split; [discriminate | tauto].
  - intros [Hx Hxs] [Hy Hys]. specialize (Ht x y Hx Hy). specialize (IH ys Hxs Hys).
    destruct (Nat.eqb (length xs) (length ys)).
    + destruct (rt_eq x y).
      * rewrite IH. tauto.
      * split; [discriminate|]. intros [H _]. apply Ht in H. discriminate.
    + split; [discriminate|]. intros [_ H]. apply IH in H. discriminate.
Qed.

Lemma eq_struct_blob : forall fs, Forall (fun nt => eq_struct_at (snd nt)) fs ->
  forall fa fb, vty (TBlob fs) (VBlob fa) -> vty (TBlob fs) (VBlob fb) ->
  (rt_eq (VBlob fa) (VBlob fb) = true <-> seq_t (TBlob fs) (VBlob fa) (VBlob fb)).
Proof.
  intros fs IH fa fb [NDa [Ka Fa]] [NDb [Kb Fb]].
  change (rt_eq (VBlob fa) (VBlob fb)) with
    (tbl_all rt_eq fb fa && forallb (fun kv => tbl_mem (fst kv) fa) fb).
  change (seq_t (TBlob fs) (VBlob fa) (VBlob fb)) with
    (allP (fun nt => match tbl_get (fst nt) fa, tbl_get (fst nt) fb with
                     | Some x, Some y => seq_t (snd nt) x y
                     | _, _ => False
                     end) fs).
  rewrite allP_Forall in Fa, Fb. rewrite allP_Forall, andb_true_iff, tbl_all_spec, forallb_forall.
  rewrite Forall_forall in IH, Fa, Fb. rewrite Forall_forall.
  split.
  - intros [H1 _] [n t] Hin. simpl.
    destruct (Fa _ Hin) as [x [Ex Tx]]. destruct (Fb _ Hin) as [y [Ey Ty]]. simpl in *.
    rewrite Ex, Ey. destruct (H1 n x (tbl_get_In _ _ _ Ex)) as [y' [Ey' Q]].
    rewrite Ey in Ey'. inversion Ey'; subst y'. apply (IH _ Hin x y Tx Ty). exact Q.
  - intros H. split.
    + intros k x Hin.
      assert (Hk : In k (map fst fs)).
      { apply Ka. change k with (fst (k, x)). apply in_map. exact Hin. }
      apply in_map_iff in Hk. destruct Hk as [[n t] [E Hnt]]. simpl in E. subst n.
      specialize (H _ Hnt). simpl in H.
      destruct (Fa _ Hnt) as [x0 [Ex Tx]]. destruct (Fb _ Hnt) as [y [Ey Ty]]. simpl in *.
      rewrite Ex, Ey in H. rewrite (In_tbl_get _ _ _ NDa Hin) in Ex. inversion Ex; subst x0.
      exists y. split; [exact Ey|]. apply (IH _ Hnt x y Tx Ty). exact H.
    + intros [k y] Hin. simpl. apply tbl_mem_In. apply Ka. apply Kb.
      change k with (fst (k, y)). apply in_map. exact Hin.
Qed.

Lemma eq_struct_enum : forall vars, Forall (fun nt => eq_struct_at (snd nt)) vars ->
  forall tag p q, with_assoc (fun t' => vty t' p) tag vars -> with_assoc (fun t' => vty t' q) tag vars ->
  (rt_eq p q = true <-> with_assoc (fun t' => seq_t t' p q) tag vars).
Proof.
  induction 1 as [|[n t] vars Ht _ IH]; intros tag p q; simpl; [tauto|].
  destruct (String.eqb tag n); [apply Ht | apply IH].
Qed.

Theorem eq_struct : forall t a b, vty t a -> vty t b -> (rt_eq a b = true <-> seq_t t a b).
Proof.
  intros t. change (eq_struct_at t). induction t using ty_ind'; intros a b Ha Hb.
  - (* nil *) simpl in *. subst. simpl. tauto.
  - (* bool *) destruct Ha as [x ->], Hb as [y ->]. simpl. rewrite eqb_true_iff.
    split; [intros ->; reflexivity | intros H; inversion H; reflexivity].
  - (* int *) destruct Ha as [x ->], Hb as [y ->]. simpl. rewrite Z.eqb_eq.
    split; [intros ->; reflexivity | intros H; inversion H; reflexivity].
  - (* float *) destruct Ha as [x [-> Wx]], Hb as [y [-> Wy]]. simpl.
    rewrite (q_eqb_Qeq _ _ Wx Wy).
    split; [intros H; exists x, y; auto | intros [p [q [E1 [E2 H]]]]; inversion E1; inversion E2; subst; exact H].
  - (* str *) destruct Ha as [x ->], Hb as [y ->]. simpl. rewrite String.eqb_eq.
    split; [intros ->; reflexivity | intros H; inversion H; reflexivity].
  - (* fun *) destruct Ha as [x ->], Hb as [y ->]. simpl. rewrite N.eqb_eq.
    split; [intros ->; reflexivity | intros H; inversion H; reflexivity].
  - (* tuple *) destruct a; try contradiction. destruct b; try contradiction.
    apply (eq_struct_tuple ts H); assumption.
  - (* list *) destruct a; try contradiction. destruct b; try contradiction.
    apply (eq_struct_list t IHt); assumption.
  - (* blob *) destruct a; try contradiction. destruct b; try contradiction.
    apply (eq_struct_blob fs H); assumption.
  - (* enum *)
    destruct a as [ | |?|?|?|?|?|?|?|ta pa|?|?|?]; try contradiction.
    destruct b as [ | |?|?|?|?|?|?|?|tb pb|?|?|?]; try contradiction.
    simpl in Ha, Hb.
    change (rt_eq (VVariant ta pa) (VVariant tb pb)) with (String.eqb ta tb && rt_eq pa pb).
    change (seq_t (TEnum vs) (VVariant ta pa) (VVariant tb pb))
      with (ta = tb /\ with_assoc (fun t' => seq_t t' pa pb) ta vs).
    rewrite andb_true_iff, String.eqb_eq. split.
    + intros [-> E]. split; [reflexivity|]. apply (eq_struct_enum vs H); assumption.
    + intros [-> E]. split; [reflexivity|]. apply (eq_struct_enum vs H tb pa pb); assumption.
Qed.

(* ------------------------------------------------------------------------------------------------ *)
(* structural equality is an equivalence; so == is reflexive and symmetric, ~= is its complement     *)

Lemma seq_refl : forall t a, vty t a -> seq_t t a a.
Proof.
  induction t using ty_ind'; intros a Ha.
  - reflexivity.
  - reflexivity.
  - reflexivity.
  - destruct Ha as [q [-> _]]. exists q, q. repeat split; reflexivity.
  - reflexivity.
  - reflexivity.
  - destruct a; try contradiction. simpl in *. revert vs Ha.
    induction H as [|t ts Ht _ IH]; intros [|x xs]; simpl; try tauto.
    intros [Hx Hxs]. split; [apply Ht; exact Hx | apply IH; exact Hxs].
  - destruct a; try contradiction. simpl in *.
    induction vs as [|x xs IH]; simpl in *; [exact I|].
    destruct Ha as [Hx Hxs]. split; [apply IHt; exact Hx | apply IH; exact Hxs].
  - destruct a as [ | |?|?|?|?|?|?|fa|?|?|?|?]; try contradiction. destruct Ha as [_ [_ Fa]]. simpl.
    induction H as [|[n t] fs Ht _ IH]; simpl in *; [exact I|].
    destruct Fa as [[x [Ex Tx]] Fa]. split; [rewrite Ex; apply Ht; exact Tx | apply IH; exact Fa].
  - destruct a as [ | |?|?|?|?|?|?|?|ta pa|?|?|?]; try contradiction. simpl in *. split; [reflexivity|].
    induction H as [|[n t] vars Ht _ IH]; simpl in *; [exact Ha|].
    destruct (String.eqb ta n); [apply Ht; exact Ha | apply IH; exact Ha].
Qed.

Lemma seq_sym : forall t a b, seq_t t a b -> seq_t t b a.
Proof.
  induction t using ty_ind'; intros a b Hab; try (simpl in *; congruence).
  - destruct Hab as [p [q [-> [-> E]]]]. exists q, p. repeat split; [reflexivity.. | symmetry; exact E].
  - destruct a; try contradiction. destruct b; try contradiction. simpl in *. revert vs vs0 Hab.
    induction H as [|t ts Ht _ IH]; intros [|x xs] [|y ys]; simpl; try tauto.
    intros [Hx Hxs]. split; [apply Ht; exact Hx | apply IH; exact Hxs].
  - destruct a; try contradiction. destruct b; try contradiction. simpl in *. revert vs0 Hab.
    induction vs as [|x xs IH]; intros [|y ys]; simpl; try tauto.
    intros [Hx Hxs]. split; [apply IHt; exact Hx | apply IH; exact Hxs].
  - destruct a as [ | |?|?|?|?|?|?|fa|?|?|?|?]; try contradiction.
    destruct b as [ | |?|?|?|?|?|?|fb|?|?|?|?]; try contradiction. simpl in *.
    induction H as [|[n t] fs Ht _ IH]; simpl in *; [exact I|].
    destruct Hab as [Hx Hab]. split; [|apply IH; exact Hab].
    destruct (tbl_get n fa), (tbl_get n fb); try contradiction. apply Ht. exact Hx.
  - destruct a as [ | |?|?|?|?|?|?|?|ta pa|?|?|?]; try contradiction.
    destruct b as [ | |?|?|?|?|?|?|?|tb pb|?|?|?]; try contradiction. simpl in *.
    destruct Hab as [-> Hab]. split; [reflexivity|].
    induction H as [|[n t] vars Ht _ IH]; simpl in *; [exact Hab|].
    destruct (String.eqb tb n); [apply Ht; exact Hab | apply IH; exact Hab].
Qed.

Lemma seq_trans : forall t a b c, seq_t t a b -> seq_t t b c -> seq_t t a c.
Proof.
  induction t using ty_ind'; intros a b c Hab Hbc; try (simpl in *; congruence).
  - destruct Hab as [p [q [-> [-> E]]]]. destruct Hbc as [q' [r [E1 [-> E2]]]]. inversion E1; subst q'.
    exists p, r. repeat split; [reflexivity.. | rewrite E; exact E2].
  - destruct a; try contradiction. destruct b; try contradiction. destruct c; try contradiction.
    simpl in *. revert vs vs0 vs1 Hab Hbc.
    induction H as [|t ts Ht _ IH]; intros [|x xs] [|y ys] [|z zs]; simpl; try tauto.
    intros [Hx Hxs] [Hy Hys]. split; [eapply Ht; eassumption | eapply IH; eassumption].
  - destruct a; try contradiction. destruct b; try contradiction. destruct c; try contradiction.
    simpl in *. revert vs0 vs1 Hab Hbc.
    induction vs as [|x xs IH]; intros [|y ys] [|z zs]; simpl; try tauto.
    intros [Hx Hxs] [Hy Hys]. split; [eapply IHt; eassumption | eapply IH; eassumption].
  - destruct a as [ | |?|?|?|?|?|?|fa|?|?|?|?]; try contradiction.
    destruct b as [ | |?|?|?|?|?|?|fb|?|?|?|?]; try contradiction.
    destruct c as [ | |?|?|?|?|?|?|fc|?|?|?|?]; try contradiction. simpl in *.
    induction H as [|[n t] fs Ht _ IH]; simpl in *; [exact I|].
    destruct Hab as [Hx Hab]. destruct Hbc as [Hy Hbc]. split; [|apply IH; assumption].
    destruct (tbl_get n fa), (tbl_get n fb), (tbl_get n fc); try contradiction. eapply Ht; eassumption.
  - destruct a as [ | |?|?|?|?|?|?|?|ta pa|?|?|?]; try contradiction.
    destruct b as [ | |?|?|?|?|?|?|?|tb pb|?|?|?]; try contradiction.
    destruct c as [ | |?|?|?|?|?|?|?|tc pc|?|?|?]; try contradiction. simpl in *.
    destruct Hab as [-> Hab]. destruct Hbc as [-> Hbc]. split; [reflexivity|].
    induction H as [|[n t] vars Ht _ IH]; simpl in *; [exact Hab|].
    destruct (String.eqb tc n); [eapply Ht; eassumption | apply IH; assumption].
Qed.

Lemma bool_eq_iff : forall x y : bool, (x = true <-> y = true) -> x = y.
Proof.
  intros [|] [|] [H1 H2]; try reflexivity; [symmetry; apply H1; reflexivity | apply H2; reflexivity].
Qed.

Theorem eq_refl_rt : forall t a, vty t a -> rt_eq a a = true.
Proof. intros t a Ha. apply (eq_struct t a a Ha Ha). apply seq_refl. exact Ha. Qed.

Theorem eq_sym_rt : forall t a b, vty t a -> vty t b -> rt_eq a b = rt_eq b a.
Proof.
  intros t a b Ha Hb. apply bool_eq_iff.
  rewrite (eq_struct t a b Ha Hb), (eq_struct t b a Hb Ha). split; apply seq_sym.
Qed.

Theorem eq_trans_rt : forall t a b c, vty t a -> vty t b -> vty t c ->
  rt_eq a b = true -> rt_eq b c = true -> rt_eq a c = true.
Proof.
  intros t a b c Ha Hb Hc. rewrite (eq_struct t a b Ha Hb), (eq_struct t b c Hb Hc), (eq_struct t a c Ha Hc).
  apply seq_trans.
Qed.

(* `!=` is emitted as `~=`, which Lua defines as the negation of `==` *)
Theorem neq_compl : forall a b, rt_neq a b = negb (rt_eq a b).
Proof. reflexivity. Qed.

Theorem neq_struct : forall t a b, vty t a -> vty t b -> (rt_neq a b = true <-> ~ seq_t t a b).
Proof.
  intros t a b Ha Hb. unfold rt_neq. rewrite negb_true_iff, <- (eq_struct t a b Ha Hb).
  destruct (rt_eq a b); split; congruence.
Qed.

(* ------------------------------------------------------------------------------------------------ *)
(* the specification order lt_t is a strict total order compatible with seq_t (spec level only)      *)

Record ord_props (t : ty) : Prop := {
  o_irr : forall a b, lt_t t a b -> seq_t t a b -> False;
  o_trans : forall a b c, lt_t t a b -> lt_t t b c -> lt_t t a c;
  o_seq_l : forall a b c, seq_t t a b -> lt_t t b c -> lt_t t a c;
  o_seq_r : forall a b c, lt_t t a b -> seq_t t b c -> lt_t t a c;
  o_tot : forall a b, vty t a -> vty t b -> lt_t t a b \/ seq_t t a b \/ lt_t t b a
}.

Lemma ord_props_int : ord_props TInt.
Proof.
  constructor; simpl.
  - intros a b [x [y [-> [-> H]]]] E. inversion E; subst. lia.
  - intros a b c [x [y [-> [-> H1]]]] [y' [z [E [-> H2]]]]. inversion E; subst.
    exists x, z. repeat split. lia.
  - intros a b c -> H. exact H.
  - intros a b c H <-. exact H.
  - intros a b [x ->] [y ->]. destruct (Z.lt_total x y) as [H|[H|H]].
    + left. exists x, y. auto.
    + right. left. congruence.
    + right. right. exists y, x. auto.
Qed.

Lemma ord_props_float : ord_props TFloat.
Proof.
  constructor; simpl.
  - intros a b [p [q [-> [-> H1]]]] [p' [q' [E1 [E2 H2]]]]. inversion E1; inversion E2; subst.
    rewrite H2 in H1. exact (Qlt_irrefl _ H1).
  - intros a b c [p [q [-> [-> H1]]]] [q' [r [E1 [-> H2]]]]. inversion E1; subst.
    exists p, r. repeat split. eapply Qlt_trans; eassumption.
  - intros a b c [p [q [-> [-> H1]]]] [q' [r [E1 [-> H2]]]]. inversion E1; subst.
    exists p, r. repeat split. rewrite H1. exact H2.
  - intros a b c [p [q [-> [-> H1]]]] [q' [r [E1 [-> H2]]]]. inversion E1; subst.
    exists p, r. repeat split. rewrite <- H2. exact H1.
  - intros a b [p [-> _]] [q [-> _]].
    destruct (Q_dec p q) as [[H|H]|H].
    + left. exists p, q. auto.
    + right. right. exists q, p. auto.
    + right. left. exists p, q. auto.
Qed.

Lemma ord_props_str : ord_props TStr.
Proof.
  constructor; simpl.
  - intros a b [s [u [-> [-> H]]]] E. inversion E; subst. exact (str_lt_irrefl _ H).
  - intros a b c [s [u [-> [-> H1]]]] [u' [w [E [-> H2]]]]. inversion E; subst.
    exists s, w. repeat split. eapply str_lt_trans; eassumption.
  - intros a b c -> H. exact H.
  - intros a b c H <-. exact H.
  - intros a b [s ->] [u ->]. destruct (str_lt_total s u) as [H|[H|H]].
    + left. exists s, u. auto.
    + right. left. congruence.
    + right. right. exists u, s. auto.
Qed.

Lemma ord_props_tuple : forall ts, Forall ord_props ts -> ord_props (TTuple ts).
Proof.
  intros ts H. constructor.
  - intros a b. destruct a; try contradiction. destruct b; try contradiction. simpl. revert vs vs0.
    induction H as [|t ts Ht _ IH]; intros [|x xs] [|y ys]; simpl; try tauto.
    intros [L | [E L]] [E' S]; [exact (o_irr _ Ht _ _ L E') | exact (IH _ _ L S)].
  - intros a b c. destruct a; try contradiction. destruct b; try contradiction. destruct c; try contradiction.
    simpl. revert vs vs0 vs1.
    induction H as [|t ts Ht _ IH]; intros [|x xs] [|y ys] [|z zs]; simpl; try tauto.
    intros [L1 | [E1 L1]] [L2 | [E2 L2]].
    + left. exact (o_trans _ Ht _ _ _ L1 L2).
    + left. exact (o_seq_r _ Ht _ _ _ L1 E2).
    + left. exact (o_seq_l _ Ht _ _ _ E1 L2).
    + right. split; [exact (seq_trans _ _ _ _ E1 E2) | exact (IH _ _ _ L1 L2)].
  - intros a b c. destruct a; try contradiction. destruct b; try contradiction. destruct c; try contradiction.
    simpl. revert vs vs0 vs1.
    induction H as [|t ts Ht _ IH]; intros [|x xs] [|y ys] [|z zs]; simpl; try tauto.
    intros [E1 S1] [L2 | [E2 L2]].
    + left. exact (o_seq_l _ Ht _ _ _ E1 L2).
    + right. split; [exact (seq_trans _ _ _ _ E1 E2) | exact (IH _ _ _ S1 L2)].
  - intros a b c. destruct a; try contradiction. destruct b; try contradiction. destruct c; try contradiction.
    simpl. revert vs vs0 vs1.
    induction H as [|t ts Ht _ IH]; intros [|x xs] [|y ys] [|z zs]; simpl; try tauto.
    intros [L1 | [E1 L1]] [E2 S2].
    + left. exact (o_seq_r _ Ht _ _ _ L1 E2).
    + right. split; [exact (seq_trans _ _ _ _ E1 E2) | exact (IH _ _ _ L1 S2)].
  - intros a b. destruct a; try contradiction. destruct b; try contradiction. simpl. revert vs vs0.
    induction H as [|t ts Ht _ IH]; intros [|x xs] [|y ys]; simpl; try tauto.
    intros [Hx Hxs] [Hy Hys]. destruct (o_tot _ Ht x y Hx Hy) as [L|[E|L]].
    + left. left. exact L.
    + destruct (IH xs ys Hxs Hys) as [L|[E'|L]].
      * left. right. auto.
      * right. left. auto.
      * right. right. right. split; [apply seq_sym; exact E | exact L].
    + right. right. left. exact L.
Qed.

Theorem lt_strict_total_order : forall t, ord_ty t = true -> ord_props t.
Proof.
  induction t using ty_ind'; simpl; try discriminate; intros Ho.
  - apply ord_props_int.
  - apply ord_props_float.
  - apply ord_props_str.
  - apply ord_props_tuple. rewrite forallb_forall in Ho. rewrite Forall_forall in *. auto.
Qed.

(* ------------------------------------------------------------------------------------------------ *)
(* < and <= as preamble.lua computes them are that order                                             *)

Definition lt_struct_at (t : ty) : Prop :=
  forall a b, vty t a -> vty t b -> exists c, rt_lt a b = Ok c /\ (c = true <-> lt_t t a b).

Lemma lex_go_spec : forall dflt ts, Forall ord_props ts -> Forall lt_struct_at ts ->
  forall xs ys, all2 vty ts xs -> all2 vty ts ys ->
  exists c, lex_go rt_eq rt_lt dflt xs ys = Ok c /\
            (c = true <-> lex3 lt_t seq_t ts xs ys \/ (dflt = true /\ all3 seq_t ts xs ys)).
Proof.
  intros dflt ts HO HL. induction HL as [|t ts Ht HL IH]; intros [|x xs] [|y ys]; simpl; try tauto.
  - intros _ _. exists dflt. split; [reflexivity | tauto].
  - inversion HO as [|? ? Ot Ots]; subst. intros [Hx Hxs] [Hy Hys].
    pose proof (eq_struct t x y Hx Hy) as E. destruct (rt_eq x y).
    + destruct (IH Ots xs ys Hxs Hys) as [c [R C]]. exists c. split; [exact R|]. rewrite C.
      assert (S : seq_t t x y) by (apply E; reflexivity).
      pose proof (o_irr _ Ot x y). tauto.
    + destruct (Ht x y Hx Hy) as [c [R C]]. exists c. split; [exact R|]. rewrite C.
      assert (S : ~ seq_t t x y) by (intros S; apply E in S; discriminate). tauto.
Qed.

Theorem lt_struct : forall t, ord_ty t = true -> lt_struct_at t.
Proof.
  induction t using ty_ind'; simpl; try discriminate; intros Ho a b Ha Hb.
  - destruct Ha as [x ->], Hb as [y ->]. exists (x <? y)%Z. split; [reflexivity|].
    rewrite Z.ltb_lt. split; [intros L; exists x, y; auto | intros [p [q [E1 [E2 L]]]]; inversion E1; inversion E2; subst; exact L].
  - destruct Ha as [x [-> _]], Hb as [y [-> _]]. exists (q_ltb x y). split; [reflexivity|].
    rewrite q_ltb_Qlt. split; [intros L; exists x, y; auto | intros [p [q [E1 [E2 L]]]]; inversion E1; inversion E2; subst; exact L].
  - destruct Ha as [x ->], Hb as [y ->]. exists (str_ltb x y). split; [reflexivity|].
    rewrite str_ltb_lt. split; [intros L; exists x, y; auto | intros [p [q [E1 [E2 L]]]]; inversion E1; inversion E2; subst; exact L].
  - destruct a; try contradiction. destruct b; try contradiction.
    rewrite forallb_forall in Ho.
    assert (HO : Forall ord_props ts) by (apply Forall_forall; intros t Hin; apply lt_strict_total_order; auto).
    assert (HL : Forall lt_struct_at ts) by (rewrite Forall_forall in *; auto).
    destruct (lex_go_spec false ts HO HL vs vs0 Ha Hb) as [c [R C]].
    exists c. split; [exact R|]. rewrite C. simpl. intuition discriminate.
Qed.

Lemma str_leb_spec : forall s u, str_leb s u = true <-> str_lt s u \/ s = u.
Proof.
  intros s u. unfold str_leb. rewrite negb_true_iff.
  destruct (str_ltb u s) eqn:E.
  - apply str_ltb_lt in E. split; [discriminate|]. intros [L | ->].
    + exfalso. exact (str_lt_irrefl _ (str_lt_trans _ _ _ L E)).
    + exfalso. exact (str_lt_irrefl _ E).
  - split; [|reflexivity]. intros _. destruct (str_lt_total s u) as [L|[L|L]]; auto.
    apply str_ltb_lt in L. congruence.
Qed.

Theorem le_struct : forall t, ord_ty t = true -> forall a b, vty t a -> vty t b ->
  exists c, rt_le a b = Ok c /\ (c = true <-> lt_t t a b \/ seq_t t a b).
Proof.
  intros t Ho a b Ha Hb. destruct t; simpl in Ho; try discriminate.
  - destruct Ha as [x ->], Hb as [y ->]. exists (x <=? y)%Z. split; [reflexivity|].
    rewrite Z.leb_le. simpl.
    split; [intros L; destruct (Z.eq_dec x y) as [->|N]; [right; reflexivity | left; exists x, y; repeat split; lia]
           | intros [[p [q [E1 [E2 L]]]] | E]; [inversion E1; inversion E2; subst; lia | inversion E; lia]].
  - destruct Ha as [x [-> _]], Hb as [y [-> _]]. exists (q_leb x y). split; [reflexivity|].
    rewrite q_leb_Qle, Qle_lteq. simpl.
    split; [intros [L|L]; [left|right]; exists x, y; auto
           | intros [[p [q [E1 [E2 L]]]] | [p [q [E1 [E2 L]]]]]; inversion E1; inversion E2; subst; auto].
  - destruct Ha as [x ->], Hb as [y ->]. exists (str_leb x y). split; [reflexivity|].
    rewrite str_leb_spec. simpl.
    split; [intros [L| ->]; [left; exists x, y; auto | right; reflexivity]
           | intros [[p [q [E1 [E2 L]]]] | E]; [inversion E1; inversion E2; subst; auto | inversion E; auto]].
  - destruct a; try contradiction. destruct b; try contradiction.
    rewrite forallb_forall in Ho.
    assert (HO : Forall ord_props ts) by (apply Forall_forall; intros t Hin; apply lt_strict_total_order; auto).
    assert (HL : Forall lt_struct_at ts) by (apply Forall_forall; intros t Hin; apply lt_struct; auto).
    destruct (lex_go_spec true ts HO HL vs vs0 Ha Hb) as [c [R C]].
    exists c. split; [exact R|]. rewrite C. simpl. intuition.
Qed.

(* the user-facing consequences *)

Theorem lt_defined : forall t a b, ord_ty t = true -> vty t a -> vty t b ->
  rt_lt a b = Ok true \/ rt_lt a b = Ok false.
Proof. intros t a b Ho Ha Hb. destruct (lt_struct t Ho a b Ha Hb) as [[|] [R _]]; auto. Qed.

Theorem le_iff : forall t a b, ord_ty t = true -> vty t a -> vty t b ->
  (rt_le a b = Ok true <-> rt_lt a b = Ok true \/ rt_eq a b = true).
Proof.
  intros t a b Ho Ha Hb.
  destruct (le_struct t Ho a b Ha Hb) as [c [R C]]. destruct (lt_struct t Ho a b Ha Hb) as [d [R' D]].
  rewrite R, R', (eq_struct t a b Ha Hb). split.
  - intros X. inversion X; subst c. destruct C as [C _]. destruct (C eq_refl) as [L|S]; [left|right; exact S].
    f_equal. apply D. exact L.
  - intros [X|S]; f_equal; apply C; [left; apply D; inversion X; reflexivity | right; exact S].
Qed.

Theorem gt_flip : forall a b, rt_gt a b = rt_lt b a.
Proof. reflexivity. Qed.
Theorem ge_flip : forall a b, rt_ge a b = rt_le b a.
Proof. reflexivity. Qed.

Theorem lt_irrefl_rt : forall t a, ord_ty t = true -> vty t a -> rt_lt a a = Ok false.
Proof.
  intros t a Ho Ha. destruct (lt_struct t Ho a a Ha Ha) as [c [R C]]. rewrite R. f_equal.
  destruct c; [|reflexivity]. exfalso.
  exact (o_irr _ (lt_strict_total_order t Ho) a a (proj1 C eq_refl) (seq_refl t a Ha)).
Qed.

Theorem lt_trans_rt : forall t a b c, ord_ty t = true -> vty t a -> vty t b -> vty t c ->
  rt_lt a b = Ok true -> rt_lt b c = Ok true -> rt_lt a c = Ok true.
Proof.
  intros t a b c Ho Ha Hb Hc.
  destruct (lt_struct t Ho a b Ha Hb) as [c1 [-> C1]]. destruct (lt_struct t Ho b c Hb Hc) as [c2 [-> C2]].
  destruct (lt_struct t Ho a c Ha Hc) as [c3 [-> C3]]. intros X Y. inversion X; inversion Y; subst.
  f_equal. apply C3. eapply (o_trans _ (lt_strict_total_order t Ho)); [apply C1 | apply C2]; reflexivity.
Qed.

(* exactly one of a < b, a == b, b < a *)
Theorem lt_trichotomy_rt : forall t a b, ord_ty t = true -> vty t a -> vty t b ->
  (rt_lt a b = Ok true /\ rt_eq a b = false /\ rt_lt b a = Ok false) \/
  (rt_lt a b = Ok false /\ rt_eq a b = true /\ rt_lt b a = Ok false) \/
  (rt_lt a b = Ok false /\ rt_eq a b = false /\ rt_lt b a = Ok true).
Proof.
  intros t a b Ho Ha Hb. pose proof (lt_strict_total_order t Ho) as O.
  destruct (lt_struct t Ho a b Ha Hb) as [c1 [-> C1]]. destruct (lt_struct t Ho b a Hb Ha) as [c2 [-> C2]].
  pose proof (eq_struct t a b Ha Hb) as E.
  assert (N1 : lt_t t a b -> lt_t t b a -> False).
  { intros L1 L2. exact (o_irr _ O a a (o_trans _ O _ _ _ L1 L2) (seq_refl t a Ha)). }
  assert (N2 : lt_t t b a -> seq_t t a b -> False).
  { intros L S. exact (o_irr _ O b a L (seq_sym _ _ _ S)). }
  pose proof (o_irr _ O a b) as N3.
  destruct (o_tot _ O a b Ha Hb) as [L|[S|L]].
  - left. destruct c1; [|exfalso; apply C1 in L; discriminate].
    destruct c2; [exfalso; apply (N1 L); apply C2; reflexivity|].
    destruct (rt_eq a b); [exfalso; apply (N3 L); apply E; reflexivity | auto].
  - right. left. destruct c1; [exfalso; apply (N3 (proj1 C1 eq_refl) S)|].
    destruct c2; [exfalso; apply (N2 (proj1 C2 eq_refl) S)|].
    destruct (rt_eq a b); [auto | apply E in S; discriminate].
  - right. right. destruct c2; [|exfalso; apply C2 in L; discriminate].
    destruct c1; [exfalso; apply (N1 (proj1 C1 eq_refl) L)|].
    destruct (rt_eq a b); [exfalso; apply (N2 L); apply E; reflexivity | auto].
Qed.

(* a <= b is the negation of b < a: the four operators describe ONE order *)
Theorem le_not_gt : forall t a b, ord_ty t = true -> vty t a -> vty t b ->
  exists c, rt_lt b a = Ok c /\ rt_le a b = Ok (negb c).
Proof.
  intros t a b Ho Ha Hb.
  destruct (lt_trichotomy_rt t a b Ho Ha Hb) as [[L [E G]]|[[L [E G]]|[L [E G]]]];
    destruct (le_struct t Ho a b Ha Hb) as [c [R C]];
    pose proof (le_iff t a b Ho Ha Hb) as LI; rewrite R, L, E in LI; rewrite G, R.
  - exists false. split; [reflexivity|]. destruct c; [reflexivity|]. destruct LI as [_ X].
    assert (Y : @Ok bool false = Ok true) by (apply X; auto). discriminate Y.
  - exists false. split; [reflexivity|]. destruct c; [reflexivity|]. destruct LI as [_ X].
    assert (Y : @Ok bool false = Ok true) by (apply X; auto). discriminate Y.
  - exists true. split; [reflexivity|]. destruct c; [|reflexivity]. destruct LI as [X _].
    destruct (X eq_refl); discriminate.
Qed.

(* ------------------------------------------------------------------------------------------------ *)
(* arithmetic is element-wise                                                                        *)

Definition spec_fi (o : aop) : Z -> Z -> res value :=
  match o with OpAdd => zs_add | OpSub => zs_sub | OpMul => zs_mul | OpDiv => zs_div end.
Definition spec_ff (o : aop) : Q -> Q -> res value :=
  match o with OpAdd => qs_add | OpSub => qs_sub | OpMul => qs_mul | OpDiv => qs_div end.

Lemma q_int_eta : forall q, q_is_int q = true -> q = Qnum q # 1.
Proof. intros [n d] H. apply q_is_int_den in H. simpl in *. subst. reflexivity. Qed.

Lemma q_add_spec : forall p q, q_add p q = Qred (p + q).
Proof.
  intros p q. unfold q_add. destruct (q_both_int p q) eqn:E; [|reflexivity].
  apply andb_true_iff in E. destruct E as [E1 E2].
  rewrite (q_int_eta p E1), (q_int_eta q E2). unfold Qplus, q_int. simpl.
  rewrite !Z.mul_1_r. symmetry. apply q_wf_int.
Qed.

Lemma q_sub_spec : forall p q, q_sub p q = Qred (p - q).
Proof.
  intros p q. unfold q_sub. destruct (q_both_int p q) eqn:E; [|reflexivity].
  apply andb_true_iff in E. destruct E as [E1 E2].
  rewrite (q_int_eta p E1), (q_int_eta q E2). unfold Qminus, Qplus, Qopp, q_int. simpl.
  rewrite !Z.mul_1_r. symmetry. apply q_wf_int.
Qed.

Lemma q_mul_spec : forall p q, q_mul p q = Qred (p * q).
Proof.
  intros p q. unfold q_mul. destruct (q_both_int p q) eqn:E; [|reflexivity].
  apply andb_true_iff in E. destruct E as [E1 E2].
  rewrite (q_int_eta p E1), (q_int_eta q E2). unfold Qmult, q_int. simpl.
  symmetry. apply q_wf_int.
Qed.

Lemma q_is_zero_spec : forall q, q_is_zero q = true <-> q == 0.
Proof.
  intros [n d]. unfold q_is_zero, Qeq. simpl. rewrite Z.eqb_eq, Z.mul_1_r. reflexivity.
Qed.

Lemma float_op_spec : forall o p q, float_op o p q = spec_ff o p q.
Proof.
  intros [] p q; simpl; unfold qs_add, qs_sub, qs_mul, qs_div.
  - rewrite q_add_spec. reflexivity.
  - rewrite q_sub_spec. reflexivity.
  - rewrite q_mul_spec. reflexivity.
  - destruct (Qeq_dec q 0) as [Z|Z].
    + apply q_is_zero_spec in Z. rewrite Z. reflexivity.
    + destruct (q_is_zero q) eqn:E; [apply q_is_zero_spec in E; contradiction | reflexivity].
Qed.

Lemma int_op_spec : forall o x y, int_op o x y = spec_fi o x y.
Proof.
  intros [] x y; try reflexivity. simpl. unfold zs_div, qs_div.
  destruct (Qeq_dec (y # 1) 0) as [Z|Z].
  - assert (y = 0%Z) by (unfold Qeq in Z; simpl in Z; lia). subst. reflexivity.
  - destruct (Z.eqb_spec y 0) as [->|N]; [exfalso; apply Z; reflexivity | reflexivity].
Qed.

(* the loop of the tuple metamethods against the type-directed zip of the specification *)
Lemma zipM_zipM3 : forall (rec : value -> value -> res value) (g : ty -> value -> value -> res value) ts,
  Forall (fun t => forall a b, vty t a -> vty t b -> rec a b = g t a b) ts ->
  forall xs ys, all2 vty ts xs -> all2 vty ts ys -> zipM rec xs ys = zipM3 g ts xs ys.
Proof.
  intros rec g ts H. induction H as [|t ts Ht _ IH]; intros [|x xs] [|y ys]; simpl; try tauto.
  intros [Hx Hxs] [Hy Hys]. rewrite (Ht x y Hx Hy), (IH xs ys Hxs Hys). reflexivity.
Qed.

Lemma rmapM_zipM2 : forall (rec : value -> res value) (g : ty -> value -> res value) ts,
  Forall (fun t => forall a, vty t a -> rec a = g t a) ts ->
  forall xs, all2 vty ts xs -> rmapM rec xs = zipM2 g ts xs.
Proof.
  intros rec g ts H. induction H as [|t ts Ht _ IH]; intros [|x xs]; simpl; try tauto.
  intros [Hx Hxs]. rewrite (Ht x Hx), (IH xs Hxs). reflexivity.
Qed.

Lemma num_ty_forall : forall ts, forallb num_ty ts = true -> forall t, In t ts -> num_ty t = true.
Proof. intros ts H. apply forallb_forall. exact H. Qed.

(* what the tuple metamethods do with a pair of components: __ADD for +, the raw operator otherwise *)
Definition elem_op (o : aop) (x y : value) : res value :=
  match o, x, y with
  | OpAdd, VStr s, VStr t => Ok (VStr (s ++ t))
  | _, _, _ => rt_arith o x y
  end.

Lemma rt_arith_tuple : forall o xs ys,
  rt_arith o (VTuple xs) (VTuple ys) = rmap VTuple (zipM (elem_op o) xs ys).
Proof. reflexivity. Qed.

Lemma elem_op_add : forall x y, elem_op OpAdd x y = rt_add x y.
Proof. intros x y. destruct x; reflexivity. Qed.

(* on operands of a numeric type the component operation is plain arithmetic *)
Lemma elem_op_num : forall o t a b, num_ty t = true -> vty t a -> elem_op o a b = rt_arith o a b.
Proof.
  intros o t a b Hn Ha. destruct t; simpl in Hn; try discriminate.
  - destruct Ha as [x ->]. destruct o; reflexivity.
  - destruct Ha as [x [-> _]]. destruct o; reflexivity.
  - destruct a; try contradiction. destruct o; reflexivity.
Qed.

(* + - * on numbers and on (nested) tuples of numbers; / of a tuple by a tuple *)
Theorem arith_pointwise : forall o t, num_ty t = true -> forall a b, vty t a -> vty t b ->
  rt_arith o a b = pw2 (spec_fi o) (spec_ff o) t a b.
Proof.
  intros o. induction t using ty_ind'; simpl; try discriminate; intros Hn a b Ha Hb.
  - destruct Ha as [x ->], Hb as [y ->]. change (rt_arith o (VInt x) (VInt y)) with (int_op o x y).
    apply int_op_spec.
  - destruct Ha as [x [-> _]], Hb as [y [-> _]]. change (rt_arith o (VFloat x) (VFloat y)) with (float_op o x y).
    apply float_op_spec.
  - destruct a; try contradiction. destruct b; try contradiction.
    rewrite rt_arith_tuple.
    f_equal. apply zipM_zipM3; try assumption.
    pose proof (num_ty_forall ts Hn) as Hn'. rewrite Forall_forall in *.
    intros t Hin a b Ta Tb. rewrite (elem_op_num o t a b (Hn' t Hin) Ta). auto.
Qed.

(* / of a (nested) tuple of numbers by one number (int or float) of value dq *)
Theorem div_scalar_pointwise : forall t, num_ty t = true -> forall a d dq, vty t a -> num_q d = Some dq ->
  rt_div a d = pw_scalar qs_div t a dq.
Proof.
  unfold rt_div. induction t using ty_ind'; simpl; try discriminate; intros Hn a d dq Ha Hd.
  - destruct Ha as [x ->]. destruct d; try discriminate; simpl in Hd; inversion Hd; subst.
    + change (rt_arith OpDiv (VInt x) (VInt z)) with (int_op OpDiv x z). apply (int_op_spec OpDiv).
    + change (rt_arith OpDiv (VInt x) (VFloat dq)) with (float_op OpDiv (x # 1) dq). apply (float_op_spec OpDiv).
  - destruct Ha as [x [-> _]]. destruct d; try discriminate; simpl in Hd; inversion Hd; subst.
    + change (rt_arith OpDiv (VFloat x) (VInt z)) with (float_op OpDiv x (z # 1)). apply (float_op_spec OpDiv).
    + change (rt_arith OpDiv (VFloat x) (VFloat dq)) with (float_op OpDiv x dq). apply (float_op_spec OpDiv).
  - destruct a; try contradiction.
    assert (E : rt_arith OpDiv (VTuple vs) d = rmap VTuple (rmapM (fun x => elem_op OpDiv x d) vs))
      by (destruct d; try discriminate; reflexivity).
    rewrite E. f_equal. apply (rmapM_zipM2 _ (fun t' x => pw_scalar qs_div t' x dq)); try assumption.
    pose proof (num_ty_forall ts Hn) as Hn'. rewrite Forall_forall in *. intros t Hin a Ta.
    change (elem_op OpDiv a d) with (rt_arith OpDiv a d). eauto.
Qed.

(* unary minus *)
Theorem neg_pointwise : forall t, num_ty t = true -> forall a, vty t a -> rt_neg a = pw1 Z.opp Qopp t a.
Proof.
  induction t using ty_ind'; simpl; try discriminate; intros Hn a Ha.
  - destruct Ha as [x ->]. reflexivity.
  - destruct Ha as [x [-> _]]. reflexivity.
  - destruct a; try contradiction.
    change (rt_neg (VTuple vs)) with (rmap VTuple (rmapM rt_neg vs)).
    f_equal. apply (rmapM_zipM2 _ (pw1 Z.opp Qopp)); try assumption.
    pose proof (num_ty_forall ts Hn) as Hn'. rewrite Forall_forall in *. auto.
Qed.

(* Sylt `+` (emitted as __ADD) *)
Theorem add_str_concat : forall s u, rt_add (VStr s) (VStr u) = Ok (VStr (s ++ u)).
Proof. reflexivity. Qed.

(* + on everything the type checker's `add` admits -- numbers, strings, and (nested) tuples of them: numbers
   add, strings concatenate, tuples combine element-wise (string components included since /repo a9ac36e) *)
Theorem add_pointwise : forall t, add_ty t = true -> forall a b, vty t a -> vty t b ->
  rt_add a b = pw_add t a b.
Proof.
  induction t using ty_ind'; simpl; try discriminate; intros Hn a b Ha Hb.
  - destruct Ha as [x ->], Hb as [y ->]. reflexivity.
  - destruct Ha as [x [-> _]], Hb as [y [-> _]].
    change (rt_add (VFloat x) (VFloat y)) with (Ok (VFloat (q_add x y))). rewrite q_add_spec. reflexivity.
  - destruct Ha as [x ->], Hb as [y ->]. reflexivity.
  - destruct a; try contradiction. destruct b; try contradiction.
    change (rt_add (VTuple vs) (VTuple vs0)) with (rt_arith OpAdd (VTuple vs) (VTuple vs0)).
    rewrite rt_arith_tuple. f_equal. apply zipM_zipM3; try assumption.
    rewrite forallb_forall in Hn. rewrite Forall_forall in *.
    intros t Hin a b Ta Tb. rewrite elem_op_add. auto.
Qed.

Theorem add_num_pointwise : forall t, num_ty t = true -> forall a b, vty t a -> vty t b ->
  rt_add a b = pw_add t a b.
Proof.
  intros t Hn. apply add_pointwise. revert Hn. induction t using ty_ind'; simpl; try discriminate; auto.
  intros Hn. rewrite forallb_forall in *. rewrite Forall_forall in H. auto.
Qed.

(* + - * never fail on numeric types and stay inside the type (int op int is an int) *)
Lemma zipM_typed : forall (rec : value -> value -> res value) ts,
  Forall (fun t => forall a b, vty t a -> vty t b -> exists r, rec a b = Ok r /\ vty t r) ts ->
  forall xs ys, all2 vty ts xs -> all2 vty ts ys -> exists rs, zipM rec xs ys = Ok rs /\ all2 vty ts rs.
Proof.
  intros rec ts H. induction H as [|t ts Ht _ IH]; intros [|x xs] [|y ys]; simpl; try tauto.
  - intros _ _. exists []. simpl. auto.
  - intros [Hx Hxs] [Hy Hys]. destruct (Ht x y Hx Hy) as [r [-> Tr]].
    destruct (IH xs ys Hxs Hys) as [rs [-> Trs]]. exists (r :: rs). simpl. auto.
Qed.

Theorem arith_closed : forall o, o <> OpDiv -> forall t, num_ty t = true -> forall a b, vty t a -> vty t b ->
  exists r, rt_arith o a b = Ok r /\ vty t r.
Proof.
  intros o Ho. induction t using ty_ind'; simpl; try discriminate; intros Hn a b Ha Hb.
  - destruct Ha as [x ->], Hb as [y ->]. destruct o; try congruence.
    + exists (VInt (x + y)). split; [reflexivity | eexists; reflexivity].
    + exists (VInt (x - y)). split; [reflexivity | eexists; reflexivity].
    + exists (VInt (x * y)). split; [reflexivity | eexists; reflexivity].
  - destruct Ha as [x [-> _]], Hb as [y [-> _]].
    change (rt_arith o (VFloat x) (VFloat y)) with (float_op o x y). rewrite float_op_spec.
    destruct o; try congruence; unfold spec_ff, qs_add, qs_sub, qs_mul.
    + exists (VFloat (Qred (x + y))). split; [reflexivity|]. exists (Qred (x + y)). split; [reflexivity | apply q_wf_Qred].
    + exists (VFloat (Qred (x - y))). split; [reflexivity|]. exists (Qred (x - y)). split; [reflexivity | apply q_wf_Qred].
    + exists (VFloat (Qred (x * y))). split; [reflexivity|]. exists (Qred (x * y)). split; [reflexivity | apply q_wf_Qred].
  - destruct a; try contradiction. destruct b; try contradiction.
    rewrite rt_arith_tuple.
    destruct (zipM_typed (elem_op o) ts) with (xs := vs) (ys := vs0) as [rs [-> Trs]]; try assumption.
    + pose proof (num_ty_forall ts Hn) as Hn'. rewrite Forall_forall in *.
      intros t Hin a b Ta Tb. rewrite (elem_op_num o t a b (Hn' t Hin) Ta). auto.
    + exists (VTuple rs). split; [reflexivity | exact Trs].
Qed.

(* the checker also lets < and > compare an int with a float: by mathematical value *)
Theorem lt_int_float : forall x q, rt_lt (VInt x) (VFloat q) = Ok (q_ltb (x # 1) q) /\
                                   rt_lt (VFloat q) (VInt x) = Ok (q_ltb q (x # 1)).
Proof. intros. split; reflexivity. Qed.

(* ------------------------------------------------------------------------------------------------ *)
(* the typing side: on two operands of ONE type that the type checker admits for the operator, the     *)
(* operator never fails; the only outcome that is not a value is a zero divisor (outside the numbers)  *)

Inductive bop := BEq | BNe | BLt | BLe | BGt | BGe | BAdd | BSub | BMul | BDiv.

(* which operand types typechecker.rs admits for `a o b` with both operands of type t:
   equ = unify (every type); cmp (and cmp after equ for <= >=): int, float, str, tuples of those;
   add: int, float, str, tuples; sub / mul / div: int, float, tuples.  Reviewed by hand; compared with the
   real type checker's accept/reject on generated types by tools/props/c19.py. *)
Definition admits (o : bop) (t : ty) : bool :=
  match o with
  | BEq | BNe => true
  | BLt | BLe | BGt | BGe => ord_ty t
  | BAdd => add_ty t
  | BSub | BMul | BDiv => num_ty t
  end.

Definition rt_bop (o : bop) (a b : value) : res value :=
  match o with
  | BEq => Ok (VBool (rt_eq a b))
  | BNe => Ok (VBool (rt_neq a b))
  | BLt => rmap VBool (rt_lt a b)
  | BLe => rmap VBool (rt_le a b)
  | BGt => rmap VBool (rt_gt a b)
  | BGe => rmap VBool (rt_ge a b)
  | BAdd => rt_add a b
  | BSub => rt_sub a b
  | BMul => rt_mul a b
  | BDiv => rt_div a b
  end.

(* the type of the result *)
Fixpoint div_ty (t : ty) : ty :=
  match t with
  | TInt | TFloat => TFloat
  | TTuple ts => TTuple (map (fun t' => div_ty t') ts)
  | _ => t
  end.

Definition res_ty (o : bop) (t : ty) : ty :=
  match o with
  | BEq | BNe | BLt | BLe | BGt | BGe => TBool
  | BAdd | BSub | BMul => t
  | BDiv => div_ty t
  end.

(* no component of the divisor is zero *)
Fixpoint nonzero (t : ty) (b : value) {struct t} : Prop :=
  match t, b with
  | TInt, VInt y => y <> 0%Z
  | TFloat, VFloat q => ~ q == 0
  | TTuple ts, VTuple ys => all2 (fun t' y => nonzero t' y) ts ys
  | _, _ => False
  end.

Lemma zipM_typed_map : forall (f : ty -> ty) (N : ty -> value -> Prop) (rec : value -> value -> res value) ts,
  Forall (fun t => forall a b, vty t a -> vty t b -> N t b -> exists r, rec a b = Ok r /\ vty (f t) r) ts ->
  forall xs ys, all2 vty ts xs -> all2 vty ts ys -> all2 N ts ys ->
  exists rs, zipM rec xs ys = Ok rs /\ all2 vty (map f ts) rs.
Proof.
  intros f N rec ts H. induction H as [|t ts Ht _ IH]; intros [|x xs] [|y ys]; simpl; try tauto.
  - intros _ _ _. exists []. simpl. auto.
  - intros [Hx Hxs] [Hy Hys] [Ny Nys]. destruct (Ht x y Hx Hy Ny) as [r [-> Tr]].
    destruct (IH xs ys Hxs Hys Nys) as [rs [-> Trs]]. exists (r :: rs). simpl. auto.
Qed.

Lemma zipM_no_err : forall (rec : value -> value -> res value) ts,
  Forall (fun t => forall a b, vty t a -> vty t b -> rec a b <> Err) ts ->
  forall xs ys, all2 vty ts xs -> all2 vty ts ys -> zipM rec xs ys <> Err.
Proof.
  intros rec ts H. induction H as [|t ts Ht _ IH]; intros [|x xs] [|y ys]; simpl; try tauto; try discriminate.
  intros [Hx Hxs] [Hy Hys]. specialize (Ht x y Hx Hy). specialize (IH xs ys Hxs Hys).
  destruct (rec x y); simpl; try congruence. destruct (zipM rec xs ys); simpl; congruence.
Qed.

Theorem add_closed : forall t, add_ty t = true -> forall a b, vty t a -> vty t b ->
  exists r, rt_add a b = Ok r /\ vty t r.
Proof.
  induction t using ty_ind'; simpl; try discriminate; intros Hn a b Ha Hb.
  - destruct Ha as [x ->], Hb as [y ->]. exists (VInt (x + y)). split; [reflexivity | eexists; reflexivity].
  - destruct Ha as [x [-> _]], Hb as [y [-> _]]. exists (VFloat (q_add x y)). split; [reflexivity|].
    exists (q_add x y). split; [reflexivity | rewrite q_add_spec; apply q_wf_Qred].
  - destruct Ha as [x ->], Hb as [y ->]. exists (VStr (x ++ y)). split; [reflexivity | eexists; reflexivity].
  - destruct a; try contradiction. destruct b; try contradiction.
    change (rt_add (VTuple vs) (VTuple vs0)) with (rt_arith OpAdd (VTuple vs) (VTuple vs0)).
    rewrite rt_arith_tuple.
    destruct (zipM_typed (elem_op OpAdd) ts) with (xs := vs) (ys := vs0) as [rs [-> Trs]]; try assumption.
    + rewrite forallb_forall in Hn. rewrite Forall_forall in *.
      intros t Hin a b Ta Tb. rewrite elem_op_add. auto.
    + exists (VTuple rs). split; [reflexivity | exact Trs].
Qed.

Theorem div_closed : forall t, num_ty t = true -> forall a b, vty t a -> vty t b ->
  rt_div a b <> Err /\ (nonzero t b -> exists r, rt_div a b = Ok r /\ vty (div_ty t) r).
Proof.
  unfold rt_div. induction t using ty_ind'; simpl; try discriminate; intros Hn a b Ha Hb.
  - destruct Ha as [x ->], Hb as [y ->]. change (rt_arith OpDiv (VInt x) (VInt y)) with (int_op OpDiv x y).
    cbn [int_op]. destruct (Z.eqb_spec y 0).
    + split; [discriminate | intros N; contradiction].
    + split; [discriminate|]. intros _. eexists. split; [reflexivity|]. eexists. split; [reflexivity | apply q_wf_Qred].
  - destruct Ha as [x [-> _]], Hb as [y [-> _]]. change (rt_arith OpDiv (VFloat x) (VFloat y)) with (float_op OpDiv x y).
    cbn [float_op]. destruct (q_is_zero y) eqn:E.
    + split; [discriminate|]. intros N. apply q_is_zero_spec in E. contradiction.
    + split; [discriminate|]. intros _. eexists. split; [reflexivity|]. eexists. split; [reflexivity | apply q_wf_Qred].
  - destruct a; try contradiction. destruct b; try contradiction. rewrite rt_arith_tuple.
    pose proof (num_ty_forall ts Hn) as Hn'. rewrite Forall_forall in H.
    split.
    + assert (Z : zipM (elem_op OpDiv) vs vs0 <> Err).
      { apply (zipM_no_err _ ts); try assumption. apply Forall_forall. intros t Hin a b Ta Tb.
        change (elem_op OpDiv a b) with (rt_arith OpDiv a b). apply (H t Hin (Hn' t Hin) a b Ta Tb). }
      destruct (zipM (elem_op OpDiv) vs vs0); simpl; congruence.
    + intros N.
      destruct (zipM_typed_map div_ty nonzero (elem_op OpDiv) ts) with (xs := vs) (ys := vs0) as [rs [-> Trs]];
        try assumption.
      * apply Forall_forall. intros t Hin a b Ta Tb Nb.
        change (elem_op OpDiv a b) with (rt_arith OpDiv a b). apply (H t Hin (Hn' t Hin) a b Ta Tb). exact Nb.
      * exists (VTuple rs). split; [reflexivity | exact Trs].
Qed.

Lemma q_wf_opp : forall q, q_wf q -> q_wf (Qopp q).
Proof. intros q H. unfold q_wf. rewrite Qred_opp, H. reflexivity. Qed.

Theorem neg_closed : forall t, num_ty t = true -> forall a, vty t a -> exists r, rt_neg a = Ok r /\ vty t r.
Proof.
  induction t using ty_ind'; simpl; try discriminate; intros Hn a Ha.
  - destruct Ha as [x ->]. eexists. split; [reflexivity | eexists; reflexivity].
  - destruct Ha as [x [-> W]]. exists (VFloat (Qopp x)). split; [reflexivity|]. eexists. split; [reflexivity | apply q_wf_opp; exact W].
  - destruct a; try contradiction. change (rt_neg (VTuple vs)) with (rmap VTuple (rmapM rt_neg vs)).
    pose proof (num_ty_forall ts Hn) as Hn'. rewrite Forall_forall in H.
    assert (X : exists rs, rmapM rt_neg vs = Ok rs /\ all2 vty ts rs).
    { clear Hn. revert vs Ha. induction ts as [|t ts IH]; intros [|x xs]; simpl; try tauto.
      - intros _. exists []. simpl. auto.
      - intros [Tx Txs]. destruct (H t (or_introl eq_refl) (Hn' t (or_introl eq_refl)) x Tx) as [r [-> Tr]].
        destruct (IH (fun t' Hin => H t' (or_intror Hin)) (fun t' Hin => Hn' t' (or_intror Hin)) xs Txs) as [rs [-> Trs]].
        exists (r :: rs). simpl. auto. }
    destruct X as [rs [-> Trs]]. exists (VTuple rs). split; [reflexivity | exact Trs].
Qed.

(* ALL PAIRS OF EQUAL TYPE: for every operator, every type the checker admits for it, and every two values of
   that type, the operator yields a value of the result type -- for `/` provided no component of the divisor
   is zero, and `/` never yields a run-time error *)
Theorem bop_defined : forall o t a b, admits o t = true -> vty t a -> vty t b ->
  rt_bop o a b <> Err /\
  ((o <> BDiv \/ nonzero t b) -> exists r, rt_bop o a b = Ok r /\ vty (res_ty o t) r).
Proof.
  intros o t a b Hadm Ha Hb.
  assert (B : forall c : bool, vty TBool (VBool c)) by (intros c; exists c; reflexivity).
  destruct o; simpl in Hadm; cbn [rt_bop res_ty].
  - split; [discriminate | intros _; eexists; split; [reflexivity | apply B]].
  - split; [discriminate | intros _; eexists; split; [reflexivity | apply B]].
  - destruct (lt_struct t Hadm a b Ha Hb) as [c [-> _]]. split; [discriminate | intros _; eexists; split; [reflexivity | apply B]].
  - destruct (le_struct t Hadm a b Ha Hb) as [c [-> _]]. split; [discriminate | intros _; eexists; split; [reflexivity | apply B]].
  - unfold rt_gt. destruct (lt_struct t Hadm b a Hb Ha) as [c [-> _]]. split; [discriminate | intros _; eexists; split; [reflexivity | apply B]].
  - unfold rt_ge. destruct (le_struct t Hadm b a Hb Ha) as [c [-> _]]. split; [discriminate | intros _; eexists; split; [reflexivity | apply B]].
  - destruct (add_closed t Hadm a b Ha Hb) as [r [-> Tr]]. split; [discriminate | intros _; eauto].
  - assert (N : OpSub <> OpDiv) by discriminate.
    destruct (arith_closed OpSub N t Hadm a b Ha Hb) as [r [E Tr]]. unfold rt_sub. rewrite E.
    split; [discriminate | intros _; eauto].
  - assert (N : OpMul <> OpDiv) by discriminate.
    destruct (arith_closed OpMul N t Hadm a b Ha Hb) as [r [E Tr]]. unfold rt_mul. rewrite E.
    split; [discriminate | intros _; eauto].
  - destruct (div_closed t Hadm a b Ha Hb) as [NE D]. split; [exact NE|].
    intros [X|X]; [congruence | apply D; exact X].
Qed.
