"""C07 -- the compiler is total: no panic, no hang, failures are rendered errors."""
import collections
import sys
sys.setrecursionlimit(100000)
import os
import re

import noise_gen
import prog_gen
import sylt_gen
import vlib

GEN = ["GenPanicSites", "GenTokens", "GenPrec"]
TRUSTED = [
    "Coq 8.16.1 kernel; vm_compute for C07_sites_covered; no axioms",
    "translator tools/gens/gen_panicsites.py (regex scan for unreachable!/panic!/assert!/unwrap/expect/remove(0) outside #[cfg(test)] and the formatter)",
    "coq/Total/DocPanicSites.v: the hand review of why each site cannot fire on the compile path",
    "the lexer model (C17) for C07_lexer_total / C07_token_bounds",
    "the totality oracle: harness `compile` with catch_unwind, a per-case watchdog thread, a 1 GiB stack, and Display of every returned error",
    "parser_total: Parse/Parser.v as the model of sylt-parser (modelled, not verified; the `parser_total` tie component runs the "
    "extracted model with the proved fuel parse_fuel = 6*tokens+6 against the real parser on the noise inputs: accept/reject, "
    "syntax-error positions and trees), Lex/Logos.v (C17), extraction + ocaml/parse_driver.ml; the model follows the release "
    "build's wrapping `curr - last_statement` in Context::comments_since_last_statement",
    "not covered: native stack exhaustion (nesting depth is bounded in the generators, as the property allows), allocation failure, wall-clock beyond the watchdog",
]
ASSUMPTIONS = ["inputs are valid UTF-8 served from an in-memory file map",
               "errors are rendered with Display; reading the offending source line from disk fails softly for in-memory files"]
EXPLANATION = ("Panic-site table regenerated from the source and proved equal to the reviewed one; lexer totality theorems; "
               "mutated/truncated/spliced programs, token soup, multi-error and multi-file projects through the real compile() with "
               "panic capture, watchdog and rendering of every error.")

NASTY = [
    # (type declarations inside functions are produced by noise_gen.plant)
    "start :: fn do\n  x := \"a\nb\" + 1\nend\n",
    "start :: fn do\n  x := 1 +\n",
    "start :: fn do\n  x := (((((((((((1\n",
    "start :: fn do\n  \"unterminated\n",
    "<<<<<<< HEAD\nstart :: fn do end\n",
    "use /\nstart :: fn do end\n",
    "use a/\nstart :: fn do end\n",
    "from / use (x)\nstart :: fn do end\n",
    "start :: fn do\n  x := 99999999999999999999\nend\n",
    "start :: fn do\n  x := 1e999\n  y := .5 + 5.\nend\n",
    "start :: fn do\n  f :: fn<a: A a b + B b b, b: A a a> -> bool do true end\nend\n",
    "start :: fn do\n  case 1 do else end end\nend\n",
    "x :: x\nstart :: fn do end\n",
    "start :: fn do\n  ö := 1\nend\n",
    "start :: fn do\n  a.b.c.d.e = 1\nend\n",
    "start :: fn do\n  f'\n",
    "start :: fn do\n  1 -> 2\nend\n",
    "\n\n\n",
    "",
    "start",
    "start :: fn",
    "start :: fn do\n  ret\nend\n",
    "start :: fn do\n  loop do break continue end\nend\n",
    "E :: enum A, A end\nstart :: fn do end\n",
    "B :: blob { a: int, a: int }\nstart :: fn do end\n",
    "B :: blob { self: int }\nstart :: fn do end\n",
    # duplicate names: apart, nested, in inner positions (always rejected since /repo 1fc1000)
    "B :: blob { a: int, b: str, a: int }\nstart :: fn do end\n",
    "E :: enum A, B int, A str end\nstart :: fn do end\n",
    "start :: fn do\n  B :: blob { a: int, b: B, a: float }\n  E :: enum\n    A\n    B\n    A\n  end\nend\n",
    "start :: fn do\n  f :: fn do\n    if true do\n      B :: blob { x: int,\n x: int }\n    end\n  end\nend\n",
    "B :: blob { a: int, a: int, a: int }\nE :: enum A, A, A end\nstart :: fn do end\n",
    # Context::prev in the loop arm (fixed 6634c32: overflow-checked builds panicked in comments_since_last_statement)
    "start :: fn do\n  if true do loop do break end end\nend\n",
    "start :: fn do\n  if true do loop do break end else end\n  do loop true f' 1,\n end\nend\n",
    "start :: fn do\n  loop loop do break end end\n",
    "// c\nloop",
]


def closure_chain(k):
    """k local functions, each handing the previous one to a higher-order function (every read of a function value
    copies its type; up to /repo 3c0758d the copy doubled per level)"""
    return ("print: fn *X -> void : external\nf6 :: fn q: fn int -> int, p: int -> int do\n  q(p) + p\nend\n"
            "start :: fn do\n  m := 1\n  l0 :: fn p: int -> int do\n    m = p\n    m + 1\n  end\n"
            + "".join("  l%d :: fn p: int -> int do\n    m += p\n    f6(l%d, m)\n  end\n" % (i, i - 1) for i in range(1, k + 1))
            + "  print(f6(l%d, m))\nend\n" % k)


def _nested_calls(d, err=False):
    lines = ["f :: fn g do", "end", "start :: fn do"]
    lines += ["  " * (i + 1) + "f(fn do" for i in range(d)]
    lines.append("  " * (d + 1) + ("1 +" if err else "1"))
    lines += ["  " * (i + 1) + "end)" for i in reversed(range(d))]
    return "\n".join(lines + ["end"]) + "\n"


# calls with function-literal arguments nested in statement position (exponential up to /repo 356c2fa: the statement
# probe parsed everything twice), and lists that the parser used to walk by recursion per item (debug build)
NASTY += [closure_chain(6), closure_chain(24), closure_chain(60), _nested_calls(40), _nested_calls(40, True), _nested_calls(12), _nested_calls(12, True),
          "E :: enum\n" + "".join("  V%d int\n" % i for i in range(3000)) + "end\nstart :: fn do\nend\n",
          "B :: blob(" + ", ".join("*T%d" % i for i in range(3000)) + ") { }\nstart :: fn do\nend\n"]

_model = {}


def build(ctx):
    # the extracted parser model for the parser_total tie component
    ok, out = vlib.coq_make(["Parse/Entry.vo"])
    if not ok:
        return False, out
    ok, exe, out = vlib.build_ocaml("parse", "ExtractParse.v", "parse_driver.ml", "parsemodel")
    _model["exe"] = exe
    return ok, out


def gen_cases(ctx):
    r = vlib.rng(ctx.seed, "c07")
    n = 12000 if ctx.tier == "quick" else 300000
    st = noise_gen.stream(r, n, std_ratio=0.02)
    for s in NASTY:
        st.append(("nasty", {"/main.sy": s}, "nostd,render"))
        st.append(("nasty", {"/main.sy": s}, "std,render"))
    # mutants of generated well-typed programs (deeper into the type checker and the backend)
    for i in range(1500 if ctx.tier == "quick" else 30000):
        src = prog_gen.program(vlib.rng(ctx.seed, "c07-pg-%d" % (i // 4)), 2)
        if i % 4:
            src = noise_gen.mutate(r, src)
        st.append(("typed-mutant", {"/main.sy": src}, "nostd,render"))
    return st


def classify(x):
    k = x.split(" ")[0]
    if k == "OK":
        return None
    if k == "ERR":
        if " EMPTY" in x:
            return "compile returned Err with an empty error list"
        if "RENDERPANIC" in x:
            return "rendering an error panicked"
        return None
    if k == "PANIC":
        return "panic: " + vlib.unhex(x.split(" ")[1]).decode("utf-8", "replace")[:300]
    if k == "TIMEOUT":
        return "no result within the watchdog limit"
    return "abnormal termination: " + x[:100]


def run(ctx, cases, debug=False):
    lines = [noise_gen.case_line(f, flags=fl) for _, f, fl in cases]
    return vlib.harness("compile", lines, timeout_s=30, debug=debug)


# ------------------------------------------------------------------------------------------------
# parser_total: the parser model, run with the fuel bound of C07_parser_total, against the real parser

def _unty(x):
    if isinstance(x, list):
        if len(x) == 2 and x[0] == "ty":
            return _unty(x[1])
        return [_unty(y) for y in x]
    return x


def pt_real(srcs, debug=False):
    """one line per source: 'OK <module sexp>' | 'ERR <distinct syntax-error spans>' | 'SKIP ...' (an error that is
    not a syntax error, e.g. a missing import) | the harness line (PANIC/TIMEOUT)"""
    lines = [noise_gen.case_line({"/main.sy": s}, flags="nostd") for s in srcs]
    out = []
    for o in vlib.harness("tree", lines, timeout_s=30, debug=debug):
        if o.startswith("TREE"):
            txt = re.sub(r"@\d+:\d+:\d+", "", vlib.unhex(o.split(" ")[1]).decode()).strip()
            mods = [m for m in _unty(sylt_gen.sexp_parse("(" + txt + ")")) if m[1] == "file:/main.sy"]
            out.append("OK " + sylt_gen.sexp_str(["module"] + mods[0][3:]) if mods else "SKIP no main module")
        elif o.startswith("ERR"):
            spans = []
            for e in o.split(" ")[1:]:
                f = e.split("|")
                if f[0] != "Syntax" or f[1] != "/main.sy":
                    spans = None
                    break
                sp = "%s:%s:%s" % (f[2], f[3], f[4])
                if sp not in spans:
                    spans.append(sp)
            out.append("SKIP " + o[:80] if spans is None else "ERR " + " ".join(spans))
        else:
            out.append(o[:200])
    return out


def pt_model(srcs):
    res = []
    for o in vlib.model(_model["exe"], ["module"], [vlib.hexs(s) for s in srcs]):
        if o.startswith("OK"):
            res.append("OK " + o.split(" ", 2)[2])
        elif o.startswith("ERR"):
            spans = []
            for sp in o.split(" ")[2:]:
                if sp not in spans:
                    spans.append(sp)
            res.append("ERR " + " ".join(spans))
        else:
            res.append(o[:200])      # FUEL / MODELPANIC: the totality theorem says these cannot happen
    return res


def pt_disagree(real, model):
    if not (model.startswith("OK ") or model.startswith("ERR ")):
        return "model outcome %r (C07_parser_total excludes it)" % model[:40]
    if real.startswith("SKIP"):
        return None
    if sylt_gen.norm_floats(real) != sylt_gen.norm_floats(model):
        return "real parser: %s | model with parse_fuel: %s" % (real[:200], model[:200])
    return None


def pt_sources(ctx, cases):
    srcs = [list(f.values())[0] for _, f, _ in cases if len(f) == 1]
    # generated programs in the surface styles of C14 (4% of their type declarations carry duplicate names)
    r = vlib.rng(ctx.seed, "c07-pt")
    for i in range(300 if ctx.tier == "quick" else 6000):
        on = {f: r.random() < 0.3 for f in sylt_gen.Style.FEATURES}
        srcs.append(sylt_gen.render_program(sylt_gen.gen_program(r, size=r.randint(1, 4)),
                                            sylt_gen.Style(r.randrange(1 << 30), p=r.choice([0.3, 0.6, 0.9]), **on)))
    seen, out = set(), []
    for s in srcs:
        if s not in seen:
            seen.add(s)
            out.append(s)
    if ctx.tier == "quick":
        out = out[:6000] + out[-600:]
    return out


def parser_total_tie(ctx, cases):
    srcs = pt_sources(ctx, cases)
    real, model = pt_real(srcs), pt_model(srcs)
    bad = []
    outcome = collections.Counter()
    for s, a, b in zip(srcs, real, model):
        outcome["real " + a.split(" ")[0] + " / model " + b.split(" ")[0]] += 1
        why = pt_disagree(a, b)
        if why:
            bad.append((s, why))
    if ctx.tier == "thorough" and vlib.build_harness(debug=True)[0]:
        # the parser alone in the overflow-checked build (e.g. `curr - last_statement`), against the same model answers
        step = max(1, len(srcs) // 60000)
        sub = srcs[::step]
        for s, a, b in zip(sub, pt_real(sub, debug=True), pt_model(sub)):
            why = pt_disagree(a, b)
            if why:
                bad.append((s, "debug build: " + why))
    ctx.c07_pt_bad = bad
    return {"name": "parser_total", "ok": not bad, "evaluations": len(srcs), "outcomes": dict(outcome),
            "mismatches": [{"class": "parser_total", "files": {"/main.sy": s[:2000]}, "what": why} for s, why in bad[:5]],
            "rule": "every single-file noise input and generated programs (incl. duplicate blob fields / enum variants): "
                    "whole-file parse by the extracted model with fuel parse_fuel vs sylt_parser::tree: same accept/reject, "
                    "same distinct syntax-error positions, same tree; the model must never answer FUEL or MODELPANIC"}


def debug_sample(cases, per_class=8000):
    """indices into cases: all of the small classes (nasty), per_class evenly spaced members of the others"""
    by = collections.OrderedDict()
    for i, c in enumerate(cases):
        by.setdefault(c[0], []).append(i)
    idx = []
    for cls, l in by.items():
        if len(l) <= per_class:
            idx += l
        else:
            step = len(l) / float(per_class)
            idx += [l[int(k * step)] for k in range(per_class)]
    return sorted(set(idx))


def tie(ctx):
    cases = gen_cases(ctx)
    res = run(ctx, cases)
    bad = [(i, classify(x)) for i, x in enumerate(res) if classify(x)]
    if ctx.tier == "thorough":
        # the overflow-checked build: every hand-written input and an evenly spaced sample of every class of the stream
        ok, out = vlib.build_harness(debug=True)
        if ok:
            idx = debug_sample(cases)
            res2 = run(ctx, [cases[i] for i in idx], debug=True)
            bad += [(i, "debug build: " + classify(x)) for i, x in zip(idx, res2) if classify(x)]
    # the open finding about native stack exhaustion excuses ONLY crashes on inputs nested thousands of levels deep
    if any(kf.get("status") == "open" and kf.get("id") == "C07-native-stack-on-deep-nesting" for kf in vlib.known_findings("C07")):
        bad = [(i, why) for i, why in bad if not (why.endswith("CRASH rc=-6") or "CRASH" in why) or not too_deep(cases[i][1])]
    dist = collections.Counter(c[0] for c in cases)
    outcome = collections.Counter(x.split(" ")[0] for x in res)
    kinds = collections.Counter()
    for x in res:
        if x.startswith("ERR"):
            for e in x.split(" ")[1:]:
                kinds[e.split("|")[0]] += 1
    ctx.c07_bad = [(cases[i], why) for i, why in bad]
    mism = [{"class": cases[i][0], "files": cases[i][1], "what": why} for i, why in bad[:5]]
    distinct = len(set(noise_gen.case_line(f, flags=fl) for _, f, fl in cases if sum(len(s) for s in f.values()) > 20))
    samples = [{"class": cases[i][0], "files": {k: v[:300] for k, v in cases[i][1].items()}, "result": res[i][:120]}
               for i in (1, len(cases) // 2, len(cases) - 1)]
    pt = parser_total_tie(ctx, cases)
    return {"name": "totality" if bad or pt["ok"] else "parser_total", "ok": not bad and pt["ok"],
            "mismatches": mism + pt["mismatches"], "components": {"parser_total": pt},
            "evaluations": len(cases) + pt["evaluations"], "distinct_nontrivial": distinct,
            "rule": "mutated/truncated/spliced programs from /repo/tests, token soup, multi-error programs, multi-file projects with "
                    "missing/conflicting/cyclic imports, hand-written nasty inputs, mutants of generated well-typed programs; with and "
                    "without std; every returned error is rendered; non-trivial = more than 20 bytes of source; distinct by sources+flags",
            "samples": samples,
            "distribution": {"classes": dict(dist), "outcomes": dict(outcome), "error_kinds": dict(kinds.most_common(25))}}


def failing(ctx, file_sets, flags):
    res = vlib.harness("compile", [noise_gen.case_line(f, flags=flags) for f in file_sets], timeout_s=30)
    return [classify(x) is not None for x in res]


def search_parser_total(ctx):
    bad = getattr(ctx, "c07_pt_bad", None)
    if not bad:
        return None
    bad.sort(key=lambda b: len(b[0]))
    src, why = bad[0]

    def fails(cands):
        ss = ["".join(c) for c in cands]
        return [pt_disagree(a, b) is not None for a, b in zip(pt_real(ss), pt_model(ss))]
    small = "".join(vlib.shrink_seq(noise_gen.tokens_of(src), fails, max_rounds=80))
    a, b = pt_real([small])[0], pt_model([small])[0]
    return {"class": "parser_total", "files": {"/main.sy": small}, "what": pt_disagree(a, b) or why,
            "real": a[:300], "model": b[:300], "case_line": noise_gen.case_line({"/main.sy": small}, flags="nostd"),
            "replay_cmd": "write case_line to a file F and run `%s tree F`; model: `%s module` on the hex of the source"
                          % (vlib.HARNESS_BIN, _model.get("exe")),
            "failing_inputs_found": len(bad)}


def search(ctx):
    bad = getattr(ctx, "c07_bad", None)
    if not bad:
        return search_parser_total(ctx)
    bad.sort(key=lambda b: sum(len(s) for s in b[0][1].values()))
    (cls, files, flags), why = bad[0]
    if len(files) == 1:
        (path, src), = files.items()
        toks = noise_gen.tokens_of(src)
        small = vlib.shrink_seq(toks, lambda cands: failing(ctx, [{path: "".join(c)} for c in cands], flags), max_rounds=80)
        files = {path: "".join(small)}
    line = noise_gen.case_line(files, flags=flags)
    res = vlib.harness("compile", [line], timeout_s=30)[0]
    return {"class": cls, "files": files, "flags": flags, "what": classify(res) or why, "case_line": line,
            "replay_cmd": "write case_line to a file F and run `%s compile F`" % vlib.HARNESS_BIN,
            "failing_inputs_found": len(bad)}


def deep_witness(w):
    n = int(w.get("n", 3000))
    if w.get("shape") == "dag-tuple":
        return ("start :: fn do\n    v0 := (1, 2)\n" + "".join("    v%d := (v%d, v%d)\n" % (i, i - 1, i - 1) for i in range(1, n + 1))
                + "    v%d + 1\nend\n" % n)
    if w.get("shape") == "nested-callbacks":
        return ("f :: fn g: fn -> void do g() end\nstart :: fn do\n" + "".join("  " * (i + 1) + "f(fn do\n" for i in range(n))
                + "  " * (n + 1) + "x := 1\n" + "".join("  " * (n - i) + "end)\n" for i in range(n)) + "end\n")
    if w.get("shape") == "enum-variants":
        return "E :: enum\n" + "".join("    V%d,\n" % i for i in range(n)) + "end\nstart :: fn do end\n"
    if w.get("shape") == "sum":
        return "start :: fn do\n  x := " + " + ".join(["1"] * n) + "\nend\n"
    if w.get("shape") == "closure-chain":
        return closure_chain(n)
    return "start :: fn do\n  x := " + "(" * n + "1" + ")" * n + "\nend\n"


def too_deep(files):
    """nesting far beyond anything the generators produce on purpose: thousands of bracket levels or operator-chain
    links (the open finding about native stack exhaustion only excuses crashes on such inputs)"""
    for src in files.values():
        depth = best = 0
        for ch in src:
            if ch in "([{":
                depth += 1
                best = max(best, depth)
            elif ch in ")]}":
                depth = max(0, depth - 1)
        if best >= 1000:
            return True
        if any(len(line) > 30000 for line in src.split("\n")):
            return True
    return False


def replay_known(ctx, kf):
    """the deep-nesting finding is about the `sylt` command (main thread, default stack); the harness compiles on a
    worker thread with a larger stack, so the witness is replayed with the built binary"""
    import subprocess
    import tempfile
    w = kf.get("witness", {})
    if "shape" not in w:
        return False
    ok, out = vlib.build_sylt_bin()
    if not ok:
        return True
    exe = os.path.join(vlib.BUILD, "target", "release", "sylt")
    with tempfile.TemporaryDirectory(dir=os.path.join(vlib.BUILD, "tmp")) as td:
        src = os.path.join(td, "deep.sy")
        open(src, "w").write(deep_witness(w))
        slow = w.get("shape") in ("dag-tuple", "nested-callbacks", "closure-chain")
        import time as _t
        t0 = _t.time()
        try:
            def small_limit():
                import resource
                resource.setrlimit(resource.RLIMIT_AS, (3 << 30, 3 << 30))
            # the exponential witnesses need many GiB: under a 3 GiB address-space limit they abort within seconds
            p = subprocess.run([exe, "--no-std", "-o", os.path.join(td, "deep.lua"), src], capture_output=True, timeout=20 if slow else 120,
                               preexec_fn=small_limit if slow else vlib._limit_memory)
        except subprocess.TimeoutExpired:
            return True
        if slow:
            return _t.time() - t0 > 10 or p.returncode < 0 or p.returncode == 134
    return p.returncode < 0 or p.returncode == 134


def replay(ctx, rep):
    fi = rep.get("failing_input") or {}
    if not fi:
        print("nothing to replay")
        return 0
    vlib.build_harness()
    res = vlib.harness("compile", [fi["case_line"]], timeout_s=30)[0]
    print(res[:300])
    return 1 if classify(res) else 0
