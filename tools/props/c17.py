"""C17 -- tokenizer: tiling and exact positions."""
import itertools
import vlib

GEN = ["GenTokens"]
TRUSTED = [
    "Coq 8.16.1 kernel (coqc); vm_compute for C17_tokens_doc / C17_skip_ok / C17_example; no axioms (Print Assumptions: Closed under the global context)",
    "translator tools/gen_tables.py:gen_tokens (token.rs attributes -> Gen/GenTokens.v; regex subset parser; Unicode Nd table read from regex-syntax 0.6.25)",
    "Lex/Logos.v as the model of the Logos 0.12 runtime (longest match, priority ties, Error over the longest viable prefix, callback failure -> Error): modelled, not verified; validated by the correspondence",
    "extraction: ExtrOcamlBasic + ExtrOcamlString only, no Extract Constant/Inductive of our own; ocaml/lex_driver.ml (UTF-8 decode/encode, printing)",
    "harness/src/main.rs (prints the public token list of sylt_tokenizer::string_to_tokens)",
    "modelled, not verified: Rust's i64/f64/bool FromStr and str::trim (Unicode White_Space)",
]
ASSUMPTIONS = [
    "input is valid UTF-8 (a Rust &str); the model works on Unicode scalar values",
    "float payloads are compared numerically (Python float of the slice vs Rust {:?}), never as text",
]
EXPLANATION = ("Theorems over the lexer model for all inputs (tiling, longest match + priority, exact line/column "
               "of start and end); table tie GenTokens == documented token set by vm_compute; differential run of the "
               "extracted model against sylt_tokenizer::string_to_tokens.")

ALPHA = ['a', 'e', '_', 'A', '1', '0', '.', '"', "'", '/', '\n', '\r', '\t', ' ', '+', '-', '=', '<', '>', '!', ':',
         '(', 'ö', '€', '😀', '٣', '#', ',',
         # characters that are in NO token of the documented set (must come out as Error tokens, never be skipped)
         '\\', ';', '$', '@', '&', '%', '^', '~', '`', '\x0c', '\x00', '*']
SPELL = ["void", "bool", "int", "float", "str", "nil", "true", "false", "if", "elif", "else", "case", "is", "break",
         "continue", "in", "loop", "blob", "externblob", "enum", "ret", "+", "-", "*", "/", "+=", "-=", "*=", "/=",
         "#", ":", "::", ":=", "=", "==", "!=", "<=>", "<!>", "(", ")", "[", "]", "{", "}", "do", "end", ">", ">=",
         "<", "<=", "fn", "pu", "and", "or", "not", "!", "?", "|", "'", ",", ".", "->", "\n", "use", "from", "as",
         "external", "\\", "\\\n", "\\\r\n", ";", "$", "@", "&", "%", "^", "~", "`", "\x0c", "\x0b", "\x00", "<<<<<<<", ">>>>>>>", "// c ", "//", " ", "\t", "\r", "  ", "x", "foo_1", "_", "X9", "12",
         "007", "1.5", ".5", "3.", "1e5", "2e-3", "7e+2", "1e", "9223372036854775807", "9223372036854775808",
         "\"s\"", "\"a\nb\"", "\"\"", "\"ö\n\n€\"", "\"", "ö", "€", "😀", "٣", "٣.٣", "$", "&", " ", " "]


def gen_cases(ctx):
    r = vlib.rng(ctx.seed, "c17")
    cases = []
    maxlen = 3 if ctx.tier == "quick" else 4
    for n in range(0, maxlen + 1):
        for t in itertools.product(ALPHA, repeat=n):
            cases.append(("exh%d" % n, "".join(t)))
    nsoup = 6000 if ctx.tier == "quick" else 120000
    for _ in range(nsoup):
        k = r.randint(1, 30)
        cases.append(("soup", "".join(r.choice(SPELL) for _ in range(k))))
    nrand = 4000 if ctx.tier == "quick" else 80000
    for _ in range(nrand):
        k = r.randint(1, 200 if r.random() < 0.2 else 24)
        cases.append(("rand", "".join(r.choice(ALPHA) for _ in range(k))))
    # multi-line literal stress: strings with newlines followed by tokens on the same and later lines
    for _ in range(1500 if ctx.tier == "quick" else 30000):
        parts = []
        for _ in range(r.randint(1, 6)):
            x = r.random()
            if x < 0.4:
                inner = "".join(r.choice(['a', 'ö', '\n', ' ', '€', '\r', '/']) for _ in range(r.randint(0, 8)))
                parts.append('"' + inner + '"')
            elif x < 0.5:
                parts.append("// " + "".join(r.choice(['a', 'ö', ' ', '"']) for _ in range(r.randint(0, 6))) + "\n")
            else:
                parts.append(r.choice(SPELL))
            parts.append(r.choice(["", " ", "\n", "\t"]))
        cases.append(("mls", "".join(parts)))
    return cases


def norm_line(line):
    """canonical form of a token line: float payloads become repr(float)"""
    if not line.startswith("T"):
        return line
    out = ["T"]
    for tok in line.split(" ")[1:]:
        f = tok.split("/")
        if f[0] == "Float":
            try:
                f[1] = repr(float(vlib.unhex(f[1]).decode("utf-8")))
            except Exception:
                pass
        out.append("/".join(f))
    return " ".join(out)


_model = {}


def build(ctx):
    ok, exe, out = vlib.build_ocaml("lex", "ExtractLex.v", "lex_driver.ml", "lexmodel")
    _model["exe"] = exe
    return ok, out


def tie(ctx):
    cases = gen_cases(ctx)
    srcs = [c[1] for c in cases]
    hx = [vlib.hexs(s) for s in srcs]
    real = vlib.harness("lex", hx)
    mod = vlib.model(_model["exe"], ["gen"], hx)
    ctx.c17 = {"cases": cases, "hx": hx, "real": real}
    mism = []
    dist = {}
    nontrivial = set()
    for (cls, s), h, a, b in zip(cases, hx, real, mod):
        dist[cls] = dist.get(cls, 0) + 1
        na, nb = norm_line(a), norm_line(b)
        if na != nb:
            if len(mism) < 10:
                mism.append({"class": cls, "source": s, "real": na, "model": nb})
        if a.count(" ") >= 2:
            nontrivial.add(h)
    kinds = {}
    for a in real:
        for tok in a.split(" ")[1:]:
            k = tok.split("/")[0]
            kinds[k] = kinds.get(k, 0) + 1
    dist["token_kinds_seen"] = len(kinds)
    dist["error_tokens"] = kinds.get("Error", 0)
    dist["multi_line_tokens"] = sum(1 for a in real for tok in a.split(" ")[1:]
                                    if len(tok.split("/")) == 6 and tok.split("/")[2] != tok.split("/")[3])
    samples = [{"source": srcs[i], "tokens": norm_line(real[i])} for i in (len(srcs) - 1, len(srcs) // 2, len(srcs) // 3)]
    return {"name": "lex", "ok": not mism, "mismatches": mism, "evaluations": len(cases),
            "distinct_nontrivial": len(nontrivial),
            "rule": "exhaustive strings over a %d-symbol alphabet (incl. 12 characters outside every token) up to length %d, token-spelling soup, random strings "
                    "up to 200 chars, multi-line-literal stress; non-trivial = at least two tokens; distinct by source text"
                    % (len(ALPHA), 3 if ctx.tier == "quick" else 4),
            "samples": samples, "distribution": dist}


# ---- independent oracle on the real implementation -------------------------------------------

def oracle_positions(src, line):
    """Independent line index: every span must point at text that tiles the source."""
    if not line.startswith("T"):
        return "tokenizer did not return: " + line[:80]
    starts = [0]
    for i, ch in enumerate(src):
        if ch == "\n":
            starts.append(i + 1)
    prev_end = 0
    for tok in line.split(" ")[1:]:
        kind, pl, l0, l1, c0, c1 = tok.split("/")
        l0, l1, c0, c1 = int(l0), int(l1), int(c0), int(c1)
        if not (1 <= l0 <= len(starts) and 1 <= l1 <= len(starts)):
            return "line out of range in %s" % tok
        a = starts[l0 - 1] + c0 - 1
        b = starts[l1 - 1] + c1 - 1
        if not (prev_end <= a < b <= len(src)):
            return "span of %s does not follow the previous token (start %d end %d prev_end %d)" % (tok, a, b, prev_end)
        # the start must really be on line l0, the last char on line l1
        if src.count("\n", 0, a) + 1 != l0 or src.count("\n", 0, b - 1) + 1 != l1:
            return "line of %s wrong" % tok
        gap = src[prev_end:a]
        if gap.strip(" \t\r") != "":
            return "non-whitespace %r skipped before %s" % (gap, tok)
        text = src[a:b]
        if kind == "Identifier" and vlib.unhex(pl).decode() != text:
            return "identifier text mismatch %r" % text
        if kind == "String" and vlib.unhex(pl).decode() != text[1:-1]:
            return "string payload mismatch %r" % text
        if kind == "Newline" and text != "\n":
            return "newline token text %r" % text
        if kind == "Int":
            try:
                same = text.isascii() and int(text) == int(vlib.unhex(pl).decode())
            except ValueError:      # the span does not even cover a numeral
                same = False
            if not same:
                return "int payload mismatch %r" % text
        prev_end = b
    if src[prev_end:].strip(" \t\r") != "":
        return "non-whitespace %r after the last token" % src[prev_end:]
    return None


def failing(ctx, srcs):
    """list of failure descriptions (None = property holds) for the real implementation on srcs"""
    hx = [vlib.hexs(s) for s in srcs]
    real = vlib.harness("lex", hx)
    doc = vlib.model(_model["exe"], ["doc"], hx) if _model.get("exe") else [None] * len(hx)
    out = []
    for s, a, d in zip(srcs, real, doc):
        why = oracle_positions(s, a)
        if why is None and d is not None and norm_line(a) != norm_line(d):
            why = "differs from the documented longest-match tokenisation: real=%s doc=%s" % (norm_line(a), norm_line(d))
        out.append(why)
    return out


def search(ctx):
    cases = gen_cases(ctx)
    srcs = [c[1] for c in cases]
    res = failing(ctx, srcs)
    bad = [(s, w) for s, w in zip(srcs, res) if w]
    if not bad:
        return None
    bad.sort(key=lambda x: len(x[0]))
    src, why = bad[0]
    small = vlib.shrink_seq(list(src), lambda cands: [w is not None for w in failing(ctx, ["".join(c) for c in cands])])
    small = "".join(small)
    why2 = failing(ctx, [small])[0]
    real = vlib.harness("lex", [vlib.hexs(small)])[0]
    return {"source": small, "source_hex": vlib.hexs(small), "what": why2 or why, "real_tokens": norm_line(real),
            "replay_cmd": "printf '%%s\\n' %s > /tmp/c && %s lex /tmp/c" % (vlib.hexs(small), vlib.HARNESS_BIN),
            "failing_inputs_found": len(bad)}


def replay_known(ctx, kf):
    return False


def replay(ctx, rep):
    fi = rep.get("failing_input") or {}
    if not fi:
        print("nothing to replay: no failing input in this file")
        return 0
    vlib.build_harness()
    build(ctx)
    w = failing(ctx, [fi["source"]])[0]
    print("replay:", repr(fi["source"]), "->", w or "property holds")
    return 1 if w else 0
