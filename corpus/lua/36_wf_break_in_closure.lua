-- expect-wf[jit]: bad no loop to break
-- expect-wf[5.3]: bad break outside a loop
while true do
  local function f() break end
  f()
end
