-- expect: int	str	frac	bool	nil	nil
-- expect: 1
-- expect: 2	two
-- expect: 2	zero	neg
-- expect: 2	big
-- expect: k1	k2	nil
-- expect: fn	nil
-- expect: nil	int
-- expect: 1	3
-- expect: 3	a	c
-- expect: 1a 2b 3c
-- expect: s	n	n	s
local t = {}
t[1] = "int"; t["1"] = "str"; t[1.5] = "frac"; t[true] = "bool"
print(t[1], t["1"], t[1.5], t[true], t[false], t[2])
print(#t)
t[2] = "two"
print(#t, t[2])
-- negative and zero keys are not part of the length
t[0] = "zero"; t[-1] = "neg"
print(#t, t[0], t[-1])
-- large sparse key
t[1000000] = "big"
print(#t, t[1000000])
-- tables and functions as keys: identity
local k1, k2 = {}, {}
t[k1] = "k1"; t[k2] = "k2"
print(t[k1], t[k2], t[{}])
local fn = function() end
t[fn] = "fn"
print(t[fn], t[print])
-- assigning nil removes
t["1"] = nil
print(t["1"], t[1])
-- overwrite keeps one entry
local cnt = 0
local o = {a = 1}
o.a = 2; o.a = 3
for _ in pairs(o) do cnt = cnt + 1 end
print(cnt, o.a)
-- array filled out of order: length once contiguous
local arr = {}
arr[3] = "c"; arr[2] = "b"; arr[1] = "a"
print(#arr, arr[1], arr[3])
local seen = {}
for i, v in ipairs(arr) do seen[#seen + 1] = i .. v end
print(table.concat(seen, " "))
-- string keys that look like numbers stay strings
local d = {}
d["10"] = "s"; d[10] = "n"
print(d["10"], d[10], d[tonumber("10")], d[tostring(10)])
