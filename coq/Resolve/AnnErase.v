(* Erasure of type annotations on the parser's AST (C08 at the resolver): the annotation of a definition
   (`x: T = e`, `x: T : e`) is rewritten by `hd`, the annotation of a function parameter by `hp`, the return type of a
   function literal by `hr`.  `implied` forgets the annotation (TypeKind::Implied with the annotation's span);
   the identity keeps it: every choice of which KINDS of annotations to erase is an instance.  Blob / enum
   declarations, external definitions and the type names in blob instantiations are left alone.  Definitions only. *)
From Coq Require Import String List NArith ZArith Bool.
From Sylt Require Import Syntax.Resolved Resolve.PAst.
Import ListNotations.

Definition implied (t : pty) : pty := PTImplied (pty_span t).

Section Erase.
Variables hd hp hr : pty -> pty.

Fixpoint ea_e (e : pexpr) : pexpr :=
  match e with
  | PGet a sp => PGet (ea_a a) sp
  | PAdd a b sp => PAdd (ea_e a) (ea_e b) sp
  | PSub a b sp => PSub (ea_e a) (ea_e b) sp
  | PMul a b sp => PMul (ea_e a) (ea_e b) sp
  | PDiv a b sp => PDiv (ea_e a) (ea_e b) sp
  | PNeg a sp => PNeg (ea_e a) sp
  | PComparison a k b sp => PComparison (ea_e a) k (ea_e b) sp
  | PAssertEq a b sp => PAssertEq (ea_e a) (ea_e b) sp
  | PAnd a b sp => PAnd (ea_e a) (ea_e b) sp
  | POr a b sp => POr (ea_e a) (ea_e b) sp
  | PNot a sp => PNot (ea_e a) sp
  | PParenthesis a sp => PParenthesis (ea_e a) sp
  | PIf brs sp => PIf (map ea_b brs) sp
  | PCase tm brs ft sp =>
      PCase (ea_e tm) (map ea_c brs) (match ft with Some b => Some (map ea_s b) | None => None end) sp
  | PFunction nm ps rt body pure sp =>
      PFunction nm (map (fun p => (fst p, hp (snd p))) ps) (hr rt) (map ea_s body) pure sp
  | PBlob b fields sp => PBlob b (map (fun f => (fst f, ea_e (snd f))) fields) sp
  | PTuple vs sp => PTuple (map ea_e vs) sp
  | PList vs sp => PList (map ea_e vs) sp
  | PFloat r sp => PFloat r sp
  | PInt z sp => PInt z sp
  | PStr s sp => PStr s sp
  | PBool b sp => PBool b sp
  | PNil sp => PNil sp
  end
with ea_a (a : passign) : passign :=
  match a with
  | ARead i sp => ARead i sp
  | AVariant x v value sp => AVariant (ea_a x) v (ea_e value) sp
  | ACall f args sp => ACall (ea_a f) (map ea_e args) sp
  | AArrowCall x f args sp => AArrowCall (ea_e x) (ea_a f) (map ea_e args) sp
  | AAccess x i sp => AAccess (ea_a x) i sp
  | AIndex x i sp => AIndex (ea_a x) (ea_e i) sp
  | AExpression e sp => AExpression (ea_e e) sp
  end
with ea_b (b : pifbranch) : pifbranch :=
  match b with
  | PIfBranch c body sp => PIfBranch (match c with Some c => Some (ea_e c) | None => None end) (map ea_s body) sp
  end
with ea_c (b : pcasebranch) : pcasebranch :=
  match b with
  | PCaseBranch pat v body => PCaseBranch pat v (map ea_s body)
  end
with ea_s (s : pstmt) : pstmt :=
  match s with
  | PAssignment op t v sp => PAssignment op (ea_a t) (ea_e v) sp
  | PDefinition i k t v sp => PDefinition i k (hd t) (ea_e v) sp
  | PLoop c b sp => PLoop (ea_e c) (ea_s b) sp
  | PRet (Some v) sp => PRet (Some (ea_e v)) sp
  | PBlock ss sp => PBlock (map ea_s ss) sp
  | PStatementExpression v sp => PStatementExpression (ea_e v) sp
  | other => other
  end.

Definition ea_module (m : pmodule) : pmodule := mkModule (m_file m) (m_file_id m) (map ea_s (m_stmts m)).
Definition erase_ann (ast : past) : past := map ea_module ast.

End Erase.

(* erase every annotation of the three kinds *)
Definition erase_all_annotations : past -> past := erase_ann implied implied implied.
