(* LuaWf: the model of "the interpreter loads this chunk", per dialect.  Definitions only.
     Lua53  (reference): PUC-Rio Lua 5.3 (lparser.c / llex.c)
     LuaJIT (information): LuaJIT 2.x without 5.2 compatibility (lj_parse.c / lj_lex.c)

   Differences between the dialects:
                                     Lua53                          LuaJIT
     `break`                         anywhere in a block            last statement of its block
     upvalues per function           255 (MAXUPVAL)                 60 (LJ_MAX_UPVAL)
     empty statement `;`             allowed                        syntax error
     `//`                            operator                       syntax error
     `\u{XXX}` in strings            allowed                        invalid escape
     bytes >= 128 in names           not allowed                    allowed
   Common: `return` last in its block, `goto` keyword, 200 locals per function (LUAI_MAXVARS /
   LJ_MAX_LOCVAR), unknown escapes and raw newlines in quoted strings are errors, the goto/label rules
   below (lparser.c of 5.3 and lj_parse.c implement the same resolution).
   Not supported in either dialect (answer WfBad "...unsupported: ..."): `...`, method syntax, and
   in Lua53 the bitwise operators and hexadecimal floats.

   lua_wf d src = WfOk  iff  (the FIRST violated item gives the reason; 7 is checked before 2-6)
   1. the source tokenizes and parses (LuaLex / LuaParse).  This already covers: reserved words used as
      a variable, field or label name; assignment to something that is not a name or an index
      expression; an expression statement that is not a call; string literals with a raw
      newline, a lone trailing backslash or an invalid escape; malformed numbers;
   2. `return` is the last statement of its block; in LuaJIT so is `break` (Lua 5.1 rule);
   3. `break` occurs inside a loop of the same function;
   4. goto/labels, as lj_parse.c resolves them: a label may not be declared twice in the same block;
      every goto has a label with its name in the same block or in an enclosing block of the same
      function; a *forward* goto must not jump into the scope of a local, i.e. no local may be
      declared in the label's block between the goto (or the nested block containing it) and the
      label -- except that a label followed only by labels up to the end of a block that is not a
      repeat-until body counts as outside the scope of the block's locals;
   5. no function (the main chunk included) has more than 200 simultaneously active local
      variables (parameters, the 3 hidden control variables of a for loop and its declared
      variables included), LJ_MAX_LOCVAR;
   6. no function refers to more than 60 (LuaJIT) / 255 (Lua53) distinct variables of enclosing
      functions, directly or through its nested functions.

   7. the nesting depth of the source is at most 199 levels of the recursive-descent parser (section 7
      below says exactly which productions count).

   Not modelled: the limit on registers/"function or expression too complex" (250 slots), on
   constants (65536), on jump distances. *)
From Coq Require Import String Ascii List NArith Bool.
From Sylt Require Import Lua.LuaAst Lua.LuaLex Lua.LuaParse Lua.LuaNum.
Import ListNotations.
Local Open Scope string_scope.

Inductive wf_result := WfOk | WfBad (reason : string).

Definition max_locals : N := 200%N.
Definition max_upvalues (d : dialect) : nat := if is53 d then 255 else 60.

(* inl reason | inr result *)
Definition wres (A : Type) : Type := (string + A)%type.

Definition wbind {A B : Type} (r : wres A) (f : A -> wres B) : wres B :=
  match r with inl m => inl m | inr a => f a end.

Local Notation "'do*' x <- e ; f" := (wbind e (fun x => f))
  (at level 200, x pattern, e at level 100, f at level 200).

(* static context at a program point *)
Record wctx := mkCtx {
  x_scope : list (string * (N * nat));   (* visible locals, innermost first: name -> (uid, depth) *)
  x_depth : nat;                         (* nesting depth of the current function, main chunk = 0 *)
  x_nact : N;                            (* active locals of the current function *)
  x_loop : bool }.                       (* inside a loop of the current function *)

(* state threaded through the whole chunk *)
Record wst := mkW {
  w_next : N;                            (* next fresh variable id *)
  w_upv : list (list N) }.               (* upvalue sets of the functions being checked, innermost first *)

Fixpoint lookup (x : string) (sc : list (string * (N * nat))) : option (N * nat) :=
  match sc with
  | [] => None
  | (y, r) :: sc' => if String.eqb x y then Some r else lookup x sc'
  end.

Fixpoint mem_n (x : N) (l : list N) : bool :=
  match l with [] => false | y :: l' => if (x =? y)%N then true else mem_n x l' end.

(* record uid as an upvalue of the k innermost functions *)
Fixpoint add_upvalue (d : dialect) (uid : N) (k : nat) (upv : list (list N)) : wres (list (list N)) :=
  match k, upv with
  | O, _ => inr upv
  | S k', [] => inr []
  | S k', s :: rest =>
      let s' := if mem_n uid s then s else uid :: s in
      if Nat.ltb (max_upvalues d) (List.length s')
      then inl (if is53 d then "function has more than 255 upvalues" else "function has more than 60 upvalues")
      else do* rest' <- add_upvalue d uid k' rest; inr (s' :: rest')
  end.

(* a use of variable x *)
Definition reference (d : dialect) (c : wctx) (x : string) (w : wst) : wres wst :=
  match lookup x (x_scope c) with
  | None => inr w                                   (* global *)
  | Some (uid, dp) =>
      if Nat.ltb dp (x_depth c) then
        do* upv <- add_upvalue d uid (x_depth c - dp) (w_upv w);
        inr (mkW (w_next w) upv)
      else inr w
  end.

(* declare locals, one at a time *)
Fixpoint declare (xs : list string) (c : wctx) (w : wst) : wres (wctx * wst) :=
  match xs with
  | [] => inr (c, w)
  | x :: xs' =>
      if (max_locals <=? x_nact c)%N then inl "function has more than 200 local variables"
      else declare xs'
             (mkCtx ((x, (w_next w, x_depth c)) :: x_scope c) (x_depth c) (x_nact c + 1)%N (x_loop c))
             (mkW (w_next w + 1)%N (w_upv w))
  end.

Definition labels := list (string * N).            (* name, number of active locals there *)

Fixpoint has_label (l : string) (ls : labels) : bool :=
  match ls with [] => false | (l', _) :: ls' => if String.eqb l l' then true else has_label l ls' end.

Fixpoint only_labels (b : block) : bool :=
  match b with
  | [] => true
  | SLabel _ :: b' => only_labels b'
  | _ => false
  end.

(* pending forward gotos named l are resolved by a label with `slot` active locals *)
Fixpoint resolve (l : string) (slot : N) (pending : labels) : wres labels :=
  match pending with
  | [] => inr []
  | (g, gslot) :: rest =>
      if String.eqb g l then
        if (gslot <? slot)%N then inl ("<goto " ++ l ++ "> jumps into the scope of a local")
        else resolve l slot rest
      else do* rest' <- resolve l slot rest; inr ((g, gslot) :: rest')
  end.

(* gotos leaving a nested block: resolved by a label already seen here, else pending here *)
Fixpoint merge_pending (inner : labels) (seen : labels) (nact : N) (pending : labels) : labels :=
  match inner with
  | [] => pending
  | (g, _) :: rest =>
      if has_label g seen then merge_pending rest seen nact pending
      else merge_pending rest seen nact ((g, nact) :: pending)
  end.

Definition out_of_fuel {A : Type} : wres A := inl "internal: lua_wf out of fuel".

Fixpoint wf_expr (d : dialect) (n : nat) (c : wctx) (e : expr) (w : wst) {struct n} : wres wst :=
  match n with
  | O => out_of_fuel
  | S n =>
      match e with
      | ENil | ETrue | EFalse | ENum _ _ | EStr _ => inr w
      | EVar x => reference d c x w
      | EIndex a k => do* w1 <- wf_expr d n c a w; wf_expr d n c k w1
      | ECall f args => do* w1 <- wf_expr d n c f w; wf_exprs d n c args w1
      | EFunc ps b => wf_func d n c ps b w
      | EBin _ a b => do* w1 <- wf_expr d n c a w; wf_expr d n c b w1
      | EUn _ a => wf_expr d n c a w
      | ETable fs => wf_fields d n c fs w
      | EParen a => wf_expr d n c a w
      end
  end

with wf_exprs (d : dialect) (n : nat) (c : wctx) (es : list expr) (w : wst) {struct n} : wres wst :=
  match n with
  | O => out_of_fuel
  | S n =>
      match es with
      | [] => inr w
      | e :: es' => do* w1 <- wf_expr d n c e w; wf_exprs d n c es' w1
      end
  end

with wf_fields (d : dialect) (n : nat) (c : wctx) (fs : list field) (w : wst) {struct n} : wres wst :=
  match n with
  | O => out_of_fuel
  | S n =>
      match fs with
      | [] => inr w
      | FPos e :: fs' => do* w1 <- wf_expr d n c e w; wf_fields d n c fs' w1
      | FKey k v :: fs' =>
          do* w1 <- wf_expr d n c k w;
          do* w2 <- wf_expr d n c v w1;
          wf_fields d n c fs' w2
      end
  end

(* a function literal in context c *)
with wf_func (d : dialect) (n : nat) (c : wctx) (ps : list string) (b : block) (w : wst) {struct n} : wres wst :=
  match n with
  | O => out_of_fuel
  | S n =>
      let c0 := mkCtx (x_scope c) (S (x_depth c)) 0%N false in
      do* (c1, w1) <- declare ps c0 (mkW (w_next w) ([] :: w_upv w));
      do* (_, pending, w2) <- wf_block d n c1 (x_nact c1) false b [] [] w1;
      match pending with
      | (l, _) :: _ => inl ("undefined label '" ++ l ++ "'")
      | [] => inr (mkW (w_next w2) (tl (w_upv w2)))
      end
  end

(* a nested block b entered in context ci (the enclosing statement list is in context c with the
   labels `seen` so far); `cond` is the until-condition of a repeat, checked in the scope at the end of b *)
with wf_sub (d : dialect) (n : nat) (c ci : wctx) (is_repeat : bool) (b : block) (cond : option expr)
            (seen pending : labels) (w : wst) {struct n} : wres (labels * wst) :=
  match n with
  | O => out_of_fuel
  | S n =>
      do* (cend, inner, w1) <- wf_block d n ci (x_nact ci) is_repeat b [] [] w;
      do* w2 <- (match cond with Some e => wf_expr d n cend e w1 | None => inr w1 end);
      inr (merge_pending inner seen (x_nact c) pending, w2)
  end

(* the statements of one block, in order.  entry = active locals when the block was entered;
   seen = labels of this block passed so far; pending = unresolved forward gotos.
   Returns the context at the end of the block, the gotos that leave it, and the state. *)
with wf_block (d : dialect) (n : nat) (c : wctx) (entry : N) (is_repeat : bool) (b : block) (seen pending : labels) (w : wst)
              {struct n} : wres (wctx * labels * wst) :=
  match n with
  | O => out_of_fuel
  | S n =>
      match b with
      | [] => inr (c, pending, w)
      | s :: rest =>
          let loop_ctx (ci : wctx) := mkCtx (x_scope ci) (x_depth ci) (x_nact ci) true in
          match s with
          | SLocal xs es =>
              do* w1 <- wf_exprs d n c es w;
              do* (c1, w2) <- declare xs c w1;
              wf_block d n c1 entry is_repeat rest seen pending w2
          | SAssign ts es =>
              do* w1 <- wf_exprs d n c ts w;
              do* w2 <- wf_exprs d n c es w1;
              wf_block d n c entry is_repeat rest seen pending w2
          | SCall f args =>
              do* w1 <- wf_expr d n c f w;
              do* w2 <- wf_exprs d n c args w1;
              wf_block d n c entry is_repeat rest seen pending w2
          | SLocalFun x ps fb =>
              do* (c1, w1) <- declare [x] c w;
              do* w2 <- wf_func d n c1 ps fb w1;
              wf_block d n c1 entry is_repeat rest seen pending w2
          | SDo blk =>
              do* (pending1, w1) <- wf_sub d n c c false blk None seen pending w;
              wf_block d n c entry is_repeat rest seen pending1 w1
          | SWhile cond blk =>
              do* w1 <- wf_expr d n c cond w;
              do* (pending1, w2) <- wf_sub d n c (loop_ctx c) false blk None seen pending w1;
              wf_block d n c entry is_repeat rest seen pending1 w2
          | SRepeat blk cond =>
              do* (pending1, w1) <- wf_sub d n c (loop_ctx c) true blk (Some cond) seen pending w;
              wf_block d n c entry is_repeat rest seen pending1 w1
          | SIf cond t e =>
              do* w1 <- wf_expr d n c cond w;
              do* (pending1, w2) <- wf_sub d n c c false t None seen pending w1;
              do* (pending2, w3) <- wf_sub d n c c false e None seen pending1 w2;
              wf_block d n c entry is_repeat rest seen pending2 w3
          | SNumFor x lo hi st blk =>
              do* w1 <- wf_expr d n c lo w;
              do* w2 <- wf_expr d n c hi w1;
              do* w3 <- (match st with Some e => wf_expr d n c e w2 | None => inr w2 end);
              do* (ci, w4) <- declare ["(for index)"; "(for limit)"; "(for step)"; x] c w3;
              do* (pending1, w5) <- wf_sub d n c (loop_ctx ci) false blk None seen pending w4;
              wf_block d n c entry is_repeat rest seen pending1 w5
          | SGenFor xs es blk =>
              do* w1 <- wf_exprs d n c es w;
              do* (ci, w2) <- declare ("(for generator)" :: "(for state)" :: "(for control)" :: xs) c w1;
              do* (pending1, w3) <- wf_sub d n c (loop_ctx ci) false blk None seen pending w2;
              wf_block d n c entry is_repeat rest seen pending1 w3
          | SReturn es =>
              match rest with
              | _ :: _ => inl "'return' is not the last statement of its block"
              | [] => do* w1 <- wf_exprs d n c es w; inr (c, pending, w1)
              end
          | SBreak =>
              match rest with
              | _ :: _ =>
                  if is53 d then
                    (if x_loop c then wf_block d n c entry is_repeat rest seen pending w
                     else inl "break outside a loop")
                  else inl "'break' is not the last statement of its block"
              | [] => if x_loop c then inr (c, pending, w)
                      else inl (if is53 d then "break outside a loop" else "no loop to break")
              end
          | SGoto l =>
              if has_label l seen then wf_block d n c entry is_repeat rest seen pending w
              else wf_block d n c entry is_repeat rest seen ((l, x_nact c) :: pending) w
          | SLabel l =>
              if has_label l seen then inl ("duplicate label '" ++ l ++ "'") else
              let slot := if only_labels rest && negb is_repeat then entry else x_nact c in
              do* pending1 <- resolve l slot pending;
              wf_block d n c entry is_repeat rest ((l, slot) :: seen) pending1 w
          end
      end
  end.

(* ------------------------------------------------------------------------------------------ *)
(* 7. nesting levels of the recursive-descent parsers.

   Lua 5.3 (lparser.c): `enterlevel` does ++L->nCcalls and fails with
       "main function has more than 200 C levels" / "function at line N has more than 200 C levels"
   when nCcalls > LUAI_MAXCCALLS = 200.  It is called by exactly two productions:
       statement   (so a statement inside k nested blocks is at level k + 1), and
       subexpr     (every expression read by `expr`, every right operand of a binary operator, every
                    operand of a unary operator).
   nCcalls is 1 when the stand-alone interpreter parses a chunk (the parser runs inside the C function
   pmain, called through lua_pcall) and it is never reset for a nested function body: `body` is reached
   from subexpr -> simpleexp or from a statement, so levels accumulate through function bodies.
   Hence a chunk loads iff its depth (defined below) is at most 199.

   LuaJIT (lj_parse.c): `synlevel_begin` does ++ls->level and fails with
       "chunk has too many syntax levels"
   when level >= LJ_MAX_XLEVEL = 200.  It is called by parse_chunk (once per block, the main chunk and
   function bodies included, even when the block is empty) and by expr_binop (= subexpr above); the
   level starts at 0 and is not reset per function.  Hence, again, depth at most 199, where a block
   counts 1 for itself instead of 1 for each of its statements (same number unless the block is empty).

   Depth of the concrete syntax, computed on the AST:
     D e   one `subexpr` invocation reading e:                       1 + W e
     W e   e as the running operand inside an invocation:
             a op b  ->  max (W a) (D b)      (the left operand is accumulated by the same invocation's
                                               loop, the right one is read by a nested invocation)
             op a    ->  D a
             else    ->  S e
     S e   simpleexp / suffixedexp:
             constants, names 0;  (a) -> D a;  a.name -> S a;  a[k] -> max (S a) (D k);
             f(args) -> max (S f) (max D args);  f{fields} -> max (S f) (fields);
             function ... end -> B body;  {fields}: a positional or named field e costs D e, [k] = v costs
             max (D k) (D v)
     B b   a block: Lua53 max over its statements of 1 + T s;  LuaJIT 1 + max over its statements of T s
     T s   inside one statement: the D of its expressions (conditions, right-hand sides, loop bounds,
           returned values), the S of a call statement and of assignment targets, number of targets - 1
           for a multiple assignment (restassign / parse_assignment add nvars to the level), the B of its
           blocks and function bodies.

   What the AST cannot tell apart is resolved as the Sylt compiler writes it (and stated here):
     * ECall f [ETable _] is read as f{...} (what lua.rs emits: __LIST{ }, __TUPLE{ }, ...); the form
       f({...}) is one level deeper in the real parsers;
     * an index by a string that is a valid name is read as a.name; a["name"] is one level deeper when
       that key is the deepest point;
     * `elseif` is counted like `else if ... end` (one level more than the real parsers; the compiler
       only emits the nested form, for which the count is exact);
     * `function a.b() ... end` is counted like `a.b = function() ... end` (one level more than real);
     * f"str" is counted like f("str");
     * the desugared method call e:m(args) is recognised and counted as written: max (S e) (args).
   Not counted: consecutive labels / `;` after a label (each nests one level in both parsers). *)

Definition max_levels : N := 199%N.

Definition is_name_string (d : dialect) (s : string) : bool :=
  match s with
  | EmptyString => false
  | String c r =>
      is_alpha d c && negb (is_keyword s)
      && (fix all (r : string) : bool :=
            match r with EmptyString => true | String c' r' => is_alnum d c' && all r' end) r
  end.

(* the shape LuaParse gives to a method call  obj:m(margs):
     ECall (EFunc ["(self)"] [SReturn [ECall (EIndex (EVar "(self)") (EStr m)) (EVar "(self)" :: margs)]]) [obj] *)
Definition method_parts (f : expr) (args : list expr) : option (expr * list expr) :=
  match f, args with
  | EFunc [ms] [SReturn [ECall (EIndex (EVar ms1) (EStr _)) (EVar ms2 :: margs)]], [obj] =>
      if String.eqb ms method_self && String.eqb ms1 method_self && String.eqb ms2 method_self
      then Some (obj, margs) else None
  | _, _ => None
  end.

(* fns = false: function bodies count 0 (used to tell whether the main function alone is too deep) *)
Fixpoint lvD (d : dialect) (fns : bool) (n : nat) (e : expr) {struct n} : wres N :=
  match n with
  | O => out_of_fuel
  | S n => do* w <- lvW d fns n e; inr (1 + w)%N
  end

with lvW (d : dialect) (fns : bool) (n : nat) (e : expr) {struct n} : wres N :=
  match n with
  | O => out_of_fuel
  | S n =>
      match e with
      | EBin _ a b => do* x <- lvW d fns n a; do* y <- lvD d fns n b; inr (N.max x y)
      | EUn _ a => lvD d fns n a
      | _ => lvS d fns n e
      end
  end

with lvS (d : dialect) (fns : bool) (n : nat) (e : expr) {struct n} : wres N :=
  match n with
  | O => out_of_fuel
  | S n =>
      match e with
      | ENil | ETrue | EFalse | ENum _ _ | EStr _ | EVar _ => inr 0%N
      | EParen a => lvD d fns n a
      | EIndex a k =>
          do* x <- lvS d fns n a;
          match k with
          | EStr s => if is_name_string d s then inr x else inr (N.max x 1)
          | _ => do* y <- lvD d fns n k; inr (N.max x y)
          end
      | ECall f args =>
          match method_parts f args with
          | Some (obj, margs) =>
              (* obj:m(margs) as desugared by the parser *)
              do* x <- lvS d fns n obj; do* y <- lvArgs d fns n margs; inr (N.max x y)
          | None => do* x <- lvS d fns n f; do* y <- lvArgs d fns n args; inr (N.max x y)
          end
      | EFunc _ b => if fns then lvB d fns n b else inr 0%N
      | ETable fs => lvFields d fns n fs
      | EBin _ _ _ | EUn _ _ => lvW d fns n e       (* not produced by the parser in this position *)
      end
  end

(* the arguments of a call *)
with lvArgs (d : dialect) (fns : bool) (n : nat) (args : list expr) {struct n} : wres N :=
  match n with
  | O => out_of_fuel
  | S n =>
      match args with
      | [ETable fs] => lvFields d fns n fs
      | _ => lvExprs d fns n args
      end
  end

(* max of D over a list of expressions *)
with lvExprs (d : dialect) (fns : bool) (n : nat) (es : list expr) {struct n} : wres N :=
  match n with
  | O => out_of_fuel
  | S n =>
      match es with
      | [] => inr 0%N
      | e :: es' => do* x <- lvD d fns n e; do* y <- lvExprs d fns n es'; inr (N.max x y)
      end
  end

with lvFields (d : dialect) (fns : bool) (n : nat) (fs : list field) {struct n} : wres N :=
  match n with
  | O => out_of_fuel
  | S n =>
      match fs with
      | [] => inr 0%N
      | FPos e :: fs' => do* x <- lvD d fns n e; do* y <- lvFields d fns n fs'; inr (N.max x y)
      | FKey k v :: fs' =>
          do* xk <- (match k with
                     | EStr s => if is_name_string d s then inr 0%N else inr 1%N
                     | _ => lvD d fns n k
                     end);
          do* xv <- lvD d fns n v;
          do* y <- lvFields d fns n fs';
          inr (N.max (N.max xk xv) y)
      end
  end

(* a block *)
with lvB (d : dialect) (fns : bool) (n : nat) (b : block) {struct n} : wres N :=
  match n with
  | O => out_of_fuel
  | S n =>
      if is53 d then lvStmts d fns n 1%N b
      else do* x <- lvStmts d fns n 0%N b; inr (1 + x)%N
  end

(* max over the statements of  per + T s *)
with lvStmts (d : dialect) (fns : bool) (n : nat) (per : N) (b : block) {struct n} : wres N :=
  match n with
  | O => out_of_fuel
  | S n =>
      match b with
      | [] => inr 0%N
      | s :: b' => do* x <- lvT d fns n s; do* y <- lvStmts d fns n per b'; inr (N.max (per + x) y)
      end
  end

(* inside one statement *)
with lvT (d : dialect) (fns : bool) (n : nat) (s : stmt) {struct n} : wres N :=
  match n with
  | O => out_of_fuel
  | S n =>
      match s with
      | SLocal _ es => lvExprs d fns n es
      | SAssign ts es =>
          do* x <- lvTargets d fns n ts;
          do* y <- lvExprs d fns n es;
          inr (N.max (N.max x (N.of_nat (List.length ts) - 1)) y)
      | SCall f args => lvS d fns n (ECall f args)
      | SLocalFun _ _ b => if fns then lvB d fns n b else inr 0%N
      | SDo b => lvB d fns n b
      | SWhile c b => do* x <- lvD d fns n c; do* y <- lvB d fns n b; inr (N.max x y)
      | SRepeat b c => do* x <- lvB d fns n b; do* y <- lvD d fns n c; inr (N.max x y)
      | SIf c t e =>
          do* x <- lvD d fns n c; do* y <- lvB d fns n t; do* z <- lvB d fns n e;
          inr (N.max x (N.max y z))
      | SNumFor _ lo hi st b =>
          do* x <- lvExprs d fns n (lo :: hi :: match st with Some e => [e] | None => [] end);
          do* y <- lvB d fns n b; inr (N.max x y)
      | SGenFor _ es b => do* x <- lvExprs d fns n es; do* y <- lvB d fns n b; inr (N.max x y)
      | SReturn es => lvExprs d fns n es
      | SBreak | SGoto _ | SLabel _ => inr 0%N
      end
  end

(* assignment targets are suffixed expressions *)
with lvTargets (d : dialect) (fns : bool) (n : nat) (ts : list expr) {struct n} : wres N :=
  match n with
  | O => out_of_fuel
  | S n =>
      match ts with
      | [] => inr 0%N
      | e :: ts' => do* x <- lvS d fns n e; do* y <- lvTargets d fns n ts'; inr (N.max x y)
      end
  end.

Definition levels_ok (d : dialect) (fuel : nat) (b : block) : wf_result :=
  match lvB d true fuel b with
  | inl m => WfBad m
  | inr depth =>
      if (depth <=? max_levels)%N then WfOk
      else if is53 d then
        match lvB d false fuel b with
        | inr dm => if (dm <=? max_levels)%N then WfBad "function has more than 200 C levels"
                    else WfBad "main function has more than 200 C levels"
        | inl m => WfBad m
        end
      else WfBad "chunk has too many syntax levels"
  end.

Definition wf_chunk (d : dialect) (fuel : nat) (b : block) : wf_result :=
  match levels_ok d fuel b with
  | WfBad m => WfBad m
  | WfOk =>
      match wf_block d fuel (mkCtx [] O 0%N false) 0%N false b [] [] (mkW 0%N [[]]) with
      | inl m => WfBad m
      | inr (_, (l, _) :: _, _) => WfBad ("undefined label '" ++ l ++ "'")
      | inr (_, [], _) => WfOk
      end
  end.

Definition lua_wf (d : dialect) (src : string) : wf_result :=
  match parse_lua d src with
  | ParseErr l m => WfBad ("line " ++ n_to_dec l ++ ": " ++ m)
  | ParseOk b => wf_chunk d (2 * String.length src + 100) b
  end.
