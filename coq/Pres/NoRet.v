(* Programs of the fragment have no `ret`: no evaluation in the reference interpreter ends with
   RAbrupt (CReturn _).  (break / continue can leave a block: they are caught by the enclosing loop.) *)
From Coq Require Import String Ascii List NArith ZArith QArith Bool Lia.
From Sylt Require Import Syntax.Resolved.
From Sylt Require Sem.Values Sem.Runtime Sem.SyltSem.
From Sylt Require Import Pres.Frag Pres.SimExpr Pres.LowerShape Pres.SimExprProofs Pres.NoExit.
Import ListNotations.

Definition noret {A} (r : SyltSem.res A) : Prop :=
  match r with SyltSem.RAbrupt (SyltSem.CReturn _) => False | _ => True end.

Lemma noab_noret {A} (r : SyltSem.res A) : noab r -> noret r.
Proof. destruct r as [a|o|[| |v]]; cbn; auto. Qed.

Lemma noret_bind {A B} (m : SyltSem.M A) (k : A -> SyltSem.M B) st r st' :
  SyltSem.bind m k st = (r, st') ->
  (forall a st1, m st = (a, st1) -> noret a) ->
  (forall a st1, m st = (SyltSem.RVal a, st1) -> k a st1 = (r, st') -> noret r) -> noret r.
Proof.
  unfold SyltSem.bind. destruct (m st) as [[a|o|c] st1] eqn:E; intros H H1 H2.
  - eapply H2; [reflexivity | exact H].
  - inversion H; subst. exact I.
  - specialize (H1 _ _ eq_refl). inversion H; subst. destruct c; auto.
Qed.

Section NoRet.
Variable pv : N.
Variable sv : N.
Variable bound : N.
Variable fl : list (N * nat).

Definition NR_eval (n : nat) : Prop :=
  forall k sc e x st r st', frag_expr pv sv bound fl k sc x = true -> SyltSem.eval n e x st = (r, st') -> noret r.
Definition NR_exec (n : nat) : Prop :=
  forall k sc sc' e s st r st', frag_stmt pv sv bound fl k sc s = Some sc' -> SyltSem.exec n e s st = (r, st') -> noret r.
Definition NR_execs (n : nat) : Prop :=
  forall k sc sc' e ss st r st', frag_stmts pv sv bound fl k sc ss = Some sc' -> SyltSem.exec_block n e ss st = (r, st') -> noret r.
Definition NR_bv (n : nat) : Prop :=
  forall k sc sc' e ss st r st', frag_stmts pv sv bound fl k sc ss = Some sc' -> SyltSem.block_value n e ss st = (r, st') -> noret r.

Ltac leaf := intros; apply noab_noret;
  first [ eapply noab_truth; eassumption | eapply noab_snapshot; eassumption | eapply noab_binop_val; eassumption
        | eapply noab_as_value; eassumption | eapply noab_lift; eassumption | eapply noab_apply; eassumption ].

Lemma NR_eval_succ n : NR_eval n -> NR_bv n -> NR_eval (S n).
Proof.
  intros IH IHb k sc e x st r st' Hf Hev.
  destruct k as [|k]; [discriminate|].
  destruct x; try discriminate Hf; cbn [frag_expr] in Hf.
  - (* ERead *)
    cbn [SyltSem.eval] in Hev.
    destruct (SyltSem.lookup e var); [|inversion Hev; subst; exact I].
    unfold SyltSem.read_cell in Hev. destruct (nth_error (SyltSem.cells st) n0); inversion Hev; subst; exact I.
  - (* ECall *)
    cbn [SyltSem.eval] in Hev.
    destruct x; try discriminate Hf.
    assert (Hargs : forallb (frag_expr pv sv bound fl k sc) args = true).
    { destruct (var =? pv)%N.
      - destruct args as [|a [|? ?]]; try discriminate Hf. frag_split Hf. cbn [forallb]. rewrite Hfr. reflexivity.
      - destruct (fun_arity fl var); [|discriminate Hf]. frag_split Hf. exact Hfr. }
    clear Hf.
    eapply noret_bind; [exact Hev | |].
    + intros a0 st1 H. destruct n as [|n']; [cbn in H; inversion H; subst; exact I|]. cbn [SyltSem.eval] in H.
      destruct (SyltSem.lookup e var); [|inversion H; subst; exact I].
      unfold SyltSem.read_cell in H. destruct (nth_error (SyltSem.cells st) n); inversion H; subst; exact I.
    + intros fv st1 _ H. eapply noret_bind; [exact H | |].
      * clear H Hev. revert st1. induction args as [|a args IHa]; intros st1 a0 st2 H'; cbn [SyltSem.mapM] in H'.
        -- inversion H'; subst; exact I.
        -- cbn [forallb] in Hargs. apply andb_prop in Hargs as [Hfa Hfs].
           eapply noret_bind; [exact H' | intros; eapply IH; eassumption |]. intros y st3 _ H3.
           eapply noret_bind; [exact H3 | intros; eapply IHa; eassumption |]. intros ys st4 _ H4. inversion H4; subst; exact I.
      * leaf.
  - (* EBinOp *)
    cbn [SyltSem.eval] in Hev. frag_split Hf.
    assert (Ha : forall st0 r0 st1, SyltSem.eval n e x1 st0 = (r0, st1) -> noret r0) by (intros st0 r0 st1 H; exact (IH k sc e x1 st0 r0 st1 Hfr0 H)).
    assert (Hb : forall st0 r0 st1, SyltSem.eval n e x2 st0 = (r0, st1) -> noret r0) by (intros st0 r0 st1 H; exact (IH k sc e x2 st0 r0 st1 Hfr H)).
    destruct op; try discriminate Hf;
      (eapply noret_bind; [exact Hev | intros; eapply Ha; eassumption |]); intros va st1 _ H1.
    all: try (eapply noret_bind; [exact H1 | intros; eapply Hb; eassumption |]; intros vb st2 _ H2;
              eapply noret_bind; [exact H2 | leaf |]; intros xa st3 _ H3;
              eapply noret_bind; [exact H3 | leaf |]; intros xb st4 _ H4).
    all: try (eapply noret_bind; [exact H4 | leaf |]; intros rv st5 _ H5; inversion H5; subst; exact I).
    + (* <=> *) cbv beta in H4. destruct (Runtime.rt_eq xa xb); inversion H4; subst; exact I.
    + (* and *) eapply noret_bind; [exact H1 | leaf |]. intros ba st2 _ H2.
      cbv beta in H2. destruct ba; [eapply Hb; exact H2 | inversion H2; subst; exact I].
    + (* or *) eapply noret_bind; [exact H1 | leaf |]. intros ba st2 _ H2.
      cbv beta in H2. destruct ba; [inversion H2; subst; exact I | eapply Hb; exact H2].
  - (* EUniOp *)
    cbn [SyltSem.eval] in Hev.
    assert (Ha : forall st0 r0 st1, SyltSem.eval n e x st0 = (r0, st1) -> noret r0) by (intros st0 r0 st1 H; exact (IH k sc e x st0 r0 st1 Hf H)).
    destruct op; (eapply noret_bind; [exact Hev | intros; eapply Ha; eassumption |]); intros va st1 _ H1.
    + eapply noret_bind; [exact H1 | leaf |]. intros xa st2 _ H2.
      eapply noret_bind; [exact H2 | leaf |]. intros rv st3 _ H3. inversion H3; subst; exact I.
    + eapply noret_bind; [exact H1 | leaf |]. intros ba st2 _ H2. inversion H2; subst; exact I.
  - (* EIf *)
    change (frag_branches pv sv bound fl k sc branches = true) in Hf.
    rewrite seval_if in Hev. clear sp.
    revert k st Hf Hev. induction branches as [|[[cond|] body bsp] brs IHbrs]; intros k st Hf Hev.
    + cbn in Hev. inversion Hev; subst; exact I.
    + destruct k as [|k]; [discriminate|]. rewrite frag_branches_some in Hf. frag_split Hf.
      destruct (frag_stmts pv sv bound fl k sc body) as [scb|] eqn:Hfb; [|discriminate Hfr0].
      cbn [if_go] in Hev.
      eapply noret_bind; [exact Hev | intros; eapply IH; eassumption |]. intros c st1 _ H1.
      eapply noret_bind; [exact H1 | leaf |]. intros bc st2 _ H2. cbv beta in H2.
      destruct bc; [eapply IHb; eassumption | eapply IHbrs; eassumption].
    + destruct k as [|k]; [discriminate|]. rewrite frag_branches_none in Hf. destruct brs; [|discriminate Hf].
      destruct (frag_stmts pv sv bound fl k sc body) as [scb|] eqn:Hfb; [|discriminate Hf].
      cbn [if_go] in Hev. eapply IHb; eassumption.
  - cbn [SyltSem.eval] in Hev. inversion Hev; subst; exact I.
  - cbn [SyltSem.eval] in Hev. inversion Hev; subst; exact I.
Qed.

Lemma NR_exec_succ n : NR_eval n -> NR_execs n -> NR_exec (S n).
Proof.
  intros IHe IHss k sc sc' e s st r st' Hf Hev.
  destruct k as [|k]; [discriminate|].
  destruct s; try discriminate Hf.
  - (* SAssignment *)
    destruct target; try discriminate Hf. rewrite frag_stmt_assign in Hf.
    destruct (assign_op op && memN var sc && frag_expr pv sv bound fl k sc value)%bool eqn:Hc; [|discriminate Hf]. frag_split Hc.
    cbn [SyltSem.exec] in Hev. destruct (SyltSem.lookup e var) as [cv|]; [|inversion Hev; subst; exact I].
    eapply noret_bind; [exact Hev | intros; eapply IHe; eassumption |]. intros nv st1 _ H1.
    eapply noret_bind; [exact H1 | |].
    + intros a st2 H. destruct op; try discriminate Hc; try (inversion H; subst; exact I).
      all: eapply noret_bind; [exact H | intros ? ? Hr; unfold SyltSem.read_cell in Hr; destruct (nth_error (SyltSem.cells st1) cv); inversion Hr; subst; exact I |];
        intros old st3 _ H3;
        (eapply noret_bind; [exact H3 | leaf |]); intros xo st4 _ H4;
        (eapply noret_bind; [exact H4 | leaf |]); intros xn st5 _ H5;
        (eapply noret_bind; [exact H5 | leaf |]); intros xx st6 _ H6; inversion H6; subst; exact I.
    + intros rr st2 _ H2. eapply noret_bind; [exact H2 | intros ? ? Hw; inversion Hw; subst; exact I |].
      intros ? st3 _ H3. inversion H3; subst; exact I.
  - (* SDefinition *)
    destruct (frag_stmt_def _ _ _ _ _ _ _ _ _ _ _ _ _ Hf) as (_ & _ & Hfe & _).
    cbn [SyltSem.exec] in Hev.
    eapply noret_bind; [exact Hev | intros ? ? Hn; inversion Hn; subst; exact I |]. intros c st1 _ H1.
    eapply noret_bind; [exact H1 | intros; eapply IHe; eassumption |]. intros v st2 _ H2.
    eapply noret_bind; [exact H2 | intros ? ? Hn; inversion Hn; subst; exact I |]. intros ? st3 _ H3. inversion H3; subst; exact I.
  - (* SLoop *)
    rewrite frag_stmt_loop in Hf.
    destruct (noexit_expr k condition && frag_expr pv sv bound fl k sc condition && is_some (frag_stmts pv sv bound fl k sc body))%bool eqn:Hc; [|discriminate Hf].
    frag_split Hc. destruct (frag_stmts pv sv bound fl k sc body) as [scb|] eqn:Hfb; [|discriminate Hfr].
    rewrite exec_loop_eq in Hev. generalize dependent st. generalize n at 2.
    induction n0 as [|m IHm]; intros st Hev.
    + cbn in Hev. inversion Hev; subst; exact I.
    + rewrite loop_go_S in Hev.
      eapply noret_bind; [exact Hev | intros; eapply IHe; eassumption |]. intros c st1 _ H1.
      eapply noret_bind; [exact H1 | leaf |]. intros bc st2 _ H2. cbv beta in H2.
      destruct bc; [|inversion H2; subst; exact I].
      destruct (SyltSem.exec_block n e body st2) as [[e2|o|[| |v]] st3] eqn:Heb.
      * eapply IHm; exact H2.
      * inversion H2; subst; exact I.
      * inversion H2; subst; exact I.
      * eapply IHm; exact H2.
      * exfalso. exact (IHss k sc scb e body st2 _ st3 Hfb Heb).
  - (* SBreak *) cbn in Hev. inversion Hev; subst; exact I.
  - (* SContinue *) cbn in Hev. inversion Hev; subst; exact I.
  - (* SBlock *)
    rewrite frag_stmt_block in Hf. destruct (frag_stmts pv sv bound fl k sc statements) eqn:Hs; [|discriminate Hf].
    cbn [SyltSem.exec] in Hev.
    eapply noret_bind; [exact Hev | intros; eapply IHss; eassumption |]. intros ? st1 _ H1. inversion H1; subst; exact I.
  - (* SStatementExpression *)
    rewrite frag_stmt_sexpr in Hf. destruct (frag_expr pv sv bound fl k sc value) eqn:Hfe; [|discriminate Hf].
    cbn [SyltSem.exec] in Hev.
    eapply noret_bind; [exact Hev | intros; eapply IHe; eassumption |]. intros ? st1 _ H1. inversion H1; subst; exact I.
Qed.

Lemma NR_execs_succ n : NR_exec n -> NR_execs n -> NR_execs (S n).
Proof.
  intros IH1 IH2 k sc sc' e ss st r st' Hf Hev.
  destruct ss as [|s ss]; cbn [SyltSem.exec_block] in Hev; [inversion Hev; subst; exact I|].
  destruct k as [|k]; [discriminate|]. rewrite frag_stmts_cons in Hf.
  destruct (frag_stmt pv sv bound fl k sc s) as [sc1|] eqn:Hs; [|discriminate Hf].
  eapply noret_bind; [exact Hev | intros; eapply IH1; eassumption |]. intros e1 st1 _ H1. cbv beta in H1.
  exact (IH2 k sc1 sc' e1 ss st1 r st' Hf H1).
Qed.

Lemma NR_bv_succ n : NR_eval n -> NR_execs n -> NR_bv (S n).
Proof.
  intros IHe IHss k sc sc' e body st r st' Hf Hev. cbn [SyltSem.block_value] in Hev.
  assert (Hdefault : SyltSem.bind (SyltSem.exec_block n e body) (fun _ : senv => SyltSem.ret (SyltSem.SV Values.VLuaNil)) st = (r, st') -> noret r).
  { intros H. eapply noret_bind; [exact H | intros; eapply IHss; eassumption |]. intros ? ? _ H1. inversion H1; subst; exact I. }
  destruct (rev body) as [|last init_rev] eqn:Hrev; [apply Hdefault; exact Hev|].
  assert (Hbody : body = rev init_rev ++ [last]) by (rewrite <- (rev_involutive body), Hrev; reflexivity).
  destruct last; try (apply Hdefault; exact Hev).
  rewrite Hbody in Hf. destruct (frag_stmts_app pv sv bound fl _ _ _ _ _ Hf) as (sc1 & k' & Hfi & Hfl).
  destruct k' as [|k']; [discriminate|]. rewrite frag_stmts_cons in Hfl.
  destruct k' as [|k'']; [discriminate|]. rewrite frag_stmt_sexpr in Hfl. destruct (frag_expr pv sv bound fl k'' sc1 value) eqn:Hfe; [|discriminate Hfl].
  eapply noret_bind; [exact Hev | |].
  - intros a0 st1 H. exact (IHss k sc sc1 e _ st a0 st1 Hfi H).
  - intros e1 st1 _ H1. cbv beta in H1. exact (IHe k'' sc1 e1 value st1 r st' Hfe H1).
Qed.

Theorem NR_all n : NR_eval n /\ NR_exec n /\ NR_execs n /\ NR_bv n.
Proof.
  induction n as [|n (IHe & IHs & IHss & IHb)].
  - repeat split; intros until st'; intros _ H; cbn in H; inversion H; subst; exact I.
  - split; [apply NR_eval_succ; assumption|]. split; [apply NR_exec_succ; assumption|].
    split; [apply NR_execs_succ; assumption | apply NR_bv_succ; assumption].
Qed.

End NoRet.
