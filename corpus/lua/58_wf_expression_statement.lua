-- expect-wf: bad syntax error
local x = 1
x
