(* The import pass repeated to a fixpoint (Resolver.import_pass true): the rounds terminate within the stated
   number of rounds, and the result does not depend on the order of the modules.

   The use statements and from-items of a program are flattened into a list of `item`s; a quiet round and the
   reporting pass are `for_each` over that list (quiet_round_items, report_items).  One item either fails,
   or finds its target name occupied, or inserts one name (exec_eq, import_name_spec).

   Order independence goes through the set of DERIVABLE facts `der st0 its f x v` ("x is bound to v in the
   table of f"): the least set that contains the tables before the pass and is closed under the items.  It
   only depends on which items there are, not on their order.  Every table entry of every state reached is
   derivable (Sound); a state in which a quiet round changes nothing (Closed) and on which the reporting pass
   succeeds is exactly the set of derivable facts, which is then a function. *)
From Coq Require Import String List NArith ZArith Bool Lia Arith Permutation.
From Sylt Require Import Syntax.Resolved Resolve.PAst Resolve.Resolver Resolve.Modules Resolve.ModulesProofs
     Resolve.ImportProofs.
Import ListNotations.
Local Open Scope list_scope.

(* ---- equality of names ---- *)
Lemma span_eqb_eq a b : span_eqb a b = true <-> a = b.
Proof.
  destruct a, b; unfold span_eqb; cbn. rewrite !andb_true_iff, !N.eqb_eq. split.
  - intros [[[[-> ->] ->] ->] ->]. reflexivity.
  - intros H; inversion H; auto.
Qed.

Lemma name_eqb_eq a b : name_eqb a b = true <-> a = b.
Proof.
  destruct a, b; cbn; try (split; discriminate).
  - rewrite N.eqb_eq. split; [intros ->; reflexivity|intros H; inversion H; reflexivity].
  - rewrite andb_true_iff, fol_eqb_eq, span_eqb_eq. split; [intros [-> ->]; reflexivity|intros H; inversion H; auto].
Qed.

(* ---- monad laws used for the flattening ---- *)
Lemma bind_ret_tt (m : M unit) st : bind m (fun _ => ret tt) st = m st.
Proof. unfold bind, ret. destruct (m st) as [[[] s]| | |]; reflexivity. Qed.

Lemma bind_ext {A B} (m m' : M A) (k k' : A -> M B) st :
  (forall s, m s = m' s) -> (forall a s, k a s = k' a s) -> bind m k st = bind m' k' st.
Proof. intros Hm Hk. unfold bind. rewrite Hm. destruct (m' st) as [[a s]| | |]; auto. Qed.

Lemma for_each_ext {X} (h h' : X -> M unit) l :
  (forall x st, h x st = h' x st) -> forall st, for_each h l st = for_each h' l st.
Proof.
  intros H. induction l as [|x l IH]; intros st; cbn [for_each]; [reflexivity|].
  apply bind_ext; [apply H|intros _ s; apply IH].
Qed.

Lemma for_each_app {X} (h : X -> M unit) l1 l2 st :
  for_each h (l1 ++ l2) st = bind (for_each h l1) (fun _ => for_each h l2) st.
Proof.
  revert st. induction l1 as [|x l1 IH]; intros st; cbn [for_each app].
  - reflexivity.
  - unfold bind at 1 2 3. destruct (h x st) as [[u s]| | |]; auto. rewrite IH. reflexivity.
Qed.

Lemma for_each_flat_map {X Y} (h : Y -> M unit) (k : X -> list Y) l st :
  for_each h (flat_map k l) st = for_each (fun x => for_each h (k x)) l st.
Proof.
  revert st. induction l as [|x l IH]; intros st; cbn [flat_map for_each]; [reflexivity|].
  rewrite for_each_app. apply bind_ext; [reflexivity|intros _ s; apply IH].
Qed.

Lemma for_each_map {X Y} (h : Y -> M unit) (k : X -> Y) l st :
  for_each h (map k l) st = for_each (fun x => h (k x)) l st.
Proof.
  revert st. induction l as [|x l IH]; intros st; cbn [map for_each]; [reflexivity|].
  apply bind_ext; [reflexivity|intros _ s; apply IH].
Qed.

(* ---- the items of a program ---- *)
Inductive item :=
| ItUse (f : file_or_lib) (nm : usename) (file : file_or_lib) (sp : span)
| ItFrom (f file : file_or_lib) (sp : span) (x : ident) (alias : option ident).

Definition exec (i : item) : M unit :=
  match i with
  | ItUse f nm file sp => resolve_global_variables f [PUse (usename_ident nm) nm file sp]
  | ItFrom f file sp x alias => from_imports f file sp [(x, alias)]
  end.

Definition items_s (f : file_or_lib) (s : pstmt) : list item :=
  match s with
  | PUse _ nm file sp => [ItUse f nm file sp]
  | PFromUse _ imps file sp => map (fun p => ItFrom f file sp (fst p) (snd p)) imps
  | _ => []
  end.
Definition items_m (m : pmodule) : list item := flat_map (items_s (m_file m)) (m_stmts m).
Definition items (ast : past) : list item := flat_map items_m ast.

Lemma from_imports_for_each f file sp imps st :
  from_imports f file sp imps st = for_each (fun p => from_imports f file sp [p]) imps st.
Proof.
  revert st. induction imps as [|[nm al] rest IH]; intros st; [reflexivity|].
  cbn [from_imports for_each]. unfold bind, get_ns. destruct (fol_get (st_ns st) file) as [t|]; [|reflexivity].
  destruct (ns_get t (i_name nm)); [|reflexivity].
  destruct (import_name f _ n ECollisionFrom _ st) as [[[] s]| | |]; try reflexivity.
  cbn. apply IH.
Qed.

Lemma quiet_stmt_items f s st : quiet_stmt f s st = for_each (fun i => try_ (exec i)) (items_s f s) st.
Proof.
  destruct s; try reflexivity.
  - cbn [quiet_stmt items_s for_each]. rewrite bind_ret_tt. reflexivity.
  - cbn [quiet_stmt items_s]. rewrite for_each_map. apply for_each_ext. intros [x al] s. reflexivity.
Qed.

Lemma quiet_round_items ast st : quiet_round ast st = for_each (fun i => try_ (exec i)) (items ast) st.
Proof.
  unfold quiet_round, items. rewrite for_each_flat_map. apply for_each_ext. intros m s.
  unfold quiet_pass, items_m. rewrite for_each_flat_map. apply for_each_ext. intros x s'. apply quiet_stmt_items.
Qed.

Lemma rgv_items f ss st : resolve_global_variables f ss st = for_each exec (flat_map (items_s f) ss) st.
Proof.
  revert st. induction ss as [|s ss IH]; intros st; [reflexivity|].
  cbn [resolve_global_variables flat_map]. rewrite for_each_app.
  apply bind_ext; [|intros _ s'; apply IH]. intros s0.
  destruct s; try reflexivity.
  - cbn [items_s for_each exec resolve_global_variables]. rewrite !bind_ret_tt. reflexivity.
  - cbn [items_s]. rewrite for_each_map, from_imports_for_each. apply for_each_ext. intros [x al] s'. reflexivity.
Qed.

Lemma report_items ast st : report_pass ast st = for_each exec (items ast) st.
Proof.
  unfold report_pass, items. rewrite for_each_flat_map. apply for_each_ext. intros m s. apply rgv_items.
Qed.

Lemma items_length ast : length (items ast) = import_items ast.
Proof.
  unfold items, import_items. induction ast as [|m ast IH]; cbn; [reflexivity|]. rewrite app_length, IH. f_equal.
  unfold items_m. induction (m_stmts m) as [|s ss IHs]; cbn; [reflexivity|]. rewrite app_length, IHs. f_equal.
  destruct s; cbn; try reflexivity. apply map_length.
Qed.

(* ---- what one item does ---- *)
Definition tfile (i : item) : file_or_lib := match i with ItUse f _ _ _ => f | ItFrom f _ _ _ _ => f end.
Definition tident (i : item) : ident :=
  match i with
  | ItUse _ nm _ _ => usename_ident nm
  | ItFrom _ _ _ x alias => match alias with Some a => a | None => x end
  end.
Definition tname (i : item) : string := i_name (tident i).
Definition coll_kind (i : item) : ekind := match i with ItUse _ _ _ _ => ECollisionUse | ItFrom _ _ _ _ _ => ECollisionFrom end.
Definition coll_span (i : item) : span := match i with ItUse _ _ _ sp => sp | ItFrom _ _ _ _ _ => i_span (tident i) end.

(* the value the item wants to insert, or its error *)
Definition src (st : rstate) (i : item) : res name :=
  match i with
  | ItUse f nm file sp =>
      match fol_get (st_ns st) file with
      | None => err1 ENoNamespace (i_span (usename_ident nm))
      | Some _ => Ok (NNamespace file (i_span (usename_ident nm)))
      end
  | ItFrom f file sp x alias =>
      match fol_get (st_ns st) file with
      | None => err1 ENoNamespace sp
      | Some t => match ns_get t (i_name x) with None => err1 ECannotFind (i_span x) | Some v => Ok v end
      end
  end.

Lemma exec_eq i st :
  exec i st = match src st i with
              | Ok v => import_name (tfile i) (tname i) v (coll_kind i) (coll_span i) st
              | Err e => Err e | Panic s => Panic s | OutOfFuel => OutOfFuel
              end.
Proof.
  destruct i as [f nm file sp|f file sp x alias]; cbn [exec src resolve_global_variables from_imports].
  - rewrite bind_ret_tt. unfold bind, get_ns. destruct (fol_get (st_ns st) file); reflexivity.
  - unfold bind at 1. unfold get_ns. destruct (fol_get (st_ns st) file) as [t|]; [|reflexivity].
    destruct (ns_get t (i_name x)) as [v|]; [|reflexivity]. rewrite bind_ret_tt. reflexivity.
Qed.

Definition get (st : rstate) (f : file_or_lib) (x : string) : option name :=
  match fol_get (st_ns st) f with Some t => ns_get t x | None => None end.

Definition same_rest (st st' : rstate) : Prop :=
  st_stack st' = st_stack st /\ st_vars st' = st_vars st /\ st_next st' = st_next st /\ st_n2f st' = st_n2f st.

Definition count_ns (l : list (file_or_lib * nstable)) : nat := fold_right (fun p n => length (snd p) + n) 0 l.

Lemma count_set l f t t' : fol_get l f = Some t -> count_ns (fol_set l f t') + length t = count_ns l + length t'.
Proof.
  unfold count_ns. induction l as [|[k v] l IH]; cbn [fol_get fol_set]; [discriminate|].
  destruct (fol_eqb f k) eqn:E; cbn [fold_right snd].
  - intros H. inversion H; subst. lia.
  - intros H. specialize (IH H). lia.
Qed.

Lemma fol_get_set_none {V} (l : list (file_or_lib * V)) f v g : fol_get l f <> None ->
  (fol_get (fol_set l f v) g = None <-> fol_get l g = None).
Proof.
  intros Hf. destruct (fol_eqb g f) eqn:E.
  - apply fol_eqb_eq in E. subst g. rewrite fol_get_set_same. split; [discriminate|intros H; contradiction].
  - rewrite fol_get_set_other; [reflexivity|]. intros ->. rewrite (proj2 (fol_eqb_eq f f) eq_refl) in E. discriminate.
Qed.

(* the state after inserting f.nm := v *)
Record ins (f : file_or_lib) (nm : string) (v : name) (st st' : rstate) : Prop := mkIns {
  ins_get : forall g y, get st' g y = if fol_eqb g f && String.eqb y nm then Some v else get st g y;
  ins_dom : forall g, fol_get (st_ns st') g = None <-> fol_get (st_ns st) g = None;
  ins_cnt : names_count st' = S (names_count st);
  ins_rest : same_rest st st'
}.

Lemma import_name_spec f nm v k sp st :
  fol_get (st_ns st) f <> None ->
  match get st f nm with
  | Some old => import_name f nm v k sp st = if name_eqb old v then Ok (tt, st) else err1 k sp
  | None => exists st', import_name f nm v k sp st = Ok (tt, st') /\ ins f nm v st st'
  end.
Proof.
  intros Hf. unfold get, import_name. destruct (fol_get (st_ns st) f) as [t|] eqn:Ht; [|contradiction].
  destruct (ns_get t nm) as [old|] eqn:Hn; [reflexivity|].
  eexists. split; [reflexivity|]. unfold set_namespace. constructor; cbn [st_ns st_stack st_vars st_next st_n2f].
  - intros g y. unfold get. cbn [st_ns]. destruct (fol_eqb g f) eqn:E; cbn [andb].
    + apply fol_eqb_eq in E. subst g. rewrite fol_get_set_same, Ht. cbn [ns_get]. reflexivity.
    + rewrite fol_get_set_other; [reflexivity|]. intros ->. rewrite (proj2 (fol_eqb_eq f f) eq_refl) in E. discriminate.
  - intros g. apply fol_get_set_none. rewrite Ht. discriminate.
  - unfold names_count. cbn [st_ns]. fold (count_ns (fol_set (st_ns st) f ((nm, v) :: t))). fold (count_ns (st_ns st)).
    pose proof (count_set _ _ _ ((nm, v) :: t) Ht) as Hc. cbn [length] in Hc. lia.
  - repeat split.
Qed.

(* ---------------------------------------------------------------------------------------------- *)
(* lists *)
Lemma filter_len_le {X} (p q : X -> bool) l :
  (forall x, In x l -> q x = true -> p x = true) -> length (filter q l) <= length (filter p l).
Proof.
  induction l as [|x l IH]; intros H; cbn; [lia|].
  assert (IH' : length (filter q l) <= length (filter p l)) by (apply IH; intros y Hy; apply H; right; exact Hy).
  destruct (q x) eqn:Eq.
  - rewrite (H x (or_introl eq_refl) Eq). cbn. lia.
  - destruct (p x); cbn; lia.
Qed.

Lemma filter_len_lt {X} (p q : X -> bool) l a :
  (forall x, In x l -> q x = true -> p x = true) -> In a l -> p a = true -> q a = false ->
  length (filter q l) < length (filter p l).
Proof.
  induction l as [|x l IH]; intros H Ha Hp Hq; [destruct Ha|].
  assert (Hl : forall y, In y l -> q y = true -> p y = true) by (intros y Hy; apply H; right; exact Hy).
  cbn. destruct Ha as [->|Ha].
  - rewrite Hp, Hq. cbn. pose proof (filter_len_le p q l Hl). lia.
  - specialize (IH Hl Ha Hp Hq). destruct (q x) eqn:Eq.
    + rewrite (H x (or_introl eq_refl) Eq). cbn. lia.
    + destruct (p x); cbn; lia.
Qed.

(* ---------------------------------------------------------------------------------------------- *)
Section Fix.
Variable its : list item.

Definition qi (i : item) : M unit := try_ (exec i).

Definition absent (st : rstate) (i : item) : bool :=
  match get st (tfile i) (tname i) with None => true | Some _ => false end.
(* the items whose target name is not there yet: every insertion takes at least one of them away *)
Definition pending (st : rstate) : nat := length (filter (absent st) its).

Record ext (st st' : rstate) : Prop := mkExt {
  ext_mono : forall f x v, get st f x = Some v -> get st' f x = Some v;
  ext_dom : forall f, fol_get (st_ns st') f = None <-> fol_get (st_ns st) f = None;
  ext_cnt : names_count st <= names_count st';
  ext_same : names_count st' = names_count st -> st' = st;
  ext_pend : names_count st' + pending st' <= names_count st + pending st;
  ext_rest : same_rest st st'
}.

Lemma ext_refl st : ext st st.
Proof. constructor; auto; try lia; try reflexivity. repeat split. Qed.

Lemma ext_trans a b c : ext a b -> ext b c -> ext a c.
Proof.
  intros [M1 D1 C1 S1 P1 R1] [M2 D2 C2 S2 P2 R2]. constructor.
  - intros f x v H. apply M2, M1, H.
  - intros f. rewrite D2. apply D1.
  - lia.
  - intros H. assert (Hb : names_count b = names_count a) by lia. specialize (S1 Hb). subst b. apply S2. exact H.
  - lia.
  - destruct R1 as (A1 & B1 & E1 & F1), R2 as (A2 & B2 & E2 & F2). repeat split; congruence.
Qed.

Definition Tabs (st : rstate) : Prop := forall i, In i its -> fol_get (st_ns st) (tfile i) <> None.

Lemma Tabs_ext st st' : Tabs st -> ext st st' -> Tabs st'.
Proof. intros H X i Hi E. apply (H i Hi). apply (ext_dom _ _ X). exact E. Qed.

Lemma ins_ext i v st st' :
  In i its -> get st (tfile i) (tname i) = None -> ins (tfile i) (tname i) v st st' -> ext st st'.
Proof.
  intros Hi Hn [G D C R].
  assert (Hq : forall x, absent st' x = true -> absent st x = true).
  { intros x. unfold absent. rewrite G. destruct (fol_eqb (tfile x) (tfile i) && String.eqb (tname x) (tname i)); [discriminate|auto]. }
  assert (Hlt : pending st' < pending st).
  { unfold pending. apply filter_len_lt with (a := i); auto.
    - unfold absent. rewrite Hn. reflexivity.
    - unfold absent. rewrite G. rewrite (proj2 (fol_eqb_eq _ _) eq_refl), String.eqb_refl. reflexivity. }
  constructor; auto; try lia.
  intros f x w H. rewrite G. destruct (fol_eqb f (tfile i)) eqn:E1; cbn [andb]; [|exact H].
  destruct (String.eqb x (tname i)) eqn:E2; [|exact H].
  apply fol_eqb_eq in E1. apply String.eqb_eq in E2. subst. rewrite Hn in H. discriminate.
Qed.

Lemma src_res st i : match src st i with Ok _ | Err _ => True | _ => False end.
Proof.
  destruct i; cbn; destruct (fol_get (st_ns st) file); cbn; auto. destruct (ns_get n (i_name x)); cbn; auto.
Qed.

(* one step of the pass: the state is extended, or the step fails (E), and it never panics *)
Definition stepE (E : Prop) (m : M unit) : Prop :=
  forall st, Tabs st -> match m st with Ok (_, st') => ext st st' | Err _ => E | _ => False end.

Lemma exec_step i : In i its -> stepE True (exec i).
Proof.
  intros Hi st HT. rewrite exec_eq. pose proof (src_res st i) as Hr.
  destruct (src st i) as [v|e| |]; try contradiction; [|exact I].
  pose proof (import_name_spec (tfile i) (tname i) v (coll_kind i) (coll_span i) st (HT i Hi)) as Hs.
  destruct (get st (tfile i) (tname i)) as [old|] eqn:Hg.
  - rewrite Hs. destruct (name_eqb old v); [apply ext_refl|exact I].
  - destruct Hs as (st' & -> & Hins). eapply ins_ext; eauto.
Qed.

Lemma try_step m : stepE True m -> stepE False (try_ m).
Proof.
  intros H st HT. specialize (H st HT). unfold try_. destruct (m st) as [[u s]| | |]; auto. apply ext_refl.
Qed.

Lemma stepE_for_each E (h : item -> M unit) l : (forall i, In i l -> stepE E (h i)) -> stepE E (for_each h l).
Proof.
  induction l as [|x l IH]; intros H st HT; cbn [for_each].
  - cbn. apply ext_refl.
  - unfold bind. pose proof (H x (or_introl eq_refl) st HT) as Hx.
    destruct (h x st) as [[u s]| | |]; auto.
    assert (IH' : stepE E (for_each h l)) by (apply IH; intros i Hi; apply H; right; exact Hi).
    specialize (IH' s (Tabs_ext _ _ HT Hx)).
    destruct (for_each h l s) as [[u' s']| | |]; auto. eapply ext_trans; eauto.
Qed.

Lemma qi_step i : In i its -> stepE False (qi i).
Proof. intros Hi. apply try_step, exec_step, Hi. Qed.

(* the loop of `resolve` over the flat list *)
Fixpoint rounds (n : nat) (st : rstate) : res (unit * rstate) :=
  match n with
  | 0 => OutOfFuel
  | S n' =>
      match for_each qi its st with
      | Ok (_, st') => if Nat.eqb (names_count st') (names_count st) then Ok (tt, st') else rounds n' st'
      | r => r
      end
  end.

Definition Closed (st : rstate) : Prop := for_each qi its st = Ok (tt, st).

Lemma round_step : stepE False (for_each qi its).
Proof. apply stepE_for_each. intros i Hi. apply qi_step, Hi. Qed.

(* with more rounds than pending items the loop ends, in a state that a further round leaves alone *)
Lemma rounds_terminate n : forall st, Tabs st -> pending st < n ->
  exists st', rounds n st = Ok (tt, st') /\ ext st st' /\ Closed st'.
Proof.
  induction n as [|n IH]; intros st HT Hp; [lia|]. cbn [rounds].
  pose proof (round_step st HT) as Hq. destruct (for_each qi its st) as [[[] s1]| | |] eqn:Eq; try contradiction.
  destruct (Nat.eqb (names_count s1) (names_count st)) eqn:En.
  - apply Nat.eqb_eq in En. pose proof (ext_same _ _ Hq En). subst s1.
    exists st. split; [reflexivity|]. split; [apply ext_refl|exact Eq].
  - apply Nat.eqb_neq in En. pose proof (ext_cnt _ _ Hq). pose proof (ext_pend _ _ Hq).
    destruct (IH s1 (Tabs_ext _ _ HT Hq)) as (st' & E' & X & C); [lia|].
    exists st'. split; [exact E'|]. split; [eapply ext_trans; eauto|exact C].
Qed.

Lemma rounds_ok n : forall st u st', Tabs st -> rounds n st = Ok (u, st') -> ext st st' /\ Closed st'.
Proof.
  induction n as [|n IH]; intros st u st' HT H; [discriminate|]. cbn [rounds] in H.
  pose proof (round_step st HT) as Hq. destruct (for_each qi its st) as [[[] s1]| | |] eqn:Eq; try contradiction.
  destruct (Nat.eqb (names_count s1) (names_count st)) eqn:En.
  - inversion H; subst. apply Nat.eqb_eq in En. pose proof (ext_same _ _ Hq En). subst st'.
    split; [apply ext_refl|exact Eq].
  - destruct (IH _ _ _ (Tabs_ext _ _ HT Hq) H) as [X C]. split; [eapply ext_trans; eauto|exact C].
Qed.

Lemma pending_le st : pending st <= length its.
Proof.
  unfold pending. induction its as [|x l IH]; cbn; [lia|]. destruct (absent st x); cbn; lia.
Qed.

(* in a closed state every single item leaves the state alone *)
Lemma closed_each st : Tabs st -> forall l, (forall i, In i l -> In i its) ->
  for_each qi l st = Ok (tt, st) -> forall i, In i l -> qi i st = Ok (tt, st).
Proof.
  intros HT. induction l as [|a l IH]; intros Hl H i Hi; [destruct Hi|].
  cbn [for_each] in H. unfold bind in H.
  pose proof (qi_step a (Hl a (or_introl eq_refl)) st HT) as Ha.
  destruct (qi a st) as [[[] s1]| | |] eqn:Ea; try discriminate.
  assert (Hs : stepE False (for_each qi l)).
  { apply stepE_for_each. intros j Hj. apply qi_step, Hl. right. exact Hj. }
  specialize (Hs s1 (Tabs_ext _ _ HT Ha)). rewrite H in Hs.
  pose proof (ext_cnt _ _ Ha). pose proof (ext_cnt _ _ Hs).
  assert (s1 = st) by (apply (ext_same _ _ Ha); lia). subst s1.
  destruct Hi as [<-|Hi]; [exact Ea|]. apply IH; auto. intros j Hj. apply Hl. right. exact Hj.
Qed.

Lemma closed_item st i v : Tabs st -> In i its -> qi i st = Ok (tt, st) -> src st i = Ok v ->
  exists old, get st (tfile i) (tname i) = Some old.
Proof.
  intros HT Hi Hq Hs. unfold qi, try_ in Hq. rewrite exec_eq, Hs in Hq.
  pose proof (import_name_spec (tfile i) (tname i) v (coll_kind i) (coll_span i) st (HT i Hi)) as Hn.
  destruct (get st (tfile i) (tname i)) as [old|]; [eauto|].
  destruct Hn as (st' & E & Hins). rewrite E in Hq. inversion Hq; subst.
  pose proof (ins_cnt _ _ _ _ _ Hins). lia.
Qed.

(* ---- derivable facts ---- *)
Variable st0 : rstate.

Inductive der : file_or_lib -> string -> name -> Prop :=
| der_init f x v : get st0 f x = Some v -> der f x v
| der_use f nm file sp : In (ItUse f nm file sp) its -> fol_get (st_ns st0) file <> None ->
    der f (i_name (usename_ident nm)) (NNamespace file (i_span (usename_ident nm)))
| der_from f file sp x alias v : In (ItFrom f file sp x alias) its -> der file (i_name x) v ->
    der f (i_name (match alias with Some a => a | None => x end)) v.

Definition Sound (st : rstate) : Prop := forall f x v, get st f x = Some v -> der f x v.

Lemma der_src st i v : In i its -> ext st0 st -> Sound st -> src st i = Ok v -> der (tfile i) (tname i) v.
Proof.
  intros Hi X HS Hs. destruct i as [f nm file sp|f file sp x alias]; cbn in Hs |- *.
  - destruct (fol_get (st_ns st) file) eqn:E; [|discriminate]. inversion Hs; subst.
    eapply der_use; [exact Hi|]. intros E0. apply (ext_dom _ _ X) in E0. congruence.
  - destruct (fol_get (st_ns st) file) as [t|] eqn:E; [|discriminate].
    destruct (ns_get t (i_name x)) as [w|] eqn:E2; [|discriminate]. inversion Hs; subst.
    eapply der_from; [exact Hi|]. apply HS. unfold get. rewrite E. exact E2.
Qed.

Definition P (st : rstate) : Prop := Tabs st /\ ext st0 st /\ Sound st.

Lemma exec_P i st u st' : In i its -> P st -> exec i st = Ok (u, st') -> P st'.
Proof.
  intros Hi (HT & X & HS) H. pose proof (exec_step i Hi st HT) as Hx. rewrite H in Hx.
  split; [eapply Tabs_ext; eauto|]. split; [eapply ext_trans; eauto|].
  rewrite exec_eq in H. destruct (src st i) as [v| | |] eqn:Hs; try discriminate.
  pose proof (import_name_spec (tfile i) (tname i) v (coll_kind i) (coll_span i) st (HT i Hi)) as Hn.
  destruct (get st (tfile i) (tname i)) as [old|] eqn:Hg.
  - rewrite Hn in H. destruct (name_eqb old v); [|discriminate]. inversion H; subst. exact HS.
  - destruct Hn as (s & E & Hins). rewrite E in H. inversion H; subst.
    intros f x w Hw. rewrite (ins_get _ _ _ _ _ Hins) in Hw.
    destruct (fol_eqb f (tfile i)) eqn:E1; cbn [andb] in Hw; [|apply HS; exact Hw].
    destruct (String.eqb x (tname i)) eqn:E2; [|apply HS; exact Hw].
    apply fol_eqb_eq in E1. apply String.eqb_eq in E2. inversion Hw; subst.
    eapply der_src; eauto.
Qed.

Definition presP (m : M unit) : Prop := forall st u st', P st -> m st = Ok (u, st') -> P st'.

Lemma presP_qi i : In i its -> presP (qi i).
Proof.
  intros Hi st u st' HP H. unfold qi, try_ in H. destruct (exec i st) as [[u1 s1]| | |] eqn:E; try discriminate.
  - inversion H; subst. eapply exec_P; eauto.
  - inversion H; subst. exact HP.
Qed.

Lemma presP_for_each (h : item -> M unit) l : (forall i, In i l -> presP (h i)) -> presP (for_each h l).
Proof.
  induction l as [|x l IH]; intros H st u st' HP E; cbn [for_each] in E.
  - inversion E; subst. exact HP.
  - unfold bind in E. destruct (h x st) as [[u1 s1]| | |] eqn:E1; try discriminate.
    eapply IH; [intros i Hi; apply H; right; exact Hi| |exact E]. eapply H; [left; reflexivity|exact HP|exact E1].
Qed.

Lemma presP_rounds n : forall st u st', P st -> rounds n st = Ok (u, st') -> P st'.
Proof.
  induction n as [|n IH]; intros st u st' HP H; [discriminate|]. cbn [rounds] in H.
  destruct (for_each qi its st) as [[[] s1]| | |] eqn:Eq; try discriminate.
  assert (HP1 : P s1) by (eapply (presP_for_each qi its (fun i Hi => presP_qi i Hi)); eauto).
  destruct (Nat.eqb (names_count s1) (names_count st)); [inversion H; subst; exact HP1|eapply IH; eauto].
Qed.

Lemma P_init : Tabs st0 -> P st0.
Proof. intros HT. split; [exact HT|]. split; [apply ext_refl|]. intros f x v H. apply der_init, H. Qed.

(* ---- the reporting pass on a closed state ---- *)
Definition Sat (st : rstate) (i : item) : Prop :=
  exists v, src st i = Ok v /\ get st (tfile i) (tname i) = Some v.

Lemma report_ok_sat st : Tabs st -> Closed st -> forall l, (forall i, In i l -> In i its) ->
  forall u st', for_each exec l st = Ok (u, st') -> st' = st /\ forall i, In i l -> Sat st i.
Proof.
  intros HT HC. induction l as [|a l IH]; intros Hl u st' H; cbn [for_each] in H.
  - inversion H; subst. split; [reflexivity|]. intros i [].
  - unfold bind in H. destruct (exec a st) as [[u1 s1]| | |] eqn:Ea; try discriminate.
    assert (Ha : In a its) by (apply Hl; left; reflexivity).
    rewrite exec_eq in Ea. destruct (src st a) as [v| | |] eqn:Hs; try discriminate.
    destruct (closed_item st a v HT Ha (closed_each st HT its (fun i Hi => Hi) HC a Ha) Hs) as [old Hg].
    pose proof (import_name_spec (tfile a) (tname a) v (coll_kind a) (coll_span a) st (HT a Ha)) as Hn.
    rewrite Hg in Hn. rewrite Hn in Ea. destruct (name_eqb old v) eqn:En; [|discriminate]. inversion Ea; subst s1.
    apply name_eqb_eq in En. subst old.
    destruct (IH (fun i Hi => Hl i (or_intror Hi)) _ _ H) as [-> HS]. split; [reflexivity|].
    intros i [<-|Hi]; [exists v; auto|apply HS, Hi].
Qed.

Lemma sat_report_ok st l : (forall i, In i l -> Sat st i) -> for_each exec l st = Ok (tt, st).
Proof.
  induction l as [|a l IH]; intros H; [reflexivity|]. cbn [for_each]. unfold bind.
  destruct (H a (or_introl eq_refl)) as (v & Hs & Hg). rewrite exec_eq, Hs.
  assert (Hf : fol_get (st_ns st) (tfile a) <> None).
  { unfold get in Hg. destruct (fol_get (st_ns st) (tfile a)); [discriminate|discriminate Hg]. }
  pose proof (import_name_spec (tfile a) (tname a) v (coll_kind a) (coll_span a) st Hf) as Hn.
  rewrite Hg in Hn. rewrite Hn. rewrite (proj2 (name_eqb_eq v v) eq_refl). apply IH. intros i Hi. apply H. right. exact Hi.
Qed.

(* a state that extends st0 and satisfies every item contains every derivable fact *)
Lemma model_complete st : ext st0 st -> (forall i, In i its -> Sat st i) ->
  forall f x v, der f x v -> get st f x = Some v.
Proof.
  intros X HS f x v Hd. induction Hd as [f x v H|f nm file sp Hi Hf|f file sp x alias v Hi Hd IH].
  - apply (ext_mono _ _ X). exact H.
  - destruct (HS _ Hi) as (w & Hs & Hg). cbn in Hs, Hg. destruct (fol_get (st_ns st) file); [|discriminate].
    inversion Hs; subst. exact Hg.
  - destruct (HS _ Hi) as (w & Hs & Hg). cbn in Hs, Hg. unfold get in IH.
    destruct (fol_get (st_ns st) file) as [t|]; [|discriminate]. rewrite IH in Hs. inversion Hs; subst. exact Hg.
Qed.

Lemma model_functional st : ext st0 st -> (forall i, In i its -> Sat st i) ->
  forall f x v v', der f x v -> der f x v' -> v = v'.
Proof.
  intros X HS f x v v' H1 H2. pose proof (model_complete st X HS _ _ _ H1) as E1.
  pose proof (model_complete st X HS _ _ _ H2) as E2. congruence.
Qed.

(* when the derivable facts form a function, a closed state reached by the pass contains all of them *)
Lemma closed_complete st : P st -> Closed st ->
  (forall f x v v', der f x v -> der f x v' -> v = v') ->
  forall f x v, der f x v -> get st f x = Some v.
Proof.
  intros (HT & X & HS) HC Hfun f x v Hd.
  induction Hd as [f x v H|f nm file sp Hi Hf|f file sp x alias v Hi Hd IH].
  - apply (ext_mono _ _ X). exact H.
  - assert (Hs : src st (ItUse f nm file sp) = Ok (NNamespace file (i_span (usename_ident nm)))).
    { cbn. destruct (fol_get (st_ns st) file) eqn:E; [reflexivity|]. apply (ext_dom _ _ X) in E. contradiction. }
    destruct (closed_item st _ _ HT Hi (closed_each st HT its (fun i Hi => Hi) HC _ Hi) Hs) as [old Hg].
    change (get st f (i_name (usename_ident nm)) = Some old) in Hg.
    rewrite Hg. f_equal. apply (Hfun f (i_name (usename_ident nm))); [apply HS; exact Hg|].
    eapply der_use; eauto.
  - assert (Hs : src st (ItFrom f file sp x alias) = Ok v).
    { cbn. unfold get in IH. destruct (fol_get (st_ns st) file) as [t|]; [|discriminate]. rewrite IH. reflexivity. }
    destruct (closed_item st _ _ HT Hi (closed_each st HT its (fun i Hi => Hi) HC _ Hi) Hs) as [old Hg].
    change (get st f (i_name (match alias with Some a => a | None => x end)) = Some old) in Hg.
    rewrite Hg. f_equal.
    apply (Hfun f (i_name (match alias with Some a => a | None => x end))); [apply HS; exact Hg|].
    eapply der_from; eauto.
Qed.

End Fix.

(* ---------------------------------------------------------------------------------------------- *)
(* the derivable facts only depend on WHICH items there are *)
Lemma der_incl its its' st0 : (forall i, In i its -> In i its') ->
  forall f x v, der its st0 f x v -> der its' st0 f x v.
Proof.
  intros H f x v Hd. induction Hd.
  - apply der_init. assumption.
  - eapply der_use; eauto.
  - eapply der_from; eauto.
Qed.

(* the whole import pass over a flat list of items *)
Definition pass_fix (its : list item) (n : nat) (st : rstate) : res (unit * rstate) :=
  match rounds its n st with
  | Ok (_, s) => for_each exec its s
  | r => r
  end.

Definition same_tables (s1 s2 : rstate) : Prop :=
  (forall f x, get s2 f x = get s1 f x)
  /\ (forall f, fol_get (st_ns s2) f = None <-> fol_get (st_ns s1) f = None)
  /\ same_rest s1 s2.

Theorem pass_fix_order its its' st0 n n' s1 :
  (forall i, In i its <-> In i its') -> Tabs its st0 -> length its' < n' ->
  pass_fix its n st0 = Ok (tt, s1) ->
  exists s2, pass_fix its' n' st0 = Ok (tt, s2) /\ same_tables s1 s2.
Proof.
  intros Hiff HT Hn H. unfold pass_fix in H.
  destruct (rounds its n st0) as [[[] c1]| | |] eqn:R1; try discriminate.
  destruct (rounds_ok its n st0 _ _ HT R1) as [X1 C1].
  pose proof (presP_rounds its st0 n st0 _ _ (P_init its st0 HT) R1) as (T1 & _ & S1).
  destruct (report_ok_sat its c1 T1 C1 its (fun i Hi => Hi) _ _ H) as [-> Sat1].
  pose proof (model_functional its st0 c1 X1 Sat1) as Hfun.
  (* the other order *)
  assert (HT' : Tabs its' st0) by (intros i Hi; apply HT, Hiff, Hi).
  destruct (rounds_terminate its' n' st0 HT') as (c2 & R2 & X2 & C2).
  { pose proof (pending_le its' st0). lia. }
  pose proof (presP_rounds its' st0 n' st0 _ _ (P_init its' st0 HT') R2) as HP2.
  assert (Hfun' : forall f x v v', der its' st0 f x v -> der its' st0 f x v' -> v = v').
  { intros f x v v' A B. apply (Hfun f x); eapply der_incl; try eassumption; intros i Hi; apply Hiff, Hi. }
  pose proof (closed_complete its' st0 c2 HP2 C2 Hfun') as Hc2.
  destruct HP2 as (T2 & _ & S2).
  assert (Hto : forall f x v, der its st0 f x v -> der its' st0 f x v).
  { apply der_incl. intros i Hi. apply Hiff, Hi. }
  assert (Hfrom : forall f x v, der its' st0 f x v -> der its st0 f x v).
  { apply der_incl. intros i Hi. apply Hiff, Hi. }
  assert (Sat2 : forall i, In i its' -> Sat c2 i).
  { intros i Hi. destruct (Sat1 i (proj2 (Hiff i) Hi)) as (v & Hs & Hg). exists v.
    assert (Hd : der its' st0 (tfile i) (tname i) v) by (apply Hto, S1, Hg).
    split; [|apply Hc2, Hd].
    destruct i as [f nm file sp|f file sp x alias]; cbn in Hs |- *.
    - destruct (fol_get (st_ns c1) file) eqn:E1; [|discriminate].
      destruct (fol_get (st_ns c2) file) eqn:E2; [exact Hs|].
      apply (ext_dom _ _ _ X2) in E2. apply (ext_dom _ _ _ X1) in E2. congruence.
    - destruct (fol_get (st_ns c1) file) as [t|] eqn:E1; [|discriminate].
      destruct (ns_get t (i_name x)) as [w|] eqn:E; [|discriminate]. inversion Hs; subst w.
      assert (Hg1 : get c1 file (i_name x) = Some v) by (unfold get; rewrite E1; exact E).
      pose proof (Hc2 _ _ _ (Hto _ _ _ (S1 _ _ _ Hg1))) as Hg2. unfold get in Hg2.
      destruct (fol_get (st_ns c2) file); [|discriminate]. rewrite Hg2. reflexivity. }
  exists c2. split.
  - unfold pass_fix. rewrite R2. apply sat_report_ok. exact Sat2.
  - split; [|split].
    + intros f x. destruct (get c1 f x) as [v|] eqn:E1.
      * apply Hc2, Hto, S1, E1.
      * destruct (get c2 f x) as [w|] eqn:E2; [|reflexivity].
        pose proof (model_complete its st0 c1 X1 Sat1 _ _ _ (Hfrom _ _ _ (S2 _ _ _ E2))). congruence.
    + intros f. rewrite (ext_dom _ _ _ X2), (ext_dom _ _ _ X1). reflexivity.
    + destruct (ext_rest _ _ _ X1) as (A1 & B1 & D1 & E1), (ext_rest _ _ _ X2) as (A2 & B2 & D2 & E2).
      repeat split; congruence.
Qed.

(* ---- back to the model of `resolve` ---- *)
Lemma import_rounds_items ast n st : import_rounds n ast st = rounds (items ast) n st.
Proof.
  revert st. induction n as [|n IH]; intros st; [reflexivity|]. cbn [import_rounds rounds].
  rewrite quiet_round_items. fold qi. destruct (for_each qi (items ast) st) as [[[] s]| | |]; try reflexivity.
  destruct (Nat.eqb (names_count s) (names_count st)); [reflexivity|apply IH].
Qed.

Lemma import_pass_items ast st : import_pass true ast st = pass_fix (items ast) (S (import_items ast)) st.
Proof.
  unfold import_pass, pass_fix, bind. rewrite import_rounds_items.
  destruct (rounds (items ast) (S (import_items ast)) st) as [[[] s]| | |]; try reflexivity. apply report_items.
Qed.

Lemma items_m_tfile m i : In i (items_m m) -> tfile i = m_file m.
Proof.
  unfold items_m. intros H. apply in_flat_map in H as (s & _ & Hi).
  destruct s; cbn in Hi; try contradiction.
  - destruct Hi as [<-|[]]. reflexivity.
  - apply in_map_iff in Hi as (p & <- & _). reflexivity.
Qed.

Lemma Tabs_items ast st : (forall m, In m ast -> fol_get (st_ns st) (m_file m) <> None) -> Tabs (items ast) st.
Proof.
  intros H i Hi. unfold items in Hi. apply in_flat_map in Hi as (m & Hm & Hi).
  rewrite (items_m_tfile m i Hi). apply H, Hm.
Qed.

(* the quiet rounds never fail, never panic and never run out of rounds *)
Theorem import_rounds_total ast st :
  (forall m, In m ast -> fol_get (st_ns st) (m_file m) <> None) ->
  exists st', import_rounds (S (import_items ast)) ast st = Ok (tt, st').
Proof.
  intros H. rewrite import_rounds_items.
  destruct (rounds_terminate (items ast) (S (import_items ast)) st (Tabs_items ast st H)) as (st' & E & _).
  { pose proof (pending_le (items ast) st). rewrite items_length in *. lia. }
  eauto.
Qed.

(* imports_order_independent: with the import pass repeated to a fixpoint, processing the modules in another
   order accepts the same programs and fills the tables with the same bindings.  (`st0`: the state after
   `insert_namespace_and_add_definitions`, in which every module has its table.) *)
Theorem imports_order_independent ast ast' st0 s1 :
  Permutation ast ast' ->
  (forall m, In m ast -> fol_get (st_ns st0) (m_file m) <> None) ->
  import_pass true ast st0 = Ok (tt, s1) ->
  exists s2, import_pass true ast' st0 = Ok (tt, s2) /\ same_tables s1 s2.
Proof.
  intros Hp HT H. rewrite import_pass_items in H. 
  assert (Hiff : forall i, In i (items ast) <-> In i (items ast')).
  { intros i. unfold items. rewrite !in_flat_map. split; intros (m & Hm & Hi); exists m; split; auto.
    - eapply Permutation_in; eauto.
    - eapply Permutation_in; [apply Permutation_sym|]; eauto. }
  destruct (pass_fix_order (items ast) (items ast') st0 (S (import_items ast)) (S (import_items ast')) s1 Hiff (Tabs_items ast st0 HT)) as (s2 & E & Hs).
  { rewrite items_length. lia. }
  { exact H. }
  exists s2. split; [|exact Hs]. rewrite import_pass_items. exact E.
Qed.

(* the result of the import pass with rounds is never a panic and never out of fuel ... *)
Lemma import_pass_res ast st :
  (forall m, In m ast -> fol_get (st_ns st) (m_file m) <> None) ->
  match import_pass true ast st with Ok _ | Err _ => True | _ => False end.
Proof.
  intros H. unfold import_pass, bind. destruct (import_rounds_total ast st H) as (st' & E). rewrite E.
  assert (HT : Tabs (items ast) st').
  { rewrite import_rounds_items in E. destruct (rounds_ok _ _ _ _ _ (Tabs_items ast st H) E) as [X _].
    eapply Tabs_ext; [apply Tabs_items, H|exact X]. }
  rewrite report_items.
  pose proof (stepE_for_each (items ast) True exec (items ast) (fun i Hi => exec_step (items ast) i Hi) st' HT) as Hs.
  destruct (for_each exec (items ast) st') as [[u s]| | |]; auto.
Qed.

(* ... so rejection does not depend on the order either *)
Corollary imports_accept_order_independent ast ast' st0 :
  Permutation ast ast' ->
  (forall m, In m ast -> fol_get (st_ns st0) (m_file m) <> None) ->
  (exists s, import_pass true ast st0 = Ok (tt, s)) <-> (exists s, import_pass true ast' st0 = Ok (tt, s)).
Proof.
  intros Hp HT. split; intros [s H].
  - destruct (imports_order_independent ast ast' st0 s Hp HT H) as (s2 & E & _). eauto.
  - assert (HT' : forall m, In m ast' -> fol_get (st_ns st0) (m_file m) <> None).
    { intros m Hm. apply HT. eapply Permutation_in; [apply Permutation_sym|]; eauto. }
    destruct (imports_order_independent ast' ast st0 s (Permutation_sym Hp) HT' H) as (s2 & E & _). eauto.
Qed.
