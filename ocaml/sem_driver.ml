(* Driver for the extracted Sylt reference interpreter.
   Case line:  <resolved S-expression (tools/resolved_io.py)>
   Output:     SEM <final> <n> <hex line>...   final = done | assert | unreachable:<hex> | stuck:<hex> | fuel | unsup:<hex> | timeout | READFAIL
   The interpreter's fuel bounds the DEPTH of the evaluation, not the number of steps: a program without a base case
   and two recursive calls would run for ever.  A case that takes more than 10 s of wall time is reported as
   `SEM timeout 0` (treated like `fuel`: the program is skipped, never counted as agreement). *)
open Semmodel

let rec nat_of_int n = if n = 0 then O else S (nat_of_int (n - 1))
let string_of_chars (l : char list) = String.of_seq (List.to_seq l)
let hex_of_string s =
  if s = "" then "-" else begin
    let b = Buffer.create (2 * String.length s) in
    String.iter (fun c -> Buffer.add_string b (Printf.sprintf "%02x" (Char.code c))) s;
    Buffer.contents b end

exception Timeout

let () =
  Sys.set_signal Sys.sigalrm (Sys.Signal_handle (fun _ -> raise Timeout));
  let fuel = nat_of_int (int_of_string Sys.argv.(1)) in
  let ic = open_in Sys.argv.(2) in
  (try
    while true do
      let line = input_line ic in
      (try
        let r = Rast_reader.read_resolved line in
        ignore (Unix.alarm 10);
        let res = (try let x = run fuel r in ignore (Unix.alarm 0); x with Timeout -> raise Timeout) in
        let fin = match res.r_final with
          | ODone -> "done" | OAssert -> "assert"
          | OUnreachable m -> "unreachable:" ^ hex_of_string (string_of_chars m)
          | OStuck m -> "stuck:" ^ hex_of_string (string_of_chars m)
          | OFuel -> "fuel"
          | OUnsup m -> "unsup:" ^ hex_of_string (string_of_chars m) in
        let lines = List.map (fun l -> hex_of_string (string_of_chars l)) res.r_trace in
        print_endline (String.concat " " ("SEM" :: fin :: string_of_int (List.length lines) :: lines))
      with Failure m -> ignore (Unix.alarm 0); print_endline ("SEM READFAIL " ^ m)
         | Timeout -> print_endline "SEM timeout 0")
    done
  with End_of_file -> ());
  close_in ic
