(* C03 / C02 (round-5 seed): the arithmetic of tuples is componentwise WITH THE SAME OPERATOR.
   fn add / sub / mul / cmp on two tuple types go through the components with the operator they were called with: `-`
   and `*` of two tuples whose i-th components are both str (or both bool) are rejected, at depth one and under one more
   tuple level, while `+` of two (str, int) tuples is fine.  (The seed recursed with `add` in the folded tuple arm.) *)
From Coq Require Import String List NArith ZArith PArith Bool Lia FMapPositive.
From Sylt Require Import Syntax.Resolved Types.TyGraph Types.Tc Types.TcInv Types.Reject Types.Mismatch Types.Complete1.
Import ListNotations.
Local Open Scope tc_scope.

Lemma iter2_notok (f : tyid -> tyid -> M unit) s0 :
  (forall x y, pres (f x y)) ->
  forall i xs ys x y, nth_error xs i = Some x -> nth_error ys i = Some y ->
    (forall s', wf s' -> ext s0 s' -> notok (f x y s')) ->
    forall s, wf s -> ext s0 s -> notok (iter2 f xs ys s).
Proof.
  intros P. induction i as [|i IH]; intros xs ys x y Hx Hy H s W E; destruct xs as [|x0 xs]; destruct ys as [|y0 ys]; try discriminate;
    cbn [nth_error] in Hx, Hy; cbn [iter2].
  - injection Hx as ->. injection Hy as ->. apply bind_notok_l. now apply H.
  - apply bind_cases; [apply P|assumption|]. intros u s1 H1 W1 E1.
    apply (IH xs ys x y Hx Hy H s1 W1). eapply ext_trans; eassumption.
Qed.

Lemma iter2_id (f : tyid -> tyid -> M unit) s : forall xs ys,
  Forall2 (fun x y => f x y s = Ok (tt, s)) xs ys -> iter2 f xs ys s = Ok (tt, s).
Proof.
  induction 1 as [|x y xs ys H _ IH]; cbn [iter2]; [reflexivity|]. rewrite (bind_ok _ _ _ _ _ H). exact IH.
Qed.

(* two classes of leaf types on which the operator is not defined *)
Definition leaf_bad (k : arithk) (s : st) (x y : tyid) : Prop :=
  exists t t', head s x = Some t /\ head s y = Some t' /\ rigid t = true /\ rigid t' = true /\ arith_base_ok k t t' = false.

Lemma leaf_bad_ext k s s' x y : ext s s' -> leaf_bad k s x y -> leaf_bad k s' x y.
Proof.
  intros E (t & t' & Hx & Hy & R & R' & B). exists t, t'.
  split; [exact (head_keep _ _ _ _ E Hx R)|]. split; [exact (head_keep _ _ _ _ E Hy R')|auto].
Qed.

(* two tuple types that have such a pair at one position *)
Definition tuple1_bad (k : arithk) (s : st) (a b : tyid) : Prop :=
  exists xs ys i x y, head s a = Some (HTuple xs) /\ head s b = Some (HTuple ys) /\
                      nth_error xs i = Some x /\ nth_error ys i = Some y /\ leaf_bad k s x y.

Lemma tuple_side_ext s s' a xs i x t :
  ext s s' -> head s a = Some (HTuple xs) -> nth_error xs i = Some x -> head s x = Some t -> rigid t = true ->
  exists xs' x', head s' a = Some (HTuple xs') /\ nth_error xs' i = Some x' /\ head s' x' = Some t.
Proof.
  intros E Ha Hx Ht R. pose proof E as (_ & _ & _ & E4 & _).
  destruct (E4 _ _ Ha eq_refl) as (h' & Ha' & Sh). destruct h'; try discriminate Sh.
  assert (K : kid (HTuple xs) (KElem i) = Some x) by exact Hx.
  destruct (kid_shape _ _ _ _ Sh K) as [x' K']. exists ts, x'. split; [exact Ha'|]. split; [exact K'|].
  exact (kid_keep _ _ _ _ _ _ _ _ _ E Ha Ha' K K' Ht R).
Qed.

Lemma tuple1_bad_ext k s s' a b : ext s s' -> tuple1_bad k s a b -> tuple1_bad k s' a b.
Proof.
  intros E (xs & ys & i & x & y & Ha & Hb & Hx & Hy & (t & t' & Tx & Ty & R & R' & B)).
  destruct (tuple_side_ext _ _ _ _ _ _ _ E Ha Hx Tx R) as (xs' & x' & Ha' & Hx' & Tx').
  destruct (tuple_side_ext _ _ _ _ _ _ _ E Hb Hy Ty R') as (ys' & y' & Hb' & Hy' & Ty').
  exists xs', ys', i, x', y'. repeat (split; [assumption|]). exists t, t'. auto.
Qed.

Definition tuple2_bad (k : arithk) (s : st) (a b : tyid) : Prop :=
  exists xs ys i x y, head s a = Some (HTuple xs) /\ head s b = Some (HTuple ys) /\
                      nth_error xs i = Some x /\ nth_error ys i = Some y /\ tuple1_bad k s x y.

Lemma arith_tuple_step g k sp a b s xs ys :
  head s a = Some (HTuple xs) -> head s b = Some (HTuple ys) ->
  notok (iter2 (g_arith (gfix g) k sp) xs ys s) -> notok (g_arith (gfix (S g)) k sp a b s).
Proof.
  intros Ha Hb N. cbn [gfix gstep g_arith]. unfold arith_body.
  rewrite (bind_ok _ _ _ _ _ (find_type_ok _ _ _ Ha)), (bind_ok _ _ _ _ _ (find_type_ok _ _ _ Hb)). cbn [is_unknown orb].
  assert (B : arith_base_ok k (HTuple xs) (HTuple ys) = false) by (destruct k; reflexivity). rewrite B.
  destruct (Nat.eqb (length xs) (length ys)); [exact N|apply notok_fail].
Qed.

Theorem tuple1_rejected g k sp a b s : wf s -> tuple1_bad k s a b -> notok (g_arith (gfix g) k sp a b s).
Proof.
  intros W (xs & ys & i & x & y & Ha & Hb & Hx & Hy & LB). destruct g as [|g]; [apply notok_fuel|].
  apply (arith_tuple_step g k sp a b s xs ys Ha Hb).
  apply (iter2_notok _ s (fun x0 y0 => gp_arith _ (gfix_pres g) k sp x0 y0) i xs ys x y Hx Hy); [|exact W|apply ext_refl].
  intros s' W' E'. destruct (leaf_bad_ext _ _ _ _ _ E' LB) as (t & t' & Tx & Ty & R & R' & B).
  exact (arith_rejects g k sp x y s' t t' W' Tx Ty R R' B).
Qed.

Theorem tuple2_rejected g k sp a b s : wf s -> tuple2_bad k s a b -> notok (g_arith (gfix g) k sp a b s).
Proof.
  intros W (xs & ys & i & x & y & Ha & Hb & Hx & Hy & TB). destruct g as [|g]; [apply notok_fuel|].
  apply (arith_tuple_step g k sp a b s xs ys Ha Hb).
  apply (iter2_notok _ s (fun x0 y0 => gp_arith _ (gfix_pres g) k sp x0 y0) i xs ys x y Hx Hy); [|exact W|apply ext_refl].
  intros s' W' E'. apply (tuple1_rejected g k sp x y s' W'). exact (tuple1_bad_ext _ _ _ _ _ E' TB).
Qed.

Lemma forall2_length {A B} (P : A -> B -> Prop) l l' : Forall2 P l l' -> length l = length l'.
Proof. induction 1; cbn; congruence. Qed.

Lemma forall2_imp {A B} (P Q : A -> B -> Prop) l l' : (forall a b, P a b -> Q a b) -> Forall2 P l l' -> Forall2 Q l l'.
Proof. intros H. induction 1; constructor; auto. Qed.

(* the contrast: componentwise, with the operator itself -- two tuples whose components are pairwise fine are fine *)
Theorem tuple_arith_ok g k sp a b s xs ys :
  head s a = Some (HTuple xs) -> head s b = Some (HTuple ys) ->
  Forall2 (fun x y => arith_ok s k x y) xs ys ->
  g_arith (gfix (S (S g))) k sp a b s = Ok (tt, s).
Proof.
  intros Ha Hb F. cbn [gfix gstep g_arith]. unfold arith_body.
  rewrite (bind_ok _ _ _ _ _ (find_type_ok _ _ _ Ha)), (bind_ok _ _ _ _ _ (find_type_ok _ _ _ Hb)). cbn [is_unknown orb].
  assert (B : arith_base_ok k (HTuple xs) (HTuple ys) = false) by (destruct k; reflexivity). rewrite B.
  rewrite (proj2 (PeanoNat.Nat.eqb_eq _ _) (forall2_length _ _ _ F)).
  apply iter2_id. eapply forall2_imp; [|exact F]. intros x y A. exact (arith_id g k sp x y s A).
Qed.
