(* Well-formedness of parser ASTs: what the parser guarantees and the refinement theorems assume.
   Definitions only. *)
From Coq Require Import String List NArith ZArith Bool.
From Sylt Require Import Syntax.Resolved Resolve.PAst.
Import ListNotations.

(* ---- well-formedness (what the parser guarantees) ---- *)

Definition all_with {A} (f : A -> bool) : list A -> bool :=
  fix go (l : list A) : bool := match l with [] => true | x :: xs => f x && go xs end.

Definition is_definition (s : pstmt) : bool := match s with PDefinition _ _ _ _ _ => true | _ => false end.

Fixpoint wf_e (x : pexpr) : bool :=
  match x with
  | PGet a _ => wf_a a
  | PAdd a b _ | PSub a b _ | PMul a b _ | PDiv a b _ | PComparison a _ b _ | PAssertEq a b _
  | PAnd a b _ | POr a b _ => wf_e a && wf_e b
  | PNeg a _ | PNot a _ | PParenthesis a _ => wf_e a
  | PIf brs _ =>
      all_with (fun b => match b with PIfBranch c body _ =>
                  (match c with Some c => wf_e c | None => true end) && all_with wf_s body end) brs
  | PCase tm brs ft _ =>
      wf_e tm && all_with (fun b => match b with PCaseBranch _ _ body => all_with wf_s body end) brs
      && (match ft with Some b => all_with wf_s b | None => true end)
  | PFunction _ _ _ body _ _ => all_with wf_s body
  | PBlob _ fields _ => all_with (fun f => wf_e (snd f)) fields
  | PTuple vs _ | PList vs _ => all_with wf_e vs
  | _ => true
  end
with wf_a (a : passign) : bool :=
  match a with
  | ARead _ _ => true
  | AVariant x _ v _ => wf_a x && wf_e v
  | ACall f args _ => wf_a f && all_with wf_e args
  | AArrowCall x f args _ => wf_e x && wf_a f && all_with wf_e args
  | AAccess x _ _ => wf_a x
  | AIndex x i _ => wf_a x && wf_e i
  | AExpression e _ => wf_e e
  end
with wf_s (s : pstmt) : bool :=
  match s with
  | PAssignment _ t v _ => wf_a t && wf_e v
  | PDefinition _ _ _ v _ => wf_e v
  | PLoop c b _ => wf_e c && negb (is_definition b) && wf_s b
  | PRet (Some v) _ => wf_e v
  | PBlock ss _ => all_with wf_s ss
  | PStatementExpression v _ => wf_e v
  | _ => true
  end.

Definition wf_top (s : pstmt) : bool :=
  match s with
  | PDefinition _ _ _ _ _ => wf_s s
  | PBlobDef _ _ _ _ _ | PEnumDef _ _ _ _ | PExternalDefinition _ _ _ _ | PUse _ _ _ _ | PFromUse _ _ _ _
  | PEmptyStatement _ => true
  | _ => false
  end.

Definition wf_ast (ast : past) : bool := all_with (fun m => all_with wf_top (m_stmts m)) ast.

