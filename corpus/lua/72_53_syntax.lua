-- expect-final[jit]: loaderr
-- expect-wf[5.3]: ok
-- expect-wf[jit]: bad invalid escape sequence
-- expect[5.3]: 1
-- expect[5.3]: 1	2	3	4	HI
-- expect[5.3]: 3
-- expect[5.3]: i	1
;;; local x = 1; ; print(x);
while true do break print("unreachable") end
print(#"\u{48}", #"\u{E9}", #"\u{20AC}", #"\u{1F600}", "\u{48}\u{49}")
do local i = 0 ::top:: i = i + 1 if i < 3 then goto top end print(i) end
for i = 1, 3 do
  if i == 2 then break end
  print("i", i)
end
