"""GenDriver: what the command-line driver (sylt/src/main.rs, sylt/src/lib.rs) says on this run.

  * the option table of `struct Args` (field, Rust type, attributes of #[options(...)]);
  * the arms of `match &args.output` in run_file_with_reader: pattern, the ordered skeleton of the calls
    that matter to the driver contract (spawn / compile / create / write / wait ...), and the normalised
    text of the arm;
  * the normalised text of `fn main` and its skeleton (help / no-argument / print-errors / summary);
  * every `expect(` message of the two files and the string literals the driver prints itself;
  * the two strings the model prints (`gen_strings`).

`Props/C20.v` proves (vm_compute) that all of it equals the hand-reviewed coq/Driver/DocDriver.v, so any
edit to the driver breaks the obligation `C20_driver_table` and the oracle is run."""
import os
import re
import gen_tables

NAME = "GenDriver"


def U(msg):
    return gen_tables.Untranslatable(msg)


def strip_comments(src):
    out = []
    i, n = 0, len(src)
    while i < n:
        if src.startswith("//", i):
            j = src.find("\n", i)
            i = n if j < 0 else j
        elif src.startswith("/*", i):
            j = src.find("*/", i)
            i = n if j < 0 else j + 2
        elif src[i] == '"':
            j = i + 1
            while j < n and src[j] != '"':
                j += 2 if src[j] == "\\" else 1
            out.append(src[i:j + 1])
            i = j + 1
        else:
            out.append(src[i])
            i += 1
    return "".join(out)


def norm(s):
    return re.sub(r"\s+", " ", s).strip()


def matching(s, i, open_c="{", close_c="}"):
    """index just after the bracket that closes the one at s[i]; string literals are skipped"""
    assert s[i] == open_c
    depth = 0
    j = i
    while j < len(s):
        c = s[j]
        if c == '"':
            j += 1
            while j < len(s) and s[j] != '"':
                j += 2 if s[j] == "\\" else 1
        elif c == open_c:
            depth += 1
        elif c == close_c:
            depth -= 1
            if depth == 0:
                return j + 1
        j += 1
    raise U("unbalanced %s" % open_c)


def coq_str(s):
    if any(ord(c) > 126 or (ord(c) < 32 and c != "\n") for c in s):
        raise U("non-printable character in extracted text %r" % s[:40])
    return '"' + s.replace('"', '""') + '"'


def coq_list(items, indent="  "):
    if not items:
        return "[]"
    return "[\n" + ";\n".join(indent + it for it in items) + "\n]"


def rust_unescape(lit, allow_nl=False):
    """contents of a Rust string literal (between the quotes) -> text; only the escapes the driver uses"""
    out = []
    i = 0
    while i < len(lit):
        c = lit[i]
        if c == "\\":
            d = lit[i + 1]
            if d == "n":
                if not allow_nl:
                    raise U("newline escape in a driver string")
                out.append("\n")
            elif d in '"\\\'':
                out.append(d)
            else:
                raise U("unsupported escape \\%s" % d)
            i += 2
        else:
            out.append(c)
            i += 1
    return "".join(out)


# ---- option table -------------------------------------------------------------------------------

def split_top(s, sep=","):
    parts, depth, cur = [], 0, []
    i = 0
    while i < len(s):
        c = s[i]
        if c == '"':
            j = i + 1
            while j < len(s) and s[j] != '"':
                j += 2 if s[j] == "\\" else 1
            cur.append(s[i:j + 1])
            i = j + 1
            continue
        if c in "([{<":
            depth += 1
        elif c in ")]}>":
            depth -= 1
        if c == sep and depth == 0:
            parts.append("".join(cur))
            cur = []
        else:
            cur.append(c)
        i += 1
    if "".join(cur).strip():
        parts.append("".join(cur))
    return [p.strip() for p in parts]


def option_table(lib):
    m = re.search(r"pub struct Args\s*\{", lib)
    if not m:
        raise U("struct Args not found")
    end = matching(lib, m.end() - 1)
    body = lib[m.end():end - 1]
    rows = []
    pos = 0
    pending = []     # attributes seen since the last field
    while pos < len(body):
        mm = re.compile(r"\s*(#\[)").match(body, pos)
        if mm:
            e = matching(body, mm.start(1) + 1, "[", "]")
            pending.append(body[mm.start(1) + 2:e - 1])
            pos = e
            continue
        mm = re.compile(r"\s*pub\s+(\w+)\s*:\s*([^,]+),").match(body, pos)
        if mm:
            field, ty = mm.group(1), norm(mm.group(2))
            long_, short, meta, mods, cfg = "", "", "", [], ""
            for a in pending:
                a = a.strip()
                if a.startswith("cfg("):
                    cfg = norm(a)
                    continue
                if not a.startswith("options("):
                    raise U("unknown attribute on Args.%s: %s" % (field, a[:40]))
                for item in split_top(a[len("options("):-1]):
                    kv = re.match(r'(\w+)\s*=\s*"((?:[^"\\]|\\.)*)"$', item, re.S)
                    if kv:
                        k, v = kv.group(1), rust_unescape(kv.group(2))
                        if k == "long":
                            long_ = v
                        elif k == "short":
                            short = v
                        elif k == "meta":
                            meta = v
                        elif k == "help":
                            pass
                        else:
                            raise U("unknown option attribute %s" % k)
                    elif re.match(r"\w+$", item):
                        mods.append(item)
                    else:
                        raise U("cannot parse option attribute %r" % item)
            if cfg:
                mods.append(cfg)
            rows.append((field, ty, long_, short, meta, " ".join(sorted(mods))))
            pending = []
            pos = mm.end()
            continue
        if body[pos:].strip() == "":
            break
        raise U("cannot parse struct Args near %r" % body[pos:pos + 40])
    if not rows:
        raise U("no option found")
    return rows


# ---- skeletons ----------------------------------------------------------------------------------

EVENTS = [
    (r'Command::new\("((?:[^"\\]|\\.)*)"\)', "command:%s"),
    (r"\.stdin\(Stdio::(\w+)\(\)\)", "child-stdin:%s"),
    (r"\.stdout\(Stdio::(\w+)\(\)\)", "child-stdout:%s"),
    (r"\.stderr\(Stdio::(\w+)\(\)\)", "child-stderr:%s"),
    (r"\.spawn\(\)", "spawn"),
    (r'\.expect\(\s*"((?:[^"\\]|\\.)*)"\s*\)', "expect:%s"),
    (r'\.expect\(\s*&format!\(\s*"((?:[^"\\]|\\.)*)"', "expect-format:%s"),
    (r"\.unwrap\(\)", "unwrap"),
    (r"compile_with_reader_to_writer\(\s*args\s*,\s*reader\s*,\s*([^;]*?)\)\s*(\?)\s*;", "compile-into:%s:%s"),
    (r"drop\((\w+)\)", "drop:%s"),
    (r"\.wait_with_output\(\)", "wait_with_output"),
    (r"\.wait\(\)", "wait"),
    (r"\.status\b", "status"),
    (r"if\s+(!?\s*output\.stderr\.is_empty\(\))", "if:%s"),
    (r"return\s+Err\(vec!\[Error::(\w+)", "return-err:%s"),
    (r"File::create\((\w+)\)", "create:%s"),
    (r"OpenOptions", "open-options"),
    (r"\.write\(([^)]*)\)", "write:%s"),
    (r"\.write_all\(([^)]*)\)", "write_all:%s"),
    (r"\.flush\(\)", "flush"),
    (r"\.sync_all\(\)", "sync_all"),
    (r"fs::(rename|write|remove_file)\b", "fs:%s"),
    (r"\.map_err\(\|e\|\s*vec!\[Error::(\w+)", "map_err:%s"),
    (r"\bprintln!\(\s*\"((?:[^\"\\]|\\.)*)\"\s*,\s*([^;]*?)\)\s*;", "println:%s:%s"),
    (r"\beprintln!\(\s*\"((?:[^\"\\]|\\.)*)\"", "eprintln:%s"),
    (r"return\s+Ok\(\(\)\)", "return-ok"),
    (r'return\s+Err\(\s*"((?:[^"\\]|\\.)*)"\.into\(\)\s*\)', "return-err-string:%s"),
    (r'Err\(format!\(\s*"((?:[^"\\]|\\.)*)"\s*,\s*(\w+(?:\.\w+\(\))?)\s*\)\)', "err-format:%s:%s"),
    (r"if\s+(args\.help|args\.args\.len\(\)\s*==\s*0|errs\.is_empty\(\))", "if:%s"),
    (r"\belse\b", "else"),
    (r"for\s+(\w+)\s+in\s+([\w.()]+)", "for:%s:%s"),
    (r"Args::parse_args_default_or_exit\(\)", "parse_args_default_or_exit"),
    (r"sylt::run_file\(&args\)\.err\(\)\.unwrap_or_else\(Vec::new\)", "errs=run_file.err-or-empty"),
    (r"\bOk\(\(\)\)\s*\}", "ok"),
    (r"std::process::exit\(([^)]*)\)", "exit:%s"),
]


def skeleton(text):
    found = []
    for rx, fmt in EVENTS:
        for m in re.finditer(rx, text, re.S):
            args = tuple(norm(g) for g in m.groups())
            label = fmt % args if args else fmt
            found.append((m.start(), len(found), label))
    found.sort()
    # `return Ok(())` also matches nothing else; `Ok(()) }` may coincide with return-ok: keep both distinct positions
    return [l for _, _, l in found]


def output_arms(lib):
    m = re.search(r"pub fn run_file_with_reader\b", lib)
    if not m:
        raise U("run_file_with_reader not found")
    b = lib.find("{", lib.find("where", m.end()))
    fn_end = matching(lib, b)
    fn = lib[b:fn_end]
    mm = re.search(r"match\s+&args\.output\s*\{", fn)
    if not mm:
        raise U("`match &args.output` not found in run_file_with_reader")
    mend = matching(fn, mm.end() - 1)
    body = fn[mm.end():mend - 1]
    rest = norm(fn[:mm.start()] + " <match> " + fn[mend:])
    arms = []
    pos = 0
    while True:
        while pos < len(body) and body[pos] in " \t\r\n,":
            pos += 1
        if pos >= len(body):
            break
        arrow = body.find("=>", pos)
        if arrow < 0:
            raise U("arm without =>")
        pat = norm(body[pos:arrow])
        k = arrow + 2
        while body[k] in " \t\r\n":
            k += 1
        if body[k] != "{":
            raise U("arm body is not a block")
        e = matching(body, k)
        arms.append((pat, body[k:e]))
        pos = e
    if not arms:
        raise U("no arms")
    return arms, rest


def main_fn(main):
    m = re.search(r"fn main\(\)\s*->\s*Result<\(\),\s*String>\s*\{", main)
    if not m:
        raise U("fn main() -> Result<(), String> not found")
    e = matching(main, m.end() - 1)
    body = main[m.end() - 1:e]
    # the block under #[cfg(feature = "timed")] is not compiled in our build: cut it out, keep a marker
    mm = re.search(r'#\[cfg\(feature\s*=\s*"timed"\)\]\s*if\s+let[^{]*\{', body)
    if mm:
        ce = matching(body, mm.end() - 1)
        body = body[:mm.start()] + ' <cfg-timed-block> ' + body[ce:]
    return body


def expects(text, fname):
    out = []
    for m in re.finditer(r'\.expect\(\s*(?:&format!\(\s*)?"((?:[^"\\]|\\.)*)"', text, re.S):
        out.append((fname, rust_unescape(m.group(1))))
    return out


def generate():
    lib_p = os.path.join(gen_tables.REPO, "sylt", "src", "lib.rs")
    main_p = os.path.join(gen_tables.REPO, "sylt", "src", "main.rs")
    if not (os.path.exists(lib_p) and os.path.exists(main_p)):
        raise U("sylt/src/lib.rs or main.rs missing")
    lib = strip_comments(open(lib_p, encoding="utf-8").read())
    main = strip_comments(open(main_p, encoding="utf-8").read())

    opts = option_table(lib)
    arms, rest = output_arms(lib)
    mbody = main_fn(main)
    msk = skeleton(mbody)
    exps = expects(lib, "lib.rs") + expects(main, "main.rs")

    # the strings the model prints
    no_file = re.search(r'return\s+Err\(\s*"((?:[^"\\]|\\.)*)"\.into\(\)\s*\)', mbody)
    summ = re.search(r'Err\(format!\(\s*"\{\}((?:[^"\\{}]|\\.)*)"\s*,\s*errs\.len\(\)\s*\)\)', mbody)
    if not no_file or not summ:
        raise U("main.rs: the `No file` / summary strings were not found in the expected shape")

    # compile_with_reader_to_writer: which Args fields reach the compiler
    cw = re.search(r"pub fn compile_with_reader_to_writer\b.*?\n\}", lib, re.S)
    if not cw:
        raise U("compile_with_reader_to_writer not found")
    cwt = cw.group(0)
    cwb = cwt[cwt.index("{", cwt.index("where")):]
    uses = sorted(set(re.findall(r"args\.(\w+)", cwb)))

    err_p = os.path.join(gen_tables.REPO, "sylt-common", "src", "error.rs")
    if not os.path.exists(err_p):
        raise U("sylt-common/src/error.rs missing")
    errs_src = strip_comments(open(err_p, encoding="utf-8").read())
    disp = {}
    for variant in ("LuaError", "IOError"):
        mm = re.search(r'Error::%s\(\w+\)\s*=>\s*\{\s*write!\(\s*f\s*,\s*"((?:[^"\\]|\\.)*)\{\}"\s*,\s*\w+\s*\)\s*\}' % variant, errs_src)
        if not mm:
            raise U("error.rs: Display arm of Error::%s not in the expected shape" % variant)
        disp[variant] = rust_unescape(mm.group(1), allow_nl=True)
    exp_lua = [m for f, m in exps if f == "lib.rs" and "lua" in m]
    exp_create = [m for f, m in exps if f == "lib.rs" and m.endswith("{}") and "create" in m]
    if len(exp_lua) != 1 or len(exp_create) != 1:
        raise U("lib.rs: expected exactly one expect() for spawning lua and one for File::create")

    out = ["(* GENERATED by tools/gens/gen_driver.py from sylt/src/lib.rs and sylt/src/main.rs -- do not edit *)",
           "From Coq Require Import String List.",
           "From Sylt Require Import Driver.DriverModel.",
           "Import ListNotations.",
           "Local Open Scope string_scope.",
           "",
           "(* struct Args: (field, type, long, short, meta, other attributes sorted) ; \"\" = not given *)",
           "Definition options : list (string * string * string * string * string * string) := " +
           coq_list(["(%s, %s, %s, %s, %s, %s)" % tuple(coq_str(x) for x in r) for r in opts]) + ".",
           "",
           "(* match &args.output: (pattern, skeleton of the arm, normalised text of the arm) *)",
           "Definition output_arms : list (string * list string * string) := " +
           coq_list(["(%s,\n     [%s],\n     %s)" % (coq_str(p), "; ".join(coq_str(x) for x in skeleton(b)), coq_str(norm(b)))
                     for p, b in arms]) + ".",
           "",
           "(* run_file_with_reader around the match *)",
           "Definition run_file_rest : string := %s." % coq_str(rest),
           "",
           "(* the Args fields compile_with_reader_to_writer reads, and its normalised body *)",
           "Definition compile_uses : list string := [%s]." % "; ".join(coq_str(u) for u in uses),
           "Definition compile_body : string := %s." % coq_str(norm(cwb)),
           "",
           "(* fn main: skeleton and normalised text (the cfg(feature = \"timed\") block is cut) *)",
           "Definition main_skeleton : list string := " + coq_list([coq_str(x) for x in msk]) + ".",
           "Definition main_body : string := %s." % coq_str(norm(mbody)),
           "",
           "(* every expect( message of the driver: (file, message) *)",
           "Definition expect_messages : list (string * string) := " +
           coq_list(["(%s, %s)" % (coq_str(f), coq_str(s)) for f, s in exps]) + ".",
           "",
           "(* the strings the model prints *)",
           "Definition gen_strings : strings := {| s_no_file := %s; s_errors_suffix := %s;\n"
           "  s_expect_lua := %s; s_expect_create := %s;\n  s_lua_error := %s; s_io_error := %s |}."
           % (coq_str(rust_unescape(no_file.group(1))), coq_str(rust_unescape(summ.group(1))),
              coq_str(exp_lua[0]), coq_str(exp_create[0][:-2]), coq_str(disp["LuaError"]), coq_str(disp["IOError"])),
           ""]
    return "GenDriver.v", "\n".join(out)
