(* Completeness of the type checker on the E1 fragment (SoundE1): a TYPED block is ACCEPTED.
   With SoundE1.accepted_block1 (accepted => typed) this gives "annotations are optional" for the fragment
   (Types/EraseAccept.v): erasing annotations keeps a block typed, hence accepted.

   Part A (this file, graph level): the operations of the checker on classes whose heads are base types or Unknown and
   whose stored constraints are all satisfied (`good`) SUCCEED, and leave such classes good:
     check_id        g_check is the identity
     unify_same/_bb/_ub/_xu   the result of unify, as an explicit state
     step            what every operation of the fragment guarantees of the state it leaves. *)
From Coq Require Import String List NArith ZArith PArith Bool Lia FMapPositive.
From Sylt Require Import Syntax.Resolved Types.TyGraph Types.Tc Types.TcInv Types.Reject Types.Mismatch Types.ShapesDecl
  Types.SoundE0.
Import ListNotations.
Local Open Scope positive_scope.
Local Open Scope tc_scope.

(* ------------------------------------------------------------------ exact results of the primitives *)
Lemma get_node_ok s i n : lk s i = Some n -> get_node i s = Ok (n, s).
Proof. unfold lk, get_node. intros ->. reflexivity. Qed.

Lemma find_ok s a r : rep s a = Some r -> find a s = Ok (r, s).
Proof.
  unfold rep. destruct (lk s a) as [x|] eqn:E; [|discriminate]. cbn. intros [= <-].
  unfold find. rewrite (bind_ok _ _ _ _ _ (get_node_ok _ _ _ E)). reflexivity.
Qed.

(* a is in the class whose root r has the node n *)
Definition root (s : st) (a r : tyid) (n : node) : Prop := rep s a = Some r /\ lk s r = Some n /\ nrep n = r.

Lemma root_self s a r n : root s a r n -> root s r r n.
Proof. intros (_ & L & E). split; [|auto]. unfold rep. rewrite L. cbn. congruence. Qed.

Lemma root_head s a r n : root s a r n -> head s a = Some (nty n).
Proof.
  intros (R & L & E). unfold head, rep in *. destruct (lk s a) as [x|]; [|discriminate]. injection R as ->.
  rewrite L. reflexivity.
Qed.

Lemma root_ex s a x : wf s -> lk s a = Some x -> exists r n, root s a r n.
Proof.
  intros W L. assert (R : rep s a = Some (nrep x)) by (unfold rep; rewrite L; reflexivity).
  destruct (root_of _ _ _ W R) as (n & Ln & En). exists (nrep x), n. repeat split; assumption.
Qed.

Lemma root_fun s a r n r' n' : root s a r n -> root s a r' n' -> r' = r /\ n' = n.
Proof. intros (R & L & _) (R' & L' & _). rewrite R in R'. injection R' as <-. rewrite L in L'. injection L' as <-. auto. Qed.

Lemma find_node_ok s a r n : root s a r n -> find_node a s = Ok (n, s).
Proof.
  intros (R & L & _). unfold find_node. rewrite (bind_ok _ _ _ _ _ (find_ok _ _ _ R)). now apply get_node_ok.
Qed.

Definition set_cons_node (n : node) (cs : list constr) : node := mkNode (nty n) (nrep n) (nsize n) cs.
Definition set_type_node (n : node) (t : tyh) : node := mkNode t (nrep n) (nsize n) (ncons n).

Lemma add_constraint_ok s a c r n :
  root s a r n -> add_constraint a c s = Ok (tt, put_st r (set_cons_node n (cinsert c (ncons n))) s).
Proof.
  intros (R & L & _). unfold add_constraint.
  rewrite (bind_ok _ _ _ _ _ (find_ok _ _ _ R)), (bind_ok _ _ _ _ _ (get_node_ok _ _ _ L)). apply put_node_eq.
Qed.

Lemma set_type_ok s a t r n : root s a r n -> set_type a t s = Ok (tt, put_st r (set_type_node n t) s).
Proof.
  intros (R & L & _). unfold set_type.
  rewrite (bind_ok _ _ _ _ _ (find_ok _ _ _ R)), (bind_ok _ _ _ _ _ (get_node_ok _ _ _ L)). apply put_node_eq.
Qed.

Definition union_res (s : st) (ra rb : tyid) (na nb : node) : st :=
  if N.ltb (nsize na) (nsize nb) then union_st rb ra nb na s else union_st ra rb na nb s.

Lemma union_ok s a b ra rb na nb :
  root s a ra na -> root s b rb nb -> ra <> rb -> union a b s = Ok (tt, union_res s ra rb na nb).
Proof.
  intros (Ra & La & _) (Rb & Lb & _) Ne. unfold union.
  rewrite (bind_ok _ _ _ _ _ (find_ok _ _ _ Ra)), (bind_ok _ _ _ _ _ (find_ok _ _ _ Rb)).
  destruct (Pos.eqb_spec ra rb); [contradiction|].
  rewrite (bind_ok _ _ _ _ _ (get_node_ok _ _ _ La)), (bind_ok _ _ _ _ _ (get_node_ok _ _ _ Lb)).
  unfold union_res. destruct (N.ltb (nsize na) (nsize nb)); reflexivity.
Qed.

(* ------------------------------------------------------------------ satisfied constraints *)
Definition same_rep (s : st) (a b : tyid) : Prop := exists r, rep s a = Some r /\ rep s b = Some r.

Definition arith_ok (s : st) (k : arithk) (a b : tyid) : Prop :=
  exists ta tb, head s a = Some ta /\ head s b = Some tb /\ arith_base_ok k ta tb = true.

(* the constraint c, stored in the class of a, holds: checking it again changes nothing *)
Definition cok (s : st) (a : tyid) (c : constr) : Prop :=
  match c with
  | CAdd b => arith_ok s AAdd a b
  | CSub b => arith_ok s ASub a b
  | CMul b => arith_ok s AMul a b
  | CCmp b => arith_ok s ACmp a b
  | CEqu b => same_rep s a b
  | CCmpEqu b => same_rep s a b /\ arith_ok s ACmp a b
  | CNeg => exists t, head s a = Some t /\ is_num t = true
  | CVariable => True
  | _ => False
  end.

Definition okhead (t : tyh) : bool :=
  match t with HUnknown | HInt | HFloat | HStr | HBool => true | _ => false end.

(* the class of i: its head is a base type or Unknown, all its constraints hold *)
Definition good (s : st) (i : tyid) : Prop :=
  exists r n, root s i r n /\ okhead (nty n) = true /\ forall c, In c (ncons n) -> cok s i c.

Lemma arith_ok_rigid k ta tb : arith_base_ok k ta tb = true -> rigid ta = true /\ rigid tb = true.
Proof. destruct k, ta, tb; cbn; intros H; try discriminate; auto. Qed.

Lemma same_rep_ext s s' a b : ext s s' -> same_rep s a b -> same_rep s' a b.
Proof. intros (_ & _ & E3 & _) (r & Ha & Hb). destruct (E3 _ _ _ Ha Hb) as (r' & ? & ?). exists r'. auto. Qed.

Lemma arith_ok_ext s s' k a b : ext s s' -> arith_ok s k a b -> arith_ok s' k a b.
Proof.
  intros E (ta & tb & Ha & Hb & Ok). destruct (arith_ok_rigid _ _ _ Ok) as [Ra Rb].
  exists ta, tb. split; [exact (head_keep _ _ _ _ E Ha Ra)|]. split; [exact (head_keep _ _ _ _ E Hb Rb)|exact Ok].
Qed.

Lemma cok_ext s s' a c : ext s s' -> cok s a c -> cok s' a c.
Proof.
  intros E H. destruct c; cbn [cok] in *; try contradiction; try (now apply (arith_ok_ext s s')); try exact I.
  - now apply (same_rep_ext s s').
  - destruct H as [H1 H2]. split; [now apply (same_rep_ext s s')|now apply (arith_ok_ext s s')].
  - destruct H as (t & Ht & Nt). exists t. split; [|exact Nt]. apply (head_keep _ _ _ _ E Ht). destruct t; try discriminate; reflexivity.
Qed.

Lemma same_rep_head s a b : same_rep s a b -> head s a = head s b.
Proof. intros (r & Ha & Hb). exact (same_rep_same_head _ _ _ _ Ha Hb). Qed.

Lemma same_rep_sym s a b : same_rep s a b -> same_rep s b a.
Proof. intros (r & Ha & Hb). exists r. auto. Qed.

Lemma same_rep_trans s a b c : same_rep s a b -> same_rep s b c -> same_rep s a c.
Proof. intros (r & Ha & Hb) (r' & Hb' & Hc). rewrite Hb in Hb'. injection Hb' as <-. exists r. auto. Qed.

(* the same constraint, seen from another member of the class *)
Lemma cok_same_rep s a a' c : same_rep s a a' -> cok s a c -> cok s a' c.
Proof.
  intros Sr H. pose proof (same_rep_head _ _ _ Sr) as Hh. pose proof (same_rep_sym _ _ _ Sr) as Sr'.
  assert (A : forall k b, arith_ok s k a b -> arith_ok s k a' b).
  { intros k b (ta & tb & Ha & Hb & Ok). exists ta, tb. rewrite <- Hh. auto. }
  destruct c; cbn [cok] in *; try contradiction; auto.
  - exact (same_rep_trans _ _ _ _ Sr' H).
  - destruct H as [H1 H2]. split; [exact (same_rep_trans _ _ _ _ Sr' H1)|auto].
  - rewrite <- Hh. exact H.
Qed.

(* ------------------------------------------------------------------ checking satisfied constraints again *)
Lemma arith_id g k sp a b s : arith_ok s k a b -> g_arith (gfix (S g)) k sp a b s = Ok (tt, s).
Proof.
  intros (ta & tb & Ha & Hb & Ok). cbn [gfix gstep g_arith]. unfold arith_body.
  rewrite (bind_ok _ _ _ _ _ (find_type_ok _ _ _ Ha)), (bind_ok _ _ _ _ _ (find_type_ok _ _ _ Hb)).
  destruct (arith_ok_rigid _ _ _ Ok) as [Ra Rb]. rewrite (rigid_known _ Ra), (rigid_known _ Rb). cbn [orb].
  rewrite Ok. reflexivity.
Qed.

Lemma unify_of_g R sp a b s r sn s' : g_unify R sp a b [] s = Ok ((r, sn), s') -> unify R sp a b s = Ok (r, s').
Proof. intros H. unfold unify. rewrite (bind_ok _ _ _ _ _ H). reflexivity. Qed.

Lemma unify_same g sp a b s r : rep s a = Some r -> rep s b = Some r -> unify (gfix (S g)) sp a b s = Ok (r, s).
Proof.
  intros Ha Hb. apply (unify_of_g _ _ _ _ _ _ []). cbn [gfix gstep g_unify]. unfold unify_body.
  rewrite (bind_ok _ _ _ _ _ (find_ok _ _ _ Ha)), (bind_ok _ _ _ _ _ (find_ok _ _ _ Hb)). rewrite Pos.eqb_refl. reflexivity.
Qed.

Lemma check_one_id g sp a c s t :
  head s a = Some t -> okhead t = true -> cok s a c -> check_one (gfix (S g)) sp a c s = Ok (tt, s).
Proof.
  intros Ht Ok H. destruct c; cbn [cok] in H; try contradiction; cbn [check_one].
  - now apply arith_id.
  - now apply arith_id.
  - now apply arith_id.
  - destruct H as (r & Ha & Hb). rewrite (bind_ok _ _ _ _ _ (unify_same g sp a t0 s r Ha Hb)). reflexivity.
  - now apply arith_id.
  - destruct H as [(r & Ha & Hb) H2]. rewrite (bind_ok _ _ _ _ _ (unify_same g sp a t0 s r Ha Hb)). now apply arith_id.
  - destruct H as (t' & Ht' & Nt). cbn [gfix gstep g_neg]. unfold neg_body.
    rewrite (bind_ok _ _ _ _ _ (find_type_ok _ _ _ Ht')). destruct t'; try discriminate Nt; reflexivity.
  - rewrite (bind_ok _ _ _ _ _ (find_type_ok _ _ _ Ht)). destruct t; try discriminate Ok; reflexivity.
Qed.

Lemma iterM_id {A} (f : A -> M unit) l s : (forall c, In c l -> f c s = Ok (tt, s)) -> iterM f l s = Ok (tt, s).
Proof.
  induction l as [|x l IH]; intros H; cbn [iterM]; [reflexivity|].
  rewrite (bind_ok _ _ _ _ _ (H x (or_introl eq_refl))). apply IH. intros c Hc. apply H. now right.
Qed.

Lemma check_id g sp a s r n :
  root s a r n -> okhead (nty n) = true -> (forall c, In c (ncons n) -> cok s a c) ->
  g_check (gfix (S (S g))) sp a s = Ok (tt, s).
Proof.
  intros Rt Ok H. cbn [gfix gstep g_check]. unfold check_body.
  rewrite (bind_ok _ _ _ _ _ (find_node_ok _ _ _ _ Rt)). apply iterM_id. intros c Hc.
  exact (check_one_id g sp a c s (nty n) (root_head _ _ _ _ Rt) Ok (H c Hc)).
Qed.

Lemma good_check g sp a s : good s a -> g_check (gfix (S (S g))) sp a s = Ok (tt, s).
Proof. intros (r & n & Rt & Ok & H). exact (check_id g sp a s r n Rt Ok H). Qed.

(* ------------------------------------------------------------------ the occurs check on a leaf *)
Lemma okhead_kid t x : okhead t = true -> kid t x = None.
Proof. destruct t; try discriminate; intros _; destruct x; reflexivity. Qed.

Lemma inside_ok g sp u ty s ru rt nt :
  rep s u = Some ru -> root s ty rt nt -> okhead (nty nt) = true ->
  check_not_inside (gfix (S (S g))) sp u ty s = Ok (tt, s).
Proof.
  intros Hu Rt Ok. unfold check_not_inside. rewrite (bind_ok _ _ _ _ _ (find_ok _ _ _ Hu)).
  cbn [gfix gstep g_inside]. unfold inside_body at 1.
  destruct Rt as (Rr & L & E). rewrite (bind_ok _ _ _ _ _ (find_ok _ _ _ Rr)). cbn [existsb].
  assert (Hh : head s rt = Some (nty nt)) by (apply (root_head s rt rt nt); apply (root_self s ty); repeat split; assumption).
  rewrite (bind_ok _ _ _ _ _ (find_type_ok _ _ _ Hh)).
  destruct (nty nt); try discriminate Ok; reflexivity.
Qed.

(* ------------------------------------------------------------------ the state after a union *)
Lemma cinsert_inv c d l : In d (cinsert c l) -> d = c \/ In d l.
Proof.
  induction l as [|e l IH]; cbn [cinsert]; [intros [<-|[]]; now left|].
  destruct (constr_compare c e).
  - intros H. now right.
  - intros [<-|H]; [now left|now right].
  - intros [<-|H]; [right; now left|]. destruct (IH H) as [->|H']; [now left|right; now right].
Qed.

Lemma fold_cinsert_inv d l : forall acc, In d (fold_left (fun acc c => cinsert c acc) l acc) -> In d l \/ In d acc.
Proof.
  induction l as [|x l IH]; intros acc H; cbn [fold_left] in H; [now right|].
  destruct (IH _ H) as [H1|H1]; [left; now right|]. destruct (cinsert_inv _ _ _ H1) as [->|H2]; [left; now left|now right].
Qed.

Lemma fold_cinsert_acc d l : forall acc, In d acc -> In d (fold_left (fun acc c => cinsert c acc) l acc).
Proof. induction l as [|x l IH]; intros acc H; cbn [fold_left]; [exact H|]. apply IH. now apply cinsert_keeps. Qed.

Lemma fold_cinsert_new d l : forall acc, In d l -> In d (fold_left (fun acc c => cinsert c acc) l acc).
Proof.
  induction l as [|x l IH]; intros acc H; [destruct H|]. cbn [fold_left]. destruct H as [->|H]; [|now apply IH].
  apply fold_cinsert_acc. apply cinsert_In.
Qed.

Definition merged_into (ra rb big : tyid) (q : tyid) : tyid := if Pos.eqb q ra || Pos.eqb q rb then big else q.

Lemma union_res_spec s ra rb na nb :
  wf s -> lk s ra = Some na -> nrep na = ra -> lk s rb = Some nb -> nrep nb = rb -> ra <> rb ->
  nty na = nty nb -> okhead (nty na) = true ->
  let s3 := union_res s ra rb na nb in
  wf s3 /\ ext s s3 /\ tnames s3 = tnames s /\ next s3 = next s /\
  exists big n3, (big = ra \/ big = rb) /\ lk s3 big = Some n3 /\ nrep n3 = big /\ nty n3 = nty na /\
    (forall c, In c (ncons n3) <-> In c (ncons na) \/ In c (ncons nb)) /\
    (forall i, rep s3 i = option_map (merged_into ra rb big) (rep s i)) /\
    (forall i n, lk s i = Some n -> nrep n <> ra -> nrep n <> rb -> lk s3 i = Some n).
Proof.
  intros W La Ea Lb Eb Ne Ty Ok s3. unfold s3, union_res. destruct (N.ltb (nsize na) (nsize nb)).
  - (* rb survives *)
    assert (Ne' : rb <> ra) by congruence.
    destruct (union_st_spec rb ra nb na s W Lb Eb La Ea Ne') as [W3 E3].
    { right. rewrite Ty. apply same_shape_refl. }
    { intros x cs cb K. rewrite (okhead_kid _ x Ok) in K. discriminate. }
    split; [exact W3|]. split; [exact E3|]. split; [reflexivity|]. split; [reflexivity|].
    exists rb. eexists. split; [now right|]. split; [rewrite lk_union, Pos.eqb_refl; reflexivity|].
    split; [reflexivity|]. split; [cbn [nty]; congruence|]. split; [|split].
    + intros c. cbn [ncons]. split.
      * intros H. destruct (fold_cinsert_inv _ _ _ H); tauto.
      * intros [H|H]; [now apply fold_cinsert_new|now apply fold_cinsert_acc].
    + intros i. rewrite (rep_union rb ra nb na s i Lb Eb Ne'). destruct (rep s i) as [q|]; [|reflexivity]. cbn [option_map].
      unfold merged_into. destruct (Pos.eqb_spec q ra); [reflexivity|]. cbn [orb]. destruct (Pos.eqb_spec q rb); congruence.
    + intros i n Li N1 N2. rewrite lk_union. destruct (Pos.eqb_spec i rb) as [->|Ni].
      * rewrite Lb in Li. injection Li as <-. contradiction.
      * rewrite Li. cbn [option_map]. unfold moved. destruct (Pos.eqb_spec (nrep n) ra); [contradiction|reflexivity].
  - (* ra survives *)
    destruct (union_st_spec ra rb na nb s W La Ea Lb Eb Ne) as [W3 E3].
    { right. rewrite Ty. apply same_shape_refl. }
    { intros x cs cb K. rewrite <- Ty in K. rewrite (okhead_kid _ x Ok) in K. discriminate. }
    split; [exact W3|]. split; [exact E3|]. split; [reflexivity|]. split; [reflexivity|].
    exists ra. eexists. split; [now left|]. split; [rewrite lk_union, Pos.eqb_refl; reflexivity|].
    split; [reflexivity|]. split; [reflexivity|]. split; [|split].
    + intros c. cbn [ncons]. split.
      * intros H. destruct (fold_cinsert_inv _ _ _ H); tauto.
      * intros [H|H]; [now apply fold_cinsert_acc|now apply fold_cinsert_new].
    + intros i. rewrite (rep_union ra rb na nb s i La Ea Ne). destruct (rep s i) as [q|]; [|reflexivity]. cbn [option_map].
      unfold merged_into. destruct (Pos.eqb_spec q rb) as [->|]; [rewrite orb_true_r; reflexivity|]. rewrite orb_false_r.
      destruct (Pos.eqb_spec q ra); congruence.
    + intros i n Li N1 N2. rewrite lk_union. destruct (Pos.eqb_spec i ra) as [->|Ni].
      * rewrite La in Li. injection Li as <-. contradiction.
      * rewrite Li. cbn [option_map]. unfold moved. destruct (Pos.eqb_spec (nrep n) rb); [contradiction|reflexivity].
Qed.

(* ------------------------------------------------------------------ what an operation guarantees of the state it leaves *)
Definition step (s s' : st) : Prop :=
  wf s' /\ ext s s' /\ (forall i, good s i -> good s' i) /\ tnames s' = tnames s.

Lemma step_refl s : wf s -> step s s.
Proof. intros W. split; [exact W|]. split; [apply ext_refl|]. split; auto. Qed.

Lemma step_trans s1 s2 s3 : step s1 s2 -> step s2 s3 -> step s1 s3.
Proof.
  intros (W2 & E2 & G2 & T2) (W3 & E3 & G3 & T3). split; [exact W3|]. split; [eapply ext_trans; eassumption|].
  split; [auto|congruence].
Qed.

(* the nodes outside the classes of ra and rb are not touched *)
Definition others_kept (s s' : st) (ra rb : tyid) : Prop :=
  forall i n, lk s i = Some n -> nrep n <> ra -> nrep n <> rb -> lk s' i = Some n.

Lemma root_rep_root s a r n : wf s -> root s a r n -> rep s r = Some r.
Proof. intros W Rt. apply (root_self s a r n Rt). Qed.

Section Union.
  Variables (s : st) (ra rb : tyid) (na nb : node).
  Hypothesis W : wf s.
  Hypothesis La : lk s ra = Some na.
  Hypothesis Ea : nrep na = ra.
  Hypothesis Lb : lk s rb = Some nb.
  Hypothesis Eb : nrep nb = rb.
  Hypothesis Ne : ra <> rb.
  Hypothesis Ty : nty na = nty nb.
  Hypothesis Okh : okhead (nty na) = true.
  Let s3 := union_res s ra rb na nb.
  Hypothesis Hc : forall c, In c (ncons na) \/ In c (ncons nb) -> cok s3 ra c.

  Lemma unify_tail g sp (seen : seenset) :
    (union ra rb ;;; g_check (gfix (S (S g))) sp ra ;;; ret (ra, seen)) s = Ok ((ra, seen), s3).
  Proof.
    assert (Ra : root s ra ra na) by (split; [unfold rep; rewrite La; cbn; congruence|auto]).
    assert (Rb : root s rb rb nb) by (split; [unfold rep; rewrite Lb; cbn; congruence|auto]).
    rewrite (bind_ok _ _ _ _ _ (union_ok s ra rb ra rb na nb Ra Rb Ne)). fold s3.
    destruct (union_res_spec s ra rb na nb W La Ea Lb Eb Ne Ty Okh) as (W3 & E3 & _ & _ & big & n3 & Hb & L3 & En3 & T3 & C3 & R3 & _).
    fold s3 in W3, E3, L3, R3.
    assert (Rt : root s3 ra big n3).
    { split; [|auto]. rewrite R3. destruct Ra as (Ra & _). rewrite Ra. cbn [option_map]. unfold merged_into.
      rewrite Pos.eqb_refl. reflexivity. }
    rewrite (bind_ok _ _ _ _ _ (check_id g sp ra s3 big n3 Rt (eq_trans (f_equal okhead T3) Okh)
                                  (fun c Hin => Hc c (proj1 (C3 c) Hin)))).
    reflexivity.
  Qed.

  Lemma union_good i : good s i \/ rep s i = Some ra \/ rep s i = Some rb -> good s3 i.
  Proof.
    destruct (union_res_spec s ra rb na nb W La Ea Lb Eb Ne Ty Okh) as (W3 & E3 & _ & _ & big & n3 & Hb & L3 & En3 & T3 & C3 & R3 & K3).
    fold s3 in W3, E3, L3, R3, K3.
    assert (In2 : forall j, rep s j = Some ra \/ rep s j = Some rb -> rep s3 j = Some big).
    { intros j Hj. rewrite R3. unfold merged_into.
      destruct Hj as [-> | ->]; cbn [option_map]; rewrite Pos.eqb_refl; [reflexivity|rewrite orb_true_r; reflexivity]. }
    assert (Rra : rep s ra = Some ra) by (unfold rep; rewrite La; cbn; congruence).
    assert (M : forall j, rep s j = Some ra \/ rep s j = Some rb -> good s3 j).
    { intros j Hj. exists big, n3. split; [split; [now apply In2|auto]|]. split; [rewrite T3; exact Okh|].
      intros c Hin. apply (cok_same_rep s3 ra j); [exists big; split; [apply In2; now left|now apply In2]|].
      apply Hc. now apply C3. }
    intros [G|H]; [|now apply M].
    destruct G as (r & n & (Rr & L & E) & Okn & Cn).
    destruct (Pos.eq_dec r ra) as [->|N1]; [apply M; now left|]. destruct (Pos.eq_dec r rb) as [->|N2]; [apply M; now right|].
    exists r, n. split.
    - split; [|split; [|exact E]].
      + rewrite R3, Rr. cbn [option_map]. unfold merged_into.
        destruct (Pos.eqb_spec r ra); [contradiction|]. destruct (Pos.eqb_spec r rb); [contradiction|reflexivity].
      + apply K3; [exact L|congruence|congruence].
    - split; [exact Okn|]. intros c Hin. apply (cok_ext s s3); [exact E3|auto].
  Qed.
End Union.

(* ------------------------------------------------------------------ giving an Unknown class its type *)
Section SetType.
  Variables (s : st) (r : tyid) (n : node) (t : tyh).
  Hypothesis W : wf s.
  Hypothesis L : lk s r = Some n.
  Hypothesis E : nrep n = r.
  Hypothesis U : nty n = HUnknown.
  Let s2 := put_st r (set_type_node n t) s.

  Lemma set_type_wf : wf s2.
  Proof. exact (wf_put_root s r n (set_type_node n t) W L eq_refl). Qed.

  Lemma set_type_ext : ext s s2.
  Proof. apply (ext_put_root s r n (set_type_node n t) W L E E). left. rewrite U. reflexivity. Qed.

  Lemma set_type_rep i : rep s2 i = rep s i.
  Proof. exact (rep_put_root s r n (set_type_node n t) i L eq_refl). Qed.

  Lemma set_type_good i : okhead t = true -> good s i -> good s2 i.
  Proof.
    intros Okt (q & m & (Rq & Lq & Eq) & Okm & Cm). destruct (Pos.eq_dec q r) as [->|Nq].
    - rewrite L in Lq. injection Lq as <-. exists r, (set_type_node n t).
      split; [split; [rewrite set_type_rep; exact Rq|split; [apply lk_put_same|exact E]]|].
      split; [exact Okt|]. intros c Hin. apply (cok_ext s s2 i c set_type_ext). now apply Cm.
    - exists q, m. split; [split; [rewrite set_type_rep; exact Rq|split; [unfold s2; rewrite lk_put_other by exact Nq; exact Lq|exact Eq]]|].
      split; [exact Okm|]. intros c Hin. apply (cok_ext s s2 i c set_type_ext). now apply Cm.
  Qed.
End SetType.

(* ------------------------------------------------------------------ unify on good classes *)
Definition isbase (t : tyh) : bool := match t with HInt | HFloat | HStr | HBool => true | _ => false end.

Lemma isbase_okhead t : isbase t = true -> okhead t = true.
Proof. destruct t; try discriminate; reflexivity. Qed.

Lemma seen_mem_nil a b : seen_mem a b [] = false.
Proof. reflexivity. Qed.

(* both classes have the same base type *)
Lemma unify_bb g sp a b s ra rb na nb :
  wf s -> root s a ra na -> root s b rb nb -> ra <> rb -> nty na = nty nb -> isbase (nty na) = true ->
  (forall c, In c (ncons na) \/ In c (ncons nb) -> cok (union_res s ra rb na nb) ra c) ->
  unify (gfix (S (S (S g)))) sp a b s = Ok (ra, union_res s ra rb na nb).
Proof.
  intros W Ra Rb Ne Ty Bs Hc. apply (unify_of_g _ _ _ _ _ _ ((rb, ra) :: (ra, rb) :: [])).
  cbn [gfix gstep g_unify]. unfold unify_body.
  rewrite (bind_ok _ _ _ _ _ (find_ok _ _ _ (proj1 Ra))), (bind_ok _ _ _ _ _ (find_ok _ _ _ (proj1 Rb))).
  destruct (Pos.eqb_spec ra rb); [contradiction|]. rewrite seen_mem_nil. cbn [orb].
  pose proof (root_self _ _ _ _ Ra) as Ra'. pose proof (root_self _ _ _ _ Rb) as Rb'.
  rewrite (bind_ok _ _ _ _ _ (find_type_ok _ _ _ (root_head _ _ _ _ Ra'))), (bind_ok _ _ _ _ _ (find_type_ok _ _ _ (root_head _ _ _ _ Rb'))).
  destruct Ra as (_ & La & Ea), Rb as (_ & Lb & Eb).
  rewrite <- Ty. destruct (nty na) eqn:Tn; try discriminate Bs; cbv beta iota;
    rewrite (bind_ok _ _ _ _ _ (eq_refl : ret [(rb, ra); (ra, rb)] s = Ok (_, s)));
    apply (unify_tail s ra rb na nb W La Ea Lb Eb Ne); try (rewrite Tn; congruence); try (rewrite Tn; reflexivity); exact Hc.
Qed.

(* the class of b is Unknown: it takes the head of the class of a (a base type, or Unknown) *)
Lemma unify_xu g sp a b s ra rb na nb :
  wf s -> root s a ra na -> root s b rb nb -> ra <> rb -> okhead (nty na) = true -> nty nb = HUnknown ->
  let s2 := put_st rb (set_type_node nb (nty na)) s in
  let s3 := union_res s2 ra rb na (set_type_node nb (nty na)) in
  (forall c, In c (ncons na) \/ In c (ncons nb) -> cok s3 ra c) ->
  unify (gfix (S (S (S g)))) sp a b s = Ok (ra, s3).
Proof.
  intros W Ra Rb Ne Oka Ub s2 s3 Hc. apply (unify_of_g _ _ _ _ _ _ ((rb, ra) :: (ra, rb) :: [])).
  cbn [gfix gstep g_unify]. unfold unify_body.
  rewrite (bind_ok _ _ _ _ _ (find_ok _ _ _ (proj1 Ra))), (bind_ok _ _ _ _ _ (find_ok _ _ _ (proj1 Rb))).
  destruct (Pos.eqb_spec ra rb); [contradiction|]. rewrite seen_mem_nil. cbn [orb].
  pose proof (root_self _ _ _ _ Ra) as Ra'. pose proof (root_self _ _ _ _ Rb) as Rb'.
  rewrite (bind_ok _ _ _ _ _ (find_type_ok _ _ _ (root_head _ _ _ _ Ra'))), (bind_ok _ _ _ _ _ (find_type_ok _ _ _ (root_head _ _ _ _ Rb'))).
  rewrite Ub.
  assert (Pre : (check_not_inside (gfix (S (S g))) sp rb ra ;;; set_type rb (nty na) ;;; ret [(rb, ra); (ra, rb)]) s
                = Ok ([(rb, ra); (ra, rb)], s2)).
  { rewrite (bind_ok _ _ _ _ _ (inside_ok g sp rb ra s rb ra na (proj1 Rb') Ra' Oka)).
    rewrite (bind_ok _ _ _ _ _ (set_type_ok s rb (nty na) rb nb Rb')). reflexivity. }
  destruct Ra as (_ & La & Ea), Rb as (_ & Lb & Eb).
  remember (nty na) as h eqn:Eh.
  destruct h; try discriminate Oka; cbv beta iota; rewrite (bind_ok _ _ _ _ _ Pre);
    (eapply (unify_tail s2 ra rb na);
     [exact (set_type_wf s rb nb _ W Lb)
     |unfold s2; rewrite lk_put_other by exact Ne; exact La
     |exact Ea
     |apply lk_put_same
     |exact Eb
     |exact Ne
     |symmetry; exact Eh
     |rewrite <- Eh; reflexivity
     |exact Hc]).
Qed.

(* the class of a is Unknown, the class of b has a base type *)
Lemma unify_ub g sp a b s ra rb na nb :
  wf s -> root s a ra na -> root s b rb nb -> ra <> rb -> nty na = HUnknown -> isbase (nty nb) = true ->
  let s2 := put_st ra (set_type_node na (nty nb)) s in
  let s3 := union_res s2 ra rb (set_type_node na (nty nb)) nb in
  (forall c, In c (ncons na) \/ In c (ncons nb) -> cok s3 ra c) ->
  unify (gfix (S (S (S g)))) sp a b s = Ok (ra, s3).
Proof.
  intros W Ra Rb Ne Ua Bb s2 s3 Hc. apply (unify_of_g _ _ _ _ _ _ ((rb, ra) :: (ra, rb) :: [])).
  cbn [gfix gstep g_unify]. unfold unify_body.
  rewrite (bind_ok _ _ _ _ _ (find_ok _ _ _ (proj1 Ra))), (bind_ok _ _ _ _ _ (find_ok _ _ _ (proj1 Rb))).
  destruct (Pos.eqb_spec ra rb); [contradiction|]. rewrite seen_mem_nil. cbn [orb].
  pose proof (root_self _ _ _ _ Ra) as Ra'. pose proof (root_self _ _ _ _ Rb) as Rb'.
  rewrite (bind_ok _ _ _ _ _ (find_type_ok _ _ _ (root_head _ _ _ _ Ra'))), (bind_ok _ _ _ _ _ (find_type_ok _ _ _ (root_head _ _ _ _ Rb'))).
  rewrite Ua.
  assert (Pre : (check_not_inside (gfix (S (S g))) sp ra rb ;;; set_type ra (nty nb) ;;; ret [(rb, ra); (ra, rb)]) s
                = Ok ([(rb, ra); (ra, rb)], s2)).
  { rewrite (bind_ok _ _ _ _ _ (inside_ok g sp ra rb s ra rb nb (proj1 Ra') Rb' (isbase_okhead _ Bb))).
    rewrite (bind_ok _ _ _ _ _ (set_type_ok s ra (nty nb) ra na Ra')). reflexivity. }
  destruct Ra as (_ & La & Ea), Rb as (_ & Lb & Eb).
  remember (nty nb) as h eqn:Eh.
  destruct h; try discriminate Bb; cbv beta iota; rewrite (bind_ok _ _ _ _ _ Pre);
    (eapply (unify_tail s2 ra rb _ nb);
     [exact (set_type_wf s ra na _ W La)
     |apply lk_put_same
     |exact Ea
     |unfold s2; rewrite lk_put_other by congruence; exact Lb
     |exact Eb
     |exact Ne
     |exact Eh
     |reflexivity
     |exact Hc]).
Qed.

(* what is known of the state after the union of two classes of one head, when the merged constraints hold in it *)
Lemma union_finish0 s2 a b ra rb na nb :
  wf s2 -> lk s2 ra = Some na -> nrep na = ra -> lk s2 rb = Some nb -> nrep nb = rb -> ra <> rb ->
  nty na = nty nb -> okhead (nty na) = true -> rep s2 a = Some ra -> rep s2 b = Some rb ->
  let s3 := union_res s2 ra rb na nb in
  (forall c, In c (ncons na) \/ In c (ncons nb) -> cok s3 ra c) ->
  wf s3 /\ ext s2 s3 /\ (forall i, good s2 i \/ rep s2 i = Some ra \/ rep s2 i = Some rb -> good s3 i) /\
  tnames s3 = tnames s2 /\ same_rep s3 a b /\ head s3 a = Some (nty na) /\ same_rep s3 ra a /\ others_kept s2 s3 ra rb /\
  next s3 = next s2 /\ (rep s3 a = Some ra \/ rep s3 a = Some rb).
Proof.
  intros W La Ea Lb Eb Ne Ty Okh Ra Rb s3 Hc.
  destruct (union_res_spec s2 ra rb na nb W La Ea Lb Eb Ne Ty Okh) as (W3 & E3 & T3 & N3 & big & n3 & Hb & L3 & En3 & Ty3 & C3 & R3 & K3).
  fold s3 in W3, E3, T3, N3, L3, R3, K3.
  assert (B : forall j, rep s2 j = Some ra \/ rep s2 j = Some rb -> rep s3 j = Some big).
  { intros j Hj. rewrite R3. unfold merged_into.
    destruct Hj as [-> | ->]; cbn [option_map]; rewrite Pos.eqb_refl; [reflexivity|rewrite orb_true_r; reflexivity]. }
  assert (Rra : rep s2 ra = Some ra) by (unfold rep; rewrite La; cbn; congruence).
  split; [exact W3|]. split; [exact E3|]. split; [|split; [exact T3|split; [|split; [|split; [|split; [exact K3|split; [exact N3|]]]]]]].
  - intros i G. exact (union_good s2 ra rb na nb W La Ea Lb Eb Ne Ty Okh Hc i G).
  - exists big. split; apply B; auto.
  - assert (Rt : root s3 a big n3) by (split; [apply B; auto|auto]). rewrite (root_head _ _ _ _ Rt). congruence.
  - exists big. split; apply B; auto.
  - rewrite (B a (or_introl Ra)). destruct Hb as [-> | ->]; auto.
Qed.

Lemma union_finish s2 a b ra rb na nb :
  wf s2 -> lk s2 ra = Some na -> nrep na = ra -> lk s2 rb = Some nb -> nrep nb = rb -> ra <> rb ->
  nty na = nty nb -> okhead (nty na) = true -> rep s2 a = Some ra -> rep s2 b = Some rb ->
  (forall c, In c (ncons na) -> cok s2 a c) -> (forall c, In c (ncons nb) -> cok s2 b c) ->
  let s3 := union_res s2 ra rb na nb in
  (forall c, In c (ncons na) \/ In c (ncons nb) -> cok s3 ra c) /\
  step s2 s3 /\ same_rep s3 a b /\ head s3 a = Some (nty na) /\ same_rep s3 ra a /\ others_kept s2 s3 ra rb /\
  next s3 = next s2 /\ (rep s3 a = Some ra \/ rep s3 a = Some rb).
Proof.
  intros W La Ea Lb Eb Ne Ty Okh Ra Rb CA CB s3.
  destruct (union_res_spec s2 ra rb na nb W La Ea Lb Eb Ne Ty Okh) as (W3 & E3 & T3 & N3 & big & n3 & Hb & L3 & En3 & Ty3 & C3 & R3 & K3).
  fold s3 in W3, E3, T3, N3, L3, R3, K3.
  assert (Rra : rep s2 ra = Some ra) by (unfold rep; rewrite La; cbn; congruence).
  assert (B : forall j, rep s2 j = Some ra \/ rep s2 j = Some rb -> rep s3 j = Some big).
  { intros j Hj. rewrite R3. unfold merged_into.
    destruct Hj as [-> | ->]; cbn [option_map]; rewrite Pos.eqb_refl; [reflexivity|rewrite orb_true_r; reflexivity]. }
  assert (Hc : forall c, In c (ncons na) \/ In c (ncons nb) -> cok s3 ra c).
  { intros c [H|H].
    - apply (cok_same_rep s3 a ra); [exists big; split; apply B; auto|]. apply (cok_ext s2 s3 a c E3). now apply CA.
    - apply (cok_same_rep s3 b ra); [exists big; split; apply B; auto|]. apply (cok_ext s2 s3 b c E3). now apply CB. }
  destruct (union_finish0 s2 a b ra rb na nb W La Ea Lb Eb Ne Ty Okh Ra Rb Hc) as (_ & _ & G3 & _ & Sr & Hd & Sr2 & _ & _ & Rr).
  split; [exact Hc|]. split; [|split; [exact Sr|split; [exact Hd|split; [exact Sr2|split; [exact K3|split; [exact N3|exact Rr]]]]]].
  split; [exact W3|]. split; [exact E3|]. split; [|exact T3]. intros i G. apply G3. now left.
Qed.

(* the head two classes can be given together *)
Definition hjoin (ha hb : tyh) : option tyh :=
  if is_unknown hb then Some ha else if is_unknown ha then Some hb
  else if isbase ha && same_shape ha hb then Some ha else None.

Lemma okhead_cases t : okhead t = true -> t = HUnknown \/ isbase t = true.
Proof. destruct t; try discriminate; auto. Qed.

Lemma good_head s i t : good s i -> head s i = Some t -> okhead t = true.
Proof. intros (r & n & Rt & Ok' & _) H. rewrite (root_head _ _ _ _ Rt) in H. injection H as <-. exact Ok'. Qed.

Theorem unify_good g sp a b s ha hb h :
  wf s -> good s a -> good s b -> head s a = Some ha -> head s b = Some hb -> hjoin ha hb = Some h ->
  exists r s', unify (gfix (S (S (S g)))) sp a b s = Ok (r, s') /\ step s s' /\ same_rep s' a b /\
    head s' a = Some h /\ same_rep s' r a /\ next s' = next s /\
    (forall ra rb, rep s a = Some ra -> rep s b = Some rb ->
                   others_kept s s' ra rb /\ (rep s' a = Some ra \/ rep s' a = Some rb)).
Proof.
  intros W Ga Gb Ha Hb J. pose proof Ga as (ra & na & Rta & Oka & Ca). pose proof Gb as (rb & nb & Rtb & Okb & Cb).
  rewrite (root_head _ _ _ _ Rta) in Ha. injection Ha as <-. rewrite (root_head _ _ _ _ Rtb) in Hb. injection Hb as <-.
  destruct (Pos.eq_dec ra rb) as [<-|Ne].
  - (* one class already *)
    destruct (root_fun _ _ _ _ _ _ (root_self _ _ _ _ Rta) (root_self _ _ _ _ Rtb)) as [_ En]. subst nb.
    exists ra, s. split; [exact (unify_same _ sp a b s ra (proj1 Rta) (proj1 Rtb))|]. split; [now apply step_refl|].
    split; [exists ra; split; [exact (proj1 Rta)|exact (proj1 Rtb)]|]. split; [|split; [|split]].
    + rewrite (root_head _ _ _ _ Rta). f_equal. unfold hjoin in J.
      destruct (okhead_cases _ Oka) as [U|B]; [rewrite U in *; cbn in J; congruence|].
      destruct (nty na); try discriminate B; cbn in J; congruence.
    + exists ra. split; [exact (root_rep_root _ _ _ _ W Rta)|exact (proj1 Rta)].
    + reflexivity.
    + intros ra' rb' Ra' _. split; [intros i n Li _ _; exact Li|now left].
  - pose proof Rta as (Ra & La & Ea). pose proof Rtb as (Rb & Lb & Eb).
    unfold hjoin in J. destruct (is_unknown (nty nb)) eqn:Ub.
    + (* b is Unknown *)
      assert (Ub' : nty nb = HUnknown) by (destruct (nty nb); try discriminate Ub; reflexivity). injection J as <-.
      set (s2 := put_st rb (set_type_node nb (nty na)) s).
      assert (W2 : wf s2) by exact (set_type_wf s rb nb _ W Lb).
      assert (E2 : ext s s2) by exact (set_type_ext s rb nb _ W Lb Eb Ub').
      assert (La2 : lk s2 ra = Some na) by (unfold s2; rewrite lk_put_other by exact Ne; exact La).
      assert (Lb2 : lk s2 rb = Some (set_type_node nb (nty na))) by apply lk_put_same.
      destruct (union_finish s2 a b ra rb na (set_type_node nb (nty na)) W2 La2 Ea Lb2 Eb Ne eq_refl Oka)
        as (Hc & St & Sr & Hd & Sr2 & K3 & N3 & Rr).
      { unfold s2. rewrite set_type_rep by exact Lb. exact Ra. }
      { unfold s2. rewrite set_type_rep by exact Lb. exact Rb. }
      { intros c Hin. apply (cok_ext s s2 a c E2). now apply Ca. }
      { intros c Hin. apply (cok_ext s s2 b c E2). now apply Cb. }
      eexists ra, _. split; [exact (unify_xu g sp a b s ra rb na nb W Rta Rtb Ne Oka Ub' Hc)|].
      split; [|split; [exact Sr|split; [exact Hd|split; [exact Sr2|split; [exact N3|]]]]].
      * apply (step_trans s s2); [|exact St]. split; [exact W2|]. split; [exact E2|]. split; [|reflexivity].
        intros i G. exact (set_type_good s rb nb (nty na) W Lb Eb Ub' i Oka G).
      * intros ra' rb' Ra' Rb'. rewrite Ra in Ra'. rewrite Rb in Rb'. injection Ra' as <-. injection Rb' as <-.
        split; [|exact Rr].
        intros i n Li N1 N2. apply K3; [|exact N1|exact N2]. unfold s2. rewrite lk_put_other; [exact Li|].
        intros ->. rewrite Lb in Li. injection Li as <-. contradiction.
    + destruct (is_unknown (nty na)) eqn:Ua.
      * (* a is Unknown, b has a base type *)
        assert (Ua' : nty na = HUnknown) by (destruct (nty na); try discriminate Ua; reflexivity). injection J as <-.
        assert (Bb : isbase (nty nb) = true) by (destruct (okhead_cases _ Okb) as [U|B]; [rewrite U in Ub; discriminate|exact B]).
        set (s2 := put_st ra (set_type_node na (nty nb)) s).
        assert (W2 : wf s2) by exact (set_type_wf s ra na _ W La).
        assert (E2 : ext s s2) by exact (set_type_ext s ra na _ W La Ea Ua').
        assert (La2 : lk s2 ra = Some (set_type_node na (nty nb))) by apply lk_put_same.
        assert (Lb2 : lk s2 rb = Some nb) by (unfold s2; rewrite lk_put_other by congruence; exact Lb).
        destruct (union_finish s2 a b ra rb (set_type_node na (nty nb)) nb W2 La2 Ea Lb2 Eb Ne eq_refl Okb)
          as (Hc & St & Sr & Hd & Sr2 & K3 & N3 & Rr).
        { unfold s2. rewrite set_type_rep by exact La. exact Ra. }
        { unfold s2. rewrite set_type_rep by exact La. exact Rb. }
        { intros c Hin. apply (cok_ext s s2 a c E2). now apply Ca. }
        { intros c Hin. apply (cok_ext s s2 b c E2). now apply Cb. }
        eexists ra, _. split; [exact (unify_ub g sp a b s ra rb na nb W Rta Rtb Ne Ua' Bb Hc)|].
        split; [|split; [exact Sr|split; [exact Hd|split; [exact Sr2|split; [exact N3|]]]]].
        -- apply (step_trans s s2); [|exact St]. split; [exact W2|]. split; [exact E2|]. split; [|reflexivity].
           intros i G. exact (set_type_good s ra na (nty nb) W La Ea Ua' i Okb G).
        -- intros ra' rb' Ra' Rb'. rewrite Ra in Ra'. rewrite Rb in Rb'. injection Ra' as <-. injection Rb' as <-.
           split; [|exact Rr].
           intros i n Li N1 N2. apply K3; [|exact N1|exact N2]. unfold s2. rewrite lk_put_other; [exact Li|].
           intros ->. rewrite La in Li. injection Li as <-. contradiction.
      * (* the same base type *)
        destruct (isbase (nty na)) eqn:Ba; [|discriminate]. cbn [andb] in J.
        destruct (same_shape (nty na) (nty nb)) eqn:Sh; [|discriminate]. injection J as <-.
        assert (Ty : nty na = nty nb).
        { symmetry. apply rigid_shape; [|exact Sh]. destruct (nty na); try discriminate Ba; reflexivity. }
        destruct (union_finish s a b ra rb na nb W La Ea Lb Eb Ne Ty Oka Ra Rb Ca Cb) as (Hc & St & Sr & Hd & Sr2 & K3 & N3 & Rr).
        eexists ra, _. split; [exact (unify_bb g sp a b s ra rb na nb W Rta Rtb Ne Ty Ba Hc)|].
        split; [exact St|split; [exact Sr|split; [exact Hd|split; [exact Sr2|split; [exact N3|]]]]].
        intros ra' rb' Ra' Rb'. rewrite Ra in Ra'. rewrite Rb in Rb'. injection Ra' as <-. injection Rb' as <-. split; [exact K3|exact Rr].
Qed.

(* ------------------------------------------------------------------ a new node *)
Lemma push_good t s :
  wf s -> okhead t = true ->
  let s' := push_st t s in
  step s s' /\ good s' (next s) /\ head s' (next s) = Some t /\ next s' = Pos.succ (next s) /\
  (forall i n, lk s i = Some n -> lk s' i = Some n).
Proof.
  intros W Okt s'. destruct (pres_push t s (next s) s' W (push_type_eq t s)) as [W' E'].
  assert (K : forall i n, lk s i = Some n -> lk s' i = Some n).
  { intros i n L. unfold s'. rewrite lk_push_old; [exact L|]. exact (wf_below _ _ _ W L). }
  split; [|split; [|split; [apply head_push_new|split; [reflexivity|exact K]]]].
  - split; [exact W'|]. split; [exact E'|]. split; [|reflexivity].
    intros i (r & n & (Rr & L & En) & Okn & Cn). exists r, n. split; [|split; [exact Okn|]].
    + split; [|split; [now apply K|exact En]]. unfold rep in *. destruct (lk s i) as [x|] eqn:Li; [|discriminate].
      rewrite (K _ _ Li). exact Rr.
    + intros c Hin. apply (cok_ext s s' i c E'). now apply Cn.
  - exists (next s), (mkNode t (next s) 1%N []). split; [|split; [exact Okt|intros c []]].
    split; [unfold rep, s'; rewrite lk_push_new; reflexivity|split; [apply lk_push_new|reflexivity]].
Qed.

(* ------------------------------------------------------------------ one more constraint on a class *)
Section AddCon.
  Variables (s : st) (r : tyid) (n : node) (c : constr).
  Hypothesis W : wf s.
  Hypothesis L : lk s r = Some n.
  Hypothesis E : nrep n = r.
  Let s1 := put_st r (set_cons_node n (cinsert c (ncons n))) s.

  Lemma addcon_wf : wf s1.
  Proof. exact (wf_put_root s r n (set_cons_node n (cinsert c (ncons n))) W L eq_refl). Qed.
  Lemma addcon_ext : ext s s1.
  Proof. apply (ext_put_root s r n (set_cons_node n (cinsert c (ncons n))) W L E E). right. reflexivity. Qed.
  Lemma addcon_rep i : rep s1 i = rep s i.
  Proof. exact (rep_put_root s r n (set_cons_node n (cinsert c (ncons n))) i L eq_refl). Qed.
  Lemma addcon_head i : head s1 i = head s i.
  Proof.
    unfold s1. rewrite (head_put_root s r n (set_cons_node n (cinsert c (ncons n))) i L E E). cbn [nty set_cons_node].
    unfold head, rep. destruct (lk s i) as [x|]; [|reflexivity]. cbn [option_map].
    destruct (Pos.eqb_spec (nrep x) r) as [->|]; [rewrite L; reflexivity|reflexivity].
  Qed.
  Lemma addcon_other i m : lk s i = Some m -> i <> r -> lk s1 i = Some m.
  Proof. intros Li Ne. unfold s1. rewrite lk_put_other by exact Ne. exact Li. Qed.

  (* the classes stay good, the class of r if the new constraint holds *)
  Lemma addcon_good i : good s i -> (rep s i = Some r -> cok s i c) -> good s1 i.
  Proof.
    intros (q & m & (Rq & Lq & Eq) & Okm & Cm) Hc. destruct (Pos.eq_dec q r) as [->|Nq].
    - rewrite L in Lq. injection Lq as <-. exists r, (set_cons_node n (cinsert c (ncons n))).
      split; [split; [rewrite addcon_rep; exact Rq|split; [apply lk_put_same|exact E]]|]. split; [exact Okm|].
      intros d Hd. cbn [ncons set_cons_node] in Hd. apply (cok_ext s s1 i d addcon_ext).
      destruct (cinsert_inv _ _ _ Hd) as [->|Hd']; [now apply Hc|now apply Cm].
    - exists q, m. split; [split; [rewrite addcon_rep; exact Rq|split; [now apply addcon_other|exact Eq]]|].
      split; [exact Okm|]. intros d Hd. apply (cok_ext s s1 i d addcon_ext). now apply Cm.
  Qed.
End AddCon.

Lemma add_constraint_good s a c :
  wf s -> good s a -> cok s a c ->
  exists s', add_constraint a c s = Ok (tt, s') /\ step s s' /\ next s' = next s /\
    (forall i, head s' i = head s i) /\ (forall i, rep s' i = rep s i) /\
    (forall ra, rep s a = Some ra -> forall i m, lk s i = Some m -> i <> ra -> lk s' i = Some m).
Proof.
  intros W Ga Hc. pose proof Ga as (r & n & Rt & Okn & Cn). pose proof Rt as (Rr & L & E).
  eexists. split; [exact (add_constraint_ok s a c r n Rt)|]. split; [|split; [reflexivity|split; [|split]]].
  - split; [exact (addcon_wf s r n c W L)|]. split; [exact (addcon_ext s r n c W L E)|]. split; [|reflexivity].
    intros i G. apply (addcon_good s r n c W L E i G). intros Ri. apply (cok_same_rep s a i); [exists r; auto|exact Hc].
  - exact (addcon_head s r n c L E).
  - exact (addcon_rep s r n c L).
  - intros ra Ra i m Li Ne. rewrite Rr in Ra. injection Ra as <-. now apply (addcon_other s r n c).
Qed.

(* ------------------------------------------------------------------ == != <=> >= <= : the two constraints, then the checks *)
Lemma iterM_switch {A} (f : A -> M unit) l s2 s3 :
  (forall c, In c l -> f c s3 = Ok (tt, s3)) ->
  (forall c, In c l -> f c s2 = Ok (tt, s2) \/ f c s2 = Ok (tt, s3)) ->
  (exists c, In c l /\ f c s2 = Ok (tt, s3)) ->
  iterM f l s2 = Ok (tt, s3).
Proof.
  induction l as [|x l IH]; intros H3 H2 (c & Hin & Hc); [destruct Hin|]. cbn [iterM].
  destruct (H2 x (or_introl eq_refl)) as [Hx|Hx].
  - rewrite (bind_ok _ _ _ _ _ Hx). destruct Hin as [->|Hin].
    + rewrite Hx in Hc. injection Hc as <-. apply iterM_id. intros d Hd. apply H3. now right.
    + apply IH; [intros d Hd; apply H3; now right|intros d Hd; apply H2; now right|eauto].
  - rewrite (bind_ok _ _ _ _ _ Hx). apply iterM_id. intros d Hd. apply H3. now right.
Qed.

Definition equ_con (con : tyid -> constr) : Prop := con = CEqu \/ con = CCmpEqu.

Lemma equ_checks g sp (con : tyid -> constr) x y s t :
  equ_con con -> (con = CCmpEqu -> arith_base_ok ACmp t t = true) ->
  wf s -> good s x -> good s y -> head s x = Some t -> head s y = Some t -> isbase t = true ->
  let G := gfix (S (S (S (S g)))) in
  exists s', (add_constraint x (con y) ;;; add_constraint y (con x) ;;; g_check G sp x ;;; g_check G sp y) s = Ok (tt, s') /\
    step s s' /\ next s' = next s /\ head s' x = Some t /\
    (forall rx ry, rep s x = Some rx -> rep s y = Some ry -> others_kept s s' rx ry).
Proof.
  intros Hcon Hcmp W Gx Gy Hx Hy Bt G. subst G.
  pose proof Gx as (rx & nx & Rtx & Okx & Cx). pose proof Gy as (ry & ny & Rty & Oky & Cy).
  assert (Tx : nty nx = t) by (rewrite (root_head _ _ _ _ Rtx) in Hx; congruence).
  assert (Ty : nty ny = t) by (rewrite (root_head _ _ _ _ Rty) in Hy; congruence).
  assert (AO : forall s0 u v, head s0 u = Some t -> head s0 v = Some t -> con = CCmpEqu -> arith_ok s0 ACmp u v).
  { intros s0 u v Hu Hv Ec. exists t, t. auto. }
  assert (CK : forall s0 u v, same_rep s0 u v -> head s0 u = Some t -> head s0 v = Some t -> cok s0 u (con v)).
  { intros s0 u v Sr Hu Hv. destruct Hcon as [-> | ->]; cbn [cok]; [exact Sr|split; [exact Sr|now apply AO]]. }
  destruct (Pos.eq_dec rx ry) as [<-|Ne].
  - (* already one class *)
    assert (Sr : same_rep s x y) by (exists rx; split; [exact (proj1 Rtx)|exact (proj1 Rty)]).
    destruct (add_constraint_good s x (con y) W Gx (CK s x y Sr Hx Hy)) as (s1 & A1 & St1 & N1 & Hd1 & Rp1 & K1).
    pose proof St1 as (W1 & E1 & G1 & _).
    assert (Sr1 : same_rep s1 y x) by (apply (same_rep_ext s s1 y x E1); now apply same_rep_sym).
    destruct (add_constraint_good s1 y (con x) W1 (G1 _ Gy) (CK s1 y x Sr1 (eq_trans (Hd1 y) Hy) (eq_trans (Hd1 x) Hx)))
      as (s2 & A2 & St2 & N2 & Hd2 & Rp2 & K2).
    pose proof St2 as (W2 & E2 & G2 & _).
    exists s2. rewrite (bind_ok _ _ _ _ _ A1), (bind_ok _ _ _ _ _ A2).
    rewrite (bind_ok _ _ _ _ _ (good_check _ sp x s2 (G2 _ (G1 _ Gx)))). split; [exact (good_check _ sp y s2 (G2 _ (G1 _ Gy)))|].
    split; [exact (step_trans _ _ _ St1 St2)|]. split; [congruence|]. split; [rewrite Hd2, Hd1; exact Hx|].
    intros rx' ry' Rx' Ry' i m Li N1' N2'.
    assert (Ni : i <> rx').
    { intros ->. destruct (root_of _ _ _ W Rx') as (q & Lq & Eq). rewrite Lq in Li. injection Li as <-. contradiction. }
    apply (K2 rx'); [rewrite Rp1; rewrite (proj1 Rtx) in Rx'; rewrite (proj1 Rty); exact Rx'| |exact Ni].
    apply (K1 rx' Rx'); [exact Li|exact Ni].
  - (* two classes: the first check unites them *)
    pose proof Rtx as (Rx & Lx & Ex). pose proof Rty as (Ry & Ly & Ey).
    set (nx1 := set_cons_node nx (cinsert (con y) (ncons nx))). set (s1 := put_st rx nx1 s).
    set (ny1 := set_cons_node ny (cinsert (con x) (ncons ny))). set (s2 := put_st ry ny1 s1).
    assert (W1 : wf s1) by exact (addcon_wf s rx nx (con y) W Lx).
    assert (E1 : ext s s1) by exact (addcon_ext s rx nx (con y) W Lx Ex).
    assert (Ly1 : lk s1 ry = Some ny) by (apply (addcon_other s rx nx (con y)); [exact Ly|congruence]).
    assert (Rty1 : root s1 y ry ny) by (split; [unfold s1; rewrite (addcon_rep s rx nx (con y) Lx); exact Ry|auto]).
    assert (W2 : wf s2) by exact (addcon_wf s1 ry ny (con x) W1 Ly1).
    assert (E2 : ext s1 s2) by exact (addcon_ext s1 ry ny (con x) W1 Ly1 Ey).
    assert (E02 : ext s s2) by (eapply ext_trans; eassumption).
    assert (Rp2 : forall i, rep s2 i = rep s i).
    { intros i. unfold s2. rewrite (addcon_rep s1 ry ny (con x) Ly1). exact (addcon_rep s rx nx (con y) Lx i). }
    assert (Hd2 : forall i, head s2 i = head s i).
    { intros i. unfold s2. rewrite (addcon_head s1 ry ny (con x) Ly1 Ey). exact (addcon_head s rx nx (con y) Lx Ex i). }
    assert (Lx2 : lk s2 rx = Some nx1) by (apply (addcon_other s1 ry ny (con x)); [apply lk_put_same|exact Ne]).
    assert (Ly2 : lk s2 ry = Some ny1) by apply lk_put_same.
    assert (Rtx2 : root s2 x rx nx1) by (split; [rewrite Rp2; exact Rx|auto]).
    assert (Rty2 : root s2 y ry ny1) by (split; [rewrite Rp2; exact Ry|auto]).
    assert (Tyy : nty nx1 = nty ny1) by (cbn; congruence).
    assert (Ok1 : okhead (nty nx1) = true) by exact Okx.
    set (s3 := union_res s2 rx ry nx1 ny1).
    destruct (union_res_spec s2 rx ry nx1 ny1 W2 Lx2 Ex Ly2 Ey Ne Tyy Ok1) as (W3 & E3 & T3 & N3 & big & n3 & Hb & L3 & En3 & Ty3 & C3 & R3 & K3).
    fold s3 in W3, E3, T3, N3, L3, R3, K3.
    assert (E03 : ext s s3) by (eapply ext_trans; eassumption).
    assert (B : forall j, rep s j = Some rx \/ rep s j = Some ry -> rep s3 j = Some big).
    { intros j Hj. rewrite R3, Rp2. unfold merged_into.
      destruct Hj as [-> | ->]; cbn [option_map]; rewrite Pos.eqb_refl; [reflexivity|rewrite orb_true_r; reflexivity]. }
    assert (Rrx : rep s rx = Some rx) by exact (root_rep_root _ _ _ _ W Rtx).
    assert (Rbase : rigid t = true) by (destruct t; try discriminate Bt; reflexivity).
    assert (H3 : forall j, head s j = Some t -> head s3 j = Some t) by (intros j Hj; exact (head_keep _ _ _ _ E03 Hj Rbase)).
    assert (Hrx : head s rx = Some t) by (rewrite <- Hx; symmetry; apply (same_rep_same_head s x rx rx Rx Rrx)).
    assert (Hc : forall c, In c (ncons nx1) \/ In c (ncons ny1) -> cok s3 rx c).
    { intros c [H|H]; cbn [ncons nx1 ny1 set_cons_node] in H; destruct (cinsert_inv _ _ _ H) as [->|H'].
      - apply CK; [exists big; split; apply B; auto|now apply H3|now apply H3].
      - apply (cok_same_rep s3 x rx); [exists big; split; apply B; auto|]. apply (cok_ext s s3 x c E03). now apply Cx.
      - apply CK; [exists big; split; apply B; auto|now apply H3|now apply H3].
      - apply (cok_same_rep s3 y rx); [exists big; split; apply B; auto|]. apply (cok_ext s s3 y c E03). now apply Cy. }
    destruct (union_finish0 s2 x y rx ry nx1 ny1 W2 Lx2 Ex Ly2 Ey Ne Tyy Ok1 (proj1 Rtx2) (proj1 Rty2) Hc)
      as (_ & _ & G3 & _ & Sr3 & Hd3 & _ & _ & _ & _).
    fold s3 in G3, Sr3, Hd3.
    assert (Gx3 : good s3 x) by (apply G3; right; left; exact (proj1 Rtx2)).
    assert (Gy3 : good s3 y) by (apply G3; right; right; exact (proj1 Rty2)).
    exists s3.
    rewrite (bind_ok _ _ _ _ _ (add_constraint_ok s x (con y) rx nx Rtx)). fold nx1 s1.
    rewrite (bind_ok _ _ _ _ _ (add_constraint_ok s1 y (con x) ry ny Rty1)). fold ny1 s2.
    assert (Chk : g_check (gfix (S (S (S (S g))))) sp x s2 = Ok (tt, s3)).
    { change (g_check (gfix (S (S (S (S g))))) sp x) with (check_body (gfix (S (S (S g)))) sp x). unfold check_body.
      rewrite (bind_ok _ _ _ _ _ (find_node_ok _ _ _ _ Rtx2)). apply iterM_switch.
      - intros c Hin. apply (check_one_id _ sp x c s3 t (H3 _ Hx) (isbase_okhead _ Bt)).
        apply (cok_same_rep s3 rx x); [apply same_rep_sym; exists big; split; apply B; auto|]. apply Hc. now left.
      - intros c Hin. cbn [ncons nx1 set_cons_node] in Hin. destruct (cinsert_inv _ _ _ Hin) as [->|H'].
        + right. assert (U : unify (gfix (S (S (S g)))) sp x y s2 = Ok (rx, s3)).
          { apply (unify_bb g sp x y s2 rx ry nx1 ny1 W2 Rtx2 Rty2 Ne Tyy); [|exact Hc]. cbn. rewrite Tx. exact Bt. }
          destruct Hcon as [-> | ->]; cbn [check_one]; rewrite (bind_ok _ _ _ _ _ U); [reflexivity|].
          apply arith_id. apply AO; [now apply H3|now apply H3|reflexivity].
        + left. apply (check_one_id _ sp x c s2 t (eq_trans (Hd2 x) Hx) (isbase_okhead _ Bt)).
          apply (cok_ext s s2 x c E02). now apply Cx.
      - exists (con y). split; [cbn [ncons nx1 set_cons_node]; apply cinsert_In|].
        assert (U : unify (gfix (S (S (S g)))) sp x y s2 = Ok (rx, s3)).
        { apply (unify_bb g sp x y s2 rx ry nx1 ny1 W2 Rtx2 Rty2 Ne Tyy); [|exact Hc]. cbn. rewrite Tx. exact Bt. }
        destruct Hcon as [-> | ->]; cbn [check_one]; rewrite (bind_ok _ _ _ _ _ U); [reflexivity|].
        apply arith_id. apply AO; [now apply H3|now apply H3|reflexivity]. }
    rewrite (bind_ok _ _ _ _ _ Chk). split; [exact (good_check _ sp y s3 Gy3)|].
    split; [|split; [rewrite N3; reflexivity|split; [now apply H3|]]].
    + split; [exact W3|]. split; [exact E03|]. split; [|rewrite T3; reflexivity].
      intros i Gi. apply G3. pose proof Gi as (q & m & (Rq & Lq & Eq) & Okm & Cm).
      destruct (Pos.eq_dec q rx) as [->|N1]; [right; left; rewrite Rp2; exact Rq|].
      destruct (Pos.eq_dec q ry) as [->|N2]; [right; right; rewrite Rp2; exact Rq|]. left.
      assert (G1 : good s1 i) by (apply (addcon_good s rx nx (con y) W Lx Ex i Gi); intros Ri; congruence).
      apply (addcon_good s1 ry ny (con x) W1 Ly1 Ey i G1). intros Ri. unfold s1 in Ri. rewrite (addcon_rep s rx nx (con y) Lx) in Ri. congruence.
    + intros rx' ry' Rx' Ry'. rewrite Rx in Rx'. rewrite Ry in Ry'. injection Rx' as <-. injection Ry' as <-.
      intros i m Li N1 N2. apply K3; [|exact N1|exact N2].
      assert (Ni1 : i <> rx) by (intros ->; rewrite Lx in Li; injection Li as <-; contradiction).
      assert (Ni2 : i <> ry) by (intros ->; rewrite Ly in Li; injection Li as <-; contradiction).
      apply (addcon_other s1 ry ny (con x)); [|exact Ni2]. apply (addcon_other s rx nx (con y)); [exact Li|exact Ni1].
Qed.
