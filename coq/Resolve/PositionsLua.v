(* Parentheses AND the positions they shift: if `a2` is `a1` with redundant parentheses inserted -- as ASTs:
   strip_parens a2 = a1 with an injective, file- and line-preserving function phi applied to every span (inserting
   `(` and `)` moves the later tokens of a line to the right and moves nothing to another line) -- then name
   resolution accepts both or rejects both with the same kinds of errors, the resolved programs are equal modulo
   spans (the line of every `<!>` included), they are ordered alike, and when the type checker accepts both the
   emitted text is the same.  Composition of Resolve/ParensProofs.v, Resolve/SpanMapProofs.v, Dep/SpanOrder.v
   and Back/SpanProofs.v. *)
From Coq Require Import String List NArith ZArith Bool Lia.
From Sylt Require Import Syntax.Resolved Resolve.PAst Resolve.Resolver Resolve.Parens Resolve.ParensProofs
     Resolve.SpanMap Resolve.SpanMapProofs Resolve.ParensLua
     Dep.Topo Dep.SpanOrder Back.IR Back.Emit Back.SpanProofs Types.Tc.
Import ListNotations.

Section Pos.
Variable phi : span -> span.
Hypothesis Hfile : forall s, sp_file (phi s) = sp_file s.
Hypothesis Hline : forall s, sp_line0 (phi s) = sp_line0 s.
Hypothesis Hinj : forall a b, phi a = phi b -> a = b.

(* ---- the fuel computed from the program does not depend on spans ---- *)
Lemma depth_e_mp : forall e, depth_e (mp_e phi e) = depth_e e
with depth_a_mp : forall a, depth_a (mp_a phi a) = depth_a a
with depth_s_mp : forall s, depth_s (mp_s phi s) = depth_s s.
Proof.
  - destruct e; cbn [mp_e depth_e]; try reflexivity; try (now rewrite ?depth_e_mp, ?depth_a_mp).
    + f_equal. induction branches as [|b l IH]; cbn; [reflexivity|]. rewrite IH. f_equal.
      destruct b as [c body sp']. cbn. f_equal.
      * destruct c; [apply depth_e_mp|reflexivity].
      * induction body as [|a l' IH']; cbn; [reflexivity|]. now rewrite depth_s_mp, IH'.
    + f_equal. rewrite depth_e_mp. f_equal. f_equal.
      * induction branches as [|b l IH]; cbn; [reflexivity|]. rewrite IH. f_equal.
        destruct b. cbn. induction body as [|a l' IH']; cbn; [reflexivity|]. now rewrite depth_s_mp, IH'.
      * destruct fall_through as [l|]; [|reflexivity].
        induction l as [|a l' IH']; cbn; [reflexivity|]. now rewrite depth_s_mp, IH'.
    + f_equal. induction body as [|a l IH]; cbn; [reflexivity|]. now rewrite depth_s_mp, IH.
    + f_equal. induction fields as [|[k a] l IH]; cbn; [reflexivity|]. cbn in IH. now rewrite depth_e_mp, IH.
    + f_equal. induction values as [|a l IH]; cbn; [reflexivity|]. now rewrite depth_e_mp, IH.
    + f_equal. induction values as [|a l IH]; cbn; [reflexivity|]. now rewrite depth_e_mp, IH.
  - destruct a; cbn [mp_a depth_a]; try reflexivity; try (now rewrite ?depth_e_mp, ?depth_a_mp).
    + f_equal. rewrite depth_a_mp. f_equal. induction args as [|a0 l IH]; cbn; [reflexivity|]. now rewrite depth_e_mp, IH.
    + f_equal. rewrite depth_e_mp, depth_a_mp. f_equal. f_equal.
      induction args as [|a0 l IH]; cbn; [reflexivity|]. now rewrite depth_e_mp, IH.
  - destruct s; cbn [mp_s depth_s]; try reflexivity; try (now rewrite ?depth_e_mp, ?depth_a_mp, ?depth_s_mp).
    + destruct value as [v|]; [now rewrite depth_e_mp|reflexivity].
    + f_equal. induction statements as [|a l IH]; cbn; [reflexivity|]. now rewrite depth_s_mp, IH.
Qed.

Lemma fuel_of_mp ast : fuel_of (mp_ast phi ast) = fuel_of ast.
Proof.
  unfold fuel_of, mp_ast. f_equal. induction ast as [|m ast IH]; cbn; [reflexivity|]. rewrite IH. f_equal.
  induction (m_stmts m) as [|s l IHl]; cbn; [reflexivity|]. now rewrite depth_s_mp, IHl.
Qed.

Theorem resolve_natural fl ast : res_nat phi (resolve fl ast) (resolve fl (mp_ast phi ast)).
Proof. unfold resolve. rewrite fuel_of_mp. apply resolve_fuel_natural; assumption. Qed.

(* ---- a mapped program is the program, modulo spans ---- *)
Lemma er_ty_mr : forall t, er_ty (mr_ty phi t) = er_ty t.
Proof.
  fix IH 1. intros t. destruct t; cbn [mr_ty er_ty]; try reflexivity.
  - f_equal. induction args as [|a l IHl]; cbn; [reflexivity|]. now rewrite IH, IHl.
  - f_equal. induction ts as [|a l IHl]; cbn; [reflexivity|]. now rewrite IH, IHl.
  - now rewrite IH.
  - rewrite IH. f_equal. induction params as [|a l IHl]; cbn; [reflexivity|]. now rewrite IH, IHl.
Qed.

Lemma er_e_mr : forall e, er_e (mr_e phi e) = er_e e
with er_b_mr : forall b, er_b (mr_b phi b) = er_b b
with er_c_mr : forall b, er_c (mr_c phi b) = er_c b
with er_s_mr : forall s, er_s (mr_s phi s) = er_s s.
Proof.
  - destruct e; cbn [mr_e er_e]; try reflexivity; try (now rewrite ?er_e_mr).
    + rewrite er_e_mr. f_equal. induction args as [|a l IH]; cbn; [reflexivity|]. now rewrite er_e_mr, IH.
    + f_equal. induction branches as [|a l IH]; cbn; [reflexivity|]. now rewrite er_b_mr, IH.
    + rewrite er_e_mr. f_equal.
      * induction branches as [|a l IH]; cbn; [reflexivity|]. now rewrite er_c_mr, IH.
      * destruct fall_through as [l|]; [|reflexivity]. f_equal.
        induction l as [|a l' IH]; cbn; [reflexivity|]. now rewrite er_s_mr, IH.
    + rewrite er_ty_mr. f_equal.
      * induction params as [|[[[n v] s0] t] l IH]; cbn; [reflexivity|]. rewrite IH. unfold er_param, mr_param. cbn.
        now rewrite er_ty_mr.
      * induction body as [|a l IH]; cbn; [reflexivity|]. now rewrite er_s_mr, IH.
    + f_equal. induction fields as [|[k a] l IH]; cbn; [reflexivity|]. cbn in IH. now rewrite er_e_mr, IH.
    + f_equal. induction values as [|a l IH]; cbn; [reflexivity|]. now rewrite er_e_mr, IH.
  - destruct b as [c body sp]. cbn [mr_b er_b]. f_equal.
    + destruct c; [now rewrite er_e_mr|reflexivity].
    + induction body as [|a l IH]; cbn; [reflexivity|]. now rewrite er_s_mr, IH.
  - destruct b. cbn [mr_c er_c]. f_equal. induction body as [|a l IH]; cbn; [reflexivity|]. now rewrite er_s_mr, IH.
  - destruct s; cbn [mr_s er_s]; try reflexivity; try (now rewrite ?er_e_mr, ?er_ty_mr).
    + f_equal. induction fields as [|[k [s0 t]] l IH]; cbn; [reflexivity|]. rewrite IH. unfold mr_field. cbn. now rewrite er_ty_mr.
    + f_equal. induction variants as [|[k [s0 t]] l IH]; cbn; [reflexivity|]. rewrite IH. unfold mr_field. cbn. now rewrite er_ty_mr.
    + rewrite er_e_mr. f_equal. induction body as [|a l IH]; cbn; [reflexivity|]. now rewrite er_s_mr, IH.
    + destruct value as [v|]; [now rewrite er_e_mr|reflexivity].
    + f_equal. induction statements as [|a l IH]; cbn; [reflexivity|]. now rewrite er_s_mr, IH.
    + unfold line_only. rewrite Hline. reflexivity.
Qed.

Lemma mapped_same_modulo_spans r : same_modulo_spans r (mr_resolved phi r).
Proof.
  unfold same_modulo_spans, er, mr_resolved. cbn [r_vars r_stmts]. rewrite !map_map. f_equal.
  apply map_ext. intros s. symmetry. apply er_s_mr.
Qed.

(* ---- the composition ---- *)
Theorem parens_and_positions_resolve fl a1 a2 :
  strip_parens a2 = mp_ast phi a1 ->
  match resolve fl a1, resolve fl a2 with
  | Resolver.Ok r1, Resolver.Ok r2 => same_modulo_spans r1 r2
  | Resolver.Err es1, Resolver.Err es2 => map e_kind es2 = map e_kind es1
  | Resolver.Panic s1, Resolver.Panic s2 => s1 = s2
  | Resolver.OutOfFuel, Resolver.OutOfFuel => True
  | _, _ => False
  end.
Proof.
  intros H. rewrite <- (resolve_erases_parens fl a2), H.
  pose proof (resolve_natural fl a1) as N. unfold res_nat in N.
  destruct (resolve fl a1) as [r1|es1|s1|], (resolve fl (mp_ast phi a1)) as [r2|es2|s2|]; try contradiction; auto.
  subst r2. apply mapped_same_modulo_spans.
Qed.

Theorem parens_and_positions_same_lua fl tgt fuel_tc fuel req a1 a2 r1 l1 :
  strip_parens a2 = mp_ast phi a1 ->
  resolve fl a1 = Resolver.Ok r1 ->
  init_order tgt (r_stmts r1) = OOk l1 ->
  exists r2 l2, resolve fl a2 = Resolver.Ok r2 /\ init_order tgt (r_stmts r2) = OOk l2
    /\ forall out1 out2,
         compile_after_order (Emit.backend fuel req) fuel_tc (mkResolved (r_vars r1) l1) = COk out1 ->
         compile_after_order (Emit.backend fuel req) fuel_tc (mkResolved (r_vars r2) l2) = COk out2 ->
         out1 = out2.
Proof.
  intros H R1 O1. pose proof (parens_and_positions_resolve fl a1 a2 H) as P. rewrite R1 in P.
  destruct (resolve fl a2) as [r2| | |]; try contradiction.
  destruct (spans_same_lua tgt fuel_tc fuel req r1 r2 l1 P O1) as (l2 & O2 & _ & E).
  exists r2, l2. split; [reflexivity|]. split; [exact O2|exact E].
Qed.

End Pos.

(* ---- non-vacuity: `x := 1 + 2` and `x := (1 + 2)` on line 2 of a function body.  The parentheses move the
   operands and the sum one column to the right and the end of the statement two columns. ---- *)
Definition ex_phi (s : span) : span :=
  let c0 := sp_col0 s in
  let c1 := sp_col1 s in
  if negb (sp_line0 s =? 2)%N then s
  else if (c0 <? 10)%N
  then (if (c1 <=? 6)%N then s else mkSpan (sp_file s) (sp_line0 s) (sp_line1 s) c0 (c1 + 2))
  else mkSpan (sp_file s) (sp_line0 s) (sp_line1 s) (c0 + 1) (c1 + 1).

Lemma ex_phi_file s : sp_file (ex_phi s) = sp_file s.
Proof. unfold ex_phi. destruct (negb _); [reflexivity|]. destruct (sp_col0 s <? 10)%N; [destruct (sp_col1 s <=? 6)%N|]; reflexivity. Qed.
Lemma ex_phi_line s : sp_line0 (ex_phi s) = sp_line0 s.
Proof. unfold ex_phi. destruct (negb _); [reflexivity|]. destruct (sp_col0 s <? 10)%N; [destruct (sp_col1 s <=? 6)%N|]; reflexivity. Qed.
Lemma ex_phi_inj a b : ex_phi a = ex_phi b -> a = b.
Proof.
  intros E. assert (L : sp_line0 a = sp_line0 b) by (rewrite <- (ex_phi_line a), <- (ex_phi_line b), E; reflexivity).
  revert E. destruct a as [fa la la' ca ca'], b as [fb lb lb' cb cb']. cbn [sp_line0] in L. subst lb.
  unfold ex_phi. cbn [sp_file sp_line0 sp_line1 sp_col0 sp_col1]. destruct (negb (la =? 2)%N); [auto|].
  destruct (N.ltb_spec ca 10), (N.leb_spec ca' 6), (N.ltb_spec cb 10), (N.leb_spec cb' 6); intros E; inversion E; subst;
    try reflexivity; try lia; f_equal; lia.
Qed.

Definition ex_sp (c0 c1 : N) : span := mkSpan 0 2 2 c0 c1.
Definition ex_value : pexpr := PAdd (PInt 1 (ex_sp 10 11)) (PInt 2 (ex_sp 14 15)) (ex_sp 10 15).
Definition ex_prog (value : pexpr) (stmt_end : N) : past :=
  [mkModule (File "/main.sy") 0
     [PDefinition (mkIdent "start" (mkSpan 0 1 1 1 6)) Const (PTImplied (mkSpan 0 1 1 1 6))
        (PFunction "lambda" [] (PTResolved BVoid (mkSpan 0 1 1 10 12))
           [PDefinition (mkIdent "x" (ex_sp 5 6)) Mutable (PTImplied (ex_sp 5 6)) value (ex_sp 5 stmt_end)]
           false (mkSpan 0 1 3 10 4)) (mkSpan 0 1 3 1 4)]].
Definition ex_a1 : past := ex_prog ex_value 15.
Definition ex_a2 : past := ex_prog (PParenthesis (mp_e ex_phi ex_value) (ex_sp 10 17)) 17.

Example positions_example :
  strip_parens ex_a2 = mp_ast ex_phi ex_a1
  /\ (exists r1 r2, resolve (mkFlags true true true true false) ex_a1 = Resolver.Ok r1
                    /\ resolve (mkFlags true true true true false) ex_a2 = Resolver.Ok r2
                    /\ r1 <> r2 /\ same_modulo_spans r1 r2).
Proof.
  split; [vm_compute; reflexivity|].
  pose proof (parens_and_positions_resolve ex_phi ex_phi_file ex_phi_line ex_phi_inj
                (mkFlags true true true true false) ex_a1 ex_a2 ltac:(vm_compute; reflexivity)) as H.
  destruct (resolve (mkFlags true true true true false) ex_a1) as [r1| | |] eqn:E1;
    try (exfalso; vm_compute in E1; discriminate E1).
  destruct (resolve (mkFlags true true true true false) ex_a2) as [r2| | |] eqn:E2;
    try (exfalso; vm_compute in E2; discriminate E2).
  exists r1, r2. split; [reflexivity|]. split; [reflexivity|]. split; [|exact H].
  vm_compute in E1, E2. inversion E1. inversion E2. subst. intros E. discriminate E.
Qed.
