(* Scoping discipline of the flat IR (what C10 needs statically): every variable that an instruction
   reads or assigns has been introduced before, in an enclosing block of the emitted Lua, by an
   instruction that the Lua generator turns into a `local` (or a parameter, or a top-level external).
   A variable that is assigned without having been introduced would be a Lua GLOBAL shared by all
   activations.  Definitions only. *)
From Coq Require Import String List NArith ZArith Bool.
From Sylt Require Import Syntax.Resolved Back.IR.
Import ListNotations.
Local Open Scope N_scope.

(* innermost block first; a variable is introduced either HARD (the generator always emits a `local`,
   a parameter or a top-level external for it: Define, Function, Copy, Call, External, parameters) or
   SOFT (a value instruction that the generator may inline at its single use or drop) *)
Definition scopes := list (list (N * bool)).

Definition mem (v : N) (l : list (N * bool)) : bool := existsb (fun x => N.eqb v (fst x)) l.
Definition mem_hard (v : N) (l : list (N * bool)) : bool := existsb (fun x => N.eqb v (fst x) && snd x) l.
Definition defined (sc : scopes) (v : N) : bool := existsb (mem v) sc.
Definition hard_defined (sc : scopes) (v : N) : bool := existsb (mem_hard v) sc.
Definition all_defined (sc : scopes) (vs : list N) : bool := forallb (defined sc) vs.

Definition add_def (hard : bool) (sc : scopes) (v : N) : option scopes :=
  match sc with
  | h :: t => Some (((v, hard) :: h) :: t)
  | [] => None
  end.

(* uses first, then the definition of t in the current block *)
Definition use_def (sc : scopes) (uses : list N) (t : N) : option scopes :=
  if all_defined sc uses then add_def false sc t else None.
Definition use_hard (sc : scopes) (uses : list N) (t : N) : option scopes :=
  if all_defined sc uses then add_def true sc t else None.
Definition use_only (sc : scopes) (uses : list N) : option scopes :=
  if all_defined sc uses then Some sc else None.

Definition scope_step (sc : scopes) (op : ir) : option scopes :=
  match op with
  | INil t | IInt t _ | IFloat t _ | IStr t _ | IBool t _ => use_def sc [] t
  | IAdd t a b | ISub t a b | IMul t a b | IDiv t a b | IEquals t a b | INotEquals t a b
  | IGreater t a b | IGreaterEqual t a b | ILess t a b | ILessEqual t a b | IIndex t a b =>
      use_def sc [a; b] t
  | INeg t a | INot t a | IVariant t _ a | IAccess t a _ => use_def sc [a] t
  | ICopy t a => use_hard sc [a] t
  | IExternal t _ => use_hard sc [] t
  | ICall t f args => use_hard sc (f :: args) t
  | IList t xs | ITuple t xs => use_def sc xs t
  | IBlob t fs => use_def sc (map snd fs) t
  | IDefine t => use_hard sc [] t
  | IFunction f params =>
      match add_def true sc f with
      | Some sc' => Some (map (fun p => (p, true)) params :: sc')
      | None => None
      end
  (* the target of a Lua assignment statement must be a real local, not an inlinable temporary *)
  | IAssign t a => if hard_defined sc t then use_only sc [a] else None
  | IAssignIndex t i a => use_only sc [t; i; a]
  | IAssignAccess t _ c => use_only sc [t; c]
  | IAssert v | IReturn v => use_only sc [v]
  | IIf a => match use_only sc [a] with Some sc' => Some ([] :: sc') | None => None end
  | ILoop => Some ([] :: sc)
  | IElse => match sc with _ :: t => Some ([] :: t) | [] => None end
  | IEnd => match sc with _ :: ((_ :: _) as t) => Some t | _ => None end
  | ILabel _ | IGoto _ | IBreak | IHalt _ => Some sc
  end.

Fixpoint scope_run (sc : scopes) (ops : list ir) : option scopes :=
  match ops with
  | [] => Some sc
  | op :: ops' =>
      match scope_step sc op with
      | Some sc' => scope_run sc' ops'
      | None => None
      end
  end.

(* a whole chunk: starts with one (the chunk-level) block and ends with exactly that block open *)
Definition ir_scoped (ops : list ir) : bool :=
  match scope_run [[]] ops with
  | Some [_] => true
  | _ => false
  end.

(* the first instruction at which the discipline breaks, for diagnostics *)
Fixpoint first_unscoped (sc : scopes) (ops : list ir) (n : N) : option (N * ir) :=
  match ops with
  | [] => None
  | op :: ops' =>
      match scope_step sc op with
      | Some sc' => first_unscoped sc' ops' (n + 1)
      | None => Some (n, op)
      end
  end.
