(* One-hole contexts over the resolved AST: every syntactic position of an expression or a statement
   inside an expression / statement / statement list / program, with an expression hole (XHole) or a
   statement hole (YHole).  `plug` takes a filler for either kind of hole; a context has exactly one
   hole, so only the filler of the matching kind is used.  `at_e/at_s/at_b P C ctx` states P for the
   TypeCtx the checker has when it reaches the hole, having started at C with `ctx`
   (enter_loop at a loop body, leave_loop at a loop condition, enter_fn at the body of a function).  Definitions only. *)
From Coq Require Import String List NArith ZArith Bool.
From Sylt Require Import Syntax.Resolved Types.TyGraph Types.Tc.
Import ListNotations.

Inductive ectx :=
| XHole
| XVariant (ev : N) (v : string) (c : ectx) (sp : span)
| XCallF (c : ectx) (args : list expr) (sp : span)
| XCallA (f : expr) (pre : list expr) (c : ectx) (post : list expr) (sp : span)
| XAccess (c : ectx) (field : string) (sp : span)
| XIndexV (c : ectx) (index : expr) (sp : span)
| XIndexI (value : expr) (c : ectx) (sp : span)
| XBinL (op : binop) (c : ectx) (b : expr) (sp : span)
| XBinR (op : binop) (a : expr) (c : ectx) (sp : span)
| XUni (op : uniop) (c : ectx) (sp : span)
| XIfC (pre : list ifbranch) (c : ectx) (body : list stmt) (bsp : span) (post : list ifbranch) (sp : span)
| XIfB (pre : list ifbranch) (cond : option expr) (bpre : list stmt) (c : sctx) (bpost : list stmt) (bsp : span)
       (post : list ifbranch) (sp : span)
| XCaseM (c : ectx) (branches : list casebranch) (fall : option (list stmt)) (sp : span)
| XCaseB (m : expr) (pre : list casebranch) (pat : string) (psp : span) (var : option N)
         (bpre : list stmt) (c : sctx) (bpost : list stmt) (bsp : span) (post : list casebranch)
         (fall : option (list stmt)) (sp : span)
| XCaseF (m : expr) (branches : list casebranch) (bpre : list stmt) (c : sctx) (bpost : list stmt) (sp : span)
| XFun (name : string) (params : list (string * N * span * ty)) (rty : ty)
       (bpre : list stmt) (c : sctx) (bpost : list stmt) (pure : bool) (sp : span)
| XBlob (blob : N) (pre : list (string * expr)) (field : string) (c : ectx) (post : list (string * expr))
        (self_var : N) (sp : span)
| XColl (k : collection) (pre : list expr) (c : ectx) (post : list expr) (sp : span)
with sctx :=
| YHole
| YAssignT (op : binop) (c : ectx) (value : expr) (sp : span)
| YAssignV (op : binop) (target : expr) (c : ectx) (sp : span)
| YDef (name : string) (var : N) (kind : varkind) (t : ty) (c : ectx) (sp : span)
| YLoopC (c : ectx) (body : list stmt) (sp : span)
| YLoopB (cond : expr) (bpre : list stmt) (c : sctx) (bpost : list stmt) (sp : span)
| YRet (c : ectx) (sp : span)
| YBlock (bpre : list stmt) (c : sctx) (bpost : list stmt) (sp : span)
| YExpr (c : ectx) (sp : span).

Section Plug.
  Variable he : expr.
  Variable hs : stmt.

  Fixpoint plug_e (C : ectx) : expr :=
    match C with
    | XHole => he
    | XVariant ev v c sp => EVariant ev v (plug_e c) sp
    | XCallF c args sp => ECall (plug_e c) args sp
    | XCallA f pre c post sp => ECall f (pre ++ plug_e c :: post) sp
    | XAccess c field sp => EBlobAccess (plug_e c) field sp
    | XIndexV c index sp => EIndex (plug_e c) index sp
    | XIndexI value c sp => EIndex value (plug_e c) sp
    | XBinL op c b sp => EBinOp op (plug_e c) b sp
    | XBinR op a c sp => EBinOp op a (plug_e c) sp
    | XUni op c sp => EUniOp op (plug_e c) sp
    | XIfC pre c body bsp post sp => EIf (pre ++ IfBranch (Some (plug_e c)) body bsp :: post) sp
    | XIfB pre cond bpre c bpost bsp post sp =>
      EIf (pre ++ IfBranch cond (bpre ++ plug_s c :: bpost) bsp :: post) sp
    | XCaseM c branches fall sp => ECase (plug_e c) branches fall sp
    | XCaseB m pre pat psp var bpre c bpost bsp post fall sp =>
      ECase m (pre ++ CaseBranch pat psp var (bpre ++ plug_s c :: bpost) bsp :: post) fall sp
    | XCaseF m branches bpre c bpost sp => ECase m branches (Some (bpre ++ plug_s c :: bpost)) sp
    | XFun name params rty bpre c bpost pure sp =>
      EFunction name params rty (bpre ++ plug_s c :: bpost) pure sp
    | XBlob blob pre field c post self_var sp => EBlob blob (pre ++ (field, plug_e c) :: post) self_var sp
    | XColl k pre c post sp => ECollection k (pre ++ plug_e c :: post) sp
    end
  with plug_s (C : sctx) : stmt :=
    match C with
    | YHole => hs
    | YAssignT op c value sp => SAssignment op (plug_e c) value sp
    | YAssignV op target c sp => SAssignment op target (plug_e c) sp
    | YDef name var kind t c sp => SDefinition name var kind t (plug_e c) sp
    | YLoopC c body sp => SLoop (plug_e c) body sp
    | YLoopB cond bpre c bpost sp => SLoop cond (bpre ++ plug_s c :: bpost) sp
    | YRet c sp => SRet (Some (plug_e c)) sp
    | YBlock bpre c bpost sp => SBlock (bpre ++ plug_s c :: bpost) sp
    | YExpr c sp => SStatementExpression (plug_e c) sp
    end.
End Plug.

(* the TypeCtx at the hole *)
Section At.
  Variable Pe : tctx -> Prop.     (* required of the ctx at an expression hole *)
  Variable Ps : tctx -> Prop.     (* required of the ctx at a statement hole *)

  Fixpoint at_e (C : ectx) (ctx : tctx) : Prop :=
    match C with
    | XHole => Pe ctx
    | XVariant _ _ c _ | XCallF c _ _ | XCallA _ _ c _ _ | XAccess c _ _ | XIndexV c _ _ | XIndexI _ c _
    | XBinL _ c _ _ | XBinR _ _ c _ | XUni _ c _ | XIfC _ c _ _ _ _ | XCaseM c _ _ _
    | XBlob _ _ _ c _ _ _ | XColl _ _ c _ _ => at_e c ctx
    | XIfB _ _ _ c _ _ _ _ | XCaseB _ _ _ _ _ _ c _ _ _ _ _ | XCaseF _ _ _ c _ _ => at_s c ctx
    | XFun _ _ _ _ c _ pure _ => at_s c (enter_fn pure ctx)
    end
  with at_s (C : sctx) (ctx : tctx) : Prop :=
    match C with
    | YHole => Ps ctx
    | YAssignT _ c _ _ | YAssignV _ _ c _ | YDef _ _ _ _ c _ | YRet c _ | YExpr c _ => at_e c ctx
    | YLoopC c _ _ => at_e c (leave_loop ctx)
    | YLoopB _ _ c _ _ => at_s c (enter_loop ctx)
    | YBlock _ c _ _ => at_s c ctx
    end.
End At.

(* is the hole a statement hole? *)
Fixpoint is_shole_e (C : ectx) : bool :=
  match C with
  | XHole => false
  | XVariant _ _ c _ | XCallF c _ _ | XCallA _ _ c _ _ | XAccess c _ _ | XIndexV c _ _ | XIndexI _ c _
  | XBinL _ c _ _ | XBinR _ _ c _ | XUni _ c _ | XIfC _ c _ _ _ _ | XCaseM c _ _ _
  | XBlob _ _ _ c _ _ _ | XColl _ _ c _ _ => is_shole_e c
  | XIfB _ _ _ c _ _ _ _ | XCaseB _ _ _ _ _ _ c _ _ _ _ _ | XCaseF _ _ _ c _ _
  | XFun _ _ _ _ c _ _ _ => is_shole_s c
  end
with is_shole_s (C : sctx) : bool :=
  match C with
  | YHole => true
  | YAssignT _ c _ _ | YAssignV _ _ c _ | YDef _ _ _ _ c _ | YLoopC c _ _ | YRet c _ | YExpr c _ => is_shole_e c
  | YLoopB _ _ c _ _ | YBlock _ c _ _ => is_shole_s c
  end.

(* sizes, for induction over the mutually defined contexts *)
Fixpoint ectx_size (C : ectx) : nat :=
  match C with
  | XHole => 1
  | XVariant _ _ c _ | XCallF c _ _ | XCallA _ _ c _ _ | XAccess c _ _ | XIndexV c _ _ | XIndexI _ c _
  | XBinL _ c _ _ | XBinR _ _ c _ | XUni _ c _ | XIfC _ c _ _ _ _ | XCaseM c _ _ _
  | XBlob _ _ _ c _ _ _ | XColl _ _ c _ _ => S (ectx_size c)
  | XIfB _ _ _ c _ _ _ _ | XCaseB _ _ _ _ _ _ c _ _ _ _ _ | XCaseF _ _ _ c _ _
  | XFun _ _ _ _ c _ _ _ => S (sctx_size c)
  end
with sctx_size (C : sctx) : nat :=
  match C with
  | YHole => 1
  | YAssignT _ c _ _ | YAssignV _ _ c _ | YDef _ _ _ _ c _ | YLoopC c _ _ | YRet c _ | YExpr c _ => S (ectx_size c)
  | YLoopB _ _ c _ _ | YBlock _ c _ _ => S (sctx_size c)
  end.

(* the TypeCtx at the hole, as a function *)
Fixpoint ctx_at_e (C : ectx) (ctx : tctx) : tctx :=
  match C with
  | XHole => ctx
  | XVariant _ _ c _ | XCallF c _ _ | XCallA _ _ c _ _ | XAccess c _ _ | XIndexV c _ _ | XIndexI _ c _
  | XBinL _ c _ _ | XBinR _ _ c _ | XUni _ c _ | XIfC _ c _ _ _ _ | XCaseM c _ _ _
  | XBlob _ _ _ c _ _ _ | XColl _ _ c _ _ => ctx_at_e c ctx
  | XIfB _ _ _ c _ _ _ _ | XCaseB _ _ _ _ _ _ c _ _ _ _ _ | XCaseF _ _ _ c _ _ => ctx_at_s c ctx
  | XFun _ _ _ _ c _ pure _ => ctx_at_s c (enter_fn pure ctx)
  end
with ctx_at_s (C : sctx) (ctx : tctx) : tctx :=
  match C with
  | YHole => ctx
  | YAssignT _ c _ _ | YAssignV _ _ c _ | YDef _ _ _ _ c _ | YRet c _ | YExpr c _ => ctx_at_e c ctx
  | YLoopC c _ _ => ctx_at_e c (leave_loop ctx)
  | YLoopB _ _ c _ _ => ctx_at_s c (enter_loop ctx)
  | YBlock _ c _ _ => ctx_at_s c ctx
  end.

(* program contexts: a hole somewhere inside the value of a top-level definition, or a top-level
   statement hole *)
Inductive pctx :=
| PDef (pre : list stmt) (name : string) (var : N) (kind : varkind) (t : ty) (c : ectx) (sp : span) (post : list stmt)
| PTop (pre : list stmt) (post : list stmt).

Definition plug_p (he : expr) (hs : stmt) (P : pctx) : list stmt :=
  match P with
  | PDef pre name var kind t c sp post => pre ++ SDefinition name var kind t (plug_e he hs c) sp :: post
  | PTop pre post => pre ++ hs :: post
  end.

Definition at_p (Pe Ps : tctx -> Prop) (Ptop : Prop) (P : pctx) : Prop :=
  match P with
  | PDef _ _ _ _ _ c _ _ => at_e Pe Ps c ctx_new
  | PTop _ _ => Ptop
  end.

(* syntactic facts about a context, used to state the purity and loop theorems *)
Section Path.
  (* does the path from the root to the hole pass through the body of a `pu` function? *)
  Fixpoint through_pure_e (C : ectx) : bool :=
    match C with
    | XHole => false
    | XVariant _ _ c _ | XCallF c _ _ | XCallA _ _ c _ _ | XAccess c _ _ | XIndexV c _ _ | XIndexI _ c _
    | XBinL _ c _ _ | XBinR _ _ c _ | XUni _ c _ | XIfC _ c _ _ _ _ | XCaseM c _ _ _
    | XBlob _ _ _ c _ _ _ | XColl _ _ c _ _ => through_pure_e c
    | XIfB _ _ _ c _ _ _ _ | XCaseB _ _ _ _ _ _ c _ _ _ _ _ | XCaseF _ _ _ c _ _ => through_pure_s c
    | XFun _ _ _ _ c _ pure _ => pure || through_pure_s c
    end
  with through_pure_s (C : sctx) : bool :=
    match C with
    | YHole => false
    | YAssignT _ c _ _ | YAssignV _ _ c _ | YDef _ _ _ _ c _ | YLoopC c _ _ | YRet c _ | YExpr c _ => through_pure_e c
    | YLoopB _ _ c _ _ | YBlock _ c _ _ => through_pure_s c
    end.

  (* is the hole inside the body of a loop OF THE SAME FUNCTION?  `inl` = whether we are inside a
     loop body of the current function so far *)
  Fixpoint in_own_loop_e (C : ectx) (inl : bool) : bool :=
    match C with
    | XHole => inl
    | XVariant _ _ c _ | XCallF c _ _ | XCallA _ _ c _ _ | XAccess c _ _ | XIndexV c _ _ | XIndexI _ c _
    | XBinL _ c _ _ | XBinR _ _ c _ | XUni _ c _ | XIfC _ c _ _ _ _ | XCaseM c _ _ _
    | XBlob _ _ _ c _ _ _ | XColl _ _ c _ _ => in_own_loop_e c inl
    | XIfB _ _ _ c _ _ _ _ | XCaseB _ _ _ _ _ _ c _ _ _ _ _ | XCaseF _ _ _ c _ _ => in_own_loop_s c inl
    | XFun _ _ _ _ c _ _ _ => in_own_loop_s c false
    end
  with in_own_loop_s (C : sctx) (inl : bool) : bool :=
    match C with
    | YHole => inl
    | YAssignT _ c _ _ | YAssignV _ _ c _ | YDef _ _ _ _ c _ | YRet c _ | YExpr c _ => in_own_loop_e c inl
    | YLoopC c _ _ => in_own_loop_e c false
    | YLoopB _ _ c _ _ => in_own_loop_s c true
    | YBlock _ c _ _ => in_own_loop_s c inl
    end.

  (* is the hole inside any loop body at all (what the checker's flag tracks)? *)
  Fixpoint in_any_loop_e (C : ectx) (inl : bool) : bool :=
    match C with
    | XHole => inl
    | XVariant _ _ c _ | XCallF c _ _ | XCallA _ _ c _ _ | XAccess c _ _ | XIndexV c _ _ | XIndexI _ c _
    | XBinL _ c _ _ | XBinR _ _ c _ | XUni _ c _ | XIfC _ c _ _ _ _ | XCaseM c _ _ _
    | XBlob _ _ _ c _ _ _ | XColl _ _ c _ _ => in_any_loop_e c inl
    | XIfB _ _ _ c _ _ _ _ | XCaseB _ _ _ _ _ _ c _ _ _ _ _ | XCaseF _ _ _ c _ _
    | XFun _ _ _ _ c _ _ _ => in_any_loop_s c inl
    end
  with in_any_loop_s (C : sctx) (inl : bool) : bool :=
    match C with
    | YHole => inl
    | YAssignT _ c _ _ | YAssignV _ _ c _ | YDef _ _ _ _ c _ | YLoopC c _ _ | YRet c _ | YExpr c _ => in_any_loop_e c inl
    | YLoopB _ _ c _ _ => in_any_loop_s c true
    | YBlock _ c _ _ => in_any_loop_s c inl
    end.
End Path.
