(* C03, field of the wrong type at a blob instantiation.
   After `B :: blob { .., k: t, .. }` with a leaf type t the class of B is a blob type whose field k is of type t
   (blob_sig, extension-closed by TcInv.kids_keep).  An instantiation `B { .., k: lit, .. }` with a literal of
   another type builds the type of the given fields (field k: the literal's type), instantiates B (field k: t,
   CopyInst.copy_leaf_kids) and unifies the two: the fields k cannot be in one class (unify_kid_conflict). *)
From Coq Require Import String List NArith ZArith PArith Bool Lia FMapPositive.
From Sylt Require Import Syntax.Resolved Types.TyGraph Types.Tc Types.Ctx Types.TcInv Types.Reject Types.Mismatch
  Types.ShapesDecl Types.CopyInst Types.Calls Types.CallsDecl.
Import ListNotations.
Local Open Scope tc_scope.

(* two types that have, at the same position, components of different leaf types do not unify *)
Lemma unify_kid_conflict g sp a b s ha hb x ca cb ta tb :
  wf s -> head s a = Some ha -> head s b = Some hb -> kid ha x = Some ca -> kid hb x = Some cb ->
  head s ca = Some ta -> rigid ta = true -> head s cb = Some tb -> rigid tb = true -> ta <> tb ->
  notok (unify (gfix g) sp a b s).
Proof.
  intros W Ha Hb Ka Kb Hca Ra Hcb Rb Ne [r s'] H.
  destruct (unify_result_head _ _ _ _ _ _ _ W H) as (W' & E' & _ & Heq).
  pose proof E' as (_ & _ & _ & E4 & _).
  destruct (E4 _ _ Ha (kid_known _ _ _ Ka)) as (ha' & Ha' & Sa). destruct (E4 _ _ Hb (kid_known _ _ _ Kb)) as (hb' & Hb' & Sb).
  destruct (kid_shape _ _ _ _ Sa Ka) as [ca' Ka']. destruct (kid_shape _ _ _ _ Sb Kb) as [cb' Kb'].
  pose proof (kid_keep _ _ _ _ _ _ _ _ _ E' Ha Ha' Ka Ka' Hca Ra) as X.
  pose proof (kid_keep _ _ _ _ _ _ _ _ _ E' Hb Hb' Kb Kb' Hcb Rb) as Y.
  rewrite Ha', Hb' in Heq. injection Heq as <-. rewrite Ka' in Kb'. injection Kb' as <-. congruence.
Qed.

Lemma flookup_finsert_same {V} k (v : V) l : flookup k (finsert k v l) = Some v.
Proof.
  induction l as [|[k' v'] l IH]; cbn [finsert flookup].
  - rewrite String.eqb_refl. reflexivity.
  - destruct (String.compare k k') eqn:E; cbn [flookup].
    + rewrite String.eqb_refl. reflexivity.
    + rewrite String.eqb_refl. reflexivity.
    + destruct (String.eqb_spec k k') as [->|N]; [|exact IH].
      pose proof (String.compare_antisym k' k') as A. rewrite E in A. discriminate.
Qed.

Lemma flookup_finsert_other {V} k k0 (v : V) l : k0 <> k -> flookup k0 (finsert k v l) = flookup k0 l.
Proof.
  intros N. induction l as [|[k' v'] l IH]; cbn [finsert flookup].
  - destruct (String.eqb_spec k0 k); [contradiction|reflexivity].
  - destruct (String.compare k k') eqn:E; cbn [flookup].
    + apply String.compare_eq_iff in E. subst k'.
      destruct (String.eqb_spec k0 k); [contradiction|reflexivity].
    + destruct (String.eqb_spec k0 k); [contradiction|reflexivity].
    + destruct (String.eqb k0 k'); [reflexivity|exact IH].
Qed.

Section BlobSig.
  Variable v : N.
  Variable k : string.
  Variable b : basety.
  Hypothesis b_rigid : rigid_base b = true.
  Notation V := (N.succ_pos v).

  Definition blob_sig (s : st) : Prop :=
    exists name sp fs args spk c, head s V = Some (HBlob name sp fs args) /\ flookup k fs = Some (spk, c) /\
                                  head s c = Some (base_head b).

  Lemma blob_sig_ext s s' : wf s -> ext s s' -> blob_sig s -> blob_sig s'.
  Proof.
    intros _ E (name & sp & fs & args & spk & c & Hh & Hk & Hc). pose proof E as (_ & _ & _ & E4 & _).
    destruct (E4 _ _ Hh eq_refl) as (h' & Hh' & Sh). destruct h'; try discriminate Sh.
    assert (K : kid (HBlob name sp fs args) (KField k) = Some c) by (cbn [kid]; rewrite Hk; reflexivity).
    destruct (kid_shape _ _ _ _ Sh K) as [c' K']. pose proof K' as K''. cbn [kid] in K''.
    destruct (flookup k fields) as [[spk' c0]|] eqn:Ef; [|discriminate]. cbn in K''. injection K'' as ->.
    do 4 eexists. exists spk', c'. split; [exact Hh'|]. split; [exact Ef|].
    exact (kid_keep _ _ _ _ _ _ _ _ _ E Hh Hh' K K' Hc b_rigid).
  Qed.
End BlobSig.

Section Rules.
  Variable kinds : PositiveMap.t varkind.
  Variable g : nat.
  Notation G := (gfix g).
  Notation afix := (afix kinds G).
  Let PG : gpres G := gfix_pres g.
  Let PA f : apres (afix f) := afix_pres kinds G PG f.

  Variable v : N.
  Variable k : string.
  Variable b : basety.
  Hypothesis b_rigid : rigid_base b = true.
  Notation V := (N.succ_pos v).

  (* ---- the declaration establishes the field type *)
  Lemma decl_fields_type f n : forall fields acc seen s r s',
    wf s ->
    (forall ksp t, In (k, (ksp, t)) fields -> exists tsp, t = TResolved b tsp) ->
    (forall spk c, flookup k acc = Some (spk, c) -> head s c = Some (base_head b)) ->
    foldM (fun (acc : fieldmap * genmap) (fd : string * (span * ty)) =>
             let '(k0, (ksp, t)) := fd in
             rt <- r_type (afix f) t (snd acc);;
             (if negb (Nat.eqb n (length (snd rt))) then fail KExotic ksp
              else ret (finsert k0 (ksp, fst rt) (fst acc), snd rt))) fields (acc, seen) s = Ok (r, s') ->
    wf s' /\ ext s s' /\ (forall spk c, flookup k (fst r) = Some (spk, c) -> head s' c = Some (base_head b)).
  Proof.
    induction fields as [|[k0 [ksp t]] fields IH]; intros acc seen s r s' W Ht Ha H; cbn [foldM] in H.
    - injection H as <- <-. split; [assumption|]. split; [apply ext_refl|]. exact Ha.
    - apply bind_inv in H as ([acc1 seen1] & s1 & H1 & H).
      apply bind_inv_pres0 in H1 as (rt & s2 & Hr & W2 & E2 & H1); [|apply (ap_type _ (PA f))|assumption].
      cbn [snd fst] in H1. destruct (negb (Nat.eqb n (length (snd rt)))); [discriminate|]. injection H1 as <- <- <-.
      assert (Hacc : forall spk c, flookup k (finsert k0 (ksp, fst rt) acc) = Some (spk, c) -> head s2 c = Some (base_head b)).
      { intros spk c Hl. destruct (String.eqb_spec k k0) as [<-|Nk].
        - rewrite flookup_finsert_same in Hl. injection Hl as <- <-.
          destruct (Ht ksp t (or_introl eq_refl)) as [tsp ->].
          destruct (r_type_base kinds g _ _ _ _ _ _ _ W Hr) as (_ & _ & Hh & _). exact Hh.
        - rewrite flookup_finsert_other in Hl by assumption. exact (head_keep _ _ _ _ E2 (Ha _ _ Hl) b_rigid). }
      destruct (IH _ _ _ _ _ W2 (fun ksp0 t0 Hin => Ht ksp0 t0 (or_intror Hin)) Hacc H) as (W3 & E3 & X).
      split; [assumption|]. split; [eapply ext_trans; eassumption|assumption].
  Qed.

  Lemma blob_field_established name sp tvars fields f s u s' :
    In k (map fst fields) -> (forall ksp t, In (k, (ksp, t)) fields -> exists tsp, t = TResolved b tsp) ->
    wf s -> outer_statement kinds G (afix f) (SBlob name v sp tvars fields false) ctx_new s = Ok (u, s') ->
    blob_sig v k b s'.
  Proof.
    intros Hin Ht W H.
    destruct (blob_established kinds g (afix f) (PA f) name v sp tvars fields false ctx_new s u s' W H)
      as (nm & bsp & fs & args & Hh & HK).
    unfold outer_statement in H.
    apply bind_inv in H as (u0 & sa & Ha & H). destruct (pres_add_type_name v _ _ _ W Ha) as [Wa _].
    apply bind_inv in H as (bt & s0 & H0 & H). apply ShapesDecl_var_ty_inv in H0 as [-> ->].
    apply bind_inv in H as ([tp seen] & s1 & H1 & H).
    destruct (pres_decl_params tvars _ _ _ Wa H1) as [W1 E1].
    apply bind_inv in H as (res & s2 & H2 & H).
    unfold decl_fields in H2. apply bind_inv in H2 as ([r sn] & s2x & Hf & H2). injection H2 as <- Es. subst s2x. cbn [fst] in H.
    assert (Ht' : forall ksp t, In (k, (ksp, t)) (source_order fields) -> exists tsp, t = TResolved b tsp)
      by (intros ksp t Hi; apply (proj1 (source_order_In _ _)) in Hi; exact (Ht _ _ Hi)).
    assert (Hnil : forall spk c, flookup k (@nil (string * (span * tyid))) = Some (spk, c) -> head s1 c = Some (base_head b))
      by (intros spk c Hl; discriminate Hl).
    destruct (decl_fields_type f (length seen) (source_order fields) [] seen s1 _ _ W1 Ht' Hnil Hf) as (W2 & E2 & X).
    apply bind_inv in H as (t & s3 & H3 & H).
    destruct (push_spec _ _ _ _ W2 H3) as (W3 & E3 & Ht3).
    apply bind_inv in H as (ru & s4 & H4 & H). injection H as _ <-.
    destruct (unify_result_head _ _ _ _ _ _ _ W3 H4) as (W4 & E4 & _ & Heq).
    (* field k was inserted *)
    assert (Hk : exists spk c, flookup k r = Some (spk, c)).
    { pose proof (decl_fields_keys (afix f) (length seen) (source_order fields) seen s1 r s2) as KK.
      assert (Hd : decl_fields (afix f) (length seen) (source_order fields) seen s1 = Ok (r, s2)).
      { unfold decl_fields. rewrite (bind_ok _ _ _ _ _ Hf). reflexivity. }
      specialize (KK Hd k). destruct KK as [_ KK].
      assert (Ik : In k (keys r)).
      { apply KK. apply in_map_iff in Hin as ([k1 v1] & <- & Hi). apply in_map_iff. exists (k1, v1). split; [reflexivity|].
        now apply source_order_In. }
      apply fmem_In_keys in Ik. unfold fmem in Ik. destruct (flookup k r) as [[spk c]|]; [eauto|discriminate]. }
    destruct Hk as (spk & c & Hk).
    pose proof E4 as (_ & _ & _ & E44 & _). cbn [fst] in Ht3.
    destruct (E44 _ _ Ht3 eq_refl) as (h' & Hh' & Sh). destruct h'; try discriminate Sh.
    assert (K : kid (HBlob name sp r tp) (KField k) = Some c) by (cbn [kid]; rewrite Hk; reflexivity).
    destruct (kid_shape _ _ _ _ Sh K) as [c' K']. pose proof K' as K''. cbn [kid] in K''.
    destruct (flookup k fields0) as [[spk' c0]|] eqn:Ef; [|discriminate]. cbn in K''. injection K'' as ->.
    do 4 eexists. exists spk', c'. split; [rewrite <- Heq; exact Hh'|]. split; [exact Ef|].
    apply (kid_keep _ _ _ _ _ _ _ _ _ E4 Ht3 Hh' K K'); [|exact b_rigid].
    exact (head_keep _ _ _ _ E3 (X _ _ Hk) b_rigid).
  Qed.

  (* ---- the instantiation with a literal of another type *)
  Lemma iterM_app_inv {A} (fn : A -> M unit) pre x post s u s' :
    (forall y, pres (fn y)) -> wf s -> iterM fn (pre ++ x :: post) s = Ok (u, s') ->
    exists s1 s2, wf s1 /\ ext s s1 /\ fn x s1 = Ok (tt, s2) /\ wf s2 /\ ext s1 s2 /\ wf s' /\ ext s2 s'.
  Proof.
    intros P. revert s. induction pre as [|p pre IH]; intros s W H; cbn [app iterM] in H.
    - apply bind_inv in H as ([] & s2 & H1 & H). destruct (P x _ _ _ W H1) as [W2 E2].
      destruct (pres_iterM fn post P _ _ _ W2 H) as [W' E'].
      exists s, s2. repeat (split; [first [assumption|apply ext_refl]|]). assumption.
    - apply bind_inv in H as ([] & s0 & H1 & H). destruct (P p _ _ _ W H1) as [W0 E0].
      destruct (IH _ W0 H) as (s1 & s2 & X1 & X2 & X3 & X4 & X5 & X6 & X7).
      exists s1, s2. split; [assumption|]. split; [eapply ext_trans; eassumption|]. auto.
  Qed.

  Lemma foldM_app_inv {A B} (fn : B -> A -> M B) pre x post acc s r s' :
    (forall b0 y, pres (fn b0 y)) -> wf s -> foldM fn (pre ++ x :: post) acc s = Ok (r, s') ->
    exists b1 s1 b2 s2, wf s1 /\ ext s s1 /\ fn b1 x s1 = Ok (b2, s2) /\ wf s2 /\ ext s1 s2 /\ wf s' /\ ext s2 s'.
  Proof.
    intros P. revert acc s. induction pre as [|p pre IH]; intros acc s W H; cbn [app foldM] in H.
    - apply bind_inv in H as (b2 & s2 & H1 & H). destruct (P acc x _ _ _ W H1) as [W2 E2].
      destruct (pres_foldM fn post P _ _ _ _ W2 H) as [W' E'].
      exists acc, s, b2, s2. repeat (split; [first [assumption|apply ext_refl]|]). assumption.
    - apply bind_inv in H as (b0 & s0 & H1 & H). destruct (P acc p _ _ _ W H1) as [W0 E0].
      destruct (IH _ _ W0 H) as (b1 & s1 & b2 & s2 & X1 & X2 & X3 & X4 & X5 & X6 & X7).
      exists b1, s1, b2, s2. split; [assumption|]. split; [eapply ext_trans; eassumption|]. auto.
  Qed.

  (* the initialiser of field k is any expression whose value is known to have the leaf type ta (a literal; a call of a
     function with a monomorphic signature: TwoDecls.v) *)
  Lemma rej_blob_field_y pre lit post self sp ta f ctx s :
    wf s -> blob_sig v k b s ->
    (forall f' s1 x s2, wf s1 -> ext s s1 -> r_expr (afix f') lit ctx s1 = Ok (x, s2) -> head s2 (snd x) = Some ta) ->
    rigid ta = true -> base_head b <> ta ->
    notok (r_expr (afix f) (EBlob v (pre ++ (k, lit) :: post) self sp) ctx s).
  Proof.
    intros W (name & bsp & fs & bargs & spk & c & Hh & Hk & Hc) Hy Rl Ne [r s'] H.
    assert (Pcp : pres (copy G V)) by (pose proof PG; prs).
    destruct f as [|f]; [discriminate|]. cbn [Tc.afix astep r_expr] in H. unfold expr_body in H.
    apply bind_inv in H as ([er ex] & s1 & H1 & _). cbv beta iota in H1.
    apply bind_inv in H1 as (bt & s2 & Hv & H1). apply ShapesDecl_var_ty_inv in Hv as [-> ->].
    apply bind_inv in H1 as (blob_ty & s3 & Hcp & H1).
    destruct (Pcp _ _ _ W Hcp) as [_ E03].
    destruct (copy_shape _ _ _ _ _ W Hcp) as (W3 & F3 & (h0 & h' & Hh0 & Hh' & [Sh _])).
    rewrite Hh in Hh0. injection Hh0 as <-.
    assert (K : kid (HBlob name bsp fs bargs) (KField k) = Some c) by (cbn [kid]; rewrite Hk; reflexivity).
    destruct (copy_leaf_kids g V s blob_ty s3 _ (KField k) c (base_head b) W Hcp Hh K Hc b_rigid) as (h'' & cb & X1 & Kb & Hcb).
    rewrite Hh' in X1. injection X1 as <-.
    rewrite (bind_ok _ _ _ _ _ (find_type_ok _ _ _ Hh')) in H1.
    destruct h'; try discriminate Sh.
    apply bind_inv_pres0 in H1 as (given & s4 & Hg & W4 & E4 & H1);
      [|apply pres_foldM; intros; apply pres_bind; [apply pres_push|intros; apply pres_ret]|assumption].
    match type of H1 with (match ?l with _ => _ end) _ = _ => destruct l as [|e1 more] end; [|discriminate].
    apply bind_inv in H1 as (given_blob & s5 & Hp & H1).
    destruct (push_spec _ _ _ _ W4 Hp) as (W5 & E5 & Hgb).
    apply bind_inv in H1 as (sty & s6 & Hs & H1). apply ShapesDecl_var_ty_inv in Hs as [-> ->].
    apply bind_inv_pres0 in H1 as (u1 & s7 & Hu1 & W7 & E7 & H1); [|apply (TcInv.pres_unify G PG)|assumption].
    assert (W8 : wf s7) by exact W7. assert (E8 : ext s7 s7) by apply ext_refl.
    apply bind_inv in H1 as (u2 & s9 & Hit & H1).
    match type of Hit with foldM ?fn _ _ _ = _ =>
      destruct (foldM_app_inv fn pre (k, lit) post None s7 u2 s9) as (b1 & sa & b2 & sb & Wa & Ea & Hx & Wb & Eb & W9 & E9);
        [intros b0 y; pose proof PG; pose proof (PA f); prs; apply (ap_expr _ (PA f))|assumption|exact Hit|]
    end.
    cbn [fst snd] in Hx.
    (* the field itself: its fresh class gets the type of the literal *)
    apply bind_inv in Hx as ([iret ety] & sc & Hl & Hx).
    destruct (ap_expr _ (PA f) _ _ _ _ _ Wa Hl) as [Wc Ec].
    assert (E0a : ext s sa).
    { eapply ext_trans; [exact E03|]. eapply ext_trans; [exact E4|]. eapply ext_trans; [exact E5|]. eapply ext_trans; [exact E7|].
      eapply ext_trans; [exact E8|exact Ea]. }
    pose proof (Hy _ _ _ _ Wa E0a Hl) as Hety. cbn [snd] in Hety.
    apply bind_inv_pres0 in Hx as (u3 & sd & _ & Wd & Ed & Hx); [|pose proof PG; prs|assumption].
    destruct (flookup k given) as [[gsp ft]|] eqn:Eg; [|discriminate].
    apply bind_inv in Hx as (u4 & se & Hu4 & Hx). injection Hx as _ <-.
    destruct (unify_result_head _ _ _ _ _ _ _ Wd Hu4) as (We & Ee & _ & Heq4).
    assert (Hft : head se ft = Some ta).
    { rewrite <- Heq4. eapply head_keep; [exact Ee| |exact Rl]. exact (head_keep _ _ _ _ Ed Hety Rl). }
    (* the final unification *)
    apply bind_inv in H1 as (uf & s10 & Hf & _).
    assert (E59 : ext s5 s9).
    { eapply ext_trans; [exact E7|]. eapply ext_trans; [exact E8|]. eapply ext_trans; [exact Ea|].
      eapply ext_trans; [|exact E9]. eapply ext_trans; [exact Ec|]. eapply ext_trans; [exact Ed|exact Ee]. }
    assert (E39 : ext s3 s9) by (eapply ext_trans; [exact E4|]; eapply ext_trans; [exact E5|exact E59]).
    pose proof E59 as (_ & _ & _ & E4' & E5').
    destruct (E4' _ _ Hgb eq_refl) as (hg & Hhg & Shg).
    assert (Kg : kid (HBlob name0 sp given args) (KField k) = Some ft) by (cbn [kid]; rewrite Eg; reflexivity).
    destruct (kid_shape _ _ _ _ Shg Kg) as [cg Kg'].
    assert (Hcg : head s9 cg = Some ta).
    { apply (pair_ok_rigid s9 ft cg ta); [exact (E5' _ _ _ _ _ _ Hgb Hhg Kg Kg')| |exact Rl].
      exact (head_keep _ _ _ _ E9 Hft Rl). }
    pose proof E39 as (_ & _ & _ & E4'' & _).
    destruct (E4'' _ _ Hh' eq_refl) as (hb & Hhb & Shb).
    destruct (kid_shape _ _ _ _ Shb Kb) as [cb' Kb'].
    pose proof (kid_keep _ _ _ _ _ _ _ _ _ E39 Hh' Hhb Kb Kb' Hcb b_rigid) as Hcb'.
    apply (unify_kid_conflict g sp given_blob blob_ty s9 hg hb (KField k) cg cb' ta (base_head b) W9 Hhg Hhb Kg' Kb'
             Hcg Rl Hcb' b_rigid (fun E => Ne (eq_sym E)) (uf, s10)).
    exact Hf.
  Qed.

  Lemma rej_blob_field pre lit post self sp ta f ctx s :
    wf s -> blob_sig v k b s -> lit_type lit = Some ta -> rigid ta = true -> base_head b <> ta ->
    notok (r_expr (afix f) (EBlob v (pre ++ (k, lit) :: post) self sp) ctx s).
  Proof.
    intros W Sg Ll Rl Ne. apply rej_blob_field_y with (ta := ta); try assumption.
    intros f' s1 x s2 W1 _ Hx. exact (proj2 (proj2 (lit_spec _ _ _ _ _ _ _ _ _ Ll Rl W1 Hx))).
  Qed.
End Rules.

(* After `B :: blob { .., k: t, .. }` (every declaration of field k of the leaf type t), an instantiation
   `B { .., k: lit, .. }` with a literal of another type, anywhere inside a later top-level definition, is rejected. *)
Theorem C03_blob_field_type_rejected name v sp tvars bfields k b pre lit post self isp ta :
  rigid_base b = true -> In k (map fst bfields) ->
  (forall ksp t, In (k, (ksp, t)) bfields -> exists tsp, t = TResolved b tsp) ->
  lit_type lit = Some ta -> rigid ta = true -> base_head b <> ta ->
  let e := EBlob v (pre ++ (k, lit) :: post) self isp in
  forall pre' mid post' dname dvar dkind dty (C : ectx) dsp sp0 fuel vars,
    typecheck fuel (mkResolved vars
      (pre' ++ SBlob name v sp tvars bfields false :: mid ++
       SDefinition dname dvar dkind dty (plug_e e (SStatementExpression e sp0) C) dsp :: post')) <> Ok tt.
Proof.
  intros Rb Hin Ht Ll Rl Ne e. apply (rejected_after_decl' (blob_sig v k b)).
  - intros s s' W E. now apply blob_sig_ext.
  - intros kinds g f s u s' W H. eapply blob_field_established; eassumption.
  - intros kinds g f ctx s [W Sg]. eapply rej_blob_field; eassumption.
Qed.
