-- expect: 2
-- expect: 1
-- expect: 11
-- expect: inner
-- expect: 11
-- expect: global function
-- expect: 2	8
-- expect: true	true
-- expect: 55
-- expect: nil
-- expect: 2	11
-- expect: ab	cd
-- expect: 2	str	3
-- expect: 3
-- expect: nil
-- expect: nil
-- expect: param	up
-- expect: 42
-- expect: 5
local x = 1
do local x = 2; print(x) end
print(x)
local x = x + 10
print(x)
if true then local x = "inner"; print(x) end
print(x)
function gf() return "global function" end
print(gf())
local ns = {sub = {}}
function ns.f(a) return a + 1 end
function ns.sub.g(a) return a * 2 end
print(ns.f(1), ns.sub.g(4))
-- `odd` is a global when `even` is compiled; it is looked up at call time
local function even(n) if n == 0 then return true end return odd(n - 1) end
function odd(n) if n == 0 then return false end return even(n - 1) end
print(even(4), odd(3))
local function fib(n) if n < 2 then return n end return fib(n - 1) + fib(n - 2) end
print(fib(10))
-- in `local f = function ... f ... end` the inner f is the global f
local notrec = function(n) return notrec end
print(notrec(1))
local function shadow(x) x = x + 1; return x end
print(shadow(1), x)
local tbl = {f = function(a, b) return a .. b end}
print(tbl.f("a", "b"), tbl["f"]("c", "d"))
local function id(v) return v end
print(id{1, 2}[2], id"str", #id{1, 2, 3})
local s1 = 1; local s2 = 2;
print(s1 + s2)
-- a block local is gone after the block: the name refers to the global again
do local onlyhere = 1 end
print(onlyhere)
-- while-loop body scope
local w = 0
while w < 1 do local w2 = "in"; w = w + 1 end
print(w2)
-- function parameters shadow upvalues
local up = "up"
local function par(up) return up end
print(par("param"), up)
-- immediately invoked function expression
print((function(a) return a * 2 end)(21))
-- nested functions and recursion through a table field
local M = {}
function M.count(n) if n == 0 then return 0 end return 1 + M.count(n - 1) end
print(M.count(5))
