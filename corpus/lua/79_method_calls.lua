-- expect-wf: ok
-- expect: 5	xxx	el	hello	10
-- expect: 104	101	108
-- expect: 104
-- expect: obj arg call	table	1
-- expect: 6
-- expect: table	string	nil
-- expect: 7
-- expect: abab10
-- expect: false	attempt to call a nil value
-- expect: false	attempt to index a nil value
local s = "hello"
print(s:len(), ("x"):rep(3), s:sub(2, 3), s:upper():lower(), #s:rep(2))
print(s:byte(1, 3))
print((s:byte(1, 3)))
-- the object expression is evaluated once, before the arguments
local log = {}
local function obj() log[#log + 1] = "obj"; return {m = function(self, a) log[#log + 1] = "call"; return self, a end} end
local function a1() log[#log + 1] = "arg"; return 1 end
local r, x = obj():m(a1())
print(table.concat(log, " "), type(r), x)
-- methods on tables, statement form, chained, with table / string arguments
local acc = {n = 0}
function acc.add(self, k) self.n = self.n + (k or 1); return self end
acc:add(2)
acc:add():add(3)
print(acc.n)
local q = {f = function(self, t) return type(t) end}
print(q:f{1}, q:f"s", q:f())
-- through __index (class pattern)
local C = {}
C.__index = C
function C.new(v) return setmetatable({v = v}, C) end
function C.get(self) return self.v end
print(C.new(7):get())
-- arguments see the locals of the calling scope; upvalues work inside
local base = 10
local function mk() local k = 5; return ("ab"):rep(k - 3) .. base end
print(mk())
print(pcall(function() return ("x"):nosuch() end))
print(pcall(function() local n = nil; return n:m() end))
