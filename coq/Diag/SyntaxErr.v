(* The parser's error raising: Context::peek / span / token / skip and the macros syntax_error!,
   raise_syntax_error!, expect! (sylt-parser/src/parser.rs).  The context is represented by the tokens
   that are still ahead (tokens[curr..] with their spans) and by spans.last(); `curr` past the end gives
   the token EOF and the span of the LAST token of the file (Span::zero(file_id), i.e. line 0, only when
   the file has no token at all).  Definitions only. *)
From Coq Require Import List String NArith Bool.
From Sylt Require Import Lex.Logos.
Import ListNotations.
Local Open Scope string_scope.

Record fspan := mkFSpan { fs_file_id : N; fs_span : span }.

Definition zero_span (file_id : N) : fspan := mkFSpan file_id (mkSpan 0 0 0 0).     (* Span::zero *)

Record context := mkCtx {
  c_ahead : list (string * fspan);     (* (token kind, span) from the current token on *)
  c_last : option fspan;               (* spans.last(): the span of the last token of the file *)
  c_skip_newlines : bool;
  c_file : string;
  c_file_id : N
}.

(* peek(): tokens.get(curr).unwrap_or(EOF), spans.get(curr).or(spans.last()).unwrap_or(zero) *)
Definition token (c : context) : string :=
  match c_ahead c with (t, _) :: _ => t | [] => "EOF" end.
Definition cspan (c : context) : fspan :=
  match c_ahead c with
  | (_, s) :: _ => s
  | [] => match c_last c with Some s => s | None => zero_span (c_file_id c) end
  end.

Definition is_comment (t : string) : bool := String.eqb t "Comment".
Definition is_newline (t : string) : bool := String.eqb t "Newline".

(* skip(n): n non-comment tokens ... *)
Fixpoint skip_count (l : list (string * fspan)) (n : nat) : list (string * fspan) :=
  match n with
  | 0 => l
  | S n' => match l with
            | [] => []
            | (t, _) :: r => if is_comment t then skip_count r (S n') else skip_count r n'
            end
  end.
(* ... then trailing comments and, when skip_newlines is set, newlines *)
Fixpoint skip_trailing (nl : bool) (l : list (string * fspan)) : list (string * fspan) :=
  match l with
  | [] => []
  | (t, _) :: r => if is_comment t || (nl && is_newline t) then skip_trailing nl r else l
  end.

Definition skip (n : nat) (c : context) : context :=
  mkCtx (skip_trailing (c_skip_newlines c) (skip_count (c_ahead c) n)) (c_last c) (c_skip_newlines c) (c_file c) (c_file_id c).

(* push_skip_newlines(flag): set the flag, then skip(0) (comments, and newlines when the flag is set) *)
Definition push_skip_newlines (flag : bool) (c : context) : context :=
  skip 0 (mkCtx (c_ahead c) (c_last c) flag (c_file c) (c_file_id c)).

(* statement(): `let (ctx, _) = ctx.push_skip_newlines(false); ...; let span = ctx.span();` -- the span a
   Statement carries is the span of its first token *)
Definition statement_span (at_statement : context) : fspan := cspan (push_skip_newlines false at_statement).

Record syntax_err := mkSyntaxErr { se_file : string; se_span : fspan; se_message : string }.

(* syntax_error!(ctx, msg) *)
Definition syntax_error (c : context) (msg : string) : syntax_err := mkSyntaxErr (c_file c) (cspan c) msg.

Inductive presult (A : Type) :=
| POk (c : context) (a : A)
| PErr (c : context) (errs : list syntax_err).
Arguments POk {A}. Arguments PErr {A}.

(* raise_syntax_error!(ctx, msg): return Err((ctx.skip(1), vec![syntax_error!(ctx, msg)])) *)
Definition raise_syntax_error {A} (c : context) (msg : string) : presult A := PErr (skip 1 c) [syntax_error c msg].

(* expect!(ctx, pattern, msg) *)
Definition expect (c : context) (pat : string -> bool) (msg : string) : presult unit :=
  if pat (token c) then POk (skip 1 c) tt else raise_syntax_error c msg.

(* outer_statement (statement.rs): the statement is parsed first (from `at_statement`, leaving
   `after_statement`); when its kind is not allowed at top level the error carries stmt.span and the
   file of the context: Err((ctx.skip(1), vec![Error::SyntaxError { file: ctx.file, span: stmt.span, .. }])) *)
Definition outer_statement_check (at_statement after_statement : context) (kind_allowed : bool) : presult unit :=
  if kind_allowed then POk after_statement tt
  else PErr (skip 1 after_statement)
            [mkSyntaxErr (c_file after_statement) (statement_span at_statement) "Not a valid outer statement"].

(* the context the parser starts with: every token of the lexer with its span and the file id *)
Definition lexed (tab : Logos.table) (file_id : N) (s : list N) : list (string * fspan) :=
  map (fun tk => (t_kind tk, mkFSpan file_id (t_span tk))) (lex tab s).

(* spans.last() *)
Definition last_span (l : list (string * fspan)) : option fspan :=
  match rev l with (_, s) :: _ => Some s | [] => None end.

Definition initial_context (tab : Logos.table) (file : string) (file_id : N) (s : list N) : context :=
  mkCtx (lexed tab file_id s) (last_span (lexed tab file_id s)) false file file_id.
