(* C18: __KEY, the text under which dicts and sets keep an entry (preamble.lua since /repo aaf31ad; model:
   Runtime.rt_key_with / rt_key), is INJECTIVE on every admitted key type -- ints, floats, strings and nested
   tuples of them -- and the history theorems of ContainerLaws.v are instantiated with it.

   The float leaf.  __KEY prints a float with string.format("%.17g").  That 17 significant digits identify
   an IEEE double is a fact about doubles (binary64 round trip); the model's floats are exact rationals, and no
   fixed number of digits separates ALL rationals (refuted below).  The theorems therefore take the float text
   `fkey` and a set `F` of floats as section variables, with the two properties that are used as explicit
   hypotheses: fkey is injective on F, and produces no ';' on F.  Key types without floats need nothing. *)
From Coq Require Import String Ascii List NArith ZArith QArith Bool Lia.
From Sylt Require Import Lua.LuaNum Sem.Values Sem.Runtime Sem.Containers Sem.RuntimeLaws Sem.ContainerLaws.
Import ListNotations.
Local Close Scope Q_scope.
Local Open Scope string_scope.

Fixpoint no_semi (s : string) : bool :=
  match s with
  | EmptyString => true
  | String c s' => negb (N.eqb (N_of_ascii c) 59) && no_semi s'
  end.

(* the admitted key types *)
Fixpoint key_ty (t : ty) : bool :=
  match t with
  | TInt | TFloat | TStr => true
  | TTuple ts => forallb key_ty ts
  | _ => false
  end.

(* every float inside the key belongs to F *)
Fixpoint floats_in (F : Q -> Prop) (v : value) : Prop :=
  match v with
  | VFloat q => F q
  | VTuple vs => allP (fun x => floats_in F x) vs
  | _ => True
  end.

Lemma no_semi_split : forall a a' r r', no_semi a = true -> no_semi a' = true ->
  a ++ String ";" r = a' ++ String ";" r' -> a = a' /\ r = r'.
Proof.
  induction a as [|c a IH]; intros [|c' a'] r r' Ha Ha' E; simpl in *.
  - inversion E. auto.
  - inversion E; subst c'. simpl in Ha'. discriminate.
  - inversion E; subst c. simpl in Ha. discriminate.
  - inversion E; subst c'. apply andb_true_iff in Ha. apply andb_true_iff in Ha'.
    destruct (IH a' r r') as [-> ->]; tauto.
Qed.

Lemma same_length_split : forall a a' r r' : string, String.length a = String.length a' ->
  a ++ r = a' ++ r' -> a = a' /\ r = r'.
Proof.
  induction a as [|c a IH]; intros [|c' a'] r r' L E; simpl in *; try discriminate.
  - auto.
  - inversion E; subst c'. destruct (IH a' r r') as [-> ->]; auto.
Qed.

Section KeyEncoding.
  Variable fkey : Q -> string.               (* the text of a float: string.format("%.17g", q) in preamble.lua *)
  Variable F : Q -> Prop.                    (* the floats that occur as (parts of) keys *)
  Hypothesis fkey_inj : forall p q, F p -> F q -> fkey p = fkey q -> p = q.
  Hypothesis fkey_no_semi : forall q, F q -> no_semi (fkey q) = true.

  Notation key := (rt_key_with fkey).

  (* the encoding is prefix-free at every key type: whatever follows, the key can be read back *)
  Definition key_at (t : ty) : Prop :=
    forall a b r r', vty t a -> vty t b -> floats_in F a -> floats_in F b ->
    key a ++ r = key b ++ r' -> a = b /\ r = r'.

  Lemma sconcat_inj : forall ts, Forall key_at ts ->
    forall xs ys r r', all2 vty ts xs -> all2 vty ts ys -> allP (floats_in F) xs -> allP (floats_in F) ys ->
    sconcat (map key xs) ++ r = sconcat (map key ys) ++ r' -> xs = ys /\ r = r'.
  Proof.
    induction 1 as [|t ts Ht _ IH]; intros [|x xs] [|y ys] r r'; simpl; try tauto.
    intros [Tx Txs] [Ty Tys] [Fx Fxs] [Fy Fys] E. rewrite !string_app_assoc in E.
    destruct (Ht x y _ _ Tx Ty Fx Fy E) as [-> E2]. destruct (IH xs ys r r' Txs Tys Fxs Fys E2) as [-> ->]. auto.
  Qed.

  Theorem key_prefix_free : forall t, key_ty t = true -> key_at t.
  Proof.
    induction t using ty_ind'; simpl; try discriminate; intros Hk a b r r' Ha Hb Fa Fb E.
    - (* int *) destruct Ha as [x ->], Hb as [y ->]. cbn [rt_key_with] in E. cbn [append] in E. inversion E as [E1].
      rewrite !string_app_assoc in E1.
      destruct (dec_prefix_unique _ _ _ _ (z_to_dec_dec x) (z_to_dec_dec y)
                  (eq_refl : ok_rest (";" ++ r)) (eq_refl : ok_rest (";" ++ r')) E1) as [E2 E3].
      apply z_to_dec_inj in E2. subst. inversion E3. auto.
    - (* float *) destruct Ha as [p [-> _]], Hb as [q [-> _]]. simpl in Fa, Fb.
      cbn [rt_key_with] in E. cbn [append] in E.
      inversion E as [E1]. rewrite !string_app_assoc in E1. cbn [append] in E1.
      destruct (no_semi_split _ _ _ _ (fkey_no_semi p Fa) (fkey_no_semi q Fb) E1) as [E2 ->].
      rewrite (fkey_inj p q Fa Fb E2). auto.
    - (* str *) destruct Ha as [s ->], Hb as [u ->]. cbn [rt_key_with] in E. cbn [append] in E. inversion E as [E1].
      rewrite !string_app_assoc in E1.
      destruct (dec_prefix_unique _ _ _ _ (z_to_dec_dec _) (z_to_dec_dec _)
                  (eq_refl : ok_rest (":" ++ s ++ r)) (eq_refl : ok_rest (":" ++ u ++ r')) E1) as [E2 E3].
      apply z_to_dec_inj in E2. apply Nat2Z.inj in E2. cbn [append] in E3. inversion E3 as [E4].
      destruct (same_length_split _ _ _ _ E2 E4) as [-> ->]. auto.
    - (* tuple *) match goal with H0 : Forall _ ?l |- _ => rename l into tys end.
      destruct a; try contradiction. destruct b; try contradiction.
      cbn [rt_key_with] in E. cbn [append] in E. inversion E as [E1]. rewrite !string_app_assoc in E1.
      assert (HK : Forall key_at tys).
      { rewrite forallb_forall in Hk. rewrite Forall_forall in *. auto. }
      change (map (fun x => key x) vs) with (map key vs) in E1.
      change (map (fun x => key x) vs0) with (map key vs0) in E1.
      destruct (sconcat_inj tys HK vs vs0 _ _ Ha Hb Fa Fb E1) as [-> E2]. cbn [append] in E2. inversion E2. auto.
  Qed.

  (* INJECTIVITY on all admitted key types *)
  Theorem key_inj_all : forall t a b, key_ty t = true -> vty t a -> vty t b -> floats_in F a -> floats_in F b ->
    key a = key b -> a = b.
  Proof.
    intros t a b Hk Ha Hb Fa Fb E.
    destruct (key_prefix_free t Hk a b "" "" Ha Hb Fa Fb) as [-> _]; [|reflexivity].
    rewrite !string_app_nil_r. exact E.
  Qed.
End KeyEncoding.

(* ---- key types without floats: no assumption is left ---- *)

Fixpoint key_ty_nofloat (t : ty) : bool :=
  match t with
  | TInt | TStr => true
  | TTuple ts => forallb key_ty_nofloat ts
  | _ => false
  end.

Lemma nofloat_key_any : forall f g t, key_ty_nofloat t = true -> forall a, vty t a ->
  rt_key_with f a = rt_key_with g a /\ forall F, floats_in F a.
Proof.
  intros f g. induction t using ty_ind'; simpl; try discriminate; intros Hk a Ha.
  - destruct Ha as [x ->]. split; [reflexivity | intros; exact I].
  - destruct Ha as [x ->]. split; [reflexivity | intros; exact I].
  - destruct a; try contradiction. cbn [rt_key_with floats_in].
    rewrite forallb_forall in Hk. rewrite Forall_forall in H. simpl in Ha.
    assert (X : forall t, In t ts -> forall a, vty t a ->
                rt_key_with f a = rt_key_with g a /\ forall F, floats_in F a)
      by (intros t0 Hin a0 Ta; apply (H t0 Hin (Hk t0 Hin) a0 Ta)).
    clear H Hk.
    assert (M : map (fun x => rt_key_with f x) vs = map (fun x => rt_key_with g x) vs /\
                forall F, allP (fun x => floats_in F x) vs).
    { revert vs Ha. induction ts as [|t ts IH]; intros [|x xs]; simpl; try tauto.
      intros [Tx Txs]. destruct (X t (or_introl eq_refl) x Tx) as [E Fx].
      destruct (IH (fun t0 Hin => X t0 (or_intror Hin)) xs Txs) as [E' Fxs].
      split; [rewrite E, E'; reflexivity | intros F; split; [apply Fx | apply Fxs]]. }
    destruct M as [M1 M2]. rewrite M1. split; [reflexivity | exact M2].
Qed.

Lemma key_ty_nofloat_key_ty : forall t, key_ty_nofloat t = true -> key_ty t = true.
Proof.
  induction t using ty_ind'; simpl; try discriminate; auto.
  intros Hk. rewrite forallb_forall in *. rewrite Forall_forall in H. auto.
Qed.

Theorem key_inj_nofloat : forall fkey t a b, key_ty_nofloat t = true -> vty t a -> vty t b ->
  rt_key_with fkey a = rt_key_with fkey b -> a = b.
Proof.
  intros fkey t a b Hk Ha Hb E.
  (* no float occurs: use the generic theorem with a float text that is injective everywhere, numerator "/" denominator *)
  set (g := fun q : Q => (z_to_dec (Qnum q) ++ "/" ++ z_to_dec (Zpos (Qden q)))%string).
  destruct (nofloat_key_any fkey g t Hk a Ha) as [Ea Fa]. destruct (nofloat_key_any fkey g t Hk b Hb) as [Eb Fb].
  rewrite Ea, Eb in E.
  assert (G1 : forall q, True -> no_semi (g q) = true).
  { intros q _. unfold g.
    assert (D : forall s, looks_like_int s = true -> no_semi s = true).
    { induction s as [|c s IH]; [reflexivity|]. rewrite looks_like_int_cons. intros X. apply andb_true_iff in X.
      destruct X as [X1 X2]. simpl. rewrite (IH X2), andb_true_r. unfold dec_char in X1.
      destruct (N.eqb_spec (N_of_ascii c) 59) as [E'|E']; [|reflexivity]. rewrite E' in X1. discriminate. }
    assert (A : forall s u, no_semi s = true -> no_semi u = true -> no_semi (s ++ u) = true).
    { induction s; simpl; intros u X Y; [exact Y|]. apply andb_true_iff in X. destruct X as [X1 X2].
      rewrite X1, (IHs u X2 Y). reflexivity. }
    apply A; [apply D, z_to_dec_dec | apply (A "/"%string); [reflexivity | apply D, z_to_dec_dec]]. }
  assert (G2 : forall p q, True -> True -> g p = g q -> p = q).
  { intros [n d] [n' d'] _ _. unfold g. simpl Qnum. simpl Qden. intros E'.
    destruct (dec_prefix_unique _ _ _ _ (z_to_dec_dec n) (z_to_dec_dec n')
                (eq_refl : ok_rest ("/" ++ z_to_dec (Zpos d))) (eq_refl : ok_rest ("/" ++ z_to_dec (Zpos d'))) E') as [E1 E2].
    apply z_to_dec_inj in E1. cbn [append] in E2. inversion E2 as [E3].
    change (z_to_dec (Zpos d) = z_to_dec (Zpos d')) in E3. apply z_to_dec_inj in E3.
    inversion E3. subst. reflexivity. }
  apply (key_inj_all g (fun _ => True) G2 G1 t a b (key_ty_nofloat_key_ty t Hk) Ha Hb (Fa _) (Fb _) E).
Qed.

(* ---- the run-time key function itself ---- *)

(* keys without floats: unconditional *)
Theorem rt_key_inj_nofloat : forall t a b, key_ty_nofloat t = true -> vty t a -> vty t b ->
  rt_key a = rt_key b -> a = b.
Proof. intros t a b. apply key_inj_nofloat. Qed.

(* all admitted key types, floats included: EXPLICIT PREMISES on the "%.17g" text over the floats F in use
   (true of IEEE doubles by the binary64 round-trip property; not provable for arbitrary rationals) *)
Theorem rt_key_inj : forall (F : Q -> Prop),
  (forall p q, F p -> F q -> fmt_g17 p = fmt_g17 q -> p = q) ->
  (forall q, F q -> no_semi (fmt_g17 q) = true) ->
  forall t a b, key_ty t = true -> vty t a -> vty t b -> floats_in F a -> floats_in F b ->
  rt_key a = rt_key b -> a = b.
Proof. intros F H1 H2. exact (key_inj_all fmt_g17 F H1 H2). Qed.

(* the premises are satisfiable: a few floats *)
Example rt_key_inj_premises :
  let F := fun q : Q => q = (1 # 2)%Q \/ q = (3 # 2)%Q \/ q = (1000000000000001 # 1000000000000000)%Q
                        \/ q = (500000000000001 # 500000000000000)%Q in
  (forall p q, F p -> F q -> fmt_g17 p = fmt_g17 q -> p = q) /\ (forall q, F q -> no_semi (fmt_g17 q) = true).
Proof.
  cbv zeta. split.
  - intros p q [-> | [-> | [-> | ->]]] [-> | [-> | [-> | ->]]] E; try reflexivity; vm_compute in E; discriminate.
  - intros q [-> | [-> | [-> | ->]]]; vm_compute; reflexivity.
Qed.

(* the pairs that collided under tostring no longer do *)
Example rt_key_former_collisions :
  rt_key (VTuple [VStr "a, b"; VStr "c"]) <> rt_key (VTuple [VStr "a"; VStr "b, c"]) /\
  rt_key (VFloat (1000000000000001 # 1000000000000000)) <> rt_key (VFloat (500000000000001 # 500000000000000)) /\
  rt_key (VTuple [VStr "a, b"; VStr "c"]) = "(s4:a, bs1:c)" /\ rt_key (VTuple [VInt 1; VTuple [VFloat (2 # 1); VStr "x"]]) = "(i1;(n2;s1:x))".
Proof. repeat split; vm_compute; try reflexivity; discriminate. Qed.

(* WHAT STILL COLLIDES (model only): two rationals that agree in 17 significant digits -- they cannot both
   be IEEE doubles -- share a key text, hence a dict entry *)
Theorem rt_key_rational_collision : exists p q : Q,
  q_wf p /\ q_wf q /\ ~ Qeq p q /\ rt_key (VFloat p) = rt_key (VFloat q) /\
  exists d, rbind (rt_dict_update rt_dict_new (VFloat p) (vint 1)) (fun d1 => rt_dict_update d1 (VFloat q) (vint 2)) = Ok d /\
            rt_len d = Ok (vint 1).
Proof.
  exists (1000000000000000001 # 1000000000000000000)%Q, (500000000000000001 # 500000000000000000)%Q.
  split; [vm_compute; reflexivity|]. split; [vm_compute; reflexivity|].
  split; [unfold Qeq; simpl; discriminate|]. split; [vm_compute; reflexivity|].
  eexists. split; vm_compute; reflexivity.
Qed.

(* ---- the history theorems, instantiated ---- *)

Lemma string_eqb_eq : forall a b : string, String.eqb a b = true <-> a = b.
Proof. apply String.eqb_eq. Qed.

Lemma z_eqb_eq : forall a b : Z, Z.eqb a b = true <-> a = b.
Proof. apply Z.eqb_eq. Qed.

Lemma key_inj_str : forall s s', rt_key (VStr s) = rt_key (VStr s') -> s = s'.
Proof.
  intros s s' E. assert (X : VStr s = VStr s').
  { apply (rt_key_inj_nofloat TStr); try reflexivity; try (eexists; reflexivity). exact E. }
  inversion X. reflexivity.
Qed.

Lemma key_inj_int : forall z z', rt_key (vint z) = rt_key (vint z') -> z = z'.
Proof.
  intros z z' E. assert (X : vint z = vint z').
  { apply (rt_key_inj_nofloat TInt); try reflexivity; try (eexists; reflexivity). exact E. }
  inversion X. reflexivity.
Qed.

(* (int, int) as a key type *)
Definition emb_zz (p : Z * Z) : value := VTuple [vint (fst p); vint (snd p)].
Definition zz_eqb (p q : Z * Z) : bool := Z.eqb (fst p) (fst q) && Z.eqb (snd p) (snd q).

Lemma zz_eqb_eq : forall p q, zz_eqb p q = true <-> p = q.
Proof.
  intros [a b] [c d]. unfold zz_eqb. simpl. rewrite andb_true_iff, !Z.eqb_eq.
  split; [intros [-> ->]; reflexivity | intros H; inversion H; auto].
Qed.

Lemma zz_key_inj : forall p q, rt_key (emb_zz p) = rt_key (emb_zz q) -> p = q.
Proof.
  intros [a b] [c d] E.
  assert (X : emb_zz (a, b) = emb_zz (c, d)).
  { apply (rt_key_inj_nofloat (TTuple [TInt; TInt])); try assumption; try reflexivity;
      simpl; repeat split; eexists; reflexivity. }
  inversion X. reflexivity.
Qed.

(* (str, str): the key type whose printed forms collide *)
Definition emb_ss (p : string * string) : value := VTuple [VStr (fst p); VStr (snd p)].
Definition ss_eqb (p q : string * string) : bool := String.eqb (fst p) (fst q) && String.eqb (snd p) (snd q).

Lemma ss_eqb_eq : forall p q, ss_eqb p q = true <-> p = q.
Proof.
  intros [a b] [c d]. unfold ss_eqb. simpl. rewrite andb_true_iff, !String.eqb_eq.
  split; [intros [-> ->]; reflexivity | intros H; inversion H; auto].
Qed.

Lemma ss_key_inj : forall p q, rt_key (emb_ss p) = rt_key (emb_ss q) -> p = q.
Proof.
  intros [a b] [c d] E.
  assert (X : emb_ss (a, b) = emb_ss (c, d)).
  { apply (rt_key_inj_nofloat (TTuple [TStr; TStr])); try assumption; try reflexivity;
      simpl; repeat split; eexists; reflexivity. }
  inversion X. reflexivity.
Qed.

Theorem dict_history_str_keys : forall (V : Type) (embV : V -> value) ops m,
  rt_drun string V VStr embV ops (rep_dict string V VStr embV m) =
  Ok (rep_dict string V VStr embV (fst (d_run string V String.eqb ops m)),
      map (emb_dobs V embV) (snd (d_run string V String.eqb ops m))).
Proof. intros. apply (dict_history_refines string V VStr embV String.eqb string_eqb_eq key_inj_str). Qed.

Theorem dict_history_int_keys : forall (V : Type) (embV : V -> value) ops m,
  rt_drun Z V vint embV ops (rep_dict Z V vint embV m) =
  Ok (rep_dict Z V vint embV (fst (d_run Z V Z.eqb ops m)),
      map (emb_dobs V embV) (snd (d_run Z V Z.eqb ops m))).
Proof. intros. apply (dict_history_refines Z V vint embV Z.eqb z_eqb_eq key_inj_int). Qed.

Theorem dict_history_int_tuple_keys : forall (V : Type) (embV : V -> value) ops m,
  rt_drun (Z * Z) V emb_zz embV ops (rep_dict (Z * Z) V emb_zz embV m) =
  Ok (rep_dict (Z * Z) V emb_zz embV (fst (d_run (Z * Z) V zz_eqb ops m)),
      map (emb_dobs V embV) (snd (d_run (Z * Z) V zz_eqb ops m))).
Proof. intros. apply (dict_history_refines (Z * Z) V emb_zz embV zz_eqb zz_eqb_eq zz_key_inj). Qed.

Theorem dict_history_str_tuple_keys : forall (V : Type) (embV : V -> value) ops m,
  rt_drun (string * string) V emb_ss embV ops (rep_dict (string * string) V emb_ss embV m) =
  Ok (rep_dict (string * string) V emb_ss embV (fst (d_run (string * string) V ss_eqb ops m)),
      map (emb_dobs V embV) (snd (d_run (string * string) V ss_eqb ops m))).
Proof. intros. apply (dict_history_refines (string * string) V emb_ss embV ss_eqb ss_eqb_eq ss_key_inj). Qed.

Theorem set_history_str_keys : forall ops s,
  rt_srun string VStr ops (rep_set string VStr s) =
  Ok (rep_set string VStr (fst (s_run string String.eqb ops s)), map emb_sobs (snd (s_run string String.eqb ops s))).
Proof. intros. apply (set_history_refines string VStr String.eqb string_eqb_eq key_inj_str). Qed.

Theorem set_history_int_keys : forall ops s,
  rt_srun Z vint ops (rep_set Z vint s) =
  Ok (rep_set Z vint (fst (s_run Z Z.eqb ops s)), map emb_sobs (snd (s_run Z Z.eqb ops s))).
Proof. intros. apply (set_history_refines Z vint Z.eqb z_eqb_eq key_inj_int). Qed.

Theorem set_history_int_tuple_keys : forall ops s,
  rt_srun (Z * Z) emb_zz ops (rep_set (Z * Z) emb_zz s) =
  Ok (rep_set (Z * Z) emb_zz (fst (s_run (Z * Z) zz_eqb ops s)), map emb_sobs (snd (s_run (Z * Z) zz_eqb ops s))).
Proof. intros. apply (set_history_refines (Z * Z) emb_zz zz_eqb zz_eqb_eq zz_key_inj). Qed.

Theorem set_history_str_tuple_keys : forall ops s,
  rt_srun (string * string) emb_ss ops (rep_set (string * string) emb_ss s) =
  Ok (rep_set (string * string) emb_ss (fst (s_run (string * string) ss_eqb ops s)),
      map emb_sobs (snd (s_run (string * string) ss_eqb ops s))).
Proof. intros. apply (set_history_refines (string * string) emb_ss ss_eqb ss_eqb_eq ss_key_inj). Qed.

(* keys of ANY admitted type, given as typed run-time values: K = { v | vty t v /\ floats_in F v } would need
   proof-irrelevant subset types; the generic history theorems of ContainerLaws take the injectivity of
   k |-> rt_key (embK k) as a hypothesis, which rt_key_inj / rt_key_inj_nofloat discharge for every embedding
   into an admitted key type. *)
Theorem key_hypothesis_from_typing : forall (K : Type) (embK : K -> value) (t : ty) (F : Q -> Prop),
  (forall p q, F p -> F q -> fmt_g17 p = fmt_g17 q -> p = q) ->
  (forall q, F q -> no_semi (fmt_g17 q) = true) ->
  key_ty t = true -> (forall k, vty t (embK k) /\ floats_in F (embK k)) -> (forall k k', embK k = embK k' -> k = k') ->
  forall k k', rt_key (embK k) = rt_key (embK k') -> k = k'.
Proof.
  intros K embK t F H1 H2 Hk Ht Hinj k k' E. apply Hinj.
  destruct (Ht k) as [T1 F1]. destruct (Ht k') as [T2 F2].
  exact (rt_key_inj F H1 H2 t _ _ Hk T1 T2 F1 F2 E).
Qed.

(* a NESTED tuple key type: (int, (int, int)) *)
Definition emb_znn (p : Z * (Z * Z)) : value := VTuple [vint (fst p); VTuple [vint (fst (snd p)); vint (snd (snd p))]].
Definition znn_eqb (p q : Z * (Z * Z)) : bool :=
  Z.eqb (fst p) (fst q) && (Z.eqb (fst (snd p)) (fst (snd q)) && Z.eqb (snd (snd p)) (snd (snd q))).

Lemma znn_eqb_eq : forall p q, znn_eqb p q = true <-> p = q.
Proof.
  intros [a [b c]] [a' [b' c']]. unfold znn_eqb. simpl. rewrite !andb_true_iff, !Z.eqb_eq.
  split; [intros [-> [-> ->]]; reflexivity | intros H; inversion H; auto].
Qed.

Lemma znn_key_inj : forall p q, rt_key (emb_znn p) = rt_key (emb_znn q) -> p = q.
Proof.
  intros [a [b c]] [a' [b' c']] E.
  assert (X : emb_znn (a, (b, c)) = emb_znn (a', (b', c'))).
  { apply (rt_key_inj_nofloat (TTuple [TInt; TTuple [TInt; TInt]])); try assumption; try reflexivity;
      simpl; repeat split; eexists; reflexivity. }
  inversion X. reflexivity.
Qed.

Theorem dict_history_nested_tuple_keys : forall (V : Type) (embV : V -> value) ops m,
  rt_drun (Z * (Z * Z)) V emb_znn embV ops (rep_dict (Z * (Z * Z)) V emb_znn embV m) =
  Ok (rep_dict (Z * (Z * Z)) V emb_znn embV (fst (d_run (Z * (Z * Z)) V znn_eqb ops m)),
      map (emb_dobs V embV) (snd (d_run (Z * (Z * Z)) V znn_eqb ops m))).
Proof. intros. apply (dict_history_refines (Z * (Z * Z)) V emb_znn embV znn_eqb znn_eqb_eq znn_key_inj). Qed.

Theorem set_history_nested_tuple_keys : forall ops s,
  rt_srun (Z * (Z * Z)) emb_znn ops (rep_set (Z * (Z * Z)) emb_znn s) =
  Ok (rep_set (Z * (Z * Z)) emb_znn (fst (s_run (Z * (Z * Z)) znn_eqb ops s)),
      map emb_sobs (snd (s_run (Z * (Z * Z)) znn_eqb ops s))).
Proof. intros. apply (set_history_refines (Z * (Z * Z)) emb_znn znn_eqb znn_eqb_eq znn_key_inj). Qed.
