(* C18: the list / dict / set / Maybe / math helpers of Sem/Runtime.v (the model of preamble.lua and of
   the std functions written in Sylt) REFINE the plain models of Sem/Containers.v: per operation, and
   for every sequence of operations (induction over the history).  Element and key types are abstract
   (any type A with an embedding into run-time values); the side conditions on the embedding are
   discharged for ints and strings, and refuted where they are false (tuples of strings, big ints).
   What is false of the faithful model is refuted with a witness (`..._refuted`). *)
From Coq Require Import String Ascii List NArith ZArith QArith Qround Qreduction Bool Lia Eqdep_dec.
From Sylt Require Import Lua.LuaNum Sem.Values Sem.Runtime Sem.Containers Sem.RuntimeLaws.
Import ListNotations.
Local Close Scope Q_scope.
Local Open Scope nat_scope.

(* how a plain `option` shows up as a library-made Maybe *)
Definition rep_maybe {A} (emb : A -> value) (o : option A) : value :=
  match o with Some a => mk_just (emb a) | None => lib_none end.

(* ------------------------------------------------------------------------------------------------ *)
(* lists                                                                                             *)

Section Lists.
  Variable A : Type.
  Variable emb : A -> value.

  Definition rep_list (l : list A) : value := VList (map emb l).

  Lemma list_push_refines : forall l x, rt_list_push (rep_list l) (emb x) = Ok (rep_list (l_push l x)).
  Proof. intros. unfold rep_list, l_push. simpl. rewrite map_app. reflexivity. Qed.

  Lemma list_prepend_refines : forall l x, rt_list_prepend (rep_list l) (emb x) = Ok (rep_list (l_prepend l x)).
  Proof. reflexivity. Qed.

  Lemma list_get_refines : forall l i, rt_list_get (rep_list l) i = Ok (rep_maybe emb (l_get l i)).
  Proof.
    intros l i. unfold rep_list, l_get, rt_list_get. destruct (0 <=? i)%Z; [|reflexivity].
    rewrite nth_error_map. destruct (nth_error l (Z.to_nat i)); reflexivity.
  Qed.

  Lemma replace_nth_map : forall n x l, replace_nth n (emb x) (map emb l) = map emb (l_set_nat l n x).
  Proof. induction n; intros x [|y l]; simpl; try reflexivity. rewrite IHn. reflexivity. Qed.

  Lemma l_set_nat_beyond : forall l n (x : A), length l <= n -> l_set_nat l n x = l.
  Proof. induction l; intros [|n] x H; simpl in *; try reflexivity; try lia. rewrite IHl; [reflexivity | lia]. Qed.

  (* in range: replaced; at or beyond the end: ignored *)
  Lemma list_set_refines : forall l i x, (0 <= i)%Z ->
    rt_list_set (rep_list l) i (emb x) = Ok (rep_list (l_set l i x)).
  Proof.
    intros l i x Hi. unfold rep_list, rt_list_set, l_set. rewrite map_length.
    destruct (Z.ltb_spec i 0); [lia|]. destruct (Z.leb_spec 0 i); [|lia].
    destruct (Z.ltb_spec i (Z.of_nat (length l))).
    - rewrite replace_nth_map. reflexivity.
    - rewrite l_set_nat_beyond; [reflexivity | lia].
  Qed.

  (* a negative index leaves the model (in Lua it plants the key i+1 <= 0 in the table) *)
  Lemma list_set_negative : forall l i x, (i < 0)%Z -> rt_list_set (rep_list l) i x = Unsup.
  Proof. intros l i x Hi. unfold rep_list, rt_list_set. destruct (Z.ltb_spec i 0); [reflexivity | lia]. Qed.

  Lemma removelast_map : forall l : list A, removelast (map emb l) = map emb (removelast l).
  Proof. induction l as [|x [|y l] IH]; simpl in *; try reflexivity. rewrite IH. reflexivity. Qed.

  Lemma last_map : forall (l : list A) d x, last (map emb (l ++ [x])) d = emb x.
  Proof. induction l as [|y l IH]; intros; simpl; [reflexivity|]. rewrite IH. destruct l; reflexivity. Qed.

  Lemma list_pop_refines : forall l,
    rt_list_pop (rep_list l) = Ok (rep_list (fst (l_pop l)), rep_maybe emb (snd (l_pop l))).
  Proof.
    intros l. unfold l_pop. destruct (rev l) as [|x r] eqn:E.
    - assert (l = []) by (rewrite <- (rev_involutive l), E; reflexivity). subst. reflexivity.
    - assert (L : l = rev r ++ [x]) by (rewrite <- (rev_involutive l), E; reflexivity).
      rewrite L. unfold rep_list, rt_list_pop. simpl fst. simpl snd.
      destruct (map emb (rev r ++ [x])) eqn:M.
      + destruct (rev r); discriminate.
      + rewrite <- M. rewrite removelast_map, removelast_last, last_map. reflexivity.
  Qed.

  Lemma list_len_refines : forall l, rt_len (rep_list l) = Ok (vlen (length l)).
  Proof. intros. unfold rep_list. simpl. rewrite map_length. reflexivity. Qed.

  Lemma list_last_refines : forall l, rt_list_last (rep_list l) = Ok (rep_maybe emb (l_last l)).
  Proof.
    intros l. unfold rt_list_last, rep_list at 1. rewrite map_length.
    change (VList (map emb l)) with (rep_list l). rewrite list_get_refines. f_equal. f_equal.
    unfold l_get, l_last. destruct (rev l) as [|x r] eqn:E.
    - assert (l = []) by (rewrite <- (rev_involutive l), E; reflexivity). subst. reflexivity.
    - assert (L : l = rev r ++ [x]) by (rewrite <- (rev_involutive l), E; reflexivity).
      rewrite L, app_length. simpl. destruct (Z.leb_spec 0 (Z.of_nat (length (rev r) + 1) - 1)); [|lia].
      replace (Z.to_nat (Z.of_nat (length (rev r) + 1) - 1)) with (length (rev r)) by lia.
      rewrite nth_error_app2, Nat.sub_diag; [reflexivity | lia].
  Qed.

  (* map / filter / fold / find take Sylt functions: any value-level function that agrees with the
     plain function on embedded elements *)
  Section WithFunctions.
    Variable B : Type.
    Variable embB : B -> value.
    Variables (pv : value -> bool) (p : A -> bool).
    Hypothesis pv_p : forall a, pv (emb a) = p a.
    Variables (fv : value -> value) (f : A -> B).
    Hypothesis fv_f : forall a, fv (emb a) = embB (f a).
    Variables (gv : value -> value -> value) (g : A -> B -> B).
    Hypothesis gv_g : forall a b, gv (emb a) (embB b) = embB (g a b).

    Lemma list_map_refines : forall l, rt_list_map fv (rep_list l) = Ok (VList (map embB (map f l))).
    Proof.
      intros l. unfold rep_list. simpl. rewrite !map_map. f_equal. f_equal. apply map_ext. exact fv_f.
    Qed.

    Lemma filter_map_emb : forall l, filter pv (map emb l) = map emb (filter p l).
    Proof. induction l; simpl; [reflexivity|]. rewrite pv_p. destruct (p a); simpl; rewrite IHl; reflexivity. Qed.

    Lemma list_filter_refines : forall l, rt_list_filter pv (rep_list l) = Ok (rep_list (filter p l)).
    Proof. intros l. unfold rep_list. simpl. rewrite filter_map_emb. reflexivity. Qed.

    Lemma list_fold_refines : forall l b, rt_list_fold gv (embB b) (rep_list l) = Ok (embB (l_fold g b l)).
    Proof.
      intros l b. unfold rep_list, l_fold. simpl. f_equal. revert b.
      induction l; intros b; simpl; [reflexivity|]. rewrite gv_g. apply IHl.
    Qed.

    Lemma find_map_emb : forall l, find pv (map emb l) = option_map emb (find p l).
    Proof. induction l; simpl; [reflexivity|]. rewrite pv_p. destruct (p a); [reflexivity | exact IHl]. Qed.

    Lemma list_find_refines : forall l, rt_list_find pv (rep_list l) = Ok (rep_maybe emb (find p l)).
    Proof. intros l. unfold rep_list. simpl. rewrite find_map_emb. destruct (find p l); reflexivity. Qed.
  End WithFunctions.

  (* contains compares with ==: the embedding must turn == into the plain equality test *)
  Variable aeqb : A -> A -> bool.
  Hypothesis emb_eq : forall a b, rt_eq (emb a) (emb b) = aeqb a b.

  Lemma list_contains_refines : forall l x, rt_list_contains (rep_list l) (emb x) = Ok (l_contains aeqb l x).
  Proof.
    intros l x. unfold rt_list_contains.
    rewrite (list_find_refines (fun y => rt_eq y (emb x)) (fun y => aeqb y x)) by (intros; apply emb_eq).
    unfold l_contains. simpl. induction l as [|y l IH]; simpl; [reflexivity|].
    destruct (aeqb y x); [reflexivity | exact IH].
  Qed.
End Lists.
