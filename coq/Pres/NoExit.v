(* Expressions without statements inside (Frag.noexit_expr: no if-expression) never complete abruptly in
   the reference interpreter: no break / continue / ret leaves them.  Used for loop conditions. *)
From Coq Require Import String Ascii List NArith ZArith QArith Bool Lia.
From Sylt Require Import Syntax.Resolved.
From Sylt Require Sem.Values Sem.Runtime Sem.SyltSem.
From Sylt Require Import Pres.Frag Pres.SimExpr Pres.LowerShape Pres.SimExprProofs.
Import ListNotations.

Notation sstate := SyltSem.state.
Notation senv := SyltSem.env.

Definition noab {A} (r : SyltSem.res A) : Prop := match r with SyltSem.RAbrupt _ => False | _ => True end.

Lemma noab_bind {A B} (m : SyltSem.M A) (k : A -> SyltSem.M B) st r st' :
  SyltSem.bind m k st = (r, st') ->
  (forall a st1, m st = (a, st1) -> noab a) ->
  (forall a st1, m st = (SyltSem.RVal a, st1) -> k a st1 = (r, st') -> noab r) -> noab r.
Proof.
  unfold SyltSem.bind. destruct (m st) as [[a|o|c] st1] eqn:E; intros H H1 H2.
  - eapply H2; [reflexivity | exact H].
  - inversion H; subst. exact I.
  - specialize (H1 _ _ eq_refl). destruct H1.
Qed.

Lemma noab_lift {A} w (x : Values.res A) st r st' : SyltSem.lift_res w x st = (r, st') -> noab r.
Proof. destruct x; cbn; intros H; inversion H; subst; exact I. Qed.

Lemma noab_binop_val op a b st r st' : SyltSem.binop_val op a b st = (r, st') -> noab r.
Proof. intros H. apply binop_val_res in H. destruct r; cbn; auto. Qed.

Lemma noab_truth w v st r st' : SyltSem.truth w v st = (r, st') -> noab r.
Proof. unfold SyltSem.truth. destruct v as [[]| | |]; cbn; intros H; inversion H; subst; exact I. Qed.

Lemma noab_snapshot v st r st' : SyltSem.snapshot v st = (r, st') -> noab r.
Proof. unfold SyltSem.snapshot. destruct (SyltSem.reify 64 st v); intros H; inversion H; subst; exact I. Qed.

Lemma noab_as_value w v st r st' : SyltSem.as_value w v st = (r, st') -> noab r.
Proof. destruct v; cbn; intros H; inversion H; subst; exact I. Qed.

Lemma noab_new_cells args : forall st r st', SyltSem.mapM SyltSem.new_cell args st = (r, st') -> noab r.
Proof.
  induction args as [|a args IH]; intros st r st' H; cbn [SyltSem.mapM] in H.
  - inversion H; subst; exact I.
  - eapply noab_bind; [exact H | intros ? ? Hn; inversion Hn; subst; exact I |].
    intros c st1 _ H'. eapply noab_bind; [exact H' | intros ? ? Hn; eapply IH; exact Hn |].
    intros cs st2 _ H''. inversion H''; subst; exact I.
Qed.

Lemma noab_apply n fv avs st r st' : SyltSem.apply n fv avs st = (r, st') -> noab r.
Proof.
  intros H. destruct n as [|n]; [cbn in H; inversion H; subst; exact I|]. cbn [SyltSem.apply] in H.
  destruct fv; try (inversion H; subst; exact I).
  - eapply noab_bind; [exact H | |].
    + intros a0 st3 Hg. unfold SyltSem.get_clos in Hg. destruct (nth_error (SyltSem.clos st) c); inversion Hg; subst; exact I.
    + intros cl st3 _ H'. cbv beta in H'. destruct (Nat.eqb (length (SyltSem.cl_params cl)) (length avs)); [|inversion H'; subst; exact I].
      eapply noab_bind; [exact H' | intros ? ? Hn; eapply noab_new_cells; exact Hn |].
      intros cs st4 _ H''. cbv beta in H''.
      destruct (SyltSem.block_value n (combine (SyltSem.cl_params cl) cs ++ SyltSem.cl_env cl) (SyltSem.cl_body cl) st4) as [[v|o|[| |v]] st5];
        inversion H''; subst; exact I.
  - destruct (String.eqb name "print"); [|inversion H; subst; exact I].
    destruct avs as [|a1 [|? ?]]; try (inversion H; subst; exact I).
    eapply noab_bind; [exact H | intros ? ? Hs; eapply noab_snapshot; exact Hs |].
    intros xv st3 _ H''. cbn in H''. inversion H''; subst; exact I.
Qed.


Lemma noexit_noab n : forall k e x st r st', noexit_expr k x = true -> SyltSem.eval n e x st = (r, st') -> noab r.
Proof.
  induction n as [|n IH]; intros k e x st r st' Hf Hev.
  - cbn in Hev. inversion Hev; subst; exact I.
  - destruct k as [|k]; [discriminate|].
    destruct x; try discriminate Hf; cbn [noexit_expr] in Hf; cbn [SyltSem.eval] in Hev.
    + (* ERead *)
      destruct (SyltSem.lookup e var); [|inversion Hev; subst; exact I].
      unfold SyltSem.read_cell in Hev. destruct (nth_error (SyltSem.cells st) n0); inversion Hev; subst; exact I.
    + (* ECall *)
      destruct x; try discriminate Hf. destruct args as [|a [|? ?]]; try discriminate Hf.
      eapply noab_bind; [exact Hev | |].
      * intros a0 st1 H. destruct n as [|n']; [cbn in H; inversion H; subst; exact I|]. cbn [SyltSem.eval] in H.
        destruct (SyltSem.lookup e var); [|inversion H; subst; exact I].
        unfold SyltSem.read_cell in H. destruct (nth_error (SyltSem.cells st) n); inversion H; subst; exact I.
      * intros fv st1 _ H. eapply noab_bind; [exact H | |].
        -- intros a0 st2 H'. rewrite smapM_one in H'. destruct (SyltSem.eval n e a st1) as [[y|o|c] st3] eqn:Ea; inversion H'; subst; try exact I.
           apply (IH k e a st1 _ _ Hf Ea).
        -- intros avs st2 _ H'. eapply noab_apply; exact H'.
    + (* EBinOp *)
      frag_split Hf.
      assert (Ha : forall st0 r0 st1, SyltSem.eval n e x1 st0 = (r0, st1) -> noab r0) by (intros st0 r0 st1 H; exact (IH k e x1 st0 r0 st1 Hfr0 H)).
      assert (Hb : forall st0 r0 st1, SyltSem.eval n e x2 st0 = (r0, st1) -> noab r0) by (intros st0 r0 st1 H; exact (IH k e x2 st0 r0 st1 Hfr H)).
      destruct op; try discriminate Hf;
        (eapply noab_bind; [exact Hev | intros; eapply Ha; eassumption |]); intros va st1 _ H1.
      all: try (eapply noab_bind; [exact H1 | intros; eapply Hb; eassumption |]; intros vb st2 _ H2;
                eapply noab_bind; [exact H2 | intros; eapply noab_snapshot; eassumption |]; intros xa st3 _ H3;
                eapply noab_bind; [exact H3 | intros; eapply noab_snapshot; eassumption |]; intros xb st4 _ H4).
      all: try (eapply noab_bind; [exact H4 | intros; eapply noab_binop_val; eassumption |]; intros rv st5 _ H5; inversion H5; subst; exact I).
      * (* <=> *) cbv beta in H4. destruct (Runtime.rt_eq xa xb); inversion H4; subst; exact I.
      * (* and *) eapply noab_bind; [exact H1 | intros; eapply noab_truth; eassumption |]. intros ba st2 _ H2.
        cbv beta in H2. destruct ba; [eapply Hb; exact H2 | inversion H2; subst; exact I].
      * (* or *) eapply noab_bind; [exact H1 | intros; eapply noab_truth; eassumption |]. intros ba st2 _ H2.
        cbv beta in H2. destruct ba; [inversion H2; subst; exact I | eapply Hb; exact H2].
    + (* EUniOp *)
      assert (Ha : forall st0 r0 st1, SyltSem.eval n e x st0 = (r0, st1) -> noab r0) by (intros st0 r0 st1 H; exact (IH k e x st0 r0 st1 Hf H)).
      destruct op; (eapply noab_bind; [exact Hev | intros; eapply Ha; eassumption |]); intros va st1 _ H1.
      * eapply noab_bind; [exact H1 | intros; eapply noab_as_value; eassumption |]. intros xa st2 _ H2.
        eapply noab_bind; [exact H2 | intros; eapply noab_lift; eassumption |]. intros rv st3 _ H3. inversion H3; subst; exact I.
      * eapply noab_bind; [exact H1 | intros; eapply noab_truth; eassumption |]. intros ba st2 _ H2. inversion H2; subst; exact I.
    + inversion Hev; subst; exact I.
    + inversion Hev; subst; exact I.
    + inversion Hev; subst; exact I.
Qed.

(* ---- function-valued expressions and the statements before the result of a function that returns a function ---- *)

Lemma noab_mapM n e args :
  (forall a, In a args -> forall st r st', SyltSem.eval n e a st = (r, st') -> noab r) ->
  forall st r st', SyltSem.mapM (SyltSem.eval n e) args st = (r, st') -> noab r.
Proof.
  induction args as [|a args IH]; intros Hall st r st' H; cbn [SyltSem.mapM] in H.
  - inversion H; subst; exact I.
  - eapply noab_bind; [exact H | intros ? ? Hn; eapply (Hall a); [left; reflexivity | exact Hn] |].
    intros y st1 _ H'. eapply noab_bind; [exact H' | intros ? ? Hn; eapply IH; [intros a' Hin; apply Hall; right; exact Hin | exact Hn] |].
    intros ys st2 _ H''. inversion H''; subst; exact I.
Qed.

Lemma noexit_fexpr_noab n : forall k e x st r st', noexit_fexpr k x = true -> SyltSem.eval n e x st = (r, st') -> noab r.
Proof.
  induction n as [|n IH]; intros k e x st r st' Hf Hev.
  - cbn in Hev. inversion Hev; subst; exact I.
  - destruct k as [|k]; [discriminate|].
    destruct x; try discriminate Hf; cbn [noexit_fexpr] in Hf; cbn [SyltSem.eval] in Hev.
    + (* ERead *)
      destruct (SyltSem.lookup e var); [|inversion Hev; subst; exact I].
      unfold SyltSem.read_cell in Hev. destruct (nth_error (SyltSem.cells st) n0); inversion Hev; subst; exact I.
    + (* ECall *)
      destruct x; try discriminate Hf.
      eapply noab_bind; [exact Hev | |].
      * intros a0 st1 H. destruct n as [|n']; [cbn in H; inversion H; subst; exact I|]. cbn [SyltSem.eval] in H.
        destruct (SyltSem.lookup e var); [|inversion H; subst; exact I].
        unfold SyltSem.read_cell in H. destruct (nth_error (SyltSem.cells st) n); inversion H; subst; exact I.
      * intros fv st1 _ H. eapply noab_bind; [exact H | |].
        -- intros a0 st2 H'. eapply noab_mapM; [|exact H']. intros a Hin st0 r0 st3 Ha.
           rewrite forallb_forall in Hf. specialize (Hf a Hin). apply orb_prop in Hf as [Hf|Hf].
           ++ eapply noexit_noab; eassumption.
           ++ eapply IH; eassumption.
        -- intros avs st2 _ H'. eapply noab_apply; exact H'.
    + (* EFunction *)
      unfold SyltSem.bind, SyltSem.new_clos in Hev. inversion Hev; subst; exact I.
Qed.

Lemma simple_init_noab : forall init n k e st r st',
  forallb (simple_init_stmt k) init = true -> SyltSem.exec_block n e init st = (r, st') -> noab r.
Proof.
  induction init as [|s init IH]; intros n k e st r st' Hs Hev; (destruct n as [|n]; [cbn in Hev; inversion Hev; subst; exact I|]).
  - cbn in Hev. inversion Hev; subst; exact I.
  - cbn [forallb] in Hs. apply andb_prop in Hs as [Hs1 Hs2]. cbn [SyltSem.exec_block] in Hev.
    eapply noab_bind; [exact Hev | | intros e1 st1 _ H; cbv beta in H; eapply IH; eassumption].
    intros a0 st1 Hx. destruct s; try discriminate Hs1.
    destruct n as [|n]; [cbn in Hx; inversion Hx; subst; exact I|]. cbn [SyltSem.exec] in Hx.
    eapply noab_bind; [exact Hx | intros ? ? Hn; inversion Hn; subst; exact I |]. intros c st2 _ H2. cbv beta zeta in H2.
    eapply noab_bind; [exact H2 | | intros v st3 _ H3].
    + intros a1 st3 Hv. cbv beta in Hv. unfold simple_init_stmt in Hs1.
      destruct value.
      all: try exact (noexit_noab n k _ _ _ _ _ Hs1 Hv).
      eapply (noexit_fexpr_noab n 1); [|exact Hv]. reflexivity.
    + eapply noab_bind; [exact H3 | intros ? ? Hn; inversion Hn; subst; exact I |]. intros ? st4 _ H4. inversion H4; subst; exact I.
Qed.
