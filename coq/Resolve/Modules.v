(* Model of module discovery: `sylt_parser::tree` (parser.rs: work list `to_visit`, `visited` set,
   file_id = |visited|, one module per successfully parsed file) and `use_path` (statement.rs: path
   text -> file), over an abstract file map: what matters about a file is whether it can be read,
   whether it parses, and the path texts of its `use` / `from .. use` statements in order.
   Paths are kept as the text `Path::display` prints; the path texts the parser accepts consist of
   identifiers separated by single slashes, so `PathBuf::join` / `Path::parent` reduce to the string
   operations below.  Definitions only. *)
From Coq Require Import String List NArith Bool Ascii.
From Sylt Require Import Syntax.Resolved Resolve.PAst.
Import ListNotations.
Local Open Scope string_scope.

Definition slash : ascii := "/"%char.

Fixpoint starts_with_slash (s : string) : bool :=
  match s with String c _ => Ascii.eqb c slash | EmptyString => false end.

Fixpoint ends_with_slash (s : string) : bool :=
  match s with
  | EmptyString => false
  | String c EmptyString => Ascii.eqb c slash
  | String _ s' => ends_with_slash s'
  end.

(* str::trim_start_matches("/") *)
Fixpoint trim_start (s : string) : string :=
  match s with
  | String c s' => if Ascii.eqb c slash then trim_start s' else s
  | EmptyString => EmptyString
  end.

(* str::trim_end_matches("/") *)
Fixpoint trim_end (s : string) : string :=
  match s with
  | EmptyString => EmptyString
  | String c s' =>
      match trim_end s' with
      | EmptyString => if Ascii.eqb c slash then EmptyString else String c EmptyString
      | t => String c t
      end
  end.

(* Path::parent of a file path: everything before the last slash; "/" for a file directly under the root *)
Fixpoint parent_aux (s : string) : option string :=
  (* Some d: s contains a slash and d is the text before the LAST slash *)
  match s with
  | EmptyString => None
  | String c s' =>
      match parent_aux s' with
      | Some d => Some (String c d)
      | None => if Ascii.eqb c slash then Some EmptyString else None
      end
  end.

Definition parent (p : string) : string :=
  match parent_aux p with
  | None => ""                                         (* "main.sy" -> "" *)
  | Some "" => "/"                                     (* "/main.sy" -> "/" *)
  | Some d => d
  end.

(* PathBuf::join(dir, rel) for a relative `rel` *)
Definition join (dir rel : string) : string :=
  match dir with
  | "" => rel
  | _ => if ends_with_slash dir then dir ++ rel else dir ++ "/" ++ rel
  end.

Fixpoint mem_str (x : string) (l : list string) : bool :=
  match l with [] => false | y :: l' => String.eqb x y || mem_str x l' end.

(* fn use_path: the file a use-path denotes when written in file `cur` of a project whose main file
   lives in directory `root`.  None: "Cannot import files from the standard library". *)
Definition use_path (libs : list string) (root : string) (cur : file_or_lib) (path : string) : option file_or_lib :=
  let name := trim_end (trim_start path) in
  if mem_str name libs then Some (Lib name)
  else
    match cur with
    | Lib _ => None
    | File file =>
        let dir := if starts_with_slash path then root else parent file in
        Some (File (join dir (if String.eqb path "/" then "exports.sy"
                              else if ends_with_slash path then name ++ "/exports.sy"
                              else name ++ ".sy")))
    end.

(* the implicit namespace name of `use <path>` without `as` (PathBuf::file_stem of the trimmed path):
   the text after the last slash.  `use /` has none (the parser demands an alias). *)
Fixpoint last_component (s : string) : string :=
  match parent_aux s with
  | None => s
  | Some _ => match s with String _ s' => last_component s' | EmptyString => EmptyString end
  end.

Definition implicit_name (path : string) : option string :=
  if String.eqb path "/" then None else Some (last_component (trim_end (trim_start path))).

(* ---------------------------------------------------------------------------------------------- *)
(* the abstract file map *)

Inductive fcontent :=
| FSource (parses : bool) (uses : list string)   (* readable; `parses`: no syntax error in the file *)
| FConflict.                                     (* readable, contains git conflict markers: not parsed *)

Definition fmap := list (string * fcontent).             (* the `reader`: a missing path is FileNotFound *)

Fixpoint fmap_get (m : fmap) (p : string) : option fcontent :=
  match m with
  | [] => None
  | (q, c) :: m' => if String.eqb p q then Some c else fmap_get m' p
  end.

Fixpoint mem_fol (x : file_or_lib) (l : list file_or_lib) : bool :=
  match l with [] => false | y :: l' => fol_eqb x y || mem_fol x l' end.

Record tstate := mkT {
  t_visited : list file_or_lib;                  (* in visit order: file_id = position *)
  t_modules : list (file_or_lib * N);            (* successfully parsed modules with their file_id, in order *)
  t_errors : list file_or_lib                    (* files that could not be read / parsed *)
}.

(* the uses of a module that become work-list entries: statements whose path is not importable are
   syntax errors (they make the module fail) and are not followed *)
Fixpoint followed (libs : list string) (root : string) (cur : file_or_lib) (uses : list string)
  : list file_or_lib * bool :=
  match uses with
  | [] => ([], true)
  | u :: us =>
      let '(fs, ok) := followed libs root cur us in
      match use_path libs root cur u with
      | Some f => (f :: fs, ok)
      | None => (fs, false)
      end
  end.

(* `while let Some(include) = to_visit.pop()`; the work list is kept with its top FIRST, so
   `to_visit.append(&mut next)` puts the reversed `next` in front *)
Fixpoint tree_loop (fuel : nat) (libs : list string) (lib_uses : list (string * list string)) (root : string)
         (m : fmap) (to_visit : list file_or_lib) (st : tstate) : option tstate :=
  match fuel with
  | 0 => None
  | S f =>
      match to_visit with
      | [] => Some st
      | inc :: rest =>
          if mem_fol inc (t_visited st) then tree_loop f libs lib_uses root m rest st
          else
            let id := N.of_nat (length (t_visited st)) in
            let visited := app (t_visited st) [inc] in
            let content :=
              match inc with
              | Lib n => match find (fun e => String.eqb (fst e) n) lib_uses with
                         | Some e => Some (FSource true (snd e))
                         | None => None
                         end
              | File p => fmap_get m p
              end in
            match content with
            | None | Some FConflict =>
                tree_loop f libs lib_uses root m rest (mkT visited (t_modules st) (inc :: t_errors st))
            | Some (FSource parses uses) =>
                let '(next, uses_ok) := followed libs root inc uses in
                let st' := if parses && uses_ok
                           then mkT visited (app (t_modules st) [(inc, id)]) (t_errors st)
                           else mkT visited (t_modules st) (inc :: t_errors st) in
                tree_loop f libs lib_uses root m (app (rev next) rest) st'
            end
      end
  end.

Inductive tres :=
| TOk (modules : list (file_or_lib * N))
| TErr (failed : list file_or_lib)
| TOutOfFuel.

Definition tree_fuel (m : fmap) (lib_uses : list (string * list string)) : nat :=
  2 + length m + length lib_uses
  + fold_right (fun e n => match snd e with FSource _ us => length us + n | FConflict => n end) 0 m
  + fold_right (fun e n => length (snd e) + n) 0 lib_uses.

(* pub fn tree(path, reader, bundle_std) as far as the module list is concerned *)
Definition tree (lib_uses : list (string * list string)) (m : fmap) (main : string) (bundle_std : bool) : tres :=
  let libs := map fst lib_uses in
  let start := File main :: (if bundle_std then [Lib "preamble"] else []) in
  match tree_loop (tree_fuel m lib_uses) libs lib_uses (parent main) m start (mkT [] [] []) with
  | None => TOutOfFuel
  | Some st => match t_errors st with [] => TOk (t_modules st) | es => TErr (rev es) end
  end.
