(* C14 on SOURCE TEXT: what the parser is given (Entry.drive: map classify (lex table source)) depends on the kinds
   and payloads of the lexer's tokens only, comments without their text.  So every layout change of the source that
   the lexer theorems of Lex/WsInsert.v cover gives the parser the same token list, hence the same result: the same
   tree, the same consumed count, the same error positions (as token indices). *)
From Coq Require Import String List NArith Bool.
From Sylt Require Import Lex.Regex Lex.Logos Lex.LayoutProofs Lex.WsInsert Syntax.Ast Syntax.Tok
  Parse.PrecTable Parse.Parser.
Import ListNotations.

Definition classify_kp (x : string * payload) : tok :=
  classify (mkP (fst x) (snd x) (mkSpan 0 0 0 0) 0 0).

Lemma classify_kp_spec p : classify p = classify_kp (t_kind p, t_pl p).
Proof. destruct p; reflexivity. Qed.

Lemma classify_erase k pl : classify_kp (k, erase_c k pl) = classify_kp (k, pl).
Proof.
  unfold erase_c. destruct (String.eqb k "Comment") eqn:E; [|reflexivity].
  apply String.eqb_eq in E. subst k. destruct pl; reflexivity.
Qed.

Theorem classify_ckinds ts : map classify ts = map classify_kp (ckinds ts).
Proof.
  induction ts as [|p ts IH]; [reflexivity|]. unfold ckinds in *. cbn [map]. rewrite <- IH. f_equal.
  rewrite classify_erase. apply classify_kp_spec.
Qed.

Corollary same_ckinds_same_tokens ts ts' : ckinds ts = ckinds ts' -> map classify ts = map classify ts'.
Proof. intros H. rewrite !classify_ckinds, H. reflexivity. Qed.

(* the token list the parser model is run on *)
Definition parser_input (lt : Logos.table) (src : list N) : list tok := map classify (lex lt src).
